(* Model of deap/tools/emo.py: sortLogNondominated (Fortin et al. 2013) and all its helpers:
   isDominated, median, sortNDHelperA, splitA, sweepA, sortNDHelperB, splitB, sweepB,
   bisect.bisect_right, max/min with key (first extremum), list insert / del.
   Statement-by-statement transcription; recursion depth is explicit fuel (None = exhausted).

   Values are integers.  `median` returns a mean of two values: the model carries the DOUBLED
   median (median2) and compares 2*x against it, which is exact for the integer-valued floats the
   harness feeds (sums below 2^53). *)
From Coq Require Import List ZArith Bool Lia.
From DV Require Import Base.PyTuple Base.PyList Model.C04_NDSort.
Import ListNotations.
Local Open Scope Z_scope.

(* ---- Python primitives ---- *)
(* t[i], negative indices allowed (IndexError never happens on equal-length tuples; default 0) *)
Definition item (f : wvals) (i : Z) : Z := match py_get f i with Some x => x | None => 0 end.

(* t[:stop] *)
Definition upto (f : wvals) (stop : Z) : wvals :=
  let n := zlen f in
  let e := if stop <? 0 then Z.max (stop + n) 0 else Z.min stop n in
  firstn (Z.to_nat e) f.

(* bisect.bisect_right(a, x): lo, hi = 0, len(a); while lo < hi: mid = (lo+hi)//2;
   if x < a[mid]: hi = mid else: lo = mid+1 *)
Fixpoint bisect_loop (fuel : nat) (a : list Z) (x lo hi : Z) : Z :=
  match fuel with
  | O => lo
  | S fu => if lo <? hi then
              let mid := (lo + hi) / 2 in
              if x <? item a mid then bisect_loop fu a x lo mid else bisect_loop fu a x (mid + 1) hi
            else lo
  end.
Definition bisect_right (a : list Z) (x : Z) : Z := bisect_loop (S (length a)) a x 0 (zlen a).

(* max(seq, key=k) / min(seq, key=k): first extremum *)
Fixpoint max_by {A} (key : A -> Z) (l : list A) (best : A) : A :=
  match l with [] => best | x :: r => if key x >? key best then max_by key r x else max_by key r best end.
Fixpoint min_by {A} (key : A -> Z) (l : list A) (best : A) : A :=
  match l with [] => best | x :: r => if key x <? key best then min_by key r x else min_by key r best end.
Definition py_max {A} (key : A -> Z) (l : list A) (d : A) : A := match l with [] => d | x :: r => max_by key r x end.
Definition py_min {A} (key : A -> Z) (l : list A) (d : A) : A := match l with [] => d | x :: r => min_by key r x end.

(* l.insert(i, x) for 0 <= i ; del l[i] *)
Definition insert_at {A} (i : nat) (x : A) (l : list A) : list A := firstn i l ++ x :: skipn i l.
Definition remove_at {A} (i : nat) (l : list A) : list A := firstn i l ++ skipn (S i) l.

Fixpoint find_index {A} (p : A -> bool) (l : list A) : option nat :=
  match l with [] => None | x :: r => if p x then Some O else option_map S (find_index p r) end.

(* sorted(l) on numbers (only the sorted KEYS matter for median) *)
Fixpoint ins_asc (x : Z) (l : list Z) : list Z :=
  match l with [] => [x] | y :: r => if x <? y then x :: l else y :: ins_asc x r end.
Definition sort_asc (l : list Z) : list Z := fold_left (fun acc x => ins_asc x acc) l [].

(* list.sort(reverse=True) on tuples: stable, descending, only `<` is used *)
Fixpoint ins_desc (x : wvals) (l : list wvals) : list wvals :=
  match l with [] => [x] | y :: r => if tup_lt y x then x :: l else y :: ins_desc x r end.
Definition sort_desc (l : list wvals) : list wvals := fold_left (fun acc x => ins_desc x acc) l [].

(* ---- isDominated(wvalues1, wvalues2): wvalues2 dominates wvalues1 ---- *)
Fixpoint is_dominated_loop (ps : list (Z * Z)) (not_equal : bool) : bool :=
  match ps with
  | [] => not_equal
  | (s, o) :: r => if s >? o then false
                   else if s <? o then is_dominated_loop r true else is_dominated_loop r not_equal
  end.
Definition is_dominated (w1 w2 : wvals) : bool := is_dominated_loop (zip w1 w2) false.

(* ---- median(seq, key), doubled ---- *)
Definition median2 (keys : list Z) : Z :=
  let s := sort_asc keys in
  let n := zlen keys in
  if n mod 2 =? 1 then 2 * item s ((n - 1) / 2)
  else item s ((n - 1) / 2) + item s (n / 2).

Definition fmap := kmap Z.
Definition fget (front : fmap) (f : wvals) : Z := kget front f 0.
Definition fbump (front : fmap) (f g : wvals) : fmap :=   (* front[f] = max(front[f], front[g] + 1) *)
  kset front f (Z.max (fget front f) (fget front g + 1)).

(* ---- splitA ---- *)
Definition gt_med (m2 : Z) (obj : Z) (f : wvals) : bool := 2 * item f obj >? m2.
Definition lt_med (m2 : Z) (obj : Z) (f : wvals) : bool := 2 * item f obj <? m2.

Definition splitA (fs : list wvals) (obj : Z) : list wvals * list wvals :=
  let m2 := median2 (map (fun f => item f obj) fs) in
  let best_a := filter (fun f => gt_med m2 obj f || negb (lt_med m2 obj f)) fs in
  let worst_a := filter (fun f => negb (gt_med m2 obj f) && lt_med m2 obj f) fs in
  let best_b := filter (fun f => gt_med m2 obj f) fs in
  let worst_b := filter (fun f => negb (gt_med m2 obj f)) fs in
  let balance_a := Z.abs (zlen best_a - zlen worst_a) in
  let balance_b := Z.abs (zlen best_b - zlen worst_b) in
  if balance_a <=? balance_b then (best_a, worst_a) else (best_b, worst_b).

(* ---- splitB ---- *)
Definition splitB (best worst : list wvals) (obj : Z) : list wvals * list wvals * list wvals * list wvals :=
  let m2 := median2 (map (fun f => item f obj) (if zlen best >? zlen worst then best else worst)) in
  let hi_a := fun f => gt_med m2 obj f || negb (lt_med m2 obj f) in
  let lo_a := fun f => negb (gt_med m2 obj f) && lt_med m2 obj f in
  let hi_b := fun f => gt_med m2 obj f in
  let lo_b := fun f => negb (gt_med m2 obj f) in
  let best1_a := filter hi_a best in let best2_a := filter lo_a best in
  let best1_b := filter hi_b best in let best2_b := filter lo_b best in
  let worst1_a := filter hi_a worst in let worst2_a := filter lo_a worst in
  let worst1_b := filter hi_b worst in let worst2_b := filter lo_b worst in
  let balance_a := Z.abs (zlen best1_a - zlen best2_a + zlen worst1_a - zlen worst2_a) in
  let balance_b := Z.abs (zlen best1_b - zlen best2_b + zlen worst1_b - zlen worst2_b) in
  if balance_a <=? balance_b then (best1_a, best2_a, worst1_a, worst2_a)
  else (best1_b, best2_b, worst1_b, worst2_b).

(* ---- sweepA ---- *)
Record sweep := mksw { sw_stairs : list Z; sw_fstairs : list wvals; sw_front : fmap }.

Definition sweep_rank (stairs : list Z) (fstairs : list wvals) (front : fmap) (fit : wvals) : Z * fmap :=
  (* idx = bisect_right(stairs, -fit[1]); if 0 < idx <= len(stairs): fstair = max(fstairs[:idx], key=front.__getitem__);
     front[fit] = max(front[fit], front[fstair] + 1) *)
  let idx := bisect_right stairs (- item fit 1) in
  if (0 <? idx) && (idx <=? zlen stairs) then
    let fstair := py_max (fget front) (firstn (Z.to_nat idx) fstairs) fit in
    (idx, fbump front fit fstair)
  else (idx, front).

Definition sweepA_step (s : sweep) (fit : wvals) : sweep :=
  let '(idx, front) := sweep_rank (sw_stairs s) (sw_fstairs s) (sw_front s) fit in
  let i := Z.to_nat idx in
  (* for i, fstair in enumerate(fstairs[idx:], idx): if front[fstair] == front[fit]: del stairs[i]; del fstairs[i]; break *)
  let '(stairs, fstairs) :=
    match find_index (fun f => fget front f =? fget front fit) (skipn i (sw_fstairs s)) with
    | Some j => (remove_at (i + j) (sw_stairs s), remove_at (i + j) (sw_fstairs s))
    | None => (sw_stairs s, sw_fstairs s)
    end in
  mksw (insert_at i (- item fit 1) stairs) (insert_at i fit fstairs) front.

Definition sweepA (fs : list wvals) (front : fmap) : fmap :=
  match fs with
  | [] => front   (* fitnesses[0] would raise; never called on an empty list *)
  | f0 :: r => sw_front (fold_left sweepA_step r (mksw [- item f0 1] [f0] front))
  end.

(* ---- sweepB ---- *)
(* one pass of the body of `while next_best and h[:2] <= next_best[:2]` for next_best = nb *)
Definition sweepB_insert (front : fmap) (stairs : list Z) (fstairs : list wvals) (nb : wvals) : list Z * list wvals :=
  let ins := fun (st : list Z) (fst_ : list wvals) =>
    let idx := Z.to_nat (bisect_right st (- item nb 1)) in
    (insert_at idx (- item nb 1) st, insert_at idx nb fst_) in
  match find_index (fun f => fget front f =? fget front nb) fstairs with
  | Some i =>
      let fstair := nth i fstairs nb in
      if item fstair 1 >? item nb 1 then (stairs, fstairs)
      else ins (remove_at i stairs) (remove_at i fstairs)
  | None => ins stairs fstairs
  end.

Fixpoint sweepB_consume (front : fmap) (h : wvals) (rest : list wvals) (stairs : list Z) (fstairs : list wvals)
  : list wvals * list Z * list wvals :=
  match rest with
  | [] => ([], stairs, fstairs)
  | nb :: r =>
      if tup_le (upto h 2) (upto nb 2) then
        let '(st, fst_) := sweepB_insert front stairs fstairs nb in
        sweepB_consume front h r st fst_
      else (rest, stairs, fstairs)
  end.

Definition sweepB_step (acc : list wvals * sweep) (h : wvals) : list wvals * sweep :=
  let '(rest, s) := acc in
  let '(rest', stairs, fstairs) := sweepB_consume (sw_front s) h rest (sw_stairs s) (sw_fstairs s) in
  let '(_, front) := sweep_rank stairs fstairs (sw_front s) h in
  (rest', mksw stairs fstairs front).

Definition sweepB (best worst : list wvals) (front : fmap) : fmap :=
  sw_front (snd (fold_left sweepB_step worst (best, mksw [] [] front))).

(* ---- sortNDHelperB ---- *)
Definition weakly_dominated_upto (obj : Z) (hi li : wvals) : bool :=
  is_dominated (upto hi (obj + 1)) (upto li (obj + 1)) || key_eqb (upto hi (obj + 1)) (upto li (obj + 1)).

Definition helperB_direct (best worst : list wvals) (obj : Z) (front : fmap) : fmap :=
  fold_left (fun fr hi => fold_left (fun fr li => if weakly_dominated_upto obj hi li then fbump fr hi li else fr) best fr)
            worst front.

Fixpoint helperB (fuel : nat) (best worst : list wvals) (obj : Z) (front : fmap) : option fmap :=
  match fuel with
  | O => None
  | S fu =>
      let key := fun f => item f obj in
      if (zlen worst =? 0) || (zlen best =? 0) then Some front
      else if (zlen best =? 1) || (zlen worst =? 1) then Some (helperB_direct best worst obj front)
      else if obj =? 1 then Some (sweepB best worst front)
      else if key (py_min key best []) >=? key (py_max key worst []) then helperB fu best worst (obj - 1) front
      else if key (py_max key best []) >=? key (py_min key worst []) then
        let '(best1, best2, worst1, worst2) := splitB best worst obj in
        match helperB fu best1 worst1 obj front with
        | None => None
        | Some f1 =>
            match helperB fu best1 worst2 (obj - 1) f1 with
            | None => None
            | Some f2 => helperB fu best2 worst2 obj f2
            end
        end
      else Some front
  end.

(* ---- sortNDHelperA ---- *)
Fixpoint distinct (l : list Z) : list Z :=   (* frozenset(...) as a duplicate-free list *)
  match l with [] => [] | x :: r => if existsb (Z.eqb x) r then distinct r else x :: distinct r end.

Fixpoint helperA (fuel : nat) (fs : list wvals) (obj : Z) (front : fmap) : option fmap :=
  match fuel with
  | O => None
  | S fu =>
      if zlen fs <? 2 then Some front
      else if zlen fs =? 2 then
        match fs with
        | [s1; s2] => if is_dominated (upto s2 (obj + 1)) (upto s1 (obj + 1)) then Some (fbump front s2 s1) else Some front
        | _ => None
        end
      else if obj =? 1 then Some (sweepA fs front)
      else if zlen (distinct (map (fun f => item f obj) fs)) =? 1 then helperA fu fs (obj - 1) front
      else
        let '(best, worst) := splitA fs obj in
        match helperA fu best obj front with
        | None => None
        | Some f1 =>
            match helperB fu best worst (obj - 1) f1 with
            | None => None
            | Some f2 => helperA fu worst obj f2
            end
        end
  end.

(* ---- sortLogNondominated ---- *)
Inductive log_result :=
| LFronts (fronts : list (list ind))    (* list of fronts *)
| LFlat (front0 : list ind).            (* first_front_only: pareto_fronts[0], a flat list *)

(* unique_fits[ind.fitness.wvalues].append(ind): same grouping as map_fit_ind (tuple keys) *)
Fixpoint app_at {A} (l : list (list A)) (i : nat) (x : list A) : list (list A) :=
  match l, i with
  | [], _ => []          (* IndexError; impossible since index <= max(front.values()) *)
  | y :: r, O => (y ++ x) :: r
  | y :: r, S i' => y :: app_at r i' x
  end.

Definition zmax_list (l : list Z) (d : Z) : Z := match l with [] => d | x :: r => fold_left Z.max r x end.

(* for i, front in enumerate(pareto_fronts): count += len(front); if count >= k: return pareto_fronts[:i+1] *)
Fixpoint log_cut {A} (k count : Z) (fs : list (list A)) : list (list A) :=
  match fs with
  | [] => []
  | F :: r => let c := count + zlen F in if c >=? k then [F] else F :: log_cut k c r
  end.

Definition log_fuel (n : nat) (obj : Z) : nat := S (S (n + Z.to_nat obj)).

Definition log_ranks (pop : list ind) : option (list wvals * fmap) :=
  match pop with
  | [] => None   (* individuals[0] raises IndexError *)
  | x0 :: _ =>
      let uf := group_inds pop in
      let obj := zlen (iw x0) - 1 in
      let fitnesses := kkeys uf in
      let front0 : fmap := map (fun f => (f, 0)) fitnesses in      (* dict.fromkeys(fitnesses, 0) *)
      let sorted := sort_desc fitnesses in
      match helperA (log_fuel (length sorted) obj) sorted obj front0 with
      | None => None
      | Some front => Some (sorted, front)
      end
  end.

Definition log_extract (pop : list ind) (sorted : list wvals) (front : fmap) : list (list ind) :=
  let uf := group_inds pop in
  let nbfronts := zmax_list (map snd front) 0 + 1 in
  fold_left (fun pf fit => app_at pf (Z.to_nat (fget front fit)) (kget uf fit []))
            sorted (repeat [] (Z.to_nat nbfronts)).

Definition sort_log (pop : list ind) (k : Z) (first_front_only : bool) : option log_result :=
  if k =? 0 then Some (LFronts []) else
  match log_ranks pop with
  | None => None
  | Some (sorted, front) =>
      let pf := log_extract pop sorted front in
      if first_front_only then Some (LFlat (nth 0 pf []))
      else Some (LFronts (log_cut k 0 pf))
  end.

(* fronts as a list of fronts whatever the return shape (DESIGN Appendix B item 3) *)
Definition log_fronts (r : log_result) : list (list ind) :=
  match r with LFronts fs => fs | LFlat f => [f] end.
