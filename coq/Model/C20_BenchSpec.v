(* C20: the PUBLISHED definitions of the DEAP benchmark functions, transcribed by hand from the
   docstrings of deap/benchmarks/{__init__,binary,gp,movingpeaks,tools}.py and the cited papers
   (Deb et al. 2002 for DTLZ, Zitzler et al. 2000 for ZDT, Hansen & Kern 2004 for the Rastrigin
   variants, Branke 1999 for the moving peaks, Mitchell for the royal roads, Chuang & Hsu for the
   deceptive functions).  Nothing here is derived from the code: Proofs/C20_GenEq.v proves that the
   definitions REGENERATED from the source on every run (coq/Gen/C20_bench_gen.v) are equal to
   these, over the reals, for every input.

   The definitions are generic in the class Num (Base/C20_Num.v), so they can also be evaluated
   on primitive floats (used when the translator refuses a function: the function is then tied
   by correspondence only).

   Conventions: x is the gene list, 0-based (x_ i = x_{i+1} of the papers), N = length x.
   sum_over / prod_over are the finite sum and product over a list. *)
From Coq Require Import ZArith List Bool Floats.
From DV Require Import Base.PyList Base.C20_FloatFun Base.C20_Num.
Import ListNotations.

Declare Scope num_scope.
Delimit Scope num_scope with num.
Infix "+" := nadd : num_scope.
Infix "-" := nsub : num_scope.
Infix "*" := nmul : num_scope.
Infix "/" := ndiv : num_scope.
Notation "- x" := (nneg x) : num_scope.
Infix "^" := npown : num_scope.

Section Helpers.
Context {T : Type} `{Num T}.
Local Open Scope num_scope.

(* decimal constant n/d as written in the papers (e.g. dec 2 10 = 0.2); the float component is the
   correctly rounded quotient, i.e. the binary64 value of the decimal *)
Definition dec (n : Z) (d : positive) : T :=
  let g := Z.gcd n (Zpos d) in
  nlit (n / g)%Z (Z.to_pos (Zpos d / g)) (PrimFloat.div (f_ofZ n) (f_ofpos d)).
Definition int (z : Z) : T := nofZ z.
Definition natT (n : nat) : T := nofZ (Z.of_nat n).

Definition x_ (x : list T) (i : nat) : T := nth i x (int 0).
Definition sum_over {A} (f : A -> T) (l : list A) : T := nsum (map f l).
Definition prod_over {A} (f : A -> T) (l : list A) : T := fold_right nmul (int 1) (map f l).
(* consecutive pairs (x_i, x_{i+1}), i = 0 .. N-2 *)
Definition consec (x : list T) : list (T * T) := zip x (tl x).
(* (i, x_i), i = 0 .. N-1 *)
Definition indexed (x : list T) : list (nat * T) := combine (seq 0 (length x)) x.
Definition sq (a : T) : T := a ^ 2.
End Helpers.

Section Continuous.
Context {T : Type} `{Num T}.
Local Open Scope num_scope.
Let N (x : list T) : T := natT (length x).

(* f(x) = x_0 *)
Definition spec_bm_plane (x : list T) : list T := [x_ x 0].
(* f(x) = sum x_i^2 *)
Definition spec_bm_sphere (x : list T) : list T := [sum_over sq x].
(* f(x) = x_0^2 + 10^6 sum_{i>=1} x_i^2 *)
Definition spec_bm_cigar (x : list T) : list T := [sq (x_ x 0) + int 1000000 * sum_over sq (tl x)].
(* f(x) = sum_{i<N-1} (1-x_i)^2 + 100 (x_{i+1} - x_i^2)^2 *)
Definition spec_bm_rosenbrock (x : list T) : list T :=
  [sum_over (fun p => sq (int 1 - fst p) + int 100 * sq (snd p - sq (fst p))) (consec x)].
(* f(x) = (sin(x1 - x2/8)^2 + sin(x2 + x1/8)^2) / (sqrt((x1-8.6998)^2 + (x2-6.7665)^2) + 1) *)
Definition spec_bm_h1 (x : list T) : list T :=
  let x1 := x_ x 0 in let x2 := x_ x 1 in
  [(sq (nsin (x1 - x2 / int 8)) + sq (nsin (x2 + x1 / int 8)))
   / (nsqrt (sq (x1 - dec 86998 10000) + sq (x2 - dec 67665 10000)) + int 1)].
(* f(x) = 20 - 20 exp(-0.2 sqrt(1/N sum x_i^2)) + e - exp(1/N sum cos(2 pi x_i)) *)
Definition spec_bm_ackley (x : list T) : list T :=
  [int 20 - int 20 * nexp (- (dec 2 10) * nsqrt (int 1 / N x * sum_over sq x))
   + ne - nexp (int 1 / N x * sum_over (fun xi => ncos (int 2 * npi * xi)) x)].
(* f(x) = sum_{i<N-1} x_i^2 + 2 x_{i+1}^2 - 0.3 cos(3 pi x_i) - 0.4 cos(4 pi x_{i+1}) + 0.7 *)
Definition spec_bm_bohachevsky (x : list T) : list T :=
  [sum_over (fun p => sq (fst p) + int 2 * sq (snd p) - dec 3 10 * ncos (int 3 * npi * fst p)
                      - dec 4 10 * ncos (int 4 * npi * snd p) + dec 7 10) (consec x)].
(* f(x) = 1/4000 sum x_i^2 - prod cos(x_i / sqrt(i)) + 1   (i = 1..N) *)
Definition spec_bm_griewank (x : list T) : list T :=
  [int 1 / int 4000 * sum_over sq x
   - prod_over (fun p => ncos (snd p / nsqrt (natT (S (fst p))))) (indexed x) + int 1].
(* f(x) = 10 N + sum x_i^2 - 10 cos(2 pi x_i) *)
Definition spec_bm_rastrigin (x : list T) : list T :=
  [int 10 * N x + sum_over (fun xi => sq xi - int 10 * ncos (int 2 * npi * xi)) x].
(* f(x) = 10 N + sum (10^((i-1)/(N-1)) x_i)^2 - 10 cos(2 pi 10^((i-1)/(N-1)) x_i)   (i = 1..N) *)
Definition spec_bm_rastrigin_scaled (x : list T) : list T :=
  let s (i : nat) := npow (int 10) (natT i / (N x - int 1)) in
  [int 10 * N x + sum_over (fun p => sq (s (fst p) * snd p) - int 10 * ncos (int 2 * npi * s (fst p) * snd p)) (indexed x)].
(* f(x) = 10 N + sum y_i^2 - 10 cos(2 pi y_i),  y_i = 10 x_i if x_i > 0 else x_i  (Hansen & Kern 2004) *)
Definition spec_bm_rastrigin_skew (x : list T) : list T :=
  let y (xi : T) := if ngtb xi (int 0) then int 10 * xi else xi in
  [int 10 * N x + sum_over (fun xi => sq (y xi) - int 10 * ncos (int 2 * npi * y xi)) x].
(* f(x) = sum_{i<N-1} (x_i^2 + x_{i+1}^2)^0.25 (sin^2(50 (x_i^2 + x_{i+1}^2)^0.1) + 1) *)
Definition spec_bm_schaffer (x : list T) : list T :=
  [sum_over (fun p => let r := sq (fst p) + sq (snd p) in
                      npow r (dec 25 100) * (sq (nsin (int 50 * npow r (dec 1 10))) + int 1)) (consec x)].
(* f(x) = 418.9828872724339 N - sum x_i sin(sqrt |x_i|) *)
Definition spec_bm_schwefel (x : list T) : list T :=
  [dec 4189828872724339 10000000000000 * N x - sum_over (fun xi => xi * nsin (nsqrt (nabs xi))) x].
(* f(x1, x2) = (x1^2 + x2 - 11)^2 + (x1 + x2^2 - 7)^2 *)
Definition spec_bm_himmelblau (x : list T) : list T :=
  let x1 := x_ x 0 in let x2 := x_ x 1 in
  [sq (sq x1 + x2 - int 11) + sq (x1 + sq x2 - int 7)].
(* f(x) = sum_{i<M} 1 / (c_i + sum_j (x_j - a_ij)^2) *)
Definition spec_bm_shekel (x : list T) (a : list (list T)) (c : list T) : list T :=
  [sum_over (fun i => int 1 / (nth i c (int 0)
              + sum_over (fun q => sq (x_ x (fst q) - snd q)) (indexed (nth i a []))))
            (seq 0 (length c))].
End Continuous.

Section MultiObjective.
Context {T : Type} `{Num T}.
Local Open Scope num_scope.

(* f1 = sum_{i<N-1} -10 exp(-0.2 sqrt(x_i^2 + x_{i+1}^2));  f2 = sum |x_i|^0.8 + 5 sin(x_i^3) *)
Definition spec_bm_kursawe (x : list T) : list T :=
  [sum_over (fun p => int (-10) * nexp (- (dec 2 10) * nsqrt (sq (fst p) + sq (snd p)))) (consec x);
   sum_over (fun xi => npow (nabs xi) (dec 8 10) + int 5 * nsin (xi ^ 3)) x].
(* f1 = x^2, f2 = (x-2)^2 *)
Definition spec_bm_schaffer_mo (x : list T) : list T := [sq (x_ x 0); sq (x_ x 0 - int 2)].

(* ZDT: g, f1 = x_1, f2 = g h(f1, g) *)
Definition zdt_g (x : list T) : T :=
  int 1 + int 9 * sum_over (fun xi => xi) (tl x) / (natT (length x) - int 1).
Definition zdt4_g (x : list T) : T :=
  int 1 + int 10 * (natT (length x) - int 1)
  + sum_over (fun xi => sq xi - int 10 * ncos (int 4 * npi * xi)) (tl x).
Definition zdt6_g (x : list T) : T :=
  int 1 + int 9 * npow (sum_over (fun xi => xi) (tl x) / (natT (length x) - int 1)) (dec 25 100).
Definition zdt1_h (f1 g : T) : T := int 1 - nsqrt (f1 / g).
Definition zdt2_h (f1 g : T) : T := int 1 - sq (f1 / g).
Definition zdt3_h (f1 g : T) : T := int 1 - nsqrt (f1 / g) - f1 / g * nsin (int 10 * npi * f1).
Definition zdt6_f1 (x : list T) : T :=
  int 1 - nexp (int (-4) * x_ x 0) * (nsin (int 6 * npi * x_ x 0)) ^ 6.
Definition spec_bm_zdt1 (x : list T) : list T := [x_ x 0; zdt_g x * zdt1_h (x_ x 0) (zdt_g x)].
Definition spec_bm_zdt2 (x : list T) : list T := [x_ x 0; zdt_g x * zdt2_h (x_ x 0) (zdt_g x)].
Definition spec_bm_zdt3 (x : list T) : list T := [x_ x 0; zdt_g x * zdt3_h (x_ x 0) (zdt_g x)].
Definition spec_bm_zdt4 (x : list T) : list T := [x_ x 0; zdt4_g x * zdt1_h (x_ x 0) (zdt4_g x)].
Definition spec_bm_zdt6 (x : list T) : list T := [zdt6_f1 x; zdt6_g x * zdt2_h (zdt6_f1 x) (zdt6_g x)].

(* DTLZ.  M objectives; position variables xc = x_1..x_{M-1}, distance variables xm = x_M..x_n. *)
Definition dtlz_xc (x : list T) (M : Z) : list T := firstn (Z.to_nat (M - 1)) x.
Definition dtlz_xm (x : list T) (M : Z) : list T := skipn (Z.to_nat (M - 1)) x.
(* g of DTLZ1 / DTLZ3 *)
Definition dtlz_g13 (xm : list T) : T :=
  int 100 * (natT (length xm)
             + sum_over (fun xi => sq (xi - dec 5 10) - ncos (int 20 * npi * (xi - dec 5 10))) xm).
(* g of DTLZ2 / 4 / 5 *)
Definition dtlz_g2 (xm : list T) : T := sum_over (fun xi => sq (xi - dec 5 10)) xm.
Definition dtlz_g6 (xm : list T) : T := sum_over (fun xi => npow xi (dec 1 10)) xm.
Definition dtlz_g7 (xm : list T) : T :=
  int 1 + int 9 / natT (length xm) * sum_over (fun xi => xi) xm.

(* DTLZ1 shape: (r x_1...x_{M-1}, r x_1...x_{M-2}(1-x_{M-1}), ..., r x_1 (1-x_2), r (1-x_1)) *)
Fixpoint simplex (r : T) (xc : list T) : list T :=
  match xc with
  | [] => [r]
  | x1 :: rest => simplex (r * x1) rest ++ [r * (int 1 - x1)]
  end.
(* DTLZ2-6 shape (hyperspherical coordinates):
   (r cos t_1...cos t_{M-1}, r cos t_1...cos t_{M-2} sin t_{M-1}, ..., r cos t_1 sin t_2, r sin t_1) *)
Fixpoint sphere_coords (r : T) (angles : list T) : list T :=
  match angles with
  | [] => [r]
  | t1 :: rest => sphere_coords (r * ncos t1) rest ++ [r * nsin t1]
  end.

Definition spec_bm_dtlz1 (x : list T) (M : Z) : list T :=
  simplex (dec 5 10 * (int 1 + dtlz_g13 (dtlz_xm x M))) (dtlz_xc x M).
Definition spec_bm_dtlz2 (x : list T) (M : Z) : list T :=
  sphere_coords (int 1 + dtlz_g2 (dtlz_xm x M)) (map (fun xi => dec 5 10 * xi * npi) (dtlz_xc x M)).
Definition spec_bm_dtlz3 (x : list T) (M : Z) : list T :=
  sphere_coords (int 1 + dtlz_g13 (dtlz_xm x M)) (map (fun xi => dec 5 10 * xi * npi) (dtlz_xc x M)).
Definition spec_bm_dtlz4 (x : list T) (M : Z) (alpha : T) : list T :=
  sphere_coords (int 1 + dtlz_g2 (dtlz_xm x M)) (map (fun xi => dec 5 10 * npow xi alpha * npi) (dtlz_xc x M)).
(* DTLZ5/6: theta_1 = x_1 pi/2, theta_i = pi/(4(1+g)) (1 + 2 g x_i), i = 2..M-1 *)
Definition dtlz56_angles (g : T) (xc : list T) : list T :=
  match xc with
  | [] => []
  | x1 :: rest => (npi / int 2 * x1) :: map (fun xi => npi / (int 4 * (int 1 + g)) * (int 1 + int 2 * g * xi)) rest
  end.
Definition spec_bm_dtlz5 (x : list T) (M : Z) : list T :=
  let g := dtlz_g2 (dtlz_xm x M) in sphere_coords (int 1 + g) (dtlz56_angles g (dtlz_xc x M)).
Definition spec_bm_dtlz6 (x : list T) (M : Z) : list T :=
  let g := dtlz_g6 (dtlz_xm x M) in sphere_coords (int 1 + g) (dtlz56_angles g (dtlz_xc x M)).
(* DTLZ7: f_i = x_i (i < M), f_M = (1+g) (M - sum_{i<M} f_i/(1+g) (1 + sin(3 pi f_i))) *)
Definition spec_bm_dtlz7 (x : list T) (M : Z) : list T :=
  let g := dtlz_g7 (dtlz_xm x M) in
  dtlz_xc x M ++
  [(int 1 + g) * (int M - sum_over (fun fi => fi / (int 1 + g) * (int 1 + nsin (int 3 * npi * fi))) (dtlz_xc x M))].

(* f1 = 1 - exp(-sum_{i<=3} (x_i - 1/sqrt 3)^2), f2 = 1 - exp(-sum_{i<=3} (x_i + 1/sqrt 3)^2) *)
Definition spec_bm_fonseca (x : list T) : list T :=
  [int 1 - nexp (- sum_over (fun xi => sq (xi - int 1 / nsqrt (int 3))) (firstn 3 x));
   int 1 - nexp (- sum_over (fun xi => sq (xi + int 1 / nsqrt (int 3))) (firstn 3 x))].
Definition poloni_B1 (x1 x2 : T) : T :=
  dec 5 10 * nsin x1 - int 2 * ncos x1 + nsin x2 - dec 15 10 * ncos x2.
Definition poloni_B2 (x1 x2 : T) : T :=
  dec 15 10 * nsin x1 - ncos x1 + int 2 * nsin x2 - dec 5 10 * ncos x2.
Definition spec_bm_poloni (x : list T) : list T :=
  let x1 := x_ x 0 in let x2 := x_ x 1 in
  [int 1 + sq (poloni_B1 (int 1) (int 2) - poloni_B1 x1 x2) + sq (poloni_B2 (int 1) (int 2) - poloni_B2 x1 x2);
   sq (x1 + int 3) + sq (x2 + int 1)].
(* Dent: d = lambda exp(-(x1-x2)^2); f1,2 = 1/2 (sqrt(1+(x1+x2)^2) + sqrt(1+(x1-x2)^2) +- (x1 - x2)) + d *)
Definition spec_bm_dent (x : list T) (lambda : T) : list T :=
  let x1 := x_ x 0 in let x2 := x_ x 1 in
  let d := lambda * nexp (- sq (x1 - x2)) in
  let s := nsqrt (int 1 + sq (x1 + x2)) + nsqrt (int 1 + sq (x1 - x2)) in
  [dec 5 10 * (s + x1 - x2) + d; dec 5 10 * (s - x1 + x2) + d].
End MultiObjective.

(* ---------------- binary (integers) ---------------- *)
Local Open Scope Z_scope.
Definition is_bit (v : Z) : Prop := v = 0 \/ v = 1.
Definition ones (b : list Z) : Z := fold_right Z.add 0 b.
(* trap: k if all ones, else k - 1 - u;   inverse trap: k if all zeros, else u - 1 *)
Definition spec_bin_trap (b : list Z) : Z :=
  let u := ones b in let k := zlen b in if u =? k then k else k - 1 - u.
Definition spec_bin_inv_trap (b : list Z) : Z :=
  let u := ones b in let k := zlen b in if u =? 0 then k else u - 1.
(* block of w bits starting at bit s *)
Definition block (b : list Z) (s w : nat) : list Z := firstn w (skipn s b).
(* starts 0, step, 2 step, ... below stop *)
Definition starts (from stop step : nat) : list nat :=
  map (fun j => (from + j * step)%nat) (seq 0 ((stop - from + step - 1) / step)).
Definition last_bit (b : list Z) : Z := nth (length b - 1) b 0.
Definition last2_bit (b : list Z) : Z := nth (length b - 2) b 0.
Definition zsum_over {A} (f : A -> Z) (l : list A) : Z := fold_right Z.add 0 (map f l).

(* Chuang & Hsu f1: 40+1 bits; the last bit selects trap / inverse trap on the ten 4-bit blocks *)
Definition spec_bin_chuang_f1 (b : list Z) : list Z :=
  let f := if last_bit b =? 0 then spec_bin_inv_trap else spec_bin_trap in
  [zsum_over (fun s => f (block b s 4)) (starts 0 (length b - 1) 4)].
(* f2: 40+2 bits; the two last bits select the function of the first / second 4-bit half of each 8-bit block *)
Definition spec_bin_chuang_f2 (b : list Z) : list Z :=
  let f := if last2_bit b =? 0 then spec_bin_inv_trap else spec_bin_trap in
  let g := if last_bit b =? 0 then spec_bin_inv_trap else spec_bin_trap in
  [zsum_over (fun s => f (block b s 4) + g (block b (s + 4) 4)) (starts 0 (length b - 2) 8)].
(* f3: last bit 0: inverse traps on the blocks; else inverse traps on the blocks shifted by two bits plus a
   trap on the wrap-around block (two bits before the last... and the first two) *)
Definition spec_bin_chuang_f3 (b : list Z) : list Z :=
  if last_bit b =? 0 then [zsum_over (fun s => spec_bin_inv_trap (block b s 4)) (starts 0 (length b - 1) 4)]
  else [zsum_over (fun s => spec_bin_inv_trap (block b s 4)) (starts 2 (length b - 3) 4)
        + spec_bin_trap (skipn (length b - 2) b ++ firstn 2 b)].
(* Royal road R1: each complete block of `order` bits that is all ones contributes `order` *)
Definition all_ones (b : list Z) : bool := forallb (fun v => v =? 1) b.
Definition spec_bin_royal_road1 (b : list Z) (order : Z) : list Z :=
  let w := Z.to_nat order in
  [zsum_over (fun j => if all_ones (block b (j * w) w) then order else 0) (seq 0 (length b / w))].
(* R2: R1 summed over the block sizes order, 2 order, 4 order, ... below order^2 *)
Fixpoint rr2_orders (fuel : nat) (n bound : Z) : list Z :=
  match fuel with
  | O => []
  | S k => if n <? bound then n :: rr2_orders k (2 * n) bound else []
  end.
Definition spec_bin_royal_road2 (b : list Z) (order : Z) : option (list Z) :=
  Some [zsum_over (fun n => nth 0 (spec_bin_royal_road1 b n) 0) (rr2_orders (S (Z.to_nat order)) order (order * order))].
Local Close Scope Z_scope.

Section Rest.
Context {T : Type} `{Num T}.
Local Open Scope num_scope.

(* bin2float: decoded_i = min + int(bits of group i) / (2^nbits - 1) * (max - min) *)
Definition bits_value (b : list Z) : Z := fold_left (fun acc v => (2 * acc + v)%Z) b 0%Z.
Definition spec_bin2float_arg (mn mx : T) (nbits : Z) (b : list Z) : list T :=
  let w := Z.to_nat nbits in
  map (fun i => mn + int (bits_value (block b (i * w) w)) / int (2 ^ nbits - 1) * (mx - mn))
      (seq 0 (length b / w)).

(* ---------------- symbolic regression targets ---------------- *)
Definition spec_gp_kotanchek (d : list T) : T :=
  nexp (- sq (x_ d 0 - int 1)) / (dec 32 10 + sq (x_ d 1 - dec 25 10)).
Definition salustowicz (x : T) : T :=
  nexp (- x) * x ^ 3 * ncos x * nsin x * (ncos x * sq (nsin x) - int 1).
Definition spec_gp_salustowicz_1d (d : list T) : T := salustowicz (x_ d 0).
Definition spec_gp_salustowicz_2d (d : list T) : T := salustowicz (x_ d 0) * (x_ d 1 - int 5).
Definition spec_gp_unwrapped_ball (d : list T) : T :=
  int 10 / (int 5 + sum_over (fun xi => sq (xi - int 3)) d).
Definition spec_gp_rational_polynomial (d : list T) : T :=
  int 30 * (x_ d 0 - int 1) * (x_ d 2 - int 1) / (sq (x_ d 1) * (x_ d 0 - int 10)).
Definition spec_gp_sin_cos (d : list T) : T := int 6 * nsin (x_ d 0) * ncos (x_ d 1).
Definition spec_gp_ripple (d : list T) : T :=
  (x_ d 0 - int 3) * (x_ d 1 - int 3) + int 2 * nsin ((x_ d 0 - int 4) * (x_ d 1 - int 4)).
Definition spec_gp_rational_polynomial2 (d : list T) : T :=
  ((x_ d 0 - int 3) ^ 4 + (x_ d 1 - int 3) ^ 3 - (x_ d 1 - int 3)) / ((x_ d 1 - int 2) ^ 4 + int 10).

(* ---------------- moving peaks ---------------- *)
Definition dist2 (x p : list T) : T := sum_over (fun q => sq (fst q - snd q)) (zip x p).
(* cone: h - w sqrt(sum (x_i - p_i)^2)   (Branke, scenario 2) *)
Definition spec_mp_cone (x p : list T) (h w : T) : T := h - w * nsqrt (dist2 x p).
(* function1: h / (1 + w sum (x_i - p_i)^2)   (Branke 1999, scenario 1) *)
Definition spec_mp_function1 (x p : list T) (h w : T) : T := h / (int 1 + w * dist2 x p).
(* `sphere` has no documented formula in DEAP; this is the code's h * sum (x_i - p_i)^2
   (Branke's movpeaks.c has h - sum (x_i - p_i)^2: see design_notes/C20.md) *)
Definition spec_mp_sphere (x p : list T) (h w : T) : T := h * dist2 x p.

(* evaluation: the maximum over the peak functions (and the basis function, if any) *)
Definition peak_values (fs : list (list T -> list T -> T -> T -> T)) (ps : list (list T)) (hs ws : list T)
  (x : list T) : list T :=
  map (fun q => fst q x (fst (snd q)) (fst (snd (snd q))) (snd (snd (snd q)))) (zip fs (zip ps (zip hs ws))).
Definition spec_mp_call (fs : list (list T -> list T -> T -> T -> T)) (ps : list (list T)) (hs ws : list T)
  (basis : option (list T -> T)) (x : list T) : list T :=
  [pymax (int 0) (peak_values fs ps hs ws x ++ match basis with Some b => [b x] | None => [] end)].

(* changePeaks: new number of peaks.  u1 selects removal (u1 < 0.5) or addition; the amount is
   round(r u2 severity) limited by the distance to the configured minimum / maximum *)
Definition spec_mp_cp_count (minp maxp : Z) (sev : T) (n : Z) (u1 u2 : T) : Z :=
  let k := nround (int (maxp - minp) * u2 * sev) in
  if nltb u1 (dec 5 10) then (n - Z.max 0 (Z.min (n - minp) k))%Z else (n + Z.max 0 (Z.min (maxp - n) k))%Z.

(* ---------------- decorators: what the wrapped function is fed ---------------- *)
Definition spec_translate_arg (t x : list T) : list T := map (fun q => fst q - snd q) (zip x t).
Definition spec_scale_factor (s : list T) : list T := map (fun si => int 1 / si) s.
Definition spec_scale_arg (f x : list T) : list T := map (fun q => fst q * snd q) (zip x f).
Definition spec_rotate_arg (minv : list (list T)) (x : list T) : list T := matvec minv x.
Definition spec_noise_arg (fs : list (option T)) (x : list T) : list T := x.
Definition spec_noise_post (fs : list (option T)) (x : list T) (r : list T) : list T :=
  map (fun q => match snd q with None => fst q | Some d => fst q + d end) (zip r fs).
End Rest.
