(* Model of how PrimitiveSetTyped fills pset.primitives / pset.terminals (deap/gp.py `_add`,
   `__init__`, addPrimitive, addTerminal, addEphemeralConstant, terminalRatio counters).
   A table is the defaultdict in insertion order: list of (type, list of nodes).
   `sub a b` stands for issubclass(a, b). *)
From Coq Require Import List ZArith NArith Bool.
From DV Require Import Model.C11_GPTree.
Import ListNotations.
Local Open Scope Z_scope.

Definition tbl := list (ty * list node).

Definition has_key (d : tbl) (t : ty) : bool := existsb (fun p => N.eqb (fst p) t) d.

(* `if item not in new_list: new_list.append(item)` *)
Definition add_new (acc : list node) (x : node) : list node :=
  if existsb (node_eqb x) acc then acc else acc ++ [x].

Section PSet.
  Variable sub : ty -> ty -> bool.

  (* addType(dict_, ret_type) *)
  Definition add_type (d : tbl) (t : ty) : tbl :=
    if has_key d t then d
    else d ++ [(t, fold_left (fun acc p => if sub (fst p) t then fold_left add_new (snd p) acc else acc) d [])].

  (* for type_ in dict_: if issubclass(prim.ret, type_): dict_[type_].append(prim) *)
  Definition append_to (d : tbl) (x : node) : tbl :=
    map (fun p => if sub (nret x) (fst p) then (fst p, snd p ++ [x]) else p) d.

  Record pstate := mkpstate { s_prims : tbl; s_terms : tbl; s_tc : Z; s_pc : Z }.
  Definition empty_state := mkpstate [] [] 0 0.

  (* _add(prim); is_primitive = isinstance(prim, Primitive) *)
  Definition add (s : pstate) (is_primitive : bool) (x : node) : pstate :=
    let P := add_type (s_prims s) (nret x) in
    let T := add_type (s_terms s) (nret x) in
    if is_primitive then
      let P' := fold_left add_type (nargs x) P in
      let T' := fold_left add_type (nargs x) T in
      (* the loop registers each argument type in both dicts alternately; the dicts are independent *)
      mkpstate (append_to P' x) T' (s_tc s) (s_pc s)
    else
      mkpstate P (append_to T x) (s_tc s) (s_pc s).

  (* addPrimitive / addADF: _add then prims_count += 1; addTerminal / addEphemeralConstant /
     the ARGi terminals of __init__: _add then terms_count += 1 *)
  Definition add_counted (s : pstate) (op : bool * node) : pstate :=
    let s' := add s (fst op) (snd op) in
    if fst op then mkpstate (s_prims s') (s_terms s') (s_tc s') (s_pc s' + 1)
    else mkpstate (s_prims s') (s_terms s') (s_tc s' + 1) (s_pc s').

  Definition build (ops : list (bool * node)) : pstate := fold_left add_counted ops empty_state.

  (* the tables are defaultdict(list): READING pset.primitives[t] / pset.terminals[t] at a type that is not
     a key (generate(..., type_=t), mutInsert, ...) creates the key with an empty list; later _add calls append
     to it, but addType no longer collects the subclass items for it *)
  Definition touch (d : tbl) (t : ty) : tbl := if has_key d t then d else d ++ [(t, [])].

  Inductive pop := PAdd (is_primitive : bool) (x : node) | PTouchP (t : ty) | PTouchT (t : ty).
  Definition step_pop (s : pstate) (o : pop) : pstate :=
    match o with
    | PAdd b x => add_counted s (b, x)
    | PTouchP t => mkpstate (touch (s_prims s) t) (s_terms s) (s_tc s) (s_pc s)
    | PTouchT t => mkpstate (s_prims s) (touch (s_terms s) t) (s_tc s) (s_pc s)
    end.
  Definition run_pops (ops : list pop) : pstate := fold_left step_pop ops empty_state.
End PSet.
