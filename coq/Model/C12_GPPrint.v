(* Executable model of the printing / parsing / compiling part of deap/gp.py (property C12).
   No proofs here.

   gp.py                                       model
   ------------------------------------------  ------------------------------------------
   Primitive / Terminal / ephemeral instance   node (NPrim / NArg, NSym, NConst) ; an ephemeral *class*
                                               object stored in pset.mapping is NClass
   Primitive.format, Terminal.format           fmt
   PrimitiveTree.__str__                       unwind, str_step, str_tree   (stack of (prim, args))
   PrimitiveTree.from_string                   split / tokenize (Base/C12_Str), read_loop, read
   pset.arguments / mapping / Terminal.value   pset ; renameArguments = rename
   compile                                     compile  (code string -> parse_expr -> eval_expr)
   compileADF                                  compile_adf
   the meaning of a prefix tree                parse, eval_tree, eval_prefix, adf_env (independent of the
                                               printed string: recursive descent over the node list)
   CPython eval of the printed expression      lex (Base/C12_Str), pexpr/pargs, parse_expr, eval_expr  (TRUSTED to
                                               agree with CPython on this call-expression fragment; that
                                               agreement is what the differential run covers) *)
From Coq Require Import List ZArith Bool Lia String Ascii.
From DV Require Import Base.C12_Str.
Import ListNotations.
Local Open Scope string_scope.

(* ------------------------------------------------------------------ types *)
(* Python classes used as GP types, numbered by the harness; [sub a b] is issubclass(a, b). *)
Definition ty := nat.
Definition t_object : ty := 0.
Definition t_int : ty := 1.
Definition t_float : ty := 2.
Definition t_bool : ty := 3.
Definition t_str : ty := 4.

(* ------------------------------------------------------------------ constants *)
(* Values of non-symbolic terminals.  CLit s t is any Python object of builtin type t whose repr is s
   and which evaluates back from s (a finite float, a plain string); its value is opaque here. *)
Inductive cst := CInt (z : Z) | CBool (b : bool) | CLit (s : string) (t : ty).

Definition repr (c : cst) : string :=
  match c with
  | CInt z => repr_Z z
  | CBool true => "True"
  | CBool false => "False"
  | CLit s _ => s
  end.

Definition typeof (c : cst) : ty :=
  match c with CInt _ => t_int | CBool _ => t_bool | CLit _ t => t end.

(* eval(token) of from_string / a literal atom of the compiled code.  None: NameError, or a form
   this model does not cover (non-canonical literals, names of gp.py globals and builtins). *)
Definition lit (s : string) : option cst :=
  if ident_start s then
    (if String.eqb s "True" then Some (CBool true)
     else if String.eqb s "False" then Some (CBool false) else None)
  else match parse_Z s with
       | Some z => Some (CInt z)
       | None => if is_float_lit s then Some (CLit s t_float)
                 else if is_str_lit s then Some (CLit s t_str) else None
       end.

Definition cst_eqb (a b : cst) : bool :=
  match a, b with
  | CInt x, CInt y => Z.eqb x y
  | CBool x, CBool y => Bool.eqb x y
  | CLit s t, CLit s' t' => String.eqb s s' && Nat.eqb t t'
  | _, _ => false
  end.

(* ------------------------------------------------------------------ nodes *)
Inductive node :=
| NPrim (name : string) (args : list ty) (ret : ty)   (* gp.Primitive (also the one addADF creates) *)
| NArg (j : nat) (ret : ty)        (* the Terminal made by PrimitiveSetTyped.__init__ for argument j (symbolic);
                                      its value attribute lives in the pset (renameArguments mutates it) *)
| NSym (name : string) (ret : ty)  (* addTerminal(obj, name=...) : symbolic, format = str(name) *)
| NConst (c : cst) (ret : ty)      (* conv_fct = repr: addTerminal(value), ephemeral instance, from_string constant *)
| NClass (name : string) (ret : ty). (* an ephemeral class itself (what from_string appends for an ephemeral's name) *)

Definition node_ret (n : node) : ty :=
  match n with NPrim _ _ r | NArg _ r | NSym _ r | NConst _ r | NClass _ r => r end.

(* node.arity ; for an ephemeral class the attribute is a property object, equal to no integer *)
Definition node_arity (n : node) : option nat :=
  match n with
  | NPrim _ args _ => Some (List.length args)
  | NClass _ _ => None
  | _ => Some 0
  end.

Definition arity_matches (k : nat) (n : node) : bool :=
  match node_arity n with Some a => Nat.eqb k a | None => false end.

Definition list_nat_eqb := fix f (a b : list nat) : bool :=
  match a, b with
  | [], [] => true
  | x :: a', y :: b' => Nat.eqb x y && f a' b'
  | _, _ => false
  end.

Definition node_eqb (a b : node) : bool :=
  match a, b with
  | NPrim n l r, NPrim n' l' r' => String.eqb n n' && list_nat_eqb l l' && Nat.eqb r r'
  | NArg j r, NArg j' r' => Nat.eqb j j' && Nat.eqb r r'
  | NSym n r, NSym n' r' => String.eqb n n' && Nat.eqb r r'
  | NConst c r, NConst c' r' => cst_eqb c c' && Nat.eqb r r'
  | NClass n r, NClass n' r' => String.eqb n n' && Nat.eqb r r'
  | _, _ => false
  end.

(* ------------------------------------------------------------------ dict as association list *)
Section Dict.
  Context {A : Type}.
  Fixpoint dget (k : string) (m : list (string * A)) : option A :=
    match m with
    | [] => None
    | (k', v) :: r => if String.eqb k k' then Some v else dget k r
    end.
  Fixpoint dset (k : string) (v : A) (m : list (string * A)) : list (string * A) :=
    match m with
    | [] => [(k, v)]
    | (k', v') :: r => if String.eqb k k' then (k', v) :: r else (k', v') :: dset k v r
    end.
  Fixpoint ddel (k : string) (m : list (string * A)) : list (string * A) :=
    match m with
    | [] => []
    | (k', v') :: r => if String.eqb k k' then r else (k', v') :: ddel k r
    end.
  (* m.update(u) *)
  Definition dupdate (m u : list (string * A)) : list (string * A) :=
    fold_left (fun m kv => dset (fst kv) (snd kv) m) u m.
End Dict.

(* ------------------------------------------------------------------ primitive set (the part C12 reads) *)
Record pset := mkpset {
  ps_arguments : list string;          (* pset.arguments *)
  ps_argvalue : list string;           (* value attribute of the j-th argument Terminal object *)
  ps_mapping : list (string * node)    (* pset.mapping *)
}.

(* renameArguments( **kargs), as written:
     for i, old_name in enumerate(self.arguments):
         if old_name in kargs:
             new_name = kargs[old_name]
             self.arguments[i] = new_name
             self.mapping[new_name] = self.mapping[old_name]
             self.mapping[new_name].value = new_name
             del self.mapping[old_name]
   None: KeyError (old name not in the mapping) or the object found is not an argument terminal
   (outside the model). *)
Fixpoint set_nth {A} (i : nat) (x : A) (l : list A) : list A :=
  match l, i with
  | [], _ => []
  | _ :: r, O => x :: r
  | y :: r, S i' => y :: set_nth i' x r
  end.

Fixpoint rename_loop (kargs : list (string * string)) (n i : nat) (ps : pset) : option pset :=
  match n with
  | O => Some ps
  | S n' =>
      let old_name := nth i (ps_arguments ps) "" in
      match dget old_name kargs with
      | None => rename_loop kargs n' (S i) ps
      | Some new_name =>
          match dget old_name (ps_mapping ps) with
          | Some (NArg j r) =>
              let m1 := dset new_name (NArg j r) (ps_mapping ps) in
              rename_loop kargs n' (S i)
                (mkpset (set_nth i new_name (ps_arguments ps))
                        (set_nth j new_name (ps_argvalue ps))
                        (ddel old_name m1))
          | _ => None
          end
      end
  end.

Definition rename (kargs : list (string * string)) (ps : pset) : option pset :=
  rename_loop kargs (List.length (ps_arguments ps)) 0 ps.

(* ------------------------------------------------------------------ building a primitive set *)
(* What PrimitiveSetTyped.__init__, _add, addPrimitive / addADF, addTerminal and addEphemeralConstant do
   to pset.arguments, pset.mapping and the *names* present in pset.context (the per-type tables
   pset.primitives / pset.terminals belong to C11).  None = AssertionError / Exception. *)
Fixpoint drop_last (s : string) : string :=
  match s with
  | EmptyString => EmptyString
  | String c r => match r with EmptyString => EmptyString | _ => String c (drop_last r) end
  end.
Definition unquote (s : string) : string := match s with String _ r => drop_last r | EmptyString => EmptyString end.

(* str(value): the key under which _add registers a terminal (Terminal.name = str(terminal)) *)
Definition pystr (c : cst) : string :=
  match c with
  | CLit s t => if Nat.eqb t t_str then unquote s else s
  | _ => repr c
  end.

(* "{prefix}{index}".format(prefix=prefix, index=i) *)
Definition arg_name (prefix : string) (i : nat) : string := prefix ++ repr_Z (Z.of_nat i).

Fixpoint init_loop (prefix : string) (i : nat) (tys : list ty) (ps : pset) : pset :=
  match tys with
  | [] => ps
  | t :: r =>
      let a := arg_name prefix i in
      init_loop prefix (S i) r
        (mkpset (ps_arguments ps ++ [a])%list (ps_argvalue ps ++ [a])%list (dset a (NArg i t) (ps_mapping ps)))
  end.

Definition pset_init (prefix : string) (in_types : list ty) : pset :=
  init_loop prefix 0 in_types (mkpset [] [] []).

Inductive bop :=
| BPrim (name : string) (args : list ty) (ret : ty)     (* addPrimitive(f, args, ret, name) ; addADF *)
| BAdf (name : string) (args : list ty) (ret : ty)      (* addADF(adfset): no context entry, no assertion *)
| BConst (c : cst) (ret : ty)                           (* addTerminal(value, ret) *)
| BNamed (name : string) (ret : ty)                     (* addTerminal(value, ret, name=name) *)
| BEph (name : string) (ret : ty).                      (* addEphemeralConstant(name, f, ret) *)

(* value in (True, False): Python compares with ==, so 0, 1, 0.0, 1.0 qualify as well *)
Definition is_truth_value (c : cst) : bool :=
  match c with
  | CBool _ => true
  | CInt z => Z.eqb z 0 || Z.eqb z 1
  | CLit s t => Nat.eqb t t_float && (String.eqb s "0.0" || String.eqb s "-0.0" || String.eqb s "1.0")
  end.

Definition put (k : string) (n : node) (ps : pset) : pset :=
  mkpset (ps_arguments ps) (ps_argvalue ps) (dset k n (ps_mapping ps)).

(* state: the set and the keys of pset.context (besides "__builtins__") *)
Definition pset_add (o : bop) (st : pset * list string) : option (pset * list string) :=
  let (ps, names) := st in
  match o with
  | BPrim name args ret =>
      if existsb (String.eqb name) names then None      (* a different callable under the same name *)
      else Some (put name (NPrim name args ret) ps, (names ++ [name])%list)
  | BAdf name args ret => Some (put name (NPrim name args ret) ps, names)
  | BConst c ret =>
      Some (put (pystr c) (NConst c ret) ps,
            if is_truth_value c && negb (existsb (String.eqb (pystr c)) names) then (names ++ [pystr c])%list else names)
  | BNamed name ret =>
      if existsb (String.eqb name) names then None
      else Some (put name (NSym name ret) ps, (names ++ [name])%list)
  | BEph name ret =>
      match dget name (ps_mapping ps) with
      | Some _ => None            (* re-registration of an existing name: outside the model *)
      | None => Some (put name (NClass name ret) ps, names)
      end
  end.

Fixpoint pset_build (ops : list bop) (st : pset * list string) : option (pset * list string) :=
  match ops with
  | [] => Some st
  | o :: r => match pset_add o st with Some st' => pset_build r st' | None => None end
  end.

(* ------------------------------------------------------------------ format *)
(* Primitive.format( *args) = "name({0}, {1}, ...)".format( *args), called with arity-many strings;
   Terminal.format() = conv_fct(value): str for symbolic terminals, repr otherwise. *)
Definition fmt (ps : pset) (n : node) (args : list string) : string :=
  match n with
  | NPrim name _ _ => name ++ "(" ++ String.concat ", " args ++ ")"
  | NArg j _ => nth j (ps_argvalue ps) ""
  | NSym name _ => name
  | NConst c _ => repr c
  | NClass _ _ => ""        (* never formatted: its arity never matches *)
  end.

(* the token under which a node appears in the printed form *)
Definition node_tok (ps : pset) (n : node) : string :=
  match n with
  | NPrim name _ _ => name
  | NClass name _ => name
  | _ => fmt ps n []
  end.

(* ------------------------------------------------------------------ PrimitiveTree.__str__ *)
(*   string = "" ; stack = []
     for node in self:
         stack.append((node, []))
         while len(stack[-1][1]) == stack[-1][0].arity:
             prim, args = stack.pop()
             string = prim.format( *args)
             if len(stack) == 0: break
             stack[-1][1].append(string)
     return string
   The machine is written once for an arbitrary "format" F : node -> list A -> A. *)
Section Machine.
  Context {A : Type}.
  Variable F : node -> list A -> A.
  Definition frame := (node * list A)%type.

  (* the while loop entered with top frame (prim, args) above [rest]; [cur] is the variable string *)
  Fixpoint unwind (cur : A) (prim : node) (args : list A) (rest : list frame) : A * list frame :=
    if arity_matches (List.length args) prim then
      let s := F prim args in
      match rest with
      | [] => (s, [])
      | (p2, a2) :: rest2 => unwind s p2 (a2 ++ [s]) rest2
      end
    else (cur, (prim, args) :: rest).

  Definition step (st : A * list frame) (n : node) : A * list frame :=
    unwind (fst st) n [] (snd st).

  Definition run (a0 : A) (t : list node) : A := fst (fold_left step t (a0, [])).
End Machine.

Definition str_tree (ps : pset) (t : list node) : string := run (fmt ps) "" t.

(* ------------------------------------------------------------------ trees *)
Inductive tree := T (n : node) (kids : list tree).

Fixpoint flatten (tr : tree) : list node :=
  match tr with T n kids => n :: flat_map flatten kids end.

Definition root (tr : tree) : node := match tr with T n _ => n end.

Fixpoint wf_treeb (tr : tree) : bool :=
  match tr with T n kids => arity_matches (List.length kids) n && forallb wf_treeb kids end.

Fixpoint tree_size (tr : tree) : nat :=
  match tr with T n kids => S (fold_right (fun k acc => tree_size k + acc) 0 kids) end.

(* recursive-descent reading of a prefix list: k trees from the front of l *)
Fixpoint parse_forest (fuel k : nat) (l : list node) : option (list tree * list node) :=
  match k with
  | O => Some ([], l)
  | S k' =>
      match fuel with
      | O => None
      | S f =>
          match l with
          | [] => None
          | n :: r =>
              match node_arity n with
              | None => None
              | Some a =>
                  match parse_forest f a r with
                  | None => None
                  | Some (kids, r1) =>
                      match parse_forest f k' r1 with
                      | None => None
                      | Some (sibs, r2) => Some (T n kids :: sibs, r2)
                      end
                  end
              end
          end
      end
  end.

(* a well-formed prefix list is exactly one complete tree *)
Definition parse (t : list node) : option tree :=
  match parse_forest (S (List.length t)) 1 t with
  | Some ([tr], []) => Some tr
  | _ => None
  end.

(* the recursive printer  name(a1, ..., an) *)
Fixpoint pp (ps : pset) (tr : tree) : string :=
  match tr with
  | T (NPrim name _ _) kids => name ++ "(" ++ String.concat ", " (map (pp ps) kids) ++ ")"
  | T n _ => fmt ps n []
  end.

(* ------------------------------------------------------------------ PrimitiveTree.from_string *)
Section Read.
  Variable sub : ty -> ty -> bool.       (* issubclass *)
  Variable mapping : list (string * node).

  (*   for token in tokens:
           if token == '': continue
           type_ = ret_types.popleft() if len(ret_types) != 0 else None
           if token in pset.mapping:
               primitive = pset.mapping[token]
               if type_ is not None and not issubclass(primitive.ret, type_): raise TypeError
               expr.append(primitive)
               if isinstance(primitive, Primitive): ret_types.extendleft(reversed(primitive.args))
           else:
               token = eval(token)                       (NameError -> TypeError)
               if type_ is None: type_ = type(token)
               if not issubclass(type(token), type_): raise TypeError
               expr.append(Terminal(token, False, type_))
     None = an exception (or a token outside the literal forms [lit] covers). *)
  Fixpoint read_loop (toks : list string) (ret_types : list ty) (acc : list node) : option (list node) :=
    match toks with
    | [] => Some (rev acc)
    | tok :: r =>
        if negb (nonempty tok) then read_loop r ret_types acc else
        let type_ := match ret_types with [] => None | t :: _ => Some t end in
        let rt := match ret_types with [] => [] | _ :: q => q end in
        match dget tok mapping with
        | Some prim =>
            if match type_ with Some t => negb (sub (node_ret prim) t) | None => false end then None
            else read_loop r (match prim with NPrim _ args _ => args ++ rt | _ => rt end) (prim :: acc)
        | None =>
            match lit tok with
            | None => None
            | Some c =>
                let t := match type_ with Some t => t | None => typeof c end in
                if sub (typeof c) t then read_loop r rt (NConst c t :: acc) else None
            end
        end
    end.

  Definition read (s : string) : option (list node) := read_loop (split s) [] [].
End Read.

(* ------------------------------------------------------------------ the compiled code as an expression *)
Inductive expr := ECall (f : string) (args : list expr) | EConst (c : cst) | EVar (x : string).

Definition atom_expr (a : string) : option expr :=
  match lit a with
  | Some c => Some (EConst c)
  | None => if is_ident a then Some (EVar a) else None
  end.

(* expr := NAME '(' [expr {',' expr}] ')' | atom      (no trailing comma, no operators: the printed
   form of a tree never contains them) *)
Fixpoint pexpr (fuel : nat) (ls : list lexeme) {struct fuel} : option (expr * list lexeme) :=
  match fuel with
  | O => None
  | S f =>
      match ls with
      | LAtom a :: LOpen :: LClose :: r => if is_ident a then Some (ECall a [], r) else None
      | LAtom a :: LOpen :: r =>
          if is_ident a then
            match pargs f r with
            | Some (args, r') => Some (ECall a args, r')
            | None => None
            end
          else None
      | LAtom a :: r => match atom_expr a with Some e => Some (e, r) | None => None end
      | _ => None
      end
  end
with pargs (fuel : nat) (ls : list lexeme) {struct fuel} : option (list expr * list lexeme) :=
  match fuel with
  | O => None
  | S f =>
      match pexpr f ls with
      | Some (e, LComma :: r) =>
          match pargs f r with
          | Some (es, r') => Some (e :: es, r')
          | None => None
          end
      | Some (e, LClose :: r) => Some ([e], r)
      | _ => None
      end
  end.

Definition parse_expr (s : string) : option expr :=
  let ls := lex s in
  match pexpr (2 * List.length ls) ls with
  | Some (e, []) => Some e
  | _ => None
  end.

(* ------------------------------------------------------------------ semantics *)
Section Sem.
  Variable V : Type.
  Variable cval : cst -> option V.        (* the Python object a constant denotes, if the domain V has it *)

  (* entries of pset.context *)
  Inductive obj := OVal (v : V) | OFun (f : list V -> option V).
  Definition context := list (string * obj).

  Section EvalList.
    Context {E : Type}.
    Variable ev : E -> option V.
    Fixpoint eval_list (l : list E) : option (list V) :=
      match l with
      | [] => Some []
      | a :: r => match ev a, eval_list r with
                  | Some v, Some vs => Some (v :: vs)
                  | _, _ => None
                  end
      end.
  End EvalList.

  (* CPython evaluation of the body with locals [env] (the lambda's parameters) and globals [ctx]
     ("__builtins__" is None, so there is nothing behind the globals).  None = any exception. *)
  Fixpoint eval_expr (ctx : context) (env : list (string * V)) (e : expr) : option V :=
    match e with
    | EConst c => cval c
    | EVar x =>
        match dget x env with
        | Some v => Some v
        | None => match dget x ctx with Some (OVal v) => Some v | _ => None end
        end
    | ECall f args =>
        match dget f env with
        | Some _ => None
        | None =>
            match dget f ctx with
            | Some (OFun g) =>
                match (fix evl (l : list expr) : option (list V) :=
                         match l with
                         | [] => Some []
                         | a :: r => match eval_expr ctx env a, evl r with
                                     | Some v, Some vs => Some (v :: vs)
                                     | _, _ => None
                                     end
                         end) args with
                | Some vs => g vs
                | None => None
                end
            | _ => None
            end
        end
    end.

  (* what the prefix tree denotes: primitives are the functions of the context, argument terminal j is the
     j-th actual argument whatever its current name, named terminals are context values, constants
     (also ephemeral values) are themselves *)
  Fixpoint eval_tree (ctx : context) (actuals : list V) (tr : tree) : option V :=
    match tr with
    | T n kids =>
        match n with
        | NPrim name _ _ =>
            match dget name ctx with
            | Some (OFun g) =>
                match (fix evl (l : list tree) : option (list V) :=
                         match l with
                         | [] => Some []
                         | a :: r => match eval_tree ctx actuals a, evl r with
                                     | Some v, Some vs => Some (v :: vs)
                                     | _, _ => None
                                     end
                         end) kids with
                | Some vs => g vs
                | None => None
                end
            | _ => None
            end
        | NArg j _ => nth_error actuals j
        | NSym name _ => match dget name ctx with Some (OVal v) => Some v | _ => None end
        | NConst c _ => cval c
        | NClass _ _ => None
        end
    end.

  Definition eval_prefix (ctx : context) (actuals : list V) (t : list node) : option V :=
    match parse t with
    | Some tr => eval_tree ctx actuals tr
    | None => None
    end.

  (* ---------------------------------------------------------------- compile *)
  (*   code = str(expr)
       if len(pset.arguments) > 0:
           args = ",".join(arg for arg in pset.arguments)
           code = "lambda {args}: {code}".format(args=args, code=code)
       return eval(code, dict(pset.context), {})
     The lambda header is not re-parsed by the model: parameters must be distinct identifiers
     (otherwise CPython raises SyntaxError). *)
  Inductive compiled :=
  | KValue (v : V)
  | KLambda (params : list string) (body : expr) (globals : context).

  Fixpoint nodupb (l : list string) : bool :=
    match l with
    | [] => true
    | x :: r => negb (existsb (String.eqb x) r) && nodupb r
    end.

  Definition compile (ps : pset) (ctx : context) (t : list node) : option compiled :=
    match parse_expr (str_tree ps t) with
    | None => None
    | Some body =>
        match ps_arguments ps with
        | [] => match eval_expr ctx [] body with Some v => Some (KValue v) | None => None end
        | params =>
            if forallb is_ident params && nodupb params then Some (KLambda params body ctx) else None
        end
    end.

  Definition call_lambda (params : list string) (body : expr) (globals : context)
             (actuals : list V) : option V :=
    if Nat.eqb (List.length params) (List.length actuals)
    then eval_expr globals (combine params actuals) body else None.

  (* using what compile returned: gp.compile(tree, pset)( *actuals ) , or the value itself for a
     set without arguments *)
  Definition run_compiled (k : option compiled) (actuals : list V) : option V :=
    match k with
    | None => None
    | Some (KValue v) => match actuals with [] => Some v | _ => None end
    | Some (KLambda p b g) => call_lambda p b g actuals
    end.

  (* ---------------------------------------------------------------- compileADF *)
  (*   adfdict = {} ; func = None
       for pset, subexpr in reversed(list(zip(psets, expr))):
           pset.context.update(adfdict)
           func = compile(subexpr, pset)
           if len(pset.arguments) > 0: adfdict.update({pset.name: func})
           else:                       adfdict.update({pset.name: lambda value=func: value})
       return func *)
  Record adfdef := mkdef { d_ps : pset; d_name : string; d_ctx : context; d_tree : list node }.

  Definition adf_obj (k : compiled) : obj :=
    match k with
    | KValue v => OFun (fun vs => match vs with [] => Some v | _ => None end)
    | KLambda p b g => OFun (call_lambda p b g)
    end.

  Fixpoint compile_adf_loop (rdefs : list adfdef) (adfdict : context) (func : option compiled)
    : option compiled :=
    match rdefs with
    | [] => func
    | d :: r =>
        match compile (d_ps d) (dupdate (d_ctx d) adfdict) (d_tree d) with
        | None => None
        | Some k => compile_adf_loop r (dset (d_name d) (adf_obj k) adfdict) (Some k)
        end
    end.

  Definition compile_adf (defs : list adfdef) : option compiled :=
    compile_adf_loop (rev defs) [] None.

  (* what a list [main; adf1; ...; adfk] of prefix trees denotes: adf_i may call adf_j for j > i;
     each is evaluated directly on its node list *)
  Definition denote (d : adfdef) (ctx : context) : obj :=
    OFun (fun vs => if Nat.eqb (List.length (ps_arguments (d_ps d))) (List.length vs)
                    then eval_prefix ctx vs (d_tree d) else None).

  Fixpoint adf_env (defs : list adfdef) : context :=
    match defs with
    | [] => []
    | d :: rest => let E := adf_env rest in dset (d_name d) (denote d (dupdate (d_ctx d) E)) E
    end.

  Definition adf_sem (defs : list adfdef) (actuals : list V) : option V :=
    match defs with
    | [] => None
    | d :: rest =>
        if Nat.eqb (List.length (ps_arguments (d_ps d))) (List.length actuals)
        then eval_prefix (dupdate (d_ctx d) (adf_env rest)) actuals (d_tree d) else None
    end.
End Sem.

Arguments OVal {V} v.
Arguments OFun {V} f.
Arguments KValue {V} v.
Arguments KLambda {V} params body globals.
Arguments mkdef {V} d_ps d_name d_ctx d_tree.
Arguments d_ps {V} a.
Arguments d_name {V} a.
Arguments d_ctx {V} a.
Arguments d_tree {V} a.
Arguments eval_list {V E} ev l.
Arguments eval_expr {V} cval ctx env e.
Arguments eval_tree {V} cval ctx actuals tr.
Arguments eval_prefix {V} cval ctx actuals t.
Arguments compile {V} cval ps ctx t.
Arguments call_lambda {V} cval params body globals actuals.
Arguments run_compiled {V} cval k actuals.
Arguments adf_obj {V} cval k.
Arguments compile_adf_loop {V} cval rdefs adfdict func.
Arguments compile_adf {V} cval defs.
Arguments denote {V} cval d ctx.
Arguments adf_env {V} cval defs.
Arguments adf_sem {V} cval defs actuals.
