(* Run-time vocabulary of the regenerated definitions of C18 (harness/c18_py2coq.py -> coq/Gen/C18_gen.v).
   A method of a class is compiled into the state-and-exception monad  M S X = S -> S * res X  over the
   object's state S (lb for Logbook, stats for Statistics, mstats for MultiStatistics); the primitives
   below are what the translator's signature table maps attribute reads / writes, list.pop, list.append,
   iteration over self / self.chapters.values() / dict items to.  Committed; proofs about the vocabulary
   that do not depend on the regenerated text live here as well. *)
From Coq Require Import List ZArith Bool Lia.
From DV Require Import Base.PyList Base.C18_Lists Model.C18_Logbook.
Import ListNotations.
Local Open Scope Z_scope.

Definition item := (nat * entry)%type.

Section Monad.
  Context {S : Type}.
  Definition M (X : Type) := S -> S * res X.
  Definition ret {X} (x : X) : M X := fun s => (s, Ok x).
  Definition raise {X} (e : err) : M X := fun s => (s, Err e).
  Definition bind {X Y} (m : M X) (k : X -> M Y) : M Y :=
    fun s => let '(s', r) := m s in match r with Ok x => k x s' | Err e => (s', Err e) end.

  (* for x in xs: body  -- the loop-carried locals are the accumulator *)
  Fixpoint forM {A Acc} (xs : list A) (body : A -> Acc -> M Acc) (acc : Acc) : M Acc :=
    match xs with
    | [] => ret acc
    | x :: r => bind (body x acc) (forM r body)
    end.
  (* [e for x in xs] with an element expression that reads the object or can raise *)
  Fixpoint mapM {A B} (f : A -> M B) (xs : list A) : M (list B) :=
    match xs with
    | [] => ret []
    | x :: r => bind (f x) (fun y => bind (mapM f r) (fun ys => ret (y :: ys)))
    end.

  Lemma forM_ext {A Acc} (xs : list A) (f g : A -> Acc -> M Acc) :
    (forall x a s, In x xs -> f x a s = g x a s) -> forall a s, forM xs f a s = forM xs g a s.
  Proof.
    induction xs as [|x r IH]; intros H a s; cbn; auto. unfold bind. rewrite H by now left.
    destruct (g x a s) as [s' [a'|e]]; auto. apply IH. intros; apply H; now right.
  Qed.
  (* loops / comprehensions whose body leaves the object alone and cannot raise (at the state s) *)
  Lemma mapM_pure {A B} (f : A -> M B) (g : A -> B) xs s :
    (forall x, In x xs -> f x s = (s, Ok (g x))) -> mapM f xs s = (s, Ok (map g xs)).
  Proof.
    induction xs as [|x r IH]; intros H; cbn; auto. unfold bind. rewrite H by now left.
    rewrite IH; auto. intros; apply H; now right.
  Qed.
  Lemma forM_pure {A Acc} (xs : list A) (f : A -> Acc -> M Acc) (g : Acc -> A -> Acc) s :
    (forall x a, In x xs -> f x a s = (s, Ok (g a x))) -> forall a, forM xs f a s = (s, Ok (fold_left g xs a)).
  Proof.
    induction xs as [|x r IH]; intros H a; cbn; auto. unfold bind. rewrite H by now left.
    apply IH. intros; apply H; now right.
  Qed.
End Monad.
Arguments M : clear implicits.

Definition indexM {S A} (l : list A) (i : Z) : M S A :=
  match py_get l i with Some x => ret x | None => raise IndexError end.

(* ---- dictionaries (Python dict = association list in insertion order, distinct keys) ---- *)
Definition is_dictb (v : value) : bool := match v with VDict _ => true | VInt _ => false end.
Fixpoint dict_del {V} (k : name) (d : list (name * V)) : option (list (name * V)) :=
  match d with
  | [] => None
  | (k', v) :: r => if k =? k' then Some r
                    else match dict_del k r with Some r' => Some ((k', v) :: r') | None => None end
  end.
Definition dict_delM {S V} (k : name) (d : list (name * V)) : M S (list (name * V)) :=
  match dict_del k d with Some d' => ret d' | None => raise KeyError end.
(* {k: e for ... } / dict() filled by d[k] = e in a loop: later bindings of a key replace earlier ones *)
Definition dict_of {V} (l : list (name * V)) : list (name * V) :=
  fold_left (fun acc kv => dict_set (fst kv) (snd kv) acc) l [].
Definition dict_filter {V} (p : name -> V -> bool) (d : list (name * V)) : list (name * V) :=
  filter (fun kv => p (fst kv) (snd kv)) d.
(* the entry list.append stores: a dictionary of scalars (anything else is outside the model) *)
Fixpoint to_entry (d : dict) : option entry :=
  match d with
  | [] => Some []
  | (k, VInt z) :: r => match to_entry r with Some e => Some ((k, z) :: e) | None => None end
  | (_, VDict _) :: _ => None
  end.

(* ---- Logbook primitives ---- *)
Definition upd_recs (f : list item -> list item) (l : lb) : lb := LB (f (recs l)) (buff l) (chs l) (hdr l) (logh l).
Definition get_buffindex : M lb Z := fun l => (l, Ok (buff l)).
Definition set_buffindex (b : Z) : M lb unit := fun l => (LB (recs l) b (chs l) (hdr l) (logh l), Ok tt).
Definition len_self : M lb Z := fun l => (l, Ok (zlen (recs l))).
Definition iter_self : M lb (list item) := fun l => (l, Ok (recs l)).
(* super().pop(index) / list.pop(self, index) *)
Definition super_pop (i : Z) : M lb item := fun l =>
  match py_get (recs l) i with
  | None => (l, Err IndexError)
  | Some it => (upd_recs (remove_nth (Z.to_nat (norm_index i (zlen (recs l))))) l, Ok it)
  end.
(* self.append(infos); uid is the ghost of the model (number of record() calls so far) *)
Definition list_append (uid : nat) (d : dict) : M lb unit := fun l =>
  match to_entry d with
  | Some e => (upd_recs (fun rs => rs ++ [(uid, e)]) l, Ok tt)
  | None => (l, Err Unmodelled)
  end.
(* entry.get(name, None) on a stored record *)
Definition rec_get (nm : name) (e : item) : option Z := lookup nm (snd e).
(* self.__str__(startindex): the text is not modelled, see Model/C18_Logbook.v *)
Definition str_self (start : Z) : M lb (list nat * bool) := fun l => (l, lb_text start l).

(* for chapter in self.chapters.values(): <method calls on chapter>  -- the body runs on the chapter object *)
Fixpoint each_chapter (body : M lb unit) (cl : list (name * lb)) : list (name * lb) * res unit :=
  match cl with
  | [] => ([], Ok tt)
  | (k, c) :: r =>
      match body c with
      | (c', Err e) => ((k, c') :: r, Err e)
      | (c', Ok _) => let (r', e) := each_chapter body r in ((k, c') :: r', e)
      end
  end.
Definition for_chapters (body : M lb unit) : M lb unit := fun l =>
  let (cs', r) := each_chapter body (chs l) in (LB (recs l) (buff l) cs' (hdr l) (logh l), r).
(* self.chapters[key].<method>(...)  on a defaultdict(Logbook) *)
Definition in_chapter {X} (key : name) (m : M lb X) : M lb X := fun l =>
  let (c', r) := m (chapter_of key (chs l)) in
  (LB (recs l) (buff l) (dict_set key c' (chs l)) (hdr l) (logh l), r).

(* key of __delitem__: an int or a slice object *)
Inductive dkey := KInt (i : Z) | KSlice (start stop step : option Z).
(* range( *key.indices(len) ) *)
Definition slice_range {S} (a b c : option Z) (n : Z) : M S (list Z) :=
  let st := match c with None => 1 | Some s => s end in
  if st =? 0 then raise ValueError else ret (slice_idx a b st n).

(* recursion of a method into sub-objects of the same class: explicit fuel *)
Fixpoint iter_fuel {S A X} (body : (A -> M S X) -> A -> M S X) (fuel : nat) : A -> M S X :=
  match fuel with
  | O => fun _ => raise OutOfFuel
  | Datatypes.S f => body (iter_fuel body f)
  end.

Fixpoint lb_depth (l : lb) : nat :=
  match l with
  | LB _ _ cs _ _ => Datatypes.S ((fix go (cl : list (name * lb)) : nat :=
                          match cl with [] => O | (_, c) :: r => Nat.max (lb_depth c) (go r) end) cs)
  end.

(* ---- hand-written open-recursive forms of the model's recursive methods ---- *)
Definition discard {S X} (m : M S X) : M S unit := bind m (fun _ => ret tt).

Definition pop_body (f : Z -> M lb item) (i : Z) : M lb item := fun l =>
  match l with
  | LB rs bf cs h g =>
    match py_get rs i with
    | None => (LB rs bf cs h g, Err IndexError)
    | Some it =>
        let rs' := remove_nth (Z.to_nat (norm_index i (zlen rs))) rs in
        let idx := if i <? 0 then i + (zlen rs' + 1) else i in
        let bf' := if idx <? bf then bf - 1 else bf in
        let (cs', e) := pop_chapters (f idx) cs in
        (LB rs' bf' cs' h g, match e with None => Ok it | Some e => Err e end)
    end
  end.

Lemma lb_pop_unfold i l : lb_pop i l = pop_body lb_pop i l.
Proof. destruct l; reflexivity. Qed.

Lemma pop_chapters_ext (f g : lb -> lb * res item) cs :
  (forall c, In c (map snd cs) -> f c = g c) -> pop_chapters f cs = pop_chapters g cs.
Proof.
  induction cs as [|[k c] r IH]; intro H; cbn; auto.
  rewrite (H c) by now left. destruct (g c) as [c' [x|e]]; auto.
  rewrite IH; auto. intros; apply H; now right.
Qed.

Lemma each_chapter_pop (f : lb -> lb * res item) cs :
  each_chapter (discard f) cs =
  let (cs', e) := pop_chapters f cs in (cs', match e with None => Ok tt | Some e => Err e end).
Proof.
  induction cs as [|[k c] r IH]; cbn; auto. unfold discard, bind at 1.
  destruct (f c) as [c' [x|e]]; cbn; auto.
  fold (discard f). rewrite IH. destruct (pop_chapters f r) as [r' e]; auto.
Qed.

Lemma lb_depth_chapter k c rs bf cs h g : In (k, c) cs -> (lb_depth c < lb_depth (LB rs bf cs h g))%nat.
Proof.
  cbn. induction cs as [|[k' c'] r IH]; cbn; [tauto|]. intros [E|H].
  - injection E as -> ->. lia.
  - specialize (IH H). lia.
Qed.

(* any body that is pointwise the hand-written body computes lb_pop, given enough fuel *)
Lemma iter_pop_body (body : (Z -> M lb item) -> Z -> M lb item) :
  (forall f i l, body f i l = pop_body f i l) ->
  forall fuel i l, (lb_depth l < fuel)%nat -> iter_fuel body fuel i l = lb_pop i l.
Proof.
  intros Hb. induction fuel as [|n IH]; intros i l Hd; [lia|].
  cbn [iter_fuel]. rewrite Hb, lb_pop_unfold. destruct l as [rs bf cs h g]. unfold pop_body.
  destruct (py_get rs i); auto.
  match goal with |- context [pop_chapters (iter_fuel body n ?j) cs] =>
    rewrite (pop_chapters_ext (iter_fuel body n j) (lb_pop j) cs); auto end.
  intros c Hin. apply in_map_iff in Hin as [[k c0] [E Hin]]. cbn in E; subst c0.
  apply IH. pose proof (lb_depth_chapter k c rs bf cs h g Hin). lia.
Qed.

(* popping a list of indices one after the other *)
Lemma forM_pop_all (p : Z -> M lb item) idxs :
  (forall i l, p i l = lb_pop i l) ->
  forall l, forM idxs (fun i (_ : unit) => discard (p i)) tt l =
            let (l', e) := pop_all idxs l in (l', match e with None => Ok tt | Some e => Err e end).
Proof.
  intro Hp. induction idxs as [|i r IH]; intro l; cbn; auto.
  unfold bind at 1, discard at 1, bind at 1. rewrite Hp.
  destruct (lb_pop i l) as [l' [x|e]]; cbn; auto.
Qed.

(* ---- record ---- *)
(* hereditarily distinct keys: what every Python dict satisfies *)
Fixpoint wf_value (v : value) : Prop :=
  match v with
  | VInt _ => True
  | VDict d => NoDup (map fst d) /\
               (fix go (l : dict) : Prop := match l with [] => True | (_, x) :: r => wf_value x /\ go r end) d
  end.
Definition wf_dict (d : dict) : Prop := wf_value (VDict d).

Definition opt_of (r : lb * res unit) : option lb := match r with (l, Ok _) => Some l | (_, Err _) => None end.

(* open-recursive form of lb_record: f is the recursive call (on a chapter); out of fuel = any exception of f *)
Definition record_body (uid : nat) (f : dict -> M lb unit) (infos : dict) : M lb unit := fun l =>
  let apply_to_all := scalars infos in
  match record_loop (fun d c => opt_of (f (dict_update d (inject apply_to_all)) c)) infos (chs l) with
  | None => (l, Err OutOfFuel)
  | Some cs' => (LB (recs l ++ [(uid, apply_to_all)]) (buff l) cs' (hdr l) (logh l), Ok tt)
  end.

(* ---- the hand model's methods in monadic form (placeholders of refused methods) ---- *)
Definition select_model (names : list name) : M lb selres := fun l => (l, Ok (lb_select names l)).
Definition delitem_model (k : dkey) : M lb unit := fun l =>
  match k with KInt i => lb_delitem i l | KSlice a b c => lb_delslice a b c l end.
Definition stream_model : M lb (list nat * bool) := lb_stream.

(* ---- Statistics / MultiStatistics primitives ---- *)
Section StatsRt.
  Context {A B C : Type}.
  Definition get_functions : M (stats A B C) (list (name * (list B -> C))) := fun s => (s, Ok (s_funs s)).
  Definition set_functions (f : list (name * (list B -> C))) : M (stats A B C) unit :=
    fun s => (mkstats (s_key s) f (s_fields s), Ok tt).
  Definition get_fields : M (stats A B C) (list name) := fun s => (s, Ok (s_fields s)).
  Definition set_fields (f : list name) : M (stats A B C) unit := fun s => (mkstats (s_key s) (s_funs s) f, Ok tt).
  Definition get_key : M (stats A B C) (A -> B) := fun s => (s, Ok (s_key s)).

  (* for k, s in self.items(): <method calls on s, assignments to locals>  -- the body runs on the object s *)
  Fixpoint each_item {Acc} (body : name -> Acc -> M (stats A B C) Acc) (m : mstats A B C) (acc : Acc)
    : mstats A B C * res Acc :=
    match m with
    | [] => ([], Ok acc)
    | (k, s) :: r =>
        match body k acc s with
        | (s', Err e) => ((k, s') :: r, Err e)
        | (s', Ok acc') => let (r', x) := each_item body r acc' in ((k, s') :: r', x)
        end
    end.
  Definition for_items {Acc} (body : name -> Acc -> M (stats A B C) Acc) (acc : Acc) : M (mstats A B C) Acc :=
    fun m => each_item body m acc.
  Definition for_values {Acc} (body : name -> Acc -> M (stats A B C) Acc) (acc : Acc) : M (mstats A B C) Acc :=
    for_items body acc.

  Definition st_register_model {Args} (nm : name) (f : Args -> list B -> C) (a : Args) : M (stats A B C) unit :=
    fun s => (st_register nm f a s, Ok tt).
  Definition st_compile_model (data : list A) : M (stats A B C) (list (name * C)) := fun s => (s, Ok (st_compile s data)).
  Definition ms_compile_model (data : list A) : M (mstats A B C) (list (name * list (name * C))) :=
    fun m => (m, Ok (ms_compile m data)).
  Definition ms_register_model {Args} (nm : name) (f : Args -> list B -> C) (a : Args) : M (mstats A B C) unit :=
    fun m => (ms_register nm f a m, Ok tt).
End StatsRt.
