(* Statement-by-statement transcription of varAnd / varOr with Python list indexing
   (Base/PyList.v: py_get = l[i], py_set = l[i] = v, py_range3 = range(a, b, c)).
   Proofs/C02_Literal.v proves these equal to the structurally recursive var_and / var_or of
   Model/C02_Variation.v, so every theorem of Props/C02.v is a theorem about this text too; the
   correspondence run evaluates both against the implementation.

   def varAnd(population, toolbox, cxpb, mutpb):
       offspring = [toolbox.clone(ind) for ind in population]
       for i in range(1, len(offspring), 2):
           if random.random() < cxpb:
               offspring[i - 1], offspring[i] = toolbox.mate(offspring[i - 1], offspring[i])
               del offspring[i - 1].fitness.values, offspring[i].fitness.values
       for i in range(len(offspring)):
           if random.random() < mutpb:
               offspring[i], = toolbox.mutate(offspring[i])
               del offspring[i].fitness.values
       return offspring

   def varOr(population, toolbox, lambda_, cxpb, mutpb):
       assert (cxpb + mutpb) <= 1.0
       offspring = []
       for _ in range(lambda_):
           op_choice = random.random()
           if op_choice < cxpb:
               ind1, ind2 = [toolbox.clone(i) for i in random.sample(population, 2)]
               ind1, ind2 = toolbox.mate(ind1, ind2)
               del ind1.fitness.values
               offspring.append(ind1)
           elif op_choice < cxpb + mutpb:
               ind = toolbox.clone(random.choice(population))
               ind, = toolbox.mutate(ind)
               del ind.fitness.values
               offspring.append(ind)
           else:
               offspring.append(toolbox.clone(random.choice(population)))
       return offspring *)
From Coq Require Import List ZArith Bool Arith.
From DV Require Import Base.PyList Model.C02_Variation.
Import ListNotations.
Local Open Scope Z_scope.

Section Literal.
Variables G F T : Type.
Variables ltb leb : T -> T -> bool.
Variable add : T -> T -> T.
Variable one : T.
Variable mate_o : nat -> G * option F -> G * option F -> mate_ans G F.
Variable mut_o : nat -> G * option F -> mut_ans G F.

Notation st := (st G F T).
Definition acc := (st * (exn + list nat))%type.     (* interpreter state: heap/draws/log and `offspring` *)

(* body of `for i in range(1, len(offspring), 2)` *)
Definition cx_body (cxpb : T) (a : acc) (i : Z) : acc :=
  match a with
  | (_, inl _) => a
  | (s, inr off) =>
      match next_random s with
      | None => (s, inl DrawMismatch)
      | Some (u, s1) =>
          if ltb u cxpb then
            match py_get off (i - 1), py_get off i with            (* arguments of toolbox.mate *)
            | Some x, Some y =>
                let '(s2, (r1, r2)) := do_mate mate_o s1 x y in
                match py_set off (i - 1) r1 with                   (* offspring[i - 1] = ... *)
                | Some off1 =>
                    match py_set off1 i r2 with                    (* offspring[i] = ... *)
                    | Some off2 =>
                        match py_get off2 (i - 1), py_get off2 i with   (* del ...[i - 1]..., ...[i]... *)
                        | Some d1, Some d2 => (do_del (do_del s2 d1) d2, inr off2)
                        | _, _ => (s2, inl IndexError)
                        end
                    | None => (s2, inl IndexError)
                    end
                | None => (s2, inl IndexError)
                end
            | _, _ => (s1, inl IndexError)
            end
          else (s1, inr off)
      end
  end.

(* body of `for i in range(len(offspring))` *)
Definition mut_body (mutpb : T) (a : acc) (i : Z) : acc :=
  match a with
  | (_, inl _) => a
  | (s, inr off) =>
      match next_random s with
      | None => (s, inl DrawMismatch)
      | Some (u, s1) =>
          if ltb u mutpb then
            match py_get off i with
            | Some x =>
                let '(s2, r) := do_mut mut_o s1 x in
                match py_set off i r with
                | Some off1 =>
                    match py_get off1 i with
                    | Some d1 => (do_del s2 d1, inr off1)
                    | None => (s2, inl IndexError)
                    end
                | None => (s2, inl IndexError)
                end
            | None => (s1, inl IndexError)
            end
          else (s1, inr off)
      end
  end.

Definition var_and_lit (cxpb mutpb : T) (s : st) (pop : list nat) : acc :=
  let '(s1, off) := clone_all s pop in
  match fold_left (cx_body cxpb) (py_range3 1 (zlen off) 2) (s1, inr off) with
  | (s2, inr off2) => fold_left (mut_body mutpb) (py_range (zlen off2)) (s2, inr off2)
  | a => a
  end.

(* body of `for _ in range(lambda_)`: offspring.append(...) *)
Definition or_body (cxpb mutpb : T) (pop : list nat) (a : acc) (_ : Z) : acc :=
  match a with
  | (_, inl _) => a
  | (s, inr off) =>
      match var_or_step ltb add mate_o mut_o cxpb mutpb pop s with
      | (s1, inr o) => (s1, inr (off ++ [o]))
      | (s1, inl e) => (s1, inl e)
      end
  end.

Definition var_or_lit (lambda_ : Z) (cxpb mutpb : T) (s : st) (pop : list nat) : acc :=
  if leb (add cxpb mutpb) one then fold_left (or_body cxpb mutpb pop) (py_range lambda_) (s, inr [])
  else (s, inl AssertionError).

End Literal.

Arguments cx_body {G F T}. Arguments mut_body {G F T}. Arguments or_body {G F T}.
Arguments var_and_lit {G F T}. Arguments var_or_lit {G F T}.
