(* Statement vocabulary of the regenerated definitions of property C02 (tie (T), DESIGN.md 2.3).

   harness/c02_py2coq.py compiles the CURRENT source text of deap/algorithms.py varAnd / varOr,
   statement by statement, into the state monad below and writes coq/Gen/C02_gen.v;
   Proofs/C02_gen_equiv.v proves the regenerated functions equal to var_and / var_or of
   Model/C02_Variation.v for all arguments and all states.

   The state is the `st` of the hand model (object heap, remaining draws, operator-call counter,
   event log): the primitives are the model's own do_clone / do_mate / do_mut / do_del / next_random,
   so the regenerated text and the hand model differ only in CONTROL FLOW AND DATA FLOW -- which is
   what a change of the source text changes.

   Python values: an individual is its object id (nat); a list or tuple of individuals is a
   `list nat` (a value: the translator only accepts in-place updates of lists the function created
   itself and never aliased, so rebinding the name is exact); numbers cxpb/mutpb/draws are the
   abstract T; integers are Z with Python's indexing (Base/PyList.v). *)
From Coq Require Import List ZArith Bool Arith.
From DV Require Import Base.PyList Model.C02_Variation.
Import ListNotations.

(* ---- the monad and the state-independent statements (generic in the state type, so that the
        regenerated loops eaSimple / eaMuPlusLambda / eaMuCommaLambda, whose state is the `fstate` of
        Model/C03_Full.v, use the same vocabulary: Model/C02_GenLoopsRt.v) ---- *)
Section Monad.
Variable S : Type.

Definition M (A : Type) : Type := S -> S * (exn + A).

Definition ret {A} (a : A) : M A := fun s => (s, inr a).
Definition raise {A} (e : exn) : M A := fun s => (s, inl e).
Definition bind {A B} (m : M A) (f : A -> M B) : M B :=
  fun s => match m s with
           | (s1, inr a) => f a s1
           | (s1, inl e) => (s1, inl e)
           end.

(* l[i] and l[i] = v *)
Definition m_get (l : list nat) (i : Z) : M nat :=
  match py_get l i with Some x => ret x | None => raise IndexError end.
Definition m_set (l : list nat) (i : Z) (v : nat) : M (list nat) :=
  match py_set l i v with Some l' => ret l' | None => raise IndexError end.

(* a, b = e   /   a, = e *)
Definition unpack2 (l : list nat) : M (nat * nat) :=
  match l with [a; b] => ret (a, b) | _ => raise ValueError end.
Definition unpack1 (l : list nat) : M nat :=
  match l with [a] => ret a | _ => raise ValueError end.

Definition m_assert (b : bool) : M unit := if b then ret tt else raise AssertionError.

(* [f x for x in l]  /  list(map(f, l)) *)
Fixpoint map_M {A B} (f : A -> M B) (l : list A) : M (list B) :=
  match l with
  | [] => ret []
  | x :: r => bind (f x) (fun y => bind (map_M f r) (fun ys => ret (y :: ys)))
  end.

(* for x in xs: body   -- c = the loop-carried locals *)
Fixpoint for_each {X C} (xs : list X) (body : X -> C -> M C) (c : C) : M C :=
  match xs with
  | [] => ret c
  | x :: r => bind (body x c) (fun c' => for_each r body c')
  end.

End Monad.

Arguments ret {S A}. Arguments raise {S A}. Arguments bind {S A B}.
Arguments m_get {S}. Arguments m_set {S}. Arguments unpack2 {S}. Arguments unpack1 {S}.
Arguments m_assert {S}. Arguments map_M {S A B}. Arguments for_each {S X C}.

(* ---- the statements of varAnd / varOr: state = the `st` of the hand model ---- *)
Section Rt.
Variables G F T : Type.
Variable mate_o : nat -> G * option F -> G * option F -> mate_ans G F.
Variable mut_o : nat -> G * option F -> mut_ans G F.

Notation st := (st G F T).
Notation M := (M st).

(* random.random() *)
Definition m_random : M T :=
  fun s => match next_random s with
           | Some (u, s1) => (s1, inr u)
           | None => (s, inl DrawMismatch)
           end.

(* random.sample(pop, 2): ValueError when the population is smaller than the sample; the draw
   record gives the two positions *)
Definition m_sample2 (pop : list nat) : M (list nat) :=
  fun s =>
    if Nat.ltb (length pop) 2 then (s, inl ValueError) else
    match dr s with
    | DSample n i j :: rest =>
        match Nat.eqb n (length pop), nth_error pop i, nth_error pop j with
        | true, Some p1, Some p2 => (mkst (hp s) rest (kc s) (lg s), inr [p1; p2])
        | _, _, _ => (s, inl DrawMismatch)
        end
    | _ => (s, inl DrawMismatch)
    end.

(* random.choice(pop): IndexError on an empty sequence *)
Definition m_choice (pop : list nat) : M nat :=
  fun s =>
    if Nat.eqb (length pop) 0 then (s, inl IndexError) else
    match dr s with
    | DChoice n i :: rest =>
        match Nat.eqb n (length pop), nth_error pop i with
        | true, Some p => (mkst (hp s) rest (kc s) (lg s), inr p)
        | _, _ => (s, inl DrawMismatch)
        end
    | _ => (s, inl DrawMismatch)
    end.

(* toolbox.clone(u) *)
Definition m_clone (u : nat) : M nat :=
  fun s => let '(s1, c) := do_clone s u in (s1, inr c).

(* toolbox.mate(a, b): a tuple of two individuals *)
Definition m_mate (a b : nat) : M (list nat) :=
  fun s => let '(s1, (r1, r2)) := do_mate mate_o s a b in (s1, inr [r1; r2]).

(* toolbox.mutate(a): a tuple of one individual *)
Definition m_mutate (a : nat) : M (list nat) :=
  fun s => let '(s1, r) := do_mut mut_o s a in (s1, inr [r]).

(* del u.fitness.values *)
Definition m_del (u : nat) : M unit := fun s => (do_del s u, inr tt).

End Rt.

Arguments m_random {G F T}. Arguments m_sample2 {G F T}. Arguments m_choice {G F T}.
Arguments m_clone {G F T}. Arguments m_mate {G F T}. Arguments m_mutate {G F T}. Arguments m_del {G F T}.

Declare Scope c02m_scope.
Delimit Scope c02m_scope with c02m.
Notation "x <- m ;; k" := (bind m (fun x => k))
  (at level 61, m at next level, right associativity) : c02m_scope.
Notation "' p <- m ;; k" := (bind m (fun p => k))
  (at level 61, p pattern, m at next level, right associativity) : c02m_scope.
