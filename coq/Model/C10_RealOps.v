(* Model of the real-coded operators of deap/tools/crossover.py and deap/tools/mutation.py:
     cxBlend, cxSimulatedBinary, cxSimulatedBinaryBounded, cxESBlend,
     mutGaussian, mutPolynomialBounded, mutESLogNormal.

   One text, generic in a record [ops T] of number operations, used at two instances:
     - T = R      (Proofs/C10_RealOps.v: theorems; ** is a total-on-its-domain real power, exp is exp)
     - T = float  (this file, [FOps]: PrimFloat = IEEE binary64 round-to-nearest-even, bit exact
                   against CPython for + - * / abs sqrt and comparisons; the results of float ** ,
                   math.exp and random.gauss are ORACLE events recorded from the implementation).

   Every random.* call site, every ** and every math.exp is an event consumed, in program
   order, from a stream.  Outcomes:
     Ok x      normal return
     Raise e   Python raises (ZeroDivisionError, IndexError, OverflowError) or a complex number
               reaches a comparison (TypeError)
     Stuck     the event stream does not fit the program (wrong kind / wrong arguments /
               exhausted): a correspondence failure, never a Python behaviour.

   No proofs here, so the executable model still runs when a proof breaks. *)
From Coq Require Import List Bool PrimFloat Uint63 ZArith.
Import ListNotations.

Inductive err := ZeroDiv | IndexErr | TypeErr | Overflow.
Inductive res (A : Type) := Ok (a : A) | Raise (e : err) | Stuck.
Arguments Ok {A} a.
Arguments Raise {A} e.
Arguments Stuck {A}.

Section Events.
  Variable T : Type.
  (* what a ** b / math.exp(a) did in the implementation *)
  Inductive powres := PVal (r : T) | PComplex | PZeroDiv | POverflow.
  Inductive ev :=
  | ERandom (u : T)                  (* random.random() returned u *)
  | EGauss (mu sigma r : T)          (* random.gauss(mu, sigma) returned r *)
  | EPow (b e : T) (r : powres)      (* b ** e *)
  | EExp (a : T) (r : powres).       (* math.exp(a) *)
  Definition stream := list ev.
  Definition M (A : Type) := stream -> res (A * stream).
End Events.
Arguments PVal {T} r.
Arguments PComplex {T}.
Arguments PZeroDiv {T}.
Arguments POverflow {T}.
Arguments ERandom {T} u.
Arguments EGauss {T} mu sigma r.
Arguments EPow {T} b e r.
Arguments EExp {T} a r.

Definition ret {T A} (a : A) : M T A := fun s => Ok (a, s).
Definition raise {T A} (e : err) : M T A := fun _ => Raise e.
Definition stuck {T A} : M T A := fun _ => Stuck.
Definition bind {T A B} (m : M T A) (f : A -> M T B) : M T B :=
  fun s => match m s with
           | Ok (a, s') => f a s'
           | Raise e => Raise e
           | Stuck => Stuck
           end.
Definition lift {T A} (r : res A) : M T A :=
  fun s => match r with Ok a => Ok (a, s) | Raise e => Raise e | Stuck => Stuck end.

Declare Scope m_scope.
Delimit Scope m_scope with M.
Notation "x <- m ;; f" := (bind m (fun x => f))
  (at level 61, m at next level, right associativity) : m_scope.
Notation "' p <- m ;; f" := (bind m (fun x => match x with p => f end))
  (at level 61, p pattern, m at next level, right associativity) : m_scope.

(* number operations; the comments give the Python operation *)
Record ops (T : Type) := mkops {
  o_add : T -> T -> T;                 (* a + b *)
  o_sub : T -> T -> T;                 (* a - b *)
  o_mul : T -> T -> T;                 (* a * b *)
  o_div : T -> T -> res T;             (* a / b : ZeroDivisionError when b == 0 *)
  o_neg : T -> T;                      (* -a *)
  o_abs : T -> T;                      (* abs(a) *)
  o_ltb : T -> T -> bool;              (* a < b *)
  o_leb : T -> T -> bool;              (* a <= b *)
  o_same : T -> T -> bool;             (* identical value (bit pattern for floats): oracle argument check *)
  o_c0 : T;                            (* 0.0 *)
  o_half : T;                          (* 0.5 *)
  o_one : T;                           (* 1.0 *)
  o_two : T;                           (* 2.0 *)
  o_eps : T;                           (* 1e-14 *)
  o_sqrt : T -> T;                     (* math.sqrt(a), a >= 0 *)
  o_ofnat : nat -> T;                  (* float(len(individual)) *)
  o_pw : T -> T -> M T T;              (* a ** b *)
  o_exp : T -> M T T                   (* math.exp(a) *)
}.

Section Model.
  Context {T : Type} (O : ops T).
  Local Open Scope m_scope.

  Local Notation "a + b" := (o_add T O a b).
  Local Notation "a - b" := (o_sub T O a b).
  Local Notation "a * b" := (o_mul T O a b).
  Local Notation "a /? b" := (lift (o_div T O a b)) (at level 40, left associativity).
  Local Notation "a <? b" := (o_ltb T O a b).
  Local Notation "a <=? b" := (o_leb T O a b).
  Local Notation "a ** b" := (o_pw T O a b) (at level 30, right associativity).
  Local Notation c0 := (o_c0 T O).
  Local Notation half := (o_half T O).
  Local Notation one := (o_one T O).
  Local Notation two := (o_two T O).

  (* Python's two-argument min / max: the first argument is kept unless the second is
     strictly smaller / larger *)
  Definition pymin (a b : T) : T := if b <? a then b else a.
  Definition pymax (a b : T) : T := if a <? b then b else a.
  (* min(max(c, xl), xu) *)
  Definition clip (c xl xu : T) : T := pymin (pymax c xl) xu.

  Definition draw_random : M T T :=
    fun s => match s with ERandom u :: s' => Ok (u, s') | _ => Stuck end.
  Definition draw_gauss (mu sigma : T) : M T T :=
    fun s => match s with
             | EGauss m sg r :: s' =>
                 if o_same T O m mu && o_same T O sg sigma then Ok (r, s') else Stuck
             | _ => Stuck
             end.

  (* a scalar bound / mean / deviation, or one per gene *)
  Inductive bnd := Scalar (x : T) | PerGene (l : list T).
  (* `if not isinstance(low, Sequence): low = repeat(low, size)
      elif len(low) < size: raise IndexError(...)` *)
  Definition expand (b : bnd) (size : nat) : M T (list T) :=
    match b with
    | Scalar x => ret (repeat x size)
    | PerGene l => if Nat.ltb (length l) size then raise IndexErr else ret l
    end.

  (* ---------------- cxBlend (crossover.py:240-259) ---------------- *)
  (* gamma = (1. + 2. * alpha) * random.random() - alpha
     ind1[i] = (1. - gamma) * x1 + gamma * x2
     ind2[i] = gamma * x1 + (1. - gamma) * x2 *)
  Definition blend_gene (alpha x1 x2 : T) : M T (T * T) :=
    u <- draw_random ;;
    let gamma := (one + two * alpha) * u - alpha in
    ret ((one - gamma) * x1 + gamma * x2, gamma * x1 + (one - gamma) * x2).

  (* for i, (x1, x2) in enumerate(zip(ind1, ind2)): writes position i of both lists;
     positions past the shorter list are untouched *)
  Fixpoint zip2M (f : T -> T -> M T (T * T)) (l1 l2 : list T) : M T (list T * list T) :=
    match l1, l2 with
    | x1 :: r1, x2 :: r2 =>
        '(c1, c2) <- f x1 x2 ;;
        '(r1', r2') <- zip2M f r1 r2 ;;
        ret (c1 :: r1', c2 :: r2')
    | _, _ => ret (l1, l2)
    end.

  Definition cx_blend (alpha : T) (ind1 ind2 : list T) : M T (list T * list T) :=
    zip2M (blend_gene alpha) ind1 ind2.

  (* ---------------- cxSimulatedBinary (crossover.py:262-287) ---------------- *)
  (* rand = random.random()
     if rand <= 0.5: beta = 2. * rand
     else: beta = 1. / (2. * (1. - rand))
     beta **= 1. / (eta + 1.)
     ind1[i] = 0.5 * (((1 + beta) * x1) + ((1 - beta) * x2))
     ind2[i] = 0.5 * (((1 - beta) * x1) + ((1 + beta) * x2)) *)
  Definition sbx_gene (eta x1 x2 : T) : M T (T * T) :=
    rand <- draw_random ;;
    beta0 <- (if rand <=? half then ret (two * rand)
              else one /? (two * (one - rand))) ;;
    ex <- one /? (eta + one) ;;
    beta <- beta0 ** ex ;;
    ret (half * (((one + beta) * x1) + ((one - beta) * x2)),
         half * (((one - beta) * x1) + ((one + beta) * x2))).

  Definition cx_sbx (eta : T) (ind1 ind2 : list T) : M T (list T * list T) :=
    zip2M (sbx_gene eta) ind1 ind2.

  (* ---------------- cxSimulatedBinaryBounded (crossover.py:290-359) ---------------- *)
  (* beta = 1.0 + (2.0 * (num) / (x2 - x1))
     alpha = 2.0 - beta ** -(eta + 1)
     if rand <= 1.0 / alpha: beta_q = (rand * alpha) ** (1.0 / (eta + 1))
     else: beta_q = (1.0 / (2.0 - rand * alpha)) ** (1.0 / (eta + 1)) *)
  Definition sbxb_betaq (eta rand num den : T) : M T T :=
    q <- (two * num) /? den ;;
    let beta := one + q in
    p <- beta ** (o_neg T O (eta + one)) ;;
    let alpha := two - p in
    ia <- one /? alpha ;;
    if rand <=? ia then
      ex <- one /? (eta + one) ;;
      (rand * alpha) ** ex
    else
      b <- one /? (two - rand * alpha) ;;
      ex <- one /? (eta + one) ;;
      b ** ex.

  (* body of the loop for one locus; a = ind1[i], b = ind2[i]; result = new (ind1[i], ind2[i]) *)
  Definition sbxb_gene (eta xl xu a b : T) : M T (T * T) :=
    u1 <- draw_random ;;
    if u1 <=? half then
      if o_eps T O <? o_abs T O (a - b) then
        let x1 := pymin a b in
        let x2 := pymax a b in
        rand <- draw_random ;;
        bq1 <- sbxb_betaq eta rand (x1 - xl) (x2 - x1) ;;
        let c1 := half * (x1 + x2 - bq1 * (x2 - x1)) in
        bq2 <- sbxb_betaq eta rand (xu - x2) (x2 - x1) ;;
        let c2 := half * (x1 + x2 + bq2 * (x2 - x1)) in
        let c1 := clip c1 xl xu in
        let c2 := clip c2 xl xu in
        u3 <- draw_random ;;
        if u3 <=? half then ret (c2, c1) else ret (c1, c2)
      else ret (a, b)
    else ret (a, b).

  (* for i, xl, xu in zip(range(size), low, up) *)
  Fixpoint zip2bM (f : T -> T -> T -> T -> M T (T * T)) (lows ups l1 l2 : list T)
    : M T (list T * list T) :=
    match lows, ups, l1, l2 with
    | xl :: lows', xu :: ups', a :: r1, b :: r2 =>
        '(c1, c2) <- f xl xu a b ;;
        '(r1', r2') <- zip2bM f lows' ups' r1 r2 ;;
        ret (c1 :: r1', c2 :: r2')
    | _, _, _, _ => ret (l1, l2)
    end.

  Definition cx_sbx_bounded (eta : T) (low up : bnd) (ind1 ind2 : list T)
    : M T (list T * list T) :=
    let size := Nat.min (length ind1) (length ind2) in
    lows <- expand low size ;;
    ups <- expand up size ;;
    zip2bM (sbxb_gene eta) (firstn size lows) (firstn size ups) ind1 ind2.

  (* ---------------- cxESBlend (crossover.py:389-415) ---------------- *)
  (* zip(ind1, ind1.strategy, ind2, ind2.strategy): stops at the shortest of the four *)
  Fixpoint cx_es_blend (alpha : T) (g1 s1 g2 s2 : list T)
    : M T (list T * list T * list T * list T) :=
    match g1, s1, g2, s2 with
    | x1 :: g1', t1 :: s1', x2 :: g2', t2 :: s2' =>
        '(c1, c2) <- blend_gene alpha x1 x2 ;;
        '(d1, d2) <- blend_gene alpha t1 t2 ;;
        '(a, b, c, d) <- cx_es_blend alpha g1' s1' g2' s2' ;;
        ret (c1 :: a, d1 :: b, c2 :: c, d2 :: d)
    | _, _, _, _ => ret (g1, s1, g2, s2)
    end.

  (* ---------------- mutGaussian (mutation.py:16-47) ---------------- *)
  (* if random.random() < indpb: individual[i] += random.gauss(m, s) *)
  Definition gauss_gene (indpb m s x : T) : M T T :=
    u <- draw_random ;;
    if u <? indpb then (g <- draw_gauss m s ;; ret (x + g)) else ret x.

  (* for i, m, s in zip(range(size), mu, sigma) *)
  Fixpoint map2bM (f : T -> T -> T -> M T T) (ms ss l : list T) : M T (list T) :=
    match ms, ss, l with
    | m :: ms', s :: ss', x :: r =>
        y <- f m s x ;;
        r' <- map2bM f ms' ss' r ;;
        ret (y :: r')
    | _, _, _ => ret l
    end.

  Definition mut_gaussian (mu sigma : bnd) (indpb : T) (ind : list T) : M T (list T) :=
    let size := length ind in
    ms <- expand mu size ;;
    ss <- expand sigma size ;;
    map2bM (gauss_gene indpb) ms ss ind.

  (* ---------------- mutPolynomialBounded (mutation.py:50-95) ---------------- *)
  Definition poly_gene (eta indpb xl xu x : T) : M T T :=
    u <- draw_random ;;
    if u <=? indpb then
      delta_1 <- (x - xl) /? (xu - xl) ;;
      delta_2 <- (xu - x) /? (xu - xl) ;;
      rand <- draw_random ;;
      mut_pow <- one /? (eta + one) ;;
      delta_q <- (if rand <? half then
                    let xy := one - delta_1 in
                    p <- xy ** (eta + one) ;;
                    let val := two * rand + (one - two * rand) * p in
                    q <- val ** mut_pow ;;
                    ret (q - one)
                  else
                    let xy := one - delta_2 in
                    p <- xy ** (eta + one) ;;
                    let val := two * (one - rand) + two * (rand - half) * p in
                    q <- val ** mut_pow ;;
                    ret (one - q)) ;;
      let x' := x + delta_q * (xu - xl) in
      ret (clip x' xl xu)
    else ret x.

  Definition mut_poly (eta : T) (low up : bnd) (indpb : T) (ind : list T) : M T (list T) :=
    let size := length ind in
    lows <- expand low size ;;
    ups <- expand up size ;;
    map2bM (poly_gene eta indpb) lows ups ind.

  (* ---------------- mutESLogNormal (mutation.py:208-243) ---------------- *)
  (* for indx in range(size):
       if random.random() < indpb:
         individual.strategy[indx] *= math.exp(t0_n + t * random.gauss(0, 1))
         individual[indx] += individual.strategy[indx] * random.gauss(0, 1)
     strategy[indx] is loaded before the right-hand side is evaluated (IndexError first) *)
  Fixpoint eslog_loop (t t0n indpb : T) (g st : list T) : M T (list T * list T) :=
    match g with
    | [] => ret ([], st)
    | x :: g' =>
        u <- draw_random ;;
        if u <? indpb then
          match st with
          | [] => raise IndexErr
          | sg :: st' =>
              n1 <- draw_gauss c0 one ;;
              e <- o_exp T O (t0n + t * n1) ;;
              let sg' := sg * e in
              n2 <- draw_gauss c0 one ;;
              let x' := x + sg' * n2 in
              '(gr, sr) <- eslog_loop t t0n indpb g' st' ;;
              ret (x' :: gr, sg' :: sr)
          end
        else
          match st with
          | [] => '(gr, sr) <- eslog_loop t t0n indpb g' [] ;; ret (x :: gr, sr)
          | sg :: st' => '(gr, sr) <- eslog_loop t t0n indpb g' st' ;; ret (x :: gr, sg :: sr)
          end
    end.

  (* size = len(individual)
     t = c / math.sqrt(2. * math.sqrt(size)); t0 = c / math.sqrt(2. * size)
     n = random.gauss(0, 1); t0_n = t0 * n *)
  Definition mut_es_lognormal (c indpb : T) (g st : list T) : M T (list T * list T) :=
    let size := o_ofnat T O (length g) in
    t <- c /? o_sqrt T O (two * o_sqrt T O size) ;;
    t0 <- c /? o_sqrt T O (two * size) ;;
    n <- draw_gauss c0 one ;;
    let t0n := t0 * n in
    eslog_loop t t0n indpb g st.

  (* ---------------- object level: the operators write into and return their arguments ------------- *)
  (* iuid / suid: identity of the individual object and of its .strategy list *)
  Record indiv := mkind { iuid : nat; genes : list T; suid : nat; strat : list T }.
  Definition with_genes (i : indiv) (g : list T) : indiv := mkind (iuid i) g (suid i) (strat i).
  Definition with_both (i : indiv) (g s : list T) : indiv := mkind (iuid i) g (suid i) s.

  Definition op_blend alpha (i1 i2 : indiv) : M T (indiv * indiv) :=
    '(g1, g2) <- cx_blend alpha (genes i1) (genes i2) ;; ret (with_genes i1 g1, with_genes i2 g2).
  Definition op_sbx eta (i1 i2 : indiv) : M T (indiv * indiv) :=
    '(g1, g2) <- cx_sbx eta (genes i1) (genes i2) ;; ret (with_genes i1 g1, with_genes i2 g2).
  Definition op_sbx_bounded eta low up (i1 i2 : indiv) : M T (indiv * indiv) :=
    '(g1, g2) <- cx_sbx_bounded eta low up (genes i1) (genes i2) ;;
    ret (with_genes i1 g1, with_genes i2 g2).
  Definition op_es_blend alpha (i1 i2 : indiv) : M T (indiv * indiv) :=
    '(g1, s1, g2, s2) <- cx_es_blend alpha (genes i1) (strat i1) (genes i2) (strat i2) ;;
    ret (with_both i1 g1 s1, with_both i2 g2 s2).
  Definition op_gaussian mu sigma indpb (i : indiv) : M T indiv :=
    g <- mut_gaussian mu sigma indpb (genes i) ;; ret (with_genes i g).
  Definition op_poly eta low up indpb (i : indiv) : M T indiv :=
    g <- mut_poly eta low up indpb (genes i) ;; ret (with_genes i g).
  Definition op_es_lognormal c indpb (i : indiv) : M T indiv :=
    '(g, s) <- mut_es_lognormal c indpb (genes i) (strat i) ;; ret (with_both i g s).
End Model.

Arguments Scalar {T} x.
Arguments PerGene {T} l.
Arguments mkind {T} iuid genes suid strat.
Arguments iuid {T} i.
Arguments genes {T} i.
Arguments suid {T} i.
Arguments strat {T} i.

(* ------------------------------------------------------------------------------------------ *)
(* The float instance: IEEE binary64, as CPython's float.                                      *)
(* ------------------------------------------------------------------------------------------ *)
Local Open Scope float_scope.

(* identical as Python objects' values: same bits (all NaNs identified) *)
Definition fsame (x y : float) : bool :=
  if PrimFloat.is_nan x then PrimFloat.is_nan y
  else (x =? y) && Bool.eqb (PrimFloat.get_sign x) (PrimFloat.get_sign y).

Definition fdiv (a b : float) : res float :=
  if b =? 0 then Raise ZeroDiv else Ok (a / b).

(* a ** b: the value is the recorded oracle result; the arguments must be the recorded ones
   bit for bit, and the recorded kind must be one CPython's float_pow can produce for them:
     0.0 ** negative            -> ZeroDivisionError
     negative ** non-integer    -> complex (the model cannot see integrality: a recorded value is
                                   accepted for a negative base, a recorded complex only for one)
     otherwise a float, or OverflowError *)
Definition fpw (b e : float) : M float float :=
  fun s => match s with
           | EPow b' e' r :: s' =>
               if fsame b b' && fsame e e' then
                 match r with
                 | PVal v => if (b =? 0) && (e <? 0) then Stuck else Ok (v, s')
                 | PComplex => if b <? 0 then Raise TypeErr else Stuck
                 | PZeroDiv => if (b =? 0) && (e <? 0) then Raise ZeroDiv else Stuck
                 | POverflow => Raise Overflow
                 end
               else Stuck
           | _ => Stuck
           end.

(* math.exp(a): a float or OverflowError *)
Definition fexp (a : float) : M float float :=
  fun s => match s with
           | EExp a' r :: s' =>
               if fsame a a' then
                 match r with
                 | PVal v => Ok (v, s')
                 | POverflow => Raise Overflow
                 | _ => Stuck
                 end
               else Stuck
           | _ => Stuck
           end.

Definition FOps : ops float := {|
  o_add := PrimFloat.add; o_sub := PrimFloat.sub; o_mul := PrimFloat.mul; o_div := fdiv;
  o_neg := PrimFloat.opp; o_abs := PrimFloat.abs;
  o_ltb := PrimFloat.ltb; o_leb := PrimFloat.leb; o_same := fsame;
  o_c0 := 0; o_half := 0x1p-1; o_one := 1; o_two := 2;
  o_eps := 0x1.6849b86a12b9bp-47;     (* (1e-14).hex() *)
  o_sqrt := PrimFloat.sqrt;
  o_ofnat := fun n => PrimFloat.of_uint63 (Uint63.of_Z (Z.of_nat n));
  o_pw := fpw; o_exp := fexp |}.
