(* Model for C15, part 2 — the code paths of the two implementations for ONE and TWO objectives,
   transcribed from the sources (these are the paths DEAP's own algorithms use most: NSGA-II/SPEA2
   benchmarks are bi-objective).  For three and more objectives the sweeps (AVL tree, multi-list caches)
   are not modelled; see Model/C15_HV.v.

   pyhv.py  (_HyperVolume.compute + preProcess + hvRecursive with dimIndex = 0 / 1)
   _hv.c    (fpli_hv: filter, n == 0, n == 1, hv_recursive with dim = 0 / 1)

   Executable definitions only. *)
From Coq Require Import List QArith Bool.
From DV Require Import Model.C15_HV.
Import ListNotations.
Local Open Scope Q_scope.

Definition pt := (Q * Q)%type.
Definition pt2 (xy : pt) : point := [fst xy; snd xy].

(* stable insertion sort: sorted(l) for a total preorder given by leb *)
Section Sort.
  Context {A : Type} (leb : A -> A -> bool).
  Fixpoint insert_by (p : A) (l : list A) : list A :=
    match l with
    | [] => [p]
    | q :: l' => if leb p q then p :: l else q :: insert_by p l'
    end.
  Definition sort_by (l : list A) : list A := fold_right insert_by [] l.
End Sort.

(* ---------------------------------------------------------------- pyhv.py, two objectives *)
(* relevantPoints = numpy.subtract(relevantPoints, referencePoint)  (not in place since a4d4824) *)
Definition shift2 (rx ry : Q) (p : pt) : pt := (fst p - rx, snd p - ry).

(* order of the list of dimension 1 after preProcess: decorated.sort() on (cargo[1], node) with
   Node.__lt__ = lexicographic comparison of the cargo (after the repair), stable *)
Definition leb_yx (p q : pt) : bool :=
  match snd p ?= snd q with
  | Lt => true
  | Gt => false
  | Eq => Qle_bool (fst p) (fst q)
  end.

(* hvRecursive, dimIndex == 1:
     q = sentinel.next[1]; h = q.cargo[0]; p = q.next[1]
     while p is not sentinel:
         hvol += h * (q.cargo[1] - p.cargo[1])
         if p.cargo[0] < h: h = p.cargo[0]
         q = p; p = q.next[1]
     hvol += h * q.cargo[1]                                                          *)
Fixpoint py_loop (h qy : Q) (l : list pt) (hvol : Q) : Q :=
  match l with
  | [] => hvol + h * qy
  | p :: l' =>
      let hvol' := hvol + h * (qy - snd p) in
      let h' := if Qltb (fst p) h then fst p else h in
      py_loop h' (snd p) l' hvol'
  end.

Definition pyhv2 (rx ry : Q) (pts : list pt) : Q :=
  match sort_by leb_yx (map (shift2 rx ry) pts) with
  | [] => 0                                   (* length == 0 *)
  | q :: l => py_loop (fst q) (snd q) l 0
  end.

(* one objective: hvRecursive, dimIndex == 0: -sentinel.next[0].cargo[0] *)
Definition pyhv1 (r : Q) (xs : list Q) : Q :=
  match sort_by Qle_bool (map (fun x => x - r) xs) with
  | [] => 0
  | m :: _ => - m
  end.

(* ---------------------------------------------------------------- _hv.c, two objectives *)
(* filter(): only the points that strictly dominate the reference remain *)
Definition c_filter2 (rx ry : Q) (pts : list pt) : list pt :=
  filter (fun p => Qltb (fst p) rx && Qltb (snd p) ry) pts.

(* hv_recursive, dim == 1:
     p1 = list->next[1]; hypera = p1->x[0]; hyperv = 0
     while ((p0 = p1->next[1])->x) {
         hyperv += (ref[0] - hypera) * (p0->x[1] - p1->x[1]);
         if (p0->x[0] < hypera) hypera = p0->x[0];
         p1 = p0; }
     hyperv += (ref[0] - hypera) * (ref[1] - p1->x[1]);                               *)
Fixpoint c_loop (rx ry : Q) (hypera p1y : Q) (l : list pt) (hyperv : Q) : Q :=
  match l with
  | [] => hyperv + (rx - hypera) * (ry - p1y)
  | p0 :: l' =>
      let hyperv' := hyperv + (rx - hypera) * (snd p0 - p1y) in
      let hypera' := if Qltb (fst p0) hypera then fst p0 else hypera in
      c_loop rx ry hypera' (snd p0) l' hyperv'
  end.

(* fpli_hv on the list as sorted by qsort on the second coordinate (compare_node looks at x[1] only, so
   the order among equal second coordinates is whatever qsort produced: [sorted] is any such order) *)
Definition chv2_sorted (rx ry : Q) (sorted : list pt) : Q :=
  match sorted with
  | [] => 0                                                   (* n == 0 *)
  | [p] => 1 * (rx - fst p) * (ry - snd p)                    (* n == 1 *)
  | p1 :: l => c_loop rx ry (fst p1) (snd p1) l 0
  end.

Definition leb_y (p q : pt) : bool := Qle_bool (snd p) (snd q).

Definition chv2 (rx ry : Q) (pts : list pt) : Q :=
  chv2_sorted rx ry (sort_by leb_y (c_filter2 rx ry pts)).

(* one objective: filter; n == 0 -> 0; n == 1 -> ref - x; else dim == 0: ref[0] - list->next[0]->x[0] *)
Definition chv1 (r : Q) (xs : list Q) : Q :=
  match sort_by Qle_bool (filter (fun x => Qltb x r) xs) with
  | [] => 0
  | [x] => 1 * (r - x)
  | m :: _ => r - m
  end.
