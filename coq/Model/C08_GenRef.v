(* Reference transcription of the methods of HallOfFame / ParetoFront (deap/tools/support.py) in the run-time
   vocabulary of Model/C08_GenRt.v, generic in the World.  It is the text harness/c08_py2coq.py produced from the
   source at the time the tie (T) was built (frozen here, under the names m_f), and serves as the PLACEHOLDER of a
   method the translator refuses: coq/Gen/C08_gen.v then defines  gen_f := m_f  (reported as refused; that method
   is tied by the correspondence only), so that the other methods keep the regenerated tie and the committed
   equivalence file always builds.  Proofs/C08_gen_equiv.v proves the same lemmas about the gen_f whatever they are. *)
From Coq Require Import List ZArith Bool.
From DV Require Import Base.PyTuple Base.PyList Model.C08_Archive Model.C08_GenRt.
Import ListNotations.
Local Open Scope Z_scope.
Local Open Scope c08_scope.

Section Ref.

Context {W : World}.
Local Notation M := (@M W).

Definition m_len : M Z :=
  t1 <- get_items ;; ret (zlen t1).

Definition m_getitem (v_i : Z) : M (ref W) :=
  t1 <- get_items ;; t2 <- indexM t1 v_i ;; ret t2.

Definition m_iter : M (list (ref W)) :=
  t1 <- get_items ;; ret t1.

Definition m_insert (v_item : (ref W)) : M unit :=
  t1 <- deepcopyM v_item ;; let v_item := t1 in
  t2 <- get_keys ;; t3 <- bisect_rightM t2 (fitness_of v_item) ;; let v_i := t3 in
  t4 <- m_len ;; t5 <- get_items ;; set_items (py_insert t5 (t4 - v_i) v_item) ;;;
  t6 <- get_keys ;; set_keys (py_insert t6 v_i (fitness_of v_item)) ;;;
  ret tt.

Definition m_remove (v_index : Z) : M unit :=
  t1 <- m_len ;; t2 <- m_len ;; t3 <- modM v_index t2 ;; t4 <- get_keys ;; t5 <- delM t4 (t1 - (t3 + 1)) ;; set_keys t5 ;;;
  t6 <- get_items ;; t7 <- delM t6 v_index ;; set_items t7 ;;;
  ret tt.

Definition m_clear : M unit :=
  t1 <- get_items ;; set_items (py_del_slice t1 None None) ;;;
  t2 <- get_keys ;; set_keys (py_del_slice t2 None None) ;;;
  ret tt.

Definition m_hof_update (maxsize : Z) (v_population : (list (ref W))) : M unit :=
  t12 <- for_ctl v_population (fun v_ind _ =>
      t1 <- m_len ;; if (andb (t1 =? 0) (negb (maxsize =? 0))) then
        t2 <- indexM v_population 0 ;; m_insert t2 ;;;
        ret (Next tt)
      else
        t3 <- m_getitem (-1) ;; t4 <- valM (fitness_of v_ind) ;; t5 <- valM (fitness_of t3) ;; t7 <- ((if (fit_gt t4 t5) then ret true else (t6 <- m_len ;; ret (t6 <? maxsize)))) ;; if t7 then
          t8 <- m_iter ;; t10 <- for_ctl t8 (fun v_hofer _ =>
              t9 <- similarM v_ind v_hofer ;; if t9 then
                ret (Break tt)
              else
                ret (Next tt)
            ) tt ;;
          match t10 with
          | Next _ =>
              t11 <- m_len ;; if (t11 >=? maxsize) then
                m_remove (-1) ;;;
                m_insert v_ind ;;;
                ret (Next tt)
              else
                m_insert v_ind ;;;
                ret (Next tt)
          | Break _ =>
              ret (Next tt)
          | Return =>
              ret Return
          end
        else
          ret (Next tt)
    ) tt ;;
  match t12 with
  | Next _ | Break _ =>
      ret tt
  | Return =>
      ret tt
  end.

Definition m_pf_update (v_population : (list (ref W))) : M unit :=
  t13 <- for_ctl v_population (fun v_ind _ =>
      let v_is_dominated := false in
      let v_dominates_one := false in
      let v_has_twin := false in
      let v_to_remove := (@nil Z) in
      t1 <- m_iter ;; t11 <- for_ctl (enumerate_from 0 t1) (fun '(v_i, v_hofer) '(v_is_dominated, v_dominates_one, v_to_remove, v_has_twin) =>
          t4 <- ((if (negb v_dominates_one) then (t2 <- valM (fitness_of v_hofer) ;; t3 <- valM (fitness_of v_ind) ;; ret (fit_dom t2 t3)) else ret false)) ;; if t4 then
            let v_is_dominated := true in
            ret (Break (v_is_dominated, v_dominates_one, v_to_remove, v_has_twin))
          else
            t5 <- valM (fitness_of v_ind) ;; t6 <- valM (fitness_of v_hofer) ;; if (fit_dom t5 t6) then
              let v_dominates_one := true in
              let v_to_remove := (v_to_remove ++ [v_i]) in
              ret (Next (v_is_dominated, v_dominates_one, v_to_remove, v_has_twin))
            else
              t7 <- valM (fitness_of v_ind) ;; t8 <- valM (fitness_of v_hofer) ;; t10 <- ((if (fit_eq t7 t8) then (t9 <- similarM v_ind v_hofer ;; ret t9) else ret false)) ;; if t10 then
                let v_has_twin := true in
                ret (Break (v_is_dominated, v_dominates_one, v_to_remove, v_has_twin))
              else
                ret (Next (v_is_dominated, v_dominates_one, v_to_remove, v_has_twin))
        ) (v_is_dominated, v_dominates_one, v_to_remove, v_has_twin) ;;
      match t11 with
      | Next (v_is_dominated, v_dominates_one, v_to_remove, v_has_twin) | Break (v_is_dominated, v_dominates_one, v_to_remove, v_has_twin) =>
          t12 <- for_ctl (rev v_to_remove) (fun v_i _ =>
              m_remove v_i ;;;
              ret (Next tt)
            ) tt ;;
          match t12 with
          | Next _ | Break _ =>
              if (andb (negb v_is_dominated) (negb v_has_twin)) then
                m_insert v_ind ;;;
                ret (Next tt)
              else
                ret (Next tt)
          | Return =>
              ret Return
          end
      | Return =>
          ret Return
      end
    ) tt ;;
  match t13 with
  | Next _ | Break _ =>
      ret tt
  | Return =>
      ret tt
  end.

End Ref.
