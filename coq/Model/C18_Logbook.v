(* Model of deap/tools/support.py: Logbook, Statistics, MultiStatistics.
   Executable definitions only (no proofs).  The model follows the code AFTER the three C18 fix
   commits in /repo (slice deletion in descending order; pop normalises the index after the list
   accepted it; pop recurses into the chapters, __delitem__ just calls pop).

   Names (dict keys, chapter names) are integer codes.  A record value is a scalar (Z) or a
   dictionary (-> chapter).  Stored entries carry a ghost uid: the number of record() calls made on
   the top-level logbook before this one (the harness stores the same number in a field of the
   record, so the ghost is observable); no operation inspects it.
   Column formatting of __txt__ is not modelled: stream / str return the uids of the delivered
   records, whether the header block is part of the text, or the exception raised. *)
From Coq Require Import List ZArith Bool Lia.
From DV Require Import Base.PyList.
From DV Require Export Base.C18_Lists.   (* remove_nth, norm_index, sort_desc (= sorted(reverse=True)) *)
Import ListNotations.
Local Open Scope Z_scope.

Definition name := Z.

Inductive value := VInt (z : Z) | VDict (d : list (name * value)).
Definition dict := list (name * value).
Definition entry := list (name * Z).

(* ---- Python dict as an association list in insertion order ---- *)
Section Dict.
  Context {V : Type}.
  Fixpoint lookup (k : name) (d : list (name * V)) : option V :=
    match d with
    | [] => None
    | (k', v) :: r => if k =? k' then Some v else lookup k r
    end.
  (* d[k] = v : replaces in place, else appends *)
  Fixpoint dict_set (k : name) (v : V) (d : list (name * V)) : list (name * V) :=
    match d with
    | [] => [(k, v)]
    | (k', v') :: r => if k =? k' then (k', v) :: r else (k', v') :: dict_set k v r
    end.
  (* d.update(u) *)
  Definition dict_update (d u : list (name * V)) : list (name * V) :=
    fold_left (fun acc kv => dict_set (fst kv) (snd kv) acc) u d.
End Dict.

(* {k: v for k, v in infos.items() if not isinstance(v, dict)}; also what is left of infos after
   `del infos[key]` for every dict-valued key *)
Definition scalars (d : dict) : entry :=
  flat_map (fun kv => match snd kv with VInt z => [(fst kv, z)] | VDict _ => [] end) d.
Definition inject (e : entry) : dict := map (fun kz => (fst kz, VInt (snd kz))) e.

Fixpoint vdepth (v : value) : nat :=
  match v with
  | VInt _ => O
  | VDict d => S ((fix go (l : dict) : nat :=
                     match l with [] => O | (_, x) :: r => Nat.max (vdepth x) (go r) end) d)
  end.
Definition ddepth (d : dict) : nat := vdepth (VDict d).

(* ---- Logbook ---- *)
(* recs: list.__iter__(self) ; buff: buffindex ; chs: chapters (defaultdict(Logbook), insertion order);
   hdr: header ; logh: log_header.  columns_len only influences column widths: not modelled. *)
Inductive lb :=
  LB (recs : list (nat * entry)) (buff : Z) (chs : list (name * lb)) (hdr : option (list name)) (logh : bool).

Definition recs (l : lb) := let 'LB r _ _ _ _ := l in r.
Definition buff (l : lb) := let 'LB _ b _ _ _ := l in b.
Definition chs (l : lb) := let 'LB _ _ c _ _ := l in c.
Definition hdr (l : lb) := let 'LB _ _ _ h _ := l in h.
Definition logh (l : lb) := let 'LB _ _ _ _ g := l in g.
Definition ids (l : lb) : list nat := map fst (recs l).

Definition new_lb : lb := LB [] 0 [] None true.       (* Logbook.__init__ *)

(* OtherError is never produced by the model: it stands for any other exception the harness observes *)
Inductive err := IndexError | ValueError | KeyError | Unmodelled | OutOfFuel | OtherError.
Inductive res (A : Type) := Ok (a : A) | Err (e : err).
Arguments Ok {A} a.
Arguments Err {A} e.

(* record( **infos ).  The recursive call is on value.copy().update(apply_to_all), which is not a
   sub-term of infos, so the recursion is on explicit fuel; fuel > ddepth infos always suffices
   (Proofs: lb_record_fuel).  None = out of fuel. *)
Definition chapter_of (key : name) (cs : list (name * lb)) : lb :=
  match lookup key cs with Some c => c | None => new_lb end.          (* defaultdict(Logbook) *)

(* for key, value in list(infos.items()): if isinstance(value, dict): ... self.chapters[key].record(...) *)
Section RecordLoop.
  Variable rec_chapter : dict -> lb -> option lb.     (* value |-> chapter.record( **value.copy().update(apply_to_all) ) *)
  Fixpoint record_loop (items : dict) (cs : list (name * lb)) : option (list (name * lb)) :=
    match items with
    | [] => Some cs
    | (_, VInt _) :: r => record_loop r cs
    | (key, VDict d) :: r =>
        match rec_chapter d (chapter_of key cs) with
        | None => None
        | Some c' => record_loop r (dict_set key c' cs)
        end
    end.
End RecordLoop.

Fixpoint lb_record (fuel : nat) (uid : nat) (infos : dict) (l : lb) : option lb :=
  match fuel with
  | O => None
  | S f =>
    let apply_to_all := scalars infos in
    match record_loop (fun d c => lb_record f uid (dict_update d (inject apply_to_all)) c) infos (chs l) with
    | None => None
    | Some cs' => Some (LB (recs l ++ [(uid, apply_to_all)]) (buff l) cs' (hdr l) (logh l))
    end
  end.

(* select( *names ) *)
Inductive selres := Sel1 (col : list (option Z)) | SelN (cols : list (list (option Z))).
Definition column (nm : name) (l : lb) : list (option Z) := map (fun e => lookup nm (snd e)) (recs l).
Definition lb_select (names : list name) (l : lb) : selres :=
  match names with
  | [nm] => Sel1 (column nm l)
  | _ => SelN (map (fun nm => column nm l) names)
  end.

(* pop(index):   item = list.pop(self, index)            -- IndexError leaves everything unchanged
                 if index < 0: index += len(self) + 1
                 if index < self.buffindex: self.buffindex -= 1
                 for chapter in self.chapters.values(): chapter.pop(index)
   An exception in a chapter propagates and leaves the partial state behind. *)
Section PopChapters.
  Variable pop_one : lb -> lb * res (nat * entry).
  (* for chapter in self.chapters.values(): chapter.pop(index)  -- stops at the first exception *)
  Fixpoint pop_chapters (cl : list (name * lb)) : list (name * lb) * option err :=
    match cl with
    | [] => ([], None)
    | (k, c) :: r =>
        match pop_one c with
        | (c', Err e) => ((k, c') :: r, Some e)
        | (c', Ok _) => let (r', e) := pop_chapters r in ((k, c') :: r', e)
        end
    end.
End PopChapters.

Fixpoint lb_pop (i : Z) (l : lb) {struct l} : lb * res (nat * entry) :=
  match l with
  | LB rs bf cs h g =>
    match py_get rs i with
    | None => (LB rs bf cs h g, Err IndexError)
    | Some item =>
        let rs' := remove_nth (Z.to_nat (norm_index i (zlen rs))) rs in
        let idx := if i <? 0 then i + (zlen rs' + 1) else i in
        let bf' := if idx <? bf then bf - 1 else bf in
        let (cs', e) := pop_chapters (lb_pop idx) cs in
        (LB rs' bf' cs' h g, match e with None => Ok item | Some e => Err e end)
    end
  end.

Fixpoint pop_all (idxs : list Z) (l : lb) : lb * option err :=
  match idxs with
  | [] => (l, None)
  | i :: r => match lb_pop i l with
              | (l', Err e) => (l', Some e)
              | (l', Ok _) => pop_all r l'
              end
  end.

(* __delitem__(key) *)
Definition lb_delitem (i : Z) (l : lb) : lb * res unit :=
  let (l', r) := lb_pop i l in (l', match r with Ok _ => Ok tt | Err e => Err e end).

(* step None = 1; step 0: slice.indices raises ValueError *)
Definition lb_delslice (start stop step : option Z) (l : lb) : lb * res unit :=
  let st := match step with None => 1 | Some s => s end in
  if st =? 0 then (l, Err ValueError)
  else let (l', e) := pop_all (sort_desc (slice_idx start stop st (zlen (recs l)))) l in
       (l', match e with None => Ok tt | Some e => Err e end).

(* ---- __txt__ : which exception, if any ---- *)
Definition truthy (h : option (list name)) : bool := match h with Some (_ :: _) => true | _ => false end.
Definition isnil {A} (l : list A) : bool := match l with [] => true | _ => false end.

(* every chapter, recursively, is as long as its logbook: the only states in which the outcome of
   __txt__ is modelled *)
Fixpoint len_aligned (l : lb) : bool :=
  match l with
  | LB rs _ cs _ _ =>
      forallb (fun kc => Nat.eqb (length (recs (snd kc))) (length rs) && len_aligned (snd kc)) cs
  end.

(* On a length-aligned logbook __txt__(start) raises exactly when there is no record:
   - header falsy: sorted(self[0].keys()) -> IndexError (before anything else);
   - then the chapters' own __txt__ in dict order;
   - then, when the header block is requested (start == 0 and log_header), max() of an empty
     sequence -> ValueError. *)
Section FirstErr.
  Variable f : lb -> option err.
  Fixpoint first_err (cl : list (name * lb)) : option err :=
    match cl with
    | [] => None
    | (_, c) :: r => match f c with Some e => Some e | None => first_err r end
    end.
End FirstErr.

Fixpoint txt_err (start : Z) (l : lb) {struct l} : option err :=
  match l with
  | LB rs _ cs h g =>
      if negb (truthy h) && isnil rs then Some IndexError
      else match first_err (txt_err start) cs with
           | Some e => Some e
           | None => if (start =? 0) && g && isnil rs then Some ValueError else None
           end
  end.

(* __str__(startindex): delivered uids, header block present *)
Definition lb_text (start : Z) (l : lb) : res (list nat * bool) :=
  if negb (len_aligned l) then Err Unmodelled
  else match txt_err start l with
       | Some e => Err e
       | None => Ok (map fst (py_slice (recs l) (Some start) None 1), (start =? 0) && logh l)
       end.

(* stream:  startindex, self.buffindex = self.buffindex, len(self); return self.__str__(startindex)
   (buffindex is updated before the text is built, hence also when __str__ raises) *)
Definition lb_stream (l : lb) : lb * res (list nat * bool) :=
  (LB (recs l) (zlen (recs l)) (chs l) (hdr l) (logh l), lb_text (buff l) l).

Definition set_header (h : option (list name)) (l : lb) : lb := LB (recs l) (buff l) (chs l) h (logh l).
Definition set_logh (g : bool) (l : lb) : lb := LB (recs l) (buff l) (chs l) (hdr l) g.

(* log.chapters[p1].chapters[p2]... for existing chapters (KeyError stands for "no such chapter";
   the harness only addresses existing ones because defaultdict would create it) *)
Fixpoint find_path (p : list name) (l : lb) : option lb :=
  match p with
  | [] => Some l
  | k :: r => match lookup k (chs l) with Some c => find_path r c | None => None end
  end.

(* ---- operation histories ---- *)
Inductive op :=
| ORecord (infos : dict)
| OSelect (path : list name) (names : list name)
| OStream
| OPrint                                   (* str(log) *)
| OPop (i : option Z)                      (* None: pop() *)
| ODelItem (i : Z)
| ODelSlice (start stop step : option Z)
| OPickle                                  (* log = pickle.loads(pickle.dumps(log)) *)
| OSetHeader (h : option (list name))
| OSetLogHeader (g : bool).

Inductive out :=
| ONone
| OSel (s : selres)
| OText (delivered : list nat) (header : bool)
| OItem (uid : nat) (e : entry)
| OErr (e : err).

Record state := mkstate { st_lb : lb; st_next : nat }.
Definition init_state : state := mkstate new_lb 0.

Definition unit_out (r : res unit) : out := match r with Ok _ => ONone | Err e => OErr e end.
Definition text_out (r : res (list nat * bool)) : out :=
  match r with Ok (d, h) => OText d h | Err e => OErr e end.

Definition step (s : state) (o : op) : state * out :=
  let l := st_lb s in
  let n := st_next s in
  match o with
  | ORecord infos =>
      match lb_record (S (ddepth infos)) n infos l with
      | Some l' => (mkstate l' (S n), ONone)
      | None => (s, OErr OutOfFuel)
      end
  | OSelect p names =>
      (s, match find_path p l with Some c => OSel (lb_select names c) | None => OErr KeyError end)
  | OStream => let (l', r) := lb_stream l in (mkstate l' n, text_out r)
  | OPrint => (s, text_out (lb_text 0 l))
  | OPop i =>
      let (l', r) := lb_pop (match i with Some i => i | None => 0 end) l in
      (mkstate l' n, match r with Ok (u, e) => OItem u e | Err e => OErr e end)
  | ODelItem i => let (l', r) := lb_delitem i l in (mkstate l' n, unit_out r)
  | ODelSlice a b c => let (l', r) := lb_delslice a b c l in (mkstate l' n, unit_out r)
  | OPickle => (s, ONone)
  | OSetHeader h => (mkstate (set_header h l) n, ONone)
  | OSetLogHeader g => (mkstate (set_logh g l) n, ONone)
  end.

(* the trace of a history: outcome and state after every operation *)
Fixpoint run (s : state) (h : list op) : list (out * state) :=
  match h with
  | [] => []
  | o :: r => let (s', x) := step s o in (x, s') :: run s' r
  end.
Definition final (s : state) (h : list op) : state := fold_left (fun s o => fst (step s o)) h s.
Definition outs (s : state) (h : list op) : list out := map fst (run s h).

(* ---- the uniformity hypothesis of the theorems, as an executable check ---- *)
(* a tree of chapter names *)
Inductive shape := Sh (sub : list (name * shape)).

Fixpoint nodupb (l : list name) : bool :=
  match l with [] => true | x :: r => negb (existsb (Z.eqb x) r) && nodupb r end.
Definition is_dict (v : value) : bool := match v with VDict _ => true | VInt _ => false end.

(* record( **infos ) feeds exactly the chapters of the tree s (see Proofs: has_shape); fuel as in lb_record *)
Fixpoint has_shapeb (fuel : nat) (infos : dict) (s : shape) : bool :=
  match fuel with
  | O => false
  | S f =>
    let 'Sh sub := s in
    nodupb (map fst infos) && nodupb (map fst sub) &&
    forallb (fun k => existsb (fun kv => (fst kv =? k) && is_dict (snd kv)) infos) (map fst sub) &&
    forallb (fun kv => match snd kv with
                       | VInt _ => true
                       | VDict d => match lookup (fst kv) sub with
                                    | Some sk => has_shapeb f (dict_update d (inject (scalars infos))) sk
                                    | None => false
                                    end
                       end) infos
  end.

Definition uniformb (s : shape) (h : list op) : bool :=
  forallb (fun o => match o with ORecord infos => has_shapeb (S (ddepth infos)) infos s | _ => true end) h.

(* ---- Statistics / MultiStatistics ---- *)
Section Stats.
  Context {A B C : Type}.
  (* functions: dict name -> partial(function, *args, **kargs); fields: list of registered names *)
  Record stats := mkstats { s_key : A -> B; s_funs : list (name * (list B -> C)); s_fields : list name }.
  Definition new_stats (key : A -> B) : stats := mkstats key [] [].
  (* register(name, function, *args, **kargs): the frozen arguments are applied first *)
  Definition st_register {Args : Type} (nm : name) (function : Args -> list B -> C) (args : Args) (s : stats) : stats :=
    mkstats (s_key s) (dict_set nm (function args) (s_funs s)) (s_fields s ++ [nm]).
  (* compile(data): values = tuple(key(elem) for elem in data); entry[name] = func(values) *)
  Definition st_compile (s : stats) (data : list A) : list (name * C) :=
    let values := map (s_key s) data in
    map (fun nf => (fst nf, snd nf values)) (s_funs s).

  Definition mstats := list (name * stats).
  Definition ms_compile (m : mstats) (data : list A) : list (name * list (name * C)) :=
    map (fun ns => (fst ns, st_compile (snd ns) data)) m.
  Definition ms_register {Args : Type} (nm : name) (function : Args -> list B -> C) (args : Args) (m : mstats) : mstats :=
    map (fun ns => (fst ns, st_register nm function args (snd ns))) m.
End Stats.
Arguments stats : clear implicits.
Arguments mstats : clear implicits.

(* the keyword arguments of  logbook.record( **gen, **mstats.compile(pop) )  for integer-valued statistics *)
Definition compiled_infos (gen : entry) (rec : list (name * list (name * Z))) : dict :=
  inject gen ++ map (fun kr => (fst kr, VDict (inject (snd kr)))) rec.
