(* C07 — executable model of deap/tools/emo.py: find_intercepts (lines 596-617), over exact
   rationals.

     b = numpy.ones(extreme_points.shape[1]); A = extreme_points - best_point
     try: x = numpy.linalg.solve(A, b)
     except numpy.linalg.LinAlgError: intercepts = current_worst
     else:
         if numpy.count_nonzero(x) != len(x): intercepts = front_worst
         else:
             intercepts = 1 / x
             if (not numpy.allclose(numpy.dot(A, x), b) or numpy.any(intercepts <= 1e-6) or
                     numpy.any((intercepts + best_point) > current_worst)):
                 intercepts = front_worst

   numpy.linalg.solve(A, b) is LAPACK gesv: it returns THE solution of A x = b, and raises
   LinAlgError exactly when A is singular (over exact arithmetic).  The model solves the system by
   Gaussian elimination over Q (first row with a non-zero leading coefficient as pivot);
   Proofs/C07_Intercepts.v shows that `solve` returns the unique solution when there is one and
   None exactly when the matrix has a non-trivial kernel, so the choice of elimination order is
   not observable.  Every branch of the code is kept, including the allclose test (proved to be
   always passed over Q).  No proofs here. *)
From Coq Require Import List ZArith QArith Qabs Bool.
From DV Require Import Base.PyList Base.C07_Num.
Import ListNotations.
Local Open Scope Q_scope.

(* numpy.dot of two vectors *)
Fixpoint vdot (a b : list Q) : Q :=
  match a, b with
  | x :: a', y :: b' => x * y + vdot a' b'
  | _, _ => 0
  end.

(* one equation: coefficients, right-hand side *)
Definition eqn := (list Q * Q)%type.

(* the first equation whose leading coefficient is non-zero, and the other equations in order *)
Fixpoint pick_pivot (rows : list eqn) : option (eqn * list eqn) :=
  match rows with
  | [] => None
  | r :: rest =>
      if Qeq_bool (hd 0 (fst r)) 0
      then match pick_pivot rest with
           | None => None
           | Some (p, others) => Some (p, r :: others)
           end
      else Some (r, rest)
  end.

(* r - (r[0]/p[0]) * p with the leading (now zero) coefficient dropped; results in lowest terms *)
Definition elim_row (p r : eqn) : eqn :=
  let f := Qred (hd 0 (fst r) / hd 0 (fst p)) in
  (map2 (fun a c => Qred (a - f * c)) (tl (fst r)) (tl (fst p)), Qred (snd r - f * snd p)).

(* n unknowns; None = singular *)
Fixpoint solve (n : nat) (rows : list eqn) : option (list Q) :=
  match n with
  | O => Some []
  | S n' =>
      match pick_pivot rows with
      | None => None
      | Some (p, others) =>
          match solve n' (map (elim_row p) others) with
          | None => None
          | Some x' => Some (Qred ((snd p - vdot (tl (fst p)) x') / hd 0 (fst p)) :: x')
          end
      end
  end.

(* the float literals of the code, exactly (binary64 values of 1e-6, 1e-5, 1e-8) *)
Definition icpt_min : Q := 4722366482869645 # 4722366482869645213696.        (* 1e-6 *)
Definition ac_rtol : Q := 5902958103587057 # 590295810358705651712.          (* 1e-5, numpy.allclose default *)
Definition ac_atol : Q := 3022314549036573 # 302231454903657293676544.       (* 1e-8 *)

(* numpy.allclose(a, b) for finite vectors: all(|a - b| <= atol + rtol * |b|) *)
Definition allclose (a b : list Q) : bool :=
  forallb (fun p => q_leb (Qabs (fst p - snd p)) (ac_atol + ac_rtol * Qabs (snd p))) (zip a b).

Inductive icpt_branch := BSingular | BZero | BGuard | BMain.

(* A = extreme_points - best_point *)
Definition icpt_matrix (ext : list (list Q)) (best : list Q) : list (list Q) :=
  map (fun z => map2 (fun a b => Qred (a - b)) z best) ext.

Definition find_intercepts_b (ext : list (list Q)) (best worst front_worst : list Q)
  : icpt_branch * list Q :=
  let A := icpt_matrix ext best in
  let b := repeat 1 (length best) in
  match solve (length best) (zip A b) with
  | None => (BSingular, worst)
  | Some x =>
      if existsb (fun v => Qeq_bool v 0) x then (BZero, front_worst)
      else
        let a := map (fun v => Qred (/ v)) x in
        if negb (allclose (map (fun row => vdot row x) A) b)
           || existsb (fun v => q_leb v icpt_min) a
           || existsb (fun p => q_ltb (snd p) (fst p)) (zip (map2 (fun v bp => Qred (v + bp)) a best) worst)
        then (BGuard, front_worst)
        else (BMain, a)
  end.

Definition find_intercepts (ext : list (list Q)) (best worst front_worst : list Q) : list Q :=
  snd (find_intercepts_b ext best worst front_worst).
