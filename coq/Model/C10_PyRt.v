(* Run-time library of the definitions that harness/c10_py2coq.py regenerates from
   deap/tools/crossover.py and deap/tools/mutation.py (tie (T) of property C10).

   The regenerated definitions live in the same monad [M T A = stream T -> res (A * stream T)] as the
   hand-written model (Model/C10_RealOps.v) and use the same number record [ops T]; this file adds what
   the Python statements need beyond that:
     l[i]            [getitem l i]     IndexError when i is out of range (i is a loop index: never negative)
     l[i] = v        [setitem l i v]   functional update; IndexError when i is out of range
     for x in xs     [for_list xs body st]   the loop-carried variables are the state [st]
     zip(a, b, c)    [zip3 a b c]  (zip(a, b) = [combine a b], four lists = [zip4])
   No proofs here. *)
From Coq Require Import List Bool Arith.
From DV Require Import Model.C10_RealOps.
Import ListNotations.
Local Open Scope m_scope.

Fixpoint upd {A} (l : list A) (i : nat) (v : A) : list A :=
  match l, i with
  | [], _ => []
  | _ :: r, O => v :: r
  | x :: r, S j => x :: upd r j v
  end.

Section Rt.
  Context {T : Type}.

  Definition getitem (l : list T) (i : nat) : M T T :=
    match nth_error l i with Some x => ret x | None => raise IndexErr end.

  Definition setitem (l : list T) (i : nat) (v : T) : M T (list T) :=
    match nth_error l i with Some _ => ret (upd l i v) | None => raise IndexErr end.

  Fixpoint for_list {X S} (xs : list X) (body : X -> S -> M T S) (st : S) : M T S :=
    match xs with
    | [] => ret st
    | x :: r => st' <- body x st ;; for_list r body st'
    end.
End Rt.

Definition zip3 {A B C} (a : list A) (b : list B) (c : list C) : list (A * B * C) :=
  combine (combine a b) c.
Definition zip4 {A B C D} (a : list A) (b : list B) (c : list C) (d : list D) : list (A * B * C * D) :=
  combine (zip3 a b c) d.
