(* C07 — the binary64 instance of the numeric operations (Coq primitive floats = IEEE-754
   round-to-nearest-even, the arithmetic of CPython / numpy float64).  Used only by the
   correspondence (Corr/C07.v); the theorems never mention it. *)
From Coq Require Import ZArith PrimFloat Uint63.
From DV Require Import Base.C07_Num.

Definition f_ofZ (z : Z) : float :=
  if (z <? 0)%Z then PrimFloat.opp (PrimFloat.of_uint63 (Uint63.of_Z (- z)))
  else PrimFloat.of_uint63 (Uint63.of_Z z).

Definition f_ops : numops float :=
  mkops float f_ofZ PrimFloat.add PrimFloat.sub PrimFloat.mul PrimFloat.div
        PrimFloat.ltb PrimFloat.eqb infinity.
