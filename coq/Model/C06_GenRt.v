(* Run-time library of the definitions that harness/c06_py2coq.py regenerates from the source text of
   deap/tools/selection.py and selTournamentDCD of deap/tools/emo.py (tie (T) of property C06).
   Executable definitions only; their characterising lemmas are in Proofs/C06_GenRt.v.

   The regenerated definitions live in the draw-stream monad M of Model/C06_Select.v and use its
   draw sites (choice, random01, shuffle, sample), the fitness functions (f_lt, f_gt, values,
   dominates, cd_lt) and the Python built-ins of Base/C06_Py.v.  What is added here is the
   statement-level vocabulary of the translator: loops with loop-carried state, `break`,
   `while` with explicit fuel, and the operations of Python that can raise. *)
From Coq Require Import List Bool Arith QArith Qabs.
From DV Require Import Base.PyList Base.C06_Py Model.C06_Select.
Import ListNotations.

(* float(k), and an int meeting a float in arithmetic or a comparison *)
Definition Qnat (n : nat) : Q := inject_Z (Z.of_nat n).

(* ---- loops ---- *)
(* `for x in l: body` without break; s = the variables assigned in the body that exist before the loop *)
Fixpoint for_each {A S : Type} (l : list A) (body : A -> S -> M S) (s : S) : M S :=
  match l with
  | [] => ret s
  | x :: r => s' <- body x s ;; for_each r body s'
  end.

(* the body says whether the loop goes on (fell off the end / `continue`) or stops (`break`) *)
Inductive ctl (S : Type) := Next (s : S) | Break (s : S).
Arguments Next {S} s.
Arguments Break {S} s.

Fixpoint for_break {A S : Type} (l : list A) (body : A -> S -> M (ctl S)) (s : S) : M S :=
  match l with
  | [] => ret s
  | x :: r => c <- body x s ;;
              match c with
              | Next s' => for_break r body s'
              | Break s' => ret s'
              end
  end.

(* `while cond: body`; running out of fuel is OtherError, which the hand model never produces, so the
   equivalence lemmas prove that the fuel chosen by the translator always suffices *)
Fixpoint while_fuel {S : Type} (fuel : nat) (cond : S -> bool) (body : S -> M S) (s : S) : M S :=
  if cond s then
    match fuel with
    | O => raise OtherError
    | Datatypes.S f => s' <- body s ;; while_fuel f cond body s'
    end
  else ret s.

(* range(a, b, s) for a literal step s >= 1 *)
Definition range_step (a b s : nat) : list nat :=
  map (fun j => a + j * s)%nat (seq 0 ((b - a + (s - 1)) / s)).

(* ---- operations that can raise ---- *)
(* l[i] for i >= 0 *)
Definition index {A} (l : list A) (i : nat) : M A :=
  match nth_error l i with Some x => ret x | None => raise IndexError end.

(* [x for x in l if f(x)] with a condition that can raise: decided element by element, in order *)
Fixpoint filterM {A} (f : A -> M bool) (l : list A) : M (list A) :=
  match l with
  | [] => ret []
  | x :: r => b <- f x ;; ys <- filterM f r ;; ret (if b then x :: ys else ys)
  end.

(* a / b on floats *)
Definition qdivM (a b : Q) : M Q :=
  if Qeq_bool b 0 then raise ZeroDivisionError else ret (a / b).

(* random.uniform(a, b) = a + (b - a) * random()  (CPython) *)
Definition uniformM (a b : Q) : M Q := u <- random01 ;; ret (a + (b - a) * u).

(* max(l, key=attrgetter(fit_attr)) *)
Definition py_maxM (l : list ind) : M ind :=
  match py_max f_gt l with Some x => ret x | None => raise ValueError end.

(* max(...) / min(...) of numbers *)
Definition qmaxM (l : list Q) : M Q := match l with [] => raise ValueError | _ => ret (qmax l) end.
Definition qminM (l : list Q) : M Q := match l with [] => raise ValueError | _ => ret (qmin l) end.

(* a, b = l *)
Definition unpack2 {A} (l : list A) : M (A * A) :=
  match l with [a; b] => ret (a, b) | _ => raise ValueError end.

(* l.pop(0) as a statement: the list that remains *)
Definition pop0 {A} (l : list A) : M (list A) :=
  match l with [] => raise IndexError | _ :: r => ret r end.
