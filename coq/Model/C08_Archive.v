(* Model of deap/tools/support.py: class HallOfFame (update / insert / remove / clear) and
   class ParetoFront (update).  Executable definitions only; proofs are in Proofs/C08_*.v.

   State: the two parallel Python lists  self.keys  (fitnesses, ascending) and  self.items
   (individuals, best first).  Individuals are abstract: [fitness] gives the weighted values
   (ind.fitness.wvalues) and [similar] is the operator handed to the constructor.  Exceptions
   are modelled by [None]; every list access follows CPython's index rules (negative indices,
   IndexError, list.insert clamping, ZeroDivisionError of  index % len(self)). *)
From Coq Require Import List ZArith Bool Lia.
From DV Require Import Base.PyTuple Base.PyList Model.C01_Fitness.
Import ListNotations.
Local Open Scope Z_scope.

(* ---- Python list primitives not in Base/PyList.v ---- *)
Fixpoint del_nth {A} (l : list A) (k : nat) : list A :=
  match l, k with
  | [], _ => []
  | _ :: r, O => r
  | x :: r, S k' => x :: del_nth r k'
  end.

(* del l[i] ; None = IndexError *)
Definition py_del {A} (l : list A) (i : Z) : option (list A) :=
  let n := zlen l in
  let j := if i <? 0 then i + n else i in
  if (j <? 0) || (n <=? j) then None else Some (del_nth l (Z.to_nat j)).

Fixpoint ins_nth {A} (l : list A) (k : nat) (v : A) : list A :=
  match k, l with
  | O, _ => v :: l
  | S k', x :: r => x :: ins_nth r k' v
  | S _, [] => [v]
  end.

(* l.insert(i, v): listobject.c ins1 — negative index wraps once, then clamps to [0, n] *)
Definition py_insert {A} (l : list A) (i : Z) (v : A) : list A :=
  let n := zlen l in
  let j := if i <? 0 then i + n else i in
  let j := if j <? 0 then 0 else j in
  let j := if n <? j then n else j in
  ins_nth l (Z.to_nat j) v.

(* ---- fitness operators used by the two classes (deap/base.py, model C01) ---- *)
Definition fit_lt (a b : list Z) : bool := tup_cmp OpLt a b.          (* Fitness.__lt__ *)
Definition fit_le (a b : list Z) : bool := tup_cmp OpLe a b.          (* Fitness.__le__ *)
Definition fit_gt (a b : list Z) : bool := negb (fit_le a b).         (* Fitness.__gt__ = not __le__ *)
Definition fit_eq (a b : list Z) : bool := tup_cmp OpEq a b.          (* Fitness.__eq__ *)
(* Fitness.dominates(other) with the default obj = slice(None): the whole tuples *)
Definition fit_dom (a b : list Z) : bool := dom_loop (zip a b) false.

(* bisect.bisect_right(a, x): binary search with  x < a[mid]  ; fuel = len + 1 is never exhausted *)
Fixpoint bisect_loop (fuel : nat) (a : list (list Z)) (x : list Z) (lo hi : nat) : nat :=
  match fuel with
  | O => lo
  | S f =>
      if Nat.ltb lo hi then
        let mid := Nat.div2 (lo + hi) in
        match nth_error a mid with
        | Some am => if fit_lt x am then bisect_loop f a x lo mid
                     else bisect_loop f a x (S mid) hi
        | None => lo
        end
      else lo
  end.

Definition bisect_right (a : list (list Z)) (x : list Z) : nat :=
  bisect_loop (S (length a)) a x 0 (length a).

Section Archive.
  Variable ind : Type.
  Variable fitness : ind -> list Z.        (* ind.fitness.wvalues *)
  Variable similar : ind -> ind -> bool.   (* self.similar *)

  Record hof := mkhof { keys : list (list Z); items : list ind }.

  Definition empty : hof := mkhof [] [].
  Definition hlen (h : hof) : Z := zlen (items h).      (* __len__ = len(self.items) *)

  (* def insert(self, item):
         item = deepcopy(item)
         i = bisect_right(self.keys, item.fitness)
         self.items.insert(len(self) - i, item)
         self.keys.insert(i, item.fitness)                                  *)
  Definition insert (h : hof) (x : ind) : hof :=
    let i := Z.of_nat (bisect_right (keys h) (fitness x)) in
    let items' := py_insert (items h) (hlen h - i) x in
    let keys' := py_insert (keys h) i (fitness x) in
    mkhof keys' items'.

  (* def remove(self, index):
         del self.keys[len(self) - (index % len(self) + 1)]
         del self.items[index]                                              *)
  Definition remove (h : hof) (index : Z) : option hof :=
    let n := hlen h in
    if n =? 0 then None                                   (* ZeroDivisionError *)
    else match py_del (keys h) (n - (index mod n + 1)) with
         | None => None
         | Some ks => match py_del (items h) index with
                      | None => None
                      | Some its => Some (mkhof ks its)
                      end
         end.

  Definition clear (h : hof) : hof := mkhof [] [].

  (* ---- HallOfFame.update ---- one iteration of  for ind in population  *)
  Definition hof_step (maxsize : Z) (pop0 : option ind) (oh : option hof) (x : ind) : option hof :=
    match oh with
    | None => None
    | Some h =>
        if (hlen h =? 0) && negb (maxsize =? 0) then
          (* self.insert(population[0]); continue *)
          match pop0 with Some p => Some (insert h p) | None => None end
        else
          match py_get (items h) (-1) with
          | None => None                                  (* self[-1] on an empty archive *)
          | Some worst =>
              if fit_gt (fitness x) (fitness worst) || (hlen h <? maxsize) then
                if existsb (similar x) (items h) then Some h        (* for ... break *)
                else                                                  (* for ... else *)
                  match (if hlen h >=? maxsize then remove h (-1) else Some h) with
                  | None => None
                  | Some h1 => Some (insert h1 x)
                  end
              else Some h
          end
    end.

  Definition hof_update (maxsize : Z) (h : hof) (population : list ind) : option hof :=
    fold_left (hof_step maxsize (hd_error population)) population (Some h).

  (* ---- ParetoFront.update ---- the inner  for i, hofer in enumerate(self)  loop.
     Result: (is_dominated, has_twin, to_remove) *)
  Fixpoint pf_scan (x : ind) (hs : list ind) (i : Z) (dominates_one : bool) (to_remove : list Z)
    : bool * bool * list Z :=
    match hs with
    | [] => (false, false, to_remove)
    | hofer :: r =>
        if negb dominates_one && fit_dom (fitness hofer) (fitness x) then (true, false, to_remove)
        else if fit_dom (fitness x) (fitness hofer) then pf_scan x r (i + 1) true (to_remove ++ [i])
        else if fit_eq (fitness x) (fitness hofer) && similar x hofer then (false, true, to_remove)
        else pf_scan x r (i + 1) dominates_one to_remove
    end.

  Definition remove_all (h : hof) (idx : list Z) : option hof :=
    fold_left (fun o i => match o with None => None | Some h' => remove h' i end) idx (Some h).

  Definition pf_step (oh : option hof) (x : ind) : option hof :=
    match oh with
    | None => None
    | Some h =>
        let '(is_dominated, has_twin, to_remove) := pf_scan x (items h) 0 false [] in
        match remove_all h (rev to_remove) with            (* for i in reversed(to_remove) *)
        | None => None
        | Some h1 => if negb is_dominated && negb has_twin then Some (insert h1 x) else Some h1
        end
    end.

  Definition pf_update (h : hof) (population : list ind) : option hof :=
    fold_left pf_step population (Some h).

  (* ---- histories ---- *)
  Inductive op :=
  | OUpdate (population : list ind)
  | OInsert (x : ind)
  | ORemove (index : Z)
  | OClear.

  (* kind = Some maxsize : HallOfFame(maxsize) ; None : ParetoFront() *)
  Definition apply_op (kind : option Z) (h : hof) (o : op) : option hof :=
    match o with
    | OUpdate p => match kind with Some m => hof_update m h p | None => pf_update h p end
    | OInsert x => Some (insert h x)
    | ORemove i => remove h i
    | OClear => Some (clear h)
    end.

  (* the state after each operation; the trace stops at the first exception *)
  Fixpoint trace (kind : option Z) (h : hof) (ops : list op) : list (option hof) :=
    match ops with
    | [] => []
    | o :: r => match apply_op kind h o with
                | None => [None]
                | Some h' => Some h' :: trace kind h' r
                end
    end.

  (* the property is about sequences of update batches *)
  Definition hof_run (maxsize : Z) (batches : list (list ind)) : option hof :=
    fold_left (fun o b => match o with None => None | Some h => hof_update maxsize h b end)
              batches (Some empty).

  Definition pf_run (batches : list (list ind)) : option hof :=
    fold_left (fun o b => match o with None => None | Some h => pf_update h b end)
              batches (Some empty).

  (* the same, continuing from an archive that already holds members (after a direct remove /
     insert, a change of maxsize or of the similarity operator between calls) *)
  Definition hof_run_from (maxsize : Z) (h0 : hof) (batches : list (list ind)) : option hof :=
    fold_left (fun o b => match o with None => None | Some h => hof_update maxsize h b end)
              batches (Some h0).

  Definition pf_run_from (h0 : hof) (batches : list (list ind)) : option hof :=
    fold_left (fun o b => match o with None => None | Some h => pf_update h b end)
              batches (Some h0).
End Archive.

Arguments mkhof {ind}.
Arguments keys {ind}.
Arguments items {ind}.
Arguments empty {ind}.
Arguments hlen {ind}.
Arguments clear {ind}.
Arguments OUpdate {ind}.
Arguments OInsert {ind}.
Arguments ORemove {ind}.
Arguments OClear {ind}.

(* ---- concrete individuals used by the correspondence and the examples ----
   tag  : which submission event produced this object (the archive keeps deep copies; the tag
          lets the harness compare object identity structure);  geno : the list contents;
   wv   : fitness.wvalues at submission time. *)
Record cind := mkind { tag : Z; geno : list Z; wv : list Z }.

Definition zl_eqb (a b : list Z) : bool :=
  (fix go a b := match a, b with
                 | [], [] => true
                 | x :: a', y :: b' => (x =? y) && go a' b'
                 | _, _ => false
                 end) a b.

(* similarity operators the harness passes to the constructor *)
Inductive simkind := SimEq | SimHead | SimNever | SimAlways | SimLe.
Definition csimilar (k : simkind) (a b : cind) : bool :=
  match k with
  | SimEq => zl_eqb (geno a) (geno b)                        (* operator.eq on list subclasses *)
  | SimHead => hd 0 (geno a) =? hd 0 (geno b)                (* lambda a, b: a[0] == b[0] *)
  | SimNever => false
  | SimAlways => true
  | SimLe => hd 0 (geno a) <=? hd 0 (geno b)                 (* not symmetric: lambda a, b: a[0] <= b[0] *)
  end.
