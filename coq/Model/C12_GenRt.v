(* Run-time vocabulary of the definitions REGENERATED from deap/gp.py for property C12
   (coq/Gen/C12_gen.v, written by harness/c12_py2coq.py on every run).  No proofs here.

   The regenerated text lives in the option monad: None = an exception was raised, or a `while`
   loop ran out of the fuel the translator gave it (so an insufficient fuel can only break the
   equality "regenerated = Some (model)", never make it hold).

   Python value                                 here
   -------------------------------------------  -------------------------------------------------
   str                                          string
   int (len, indices, arities)                  nat
   list / deque (left end = head)               list, x.append(e) = l ++ [e]
   tuple of two                                 pair
   dict with str keys                           association list (dget / dset / ddel of the model)
   None-able value                              option
   a Primitive / Terminal / ephemeral object    node (Model/C12_GPPrint.v); its attributes are the
                                                projections below (OBJECT LAYER, trusted like the
                                                node encoding of the correspondence harness)
   Primitive.seq  ("name({0}, {1}, ..)")        tpl (literal text and positional fields) with tpl_format = str.format
   Terminal.conv_fct / Terminal.value           conv / tval
   a primitive set                              pset (arguments, mapping; Terminal.value of the argument
                                                terminal objects = ps_argvalue)
   a primitive set with name and context        fpset (compileADF) *)
From Coq Require Import List ZArith Bool String Ascii.
From DV Require Import Base.C12_Str Model.C12_GPPrint.
Import ListNotations.
Local Open Scope string_scope.

Definition ret {A} (a : A) : option A := Some a.
Definition bind {A B} (m : option A) (f : A -> option B) : option B :=
  match m with Some a => f a | None => None end.
Definition raise_ {A} : option A := None.

(* ---- loops ---- *)
Inductive ctl := Next | Break.

Fixpoint for_ {A S : Type} (l : list A) (body : A -> S -> option (ctl * S)) (s : S) : option S :=
  match l with
  | [] => Some s
  | x :: r => match body x s with
              | None => None
              | Some (Next, s') => for_ r body s'
              | Some (Break, s') => Some s'
              end
  end.

Fixpoint while_ {S : Type} (fuel : nat) (cond : S -> option bool) (body : S -> option (ctl * S)) (s : S)
  : option S :=
  match fuel with
  | O => None
  | Datatypes.S f =>
      match cond s with
      | None => None
      | Some false => Some s
      | Some true => match body s with
                     | None => None
                     | Some (Next, s') => while_ f cond body s'
                     | Some (Break, s') => Some s'
                     end
      end
  end.

(* ---- lists (Python list: right end = last element) ---- *)
Definition last_ {A} (l : list A) : option A := match rev l with x :: _ => Some x | [] => None end.
Definition pop_ {A} (l : list A) : option (A * list A) :=
  match rev l with x :: r => Some (x, rev r) | [] => None end.
(* l[-1] = f(l[-1]) : an in-place change of the last item *)
Definition upd_last_ {A} (l : list A) (f : A -> A) : option (list A) :=
  match rev l with x :: r => Some (rev (f x :: r)) | [] => None end.
Definition popleft_ {A} (l : list A) : option (A * list A) :=
  match l with x :: r => Some (x, r) | [] => None end.
Definition extendleft_ {A} (d l : list A) : list A := rev l ++ d.
Definition reversed_ {A} (l : list A) : list A := rev l.
(* l[i] = x : IndexError outside the list *)
Definition setitem_ {A} (l : list A) (i : nat) (x : A) : option (list A) :=
  if Nat.ltb i (List.length l) then Some (set_nth i x l) else None.
(* i in range(n) *)
Definition range_ (n : nat) : list nat := seq 0 n.

(* ---- dict ---- *)
Definition dmem {A} (k : string) (m : list (string * A)) : bool :=
  match dget k m with Some _ => true | None => false end.
Definition ddel_ {A} (k : string) (m : list (string * A)) : option (list (string * A)) :=
  if dmem k m then Some (ddel k m) else None.

(* ---- object layer: attributes of node objects ---- *)
Definition eq_arity (k : nat) (a : option nat) : bool :=
  match a with Some a => Nat.eqb k a | None => false end.
Definition is_Primitive (n : node) : bool := match n with NPrim _ _ _ => true | _ => false end.
Definition attr_args (n : node) : option (list ty) := match n with NPrim _ a _ => Some a | _ => None end.

(* a format string with positional fields, as str.format sees it: literal text and fields {i}.
   (Text substituted into a template is literal: names containing braces are outside the model.) *)
Inductive piece := PLit (s : string) | PField (i : nat).
Definition tpl := list piece.
(* "{{{0}}}".format(i) : the text of positional field i *)
Definition tpl_field (i : nat) : tpl := [PField i].
Definition tpl_lit (s : string) : tpl := [PLit s].
(* sep.join(list of format-string fragments) *)
Fixpoint tpl_join (sep : string) (l : list tpl) : tpl :=
  match l with
  | [] => []
  | x :: r => match r with [] => x | _ => (x ++ PLit sep :: tpl_join sep r)%list end
  end.
(* t.format( *args ): IndexError when a field has no argument, further arguments ignored *)
Fixpoint tpl_format (t : tpl) (args : list string) : option string :=
  match t with
  | [] => Some ""
  | PLit s :: r => match tpl_format r args with Some b => Some (s ++ b) | None => None end
  | PField i :: r => match nth_error args i, tpl_format r args with
                     | Some a, Some b => Some (a ++ b)
                     | _, _ => None
                     end
  end.
(* hand model of Primitive.seq: "name({0}, ..., {arity-1})" *)
Definition prim_seq (name : string) (arity : nat) : tpl :=
  (tpl_lit name ++ tpl_lit "(" ++ tpl_join ", " (map tpl_field (seq 0 arity)) ++ tpl_lit ")")%list.

Inductive conv := ConvStr | ConvRepr.
Inductive tval := VStr (s : string) | VCst (c : cst).
(* conv_fct(value); repr of a str value is not modelled (argument and named terminals are symbolic) *)
Definition apply_conv (f : conv) (v : tval) : option string :=
  match f, v with
  | ConvStr, VStr s => Some s
  | ConvStr, VCst c => Some (pystr c)
  | ConvRepr, VCst c => Some (repr c)
  | ConvRepr, VStr _ => None
  end.
Definition attr_conv_fct (n : node) : option conv :=
  match n with NArg _ _ | NSym _ _ => Some ConvStr | NConst _ _ => Some ConvRepr | _ => None end.
Definition attr_value (ps : pset) (n : node) : option tval :=
  match n with
  | NArg j _ => Some (VStr (nth j (ps_argvalue ps) ""))
  | NSym name _ => Some (VStr name)
  | NConst c _ => Some (VCst c)
  | _ => None
  end.
(* Terminal(value, symbolic, ret) for a constant value; a symbolic constant is outside the node type *)
Definition new_Terminal (c : cst) (symbolic : bool) (r : ty) : option node :=
  if symbolic then None else Some (NConst c r).
(* obj.value = v for the object found in the mapping: only argument terminals are mutated by gp.py *)
Definition set_attr_value (ps : pset) (n : node) (v : string) : option pset :=
  match n with
  | NArg j _ => Some (mkpset (ps_arguments ps) (set_nth j v (ps_argvalue ps)) (ps_mapping ps))
  | _ => None
  end.
Definition set_arguments (ps : pset) (a : list string) : pset := mkpset a (ps_argvalue ps) (ps_mapping ps).
Definition set_mapping (ps : pset) (m : list (string * node)) : pset := mkpset (ps_arguments ps) (ps_argvalue ps) m.

(* ---- declared primitives ---- *)
(* re.split("[ \t\n\r\f\v(),]", s) *)
Definition re_split_seps (s : string) : list string := split s.
(* eval(token) of from_string *)
Definition eval_token (s : string) : option cst := lit s.

(* ---- compile: the code string handed to eval ---- *)
(* [sep] separates the parameters of the lambda header: "," in gp.py; ", " is the same Python *)
Definition code_with (sep : string) (ps : pset) (t : list node) : string :=
  match ps_arguments ps with
  | [] => str_tree ps t
  | params => "lambda " ++ String.concat sep params ++ ": " ++ str_tree ps t
  end.
Definition code_of := code_with ",".
Definition header_sep (sep : string) : Prop := sep = "," \/ sep = ", ".

(* ---- compileADF ---- *)
Section Adf.
  Variable V : Type.
  Record fpset := mkfp { fp_ps : pset; fp_name : string; fp_ctx : context V }.
  Definition fp_set_ctx (p : fpset) (c : context V) : fpset := mkfp (fp_ps p) (fp_name p) c.
  (* a compiled tree stored in a context: a function is callable, a value is a value *)
  Definition obj_of (cval : cst -> option V) (k : compiled V) : obj V :=
    match k with
    | KLambda p b g => OFun (call_lambda cval p b g)
    | KValue v => OVal v
    end.
  (* lambda value=func: value   (called without argument; V has no function values) *)
  Definition default_thunk (k : compiled V) : obj V :=
    match k with
    | KValue v => OFun (fun vs => match vs with [] => Some v | _ => None end)
    | KLambda _ _ _ => OFun (fun _ => None)
    end.
  (* the primitive-set object of a model definition *)
  Definition fp_of (d : adfdef V) : fpset := mkfp (d_ps d) (d_name d) (d_ctx d).
End Adf.
(* Python's None for "no tree compiled" and an exception are one value of the model *)
Definition flat {A} (r : option (option A)) : option A := match r with Some (Some k) => Some k | _ => None end.
Arguments fp_of {V} d.
Arguments mkfp {V} fp_ps fp_name fp_ctx.
Arguments fp_ps {V} f.
Arguments fp_name {V} f.
Arguments fp_ctx {V} f.
Arguments fp_set_ctx {V} p c.
Arguments obj_of {V} cval k.
Arguments default_thunk {V} k.
