(* C17 — executable model of a checkpointable evolution (no proofs here).

   * state      : everything doc/tutorials/advanced/checkpoint.rst puts in the checkpoint dictionary:
                  population, generation, hall of fame (items AND key list), logbook (records, buffindex,
                  chapters), strategy payload, selector memory payload, and BOTH generator states as draw
                  cursors into explicit streams.
   * step       : one generation of the eaSimple-shaped loop of harness/c17_families.py (family modelga):
                  tools.selTournament -> algorithms.varAnd (tools.cxOnePoint, tools.mutFlipBit) ->
                  toolbox.map(evaluate, invalid) -> HallOfFame.update -> population[:] = offspring ->
                  (or the (mu+lambda) / (mu,lambda) shapes: algorithms.varOr, evaluation, HallOfFame.update,
                  selTournament among parents+offspring / offspring) ->
                  Logbook.record of MultiStatistics.compile -> logbook.stream.
                  Every random.* call site consumes one raw draw r in [0, 2^32) of the stream:
                  random() = r / 2^32, randint(a,b) = a + r mod (b-a+1), choice(s) = s[r mod len s].
   * run        : fold_left step.
   * save/restore : token codec of the state record (Base/C17_Codec.v).
   * pmap       : order-preserving parallel map; tasks complete in the order `sched`, each completion is an
                  event (index, value); the result list is gathered BY INDEX.
   * completion_order : which order w workers with per-task delays complete in (pool with chunksize 1). *)
From Coq Require Import List ZArith Bool Lia.
From DV Require Import Base.PyTuple Base.C17_Codec.
Import ListNotations.
Local Open Scope Z_scope.

(* ------------------------------------------------------------------------------------------ *)
(* generic runs                                                                               *)
(* ------------------------------------------------------------------------------------------ *)
Section Generic.
  Context {state gen : Type}.
  Variable step : gen -> state -> state.

  Definition run (gs : list gen) (s : state) : state := fold_left (fun s g => step g s) gs s.

  (* the states at every generation boundary after the start *)
  Fixpoint trace (gs : list gen) (s : state) : list state :=
    match gs with
    | [] => []
    | g :: r => let s' := step g s in s' :: trace r s'
    end.
End Generic.

(* ------------------------------------------------------------------------------------------ *)
(* parallel map                                                                               *)
(* ------------------------------------------------------------------------------------------ *)
Section Pmap.
  Context {A B : Type}.

  (* completion events in completion order; an index outside the task list completes nothing *)
  Definition complete (f : A -> B) (xs : list A) (sched : list nat) : list (nat * B) :=
    flat_map (fun i => match nth_error xs i with Some x => [(i, f x)] | None => [] end) sched.

  Fixpoint lookup (i : nat) (evs : list (nat * B)) : option B :=
    match evs with
    | [] => None
    | (j, b) :: r => if Nat.eqb i j then Some b else lookup i r
    end.

  (* results gathered by task index (slot i = None: task i never completed) *)
  Definition pmap (sched : list nat) (f : A -> B) (xs : list A) : list (option B) :=
    map (fun i => lookup i (complete f xs sched)) (seq 0 (length xs)).

  (* the WRONG gather, for contrast: results in completion order *)
  Definition pmap_completion_order (sched : list nat) (f : A -> B) (xs : list A) : list (option B) :=
    map (fun e => Some (snd e)) (complete f xs sched).
End Pmap.

(* w workers take tasks in submission order as they become free (ties: lowest worker index); task i
   occupies its worker for delays[i]; tasks are listed in the order in which they finish (ties: by index) *)
Fixpoint argmin_from (best : nat) (bv : Z) (i : nat) (l : list Z) : nat :=
  match l with
  | [] => best
  | x :: r => if x <? bv then argmin_from i x (S i) r else argmin_from best bv (S i) r
  end.
Definition argmin (l : list Z) : nat :=
  match l with [] => O | x :: r => argmin_from O x 1%nat r end.

Fixpoint set_at (l : list Z) (k : nat) (v : Z) : list Z :=
  match l, k with
  | [], _ => []
  | _ :: r, O => v :: r
  | x :: r, S k' => x :: set_at r k' v
  end.

Fixpoint finish_times (free : list Z) (delays : list Z) (i : nat) : list (Z * nat) :=
  match delays with
  | [] => []
  | d :: r => let j := argmin free in
              let t := nth j free 0 + d in
              (t, i) :: finish_times (set_at free j t) r (S i)
  end.

Fixpoint insert_ev (e : Z * nat) (l : list (Z * nat)) : list (Z * nat) :=
  match l with
  | [] => [e]
  | x :: r => if fst e <? fst x then e :: l else x :: insert_ev e r
  end.
Definition sort_ev (l : list (Z * nat)) : list (Z * nat) := fold_right insert_ev [] l.

Definition completion_order (w : nat) (delays : list Z) : list nat :=
  map snd (sort_ev (finish_times (repeat 0 w) delays O)).

(* decidable test used on OBSERVED completion orders: l is a permutation of 0..n-1 *)
Definition is_perm_of_seq (l : list nat) (n : nat) : bool :=
  Nat.eqb (length l) n && forallb (fun i => existsb (Nat.eqb i) l) (seq 0 n).

(* ------------------------------------------------------------------------------------------ *)
(* the state record                                                                           *)
(* ------------------------------------------------------------------------------------------ *)
Record indiv := mkind { genome : list bool; fit : option (list Z) }.   (* fit = wvalues; None = invalid *)

Record hof := mkhof { hof_max : Z; hof_items : list indiv; hof_keys : list (list Z) }.

Record sublog := mksub { sl_recs : list (list Z); sl_buff : Z }.
Record logbook := mklb { lb_recs : list (list Z); lb_buff : Z; lb_chapters : list (Z * sublog) }.

Record state := mkstate {
  st_pop : list indiv;
  st_gen : Z;
  st_hof : hof;
  st_log : logbook;
  st_strat : list Z;        (* strategy object payload (None for the GA: []) *)
  st_selmem : list Z;       (* selector memory payload *)
  st_cur : Z;               (* cursor of `random` *)
  st_npcur : Z              (* cursor of `numpy.random` *)
}.

(* what the resuming script rebuilds (toolbox registrations, weights): NOT part of the checkpoint *)
Record params := mkparams {
  p_tourn : nat;
  p_cxpb : Z * Z;           (* numerator, denominator (a power of two) *)
  p_mutpb : Z * Z;
  p_indpb : Z * Z;
  p_weights : list Z;
  p_evkind : Z;
  p_lambda : nat;           (* varOr loops: number of offspring *)
  p_mu : nat;               (* varOr loops: number of survivors *)
  p_stream : list Z         (* the recorded raw draws of `random` *)
}.

(* ------------------------------------------------------------------------------------------ *)
(* draws                                                                                      *)
(* ------------------------------------------------------------------------------------------ *)
Definition two32 : Z := 4294967296.
Definition draw (P : params) (c : Z) : Z := nth (Z.to_nat c) (p_stream P) 0.
(* random.random() < n/d *)
Definition rnd_lt (P : params) (c : Z) (pb : Z * Z) : bool := draw P c * snd pb <? fst pb * two32.
Definition zlen {A} (l : list A) : Z := Z.of_nat (length l).

Definition dflt_ind : indiv := mkind [] None.
Definition fitw (i : indiv) : list Z := match fit i with Some w => w | None => [] end.
Definition is_valid (i : indiv) : bool := match fit i with Some (_ :: _) => true | _ => false end.

(* ------------------------------------------------------------------------------------------ *)
(* tools.selTournament / selRandom                                                            *)
(* ------------------------------------------------------------------------------------------ *)
(* max(aspirants, key=attrgetter("fitness")): keeps the first maximum, replaces on key > best *)
Fixpoint py_max_fit (best : indiv) (l : list indiv) : indiv :=
  match l with
  | [] => best
  | x :: r => py_max_fit (if tup_cmp OpGt (fitw x) (fitw best) then x else best) r
  end.

Fixpoint draw_choices (P : params) (pop : list indiv) (n : nat) (c : Z) : list indiv * Z :=
  match n with
  | O => ([], c)
  | S n' => let x := nth (Z.to_nat (draw P c mod zlen pop)) pop dflt_ind in
            let (r, c') := draw_choices P pop n' (c + 1) in (x :: r, c')
  end.

Fixpoint sel_tournament (P : params) (pop : list indiv) (k : nat) (c : Z) : list indiv * Z :=
  match k with
  | O => ([], c)
  | S k' => let (asp, c1) := draw_choices P pop (p_tourn P) c in
            let w := match asp with [] => dflt_ind | a :: r => py_max_fit a r end in
            let (rest, c2) := sel_tournament P pop k' c1 in (w :: rest, c2)
  end.

(* ------------------------------------------------------------------------------------------ *)
(* algorithms.varAnd with tools.cxOnePoint and tools.mutFlipBit                               *)
(* ------------------------------------------------------------------------------------------ *)
Fixpoint mate_loop (P : params) (l : list indiv) (c : Z) : list indiv * Z :=
  match l with
  | a :: b :: r =>
      if rnd_lt P c (p_cxpb P) then
        let size := Z.min (zlen (genome a)) (zlen (genome b)) in
        let pt := Z.to_nat (1 + draw P (c + 1) mod (size - 1)) in          (* randint(1, size - 1) *)
        let a' := mkind (firstn pt (genome a) ++ skipn pt (genome b)) None in
        let b' := mkind (firstn pt (genome b) ++ skipn pt (genome a)) None in
        let (r', c') := mate_loop P r (c + 2) in (a' :: b' :: r', c')
      else
        let (r', c') := mate_loop P r (c + 1) in (a :: b :: r', c')
  | _ => (l, c)
  end.

Fixpoint flip_loop (P : params) (g : list bool) (c : Z) : list bool * Z :=
  match g with
  | [] => ([], c)
  | x :: r => let x' := if rnd_lt P c (p_indpb P) then negb x else x in
              let (r', c') := flip_loop P r (c + 1) in (x' :: r', c')
  end.

Fixpoint mut_loop (P : params) (l : list indiv) (c : Z) : list indiv * Z :=
  match l with
  | [] => ([], c)
  | a :: r =>
      if rnd_lt P c (p_mutpb P) then
        let (g', c1) := flip_loop P (genome a) (c + 1) in
        let (r', c2) := mut_loop P r c1 in (mkind g' None :: r', c2)
      else
        let (r', c2) := mut_loop P r (c + 1) in (a :: r', c2)
  end.

(* ------------------------------------------------------------------------------------------ *)
(* algorithms.varOr with tools.cxOnePoint and tools.mutFlipBit                                *)
(* ------------------------------------------------------------------------------------------ *)
(* random.sample(population, 2) of the scripted generator: i = r1 mod n, then j = r2 mod (n-1) over the
   remaining positions (two distinct positions, two draws) *)
Definition sample2 (P : params) (pop : list indiv) (c : Z) : indiv * indiv :=
  let n := zlen pop in
  let i := draw P c mod n in
  let j0 := draw P (c + 1) mod (n - 1) in
  let j := if j0 <? i then j0 else j0 + 1 in
  (nth (Z.to_nat i) pop dflt_ind, nth (Z.to_nat j) pop dflt_ind).

(* op_choice < cxpb + mutpb, both dyadic *)
Definition rnd_lt_sum (P : params) (c : Z) (a b : Z * Z) : bool :=
  draw P c * (snd a * snd b) <? (fst a * snd b + fst b * snd a) * two32.

Fixpoint var_or (P : params) (pop : list indiv) (k : nat) (c : Z) : list indiv * Z :=
  match k with
  | O => ([], c)
  | S k' =>
      if rnd_lt P c (p_cxpb P) then
        (* ind1, ind2 = clones of random.sample(population, 2); mate; only ind1 is kept, invalidated *)
        let (a, b) := sample2 P pop (c + 1) in
        let size := Z.min (zlen (genome a)) (zlen (genome b)) in
        let pt := Z.to_nat (1 + draw P (c + 3) mod (size - 1)) in
        let child := mkind (firstn pt (genome a) ++ skipn pt (genome b)) None in
        let (r, c') := var_or P pop k' (c + 4) in (child :: r, c')
      else if rnd_lt_sum P c (p_cxpb P) (p_mutpb P) then
        (* clone of random.choice(population); mutate; invalidated *)
        let x := nth (Z.to_nat (draw P (c + 1) mod zlen pop)) pop dflt_ind in
        let (g', c1) := flip_loop P (genome x) (c + 2) in
        let (r, c') := var_or P pop k' c1 in (mkind g' None :: r, c')
      else
        (* reproduction: clone of random.choice(population), fitness kept *)
        let x := nth (Z.to_nat (draw P (c + 1) mod zlen pop)) pop dflt_ind in
        let (r, c') := var_or P pop k' (c + 2) in (x :: r, c')
  end.

(* ------------------------------------------------------------------------------------------ *)
(* evaluation through toolbox.map                                                             *)
(* ------------------------------------------------------------------------------------------ *)
Definition count_true (g : list bool) : Z := zlen (filter (fun b => b) g).
Fixpoint leading_false (g : list bool) : Z :=
  match g with false :: r => 1 + leading_false r | _ => 0 end.

Definition raw_eval (P : params) (g : list bool) : list Z :=
  if p_evkind P =? 0 then [count_true g] else [count_true g; leading_false g].

Fixpoint mul_zip (a b : list Z) : list Z :=       (* tuple(map(mul, values, weights)) *)
  match a, b with x :: a', y :: b' => x * y :: mul_zip a' b' | _, _ => [] end.

Definition evalw (P : params) (g : list bool) : list Z := mul_zip (raw_eval P g) (p_weights P).

(* for ind, fit in zip(invalid_ind, fitnesses): ind.fitness.values = fit *)
Fixpoint assign (pop : list indiv) (res : list (option (list Z))) : list indiv :=
  match pop with
  | [] => []
  | i :: r => if is_valid i then i :: assign r res
              else match res with
                   | [] => i :: assign r []
                   | x :: res' => mkind (genome i) x :: assign r res'
                   end
  end.

Definition invalid_of (pop : list indiv) : list indiv := filter (fun i => negb (is_valid i)) pop.

(* ------------------------------------------------------------------------------------------ *)
(* tools.HallOfFame (similar = operator.eq on list individuals)                               *)
(* ------------------------------------------------------------------------------------------ *)
Fixpoint bool_list_eqb (a b : list bool) : bool :=
  match a, b with
  | [], [] => true
  | x :: a', y :: b' => Bool.eqb x y && bool_list_eqb a' b'
  | _, _ => false
  end.

(* bisect.bisect_right(keys, x): the binary search itself (x < a[mid] is Fitness.__lt__) *)
Fixpoint bisect_loop (fuel : nat) (keys : list (list Z)) (x : list Z) (lo hi : Z) : Z :=
  match fuel with
  | O => lo
  | S f => if lo <? hi then
             let mid := (lo + hi) / 2 in
             if tup_cmp OpLt x (nth (Z.to_nat mid) keys []) then bisect_loop f keys x lo mid
             else bisect_loop f keys x (mid + 1) hi
           else lo
  end.
Definition bisect_right (keys : list (list Z)) (x : list Z) : Z :=
  bisect_loop (S (length keys)) keys x 0 (zlen keys).

Definition insert_at {A} (l : list A) (k : Z) (v : A) : list A :=      (* list.insert for 0 <= k *)
  firstn (Z.to_nat k) l ++ v :: skipn (Z.to_nat k) l.

Definition hof_insert (h : hof) (item : indiv) : hof :=
  let i := bisect_right (hof_keys h) (fitw item) in
  mkhof (hof_max h) (insert_at (hof_items h) (zlen (hof_items h) - i) item)
        (insert_at (hof_keys h) i (fitw item)).

(* remove(-1): del keys[len - ((-1) % len + 1)] = del keys[0]; del items[-1] *)
Definition hof_remove_last (h : hof) : hof :=
  mkhof (hof_max h) (removelast (hof_items h)) (tl (hof_keys h)).

Definition hof_step (first : indiv) (h : hof) (ind : indiv) : hof :=
  if (zlen (hof_items h) =? 0) && negb (hof_max h =? 0) then hof_insert h first
  else
    if tup_cmp OpGt (fitw ind) (fitw (last (hof_items h) dflt_ind)) || (zlen (hof_items h) <? hof_max h) then
      if existsb (fun hofer => bool_list_eqb (genome ind) (genome hofer)) (hof_items h) then h
      else hof_insert (if zlen (hof_items h) >=? hof_max h then hof_remove_last h else h) ind
    else h.

Definition hof_update (h : hof) (pop : list indiv) : hof :=
  match pop with
  | [] => h
  | first :: _ => fold_left (hof_step first) pop h
  end.

(* ------------------------------------------------------------------------------------------ *)
(* MultiStatistics(fit=.., ones=..).compile + Logbook.record + logbook.stream                 *)
(* ------------------------------------------------------------------------------------------ *)
Fixpoint zmax_list (d : Z) (l : list Z) : Z := match l with [] => d | x :: r => zmax_list (if x >? d then x else d) r end.
Fixpoint zmin_list (d : Z) (l : list Z) : Z := match l with [] => d | x :: r => zmin_list (if x <? d then x else d) r end.
Definition py_max (l : list Z) : Z := match l with [] => 0 | x :: r => zmax_list x r end.
Definition py_min (l : list Z) : Z := match l with [] => 0 | x :: r => zmin_list x r end.

Definition key_fit (i : indiv) : Z := last (fitw i) 0.           (* ind.fitness.wvalues[-1] *)
Definition key_ones (i : indiv) : Z := count_true (genome i).      (* sum(ind) *)

Definition sub_record (sl : sublog) (r : list Z) : sublog := mksub (sl_recs sl ++ [r]) (sl_buff sl).

Definition chapter_record (chs : list (Z * sublog)) (name : Z) (r : list Z) : list (Z * sublog) :=
  if existsb (fun c => fst c =? name) chs
  then map (fun c => if fst c =? name then (fst c, sub_record (snd c) r) else c) chs
  else chs ++ [(name, sub_record (mksub [] 0) r)].                 (* defaultdict(Logbook) *)

Definition log_record (lg : logbook) (g nevals : Z) (pop : list indiv) : logbook :=
  let kf := map key_fit pop in
  let ko := map key_ones pop in
  let chs := chapter_record (lb_chapters lg) 0 [g; nevals; py_max kf; py_min kf] in
  let chs := chapter_record chs 1 [g; nevals; py_max ko; py_min ko] in
  let recs := lb_recs lg ++ [[g; nevals]] in
  (* .stream: startindex, self.buffindex = self.buffindex, len(self); chapters are printed through
     __txt__, their own buffindex does not move *)
  mklb recs (zlen recs) chs.

(* ------------------------------------------------------------------------------------------ *)
(* one generation                                                                             *)
(* ------------------------------------------------------------------------------------------ *)
Inductive genop :=
| GInit                 (* generation 0: evaluate the initial population, record *)
| GGen (g : Z)          (* eaSimple-shaped generation *)
| GPlus (g : Z)         (* eaMuPlusLambda-shaped generation: varOr, select among parents + offspring *)
| GComma (g : Z).       (* eaMuCommaLambda-shaped generation: varOr, select among offspring *)

(* sch g n : completion order of the n evaluation tasks of generation g *)
Definition schedule := Z -> nat -> list nat.
Definition serial : schedule := fun _ n => seq 0 n.

(* invalid_ind = [...]; fitnesses = toolbox.map(toolbox.evaluate, invalid_ind); zip-assign; returns nevals *)
Definition evaluate (P : params) (sch : schedule) (g : Z) (off : list indiv) : list indiv * Z :=
  let inv := invalid_of off in
  (assign off (pmap (sch g (length inv)) (evalw P) (map genome inv)), zlen inv).

Definition commit (s : state) (g : Z) (pop' : list indiv) (h : hof) (nevals c : Z) : state :=
  mkstate pop' g h (log_record (st_log s) g nevals pop') (st_strat s) (st_selmem s) c (st_npcur s).

Definition step (P : params) (sch : schedule) (op : genop) (s : state) : state :=
  match op with
  | GInit =>
      let (off', n) := evaluate P sch 0 (st_pop s) in
      commit s 0 off' (hof_update (st_hof s) off') n (st_cur s)
  | GGen g =>
      let (sel, c1) := sel_tournament P (st_pop s) (length (st_pop s)) (st_cur s) in
      let (mated, c2) := mate_loop P sel c1 in
      let (mutated, c3) := mut_loop P mated c2 in
      let (off', n) := evaluate P sch g mutated in
      commit s g off' (hof_update (st_hof s) off') n c3
  | GPlus g =>
      let (off, c1) := var_or P (st_pop s) (p_lambda P) (st_cur s) in
      let (off', n) := evaluate P sch g off in
      let (pop', c2) := sel_tournament P (st_pop s ++ off') (p_mu P) c1 in
      commit s g pop' (hof_update (st_hof s) off') n c2
  | GComma g =>
      let (off, c1) := var_or P (st_pop s) (p_lambda P) (st_cur s) in
      let (off', n) := evaluate P sch g off in
      let (pop', c2) := sel_tournament P off' (p_mu P) c1 in
      commit s g pop' (hof_update (st_hof s) off') n c2
  end.

Definition init_state (pop0 : list (list bool)) (hofmax : Z) : state :=
  mkstate (map (fun g => mkind g None) pop0) (-1) (mkhof hofmax [] []) (mklb [] 0 []) [] [] 0 0.

Definition gens_upto (n : nat) : list genop := GInit :: map (fun i => GGen (Z.of_nat i)) (seq 1 n).

(* loop = 0: eaSimple shape, 1: (mu+lambda), 2: (mu,lambda) *)
Definition gens_of (loop : Z) (n : nat) : list genop :=
  GInit :: map (fun i => let g := Z.of_nat i in
                         if loop =? 0 then GGen g else if loop =? 1 then GPlus g else GComma g) (seq 1 n).

(* ------------------------------------------------------------------------------------------ *)
(* save / restore                                                                             *)
(* ------------------------------------------------------------------------------------------ *)
Definition enc_zl := enc_list enc_Z.
Definition dec_zl := dec_list dec_Z.

Definition enc_indiv : indiv -> list Z :=
  enc_iso (fun i => (genome i, fit i)) (enc_pair (enc_list enc_bool) (enc_opt enc_zl)).
Definition dec_indiv : dec indiv :=
  dec_iso (fun p => mkind (fst p) (snd p)) (dec_pair (dec_list dec_bool) (dec_opt dec_zl)).

Definition enc_hof : hof -> list Z :=
  enc_iso (fun h => (hof_max h, (hof_items h, hof_keys h)))
          (enc_pair enc_Z (enc_pair (enc_list enc_indiv) (enc_list enc_zl))).
Definition dec_hof : dec hof :=
  dec_iso (fun p => mkhof (fst p) (fst (snd p)) (snd (snd p)))
          (dec_pair dec_Z (dec_pair (dec_list dec_indiv) (dec_list dec_zl))).

Definition enc_sub : sublog -> list Z :=
  enc_iso (fun l => (sl_recs l, sl_buff l)) (enc_pair (enc_list enc_zl) enc_Z).
Definition dec_sub : dec sublog :=
  dec_iso (fun p => mksub (fst p) (snd p)) (dec_pair (dec_list dec_zl) dec_Z).

Definition enc_log : logbook -> list Z :=
  enc_iso (fun l => (lb_recs l, (lb_buff l, lb_chapters l)))
          (enc_pair (enc_list enc_zl) (enc_pair enc_Z (enc_list (enc_pair enc_Z enc_sub)))).
Definition dec_log : dec logbook :=
  dec_iso (fun p => mklb (fst p) (fst (snd p)) (snd (snd p)))
          (dec_pair (dec_list dec_zl) (dec_pair dec_Z (dec_list (dec_pair dec_Z dec_sub)))).

Definition state_tuple (s : state) :=
  (st_pop s, (st_gen s, (st_hof s, (st_log s, (st_strat s, (st_selmem s, (st_cur s, st_npcur s))))))).
Definition tuple_state (t : list indiv * (Z * (hof * (logbook * (list Z * (list Z * (Z * Z))))))) : state :=
  let '(p, (g, (h, (l, (sg, (sm, (c, n))))))) := t in mkstate p g h l sg sm c n.

Definition enc_state : state -> list Z :=
  enc_iso state_tuple
    (enc_pair (enc_list enc_indiv) (enc_pair enc_Z (enc_pair enc_hof (enc_pair enc_log
      (enc_pair enc_zl (enc_pair enc_zl (enc_pair enc_Z enc_Z))))))).
Definition dec_state : dec state :=
  dec_iso tuple_state
    (dec_pair (dec_list dec_indiv) (dec_pair dec_Z (dec_pair dec_hof (dec_pair dec_log
      (dec_pair dec_zl (dec_pair dec_zl (dec_pair dec_Z dec_Z))))))).

Definition save (s : state) : list Z := enc_state s.
Definition restore (t : list Z) : option state := parse_all dec_state t.

(* kill after the operations g1, resume in a new process from the saved tokens, continue with g2 *)
Definition resume_run (P : params) (sch : schedule) (g1 g2 : list genop) (s : state) : option state :=
  option_map (run (step P sch) g2) (restore (save (run (step P sch) g1 s))).
