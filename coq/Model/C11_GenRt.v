(* Run-time library of the definitions that harness/c11_py2coq.py regenerates from the source text of
   deap/gp.py (tie (T) of property C11).  Executable definitions only; their characterising lemmas
   are in Proofs/C11_GenRt.v.

   The regenerated definitions live in the draw monad M of Model/C11_GPTree.v (Python exceptions are
   the error values of `err`, every random.* call site is a typed draw) and use its records (node,
   pset) and draw sites.  What is added here is the statement-level vocabulary of the translator:
   Python ints are Z everywhere (indices included, with Python's negative-index and slice clamping
   rules of Base/PyList.v), lists keep PYTHON order (append = at the end, pop() = from the end),
   loops carry the variables they assign as an explicit state tuple. *)
From Coq Require Import List ZArith NArith Bool.
From DV Require Import Base.PyList Model.C11_GPTree.
Import ListNotations.
Local Open Scope Z_scope.

Definition raise {A} (e : err) : M A := fail e.

(* ---- loops ---- *)
(* `for x in l: body`; s = the variables assigned in the body that exist before the loop *)
Fixpoint for_each {A S : Type} (l : list A) (body : A -> S -> M S) (s : S) : M S :=
  match l with
  | [] => ret s
  | x :: r => bind (body x s) (fun s' => for_each r body s')
  end.

(* `while cond: body`; running out of fuel is EFuel *)
Fixpoint while_fuel {S : Type} (fuel : nat) (cond : S -> bool) (body : S -> M S) (s : S) : M S :=
  if cond s then
    match fuel with
    | O => fail EFuel
    | Datatypes.S f => bind (body s) (fun s' => while_fuel f cond body s')
    end
  else ret s.

(* a `while` whose every iteration consumes a recorded draw: the number of draws left bounds the
   number of iterations (the translator uses it when the loop body contains a draw site) *)
Definition while_draws {S : Type} (cond : S -> bool) (body : S -> M S) (s : S) : M S :=
  fun ds => while_fuel (Datatypes.S (length ds)) cond body s ds.

(* ---- lists ---- *)
Definition len {A} (l : list A) : Z := Z.of_nat (length l).
(* l[i] *)
Definition getitem {A} (l : list A) (i : Z) : M A :=
  match py_get l i with Some x => ret x | None => fail EIndex end.
(* list.__setitem__(l, i, v) *)
Definition list_setitem {A} (l : list A) (i : Z) (v : A) : M (list A) :=
  match py_set l i v with Some l' => ret l' | None => fail EIndex end.
(* l[a:b] with either bound possibly missing *)
Definition getslice {A} (l : list A) (a b : option Z) : list A := py_slice l a b 1.
(* l[a:b] = v on a plain list *)
Definition setslice {A} (l : list A) (a b : option Z) (v : list A) : list A := py_slice_assign l a b v.
(* slice(start, stop) objects built from two ints *)
Definition slice := (Z * Z)%type.
Definition getslice_obj {A} (l : list A) (s : slice) : list A := getslice l (Some (fst s)) (Some (snd s)).
Definition setslice_obj {A} (l : list A) (s : slice) (v : list A) : list A :=
  setslice l (Some (fst s)) (Some (snd s)) v.
(* x = l.pop() : (x, l without its last element) *)
Definition pop_last {A} (l : list A) : M (A * list A) :=
  match rev l with
  | [] => fail EIndex
  | x :: r => ret (x, rev r)
  end.
(* l.insert(i, x) for 0 <= i (clamped at the end) *)
Definition list_insert {A} (l : list A) (i : Z) (x : A) : list A :=
  let j := if i <? 0 then Z.max 0 (i + len l) else i in
  firstn (Z.to_nat j) l ++ x :: skipn (Z.to_nat j) l.
(* l * n *)
Definition list_mul {A} (l : list A) (n : Z) : list A := concat (repeat l (Z.to_nat n)).
(* range(n), range(a, b) *)
Definition range1 (n : Z) : list Z := py_range3 0 n 1.
Definition range2 (a b : Z) : list Z := py_range3 a b 1.
(* enumerate(l, start) *)
Definition enumerate_from {A} (start : Z) (l : list A) : list (Z * A) :=
  combine (map (fun i => start + Z.of_nat i) (seq 0 (length l))) l.

(* ---- nodes, primitive set ---- *)
(* isinstance(node, Primitive): the model's nodes are primitives exactly when they take arguments *)
Definition is_primitive (n : node) : bool := negb (Nat.eqb (arity n) 0).
(* term() for an ephemeral class / type(node)() for an ephemeral instance: a fresh value *)
Definition eph_call (n : node) : M node := bind (d_eph (nname n)) (fun v => ret (set_val n v)).
(* float values as exact fractions: random.random(), pset.terminalRatio, termpb *)
Definition frac := (Z * positive)%type.
Definition frac_ltb (u p : frac) : bool := lt_frac u (fst p) (snd p).
Definition frac_leb (u p : frac) : bool := negb (lt_frac p (fst u) (snd u)).
Definition terminal_ratio (ps : pset) : frac := (p_rnum ps, p_rden ps).

(* ---- defaultdict(list) keyed by types, values lists of ints; insertion order of the keys ---- *)
Definition dd := list (ty * list Z).
Fixpoint dd_get (d : dd) (k : ty) : list Z :=
  match d with
  | [] => []
  | (k', v) :: r => if N.eqb k' k then v else dd_get r k
  end.
Fixpoint dd_mem (d : dd) (k : ty) : bool :=
  match d with
  | [] => false
  | (k', _) :: r => N.eqb k' k || dd_mem r k
  end.
(* d[k].append(x) *)
Fixpoint dd_append (d : dd) (k : ty) (x : Z) : dd :=
  match d with
  | [] => [(k, [x])]
  | (k', v) :: r => if N.eqb k' k then (k', v ++ [x]) :: r else (k', v) :: dd_append r k x
  end.
(* d[k] = v *)
Fixpoint dd_set (d : dd) (k : ty) (v : list Z) : dd :=
  match d with
  | [] => [(k, v)]
  | (k', v') :: r => if N.eqb k' k then (k', v) :: r else (k', v') :: dd_set r k v
  end.
Definition dd_keys (d : dd) : list ty := map fst d.

(* ---- the mode strings of mutEphemeral ---- *)
Definition mode_eqb (a b : emode) : bool :=
  match a, b with EOne, EOne | EAll, EAll | EOther, EOther => true | _, _ => false end.

(* partial(eq, 0) and partial(lt, 0) of cxOnePointLeafBiased, applied to node.arity *)
Definition eq0 (z : Z) : bool := 0 =? z.
Definition lt0 (z : Z) : bool := 0 <? z.

(* an exception the model has no value for (UnboundLocalError of a name only bound inside a loop that ran
   zero times, AttributeError on a None placeholder): mapped on the model's `impossible' value, so the
   equivalence lemmas prove that it cannot occur *)
Definition EStuck : err := EFuel.
Definition unbound {A} (o : option A) : M A := match o with Some x => ret x | None => fail EStuck end.

(* ---- the hand model in the signatures of the regenerated definitions ----
   (what the equivalence lemmas of Proofs/C11_gen_equiv.v compare the regenerated text with, and the
   placeholder of a function the translator refuses) *)
Definition res_map {A B} (f : A -> B) (r : res A) : res B :=
  match r with Ok a => Ok (f a) | Err e => Err e end.
Definition zslice (p : nat * nat) : slice := (Z.of_nat (fst p), Z.of_nat (snd p)).

Definition m_root (self : list node) : M node :=
  match self with [] => fail EIndex | x :: _ => ret x end.
Definition m_searchSubtree (self : list node) (begin : Z) : M slice :=
  lift (res_map zslice (search_subtree_py self begin)).
Definition m_height (self : list node) : M Z := lift (height self).
(* the model covers slices with non-negative bounds (the ones searchSubtree returns) *)
Definition m_setitem_slice (self : list node) (key : slice) (val : list node) : M (list node) :=
  lift (set_slice self (Z.to_nat (fst key)) (Z.to_nat (snd key)) val).
Definition m_setitem_item (self : list node) (key : Z) (val : node) : M (list node) :=
  lift (set_item_py self key val).

(* generate with the stopping condition as a function (the model has the two conditions as a mode) *)
Fixpoint gen_loop_c (fuel : nat) (ps : pset) (cond : Z -> M bool) (stack : list (Z * ty)) (acc : list node)
  : M (list node) :=
  match stack with
  | [] => ret (rev acc)
  | (depth, t) :: st =>
    match fuel with
    | O => fail EFuel
    | Datatypes.S f =>
      bind (cond depth) (fun c =>
      if c then
        bind (d_choice (terms ps t)) (fun term =>
        bind (instantiate term) (fun term' =>
        gen_loop_c f ps cond st (term' :: acc)))
      else
        bind (d_choice (prims ps t)) (fun prim =>
        gen_loop_c f ps cond (map (fun a => (depth + 1, a)) (nargs prim) ++ st) (prim :: acc)))
    end
  end.
Definition m_generate (ps : pset) (min_ max_ : Z) (condition : Z -> Z -> M bool) (type_ : option ty)
  : M (list node) :=
  fun ds =>
    let t := match type_ with Some x => x | None => p_ret ps end in
    bind (d_randint min_ max_) (fun h => gen_loop_c (Datatypes.S (length ds)) ps (condition h) [(0, t)] []) ds.
Definition m_genFull (ps : pset) (min_ max_ : Z) (t : option ty) := gen_expr ps (mkgexpr KFull min_ max_) t.
Definition m_genGrow (ps : pset) (min_ max_ : Z) (t : option ty) := gen_expr ps (mkgexpr KGrow min_ max_) t.
Definition m_genHalfAndHalf (ps : pset) (min_ max_ : Z) (t : option ty) := gen_expr ps (mkgexpr KHalf min_ max_) t.

Definition m_mutShrink (l : list node) : M (list node) := mut_shrink l.
Definition m_mutInsert (l : list node) (ps : pset) : M (list node) := mut_insert ps l.
Definition m_mutNodeReplacement (l : list node) (ps : pset) : M (list node) := mut_node_replacement ps l.
Definition m_mutEphemeral (l : list node) (m : emode) : M (list node) := mut_ephemeral m l.
(* mutUniform with the replacement generator as a function (the model has it as a gexpr) *)
Definition m_mutUniform (l : list node) (expr : pset -> ty -> M (list node)) (ps : pset) : M (list node) :=
  bind (d_randrange 0 (zlen l)) (fun zi =>
  let index := Z.to_nat zi in
  bind (lift (search_subtree l index)) (fun s =>
  match nth_error l index with
  | None => fail EIndex
  | Some nd => bind (expr ps (nret nd)) (fun new => lift (set_slice l (fst s) (snd s) new))
  end)).
Definition m_cxOnePoint (l1 l2 : list node) : M (list node * list node) := cx_one_point l1 l2.
Definition m_cxOnePointLeafBiased (l1 l2 : list node) (termpb : frac) : M (list node * list node) :=
  cx_leaf_biased (fst termpb) (snd termpb) l1 l2.
(* staticLimit with the measure as a function (the model has the two keys as an lkey) *)
Fixpoint limit_fold_k (key : list node -> M Z) (maxv : Z) (keep outs : list (list node)) : M (list (list node)) :=
  match outs with
  | [] => ret []
  | o :: r =>
    bind (key o) (fun m =>
    bind (if maxv <? m then d_choice keep else ret o) (fun o' =>
    bind (limit_fold_k key maxv keep r) (fun r' => ret (o' :: r'))))
  end.
Definition m_staticLimit (key : list node -> M Z) (max_value : Z) (func : list (list node) -> M (list (list node)))
           (args : list (list node)) : M (list (list node)) :=
  bind (func args) (fun outs => limit_fold_k key max_value args outs).

(* a list built from placeholders ([None] * n) used as a list of values: every position must have been filled
   (Python: AttributeError on None inside PrimitiveTree.__setitem__) *)
Fixpoint unwrap_all {A} (l : list (option A)) : M (list A) :=
  match l with
  | [] => ret []
  | None :: _ => fail EStuck
  | Some x :: r => bind (unwrap_all r) (fun r' => ret (x :: r'))
  end.
