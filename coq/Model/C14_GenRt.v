(* C14 — tie (T): the hand model's view of the SCALAR SLICE of StrategyOnePlusLambda.update, in the shape the
   translator harness/c14_py2coq.py regenerates it (coq/Gen/C14_gen.v): success rate, step size and the two branch
   tests of the covariance code, as a function of the scalar part of the state.  Proofs/C14_gen_equiv.v proves that it
   is the projection of [plain_update].  No proofs in this file. *)
From Coq Require Import List ZArith Bool.
Import ListNotations.
From DV Require Import Model.C14_exec.

Section GenRt.
Context {T : Type} (Op : Ops T).

(* (psucc', sigma', parent replaced?, psucc' < pthresh?) ; None = IndexError on an empty population *)
Definition plain_update_scalar (P : pparams (T:=T)) (pfit : list T) (psucc sigma : T) (pop : list (pind (T:=T)))
  : option (T * T * bool * bool) :=
  let sorted := sort_desc (fun a b => lex_lt Op (snd a) (snd b)) pop in
  match sorted with
  | [] => None
  | best :: _ =>
      let lambda_succ := count_if (fun ind => lex_le Op pfit (snd ind)) sorted in
      let psucc' := psucc_step Op (pp_cp P) psucc (odiv Op (ofnat Op lambda_succ) (ofnat Op (pp_lambda P))) in
      Some (psucc', sigma_step Op (pp_d P) (pp_ptarg P) psucc' sigma,
            lex_le Op pfit (snd best), oltb Op psucc' (pp_pthresh P))
  end.

(* the scalar slice of StrategyActiveOnePlusLambda._rank1update: (psucc', sigma') *)
Definition active_rank1_scalar (P : aparams (T:=T)) (psucc sigma p_succ : T) : T * T :=
  let psucc' := psucc_step Op (ap_cp P) psucc p_succ in
  (psucc', omul Op sigma (oexp Op (omul Op (odiv Op (c1 Op) (ap_d P))
                                        (odiv Op (osub Op psucc' (ap_ptarg P)) (osub Op (c1 Op) (ap_ptarg P)))))).

(* the success frequency StrategyActiveOnePlusLambda.update hands to _rank1update (None: no valid individual, no call) *)
Definition active_p_succ (pfit : option (fitness (T:=T))) (pop : list (aind (T:=T))) : option T :=
  match sort_desc (fun a b => c_lt Op (ai_fit a) (ai_fit b)) (filter (fun i => f_valid (ai_fit i)) pop) with
  | [] => None
  | (_ :: _) as sorted =>
      let lambda_succ := match pfit with
                         | Some pf => count_if (fun i => c_le Op pf (ai_fit i)) sorted
                         | None => length sorted
                         end in
      Some (odiv Op (ofnat Op lambda_succ) (ofnat Op (length sorted)))
  end.

End GenRt.
