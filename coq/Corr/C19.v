(* Correspondence runner for C19: the harness writes the configuration of one decorated call
   (weights, constants, what each recording callback returns) together with what
   deap.tools.constraint returned / raised and the callback log it recorded; check recomputes the
   outcome and the log with the model and compares (numbers with Qeq_bool).

   Individuals are numbered: 0 = the individual passed to the decorated function, 1 = the object the
   `feasible` callback returns.  Callbacks are table functions of these numbers, so that calling a
   callback on the wrong object changes both the log and (through different table entries) the result.
   Extra arguments: (positional values, (keyword, value) pairs in call order). *)
From Coq Require Import List ZArith QArith Bool String.
From DV Require Export Base.Corr Base.C19_PyRt Model.C19_Penalty.
Import ListNotations.

Definition ind := Z.
Definition xargs := (list Z * list (string * Z))%type.
Definition ev := event ind xargs.

Definition q_eqb := Qeq_bool.
Definition val_eqb (a b : val) : bool :=
  match a, b with
  | VNum x, VNum y => q_eqb x y
  | VTup x, VTup y => list_eqb q_eqb x y
  | VRep x, VRep y => q_eqb x y
  | _, _ => false
  end.
Definition exn_eqb (a b : exn) : bool :=
  match a, b with
  | IndexError, IndexError | TypeError, TypeError | NonTermination, NonTermination | Stuck, Stuck => true
  | _, _ => false
  end.
Definition outcome_eqb (a b : outcome val) : bool :=
  match a, b with
  | Ok x, Ok y => val_eqb x y
  | Exc x, Exc y => exn_eqb x y
  | _, _ => false
  end.
Definition xargs_eqb (a b : xargs) : bool :=
  list_eqb Z.eqb (fst a) (fst b) &&
  list_eqb (fun p q => String.eqb (fst p) (fst q) && Z.eqb (snd p) (snd q)) (snd a) (snd b).
Definition ev_eqb (a b : ev) : bool :=
  match a, b with
  | EFeas i, EFeas j => Z.eqb i j
  | EEval i x, EEval j y => Z.eqb i j && xargs_eqb x y
  | EClosest i, EClosest j => Z.eqb i j
  | EDist1 i, EDist1 j => Z.eqb i j
  | EDist2 f i, EDist2 g j => Z.eqb f g && Z.eqb i j
  | _, _ => false
  end.

(* table functions: entry for individual 0, entry for individual 1 (and anything else) *)
Definition by_ind {A} (x0 x1 : A) (i : ind) : A := if Z.eqb i 0 then x0 else x1.

Inductive case :=
(* DeltaPenalty(feas, delta, dist)(func)(ind0, *args):
   w0 = weights of individual 0; feas = truth value of feasibility(ind0);
   dist = None | Some d0 with distance(ind0) = d0; func(ind0, ...) = e0 *)
| CDelta (w0 : list Q) (feas : bool) (delta : val) (dist : option val) (e0 : val) (a : xargs)
         (obs : outcome val) (obs_log : list ev)
(* ClosestValidPenalty(feas, fbl, alpha, dist)(func)(ind0, *args):
   w0, w1 = weights of individuals 0 and 1; fbl(ind0) = ind1, or ind0 itself when same = true
   (the `feasible` callback hands back the very object it was given);
   dist = None | Some (d10, dother): distance(fbl(ind0), ind0) = d10, any other argument pair gives dother;
   func(ind0, ...) = e0, func(ind1, ...) = e1 *)
| CClosest (w0 w1 : list Q) (same feas : bool) (alpha : Q) (dist : option (val * val)) (e0 e1 : val) (a : xargs)
           (obs : outcome val) (obs_log : list ev).

Definition agree (m : outcome val * list ev) (obs : outcome val) (obs_log : list ev) : bool :=
  outcome_eqb (fst m) obs && list_eqb ev_eqb (snd m) obs_log.

(* parameterised by the wrappers so that the regenerated definitions (Gen/C19_gen.v) can be run
   through the same cases *)
Section CheckWith.
  Variable dinit : (ind -> bool) -> val -> option (ind -> val) -> M ind xargs (delta_self ind).
  Variable dwrap : (ind -> list Q) -> delta_self ind -> (ind -> xargs -> val) -> ind -> xargs -> M ind xargs val.
  Variable cinit : (ind -> bool) -> (ind -> ind) -> Q -> option (ind -> ind -> val) -> M ind xargs (closest_self ind).
  Variable cwrap : (ind -> list Q) -> closest_self ind -> (ind -> xargs -> val) -> ind -> xargs -> M ind xargs val.

  Definition check_with (c : case) : bool :=
    match c with
    | CDelta w0 feas delta dist e0 a obs obs_log =>
        let W := by_ind w0 [] in
        let m := bind (dinit (fun _ => feas) delta
                             (match dist with None => None | Some d0 => Some (fun i => by_ind d0 (VTup []) i) end))
                      (fun self => dwrap W self (fun i _ => by_ind e0 (VTup []) i) 0%Z a) in
        agree m obs obs_log
    | CClosest w0 w1 same feas alpha dist e0 e1 a obs obs_log =>
        let W := by_ind w0 w1 in
        let v := if same then 0%Z else 1%Z in
        let m := bind (cinit (fun _ => feas) (fun _ => v) alpha
                             (match dist with
                              | None => None
                              | Some (d10, dother) =>
                                  Some (fun f i => if Z.eqb f v && Z.eqb i 0 then d10 else dother)
                              end))
                      (fun self => cwrap W self (fun i _ => by_ind e0 e1 i) 0%Z a) in
        agree m obs obs_log
    end.
End CheckWith.

Definition check : case -> bool :=
  check_with (@delta_init ind xargs) (@delta_wrapper ind xargs) (@closest_init ind xargs) (@closest_wrapper ind xargs).
