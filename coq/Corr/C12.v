(* Correspondence runner for C12: the harness writes node lists, strings, primitive-set states and what
   deap.gp returned (str(tree), re.split tokens, from_string, compile(...)( *args ), compileADF,
   renameArguments); check recomputes everything with the model over V = Z. *)
From Coq Require Import List ZArith Bool String Ascii.
From DV Require Export Base.Corr Base.C12_Str Model.C12_GPPrint Model.C12_GenRt.
Import ListNotations.
Local Open Scope Z_scope.

(* the interpretable primitive functions the harness registers in pset.context *)
Inductive op :=
| OpAdd | OpSub | OpMul | OpNeg | OpMax | OpMin
| OpPdiv                (* b == 0 ? 1 : a // b *)
| OpFloorDiv            (* a // b, ZeroDivisionError when b == 0 *)
| OpIte                 (* a if c else b *)
| OpLt | OpEq | OpAnd | OpOr | OpNot
| OpSum3                (* a + b + c *)
| OpK (z : Z)           (* a function without argument returning z *)
| OpVal (z : Z).        (* a named terminal (a value, not a function) *)

Definition b2z (b : bool) : Z := if b then 1 else 0.

Definition op_obj (o : op) : obj Z :=
  match o with
  | OpAdd => OFun (fun vs => match vs with [a; b] => Some (a + b) | _ => None end)
  | OpSub => OFun (fun vs => match vs with [a; b] => Some (a - b) | _ => None end)
  | OpMul => OFun (fun vs => match vs with [a; b] => Some (a * b) | _ => None end)
  | OpNeg => OFun (fun vs => match vs with [a] => Some (- a) | _ => None end)
  | OpMax => OFun (fun vs => match vs with [a; b] => Some (Z.max a b) | _ => None end)
  | OpMin => OFun (fun vs => match vs with [a; b] => Some (Z.min a b) | _ => None end)
  | OpPdiv => OFun (fun vs => match vs with [a; b] => Some (if b =? 0 then 1 else a / b) | _ => None end)
  | OpFloorDiv => OFun (fun vs => match vs with [a; b] => if b =? 0 then None else Some (a / b) | _ => None end)
  | OpIte => OFun (fun vs => match vs with [c; a; b] => Some (if c =? 0 then b else a) | _ => None end)
  | OpLt => OFun (fun vs => match vs with [a; b] => Some (b2z (a <? b)) | _ => None end)
  | OpEq => OFun (fun vs => match vs with [a; b] => Some (b2z (a =? b)) | _ => None end)
  | OpAnd => OFun (fun vs => match vs with [a; b] => Some (Z.land a b) | _ => None end)
  | OpOr => OFun (fun vs => match vs with [a; b] => Some (Z.lor a b) | _ => None end)
  | OpNot => OFun (fun vs => match vs with [a] => Some (b2z (a =? 0)) | _ => None end)
  | OpSum3 => OFun (fun vs => match vs with [a; b; c] => Some (a + b + c) | _ => None end)
  | OpK z => OFun (fun vs => match vs with [] => Some z | _ => None end)
  | OpVal z => OVal z
  end.

Definition ctx_of (l : list (string * op)) : context Z := map (fun p => (fst p, op_obj (snd p))) l.

(* Python ints and bools (True == 1) live in Z; floats and strings are not interpreted here *)
Definition cvalZ (c : cst) : option Z :=
  match c with CInt z => Some z | CBool b => Some (b2z b) | CLit _ _ => None end.

Definition sub_of (subs : list (nat * nat)) (a b : ty) : bool :=
  existsb (fun p => Nat.eqb (fst p) a && Nat.eqb (snd p) b) subs.

Definition str_eqb := String.eqb.
Definition strl_eqb := list_eqb String.eqb.
Definition nodel_eqb := list_eqb node_eqb.
Definition oz_eqb := option_eqb Z.eqb.

Definition dict_incl (a b : list (string * node)) : bool :=
  forallb (fun kv => match dget (fst kv) b with Some v => node_eqb v (snd kv) | None => false end) a.
Definition dict_eqb (a b : list (string * node)) : bool :=
  Nat.eqb (List.length a) (List.length b) && dict_incl a b && dict_incl b a.

Definition pset_eqb (a b : pset) : bool :=
  strl_eqb (ps_arguments a) (ps_arguments b) && strl_eqb (ps_argvalue a) (ps_argvalue b)
  && dict_eqb (ps_mapping a) (ps_mapping b).

Definition set_incl (a b : list string) : bool := forallb (fun x => existsb (String.eqb x) b) a.
Definition set_eqb (a b : list string) : bool := set_incl a b && set_incl b a.

Record adfspec := mkadf { a_ps : pset; a_name : string; a_ctx : list (string * op); a_tree : list node }.
Definition def_of (a : adfspec) : adfdef Z := mkdef (a_ps a) (a_name a) (ctx_of (a_ctx a)) (a_tree a).

Inductive case :=
| CStr (ps : pset) (t : list node) (obs : string) (obs_tokens : list string)
| CSplit (s : string) (obs : list string)
| CRead (subs : list (nat * nat)) (ps : pset) (s : string) (obs : option (list node))
| CEval (ps : pset) (ctx : list (string * op)) (t : list node) (runs : list (list Z * option Z))
| CAdf (defs : list adfspec) (runs : list (list Z * option Z))
| CRename (ps : pset) (kargs : list (string * string)) (obs : option pset)
| CBuild (prefix : string) (tys : list nat) (ops : list bop) (obs : option (pset * list string))
| CCode (ps : pset) (t : list node) (obs : string).   (* the code string gp.compile hands to eval *)

Definition check (c : case) : bool :=
  match c with
  | CStr ps t obs toks =>
      str_eqb (str_tree ps t) obs
      && match parse t with Some tr => str_eqb (pp ps tr) obs && nodel_eqb (flatten tr) t | None => true end
      && strl_eqb (tokenize obs) toks
      && strl_eqb (atoms (lex obs)) toks
  | CSplit s obs => strl_eqb (split s) obs
  | CRead subs ps s obs =>
      option_eqb nodel_eqb (read (sub_of subs) (ps_mapping ps) s) obs
  | CEval ps ctx t runs =>
      let k := compile cvalZ ps (ctx_of ctx) t in
      forallb (fun r =>
        oz_eqb (run_compiled cvalZ k (fst r)) (snd r)
        && oz_eqb (if Nat.eqb (List.length (ps_arguments ps)) (List.length (fst r))
                   then eval_prefix cvalZ (ctx_of ctx) (fst r) t else None) (snd r)) runs
  | CAdf defs runs =>
      let ds := map def_of defs in
      let k := compile_adf cvalZ ds in
      forallb (fun r =>
        oz_eqb (run_compiled cvalZ k (fst r)) (snd r) && oz_eqb (adf_sem cvalZ ds (fst r)) (snd r)) runs
  | CRename ps kargs obs => option_eqb pset_eqb (rename kargs ps) obs
  | CBuild prefix tys ops obs =>
      option_eqb (fun a b => pset_eqb (fst a) (fst b) && set_eqb (snd a) (snd b))
                 (pset_build ops (pset_init prefix tys, [])) obs
  | CCode ps t obs => str_eqb (code_with "," ps t) obs || str_eqb (code_with ", " ps t) obs
  end.
