(* Correspondence runner of the REGENERATED definitions (coq/Gen/C10_gen.v): the same cases as Corr/C10.v,
   evaluated through what harness/c10_py2coq.py produced from the source on this run, so that the translator
   itself is validated against the implementation.  The returned lists are put back into the individual /
   strategy objects that were passed in (the translator only accepts functions that return exactly their list
   parameters, modified by item assignment only). *)
From Coq Require Import List Bool PrimFloat.
From DV Require Export Corr.C10.
From DV Require Import Model.C10_PyRt Gen.C10_gen.
Import ListNotations.
Local Open Scope m_scope.

Definition gop_blend alpha (i1 i2 : find) : M float (find * find) :=
  '(g1, g2) <- cxBlend FOps (genes i1) (genes i2) alpha ;; ret (with_genes i1 g1, with_genes i2 g2).
Definition gop_sbx eta (i1 i2 : find) : M float (find * find) :=
  '(g1, g2) <- cxSimulatedBinary FOps (genes i1) (genes i2) eta ;; ret (with_genes i1 g1, with_genes i2 g2).
Definition gop_sbx_bounded eta low up (i1 i2 : find) : M float (find * find) :=
  '(g1, g2) <- cxSimulatedBinaryBounded FOps (genes i1) (genes i2) eta low up ;;
  ret (with_genes i1 g1, with_genes i2 g2).
Definition gop_es_blend alpha (i1 i2 : find) : M float (find * find) :=
  '(g1, s1, g2, s2) <- cxESBlend FOps (genes i1) (strat i1) (genes i2) (strat i2) alpha ;;
  ret (with_both i1 g1 s1, with_both i2 g2 s2).
Definition gop_gaussian mu sigma indpb (i : find) : M float find :=
  g <- mutGaussian FOps (genes i) mu sigma indpb ;; ret (with_genes i g).
Definition gop_poly eta low up indpb (i : find) : M float find :=
  g <- mutPolynomialBounded FOps (genes i) eta low up indpb ;; ret (with_genes i g).
Definition gop_es_lognormal c indpb (i : find) : M float find :=
  '(g, s) <- mutESLogNormal FOps (genes i) (strat i) c indpb ;; ret (with_both i g s).

Definition check_gen (c : case) : bool :=
  match c with
  | CBlend alpha i1 i2 evs o => agree (finish (gop_blend alpha i1 i2 evs) out2) o
  | CSbx eta i1 i2 evs o => agree (finish (gop_sbx eta i1 i2 evs) out2) o
  | CSbxB eta low up i1 i2 evs o => agree (finish (gop_sbx_bounded eta low up i1 i2 evs) out2) o
  | CESBlend alpha i1 i2 evs o => agree (finish (gop_es_blend alpha i1 i2 evs) out2) o
  | CGauss mu sigma indpb i evs o => agree (finish (gop_gaussian mu sigma indpb i evs) out1) o
  | CPoly eta low up indpb i evs o => agree (finish (gop_poly eta low up indpb i evs) out1) o
  | CESLog c indpb i evs o => agree (finish (gop_es_lognormal c indpb i evs) out1) o
  | CBlendA alpha i evs o => agree (finish (gop_blend alpha i i evs) out_snd) o
  | CSbxA eta i evs o => agree (finish (gop_sbx eta i i evs) out_snd) o
  | CSbxBA eta low up i evs o => agree (finish (gop_sbx_bounded eta low up i i evs) out_snd) o
  | CESBlendA alpha i evs o => agree (finish (gop_es_blend alpha i i evs) out_snd) o
  end.
