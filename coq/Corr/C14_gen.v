(* Correspondence entry points for the tie (T) of C14: the parameter and (1+lambda)-update cases of Corr.C14.check,
   replayed on the definitions regenerated from the source text (coq/Gen/C14_gen.v) at the float instance, so the
   translator itself is validated against the implementation on every run.  Definitions only (this file builds
   even when the equivalence proofs do not). *)
From Coq Require Import List ZArith Bool PrimFloat.
From DV Require Export Corr.C14.
From DV Require Import Model.C14_GenRt Gen.C14_gen.
Import ListNotations.
Local Open Scope float_scope.

Definition check_gen (c : case) : bool :=
  match c with
  | CPlainParams dim lambda obs => pparams_close (gen_plain_computeParams FOps dim lambda) obs
  | CActParams dim lambda ccovn S_int obs =>
      let '(P, psucc0) := gen_active_computeParams FOps dim lambda ccovn S_int in
      aparams_close P obs && sclose 0x1p-46 psucc0 (ap_ptarg obs)
  | CMoParams dim mu lambda obs =>
      let '(P, psucc0) := gen_mo_computeParams FOps dim mu lambda in
      mparams_close P obs && sclose 0x1p-46 psucc0 (mp_ptarg obs)
  | CPlainUpd P st pop rtol obs obs_pop =>
      (* the regenerated scalar slice against the observed post-state: success rate, step size, and the two branch
         tests against what the observed parent / evolution path say about the branch taken *)
      match gen_plain_update_scalar FOps P (ps_pfit st) (ps_psucc st) (ps_sigma st) pop, obs_pop with
      | Some (ps', sg', rep, low), best :: _ =>
          sclose 0x1p-40 ps' (ps_psucc obs) && sclose rtol sg' (ps_sigma obs) &&
          (if rep then
             veq (ps_parent obs) (fst best) && veq (ps_pfit obs) (snd best) &&
             (let cc := pp_cc P in
              let shrunk := vscale FOps (1 - cc) (ps_pc st) in
              if low then
                vclose rtol (vadd FOps shrunk
                               (vscale FOps (sqrt (cc * (2 - cc)))
                                  (vdivs FOps (vsub FOps (fst best) (ps_parent st)) (ps_sigma st)))) (ps_pc obs)
              else vclose rtol shrunk (ps_pc obs))
           else veq (ps_parent obs) (ps_parent st) && veq (ps_pfit obs) (ps_pfit st) &&
                vclose 0 (ps_pc st) (ps_pc obs))
      | _, _ => false
      end
  | CActUpd dim P st pop invs rtol obs =>
      (* regenerated success frequency and regenerated (psucc, sigma) step of _rank1update against the observed state
         (the constraint updates that follow do not touch them) *)
      match gen_active_p_succ FOps (as_pfit st) pop with
      | None => sclose 0 (as_psucc st) (as_psucc obs) && sclose 0 (as_sigma st) (as_sigma obs)
      | Some p =>
          let '(ps', sg') := gen_active_rank1_scalar FOps P (as_psucc st) (as_sigma st) p in
          sclose 0x1p-40 ps' (as_psucc obs) && sclose rtol sg' (as_sigma obs)
      end
  | _ => true
  end.

Definition check_both (c : case) : bool := check c && check_gen c.
