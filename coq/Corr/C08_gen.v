(* Correspondence entry points for the tie (T) of C08: the same cases as Corr.C08.check, replayed on the
   definitions regenerated from the source text (value-level cases on the regenerated methods at the world VW,
   heap-level cases on the same text at the world HW).  So the translator itself is validated against the
   implementation on every run.  Definitions only (this file builds even when the equivalence proofs do not). *)
From Coq Require Import List ZArith Bool.
From DV Require Export Corr.C08.
From DV Require Import Model.C08_GenRt Gen.C08_gen Model.C08_GenApi.
Import ListNotations.

Definition check_gen : case -> bool :=
  check_with (fun sim => gen_trace cind wv (csimilar sim)) (fun sim => gen_h_trace (osimilar sim)).
Definition check_both (c : case) : bool := check c && check_gen c.
