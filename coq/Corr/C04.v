(* Correspondence runner for C04: the harness writes the populations (weighted values; uid =
   position in the input list), the arguments and what tools.sortNondominated /
   tools.sortLogNondominated (and each helper of the latter, called directly) returned;
   check recomputes everything with the model and compares exactly (order inside fronts included). *)
From Coq Require Import List ZArith Bool.
From DV Require Export Base.Corr Base.PyTuple Base.PyList Model.C04_NDSort Model.C04_LogSort.
Import ListNotations.
Local Open Scope Z_scope.

Inductive obs_log :=
| OLFronts (l : list (list nat))   (* list of fronts, as uids *)
| OLFlat (l : list nat)            (* flat list (first_front_only) *)
| OLSkip.                          (* log variant not run (fewer than 2 objectives) *)

Record call := mkcall { c_k : Z; c_ffo : bool; c_nd : list (list nat); c_log : obs_log }.

Definition fm := list (wvals * Z).   (* a front dict in insertion order *)

Inductive case :=
| CSort (pop : list wvals) (calls : list call)
        (after : list nat) (wafter : list wvals)   (* the caller's list / fitnesses after all the calls *)
| CIsDom (a b : wvals) (obs : bool)
| CMedian (keys : list Z) (obs2 : Z)                      (* observed 2*median *)
| CSplitA (fs : list wvals) (obj : Z) (ob ow : list wvals)
| CSplitB (best worst : list wvals) (obj : Z) (o1 o2 o3 o4 : list wvals)
| CSweepA (fs : list wvals) (fin fout : fm)
| CSweepB (best worst : list wvals) (fin fout : fm)
| CHelperA (fs : list wvals) (obj : Z) (fin fout : fm)
| CHelperB (best worst : list wvals) (obj : Z) (fin fout : fm).

Definition mkpop (ws : list wvals) : list ind := combine (seq 0 (length ws)) ws.

Definition zl_eqb := list_eqb Z.eqb.
Definition nl_eqb := list_eqb Nat.eqb.
Definition nll_eqb := list_eqb nl_eqb.
Definition wl_eqb := list_eqb zl_eqb.
Definition fm_eqb : fm -> fm -> bool := list_eqb (pair_eqb zl_eqb Z.eqb).
Definition uids (fs : list (list ind)) : list (list nat) := map (map uid) fs.

Definition check_call (pop : list ind) (c : call) : bool :=
  (match sort_nd pop (c_k c) (c_ffo c) with
   | Some fs => nll_eqb (uids fs) (c_nd c)
   | None => false
   end) &&
  (match c_log c with
   | OLSkip => true
   | OLFronts l => match sort_log pop (c_k c) (c_ffo c) with
                   | Some (LFronts fs) => nll_eqb (uids fs) l
                   | _ => false
                   end
   | OLFlat l => match sort_log pop (c_k c) (c_ffo c) with
                 | Some (LFlat f) => nl_eqb (map uid f) l
                 | _ => false
                 end
   end).

Definition fuel_for (a b : list wvals) (obj : Z) : nat := log_fuel (length a + length b) obj.

Definition check (c : case) : bool :=
  match c with
  | CSort ws calls after wafter =>
      forallb (check_call (mkpop ws)) calls && nl_eqb after (seq 0 (length ws)) && wl_eqb wafter ws
  | CIsDom a b obs => Bool.eqb (is_dominated a b) obs
  | CMedian keys obs2 => median2 keys =? obs2
  | CSplitA fs obj ob ow => let '(b, w) := splitA fs obj in wl_eqb b ob && wl_eqb w ow
  | CSplitB best worst obj o1 o2 o3 o4 =>
      let '(b1, b2, w1, w2) := splitB best worst obj in
      wl_eqb b1 o1 && wl_eqb b2 o2 && wl_eqb w1 o3 && wl_eqb w2 o4
  | CSweepA fs fin fout => fm_eqb (sweepA fs fin) fout
  | CSweepB best worst fin fout => fm_eqb (sweepB best worst fin) fout
  | CHelperA fs obj fin fout =>
      match helperA (fuel_for fs [] obj) fs obj fin with Some f => fm_eqb f fout | None => false end
  | CHelperB best worst obj fin fout =>
      match helperB (fuel_for best worst obj) best worst obj fin with Some f => fm_eqb f fout | None => false end
  end.
