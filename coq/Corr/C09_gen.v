(* Correspondence runner for the definitions regenerated from the source text (coq/Gen/C09_gen.v, written by
   harness/c09_py2coq.py on every run): the same cases as Corr/C09.v, evaluated with gen_* instead of the
   hand-written model.  Does not depend on the equivalence proofs, so it still runs (as a diagnosis) when
   Proofs/C09_gen_equiv.v no longer compiles. *)
From Coq Require Import List ZArith QArith Bool.
From DV Require Export Corr.C09.
From DV Require Import Gen.C09_gen.
Import ListNotations.
Local Open Scope Z_scope.

Definition gen_ops : ops :=
  mkops (@gen_cxOnePoint Z) (@gen_cxTwoPoint Z) (@gen_cxUniform Z) (@gen_cxMessyOnePoint Z) (@gen_cxESTwoPoint Z Z)
        gen_cxPartialyMatched gen_cxUniformPartialyMatched gen_cxOrdered
        (@gen_mutShuffleIndexes Z) gen_mutFlipBit gen_mutUniformInt (@gen_mutInversion Z).

Definition check_gen : case -> bool := check_with gen_ops.
(* one pass over the cases for both *)
Definition check_both (c : case) : bool := check c && check_gen c.
