(* Correspondence runner for C13 (deap/cma.py Strategy).  The harness writes, for every case, the
   inputs / attributes read from the live strategy BEFORE the call, the recorded oracle values
   (numpy.linalg.eigh result, numpy.random.standard_normal draw) and the attributes AFTER the call;
   [check] recomputes the call with the float instance of Model/C13_CMAexec and compares within
   the N3 tolerance (rtol 1e-9 relative to the largest magnitude of the compared array, atol 1e-12).
   The eigh contract (V diag(w) V^T = C, V^T V = I) is checked on the MODEL's C for every value
   numpy returned. *)
From Coq Require Import List Bool PrimFloat.
From DV Require Export Base.Corr Base.C13_FloatFun Model.C13_CMAexec.
Import ListNotations.

Definition F := FloatNum.
Definition fvec := list float.
Definition fmat := list (list float).
Definition fparams := @params float.
Definition fstate := @state float.
Definition fkargs := @kargs float.
Definition FP := @mkParams float.
Definition FS := @mkState float.
Definition FK := @mkKargs float.

Definition params_close (a b : fparams) : bool :=
  Nat.eqb (p_dim a) (p_dim b) && Nat.eqb (p_lambda a) (p_lambda b) && Nat.eqb (p_mu a) (p_mu b) &&
  vclose (p_weights a) (p_weights b) && close (p_mueff a) (p_mueff b) &&
  close (p_cc a) (p_cc b) && close (p_cs a) (p_cs b) && close (p_ccov1 a) (p_ccov1 b) &&
  close (p_ccovmu a) (p_ccovmu b) && close (p_damps a) (p_damps b) && close (p_chiN a) (p_chiN b).

Definition state_close (a b : fstate) : bool :=
  vclose (s_centroid a) (s_centroid b) && close (s_sigma a) (s_sigma b) &&
  vclose (s_pc a) (s_pc b) && vclose (s_ps a) (s_ps b) && mclose (s_C a) (s_C b) &&
  mclose (s_B a) (s_B b) && vclose (s_diagD a) (s_diagD b) && mclose (s_BD a) (s_BD b) &&
  Nat.eqb (s_count a) (s_count b).

(* eigh contract for the recorded (w, V) against a matrix C: V diag(w) V^T ~ C, V^T V ~ I *)
Definition eigh_contract (n : nat) (C : fmat) (e : fvec * fmat) : bool :=
  let '(w, V) := e in
  let Vt := transpose F n V in
  Nat.eqb (length w) n && Nat.eqb (length V) n &&
  mclose_s (mmaxabs C) (matmul F n (colscale F V w) Vt) C &&
  mclose_s 1 (matmul F n Vt V) (identity F n).

(* the stored decomposition reproduces C: B diag(diagD^2) B^T ~ C *)
Definition stored_decomp_ok (n : nat) (st : fstate) : bool :=
  mclose_s (mmaxabs (s_C st))
           (matmul F n (colscale F (s_B st) (map (fun d => (d * d)%float) (s_diagD st)))
                       (transpose F n (s_B st)))
           (s_C st).

Inductive case :=
(* computeParams on a strategy with the given dim / lambda_ / chiN attributes *)
| CParams (dim lambda_ : nat) (chiN : float) (k : fkargs) (obs : fparams)
(* Strategy(centroid, sigma, **k): recorded eigh(C0); observed params and state *)
| CInit (centroid : fvec) (sigma : float) (k : fkargs) (e : fvec * fmat) (obsP : fparams) (obsS : fstate)
(* update from the strategy's own pre-update attributes; e = numpy.linalg.eigh(new C) *)
| CUpdate (P : fparams) (st : fstate) (pop : list (list float * list float)) (e : fvec * fmat) (obs : fstate)
(* generate with the recorded standard_normal draw; observed genotypes *)
| CGen (P : fparams) (st : fstate) (arz : fmat) (obs : list (list float)).

Definition check_update (P : fparams) (st : fstate) (pop : list (list float * list float))
                        (e : fvec * fmat) (obs : fstate) : bool :=
  let eigh := fun _ : fmat => e in
  let spop := map snd (sort_pop F pop) in
  let c_diff := vsub F (new_centroid F P spop) (s_centroid st) in
  let ps := new_ps F P st c_diff in
  let lhs := hsig_lhs F P st ps in
  let rhs := hsig_rhs F P in
  let ok (r : fstate) :=
    state_close r obs && eigh_contract (p_dim P) (s_C r) e && stored_decomp_ok (p_dim P) r in
  if close lhs rhs
  then (* the h_sigma test is within rounding of its threshold: either branch is accepted *)
    ok (update_core F eigh P st spop 1%float) || ok (update_core F eigh P st spop 0%float)
  else ok (update F eigh P st pop).

Definition check (c : case) : bool :=
  match c with
  | CParams dim lambda_ chiN k obs => params_close (compute_params F dim lambda_ chiN k) obs
  | CInit centroid sigma k e obsP obsS =>
      let '(P, st) := init F (fun _ => e) default_lambda centroid sigma k in
      params_close P obsP && state_close st obsS &&
      eigh_contract (p_dim P) (s_C st) e && stored_decomp_ok (p_dim P) st
  | CUpdate P st pop e obs => check_update P st pop e obs
  | CGen P st arz obs =>
      let g := generate F P st (fun v => v) arz in
      Nat.eqb (length g) (p_lambda P) && forallb (fun v => Nat.eqb (length v) (p_dim P)) g &&
      mclose g obs
  end.
