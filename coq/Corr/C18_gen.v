(* Correspondence entry points for the tie (T) of C18: the same cases as Corr.C18.check, replayed on the
   definitions regenerated from the source text, so the translator itself is validated against the
   implementation on every run.  Definitions only (this file builds even when the equivalence proofs do not,
   as long as Proofs/C18_gen_equiv.v's definition of gen_step does: it is restated here for that reason). *)
From Coq Require Import List ZArith Bool.
From DV Require Export Corr.C18.
From DV Require Import Model.C18_GenRt Gen.C18_gen.
Import ListNotations.
Local Open Scope Z_scope.

Definition gstep (s : state) (o : op) : state * out :=
  let l := st_lb s in
  let n := st_next s in
  match o with
  | ORecord infos =>
      match gen_record (S (ddepth infos)) n infos l with
      | (l', Ok _) => (mkstate l' (S n), ONone)
      | (_, Err e) => (s, OErr e)
      end
  | OSelect p names =>
      (s, match find_path p l with
          | Some c => match gen_select names c with (_, Ok r) => OSel r | (_, Err e) => OErr e end
          | None => OErr KeyError
          end)
  | OStream => let (l', r) := gen_stream l in (mkstate l' n, text_out r)
  | OPop i =>
      let (l', r) := gen_pop (match i with Some i => i | None => 0 end) l in
      (mkstate l' n, match r with Ok (u, e) => OItem u e | Err e => OErr e end)
  | ODelItem i => let (l', r) := gen_delitem (KInt i) l in (mkstate l' n, unit_out r)
  | ODelSlice a b c => let (l', r) := gen_delitem (KSlice a b c) l in (mkstate l' n, unit_out r)
  | _ => step s o
  end.

Fixpoint gcheck_hist (s : state) (ops : list op) (obs : list (out * ot)) : option state :=
  match ops, obs with
  | [], [] => Some s
  | o :: r, (x, t) :: r' =>
      let (s', x') := gstep s o in
      if out_eqb x' x && ot_eqb (observe (st_lb s')) t then gcheck_hist s' r r' else None
  | _, _ => None
  end.

Fixpoint gcheck_items (alpha : list op) (stack : list state) (items : list (nat * nat * out * ot)) : bool :=
  match items with
  | [] => true
  | (d, k, x, t) :: r =>
      let stack' := skipn (length stack - S d) stack in
      match stack', nth_error alpha k with
      | s :: _, Some o =>
          let (s', x') := gstep s (inst (st_next s) o) in
          out_eqb x' x && ot_eqb (observe (st_lb s')) t && gcheck_items alpha (s' :: stack') r
      | _, _ => false
      end
  end.

Definition ok_of {S X} (d : X) (r : S * res X) : X := match r with (_, Ok x) => x | (_, Err _) => d end.
Definition st_of {S X} (s0 : S) (r : S * res X) : S := match r with (s, Ok _) => s | (_, Err _) => s0 end.

Fixpoint grun_stats (s : sstats) (ops : list sop) : sstats * list (list (name * sres)) :=
  match ops with
  | [] => (s, [])
  | SRegister nm f a kw :: r => grun_stats (st_of s (gen_st_register nm (apply_fn f) (a, kw) s)) r
  | SCompile data :: r => let (s', o) := grun_stats s r in (s', ok_of [(0, RBad)] (gen_st_compile data s) :: o)
  end.
Fixpoint grun_multi (m : mstats (list Z) Z sres) (ops : list sop)
  : mstats (list Z) Z sres * list (list (name * list (name * sres))) :=
  match ops with
  | [] => (m, [])
  | SRegister nm f a kw :: r => grun_multi (st_of [] (gen_ms_register nm (apply_fn f) (a, kw) m)) r
  | SCompile data :: r => let (m', o) := grun_multi m r in (m', ok_of [(0, [(0, RBad)])] (gen_ms_compile data m) :: o)
  end.

Fixpoint grun_gens (m : mstats (list Z) Z sres) (idname : name) (g : nat)
         (pops : list (list (name * Z) * list (list Z))) (s : state) : state * list op :=
  match pops with
  | [] => (s, [])
  | (extra, data) :: r =>
      let o := ORecord (mrec_infos ((idname, Z.of_nat g) :: extra) (ok_of [] (gen_ms_compile data m))) in
      let (s', ops) := grun_gens m idname (S g) r (fst (gstep s o)) in
      (s', o :: ops)
  end.

Definition check_gen (c : case) : bool :=
  match c with
  | CHist uni ops obs fin =>
      match gcheck_hist init_state ops obs with
      | Some s => lb_eqb (st_lb s) fin
      | None => false
      end
  | CTrie uni alpha items => gcheck_items alpha [init_state] items
  | CStats key ops obs fields =>
      let (s, o) := grun_stats (new_stats (apply_key key)) ops in
      list_eqb srec_eqb o obs && list_eqb Z.eqb (s_fields s) fields
  | CMulti keys ops obs fields =>
      let (m, o) := grun_multi (map (fun kk => (fst kk, new_stats (apply_key (snd kk)))) keys) ops in
      list_eqb mrec_eqb o obs &&
      list_eqb (pair_eqb Z.eqb (list_eqb Z.eqb)) (sort_key (map (fun ns => (fst ns, s_fields (snd ns))) m)) (sort_key fields)
  | CStatsLog idname keys regs pops fin =>
      let (m, _) := grun_multi (map (fun kk => (fst kk, new_stats (apply_key (snd kk)))) keys) regs in
      let (s, _) := grun_gens m idname 0 pops init_state in
      lb_eqb (st_lb s) fin
  end.
Definition check_both (c : case) : bool := check c && check_gen c.
