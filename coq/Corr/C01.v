(* Correspondence runner for C01: the harness writes the inputs given to deap.base and what
   the implementation returned; check recomputes everything with the model. *)
From Coq Require Import List ZArith Bool.
From DV Require Export Base.Corr Base.PyTuple Base.PyList Model.C01_Fitness.
Import ListNotations.
Local Open Scope Z_scope.

(* a fitness as the harness builds it: optional values (None = never assigned / deleted) and
   constraint_violation *)
Record fstate := mkfs { fs_vals : option (list Z); fs_cv : option (list bool) }.

Definition build (w : list Z) (s : fstate) : fit :=
  match fs_vals s with
  | None => mkfit [] (fs_cv s)
  | Some v => match set_values w (mkfit [] (fs_cv s)) v with Some f => f | None => mkfit [] (fs_cv s) end
  end.

Definition six (a b : fit) : list bool := [f_lt a b; f_le a b; f_eq a b; f_ne a b; f_gt a b; f_ge a b].
Definition csix (a b : fit) : list bool := [c_lt a b; c_le a b; c_eq a b; c_ne a b; c_gt a b; c_ge a b; c_dominates a b].

Inductive cop := CSet (v : list Z) | CDel | CViol (c : option (list bool)).
Definition cstep (w : list Z) (f : fit) (o : cop) : fit :=
  match o with
  | CSet v => match set_values w f v with Some f' => f' | None => f end
  | CDel => c_del_values f
  | CViol c => mkfit (wv f) c
  end.

Inductive case :=
| CCmp (w : list Z) (va vb : option (list Z)) (obs_wa obs_wb : list Z) (obs : list bool)
| CDom (w va vb : list Z) (s : pyslice) (obs : bool)
| CRound (w v : list Z) (obs_values : list Z)
| CHist (w : list Z) (ops : list fop) (obs_valid : list bool)
| CClone (w : list Z) (s : fstate) (constrained : bool) (obs_eq obs_valid : bool) (obs_wv : list Z)
| CCons (w : list Z) (sa sb : fstate) (obs : list bool)
(* a history of operations on one ConstrainedFitness: assign values, del values, assign
   constraint_violation; observed after every step: valid, wvalues, constraint_violation, and the
   seven comparisons against a reference fitness *)
| CConsHist (w : list Z) (ops : list cop) (ref : fstate) (obs : list (bool * list Z * option (list bool) * list bool)).

Definition zl_eqb := list_eqb Z.eqb.
Definition bl_eqb := list_eqb Bool.eqb.

Fixpoint valid_trace (w : list Z) (f : fit) (ops : list fop) : list bool :=
  match ops with
  | [] => []
  | o :: r => let f' := step w f o in valid f' :: valid_trace w f' r
  end.

Definition obl_eqb := option_eqb (list_eqb Bool.eqb).
Fixpoint chist (w : list Z) (f : fit) (r : fit) (ops : list cop)
  (obs : list (bool * list Z * option (list bool) * list bool)) : bool :=
  match ops, obs with
  | [], [] => true
  | o :: ops', (v, owv, ocv, six) :: obs' =>
      let f' := cstep w f o in
      Bool.eqb (valid f') v && zl_eqb (wv f') owv && obl_eqb (cv f') ocv && bl_eqb (csix f' r) six &&
      chist w f' r ops' obs'
  | _, _ => false
  end.

Definition check (c : case) : bool :=
  match c with
  | CCmp w va vb owa owb obs =>
      let a := build w (mkfs va None) in
      let b := build w (mkfs vb None) in
      zl_eqb (wv a) owa && zl_eqb (wv b) owb && bl_eqb (six a b) obs
  | CDom w va vb s obs =>
      let a := build w (mkfs (Some va) None) in
      let b := build w (mkfs (Some vb) None) in
      Bool.eqb (dominates a b s) obs
  | CRound w v ov =>
      zl_eqb (get_values w (build w (mkfs (Some v) None))) ov
  | CHist w ops ov => bl_eqb (valid_trace w (mkfit [] None) ops) ov
  | CClone w s constrained oeq ovalid owv =>
      let f := build w s in
      let c := if constrained then c_deepcopy f else deepcopy f in
      Bool.eqb (if constrained then c_eq f c else f_eq f c) oeq &&
      Bool.eqb (valid c) ovalid && zl_eqb (wv c) owv
  | CCons w sa sb obs => bl_eqb (csix (build w sa) (build w sb)) obs
  | CConsHist w ops r obs => chist w (mkfit [] None) (build w r) ops obs
  end.
