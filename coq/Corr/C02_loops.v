(* Correspondence entry for the REGENERATED packaged loops (tie (T), coq/Gen/C02_gen_loops.v): the recorded
   runs of harness/c03.py for the composed model (type `case` of Corr/C03_Full.v: initial objects, draws,
   operator script, selection answers and everything observed) are replayed through gen_eaSimple /
   gen_eaMuPlusLambda / gen_eaMuCommaLambda instead of the hand model, and judged like Corr.C03_Full.check
   judges the model: evaluate call log, logbook records, batches shown to the hall of fame, final list,
   all draws consumed, as many operator calls as recorded -- or the recorded exception.
   harness/c02.py generates the cases with the generators of harness/c03.py. *)
From Coq Require Import List ZArith Bool Arith PrimFloat.
From DV Require Export Base.Corr Corr.C03_Full.
From DV Require Import Model.C02_GenRt Model.C02_GenLoopsRt Gen.C02_gen_loops.
Import ListNotations.
Local Open Scope nat_scope.

Definition gen_kind (p : evp) (w : list Z) (script : list opent) (k : fkind) (mu : nat) (lambda_ : Z)
           (cxpb mutpb : float) (h : V.heap G F) (d : list (V.draw float)) (pop : list uid)
           (sels : list (list nat)) : @fres G F float :=
  let s0 := mkl (finit h d pop) sels in
  let ngen := Z.of_nat (length sels) in
  match k with
  | FSimple => to_fres (gen_eaSimple (ev_fun p) (wfle w) PrimFloat.ltb PrimFloat.leb PrimFloat.add 1%float
                                     (mate_of script) (mut_of script) cxpb mutpb ngen s0)
  | FPlus => to_fres (gen_eaMuPlusLambda (ev_fun p) (wfle w) PrimFloat.ltb PrimFloat.leb PrimFloat.add 1%float
                                         (mate_of script) (mut_of script) (Z.of_nat mu) lambda_ cxpb mutpb ngen s0)
  | FComma => to_fres (gen_eaMuCommaLambda (ev_fun p) (wfle w) PrimFloat.ltb PrimFloat.leb PrimFloat.add 1%float
                                           (mate_of script) (mut_of script) (Z.of_nat mu) lambda_ cxpb mutpb ngen s0)
  end.

Definition check_gen_loops (c : case) : bool :=
  match c with
  | CFull k ngen p w mu lambda_ cxpb mutpb objs pop draws script sels o_calls o_log o_shown o_final o_inplace =>
      match gen_kind p w script k mu lambda_ cxpb mutpb (heap_of objs) draws pop (map os_idx sels) with
      | FOk e =>
          Nat.eqb (length sels) ngen &&
          state_matches (fview e) o_calls o_log o_shown o_final && o_inplace &&
          match f_dr e with [] => true | _ => false end && Nat.eqb (f_kc e) (length script)
      | FRaise _ => false
      end
  | CFullRaise k p w mu lambda_ cxpb mutpb objs pop draws script sels o_exn =>
      match gen_kind p w script k mu lambda_ cxpb mutpb (heap_of objs) draws pop (map os_idx sels) with
      | FRaise e => exn_matches e o_exn
      | FOk _ => false
      end
  end.
