(* Correspondence runner for the tie (T) of C07: the recorded calls of Corr/C07.v re-evaluated with the
   definitions regenerated on this run (coq/Gen/C07_gen.v) instead of the hand model — this validates the
   translator harness/c07_py2coq.py itself against the implementation. *)
From Coq Require Import List ZArith QArith Bool.
From DV Require Export Corr.C07.
From DV Require Import Model.C07_GenRt Gen.C07_gen.
Import ListNotations.

(* _randomizedSelect(array, 0, len-1, K) with the recorded pivot draws: result and draw consumption *)
Definition select_ok_gen {T} (Op : numops T) (arr : list T) (rank : Z) (draws : list Z) (obs : T) : bool :=
  let n := length arr in
  let '(v, rest) := gen_randomizedSelect Op (S n) arr 0%Z (Z.of_nat n - 1)%Z rank draws in
  n_eqb Op v obs && match rest with [] => true | _ => false end.

Definition check_gen (c : case) : bool :=
  match c with
  (* selSPEA2: individuals = (fitness.values, fitness.wvalues) *)
  | CSpea2Q vals weights k draws obs =>
      let v := map qxs vals in
      let '(r, rest) := gen_selSPEA2 qx_ops (combine v (wvalues_of qx_ops (qxs weights) v)) k draws in
      nl_eqb r obs && match rest with [] => true | _ => false end
  | CSpea2F vals weights k draws obs =>
      let wv := wvalues_of f_ops weights vals in
      let '(r, rest) := gen_selSPEA2 f_ops (combine (values_of f_ops weights wv) wv) k draws in
      nl_eqb r obs && match rest with [] => true | _ => false end
  | CSelectQ arr rank draws obs => select_ok_gen qx_ops (map QF arr) rank draws (QF obs)
  | CSelectF arr rank draws obs => select_ok_gen f_ops arr rank draws obs
  (* uniform_reference_points: bit for bit in binary64, within 1e-12 of the exact rationals when scaled *)
  | CRefF nobj p sc obs =>
      list_eqb fl_eqb (gen_uniform_reference_points f_ops (Z.of_nat nobj) (Z.of_nat p) sc) obs
  | CRefQ nobj p s obs =>
      let m := gen_uniform_reference_points q_ops (Z.of_nat nobj) (Z.of_nat p) (Some s) in
      Nat.eqb (length m) (length obs)
      && forallb (fun rr => Nat.eqb (length (fst rr)) (length (snd rr))
                            && forallb (fun xy => q_close (1 # 1000000000000) (fst xy) (snd xy)) (zip (fst rr) (snd rr)))
                 (zip m obs)
  | _ => true
  end.
