(* Correspondence runner for C02.  The harness (harness/c02.py) builds a population of real
   creator-made individuals, runs deap.algorithms.varAnd / varOr from $VERIF_REPO with
     - a scripted/logging proxy in place of `random`,
     - toolbox.mate / toolbox.mutate = deterministic transformers chosen per call from the kind lists
       below (the same functions are defined here as mate_k / mut_k),
     - toolbox.clone = the Toolbox's own clone wrapped by a logger,
   and writes down the inputs, the draw log, and everything observed: the result (list of canonical
   object ids or the exception), the chronological call log, and the final (genotype, fitness object
   id, fitness values) of every object that existed.  check re-runs the model and compares.
   Numbers are binary64 floats (bit exact); genotypes and fitness values are integer lists. *)
From Coq Require Import List ZArith Bool Arith PrimFloat.
From DV Require Export Base.Corr Model.C02_Variation Model.C02_Literal.
Import ListNotations.

Definition G := list Z.
Definition F := list Z.
Definition obj := (G * option F)%type.

(* ---- operator kinds shared with harness/c02.py ---- *)
Inductive matekind :=
| MK_id                       (* touches nothing, returns (a, b) *)
| MK_tail (p : nat)           (* in place one-point exchange of tails after p, returns (a, b) *)
| MK_tail_swap (p : nat)      (* same in place, returns (b, a) *)
| MK_new (p : nat)            (* arguments untouched; returns two new objects carrying copies of the fitness *)
| MK_mixed (p : nat)          (* a rewritten in place, b untouched; returns (new object, a) *)
| MK_setfit (p : nat)         (* in place exchange, a.fitness.values = (7,), del b.fitness.values; returns (a, b) *)
| MK_new_first (p : nat)      (* b rewritten in place; returns (new object with fitness (9,), b) *)
| MK_revert (p : nat).        (* both rewritten in place; returns (new object with a's OLD genotype and fitness, b)
                                 -- what gp.staticLimit does when its limit triggers *)

Inductive mutkind :=
| UK_id
| UK_inc (i : nat)            (* g[i] += 1 in place (nothing if i out of range), returns (a,) *)
| UK_new (i : nat)            (* argument untouched, returns a new object with the incremented genotype and a copy of the fitness *)
| UK_setfit                   (* g[0] += 1 in place and a.fitness.values = (5,), returns (a,) *)
| UK_new_touch                (* g[0] += 1 in place, returns a new object with the old genotype and fitness (3,) *)
| UK_revert (i : nat).        (* g[i] += 1 in place, returns a new object with the OLD genotype and a copy of the fitness *)

Definition cross (p : nat) (g1 g2 : G) : G := firstn p g1 ++ skipn p g2.

Fixpoint inc_at (i : nat) (g : G) : G :=
  match g, i with
  | [], _ => []
  | x :: r, O => (x + 1)%Z :: r
  | x :: r, S i' => x :: inc_at i' r
  end.

Definition mate_k (k : matekind) (x y : obj) : mate_ans G F :=
  let '(g1, f1) := x in
  let '(g2, f2) := y in
  match k with
  | MK_id => mkmate x y RArg1 RArg2
  | MK_tail p => mkmate (cross p g1 g2, f1) (cross p g2 g1, f2) RArg1 RArg2
  | MK_tail_swap p => mkmate (cross p g1 g2, f1) (cross p g2 g1, f2) RArg2 RArg1
  | MK_new p => mkmate x y (RNew (cross p g1 g2, f1)) (RNew (cross p g2 g1, f2))
  | MK_mixed p => mkmate (cross p g1 g2, f1) y (RNew (cross p g2 g1, f2)) RArg1
  | MK_setfit p => mkmate (cross p g1 g2, Some [7%Z]) (cross p g2 g1, None) RArg1 RArg2
  | MK_new_first p => mkmate x (cross p g2 g1, f2) (RNew (cross p g1 g2, Some [9%Z])) RArg2
  | MK_revert p => mkmate (cross p g1 g2, f1) (cross p g2 g1, f2) (RNew (g1, f1)) RArg2
  end.

Definition mut_k (k : mutkind) (x : obj) : mut_ans G F :=
  let '(g, f) := x in
  match k with
  | UK_id => mkmut x UArg
  | UK_inc i => mkmut (inc_at i g, f) UArg
  | UK_new i => mkmut x (UNew (inc_at i g, f))
  | UK_setfit => mkmut (inc_at 0 g, Some [5%Z]) UArg
  | UK_new_touch => mkmut (inc_at 0 g, f) (UNew (g, Some [3%Z]))
  | UK_revert i => mkmut (inc_at i g, f) (UNew (g, f))
  end.

Definition mate_of (ks : list matekind) (k : nat) (x y : obj) : mate_ans G F := mate_k (nth k ks MK_id) x y.
Definition mut_of (ks : list mutkind) (k : nat) (x : obj) : mut_ans G F := mut_k (nth k ks UK_id) x.

(* ---- initial heap: individuals (genotype, index of their fitness object) and fitness objects ---- *)
Definition build_heap (objs : list (G * nat)) (fits : list (option F)) : heap G F :=
  mkheap (fun u => match nth_error objs u with Some (g, r) => mkind g r | None => mkind [] 0 end)
         (fun v => match nth_error fits v with Some f => f | None => None end)
         (length objs) (length fits).

(* per object: genotype, id of its fitness object, fitness values, and the OWNER of the mutable attribute
   values of that fitness object (ConstrainedFitness.constraint_violation, any other attribute): the
   harness reports the first fitness object, in canonical order, through which each such attribute object
   is reachable.  The model's fitness cell stands for the fitness object together with its attribute
   values, and clone allocates a fresh cell, so the prediction is "owned by its own fitness object". *)
Definition snapshot (h : heap G F) : list (G * nat * option F * nat) :=
  map (fun u => (geno (ind_at h u), fitref (ind_at h u), fit_of h u, fitref (ind_at h u))) (seq 0 (ni h)).

(* ---- observations ---- *)
Inductive ores := OList (l : list nat) | ORaise (e : exn).

Inductive case :=
| CAnd (objs : list (G * nat)) (fits : list (option F)) (pop : list nat) (cxpb mutpb : float)
       (draws : list (draw float)) (mks : list matekind) (uks : list mutkind)
       (o_res : ores) (o_log : list event) (o_snap : list (G * nat * option F * nat))
| COr (objs : list (G * nat)) (fits : list (option F)) (pop : list nat) (lambda_ : Z) (cxpb mutpb : float)
      (draws : list (draw float)) (mks : list matekind) (uks : list mutkind)
      (o_res : ores) (o_log : list event) (o_snap : list (G * nat * option F * nat)).

Definition zl_eqb := list_eqb Z.eqb.
Definition nl_eqb := list_eqb Nat.eqb.
Definition ofit_eqb := option_eqb zl_eqb.

Definition exn_eqb (a b : exn) : bool :=
  match a, b with
  | AssertionError, AssertionError | ValueError, ValueError
  | IndexError, IndexError | DrawMismatch, DrawMismatch => true
  | _, _ => false
  end.

Definition res_eqb (r : exn + list nat) (o : ores) : bool :=
  match r, o with
  | inr l, OList l' => nl_eqb l l'
  | inl e, ORaise e' => exn_eqb e e'
  | _, _ => false
  end.

Definition event_eqb (a b : event) : bool :=
  match a, b with
  | EClone s n, EClone s' n' => Nat.eqb s s' && Nat.eqb n n'
  | EMate k a b r1 r2, EMate k' a' b' r1' r2' =>
      Nat.eqb k k' && Nat.eqb a a' && Nat.eqb b b' && Nat.eqb r1 r1' && Nat.eqb r2 r2'
  | EMut k a r, EMut k' a' r' => Nat.eqb k k' && Nat.eqb a a' && Nat.eqb r r'
  | _, _ => false
  end.

Definition snap_eqb (a b : list (G * nat * option F * nat)) : bool :=
  list_eqb (fun x y => let '(g, r, f, o) := x in let '(g', r', f', o') := y in
                       zl_eqb g g' && Nat.eqb r r' && ofit_eqb f f' && Nat.eqb o o') a b.

Definition judge (r : st G F float * (exn + list nat)) (o_res : ores) (o_log : list event)
                 (o_snap : list (G * nat * option F * nat)) : bool :=
  let '(s', res) := r in
  res_eqb res o_res && list_eqb event_eqb (rev (lg s')) o_log && snap_eqb (snapshot (hp s')) o_snap
  && match dr s' with [] => true | _ => false end.   (* the model consumed exactly the recorded draws *)

(* both the structurally recursive model (the one the theorems are stated for) and the index-based
   transcription (proved equal in Proofs/C02_Literal.v) are run against the implementation *)
Definition check (c : case) : bool :=
  match c with
  | CAnd objs fits pop cxpb mutpb draws mks uks o_res o_log o_snap =>
      let s0 := start (build_heap objs fits) draws in
      judge (var_and PrimFloat.ltb (mate_of mks) (mut_of uks) cxpb mutpb s0 pop) o_res o_log o_snap &&
      judge (var_and_lit PrimFloat.ltb (mate_of mks) (mut_of uks) cxpb mutpb s0 pop) o_res o_log o_snap
  | COr objs fits pop lambda_ cxpb mutpb draws mks uks o_res o_log o_snap =>
      let s0 := start (build_heap objs fits) draws in
      judge (var_or PrimFloat.ltb PrimFloat.leb PrimFloat.add 1%float (mate_of mks) (mut_of uks)
                    lambda_ cxpb mutpb s0 pop) o_res o_log o_snap &&
      judge (var_or_lit PrimFloat.ltb PrimFloat.leb PrimFloat.add 1%float (mate_of mks) (mut_of uks)
                        lambda_ cxpb mutpb s0 pop) o_res o_log o_snap
  end.

(* the same judgement for any other pair of implementations of the two functions: used by the generated
   file coq/Gen/C02_gen.v (tie (T)) to run the REGENERATED definitions against the implementation *)
Definition check_with
    (va : list matekind -> list mutkind -> float -> float -> st G F float -> list nat -> st G F float * (exn + list nat))
    (vo : list matekind -> list mutkind -> Z -> float -> float -> st G F float -> list nat -> st G F float * (exn + list nat))
    (c : case) : bool :=
  match c with
  | CAnd objs fits pop cxpb mutpb draws mks uks o_res o_log o_snap =>
      judge (va mks uks cxpb mutpb (start (build_heap objs fits) draws) pop) o_res o_log o_snap
  | COr objs fits pop lambda_ cxpb mutpb draws mks uks o_res o_log o_snap =>
      judge (vo mks uks lambda_ cxpb mutpb (start (build_heap objs fits) draws) pop) o_res o_log o_snap
  end.
