(* Correspondence runner for C20: the harness writes the inputs given to deap.benchmarks.* and what
   the implementation returned; check re-evaluates the REGENERATED definitions (coq/Gen/C20_bench_gen.v)
   at the primitive-float instance and compares: bit for bit when the definition uses only
   + - * / sqrt, sum and comparisons (flag exact), within rtol 1e-9 (relative to 1 + |value|) otherwise
   (sin, cos, exp, ** are evaluated by the approximations of Base/C20_FloatFun.v).  Binary functions
   are evaluated over Z and compared exactly. *)
From Coq Require Import List ZArith Bool String Floats.
From DV Require Export Base.Corr Base.PyList Base.C20_FloatFun Base.C20_Num Gen.C20_bench_gen.
Import ListNotations.
Local Open Scope string_scope.

Definition fl := list float.

Inductive case :=
(* benchmarks/__init__.py and gp.py: name, integer parameters, float parameters, matrix parameters, genes *)
| CNum (name : string) (ints : list Z) (nums : fl) (mats : list (list fl)) (x : fl) (exact : bool) (obs : fl)
(* binary.py *)
| CBin (name : string) (ints : list Z) (bits : list Z) (obs : option (list Z))
(* bin2float: what the wrapped function was fed *)
| CDecode (mn mx : float) (nbits : Z) (bits : list Z) (obs : fl)
| CTranslate (t x obs : fl)
| CScale (factor x obs_factor obs : fl)
| CRotate (minv : list fl) (x obs : fl)
| CNoise (draws : list (option float)) (x res obs_arg obs_out : fl)
(* movingpeaks: peak function id 0 = cone, 1 = sphere, 2 = function1 *)
| CPeak (fid : Z) (x p : fl) (h w : float) (obs : float)
| CMPCall (fids : list Z) (ps : list fl) (hs ws : fl) (basis : option float) (x : fl) (obs : fl)
| CMPCount (minp maxp : Z) (sev : float) (n : Z) (u1 u2 : float) (obs : Z).

Definition i0 (l : list Z) : Z := nth 0 l 0%Z.
Definition n0 (l : fl) : float := nth 0 l 0%float.
Definition m0 (l : list (list fl)) : list fl := nth 0 l [].

Definition run_num (name : string) (ints : list Z) (nums : fl) (mats : list (list fl)) (x : fl) : option fl :=
  if name =? "plane" then Some (bm_plane x) else
  if name =? "sphere" then Some (bm_sphere x) else
  if name =? "cigar" then Some (bm_cigar x) else
  if name =? "rosenbrock" then Some (bm_rosenbrock x) else
  if name =? "h1" then Some (bm_h1 x) else
  if name =? "ackley" then Some (bm_ackley x) else
  if name =? "bohachevsky" then Some (bm_bohachevsky x) else
  if name =? "griewank" then Some (bm_griewank x) else
  if name =? "rastrigin" then Some (bm_rastrigin x) else
  if name =? "rastrigin_scaled" then Some (bm_rastrigin_scaled x) else
  if name =? "rastrigin_skew" then Some (bm_rastrigin_skew x) else
  if name =? "schaffer" then Some (bm_schaffer x) else
  if name =? "schwefel" then Some (bm_schwefel x) else
  if name =? "himmelblau" then Some (bm_himmelblau x) else
  if name =? "shekel" then Some (bm_shekel x (m0 mats) nums) else
  if name =? "kursawe" then Some (bm_kursawe x) else
  if name =? "schaffer_mo" then Some (bm_schaffer_mo x) else
  if name =? "zdt1" then Some (bm_zdt1 x) else
  if name =? "zdt2" then Some (bm_zdt2 x) else
  if name =? "zdt3" then Some (bm_zdt3 x) else
  if name =? "zdt4" then Some (bm_zdt4 x) else
  if name =? "zdt6" then Some (bm_zdt6 x) else
  if name =? "dtlz1" then Some (bm_dtlz1 x (i0 ints)) else
  if name =? "dtlz2" then Some (bm_dtlz2 x (i0 ints)) else
  if name =? "dtlz3" then Some (bm_dtlz3 x (i0 ints)) else
  if name =? "dtlz4" then Some (bm_dtlz4 x (i0 ints) (n0 nums)) else
  if name =? "dtlz5" then Some (bm_dtlz5 x (i0 ints)) else
  if name =? "dtlz6" then Some (bm_dtlz6 x (i0 ints)) else
  if name =? "dtlz7" then Some (bm_dtlz7 x (i0 ints)) else
  if name =? "fonseca" then Some (bm_fonseca x) else
  if name =? "poloni" then Some (bm_poloni x) else
  if name =? "dent" then Some (bm_dent x (n0 nums)) else
  if name =? "kotanchek" then Some [gp_kotanchek x] else
  if name =? "salustowicz_1d" then Some [gp_salustowicz_1d x] else
  if name =? "salustowicz_2d" then Some [gp_salustowicz_2d x] else
  if name =? "unwrapped_ball" then Some [gp_unwrapped_ball x] else
  if name =? "rational_polynomial" then Some [gp_rational_polynomial x] else
  if name =? "sin_cos" then Some [gp_sin_cos x] else
  if name =? "ripple" then Some [gp_ripple x] else
  if name =? "rational_polynomial2" then Some [gp_rational_polynomial2 x] else
  None.

Definition run_bin (name : string) (ints : list Z) (bits : list Z) : option (list Z) :=
  if name =? "trap" then Some [bin_trap bits] else
  if name =? "inv_trap" then Some [bin_inv_trap bits] else
  if name =? "chuang_f1" then Some (bin_chuang_f1 bits) else
  if name =? "chuang_f2" then Some (bin_chuang_f2 bits) else
  if name =? "chuang_f3" then Some (bin_chuang_f3 bits) else
  if name =? "royal_road1" then Some (bin_royal_road1 bits (i0 ints)) else
  if name =? "royal_road2" then bin_royal_road2 bits (i0 ints) else
  None.

Definition same_list (a b : fl) : bool := list_eqb f_same a b.
Definition close_list (a b : fl) : bool := list_eqb f_close a b.
Definition cmp_list (exact : bool) (a b : fl) : bool := if exact then same_list a b else close_list a b.

Definition peak_fn (fid : Z) : fl -> fl -> float -> float -> float :=
  if (fid =? 0)%Z then mp_cone else if (fid =? 1)%Z then mp_sphere else mp_function1.

Definition check (c : case) : bool :=
  match c with
  | CNum name ints nums mats x exact obs =>
      match run_num name ints nums mats x with
      | Some r => cmp_list exact r obs
      | None => false
      end
  | CBin name ints bits obs => option_eqb (list_eqb Z.eqb) (run_bin name ints bits) obs
  | CDecode mn mx nbits bits obs => same_list (bin_bin2float_arg mn mx nbits bits) obs
  | CTranslate t x obs => same_list (tl_translate_arg t x) obs
  | CScale factor x obs_factor obs =>
      same_list (tl_scale_factor factor) obs_factor && same_list (tl_scale_arg (tl_scale_factor factor) x) obs
  | CRotate minv x obs => close_list (tl_rotate_arg minv x) obs
  | CNoise draws x res obs_arg obs_out =>
      same_list (tl_noise_arg draws x) obs_arg && same_list (tl_noise_post draws x res) obs_out
  | CPeak fid x p h w obs => f_close (peak_fn fid x p h w) obs
  | CMPCall fids ps hs ws basis x obs =>
      close_list (mp_call (map peak_fn fids) ps hs ws
                          (match basis with Some c => Some (fun _ => c) | None => None end) x) obs
  | CMPCount minp maxp sev n u1 u2 obs => Z.eqb (mp_cp_count minp maxp sev n u1 u2) obs
  end.
