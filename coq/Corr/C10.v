(* Correspondence runner for C10.  A case holds the arguments given to the DEAP operator, the
   event stream recorded while it ran (random.random / random.gauss results, every float **
   with its arguments and result, every math.exp) and what the operator returned.  [check]
   re-executes the float instance of the model on the same arguments and stream and compares:
   genes and strategies bit for bit, object identities, the whole stream consumed, or the same
   kind of exception. *)
From Coq Require Import List Bool PrimFloat.
From DV Require Export Base.Corr Model.C10_RealOps.
Import ListNotations.

Definition fl_eqb : list float -> list float -> bool := list_eqb fsame.

(* [gs] = [genes1; strategy1; genes2; strategy2] (or [genes; strategy]); [ids] likewise the object
   numbers of the returned individuals and of their strategy lists *)
Inductive outcome :=
| OOk (gs : list (list float)) (ids : list nat)
| ORaise (e : err).

Definition err_eqb (a b : err) : bool :=
  match a, b with
  | ZeroDiv, ZeroDiv | IndexErr, IndexErr | TypeErr, TypeErr | Overflow, Overflow => true
  | _, _ => false
  end.

Definition outcome_eqb (a b : outcome) : bool :=
  match a, b with
  | OOk g i, OOk g' i' => list_eqb fl_eqb g g' && list_eqb Nat.eqb i i'
  | ORaise e, ORaise e' => err_eqb e e'
  | _, _ => false
  end.

Definition out1 (i : indiv (T:=float)) : outcome := OOk [genes i; strat i] [iuid i; suid i].
Definition out2 (p : indiv (T:=float) * indiv (T:=float)) : outcome :=
  let (a, b) := p in
  OOk [genes a; strat a; genes b; strat b] [iuid a; suid a; iuid b; suid b].

(* the whole stream must have been consumed *)
Definition finish {A} (r : res (A * stream float)) (f : A -> outcome) : option outcome :=
  match r with
  | Ok (a, []) => Some (f a)
  | Ok (_, _ :: _) => None
  | Raise e => Some (ORaise e)
  | Stuck => None
  end.

Definition fbnd := bnd (T:=float).
Definition find := indiv (T:=float).

Inductive case :=
| CBlend (alpha : float) (i1 i2 : find) (evs : stream float) (o : outcome)
| CSbx (eta : float) (i1 i2 : find) (evs : stream float) (o : outcome)
| CSbxB (eta : float) (low up : fbnd) (i1 i2 : find) (evs : stream float) (o : outcome)
| CESBlend (alpha : float) (i1 i2 : find) (evs : stream float) (o : outcome)
| CGauss (mu sigma : fbnd) (indpb : float) (i : find) (evs : stream float) (o : outcome)
| CPoly (eta : float) (low up : fbnd) (indpb : float) (i : find) (evs : stream float) (o : outcome)
| CESLog (c indpb : float) (i : find) (evs : stream float) (o : outcome)
(* the same individual object passed as both parents: at every locus both children are written into
   the same slot, the second write (child 2) is what remains; [o] is that one object *)
| CBlendA (alpha : float) (i : find) (evs : stream float) (o : outcome)
| CSbxA (eta : float) (i : find) (evs : stream float) (o : outcome)
| CSbxBA (eta : float) (low up : fbnd) (i : find) (evs : stream float) (o : outcome)
| CESBlendA (alpha : float) (i : find) (evs : stream float) (o : outcome).

Definition out_snd (p : indiv (T:=float) * indiv (T:=float)) : outcome := out1 (snd p).

Definition agree (m : option outcome) (o : outcome) : bool :=
  match m with Some o' => outcome_eqb o' o | None => false end.

Definition check (c : case) : bool :=
  match c with
  | CBlend alpha i1 i2 evs o => agree (finish (op_blend FOps alpha i1 i2 evs) out2) o
  | CSbx eta i1 i2 evs o => agree (finish (op_sbx FOps eta i1 i2 evs) out2) o
  | CSbxB eta low up i1 i2 evs o => agree (finish (op_sbx_bounded FOps eta low up i1 i2 evs) out2) o
  | CESBlend alpha i1 i2 evs o => agree (finish (op_es_blend FOps alpha i1 i2 evs) out2) o
  | CGauss mu sigma indpb i evs o => agree (finish (op_gaussian FOps mu sigma indpb i evs) out1) o
  | CPoly eta low up indpb i evs o => agree (finish (op_poly FOps eta low up indpb i evs) out1) o
  | CESLog c indpb i evs o => agree (finish (op_es_lognormal FOps c indpb i evs) out1) o
  | CBlendA alpha i evs o => agree (finish (op_blend FOps alpha i i evs) out_snd) o
  | CSbxA eta i evs o => agree (finish (op_sbx FOps eta i i evs) out_snd) o
  | CSbxBA eta low up i evs o => agree (finish (op_sbx_bounded FOps eta low up i i evs) out_snd) o
  | CESBlendA alpha i evs o => agree (finish (op_es_blend FOps alpha i i evs) out_snd) o
  end.
