(* Correspondence runner for C16.  The harness describes the real object graph (objects numbered
   by first visit: class, attributes sorted by name id, items) before and after every operation;
   check replays the operations on the model and compares the canonical descriptions. *)
From Coq Require Import List ZArith Bool Arith.
From DV Require Export Base.Corr Model.C16_ObjGraph.
Import ListNotations.

Definition value_eqb (a b : value) : bool :=
  match a, b with
  | Atom x, Atom y => Z.eqb x y
  | BType x, BType y => Nat.eqb x y
  | Ref x, Ref y => Nat.eqb x y
  | _, _ => false
  end.

Definition kind_code (k : kind) : nat :=
  match k with
  | KClass => 0 | KList => 1 | KArray => 2 | KNdarray => 3 | KSet => 4 | KDict => 5 | KTree => 6
  | KFit => 7 | KCFit => 8 | KPyList => 9 | KPyDict => 10 | KPySet => 11 | KBuf => 12
  end.

Definition kind_eqb (a b : kind) : bool := Nat.eqb (kind_code a) (kind_code b).

Definition obj_eqb (a b : obj) : bool :=
  kind_eqb (o_kind a) (o_kind b) && value_eqb (o_cls a) (o_cls b) &&
  list_eqb value_eqb (o_items a) (o_items b) &&
  list_eqb (pair_eqb Nat.eqb value_eqb) (o_attrs a) (o_attrs b).

Definition heap_eqb := list_eqb obj_eqb.
Definition values_eqb := list_eqb value_eqb.

Definition desc := (heap * list value)%type.

Definition desc_eqb (a b : desc) : bool := heap_eqb (fst a) (fst b) && values_eqb (snd a) (snd b).

Inductive op :=
| ONew (k : nat) (items : list Z)      (* call the class numbered k in the current description *)
| OClone (i : nat)                     (* toolbox.clone(roots[i]); the result becomes a new root *)
| OPickle (i : nat)                    (* pickle.loads(pickle.dumps(roots[i], p)), same interpreter *)
| OMut (k : nat) (m : mutation)        (* mutate the object numbered k in the current description *)
| OGroup (is_ : list nat).             (* a plain list [roots[i], ...] (a population) becomes a new root *)

Definition mstate := (heap * list value)%type.

Definition describe (s : mstate) : option (desc * memo) :=
  match canon (fst s) (snd s) with
  | Some (h', m, vs) => Some ((h', vs), m)
  | None => None
  end.

Definition run_op (s : mstate) (o : op) : option mstate :=
  let '(h, roots) := s in
  match o with
  | OClone i =>
      match nth_error roots i with
      | Some v => match deepcopy h v with Some (h', v') => Some (h', roots ++ [v']) | None => None end
      | None => None
      end
  | OPickle i =>
      match nth_error roots i with
      | Some v => match pickle_roundtrip h v with Some (h', v') => Some (h', roots ++ [v']) | None => None end
      | None => None
      end
  | ONew k items =>
      match describe s with
      | Some (_, m) =>
          match inv_lookup k m with
          | Some cl => match new_inst (fuel_for h) h (Ref cl) (map Atom items) with
                       | Some (h', v') => Some (h', roots ++ [v'])
                       | None => None
                       end
          | None => None
          end
      | None => None
      end
  | OGroup is_ =>
      let items := flat_map (fun i => match nth_error roots i with Some v => [v] | None => [] end) is_ in
      if Nat.eqb (length items) (length is_)
      then Some (h ++ [mkobj KPyList (BType 0) items []], roots ++ [Ref (length h)])
      else None
  | OMut k mu =>
      match describe s with
      | Some (_, m) =>
          match inv_lookup k m with
          | Some l => Some (mutate h l mu, roots)
          | None => None
          end
      | None => None
      end
  end.

(* the description is recorded after every instantiate / clone / pickle and after the last operation; a
   mutation in between is observed through the next recorded description.  To keep the case files small a
   recorded description is written as its difference from the previous recorded one (objects keep their
   numbers because new roots are appended): objects replaced, objects appended, final length, roots. *)
Inductive dsc :=
| DFull (d : desc)
| DDelta (n : nat) (changes : list (nat * obj)) (app : list obj) (roots : list value).

Definition expand (prev : desc) (x : dsc) : desc :=
  match x with
  | DFull d => d
  | DDelta n ch app r => (firstn n (fold_left (fun h c => upd h (fst c) (snd c)) ch (fst prev) ++ app), r)
  end.

Fixpoint run_steps (s : mstate) (prev : desc) (steps : list (op * option dsc)) : bool :=
  match steps with
  | [] => true
  | (o, obs) :: r =>
      match run_op s o with
      | Some s' =>
          match obs with
          | None => run_steps s' prev r
          | Some x =>
              let obs := expand prev x in
              match describe s' with
              | Some (d, _) => desc_eqb d obs && run_steps s' obs r
              | None => false
              end
          end
      | None => false
      end
  end.

(* ---- toolbox ---- *)
Inductive fsrc := SBase (id : nat) | SAlias (a : nat).

Fixpoint res_eqb (a b : res) : bool :=
  match a, b with
  | RCall i x k, RCall j y l => Nat.eqb i j && list_eqb Z.eqb x y && list_eqb (pair_eqb Nat.eqb Z.eqb) k l
  | RDec d r, RDec e s => Nat.eqb d e && res_eqb r s
  | _, _ => false
  end.

Inductive tbop :=
| TReg (a : nat) (f : fsrc) (args : list Z) (kw : list (nat * Z))
| TUnreg (a : nat)
| TDec (a : nat) (ds : list nat)
| THas (a : nat) (obs : bool)
| TCall (a : nat) (args : list Z) (kw : list (nat * Z)) (obs : res)
| TPickle (a : nat) (obs_ok : bool).     (* pickle.dumps(toolbox.a) succeeded? *)

Definition base_ok (id : nat) : bool := Nat.ltb id 100.   (* module-level functions; >= 100 are lambdas *)

(* Toolbox.__init__ registers clone (deepcopy = function 0) and map (function 1) *)
Definition tb_init : toolbox := register (register [] 0 (FBase 0) [] []) 1 (FBase 1) [] [].

Fixpoint run_tb (t : toolbox) (ops : list tbop) : bool :=
  match ops with
  | [] => true
  | o :: r =>
      match o with
      | TReg a f args kw =>
          match (match f with SBase id => Some (FBase id) | SAlias b => tb_get t b end) with
          | Some g => run_tb (register t a g args kw) r
          | None => false
          end
      | TUnreg a => match unregister t a with Some t' => run_tb t' r | None => false end
      | TDec a ds => match decorate t a ds with Some t' => run_tb t' r | None => false end
      | THas a obs => Bool.eqb (match tb_get t a with Some _ => true | None => false end) obs && run_tb t r
      | TCall a args kw obs =>
          match tb_get t a with
          | Some f => res_eqb (call f args kw) obs && run_tb t r
          | None => false
          end
      | TPickle a obs_ok =>
          match tb_get t a with
          | Some f => Bool.eqb (picklable base_ok f) obs_ok && run_tb t r
          | None => false
          end
      end
  end.

(* ---- the vocabulary of the theorems, evaluated on real graphs ---- *)
Fixpoint tree_eqb (a b : tree) : bool :=
  match a, b with
  | TAtom x, TAtom y => Z.eqb x y
  | TBType x, TBType y => Nat.eqb x y
  | TLoc x, TLoc y => Nat.eqb x y
  | TCut, TCut => true
  | TDangling, TDangling => true
  | TNode k c its ats, TNode k' c' its' ats' =>
      kind_eqb k k' && tree_eqb c c' &&
      (fix go (l l' : list tree) : bool :=
         match l, l' with
         | [], [] => true
         | x :: r, y :: r' => tree_eqb x y && go r r'
         | _, _ => false
         end) its its' &&
      (fix go (l l' : list (nat * tree)) : bool :=
         match l, l' with
         | [], [] => true
         | (n, x) :: r, (m, y) :: r' => Nat.eqb n m && tree_eqb x y && go r r'
         | _, _ => false
         end) ats ats'
  | _, _ => false
  end.

Definition TA (z : Z) : tree := TAtom z.
Definition TB (b : nat) : tree := TBType b.
Definition TL (l : nat) : tree := TLoc l.
Definition kind_of_nat (k : nat) : kind :=
  match k with
  | 0 => KClass | 1 => KList | 2 => KArray | 3 => KNdarray | 4 => KSet | 5 => KDict | 6 => KTree
  | 7 => KFit | 8 => KCFit | 9 => KPyList | 10 => KPyDict | 11 => KPySet | _ => KBuf
  end.
Definition TN (k : nat) (c : tree) (its : list tree) (ats : list (nat * tree)) : tree :=
  TNode (kind_of_nat k) c its ats.
Definition TP (n : nat) (t : tree) : nat * tree := (n, t).

Inductive case :=
| CUnfold (h : heap) (v : value) (k : nat) (stop_class : bool) (obs : tree)
     (* obs: what the harness read from the real object down to depth k (classes not entered / entered) *)
| CRun (wf : bool) (h0 : heap) (roots : list value) (steps : list (op * option dsc))
| CFresh (h : heap) (root : value) (obs : option desc)   (* description made by a fresh interpreter after
                                                          unpickling; None: it is exactly (h, [root]) *)
| CTool (ops : list tbop).

Definition check (c : case) : bool :=
  match c with
  | CUnfold h v k sc obs => tree_eqb (unfold (if sc then is_class else no_stop) k h v) obs
  | CRun wf h0 roots steps =>
      (* the hypotheses of the theorems hold of the real graph (wf = false only when the harness stored an
         attribute on a fitness object); the initial description is canonical: describing it again changes
         nothing *)
      match describe (h0, roots) with
      | Some (d, _) => Bool.eqb (deep_okb h0) wf && closedb h0 && forallb (insideb h0) roots &&
                       desc_eqb d (h0, roots) && run_steps (h0, roots) (h0, roots) steps
      | None => false
      end
  | CFresh h root obs =>
      match pickle_fresh h root with
      | Some (h', v') =>
          match describe (h', [v']) with
          | Some (d, _) => desc_eqb d (match obs with Some o => o | None => (h, [root]) end)
          | None => false
          end
      | None => false
      end
  | CTool ops => run_tb tb_init ops
  end.

(* short constructors for the generated case files (ambient scope there is Z_scope) *)
Definition A (z : Z) : value := Atom z.
Definition R (l : nat) : value := Ref l.
Definition B (b : nat) : value := BType b.
Definition P (n : nat) (v : value) : nat * value := (n, v).
Definition K (n : nat) (z : Z) : nat * Z := (n, z).
Definition O (k : nat) (c : value) (items : list value) (attrs : list (nat * value)) : obj :=
  mkobj (match k with
         | 0 => KClass | 1 => KList | 2 => KArray | 3 => KNdarray | 4 => KSet | 5 => KDict | 6 => KTree
         | 7 => KFit | 8 => KCFit | 9 => KPyList | 10 => KPyDict | 11 => KPySet | _ => KBuf
         end) c items attrs.
Definition D (h : heap) (vs : list value) : desc := (h, vs).
Definition S_ (o : op) (d : desc) : op * option dsc := (o, Some (DFull d)).
Definition S0 (o : op) : op * option dsc := (o, None).
Definition Sd (o : op) (n : nat) (ch : list (nat * obj)) (app : list obj) (roots : list value) : op * option dsc :=
  (o, Some (DDelta n ch app roots)).
Definition C (k : nat) (o : obj) : nat * obj := (k, o).
