(* Correspondence runner for C14: the generic model of Model/C14_exec.v instantiated with
   primitive floats (IEEE-754 binary64, as CPython/numpy), evaluated on the implementation's own
   pre-update state, recorded numpy.random draws, recorded fitnesses and oracle values
   (numpy.linalg.inv results, hypervolume-indicator indices), and compared with what the
   implementation produced, within the N3 tolerance (DESIGN 2.4).  Oracle contracts are checked
   here too (inv . A' = I; the indicator's index is a least hypervolume contributor). *)
From Coq Require Import List ZArith Bool PrimFloat Uint63.
From DV Require Export Base.Corr Model.C14_exec.
From DV Require Model.C14_LogSelect.        (* qualified use only: C04's models share names with C14_exec *)
Import ListNotations.
Local Open Scope float_scope.

(* ---- float operations ------------------------------------------------------------------ *)
Definition f_ofZ (z : Z) : float :=
  if (z <? 0)%Z then - of_uint63 (Uint63.of_Z (- z)) else of_uint63 (Uint63.of_Z z).

(* exp by scaling and squaring on expm1: p = e^(x/1024) - 1 by a degree-12 Taylor polynomial
   (Horner), then ten times p := p (2 + p).  Accurate to a few 1e-15 relative for |x| <= 8;
   used only inside tolerance comparisons. *)
Definition expm1_small (y : float) : float :=
  let h n acc := 1 + y / n * acc in
  let t := h 2 (h 3 (h 4 (h 5 (h 6 (h 7 (h 8 (h 9 (h 10 (h 11 (h 12 1)))))))))) in
  y * t.
Fixpoint sq_up (n : nat) (p : float) : float :=
  match n with O => p | S n' => sq_up n' (p * (2 + p)) end.
Definition fexp (x : float) : float := 1 + sq_up 10 (expm1_small (x / 1024)).

(* numpy.around: round half to even, via the 2^52 trick (exact for |x| < 2^51) *)
Definition two52 : float := 4503599627370496.
Definition fround (x : float) : float :=
  if abs x <? two52 then
    if x <? 0 then - ((- x + two52) - two52) else (x + two52) - two52
  else x.

Definition FOps : Ops float :=
  mkOps float PrimFloat.add PrimFloat.sub PrimFloat.mul PrimFloat.div PrimFloat.sqrt fexp PrimFloat.abs PrimFloat.ltb PrimFloat.leb f_ofZ fround.

(* ---- float-specialised constructors for the generated case files ------------------------ *)
Definition fvec := list float.
Definition fmat := list (list float).
Definition PP := @mkPP float.
Definition PS := @mkPS float.
Definition FIT := @mkFit float.
Definition AI := @mkAI float.
Definition AP := @mkAP float.
Definition AS := @mkAS float.
Definition MP := @mkMP float.
Definition MS := @mkMS float.
Definition MI := @mkMI float.

(* ---- comparisons ------------------------------------------------------------------------ *)
Definition atol : float := 0x1.19799812dea11p-40.     (* 1e-12 *)
Definition feq (a b : float) : bool := PrimFloat.eqb a b.       (* exact (no NaN expected; -0 = +0) *)
Definition close (tol a b : float) : bool := abs (a - b) <=? tol.
Definition vmaxabs (v : fvec) : float := maxabs FOps v.
Definition mmaxabs (m : fmat) : float := fold_left (fun acc r => let x := vmaxabs r in if acc <? x then x else acc) m 0.
Definition sclose (rtol a b : float) : bool := close (atol + rtol * abs b) a b.
Definition vclose (rtol : float) (u v : fvec) : bool :=
  let tol := atol + rtol * vmaxabs v in list_eqb (close tol) u v.
Definition mclose (rtol : float) (a b : fmat) : bool :=
  let tol := atol + rtol * mmaxabs b in list_eqb (list_eqb (close tol)) a b.
Definition veq := list_eqb feq.
Definition nat_list_eqb := list_eqb Nat.eqb.
Definition bl_eqb := list_eqb Bool.eqb.

Definition fit_eqb (a b : fitness (T:=float)) : bool :=
  veq (f_wv a) (f_wv b) && option_eqb bl_eqb (f_cv a) (f_cv b).

(* ---- (1+lambda) -------------------------------------------------------------------------- *)
Definition pparams_close (a b : pparams (T:=float)) : bool :=
  Nat.eqb (pp_lambda a) (pp_lambda b) &&
  list_eqb (sclose 0x1p-46) [pp_d a; pp_ptarg a; pp_cp a; pp_cc a; pp_ccov a; pp_pthresh a]
                            [pp_d b; pp_ptarg b; pp_cp b; pp_cc b; pp_ccov b; pp_pthresh b].

Definition pstate_close (rtol : float) (a b : pstate (T:=float)) : bool :=
  veq (ps_parent a) (ps_parent b) && veq (ps_pfit a) (ps_pfit b) &&
  sclose rtol (ps_sigma a) (ps_sigma b) && sclose 0x1p-40 (ps_psucc a) (ps_psucc b) &&
  vclose rtol (ps_pc a) (ps_pc b) && mclose rtol (ps_C a) (ps_C b) && mclose rtol (ps_A a) (ps_A b).

Definition pind_eqb (a b : pind (T:=float)) : bool := veq (fst a) (fst b) && veq (snd a) (snd b).

(* contract of a Cholesky factor: lower triangular, positive diagonal, A A^T = C *)
Fixpoint lower_from (i : nat) (A : fmat) : bool :=
  match A with
  | [] => true
  | r :: A' => forallb (fun x => feq x 0) (skipn (S i) r) && (0 <? nth i r 0) && lower_from (S i) A'
  end.
Definition chol_contract (rtol : float) (A C : fmat) : bool :=
  lower_from 0 A && mclose rtol (mm FOps A (transpose A)) C.

(* ---- active ------------------------------------------------------------------------------ *)
Definition aparams_close (a b : aparams (T:=float)) : bool :=
  Nat.eqb (ap_lambda a) (ap_lambda b) &&
  list_eqb (sclose 0x1p-46)
    [ap_d a; ap_ptarg a; ap_cp a; ap_cc a; ap_ccovp a; ap_ccovn a; ap_cconst a; ap_beta a; ap_pthresh a]
    [ap_d b; ap_ptarg b; ap_cp b; ap_cc b; ap_ccovp b; ap_ccovn b; ap_cconst b; ap_beta b; ap_pthresh b] &&
  veq (ap_S_int a) (ap_S_int b).

Definition astate_close (rtol : float) (a b : astate (T:=float)) : bool :=
  veq (as_parent a) (as_parent b) && option_eqb fit_eqb (as_pfit a) (as_pfit b) &&
  sclose rtol (as_sigma a) (as_sigma b) && sclose 0x1p-40 (as_psucc a) (as_psucc b) &&
  vclose rtol (as_pc a) (as_pc b) && mclose rtol (as_A a) (as_A b) && mclose rtol (as_invA a) (as_invA b) &&
  option_eqb (mclose rtol) (as_cvecs a) (as_cvecs b) && list_eqb fit_eqb (as_anc a) (as_anc b) &&
  nat_list_eqb (as_iIR a) (as_iIR b).

(* numpy.linalg.inv contract: inv . A' = I for every constraint update that was accepted *)
Fixpoint inv_contracts (rtol : float) (dim : nat) (aps invs : list (option fmat)) : bool :=
  match aps, invs with
  | [], [] => true
  | ap :: aps', inv :: invs' =>
      (match ap, inv with
       | Some A', Some iA => mclose rtol (mm FOps iA A') (identity FOps dim)
       | _, _ => true
       end) && inv_contracts rtol dim aps' invs'
  | _, _ => false
  end.

Definition xyz_close (rtol : float) (a b : fvec * fvec * fvec) : bool :=
  let '(x, y, z) := a in let '(x', y', z') := b in
  vclose rtol x x' && vclose rtol y y' && veq z z'.

(* ---- MO ----------------------------------------------------------------------------------- *)
Definition mparams_close (a b : mparams (T:=float)) : bool :=
  Nat.eqb (mp_mu a) (mp_mu b) && Nat.eqb (mp_lambda a) (mp_lambda b) &&
  list_eqb (sclose 0x1p-46) [mp_d a; mp_ptarg a; mp_cp a; mp_cc a; mp_ccov a; mp_pthresh a]
                            [mp_d b; mp_ptarg b; mp_cp b; mp_cc b; mp_ccov b; mp_pthresh b].

Definition mstate_close (rtol : float) (a b : mstate (T:=float)) : bool :=
  list_eqb veq (ms_parents a) (ms_parents b) && list_eqb veq (ms_pfits a) (ms_pfits b) &&
  list_eqb (sclose rtol) (ms_sigmas a) (ms_sigmas b) &&
  list_eqb (mclose rtol) (ms_A a) (ms_A b) && list_eqb (mclose rtol) (ms_invC a) (ms_invC b) &&
  list_eqb (vclose rtol) (ms_pc a) (ms_pc b) && list_eqb (sclose 0x1p-40) (ms_psucc a) (ms_psucc b).

(* two-objective hypervolume (minimisation of -wvalues, reference point ref): sweep in
   increasing first coordinate *)
Definition pt := (float * float)%type.
Definition hv2d (pts : list pt) (r1 r2 : float) : float :=
  let sorted := rev (sort_desc (fun a b : pt => fst a <? fst b) pts) in
  fst (fold_left (fun (st : float * float) (p : pt) =>
                    let '(area, best) := st in
                    if snd p <? best then (area + (r1 - fst p) * (best - snd p), snd p) else st)
                 sorted (0, r2)).
Definition to_pt (wv : fvec) : pt := (- nth 0 wv 0, - nth 1 wv 0).

(* indicator contract: idx maximises the hypervolume of the front without it (tolerance) *)
Definition hv_contract (wvs : list fvec) (ref : fvec) (front : list nat) (idx : nat) : bool :=
  let pts := map (fun i => to_pt (nth i wvs [])) front in
  let r1 := nth 0 ref 0 in let r2 := nth 1 ref 0 in
  let vals := map (fun i => hv2d (remove_nth pts i) r1 r2) (seq 0 (length pts)) in
  let best := fold_left (fun m x => if m <? x then x else m) vals 0 in
  Nat.ltb idx (length pts) && (best - 0x1p-36 * abs best - atol <=? nth idx vals 0).

Fixpoint hv_contracts (wvs : list fvec) (ref : fvec) (seen : list (list nat)) (hv : list nat) : bool :=
  match seen, hv with
  | [], _ => true
  | f :: seen', i :: hv' => hv_contract wvs ref f i && hv_contracts wvs ref seen' hv'
  | _ :: _, [] => false
  end.

Definition gen_close (rtol : float) (a b : fvec * nat) : bool := vclose rtol (fst a) (fst b) && Nat.eqb (snd a) (snd b).

(* ---- cases --------------------------------------------------------------------------------- *)
Inductive case :=
| CPlainParams (dim lambda : nat) (obs : pparams (T:=float))
| CPlainInit (dim : nat) (P : pparams (T:=float)) (parent pfit : fvec) (sigma : float) (obs : pstate (T:=float))
| CPlainGen (st : pstate (T:=float)) (arz : list fvec) (rtol : float) (obs : list fvec)
| CPlainUpd (P : pparams (T:=float)) (st : pstate (T:=float)) (pop : list (fvec * fvec)) (rtol : float)
            (obs : pstate (T:=float)) (obs_pop : list (fvec * fvec))
| CActParams (dim lambda : nat) (ccovn : float) (S_int : fvec) (obs : aparams (T:=float))
| CActInit (dim : nat) (P : aparams (T:=float)) (parent : fvec) (pfit : option (fitness (T:=float))) (sigma : float)
           (obs : astate (T:=float))
| CActGen (dim : nat) (P : aparams (T:=float)) (st : astate (T:=float)) (z : list fvec) (us gs : fvec) (pm : list (list Z))
          (rtol : float) (obs : list (fvec * fvec * fvec))
| CActUpd (dim : nat) (P : aparams (T:=float)) (st : astate (T:=float)) (pop : list (aind (T:=float)))
          (invs : list (option fmat)) (rtol : float) (obs : astate (T:=float))
| CMoParams (dim mu lambda : nat) (obs : mparams (T:=float))
| CMoInit (dim : nat) (P : mparams (T:=float)) (population : list (fvec * fvec)) (sigma : float) (obs : mstate (T:=float))
| CMoGen (P : mparams (T:=float)) (st : mstate (T:=float)) (arz : list fvec) (js : list nat) (rtol : float)
         (obs : list (fvec * nat))
| CMoUpd (P : mparams (T:=float)) (st : mstate (T:=float)) (pop : list (mind (T:=float))) (hv : list nat) (rtol : float)
         (obs : mstate (T:=float)) (obs_chosen obs_not_chosen : list nat)
(* _select with C04's model of sortLogNondominated (Model/C14_LogSelect.v) on the per-objective
   ranks of the candidates' weighted values (an order isomorphism onto integers) *)
| CMoSelLog (mu : nat) (ranks : list (list Z)) (hv : list nat) (obs_chosen obs_not_chosen : list nat).

Definition check (c : case) : bool :=
  match c with
  | CPlainParams dim lambda obs => pparams_close (plain_defaults FOps dim lambda) obs
  | CPlainInit dim P parent pfit sigma obs => pstate_close 0 (plain_init FOps dim P parent pfit sigma) obs
  | CPlainGen st arz rtol obs => list_eqb (vclose rtol) (plain_generate FOps st arz) obs
  | CPlainUpd P st pop rtol obs obs_pop =>
      match plain_update FOps P st pop with
      | None => false
      | Some (st', sorted) =>
          pstate_close rtol st' obs && list_eqb pind_eqb sorted obs_pop &&
          chol_contract rtol (ps_A obs) (ps_C obs)
      end
  | CActParams dim lambda ccovn S_int obs => aparams_close (active_defaults FOps dim lambda ccovn S_int) obs
  | CActInit dim P parent pfit sigma obs => astate_close 0 (active_init FOps dim P parent pfit sigma) obs
  | CActGen dim P st z us gs pm rtol obs =>
      match integer_mutation FOps dim (ap_lambda P) (as_iIR st) us gs pm with
      | None => false
      | Some R_int => list_eqb (xyz_close rtol) (active_generate FOps P st z R_int) obs
      end
  | CActUpd dim P st pop invs rtol obs =>
      let '(st', aps) := active_update FOps dim P st pop invs in
      astate_close rtol st' obs && inv_contracts rtol dim aps invs
  | CMoParams dim mu lambda obs => mparams_close (mo_defaults FOps dim mu lambda) obs
  | CMoInit dim P population sigma obs => mstate_close 0 (mo_init FOps dim P population sigma) obs
  | CMoGen P st arz js rtol obs => list_eqb (gen_close rtol) (mo_generate FOps P st arz js) obs
  | CMoUpd P st pop hv rtol obs obs_chosen obs_not_chosen =>
      let '(st', chosen, not_chosen, seen) := mo_update FOps P st pop hv in
      let wvs := map (@mi_wv float) pop ++ ms_pfits st in
      mstate_close rtol st' obs && nat_list_eqb chosen obs_chosen && nat_list_eqb not_chosen obs_not_chosen &&
      Nat.eqb (length seen) (length hv) &&
      hv_contracts wvs (ref_point FOps wvs) seen hv
  | CMoSelLog mu ranks hv obs_chosen obs_not_chosen =>
      match DV.Model.C14_LogSelect.mo_select_log mu ranks hv with
      | Some (chosen, not_chosen, seen) =>
          nat_list_eqb chosen obs_chosen && nat_list_eqb not_chosen obs_not_chosen && Nat.eqb (length seen) (length hv)
      | None => false
      end
  end.
