(* Correspondence runner for C11: the harness writes the primitive-set tables of the real pset,
   the input trees, the recorded random draws and what deap.gp returned; `check` recomputes the
   result with the model and compares node by node.
   Encoding: a universe U = list of all nodes of a pset (index = node id); a tree literal is a
   list of (id, ephemeral value) pairs. *)
From Coq Require Import List ZArith NArith Bool.
From DV Require Export Base.Corr Model.C11_GPTree Model.C11_PSet Model.C11_Spec.
Import ListNotations.
Local Open Scope Z_scope.

Definition dummy : node := mknode 999999%N [] 999999%N false 0.
Definition lit := list (Z * Z).
Definition mk1 (U : list node) (p : Z * Z) : node := set_val (nth (Z.to_nat (fst p)) U dummy) (snd p).
Definition mk (U : list node) (l : lit) : list node := map (mk1 U) l.
Definition mktbl (U : list node) (t : list (Z * list Z)) : list (ty * list node) :=
  map (fun p => (Z.to_N (fst p), map (fun i => nth (Z.to_nat i) U dummy) (snd p))) t.
Definition mkps (U : list node) (pr te : list (Z * list Z)) (r : Z) (rn : Z) (rd : positive) : pset :=
  mkpset (mktbl U pr) (mktbl U te) (Z.to_N r) rn rd.
(* node literal: name, argument types, return type, is-ephemeral *)
Definition nd (name : Z) (args : list Z) (r : Z) (e : bool) : node :=
  mknode (Z.to_N name) (map Z.to_N args) (Z.to_N r) e 0.
Definition oty (t : option Z) : option ty := option_map Z.to_N t.
Definition DE (name v : Z) : draw := DEph (Z.to_N name) v.

(* observed behaviour of the implementation *)
Inductive outcome (A : Type) := OOk (a : A) | OIndexError | OValueError.
Arguments OOk {A} a.
Arguments OIndexError {A}.
Arguments OValueError {A}.

Definition nodes_eqb := list_eqb node_eqb.
Definition trees_eqb := list_eqb nodes_eqb.

(* model result (all draws must be consumed) against the observation *)
Definition agree {A B} (eqb : A -> B -> bool) (r : res (A * list draw)) (o : outcome B) : bool :=
  match r, o with
  | Ok (a, []), OOk b => eqb a b
  | Err EEmpty, OIndexError => true
  | Err EIndex, OIndexError => true
  | Err EValue, OValueError => true
  | _, _ => false
  end.
Definition agree0 {A B} (eqb : A -> B -> bool) (r : res A) (o : outcome B) : bool :=
  match r, o with
  | Ok a, OOk b => eqb a b
  | Err EIndex, OIndexError => true
  | Err EValue, OValueError => true
  | _, _ => false
  end.

Definition span_eqb (a b : nat * nat) := Nat.eqb (fst a) (fst b) && Nat.eqb (snd a) (snd b).

Inductive cpop := CAdd (b : bool) (id : Z) | CTouchP (t : Z) | CTouchT (t : Z).

Inductive case :=
| CSearch (U : list node) (l : lit) (b : Z) (obs : outcome (nat * nat))
| CHeight (U : list node) (l : lit) (obs : outcome Z)
| CSetSlice (U : list node) (l : lit) (b e : nat) (v : lit) (obs : outcome lit)
| CSetItem (U : list node) (l : lit) (i : Z) (v : Z * Z) (obs : outcome lit)
| CUnch (U : list node) (before after : lit)
| CGen (U : list node) (ps : pset) (g : gexpr) (t : option Z) (ds : list draw) (obs : outcome lit)
| COp (U : list node) (ps : pset) (oc : opcall) (inputs : list lit) (ds : list draw) (obs : outcome (list lit))
| CLim (U : list node) (ps : pset) (k : lkey) (maxv : Z) (oc : opcall) (inputs : list lit)
       (ds : list draw) (obs : outcome (list lit))
| CWt (U : list node) (pairs : list (Z * Z)) (e : Z) (l : lit) (obs_complete obs_typed : bool)
| CPsetSeq (U : list node) (pairs : list (Z * Z)) (ops : list cpop)
           (oprims oterms : list (Z * list Z)) (tc pc : Z)
| CPset (U : list node) (pairs : list (Z * Z)) (ops : list (bool * Z))
        (oprims oterms : list (Z * list Z)) (tc pc : Z).

(* issubclass as the list of all (a, b) with a a subclass of b *)
Definition sub_of (pairs : list (Z * Z)) (a b : ty) : bool :=
  existsb (fun p => N.eqb (Z.to_N (fst p)) a && N.eqb (Z.to_N (snd p)) b) pairs.
Definition tbl_eqb (a b : list (ty * list node)) : bool :=
  list_eqb (fun x y => N.eqb (fst x) (fst y) && nodes_eqb (snd x) (snd y)) a b.
Definition pset_case (U : list node) (pairs : list (Z * Z)) (ops : list (bool * Z))
           (oprims oterms : list (Z * list Z)) (tc pc : Z) : bool :=
  let s := build (sub_of pairs) (map (fun o => (fst o, nth (Z.to_nat (snd o)) U dummy)) ops) in
  tbl_eqb (s_prims s) (mktbl U oprims) && tbl_eqb (s_terms s) (mktbl U oterms) &&
  Z.eqb (s_tc s) tc && Z.eqb (s_pc s) pc.

Definition pset_seq_case (U : list node) (pairs : list (Z * Z)) (ops : list cpop)
           (oprims oterms : list (Z * list Z)) (tc pc : Z) : bool :=
  let s := run_pops (sub_of pairs)
             (map (fun o => match o with
                            | CAdd b i => PAdd b (nth (Z.to_nat i) U dummy)
                            | CTouchP t => PTouchP (Z.to_N t)
                            | CTouchT t => PTouchT (Z.to_N t)
                            end) ops) in
  tbl_eqb (s_prims s) (mktbl U oprims) && tbl_eqb (s_terms s) (mktbl U oterms) &&
  Z.eqb (s_tc s) tc && Z.eqb (s_pc s) pc.

(* the functions a case is replayed with: the hand model, or the definitions regenerated from the source
   (coq/Gen/C11_gen.v instantiates this record, see harness/c11_gen_trailer.v.in) *)
Record impl := mkimpl {
  i_search : list node -> Z -> res (nat * nat);
  i_height : list node -> res Z;
  i_set_slice : list node -> nat -> nat -> list node -> res (list node);
  i_set_item : list node -> Z -> node -> res (list node);
  i_gen : pset -> gexpr -> option ty -> M (list node);
  i_op : pset -> opcall -> list (list node) -> M (list (list node));
  i_lim : pset -> lkey -> Z -> opcall -> list (list node) -> M (list (list node))
}.
Definition model_impl : impl :=
  mkimpl search_subtree_py height set_slice set_item_py gen_expr run_op
         (fun ps k maxv oc inputs => static_limit k maxv (run_op ps oc) inputs).

Definition check_with (I : impl) (c : case) : bool :=
  match c with
  | CSearch U l b obs => agree0 span_eqb (i_search I (mk U l) b) obs
  | CHeight U l obs => agree0 Z.eqb (i_height I (mk U l)) obs
  | CSetSlice U l b e v obs =>
      agree0 (fun a o => nodes_eqb a (mk U o)) (i_set_slice I (mk U l) b e (mk U v)) obs
  | CSetItem U l i v obs =>
      agree0 (fun a o => nodes_eqb a (mk U o)) (i_set_item I (mk U l) i (mk1 U v)) obs
  (* a tree object that was not an argument of the call is unchanged *)
  | CUnch U a b => nodes_eqb (mk U a) (mk U b)
  | CGen U ps g t ds obs =>
      agree (fun a o => nodes_eqb a (mk U o)) (i_gen I ps g (oty t) ds) obs
  | COp U ps oc inputs ds obs =>
      agree (fun a o => trees_eqb a (map (mk U) o)) (i_op I ps oc (map (mk U) inputs) ds) obs
  | CLim U ps k maxv oc inputs ds obs =>
      agree (fun a o => trees_eqb a (map (mk U) o))
            (i_lim I ps k maxv oc (map (mk U) inputs) ds) obs
  (* the predicates of the theorems (complete / well typed at e), evaluated on a concrete list,
     against the harness's independent checker *)
  | CWt U pairs e l oc ot =>
      Bool.eqb (complete (mk U l)) oc && Bool.eqb (wt_list (sub_of pairs) (Z.to_N e) (mk U l)) ot
  | CPsetSeq U pairs ops oprims oterms tc pc => pset_seq_case U pairs ops oprims oterms tc pc
  | CPset U pairs ops oprims oterms tc pc => pset_case U pairs ops oprims oterms tc pc
  end.

Definition check (c : case) : bool := check_with model_impl c.
