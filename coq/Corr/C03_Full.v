(* Correspondence runner for the COMPOSED model of C03 (Model/C03_Full.v: eaSimple / eaMuPlusLambda /
   eaMuCommaLambda calling C02's var_and / var_or).

   Where Corr/C03.v takes the objects returned by varAnd / varOr from the implementation, here the
   model computes them itself.  The harness records, for one real run of a loop:
     - the initial individuals (uid = position of first appearance in the caller's list),
     - the draws made through the name `random` of deap.algorithms, in order
       (random() values bit exact; sample / choice by positions),
     - the operator script: for the k-th call of toolbox.mate / toolbox.mutate (one counter for
       both, across the generations) the contents of the argument objects before and after the call
       and, per returned object, "first argument" / "second argument" / "new object with content",
     - the positions answered by toolbox.select in each generation (with its argument and count),
     - everything observable (evaluate call log, logbook records with the Statistics snapshot and the
       hall of fame's best, batches passed to the hall of fame, final list, in-place flag), or the
       exception that left the loop.
   uids: the harness numbers every object at the moment the model allocates it (clone wrapper;
   new objects returned by an operator in the order first result, second result), so uids of the
   implementation and of the model coincide without renaming.
   Numbers (cxpb, mutpb, draws) are binary64 floats compared and added bit-exactly. *)
From Coq Require Import List ZArith Bool Arith PrimFloat.
From DV Require Export Base.Corr Base.PyTuple Base.PyList Model.C03_Loops Model.C03_Full Corr.C03.
Import ListNotations.
Local Open Scope nat_scope.

Definition obj := (G * option F)%type.
Definition fst8 := @fstate G F float.

(* short constructors for the generated terms *)
Definition dR (u : float) : V.draw float := V.DRandom u.
Definition dS (n i j : nat) : V.draw float := V.DSample n i j.
Definition dC (n i : nat) : V.draw float := V.DChoice n i.
Definition rA1 : V.ret G F := V.RArg1.
Definition rA2 : V.ret G F := V.RArg2.
Definition rN (c : obj) : V.ret G F := V.RNew c.
Definition uA : V.ret1 G F := V.UArg.
Definition uN (c : obj) : V.ret1 G F := V.UNew c.

(* one recorded operator call *)
Inductive opent :=
| OMate (in1 in2 : obj) (out1 out2 : obj) (r1 r2 : V.ret G F)
| OMut (in1 : obj) (out1 : obj) (r : V.ret1 G F).

Definition obj_eqb (a b : obj) : bool := zl_eqb (fst a) (fst b) && ofit_eqb (snd a) (snd b).

(* an answer no recorded run contains: makes a call the script does not foresee visible *)
Definition poison : obj := ([(-999)%Z], Some [(-999)%Z]).

(* the operators as oracles of the global call number: the recorded answer, provided the model calls the
   same operator on arguments with the recorded contents *)
Definition mate_of (script : list opent) (k : nat) (x y : obj) : V.mate_ans G F :=
  match nth_error script k with
  | Some (OMate i1 i2 o1 o2 r1 r2) =>
      if obj_eqb x i1 && obj_eqb y i2 then V.mkmate o1 o2 r1 r2
      else V.mkmate poison poison (V.RNew poison) (V.RNew poison)
  | _ => V.mkmate poison poison (V.RNew poison) (V.RNew poison)
  end.
Definition mut_of (script : list opent) (k : nat) (x : obj) : V.mut_ans G F :=
  match nth_error script k with
  | Some (OMut i1 o1 r) => if obj_eqb x i1 then V.mkmut o1 r else V.mkmut poison (V.UNew poison)
  | _ => V.mkmut poison (V.UNew poison)
  end.

(* initial heap: individual u owns Fitness object u *)
Definition heap_of (objs : list obj) : V.heap G F :=
  V.mkheap (fun u => V.mkind (match nth_error objs u with Some o => fst o | None => [] end) u)
           (fun v => match nth_error objs v with Some o => snd o | None => None end)
           (length objs) (length objs).

Inductive fkind := FSimple | FPlus | FComma.

Record obs_sel := mkos {
  os_arg : list uid;     (* argument list of toolbox.select *)
  os_k : nat;            (* requested count *)
  os_idx : list nat }.   (* positions of the returned objects in the argument *)

Inductive oexn := XAssertion | XValue | XIndex.

Inductive case :=
| CFull (k : fkind) (ngen : nat) (p : evp) (w : list Z) (mu : nat) (lambda_ : Z) (cxpb mutpb : float)
        (objs : list obj) (pop : list uid) (draws : list (V.draw float)) (script : list opent)
        (sels : list obs_sel)
        (o_calls : list (list (uid * G))) (o_log : list crec) (o_shown : list (list uid))
        (o_final : list uid) (o_inplace : bool)
| CFullRaise (k : fkind) (p : evp) (w : list Z) (mu : nat) (lambda_ : Z) (cxpb mutpb : float)
        (objs : list obj) (pop : list uid) (draws : list (V.draw float)) (script : list opent)
        (sels : list obs_sel) (o_exn : oexn).

Definition fstep_kind (p : evp) (w : list Z) (script : list opent) (k : fkind) (lambda_ : Z) (cxpb mutpb : float)
  : nat -> fst8 -> list nat -> @fres G F float :=
  match k with
  | FSimple => fstep_simple (ev_fun p) (wfle w) PrimFloat.ltb (mate_of script) (mut_of script) cxpb mutpb
  | FPlus => fstep_plus (ev_fun p) (wfle w) PrimFloat.ltb PrimFloat.leb PrimFloat.add 1%float
                        (mate_of script) (mut_of script) lambda_ cxpb mutpb
  | FComma => fstep_comma (ev_fun p) (wfle w) PrimFloat.ltb PrimFloat.leb PrimFloat.add 1%float
                          (mate_of script) (mut_of script) lambda_ cxpb mutpb
  end.

Definition full_kind (p : evp) (w : list Z) (script : list opent) (k : fkind) (mu : nat) (lambda_ : Z)
           (cxpb mutpb : float) (h : V.heap G F) (d : list (V.draw float)) (pop : list uid)
           (sels : list (list nat)) : @fres G F float :=
  match k with
  | FSimple => full_simple (ev_fun p) (wfle w) PrimFloat.ltb (mate_of script) (mut_of script) cxpb mutpb h d pop sels
  | FPlus => full_plus (ev_fun p) (wfle w) PrimFloat.ltb PrimFloat.leb PrimFloat.add 1%float
                       (mate_of script) (mut_of script) lambda_ cxpb mutpb h d pop sels
  | FComma => full_comma (ev_fun p) (wfle w) PrimFloat.ltb PrimFloat.leb PrimFloat.add 1%float
                         (mate_of script) (mut_of script) mu lambda_ cxpb mutpb h d pop sels
  end.

(* the hypotheses of the theorems of Props/C03_full.v in boolean form *)
Definition finit_ok_b (p : evp) (objs : list obj) (pop : list uid) : bool :=
  forallb (fun u => u <? length objs) pop &&
  forallb (fun u => match nth_error objs u with
                    | Some (g, Some f) => zl_eqb f (ev_fun p g)
                    | Some (_, None) => true
                    | None => false
                    end) pop.

Definition sel_in_b (n k : nat) (sel : list nat) : bool :=
  Nat.eqb (length sel) k && forallb (fun i => i <? n) sel.

(* the static selection contract of the theorems (sel_in / sels_plus) *)
Definition sels_ok_b (k : fkind) (n mu lam : nat) (sels : list (list nat)) : bool :=
  match k with
  | FSimple => forallb (sel_in_b n n) sels
  | FPlus => match sels with
             | [] => true
             | s1 :: r => sel_in_b (n + lam) mu s1 && forallb (sel_in_b (mu + lam) mu) r
             end
  | FComma => forallb (sel_in_b lam mu) sels
  end.

(* C02's hypothesis for varAnd: no recorded mate call returned one object in both positions *)
Definition ret_distinct_b (r1 r2 : V.ret G F) : bool :=
  match r1, r2 with V.RArg1, V.RArg1 => false | V.RArg2, V.RArg2 => false | _, _ => true end.
Definition script_ok_b (script : list opent) : bool :=
  forallb (fun e => match e with OMate _ _ _ _ r1 r2 => ret_distinct_b r1 r2 | OMut _ _ _ => true end) script.

(* generation by generation, so that the list toolbox.select was called with can be compared *)
Fixpoint fcheck_gens (step : nat -> fst8 -> list nat -> @fres G F float) (k : fkind) (mu : nat)
         (gen : nat) (s : fst8) (sels : list obs_sel) : option fst8 :=
  match sels with
  | [] => Some s
  | o :: r =>
      match step gen s (os_idx o) with
      | FOk s' =>
          let off := last (f_shown s') [] in
          let arg := match k with
                     | FSimple => f_pop s
                     | FPlus => f_pop s ++ off
                     | FComma => off
                     end in
          let kk := match k with FSimple => length (f_pop s) | _ => mu end in
          if ul_eqb (os_arg o) arg && Nat.eqb (os_k o) kk && sel_in_b (length arg) kk (os_idx o)
          then fcheck_gens step k mu (S gen) s' r else None
      | FRaise _ => None
      end
  end.

Definition exn_matches (e : V.exn) (o : oexn) : bool :=
  match e, o with
  | V.AssertionError, XAssertion | V.ValueError, XValue | V.IndexError, XIndex => true
  | _, _ => false
  end.

Definition fstate_eqb_obs (a b : fst8) : bool :=
  calls_eqb (f_calls a) (f_calls b) && list_eqb rec_eqb (f_log a) (f_log b) &&
  list_eqb ul_eqb (f_shown a) (f_shown b) && ul_eqb (f_pop a) (f_pop b) && Nat.eqb (f_kc a) (f_kc b).

Definition check (c : case) : bool :=
  match c with
  | CFull k ngen p w mu lambda_ cxpb mutpb objs pop draws script sels o_calls o_log o_shown o_final o_inplace =>
      let h0 := heap_of objs in
      let s0 := fgen0 (ev_fun p) (wfle w) (finit h0 draws pop) in
      finit_ok_b p objs pop && script_ok_b script &&
      sels_ok_b k (length pop) mu (Z.to_nat lambda_) (map os_idx sels) &&
      match full_kind p w script k mu lambda_ cxpb mutpb h0 draws pop (map os_idx sels),
            fcheck_gens (fstep_kind p w script k lambda_ cxpb mutpb) k mu 1 s0 sels with
      | FOk e, Some e' =>
          Nat.eqb (length sels) ngen &&
          state_matches (fview e) o_calls o_log o_shown o_final && o_inplace &&
          (* the model consumed exactly the recorded draws and made exactly the recorded operator calls *)
          match f_dr e with [] => true | _ => false end && Nat.eqb (f_kc e) (length script) &&
          fstate_eqb_obs e e'
      | _, _ => false
      end
  | CFullRaise k p w mu lambda_ cxpb mutpb objs pop draws script sels o_exn =>
      let h0 := heap_of objs in
      finit_ok_b p objs pop &&
      match full_kind p w script k mu lambda_ cxpb mutpb h0 draws pop (map os_idx sels) with
      | FRaise e => exn_matches e o_exn
      | FOk _ => false
      end
  end.

(* diagnostic helper for development (not used by the check) *)
Definition why (c : case) : nat :=
  match c with
  | CFull k ngen p w mu lambda_ cxpb mutpb objs pop draws script sels o_calls o_log o_shown o_final o_inplace =>
      let h0 := heap_of objs in
      let s0 := fgen0 (ev_fun p) (wfle w) (finit h0 draws pop) in
      if negb (finit_ok_b p objs pop) then 10 else
      if negb (script_ok_b script) then 11 else
      if negb (sels_ok_b k (length pop) mu (Z.to_nat lambda_) (map os_idx sels)) then 12 else
      match full_kind p w script k mu lambda_ cxpb mutpb h0 draws pop (map os_idx sels) with
      | FOk e =>
          if negb (calls_eqb (f_calls e) o_calls) then 1
          else if negb (list_eqb rec_eqb (f_log e) o_log) then 2
          else if negb (list_eqb ul_eqb (f_shown e) o_shown) then 3
          else if negb (ul_eqb (f_pop e) o_final) then 4
          else if negb o_inplace then 5
          else if negb (match f_dr e with [] => true | _ => false end) then 6
          else if negb (Nat.eqb (f_kc e) (length script)) then 7
          else if negb (Nat.eqb (length sels) ngen) then 8
          else match fcheck_gens (fstep_kind p w script k lambda_ cxpb mutpb) k mu 1 s0 sels with
               | Some _ => 0 | None => 9 end
      | FRaise V.AssertionError => 101
      | FRaise V.ValueError => 102
      | FRaise V.IndexError => 103
      | FRaise V.DrawMismatch => 104
      end
  | _ => 0
  end.
