(* Correspondence runner for C06: the harness writes population, parameters, the recorded draws and
   what the implementation returned (uids of the returned objects, or the exception);
   check re-runs the model on the same draws and compares.  All draws must be consumed. *)
From Coq Require Import List Bool Arith QArith.
From DV Require Export Base.Corr Base.PyList Base.C06_Py Model.C06_Select.
Import ListNotations.

Inductive outcome := OOk (uids : list nat) | ORaise (e : exn).

Inductive case :=
| CRandom (inds : list ind) (k : nat) (ds : list draw) (obs : outcome)
| CBest (inds : list ind) (k : nat) (obs : outcome)
| CWorst (inds : list ind) (k : nat) (obs : outcome)
| CTourn (inds : list ind) (k tournsize : nat) (ds : list draw) (obs : outcome)
| CRoulette (w : list Q) (inds : list ind) (k : nat) (ds : list draw) (obs : outcome)
| CDouble (inds : list ind) (k fitness_size : nat) (psize : Q) (fitness_first : bool)
          (ds : list draw) (obs : outcome)
| CSUS (w : list Q) (inds : list ind) (k : nat) (ds : list draw) (obs : outcome)
| CLex (w : list Q) (inds : list ind) (k : nat) (ds : list draw) (obs : outcome)
| CEps (w : list Q) (inds : list ind) (k : nat) (eps : Q) (ds : list draw) (obs : outcome)
| CAuto (w : list Q) (inds : list ind) (k : nat) (ds : list draw) (obs : outcome)
| CDCD (inds : list ind) (k : nat) (ds : list draw) (obs : outcome).

(* Exceptions occur only on inputs outside the property's quantifier (empty population, tournament
   size 0, parsimony size outside [1,2], DCD with k > n ...).  The runner compares "raised" against
   "raised"; the kind of the exception is recorded in the case but not compared, since the property
   says nothing about it and a refactoring may legitimately change it. *)
Definition agree (r : res (list ind)) (obs : outcome) : bool :=
  match r, obs with
  | Ok out [], OOk u => list_eqb Nat.eqb (map uid out) u
  | Raise _, ORaise _ => true
  | _, _ => false
  end.

(* the runner, parameterised by the eleven operators (all in the monad; selBest / selWorst draw nothing):
   `check` runs the hand model, `check_gen` (defined at the end of the regenerated coq/Gen/C06_gen.v)
   the definitions regenerated from the source text on this run *)
Definition check_with
    (fRandom fBest fWorst : list ind -> nat -> M (list ind))
    (fTourn : list ind -> nat -> nat -> M (list ind))
    (fRoulette fSUS : list Q -> list ind -> nat -> M (list ind))
    (fDouble : list ind -> nat -> nat -> Q -> bool -> M (list ind))
    (fLex : list Q -> list ind -> nat -> M (list ind))
    (fEps : list Q -> list ind -> nat -> Q -> M (list ind))
    (fAuto : list Q -> list ind -> nat -> M (list ind))
    (fDCD : list ind -> nat -> M (list ind)) (c : case) : bool :=
  match c with
  | CRandom inds k ds obs => agree (fRandom inds k ds) obs
  | CBest inds k obs => agree (fBest inds k []) obs
  | CWorst inds k obs => agree (fWorst inds k []) obs
  | CTourn inds k ts ds obs => agree (fTourn inds k ts ds) obs
  | CRoulette w inds k ds obs => agree (fRoulette w inds k ds) obs
  | CDouble inds k fs ps ff ds obs => agree (fDouble inds k fs ps ff ds) obs
  | CSUS w inds k ds obs => agree (fSUS w inds k ds) obs
  | CLex w inds k ds obs => agree (fLex w inds k ds) obs
  | CEps w inds k eps ds obs => agree (fEps w inds k eps ds) obs
  | CAuto w inds k ds obs => agree (fAuto w inds k ds) obs
  | CDCD inds k ds obs => agree (fDCD inds k ds) obs
  end.

Definition check : case -> bool :=
  check_with selRandom (fun inds k => ret (selBest inds k)) (fun inds k => ret (selWorst inds k))
             selTournament selRoulette selSUS selDoubleTournament
             selLexicase selEpsilonLexicase selAutomaticEpsilonLexicase selTournamentDCD.
