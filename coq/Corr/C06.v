(* Correspondence runner for C06: the harness writes population, parameters, the recorded draws and
   what the implementation returned (uids of the returned objects, or the exception);
   check re-runs the model on the same draws and compares.  All draws must be consumed. *)
From Coq Require Import List Bool Arith QArith.
From DV Require Export Base.Corr Base.PyList Base.C06_Py Model.C06_Select.
Import ListNotations.

Inductive outcome := OOk (uids : list nat) | ORaise (e : exn).

Inductive case :=
| CRandom (inds : list ind) (k : nat) (ds : list draw) (obs : outcome)
| CBest (inds : list ind) (k : nat) (obs : outcome)
| CWorst (inds : list ind) (k : nat) (obs : outcome)
| CTourn (inds : list ind) (k tournsize : nat) (ds : list draw) (obs : outcome)
| CRoulette (w : list Q) (inds : list ind) (k : nat) (ds : list draw) (obs : outcome)
| CDouble (inds : list ind) (k fitness_size : nat) (psize : Q) (fitness_first : bool)
          (ds : list draw) (obs : outcome)
| CSUS (w : list Q) (inds : list ind) (k : nat) (ds : list draw) (obs : outcome)
| CLex (w : list Q) (inds : list ind) (k : nat) (ds : list draw) (obs : outcome)
| CEps (w : list Q) (inds : list ind) (k : nat) (eps : Q) (ds : list draw) (obs : outcome)
| CAuto (w : list Q) (inds : list ind) (k : nat) (ds : list draw) (obs : outcome)
| CDCD (inds : list ind) (k : nat) (ds : list draw) (obs : outcome).

(* Exceptions occur only on inputs outside the property's quantifier (empty population, tournament
   size 0, parsimony size outside [1,2], DCD with k > n ...).  The runner compares "raised" against
   "raised"; the kind of the exception is recorded in the case but not compared, since the property
   says nothing about it and a refactoring may legitimately change it. *)
Definition agree (r : res (list ind)) (obs : outcome) : bool :=
  match r, obs with
  | Ok out [], OOk u => list_eqb Nat.eqb (map uid out) u
  | Raise _, ORaise _ => true
  | _, _ => false
  end.

Definition check (c : case) : bool :=
  match c with
  | CRandom inds k ds obs => agree (selRandom inds k ds) obs
  | CBest inds k obs => agree (Ok (selBest inds k) []) obs
  | CWorst inds k obs => agree (Ok (selWorst inds k) []) obs
  | CTourn inds k ts ds obs => agree (selTournament inds k ts ds) obs
  | CRoulette w inds k ds obs => agree (selRoulette w inds k ds) obs
  | CDouble inds k fs ps ff ds obs => agree (selDoubleTournament inds k fs ps ff ds) obs
  | CSUS w inds k ds obs => agree (selSUS w inds k ds) obs
  | CLex w inds k ds obs => agree (selLexicase w inds k ds) obs
  | CEps w inds k eps ds obs => agree (selEpsilonLexicase w inds k eps ds) obs
  | CAuto w inds k ds obs => agree (selAutomaticEpsilonLexicase w inds k ds) obs
  | CDCD inds k ds obs => agree (selTournamentDCD inds k ds) obs
  end.
