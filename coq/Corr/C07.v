(* Correspondence runner for C07: the harness writes the inputs given to deap.tools.emo, the
   recorded random draws and what the implementation returned; check recomputes with the model. *)
From Coq Require Import List ZArith QArith Qabs Bool.
From Coq Require Export PrimFloat.
From DV Require Export Base.Corr Base.PyList Base.C07_Num Model.C07_Spea2 Model.C07_Nsga3
                       Model.C07_RefPoints Model.C07_FloatInst Model.C07_Intercepts Model.C04_NDSort
                       Model.C04_LogSort Model.C07_Full.
Import ListNotations.

Definition nl_eqb := list_eqb Nat.eqb.
Definition zl_eqb := list_eqb Z.eqb.
Definition ql_eqb := list_eqb Qeq_bool.
Definition fl_eqb := list_eqb PrimFloat.eqb.

Definition qxs (l : list Z) : list qx := map (fun z => QF (inject_Z z)) l.
Definition qs (l : list Z) : list Q := map inject_Z l.

Inductive case :=
(* selSPEA2 on an integer grid, exact instance *)
| CSpea2Q (vals : list (list Z)) (weights : list Z) (k : nat) (draws : list Z) (obs : list nat)
(* selSPEA2 on arbitrary floats, binary64 instance *)
| CSpea2F (vals : list (list float)) (weights : list float) (k : nat) (draws : list Z) (obs : list nat)
(* one call of _randomizedSelect(array, 0, len-1, K): rank = floor(K) *)
| CSelectQ (arr : list Q) (rank : Z) (draws : list Z) (obs : Q)
| CSelectF (arr : list float) (rank : Z) (draws : list Z) (obs : float)
(* niching(individuals, k, niches, distances, niche_counts) *)
| CNiching (k : nat) (niches : list nat) (dist : list Q) (counts0 : list nat) (codes : list (list nat))
           (obs_sel obs_counts : list nat)
(* selNSGA3 after association, with the recorded niches and distances *)
| CNsga3 (fronts : list (list nat)) (k R : nat) (niches : list nat) (dist : list Q)
         (codes : list (list nat)) (obs_chosen obs_counts : list nat)
(* associate_to_niche, binary64 instance, tolerance (N3) *)
| CAssocF (fits refs : list (list float)) (best icpt : list float) (obs_niches : list nat) (obs_dist : list float)
(* associate_to_niche, exact instance: the harness only emits it when the exact argmin is robust *)
| CAssocQ (fits refs : list (list Q)) (best icpt : list Q) (obs_niches : list nat)
(* selNSGA3 end to end with the model's own exact association *)
| CNsga3Q (fits : list (list Q)) (fronts : list (list nat)) (k : nat) (refs : list (list Q))
          (best icpt dist : list Q) (codes : list (list nat)) (obs_niches obs_chosen : list nat)
(* uniform_reference_points: numerators of the rows (coordinate = numerator / p) *)
| CRefN (nobj p : nat) (obs_num : list (list nat))
(* uniform_reference_points bit for bit, optional scaling *)
| CRefF (nobj p : nat) (scaling : option float) (obs : list (list float))
(* scaled reference points against the exact rational model, |difference| <= 1e-12 *)
| CRefQ (nobj p : nat) (scaling : Q) (obs : list (list Q))
(* best/worst point memory over a sequence of selNSGA3WithMemory calls *)
| CMem (calls : list (list (list Z))) (obs : list (list Z * list Z * list (list Z)))
(* one selNSGA3 call: best_point / worst_point / front_worst from the previous memory and the fitnesses *)
| CPoints (prev_best prev_worst : option (list Z)) (fits : list (list Z)) (obs_best obs_worst obs_front_worst : list Z)
(* find_extreme_points on integer-valued fitnesses *)
| CExtreme (fits : list (list Z)) (best : list Z) (prev : option (list (list Z))) (obs : list (list Z))
(* find_intercepts(extreme_points, best_point, current_worst, front_worst) on exact inputs.
   robust = true: every decision of the exact model (singular / zero component / guards) has a margin
   that rounding cannot cross (decided by the harness from exact quantities, never from the observed
   value): the observed intercepts must be the model's, within the relative tolerance tol.
   robust = false (a guard holds with equality or nearly so, or the elimination is inexact on a
   singular matrix): the observed value must be one of the values a branch can return. *)
| CIcpt (ext : list (list Q)) (best worst fw : list Q) (robust : bool) (tol : Q) (obs : list Q)
(* selNSGA3 as one function of the population: C04's sorter model, best/worst/extreme points,
   find_intercepts, association, niching — everything recomputed from the weighted values; the
   only recorded data are the shuffles.  robust/tol as for CIcpt (when not robust the boundary
   decision of the float code is replayed: the branch value closest to the observed intercepts) *)
| CFull (log : bool) (wv : list (list Z)) (k : nat) (refs : list (list Q))
        (mem : option (list Z * list Z)) (pext : option (list (list Z))) (codes : list (list nat))
        (robust : bool) (tol : Q)
        (obs_fronts : list (list nat)) (obs_best obs_worst : list Z) (obs_ext : list (list Z)) (obs_icpt : list Q)
        (obs_niches obs_chosen obs_counts : list nat).

Definition eps_q : Q := 1 # 4503599627370496.          (* numpy.finfo(float).eps = 2^-52 *)
Definition eps_f : float := 0x1p-52%float.

Definition qx_eq (a b : qx) : bool := qx_eqb a b.

Definition select_ok {T} (Op : numops T) (arr : list T) (rank : Z) (draws : list Z) (obs : T) : bool :=
  let n := length arr in
  let '(v, rest) := rand_select Op (S n) arr 0%Z (Z.of_nat n - 1)%Z rank draws in
  n_eqb Op v obs && n_eqb Op (kth_smallest Op arr rank) obs
  && match rest with [] => true | _ => false end.

(* tolerance test for the association in floats *)
Definition assoc_one_ok (refs : list (list float)) (best icpt : list float) (f : list float)
                        (obs_n : nat) (obs_d : float) : bool :=
  let fn := normalise f_ops eps_f f best icpt in
  let d2 := map (perp_d2 f_ops fn) refs in
  let m := fold_left (fun a x => if PrimFloat.ltb x a then x else a) d2 infinity in
  (* 1e-9 * |fn|^2 + 1e-290: the rounding errors of the distance computation are relative to |fn|^2 *)
  let tol := PrimFloat.add (PrimFloat.mul 0x1.12e0be826d695p-30%float (dot f_ops fn fn)) 0x1.8f2b061aea072p-964%float in
  let dobs := nth obs_n d2 infinity in
  Nat.ltb obs_n (length refs)
  && PrimFloat.leb dobs (PrimFloat.add m tol)
  && PrimFloat.leb (PrimFloat.abs (PrimFloat.sub (PrimFloat.mul obs_d obs_d) dobs)) tol.

Fixpoint forall3b {A B C} (f : A -> B -> C -> bool) (a : list A) (b : list B) (c : list C) : bool :=
  match a, b, c with
  | [], [], [] => true
  | x :: a', y :: b', z :: c' => f x y z && forall3b f a' b' c'
  | _, _, _ => false
  end.

Definition q_close (tol x y : Q) : bool := q_leb (Qabs (x - y)) tol.

(* |a - b| <= tol * |a| coordinatewise (a = model, b = observed) *)
Definition vec_close (tol : Q) (a b : list Q) : bool :=
  Nat.eqb (length a) (length b)
  && forallb (fun p => q_leb (Qabs (fst p - snd p)) (tol * Qabs (fst p))) (zip a b).

(* the values the branches of find_intercepts can return *)
Definition icpt_cands (ext : list (list Q)) (best worst fw : list Q) : list (icpt_branch * list Q) :=
  [(BSingular, worst); (BGuard, fw)] ++
  match solve (length best) (zip (icpt_matrix ext best) (repeat 1%Q (length best))) with
  | Some x => if existsb (fun v => Qeq_bool v 0) x then [] else [(BMain, map (fun v => Qred (/ v)) x)]
  | None => []
  end.

(* on an exactly singular system whose binary64 elimination is inexact, LAPACK may not notice the
   singularity and return SOME solution of the (consistent) system; if it passes the guards the code
   returns its reciprocals (observed: extreme points (5,1,3), (1,4,3), (1,4,3) -> intercepts
   15.83, 11.875, 5).  Such an observation is accepted as what it is: guard-passing intercepts of a
   hyperplane through the extreme points. *)
Definition obs_solves (ext : list (list Q)) (best worst obs : list Q) : bool :=
  Nat.eqb (length obs) (length best)
  && forallb (fun row => q_leb (Qabs (vdot row (map Qinv obs) - 1)) (1 # 1000000)) (icpt_matrix ext best)
  && negb (existsb (fun v => q_leb v icpt_min) obs)
  && negb (existsb (fun p => q_ltb (snd p + (1 # 1000000000) * (Qabs (snd p) + Qabs (fst p))) (fst p))
                   (zip (map2 Qplus obs best) worst)).

Definition icpt_pick (robust : bool) (tol : Q) (obs : list Q) : icpt_fun :=
  fun ext best worst fw =>
    let m := find_intercepts_b ext best worst fw in
    if robust || vec_close tol (snd m) obs then m
    else match find (fun c => vec_close tol (snd c) obs) (icpt_cands ext best worst fw) with
         | Some c => c
         | None =>
             match fst m with
             | BSingular => if obs_solves ext best worst obs then (BMain, obs) else m
             | _ => m
             end
         end.

Definition mkpop (ws : list (list Z)) : list ind := combine (seq 0 (length ws)) ws.

Definition check (c : case) : bool :=
  match c with
  | CSpea2Q vals weights k draws obs =>
      let v := map qxs vals in
      let '(r, rest) := spea2 qx_ops v (wvalues_of qx_ops (qxs weights) v) k draws in
      nl_eqb r obs && match rest with [] => true | _ => false end
  | CSpea2F vals weights k draws obs =>
      let wv := wvalues_of f_ops weights vals in
      let '(r, rest) := spea2 f_ops (values_of f_ops weights wv) wv k draws in
      nl_eqb r obs && match rest with [] => true | _ => false end
  | CSelectQ arr rank draws obs => select_ok qx_ops (map QF arr) rank draws (QF obs)
  | CSelectF arr rank draws obs => select_ok f_ops arr rank draws obs
  | CNiching k niches dist counts0 codes osel ocounts =>
      let s := niching q_ltb 0%Q k niches dist counts0 codes in
      niching_ok k s && nl_eqb (ns_sel s) osel && nl_eqb (ns_counts s) ocounts
      && match ns_draws s with [] => true | _ => false end
  | CNsga3 fronts k R niches dist codes ochosen ocounts =>
      let o := nsga3_core q_ltb 0%Q fronts k R niches dist codes in
      o_ok o && nl_eqb (o_chosen o) ochosen && nl_eqb (o_counts o) ocounts
      && match o_draws o with [] => true | _ => false end
  | CAssocF fits refs best icpt on od =>
      forall3b (assoc_one_ok refs best icpt) fits on od
  | CAssocQ fits refs best icpt on =>
      nl_eqb (associate q_ops eps_q fits refs best icpt) on
  | CNsga3Q fits fronts k refs best icpt dist codes oniches ochosen =>
      let '(niches, o) := nsga3 q_ops eps_q fits fronts k refs best icpt dist codes in
      nl_eqb niches oniches && o_ok o && nl_eqb (o_chosen o) ochosen && match o_draws o with [] => true | _ => false end
  | CRefN nobj p onum => list_eqb nl_eqb (ref_num nobj p) onum
  | CRefF nobj p sc obs => list_eqb fl_eqb (ref_points f_ops nobj p sc) obs
  | CRefQ nobj p s obs =>
      let m := ref_points_q nobj p (Some s) in
      Nat.eqb (length m) (length obs)
      && forallb (fun rr => Nat.eqb (length (fst rr)) (length (snd rr))
                            && forallb (fun xy => q_close (1 # 1000000000000) (fst xy) (snd xy)) (zip (fst rr) (snd rr)))
                 (zip m obs)
  | CMem calls obs =>
      list_eqb (fun a b => zl_eqb (fst (fst a)) (fst (fst b)) && zl_eqb (snd (fst a)) (snd (fst b)) && list_eqb zl_eqb (snd a) (snd b))
               (memory_trace None None None calls) obs
  | CPoints pb pw fits ob ow ofw =>
      zl_eqb (update_best pb fits) ob && zl_eqb (update_worst pw fits) ow && zl_eqb (update_worst None fits) ofw
  | CExtreme fits best prev obs => list_eqb zl_eqb (find_extreme_points fits best prev) obs
  | CIcpt ext best worst fw robust tol obs =>
      vec_close tol (snd (icpt_pick robust tol obs ext best worst fw)) obs
  | CFull log wv k refs mem pext codes robust tol ofronts obest oworst oext oicpt oniches ochosen ocounts =>
      match nsga3_full_gen (icpt_pick robust tol oicpt) log (mkpop wv) k refs mem pext codes with
      | None => false
      | Some o =>
          list_eqb nl_eqb (f_fronts o) ofronts && zl_eqb (f_best o) obest && zl_eqb (f_worst o) oworst
          && list_eqb zl_eqb (f_ext o) oext && vec_close tol (f_icpt o) oicpt
          && nl_eqb (f_niches o) oniches
          && o_ok (f_core o) && nl_eqb (o_chosen (f_core o)) ochosen && nl_eqb (o_counts (f_core o)) ocounts
          && match o_draws (f_core o) with [] => true | _ => false end
      end
  end.
