(* Correspondence runner for C18: the harness writes operation histories on deap.tools.Logbook /
   Statistics / MultiStatistics with what the implementation returned and the state it was in after
   every operation; check re-runs the model on the same history and compares. *)
From Coq Require Import List ZArith Bool.
From DV Require Export Base.Corr Base.PyList Model.C18_Logbook.
Import ListNotations.
Local Open Scope Z_scope.

(* canonical order for dict-like things: by key (dict / chapter order is not part of the comparison) *)
Section Sort.
  Context {V : Type}.
  Fixpoint insert_key (kv : name * V) (l : list (name * V)) : list (name * V) :=
    match l with
    | [] => [kv]
    | y :: r => if fst kv <? fst y then kv :: l else y :: insert_key kv r
    end.
  Definition sort_key (l : list (name * V)) : list (name * V) := fold_right insert_key [] l.
End Sort.

(* observed skeleton of a logbook: record ids, buffindex, chapters (sorted by name) *)
Inductive ot := OT (ids : list nat) (buff : Z) (chs : list (name * ot)).

Fixpoint observe (l : lb) : ot :=
  match l with
  | LB rs bf cs _ _ =>
      OT (map fst rs) bf
         (sort_key ((fix go (cl : list (name * lb)) : list (name * ot) :=
                       match cl with [] => [] | (k, c) :: r => (k, observe c) :: go r end) cs))
  end.

Fixpoint ot_eqb (a b : ot) {struct a} : bool :=
  match a, b with
  | OT i1 b1 c1, OT i2 b2 c2 =>
      list_eqb Nat.eqb i1 i2 && (b1 =? b2) &&
      (fix go (x y : list (name * ot)) {struct x} : bool :=
         match x, y with
         | [], [] => true
         | (k1, t1) :: r1, (k2, t2) :: r2 => (k1 =? k2) && ot_eqb t1 t2 && go r1 r2
         | _, _ => false
         end) c1 c2
  end.

(* full state, canonical: entries sorted by field name, chapters by name *)
Definition entry_eqb (a b : entry) : bool := list_eqb (pair_eqb Z.eqb Z.eqb) (sort_key a) (sort_key b).
Definition rec_eqb (a b : nat * entry) : bool := Nat.eqb (fst a) (fst b) && entry_eqb (snd a) (snd b).
Definition hdr_eqb (a b : option (list name)) : bool := option_eqb (list_eqb Z.eqb) a b.

Fixpoint canon (l : lb) : lb :=
  match l with
  | LB rs bf cs h g =>
      LB rs bf (sort_key ((fix go (cl : list (name * lb)) : list (name * lb) :=
                             match cl with [] => [] | (k, c) :: r => (k, canon c) :: go r end) cs)) h g
  end.

Fixpoint lb_eqb_raw (a b : lb) {struct a} : bool :=
  match a, b with
  | LB r1 b1 c1 h1 g1, LB r2 b2 c2 h2 g2 =>
      list_eqb rec_eqb r1 r2 && (b1 =? b2) && hdr_eqb h1 h2 && Bool.eqb g1 g2 &&
      (fix go (x y : list (name * lb)) {struct x} : bool :=
         match x, y with
         | [], [] => true
         | (k1, t1) :: r1, (k2, t2) :: r2 => (k1 =? k2) && lb_eqb_raw t1 t2 && go r1 r2
         | _, _ => false
         end) c1 c2
  end.
Definition lb_eqb (a b : lb) : bool := lb_eqb_raw (canon a) (canon b).

Definition err_eqb (a b : err) : bool :=
  match a, b with
  | IndexError, IndexError | ValueError, ValueError | KeyError, KeyError
  | Unmodelled, Unmodelled | OutOfFuel, OutOfFuel | OtherError, OtherError => true
  | _, _ => false
  end.
Definition col_eqb := list_eqb (option_eqb Z.eqb).
Definition sel_eqb (a b : selres) : bool :=
  match a, b with
  | Sel1 x, Sel1 y => col_eqb x y
  | SelN x, SelN y => list_eqb col_eqb x y
  | _, _ => false
  end.
Definition out_eqb (a b : out) : bool :=
  match a, b with
  | ONone, ONone => true
  | OSel x, OSel y => sel_eqb x y
  | OText d1 h1, OText d2 h2 => list_eqb Nat.eqb d1 d2 && Bool.eqb h1 h2
  | OItem u1 e1, OItem u2 e2 => Nat.eqb u1 u2 && entry_eqb e1 e2
  | OErr e1, OErr e2 => err_eqb e1 e2
  | _, _ => false
  end.

(* one history: outcome and skeleton after every operation, full state at the end *)
Fixpoint check_hist (s : state) (ops : list op) (obs : list (out * ot)) : option state :=
  match ops, obs with
  | [], [] => Some s
  | o :: r, (x, t) :: r' =>
      let (s', x') := step s o in
      if out_eqb x' x && ot_eqb (observe (st_lb s')) t then check_hist s' r r' else None
  | _, _ => None
  end.

(* compact literals for the generated files (everything in Z) *)
Definition mkot (i : list Z) (b : Z) (c : list (name * ot)) : ot := OT (map Z.to_nat i) b c.
Definition txt (i : list Z) (h : bool) : out := OText (map Z.to_nat i) h.
Definition itm (u : Z) (e : entry) : out := OItem (Z.to_nat u) e.
Definition T (d k : Z) (x : out) (t : ot) : nat * nat * out * ot := (Z.to_nat d, Z.to_nat k, x, t).
Definition R (u : Z) (e : entry) : nat * entry := (Z.to_nat u, e).

(* record templates of an alphabet: every scalar is shifted by the number of records made so far,
   so that the field with template value 0 is the record's id and the others are distinct *)
Fixpoint shiftv (n : Z) (v : value) : value :=
  match v with
  | VInt z => VInt (z + n)
  | VDict d => VDict ((fix go (l : dict) : dict :=
                         match l with [] => [] | (k, x) :: r => (k, shiftv n x) :: go r end) d)
  end.
Definition inst (n : nat) (o : op) : op :=
  match o with
  | ORecord d => ORecord (map (fun kv => (fst kv, shiftv (Z.of_nat n) (snd kv))) d)
  | _ => o
  end.

(* all histories over an alphabet as a prefix tree in preorder: item (d, k, out, skeleton) applies
   operation number k to the state reached at depth d (the state after the previous item of depth
   d-1) *)
Fixpoint check_items (alpha : list op) (stack : list state) (items : list (nat * nat * out * ot)) : bool :=
  match items with
  | [] => true
  | (d, k, x, t) :: r =>
      let stack' := skipn (length stack - S d) stack in
      match stack', nth_error alpha k with
      | s :: _, Some o =>
          let (s', x') := step s (inst (st_next s) o) in
          out_eqb x' x && ot_eqb (observe (st_lb s')) t && check_items alpha (s' :: stack') r
      | _, _ => false
      end
  end.

(* ---- statistics: concrete key and function languages mirrored by Python callables in the harness ---- *)
Inductive keyf := KLen | KSum | KItem (i : nat).
Definition apply_key (k : keyf) (ind : list Z) : Z :=
  match k with
  | KLen => zlen ind
  | KSum => fold_left Z.add ind 0
  | KItem i => nth i ind 0
  end.

Inductive sres :=
| RInt (z : Z)
| RCall (tag : Z) (args : list Z) (kwargs : list (name * Z)) (values : list Z)
| RBad.
Inductive fn := FProbe (tag : Z) | FSum | FLen | FMaxD | FAffine | FScaleMax.
Definition zmax_default (d : Z) (l : list Z) : Z :=
  match l with [] => d | x :: r => fold_left Z.max r x end.
Definition kw_scale : name := 100.
Definition kw_default : name := 101.
(* partial(function, *args, **kargs)(values) = function( *args, values, **kargs ) *)
Definition apply_fn (f : fn) (args : list Z * list (name * Z)) (values : list Z) : sres :=
  let (a, kw) := args in
  match f, a, kw with
  | FProbe tag, _, _ => RCall tag a (sort_key kw) values
  | FSum, [], [] => RInt (fold_left Z.add values 0)
  | FLen, [], [] => RInt (zlen values)
  | FMaxD, [], [] => RInt (zmax_default 0 values)
  | FAffine, [x; y], [] => RInt (x * fold_left Z.add values 0 + y)      (* lambda a, b, values: a*sum(values)+b *)
  | FScaleMax, [], _ =>                                                  (* lambda values, scale=1, default=0 *)
      let sc := match lookup kw_scale kw with Some z => z | None => 1 end in
      let df := match lookup kw_default kw with Some z => z | None => 0 end in
      RInt (sc * zmax_default df values)
  | _, _, _ => RBad
  end.

Inductive sop :=
| SRegister (nm : name) (f : fn) (args : list Z) (kwargs : list (name * Z))
| SCompile (data : list (list Z)).

Definition sstats := stats (list Z) Z sres.
Definition sres_eqb (a b : sres) : bool :=
  match a, b with
  | RInt x, RInt y => x =? y
  | RCall t1 a1 k1 v1, RCall t2 a2 k2 v2 =>
      (t1 =? t2) && list_eqb Z.eqb a1 a2 && list_eqb (pair_eqb Z.eqb Z.eqb) k1 k2 && list_eqb Z.eqb v1 v2
  | _, _ => false
  end.
Definition srec_eqb (a b : list (name * sres)) : bool :=
  list_eqb (pair_eqb Z.eqb sres_eqb) (sort_key a) (sort_key b).
Definition mrec_eqb (a b : list (name * list (name * sres))) : bool :=
  list_eqb (pair_eqb Z.eqb srec_eqb) (sort_key a) (sort_key b).

(* a Statistics object driven by register/compile; every compile result is observed *)
Fixpoint run_stats (s : sstats) (ops : list sop) : sstats * list (list (name * sres)) :=
  match ops with
  | [] => (s, [])
  | SRegister nm f a kw :: r => run_stats (st_register nm (apply_fn f) (a, kw) s) r
  | SCompile data :: r => let (s', o) := run_stats s r in (s', st_compile s data :: o)
  end.
Fixpoint run_multi (m : mstats (list Z) Z sres) (ops : list sop)
  : mstats (list Z) Z sres * list (list (name * list (name * sres))) :=
  match ops with
  | [] => (m, [])
  | SRegister nm f a kw :: r => run_multi (ms_register nm (apply_fn f) (a, kw) m) r
  | SCompile data :: r => let (m', o) := run_multi m r in (m', ms_compile m data :: o)
  end.

(* a compiled MultiStatistics record as keyword arguments of Logbook.record *)
Definition sres_z (r : sres) : Z := match r with RInt z => z | _ => 0 end.
Definition mrec_infos (gen : list (name * Z)) (m : list (name * list (name * sres))) : dict :=
  compiled_infos gen (map (fun kr => (fst kr, map (fun nr => (fst nr, sres_z (snd nr))) (snd kr))) m).

(* the way the algorithms use them: for each generation, logbook.record(id=g, **mstats.compile(pop_g)) *)
Fixpoint run_gens (m : mstats (list Z) Z sres) (idname : name) (g : nat)
         (pops : list (list (name * Z) * list (list Z))) (s : state) : state * list op :=
  match pops with
  | [] => (s, [])
  | (extra, data) :: r =>
      let o := ORecord (mrec_infos ((idname, Z.of_nat g) :: extra) (ms_compile m data)) in
      let (s', ops) := run_gens m idname (S g) r (fst (step s o)) in
      (s', o :: ops)
  end.

Definition uni_ok (uni : option shape) (ops : list op) : bool :=
  match uni with Some sh => uniformb sh ops | None => true end.

(* uni: the chapter-name tree when the harness generated the history as "uniform"; check then also
   establishes that the history meets the hypothesis of the theorems (uniformb, proved sound) *)
Inductive case :=
| CHist (uni : option shape) (ops : list op) (obs : list (out * ot)) (fin : lb)
| CTrie (uni : option shape) (alpha : list op) (items : list (nat * nat * out * ot))
| CStats (key : keyf) (ops : list sop) (obs : list (list (name * sres))) (fields : list name)
| CMulti (keys : list (name * keyf)) (ops : list sop)
         (obs : list (list (name * list (name * sres)))) (fields : list (name * list name))
| CStatsLog (idname : name) (keys : list (name * keyf)) (regs : list sop)
            (pops : list (list (name * Z) * list (list Z))) (fin : lb).   (* per generation: extra scalar fields, population *)

Definition check (c : case) : bool :=
  match c with
  | CHist uni ops obs fin =>
      uni_ok uni ops &&
      match check_hist init_state ops obs with
      | Some s => lb_eqb (st_lb s) fin
      | None => false
      end
  | CTrie uni alpha items => uni_ok uni alpha && check_items alpha [init_state] items
  | CStats key ops obs fields =>
      let (s, o) := run_stats (new_stats (apply_key key)) ops in
      list_eqb srec_eqb o obs && list_eqb Z.eqb (s_fields s) fields
  | CMulti keys ops obs fields =>
      let (m, o) := run_multi (map (fun kk => (fst kk, new_stats (apply_key (snd kk)))) keys) ops in
      list_eqb mrec_eqb o obs &&
      list_eqb (pair_eqb Z.eqb (list_eqb Z.eqb)) (sort_key (map (fun ns => (fst ns, s_fields (snd ns))) m)) (sort_key fields)
  | CStatsLog idname keys regs pops fin =>
      let (m, _) := run_multi (map (fun kk => (fst kk, new_stats (apply_key (snd kk)))) keys) regs in
      let (s, ops) := run_gens m idname 0 pops init_state in
      lb_eqb (st_lb s) fin && uniformb (Sh (map (fun kk => (fst kk, Sh [])) keys)) ops
  end.
