(* Correspondence runner for C05.  The harness writes: the population (integer image of the
   weighted values + the raw fitness.values), k, the fronts the implementation's sorter returned
   during the call (as uid lists), the uids selNSGA2 returned (in order) and every individual's
   fitness.crowding_dist after the call.  `check` recomputes selection and crowding distances
   with the model (for nd='standard' also the fronts themselves, with Model/C05_SortStd.v) and also decides, for the very fronts the implementation used, the hypothesis
   `fronts_correct` under which the theorems of the first half are stated.
   End-to-end tie (Model/C05_Full.v): `full_ok` evaluates sel_nsga2_full -- the model sorts by itself
   with property C04's models of sortNondominated / sortLogNondominated, nothing is taken from the
   implementation's sorter -- and requires (a) the preconditions pop_ok / nd_ok of the C05_full_ theorems,
   (b) that the model's fronts are exactly the fronts the implementation's sorter returned during the call
   (members and order inside each front, for BOTH back-ends), (c) that the model's selection is the list
   selNSGA2 returned, in order.  CFullQ: calls outside the preconditions (another `nd`, empty population):
   the model raises (None) exactly when the implementation raised. *)
From Coq Require Import List ZArith QArith Qabs Bool Uint63.
From Coq Require Export PrimFloat.
From DV Require Export Base.Corr Base.PyList Model.C05_Nsga2 Model.C05_Spec Model.C05_SortStd Model.C05_Full.
Import ListNotations.

Definition mkpop {A} (l : list (list Z * list A)) : list (ind A) :=
  map (fun p => mkind (fst p) (fst (snd p)) (snd (snd p))) (combine (seq 0 (length l)) l).

(* bit-exact float equality: IEEE == plus the sign of zero; NaN equals NaN *)
Definition feqb (a b : float) : bool :=
  (PrimFloat.eqb a b && PrimFloat.eqb (PrimFloat.div PrimFloat.one a) (PrimFloat.div PrimFloat.one b))
  || (PrimFloat.is_nan a && PrimFloat.is_nan b).

Definition qinf_eqb (a b : qinf) : bool :=
  match a, b with
  | Fin x, Fin y => Qeq_bool x y
  | Inf, Inf => true
  | _, _ => false
  end.

(* |m - o| <= 2^-40 * max(1, |m|): rounding of at most ~12 float operations is below 2^-49 relative *)
Definition qinf_close (m obs : qinf) : bool :=
  match m, obs with
  | Fin x, Fin y =>
      let d := Qabs (x - y) in
      let s := if Qle_bool 1 (Qabs x) then Qabs x else 1%Q in
      Qle_bool (d * (1099511627776 # 1)) s
  | Inf, Inf => true
  | _, _ => false
  end.

(* the crowding_dist attribute of every individual after `for front in fronts: assignCrowdingDist(front)` *)
(* `init` = the attribute of every individual before the call (stale values from earlier calls on the
   same objects; [] = nobody has one): individuals outside the returned fronts keep it *)
Definition cd_table {T} (n : nat) (init : list (option T)) (fu : list (list nat)) (cds : list (list T))
  : list (option T) :=
  fold_left (fun tab fc => fold_left (fun tab ud => set_nth tab (fst ud) (Some (snd ud)))
                                     (combine (fst fc) (snd fc)) tab)
            (combine fu cds) (match init with [] => repeat None n | _ => init end).

(* nd='standard': the transcription of sortNondominated must return exactly the fronts (members and
   order) that the implementation's sortNondominated returned during the call *)
Definition std_ok {A} (std : bool) (p : list (ind A)) (k : nat) (fu : list (list nat)) : bool :=
  negb std ||
  match sort_nd p k with
  | Some fr => list_eqb (list_eqb Nat.eqb) (map uids fr) fu
  | None => false
  end.

Definition nd_of (std : bool) : nd_choice := if std then NdStandard else NdLog.
Definition nd_of_nat (n : nat) : nd_choice := match n with O => NdStandard | S O => NdLog | _ => NdOther end.

Section Runner.
  Variable o : numops.
  Variable deq : D o -> D o -> bool.
  (* side condition of the float crowding-cut theorem, decided on every case: no distance is NaN *)
  Variable dok : D o -> bool.

  (* selNSGA2 end to end: the model sorts by itself (C04's models), then selects *)
  Definition full_ok (std : bool) (p : list (ind (V o))) (k : nat) (fu : list (list nat))
             (obs_sel : list nat) (cmp_sel : bool) : bool :=
    let nd := nd_of std in
    pop_ok_b p && nd_ok_b nd p &&
    match nd_fronts nd p k with
    | Some fr => list_eqb (list_eqb Nat.eqb) (map uids fr) fu
    | None => false
    end &&
    (* (rational instance on inputs where the float arithmetic is not exact: the selection may
       legitimately differ in ties, only the fronts are compared; `if` keeps vm_compute from evaluating it) *)
    if cmp_sel then
      match sel_nsga2_full o nd p k with
      | Some r => list_eqb Nat.eqb (map uid r) obs_sel
      | None => false
      end
    else true.

  Definition run_sel (k : nat) (pop : list (list Z * list (V o))) (fu : list (list nat))
             (obs_sel : list nat) (init_cd obs_cd : list (option (D o))) (cmp_sel std : bool) : bool :=
    let p := mkpop pop in
    let fronts := map (select p) fu in
    wf_pop_b p && fronts_correct_b p k fu && std_ok std p k fu && full_ok std p k fu obs_sel cmp_sel &&
    match sel_nsga2 o fronts k with
    | None => false
    | Some r => negb cmp_sel || list_eqb Nat.eqb (map uid r) obs_sel
    end &&
    list_eqb (option_eqb deq) (cd_table (length p) init_cd fu (crowding_all o fronts)) obs_cd &&
    forallb (forallb dok) (crowding_all o fronts).

  Definition run_crowd (vals : list (list (V o))) (obs : list (D o)) : bool :=
    list_eqb deq (assign_crowding o (mkpop (map (fun v => ([], v)) vals))) obs.
End Runner.

Inductive case :=
| CSelF (std : bool) (k : nat) (pop : list (list Z * list float)) (fu : list (list nat))
        (obs_sel : list nat) (init_cd obs_cd : list (option float))
| CSelQ (exact std : bool) (k : nat) (pop : list (list Z * list Q)) (fu : list (list nat))
        (obs_sel : list nat) (init_cd obs_cd : list (option qinf))
| CCrowdF (vals : list (list float)) (obs : list float)
| CCrowdQ (exact : bool) (vals : list (list Q)) (obs : list qinf)
| CFullQ (nd : nat) (k : nat) (pop : list (list Z * list Q)) (obs : option (list nat)).

Definition check (c : case) : bool :=
  match c with
  | CSelF std k pop fu s ic cd => run_sel f_ops feqb (fun d => negb (PrimFloat.is_nan d)) k pop fu s ic cd true std
  | CSelQ exact std k pop fu s ic cd =>
      run_sel q_ops (if exact then qinf_eqb else qinf_close) (fun _ => true) k pop fu s ic cd exact std
  | CCrowdF vals obs => run_crowd f_ops feqb vals obs
  | CCrowdQ exact vals obs => run_crowd q_ops (if exact then qinf_eqb else qinf_close) vals obs
  | CFullQ nd k pop obs =>
      option_eqb (list_eqb Nat.eqb) (option_map (map uid) (sel_nsga2_full q_ops (nd_of_nat nd) (mkpop pop) k)) obs
  end.
