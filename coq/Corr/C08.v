(* Correspondence runner for C08.  The harness drives a real HallOfFame / ParetoFront through a
   history of operations and records, after every operation, self.keys (as wvalues) and
   self.items (object identity canonicalised by first appearance, list contents, wvalues), or
   that the operation raised.  check replays the history on the model and compares. *)
From Coq Require Import List ZArith Bool.
From DV Require Export Base.Corr Base.PyTuple Base.PyList Model.C08_Archive Model.C08_Heap.
Import ListNotations.
Local Open Scope Z_scope.

Definition cop := op cind.

(* observation of one state: keys, items *)
Definition obs1 := option (list (list Z) * list cind).

(* CArch: value-level model (the one the theorems are about).
   CHeap: heap-level model; hops contains every in-place overwrite of a submitted object (HSet) and
   every method call; obs is parallel to hops: None = the harness did not read the archive after that
   step, Some o = it did (o = None: the call raised). nslots = number of user objects (locations
   0..nslots-1, initially empty lists with an invalid fitness). *)
Inductive case :=
| CArch (kind : option Z) (sim : simkind) (ops : list cop) (obs : list obs1)
| CHeap (kind : option Z) (sim : simkind) (nslots : nat) (hops : list hop) (obs : list (option obs1))
(* CSeq: one archive object reconfigured between calls (self.maxsize = ..., self.similar = ...):
   segments (maxsize-or-None, operator, operations); the state is carried from one segment to the next *)
| CSeq (segs : list (option Z * simkind * list cop)) (obs : list obs1).

Fixpoint index_of (x : Z) (l : list Z) (i : Z) : option Z :=
  match l with
  | [] => None
  | y :: r => if x =? y then Some i else index_of x r (i + 1)
  end.

(* first-appearance numbering *)
Fixpoint canon_go (l : list Z) (seen : list Z) : list Z :=
  match l with
  | [] => []
  | x :: r => match index_of x seen 0 with
              | Some i => i :: canon_go r seen
              | None => zlen seen :: canon_go r (seen ++ [x])
              end
  end.
Definition canon (l : list Z) : list Z := canon_go l [].

Definition zll_eqb := list_eqb zl_eqb.
Definition content_eqb (a b : cind) : bool := zl_eqb (geno a) (geno b) && zl_eqb (wv a) (wv b).

Definition state_eqb (m : option (hof cind)) (o : obs1) : bool :=
  match m, o with
  | None, None => true
  | Some h, Some (ks, its) => zll_eqb (keys h) ks && list_eqb content_eqb (items h) its
  | _, _ => false
  end.

Fixpoint all2 {A B} (f : A -> B -> bool) (a : list A) (b : list B) : bool :=
  match a, b with
  | [], [] => true
  | x :: a', y :: b' => f x y && all2 f a' b'
  | _, _ => false
  end.

Definition tags_of_model (t : list (option (hof cind))) : list Z :=
  flat_map (fun o => match o with Some h => map tag (items h) | None => [] end) t.
Definition tags_of_obs (t : list obs1) : list Z :=
  flat_map (fun o => match o with Some (_, its) => map tag its | None => [] end) t.

Fixpoint index_of_nat (x : nat) (l : list nat) (i : Z) : option Z :=
  match l with
  | [] => None
  | y :: r => if Nat.eqb x y then Some i else index_of_nat x r (i + 1)
  end.

(* user objects keep their slot number (as -1-slot); objects allocated by the archive are numbered
   by first appearance *)
Fixpoint hcanon (nu : nat) (l : list nat) (seen : list nat) : list Z :=
  match l with
  | [] => []
  | x :: r =>
      if Nat.ltb x nu then (-1 - Z.of_nat x) :: hcanon nu r seen
      else match index_of_nat x seen 0 with
           | Some i => i :: hcanon nu r seen
           | None => zlen seen :: hcanon nu r (seen ++ [x])
           end
  end.

Definition obj_eqb (o : obj) (c : cind) : bool := zl_eqb (o_geno o) (geno c) && zl_eqb (o_wv o) (wv c).

Definition hstate_eqb (sim : simkind) (m : option (heap * harch)) (o : option obs1) : bool :=
  match o with
  | None => true
  | Some None => match m with None => true | Some _ => false end
  | Some (Some (ks, its)) =>
      match m with
      | None => false
      | Some st => let v := view st in zll_eqb (keys v) ks && all2 obj_eqb (items v) its
      end
  end.

Fixpoint htags_model (t : list (option (heap * harch))) (obs : list (option obs1)) : list nat :=
  match t, obs with
  | Some (_, a) :: t', Some (Some _) :: obs' => hitems a ++ htags_model t' obs'
  | _ :: t', _ :: obs' => htags_model t' obs'
  | _, _ => []
  end.
Definition htags_obs (obs : list (option obs1)) : list Z :=
  flat_map (fun o => match o with Some (Some (_, its)) => map tag its | _ => [] end) obs.

Definition last_state (h : hof cind) (t : list (option (hof cind))) : option (hof cind) :=
  fold_left (fun _ o => o) t (Some h).

(* the correspondence is parametric in the two executable models it replays the histories on: the hand models
   (check) or the definitions regenerated from the source text (check_gen in Corr/C08_gen.v) *)
Section CheckWith.
  Variable TR : simkind -> option Z -> hof cind -> list cop -> list (option (hof cind)).
  Variable HTR : simkind -> option Z -> heap * harch -> list hop -> list (option (heap * harch)).

  Fixpoint seg_trace_with (h : hof cind) (segs : list (option Z * simkind * list cop)) : list (option (hof cind)) :=
    match segs with
    | [] => []
    | (kind, sim, ops) :: r =>
        let t := TR sim kind h ops in
        t ++ match last_state h t with
             | Some h' => seg_trace_with h' r
             | None => []
             end
    end.

  Definition check_with (c : case) : bool :=
    match c with
    | CArch kind sim ops obs =>
        let t := TR sim kind empty ops in
        all2 state_eqb t obs && zl_eqb (canon (tags_of_model t)) (tags_of_obs obs)
    | CHeap kind sim nslots hops obs =>
        let t := HTR sim kind (repeat null_obj nslots, mkharch [] []) hops in
        all2 (hstate_eqb sim) t obs && zl_eqb (hcanon nslots (htags_model t obs) []) (htags_obs obs)
    | CSeq segs obs =>
        let t := seg_trace_with empty segs in
        all2 state_eqb t obs && zl_eqb (canon (tags_of_model t)) (tags_of_obs obs)
    end.
End CheckWith.

Definition check : case -> bool :=
  check_with (fun sim => trace cind wv (csimilar sim)) (fun sim => h_trace (osimilar sim)).
