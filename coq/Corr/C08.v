(* Correspondence runner for C08.  The harness drives a real HallOfFame / ParetoFront through a
   history of operations and records, after every operation, self.keys (as wvalues) and
   self.items (object identity canonicalised by first appearance, list contents, wvalues), or
   that the operation raised.  check replays the history on the model and compares. *)
From Coq Require Import List ZArith Bool.
From DV Require Export Base.Corr Base.PyTuple Base.PyList Model.C08_Archive.
Import ListNotations.
Local Open Scope Z_scope.

Definition cop := op cind.

(* observation of one state: keys, items *)
Definition obs1 := option (list (list Z) * list cind).

Inductive case :=
| CArch (kind : option Z) (sim : simkind) (ops : list cop) (obs : list obs1).

Fixpoint index_of (x : Z) (l : list Z) (i : Z) : option Z :=
  match l with
  | [] => None
  | y :: r => if x =? y then Some i else index_of x r (i + 1)
  end.

(* first-appearance numbering *)
Fixpoint canon_go (l : list Z) (seen : list Z) : list Z :=
  match l with
  | [] => []
  | x :: r => match index_of x seen 0 with
              | Some i => i :: canon_go r seen
              | None => zlen seen :: canon_go r (seen ++ [x])
              end
  end.
Definition canon (l : list Z) : list Z := canon_go l [].

Definition zll_eqb := list_eqb zl_eqb.
Definition content_eqb (a b : cind) : bool := zl_eqb (geno a) (geno b) && zl_eqb (wv a) (wv b).

Definition state_eqb (m : option (hof cind)) (o : obs1) : bool :=
  match m, o with
  | None, None => true
  | Some h, Some (ks, its) => zll_eqb (keys h) ks && list_eqb content_eqb (items h) its
  | _, _ => false
  end.

Fixpoint all2 {A B} (f : A -> B -> bool) (a : list A) (b : list B) : bool :=
  match a, b with
  | [], [] => true
  | x :: a', y :: b' => f x y && all2 f a' b'
  | _, _ => false
  end.

Definition tags_of_model (t : list (option (hof cind))) : list Z :=
  flat_map (fun o => match o with Some h => map tag (items h) | None => [] end) t.
Definition tags_of_obs (t : list obs1) : list Z :=
  flat_map (fun o => match o with Some (_, its) => map tag its | None => [] end) t.

Definition check (c : case) : bool :=
  match c with
  | CArch kind sim ops obs =>
      let t := trace cind wv (csimilar sim) kind empty ops in
      all2 state_eqb t obs && zl_eqb (canon (tags_of_model t)) (tags_of_obs obs)
  end.
