(* Correspondence runner for C13, regenerated definitions (tie (T)): the cases of Corr/C13.v are also
   evaluated with the definitions of coq/Gen/C13_gen.v (written from the current source by
   harness/c13_py2coq.py), so the translator itself is validated against the implementation on every run.
   computeParams / __init__: the regenerated computeParams (with the regenerated chiN and default lambda_) against the observed
   parameters; update: the regenerated step size and counter against the observed ones, and the observed
   path pc against the one recomputed with the regenerated h_sigma (the matrix part is not repeated). *)
From Coq Require Import List Bool PrimFloat.
From DV Require Export Corr.C13.
From DV Require Import Model.C13_GenRt Gen.C13_gen.
Import ListNotations.

Definition check_update_gen (P : fparams) (st : fstate) (pop : list (list float * list float)) (obs : fstate) : bool :=
  let spop := map snd (sort_pop F pop) in
  let c_diff := vsub F (new_centroid F P spop) (s_centroid st) in
  let ps := new_ps F P st c_diff in
  let h := gen_hsig F P st ps in
  let cc := p_cc P in
  let pc := vadd F (vscale F (1 - cc)%float (s_pc st))
                 (vscale F (h * PrimFloat.sqrt (cc * (2 - cc) * p_mueff P) / s_sigma st)%float c_diff) in
  close (gen_sigma F P st ps) (s_sigma obs) &&
  Nat.eqb (gen_count F P st ps) (s_count obs) &&
  (close (hsig_lhs F P st ps) (hsig_rhs F P) || vclose pc (s_pc obs)).

Definition check_gen (c : case) : bool :=
  match c with
  | CParams dim lambda_ chiN k obs => params_close (gen_computeParams F dim lambda_ chiN k) obs
  | CInit centroid sigma k e obsP obsS =>
      let dim := length centroid in
      let lambda_ := getd (k_lambda k) (gen_default_lambda dim) in
      params_close (gen_computeParams F dim lambda_ (gen_chiN F dim) k) obsP
  | CUpdate P st pop e obs => check_update_gen P st pop obs
  | CGen P st arz obs => true
  end.

Definition check_both (c : case) : bool := check c && check_gen c.
