(* Correspondence runner for C15: the harness writes the point sets / populations given to the
   hypervolume routines of the working tree and what they returned (exact rationals: all inputs are
   integers or short dyadics, so every double result is exact); check recomputes with the model. *)
From Coq Require Import List QArith Bool NArith.
From DV Require Export Base.Corr Model.C15_HV.
Import ListNotations.
Local Open Scope Q_scope.

Inductive case :=
(* hypervolume(points, ref): [obs] = values returned by every implementation that was run
   (rebuilt C extension, pyhv); [grid]: also evaluate the grid measure and the last-coordinate
   variant (only requested when the grid is small) *)
| CHv (ref : list Q) (pts : list (list Q)) (grid : bool) (obs : list Q)
(* benchmarks.tools.hypervolume(front, ref): weights, values of the individuals, optional ref *)
| CPop (w : list Q) (vals : list (list Q)) (refo : option (list Q)) (obs : list Q)
(* tools.indicator.hypervolume(front, ref=...): returned index (one per back-end) and the
   leave-one-out values the back-end produced *)
| CInd (w : list Q) (vals : list (list Q)) (refo : option (list Q)) (obs_idx : list nat)
       (obs_contrib : list (list Q)).

Definition all_eq (x : Q) (obs : list Q) : bool := forallb (Qeq_bool x) obs.

Definition check (c : case) : bool :=
  match c with
  | CHv ref pts grid obs =>
      let v := hv ref pts in
      all_eq v obs &&
      (if grid then Qeq_bool v (grid_measure ref pts) && Qeq_bool v (hv_last ref pts) else true)
  | CPop w vals refo obs => all_eq (pop_hv w vals refo) obs
  | CInd w vals refo oi oc =>
      let P := wobj w vals in
      let r := the_ref refo P in
      forallb (Nat.eqb (indicator w vals refo)) oi &&
      forallb (list_eqb Qeq_bool (loo r P)) oc
  end.
