(* Correspondence runner for C15: the harness writes the point sets / populations given to the
   hypervolume routines of the working tree and what they returned (exact rationals: all inputs are
   integers or short dyadics, so every double result is exact); check recomputes with the model. *)
From Coq Require Import List QArith Bool NArith.
From DV Require Export Base.Corr Model.C15_HV Model.C15_Sweep.
Import ListNotations.
Local Open Scope Q_scope.

Inductive case :=
(* hypervolume(points, ref): [obs] = values returned by every implementation that was run
   (rebuilt C extension, pyhv); [grid]: also evaluate the grid measure and the last-coordinate
   variant (only requested when the grid is small) *)
| CHv (ref : list Q) (pts : list (list Q)) (grid : bool) (obs : list Q)
(* benchmarks.tools.hypervolume(front, ref): weights, values of the individuals, optional ref *)
| CPop (w : list Q) (vals : list (list Q)) (refo : option (list Q)) (obs : list Q)
(* one / two objectives: the transcribed code paths of _hv.c (chv1, chv2) and pyhv.py (pyhv1, pyhv2)
   against what the respective implementation returned *)
| CLow (ref : list Q) (pts : list (list Q)) (obs_c obs_py : option Q)
(* the routines are pure in the model: [unmodified] = the argument objects (points, reference, population,
   ref keyword) still hold the same values after the call(s); only written by the harness when false *)
| CPure (unmodified : bool)
(* tools.indicator.hypervolume(front, ref=...): returned index (one per back-end) and the
   leave-one-out values the back-end produced *)
| CInd (w : list Q) (vals : list (list Q)) (refo : option (list Q)) (obs_idx : list nat)
       (obs_contrib : list (list Q)).

Definition all_eq (x : Q) (obs : list Q) : bool := forallb (Qeq_bool x) obs.

Definition to_pt (p : list Q) : pt := (hd0 p, hd0 (tl p)).
Definition opt_eq (v : Q) (o : option Q) : bool := match o with None => true | Some x => Qeq_bool v x end.

Definition check (c : case) : bool :=
  match c with
  | CHv ref pts grid obs =>
      let v := hv ref pts in
      all_eq v obs &&
      (if grid then Qeq_bool v (grid_measure ref pts) && Qeq_bool v (hv_last ref pts) else true)
  | CLow ref pts oc op =>
      match ref with
      | [r] => opt_eq (chv1 r (map hd0 pts)) oc && opt_eq (pyhv1 r (map hd0 pts)) op
      | [rx; ry] => opt_eq (chv2 rx ry (map to_pt pts)) oc && opt_eq (pyhv2 rx ry (map to_pt pts)) op
      | _ => false
      end
  | CPure unmodified => unmodified
  | CPop w vals refo obs => all_eq (pop_hv w vals refo) obs
  | CInd w vals refo oi oc =>
      let P := wobj w vals in
      let r := the_ref refo P in
      forallb (Nat.eqb (indicator w vals refo)) oi &&
      forallb (list_eqb Qeq_bool (loo r P)) oc
  end.
