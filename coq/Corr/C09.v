(* Correspondence runner for C09: the harness writes the individuals given to the operator, the
   recorded draw stream, what the individuals contained afterwards (or the exception) and the
   first-appearance numbering of id() of the returned objects (inputs are numbered 0, 1);
   check recomputes the result with the model. *)
From Coq Require Import List ZArith QArith Bool.
From DV Require Export Base.Corr Base.PyList Model.C09_SeqOps.
Import ListNotations.
Local Open Scope Z_scope.

Definition exn_eqb (a b : exn) : bool :=
  match a, b with ValueError, ValueError => true | IndexError, IndexError => true | _, _ => false end.

Definition outcome_eqb {R} (eqb : R -> R -> bool) (a b : outcome R) : bool :=
  match a, b with
  | Ok x, Ok y => eqb x y
  | Raise e, Raise f => exn_eqb e f
  | _, _ => false          (* Mismatch never equals an observation *)
  end.

Definition zl_eqb := list_eqb Z.eqb.
Definition zl2_eqb := pair_eqb zl_eqb zl_eqb.
Definition nl_eqb := list_eqb Nat.eqb.

Definition gene_eqb (a b : gene) : bool :=
  match a, b with
  | GInt x, GInt y => x =? y
  | GBool x, GBool y => Bool.eqb x y
  | GFloat x, GFloat y => x =? y
  | _, _ => false
  end.

(* the operators return (ind1, ind2) resp. (individual,): ids [0;1] resp. [0]; nothing on an exception *)
Definition ids_ok {R} (n : nat) (o : outcome R) (ids : list nat) : bool :=
  match o with
  | Ok _ => nl_eqb ids (seq 0 n)
  | _ => nl_eqb ids []
  end.

Inductive case :=
| COnePoint (p1 p2 : list Z) (ds : list draw) (obs : outcome (list Z * list Z)) (ids : list nat)
| CTwoPoint (p1 p2 : list Z) (ds : list draw) (obs : outcome (list Z * list Z)) (ids : list nat)
| CUniform (p1 p2 : list Z) (indpb : Q) (ds : list draw) (obs : outcome (list Z * list Z)) (ids : list nat)
| CMessy (p1 p2 : list Z) (ds : list draw) (obs : outcome (list Z * list Z)) (ids : list nat)
| CES (g1 s1 g2 s2 : list Z) (ds : list draw)
      (obs : outcome ((list Z * list Z) * (list Z * list Z))) (ids : list nat)
| CPMX (p1 p2 : list Z) (ds : list draw) (obs : outcome (list Z * list Z)) (ids : list nat)
| CUPMX (p1 p2 : list Z) (indpb : Q) (ds : list draw) (obs : outcome (list Z * list Z)) (ids : list nat)
| COrdered (p1 p2 : list Z) (ds : list draw) (obs : outcome (list Z * list Z)) (ids : list nat)
| CShuffle (p : list Z) (indpb : Q) (ds : list draw) (obs : outcome (list Z)) (ids : list nat)
| CFlip (p : list gene) (indpb : Q) (ds : list draw) (obs : outcome (list gene)) (ids : list nat)
| CUniformInt (p : list Z) (low up : bound) (indpb : Q) (ds : list draw) (obs : outcome (list Z)) (ids : list nat)
| CInversion (p : list Z) (ds : list draw) (obs : outcome (list Z)) (ids : list nat).

Definition chk2 (m : M (list Z * list Z)) ds obs ids : bool :=
  outcome_eqb zl2_eqb (run m ds) obs && ids_ok 2 obs ids.
Definition chk1 (m : M (list Z)) ds obs ids : bool :=
  outcome_eqb zl_eqb (run m ds) obs && ids_ok 1 obs ids.

(* the twelve operators, so that the same runner serves the hand-written model and the definitions
   regenerated from the source text (Corr/C09_gen.v) *)
Record ops := mkops {
  o_one_point : list Z -> list Z -> M (list Z * list Z);
  o_two_point : list Z -> list Z -> M (list Z * list Z);
  o_uniform : list Z -> list Z -> Q -> M (list Z * list Z);
  o_messy : list Z -> list Z -> M (list Z * list Z);
  o_es : list Z * list Z -> list Z * list Z -> M ((list Z * list Z) * (list Z * list Z));
  o_pmx : list Z -> list Z -> M (list Z * list Z);
  o_upmx : list Z -> list Z -> Q -> M (list Z * list Z);
  o_ordered : list Z -> list Z -> M (list Z * list Z);
  o_shuffle : list Z -> Q -> M (list Z);
  o_flip : list gene -> Q -> M (list gene);
  o_uniform_int : list Z -> bound -> bound -> Q -> M (list Z);
  o_inversion : list Z -> M (list Z)
}.

Definition check_with (o : ops) (c : case) : bool :=
  match c with
  | COnePoint p1 p2 ds obs ids => chk2 (o_one_point o p1 p2) ds obs ids
  | CTwoPoint p1 p2 ds obs ids => chk2 (o_two_point o p1 p2) ds obs ids
  | CUniform p1 p2 pb ds obs ids => chk2 (o_uniform o p1 p2 pb) ds obs ids
  | CMessy p1 p2 ds obs ids => chk2 (o_messy o p1 p2) ds obs ids
  | CES g1 s1 g2 s2 ds obs ids =>
      outcome_eqb (pair_eqb zl2_eqb zl2_eqb) (run (o_es o (g1, s1) (g2, s2)) ds) obs && ids_ok 2 obs ids
  | CPMX p1 p2 ds obs ids => chk2 (o_pmx o p1 p2) ds obs ids
  | CUPMX p1 p2 pb ds obs ids => chk2 (o_upmx o p1 p2 pb) ds obs ids
  | COrdered p1 p2 ds obs ids => chk2 (o_ordered o p1 p2) ds obs ids
  | CShuffle p pb ds obs ids => chk1 (o_shuffle o p pb) ds obs ids
  | CFlip p pb ds obs ids =>
      outcome_eqb (list_eqb gene_eqb) (run (o_flip o p pb) ds) obs && ids_ok 1 obs ids
  | CUniformInt p low up pb ds obs ids => chk1 (o_uniform_int o p low up pb) ds obs ids
  | CInversion p ds obs ids => chk1 (o_inversion o p) ds obs ids
  end.

Definition model_ops : ops :=
  mkops (@cxOnePoint Z) (@cxTwoPoint Z) (@cxUniform Z) (@cxMessyOnePoint Z) (@cxESTwoPoint Z Z)
        cxPartialyMatched cxUniformPartialyMatched cxOrdered
        (@mutShuffleIndexes Z) mutFlipBit mutUniformInt (@mutInversion Z).

Definition check : case -> bool := check_with model_ops.
