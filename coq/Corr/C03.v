(* Correspondence runner for C03.  The harness (harness/c03.py) runs the real loops of
   deap.algorithms / deap.gp.harm with recording operators and writes: the initial objects, the
   oracle answers it observed (selection positions, objects returned by variation / generate, the
   event stream of harm's generator) together with the arguments those operators were called with,
   and everything observable: evaluate call log per generation, batches given to the hall of fame,
   logbook records (gen, nevals, population snapshot taken by a Statistics function, best of the
   hall of fame), the final content of the caller's list and whether it is the returned object.
   check re-runs the model on the answers and compares all of it; it also evaluates the boolean
   versions of the hypotheses of the theorems (selection answers in range and of the requested
   length, variation contract), so the hypotheses are validated on every real run. *)
From Coq Require Import List ZArith Bool Arith QArith.
From DV Require Export Base.Corr Base.PyTuple Base.PyList Model.C03_Loops.
Import ListNotations.
Local Close Scope Q_scope.
Local Open Scope nat_scope.

Definition G := list Z.
Definition F := list Z.
Definition cind := @ind G F.
Definition cstate := @state G F.
Definition crec := @rec G F.
Definition cans := @ans G F.
Definition cev := @ev G.

(* the evaluation function used by the harness: a function of the genotype only *)
Record evp := mkevp { ev_a : Z; ev_b : Z; ev_m : Z; ev_two : bool; ev_off : Z }.
Fixpoint wsum (k : Z) (g : list Z) : Z :=
  match g with [] => 0%Z | x :: r => (k * x + wsum (k + 1) r)%Z end.
Definition ev_fun (p : evp) (g : G) : F :=
  ((ev_a p * wsum 1 g + ev_b p) mod ev_m p + ev_off p)%Z ::
  (if ev_two p then [(Z.of_nat (length g) - fold_left Z.add g 0)%Z] else []).

(* Fitness.__le__ : wvalues <= other.wvalues, wvalues = values * weights *)
Definition wfle (w : list Z) (a b : F) : bool := tup_le (map2 Z.mul a w) (map2 Z.mul b w).

Definition zl_eqb := list_eqb Z.eqb.
Definition ofit_eqb := option_eqb zl_eqb.
Definition ind_eqb (a b : cind) : bool := zl_eqb (geno a) (geno b) && ofit_eqb (fit a) (fit b).
Definition snap_eqb := list_eqb (pair_eqb Nat.eqb (option_eqb ind_eqb)).
Definition rec_eqb (a b : crec) : bool :=
  Nat.eqb (r_gen a) (r_gen b) && Nat.eqb (r_nevals a) (r_nevals b) &&
  snap_eqb (r_snap a) (r_snap b) && ofit_eqb (r_best a) (r_best b).
Definition calls_eqb := list_eqb (list_eqb (pair_eqb Nat.eqb zl_eqb)).
Definition ul_eqb := list_eqb Nat.eqb.

Inductive kind := KSimple | KPlus | KComma | KGU.

(* what was observed around one generation's oracle calls *)
Record obs_gen := mkog {
  og_selarg : list uid;   (* argument list of toolbox.select (toolbox.update for generate-update) *)
  og_selk : nat;          (* requested count *)
  og_selidx : list nat;   (* positions of the returned objects in the argument *)
  og_selbest : bool;      (* the selector was tools.selBest *)
  og_varin : list uid;    (* list given to varAnd / varOr *)
  og_off : list (uid * cind) }.  (* objects returned by varAnd / varOr / toolbox.generate *)

(* ---- boolean hypotheses ---- *)
Definition sel_ok_b (arg : list uid) (k : nat) (idxs : list nat) : bool :=
  Nat.eqb (length idxs) k && forallb (fun i => i <? length arg) idxs.

(* C02 conclusions, used as hypothesis on variation:
   every returned object is new or an untouched existing object; a returned object with a valid
   fitness carries genotype and fitness of one of the input individuals; the returned objects
   with an invalid fitness are pairwise distinct objects *)
Fixpoint nodup_b (l : list uid) : bool :=
  match l with [] => true | x :: r => negb (existsb (Nat.eqb x) r) && nodup_b r end.
Definition var_ok_b (st : @store G F) (inp : list uid) (off : list (uid * cind)) : bool :=
  forallb (fun p => match st (fst p) with None => true | Some i => ind_eqb i (snd p) end) off &&
  forallb (fun p => forallb (fun q => negb (Nat.eqb (fst p) (fst q)) || ind_eqb (snd p) (snd q)) off) off &&
  forallb (fun p => match fit (snd p) with
                    | None => true
                    | Some f => existsb (fun u => match st u with
                                                 | Some i => ind_eqb i (snd p)
                                                 | None => false end) inp
                    end) off &&
  nodup_b (map fst (filter (fun p => match fit (snd p) with None => true | Some _ => false end) off)).

(* pre-set fitnesses of the initial population are truthful (hypothesis init_ok) *)
Definition init_ok_b (p : evp) (st : @store G F) (pop : list uid) : bool :=
  forallb (fun u => match st u with
                    | Some i => match fit i with
                                | None => true
                                | Some f => zl_eqb f (ev_fun p (geno i))
                                end
                    | None => false
                    end) pop.

Definition to_ans (o : obs_gen) : cans := mkans (og_selidx o) (og_off o).

Definition step_kind (p : evp) (w : list Z) (k : kind) (gen : nat) (s : cstate) (a : cans) : cstate :=
  match k with
  | KSimple => step_simple (ev_fun p) (wfle w) gen s a
  | KPlus => step_plus (ev_fun p) (wfle w) gen s a
  | KComma => step_comma (ev_fun p) (wfle w) gen s a
  | KGU => step_gu (ev_fun p) (wfle w) gen s a
  end.

Fixpoint check_gens (p : evp) (w : list Z) (k : kind) (mu lam : nat) (gen : nat) (s : cstate)
         (gens : list obs_gen) : option cstate :=
  match gens with
  | [] => Some s
  | o :: r =>
      let a := mkans (og_selidx o) (og_off o) in
      let offu := map fst (og_off o) in
      let pop := s_pop s in
      let s' := step_kind p w k gen s a in
      let ok :=
        match k with
        | KSimple =>
            ul_eqb (og_selarg o) pop && Nat.eqb (og_selk o) (length pop) &&
            sel_ok_b pop (og_selk o) (og_selidx o) &&
            ul_eqb (og_varin o) (select_by pop (og_selidx o)) &&
            Nat.eqb (length offu) (length (og_varin o)) &&
            var_ok_b (s_st s) (og_varin o) (og_off o) &&
            (negb (og_selbest o) || ul_eqb (og_varin o) (sel_best (wfle w) (s_st s) pop (og_selk o)))
        | KPlus =>
            ul_eqb (og_varin o) pop && Nat.eqb (length offu) lam &&
            var_ok_b (s_st s) pop (og_off o) &&
            ul_eqb (og_selarg o) (pop ++ offu) && Nat.eqb (og_selk o) mu &&
            sel_ok_b (pop ++ offu) mu (og_selidx o) &&
            (negb (og_selbest o) || ul_eqb (s_pop s') (sel_best (wfle w) (s_st s') (pop ++ offu) mu))
        | KComma =>
            ul_eqb (og_varin o) pop && Nat.eqb (length offu) lam &&
            var_ok_b (s_st s) pop (og_off o) &&
            ul_eqb (og_selarg o) offu && Nat.eqb (og_selk o) mu &&
            sel_ok_b offu mu (og_selidx o) &&
            (negb (og_selbest o) || ul_eqb (s_pop s') (sel_best (wfle w) (s_st s') offu mu))
        | KGU =>
            (* toolbox.update(population) got the generated list; generated objects are new, distinct *)
            ul_eqb (og_selarg o) offu && nodup_b offu &&
            forallb (fun u => is_fresh (s_st s) u) offu
        end in
      if ok then check_gens p w k mu lam (S gen) s' r else None
  end.

Definition state_matches (s : cstate) (o_calls : list (list (uid * G))) (o_log : list crec)
           (o_shown : list (list uid)) (o_final : list uid) : bool :=
  calls_eqb (s_calls s) o_calls && list_eqb rec_eqb (s_log s) o_log &&
  list_eqb ul_eqb (s_shown s) o_shown && ul_eqb (s_pop s) o_final.

Inductive case :=
| CLoop (k : kind) (ngen : nat) (p : evp) (w : list Z) (mu lam : nat)
        (objs : list (uid * cind)) (pop : list uid) (gens : list obs_gen)
        (o_calls : list (list (uid * G))) (o_log : list crec) (o_shown : list (list uid))
        (o_final : list uid) (o_inplace : bool)
| CHarm (ngen : nat) (p : evp) (w : list Z) (cxpb mutpb : Q) (nbrindsmodel : Z)
        (objs : list (uid * cind)) (pop : list uid) (gens : list (list cev))
        (o_calls : list (list (uid * G))) (o_log : list crec) (o_shown : list (list uid))
        (o_final : list uid) (o_inplace : bool).

Definition check (c : case) : bool :=
  match c with
  | CLoop k ngen p w mu lam objs pop gens o_calls o_log o_shown o_final o_inplace =>
      let st0 := add_objs empty_store objs in
      let s0 := match k with
                | KGU => init st0 pop     (* pop = [] : the local `population` before the loop *)
                | _ => gen0 (ev_fun p) (wfle w) (init st0 pop)
                end in
      let first := match k with KGU => 0 | _ => 1 end in
      init_ok_b p st0 pop &&
      match check_gens p w k mu lam first s0 gens with
      | Some s => Nat.eqb (length gens) ngen && state_matches s o_calls o_log o_shown o_final && o_inplace
      | None => false
      end
  | CHarm ngen p w cxpb mutpb nbr objs pop gens o_calls o_log o_shown o_final o_inplace =>
      let st0 := add_objs empty_store objs in
      init_ok_b p st0 pop &&
      match ea_harm (ev_fun p) (wfle w) cxpb mutpb nbr st0 pop gens with
      | Ok s => Nat.eqb (length gens) ngen && state_matches s o_calls o_log o_shown o_final && o_inplace
      | _ => false
      end
  end.

(* diagnostic helper for development: the first component that differs (not used by the check) *)
Definition why (c : case) : nat :=
  match c with
  | CLoop k ngen p w mu lam objs pop gens o_calls o_log o_shown o_final o_inplace =>
      let st0 := add_objs empty_store objs in
      let s0 := match k with KGU => init st0 pop | _ => gen0 (ev_fun p) (wfle w) (init st0 pop) end in
      let first := match k with KGU => 0 | _ => 1 end in
      match check_gens p w k mu lam first s0 gens with
      | Some s => if negb (Nat.eqb (length gens) ngen) then 8 else if negb (calls_eqb (s_calls s) o_calls) then 1
                  else if negb (list_eqb rec_eqb (s_log s) o_log) then 2
                  else if negb (list_eqb ul_eqb (s_shown s) o_shown) then 3
                  else if negb (ul_eqb (s_pop s) o_final) then 4
                  else if negb o_inplace then 5 else 0
      | None => 9
      end
  | CHarm ngen p w cxpb mutpb nbr objs pop gens o_calls o_log o_shown o_final o_inplace =>
      let st0 := add_objs empty_store objs in
      match ea_harm (ev_fun p) (wfle w) cxpb mutpb nbr st0 pop gens with
      | Ok s => if negb (Nat.eqb (length gens) ngen) then 8 else if negb (calls_eqb (s_calls s) o_calls) then 1
                else if negb (list_eqb rec_eqb (s_log s) o_log) then 2
                else if negb (list_eqb ul_eqb (s_shown s) o_shown) then 3
                else if negb (ul_eqb (s_pop s) o_final) then 4
                else if negb o_inplace then 5 else 0
      | Mismatch c => 100 + c
      | OutOfFuel => 99
      end
  end.
