(* Correspondence runner for C17.  The harness runs the DEAP program `modelga` (harness/c17_families.py:
   tools.selTournament, algorithms.varAnd / varOr, tools.cxOnePoint, tools.mutFlipBit, HallOfFame, MultiStatistics,
   Logbook, toolbox.map) in fresh interpreter processes on an explicit draw list and writes, for every
   generation boundary, the token list of the objects it holds (the Python mirror of `save`).  check
   recomputes every boundary with the model:
     CRun     uninterrupted run (serial map, or pool map with the observed completion orders)
     CResume  process killed after generation k; tokens of the pickled dictionary as seen by the saving
              process; boundaries k..ngen as seen by the NEW process that unpickled it
     CPmap    one toolbox.map call through a process pool: observed completion order, inputs, gathered results
     COrder   the completion order a pool of w workers produces for given task durations (model only: permutation) *)
From Coq Require Import List ZArith Bool.
From DV Require Export Base.Corr Base.PyTuple Base.C17_Codec Model.C17_Repro.
Import ListNotations.
Local Open Scope Z_scope.

Definition zl_eqb := list_eqb Z.eqb.
Definition zll_eqb := list_eqb zl_eqb.

Definition sched_of (tbl : list (Z * list nat)) : schedule := fun g n =>
  match find (fun p => fst p =? g) tbl with
  | Some p => snd p
  | None => seq 0 n
  end.

Inductive case :=
| CRun (P : params) (pop0 : list (list bool)) (hofmax : Z) (loop : Z) (ngen : nat) (scheds : list (Z * list nat))
       (obs : list (list Z))
| CResume (P : params) (pop0 : list (list bool)) (hofmax : Z) (loop : Z) (ngen k : nat) (ckpt : list Z)
          (obs : list (list Z))
| CPmap (P : params) (sched : list nat) (xs : list (list bool)) (results : list (list Z))
| COrder (w : nat) (delays : list Z).

Definition check (c : case) : bool :=
  match c with
  | CRun P pop0 hofmax loop ngen scheds obs =>
      let s0 := init_state pop0 hofmax in
      zll_eqb (map save (trace (step P (sched_of scheds)) (gens_of loop ngen) s0)) obs
  | CResume P pop0 hofmax loop ngen k ckpt obs =>
      let s0 := init_state pop0 hofmax in
      let g1 := firstn (S k) (gens_of loop ngen) in
      let g2 := skipn (S k) (gens_of loop ngen) in
      let sk := run (step P serial) g1 s0 in
      zl_eqb (save sk) ckpt &&
      match restore ckpt with
      | None => false
      | Some s' => zll_eqb (save s' :: map save (trace (step P serial) g2 s')) obs
      end &&
      (* and the model's own kill/resume agrees with its uninterrupted run *)
      match resume_run P serial g1 g2 s0 with
      | None => false
      | Some sf => zl_eqb (save sf) (save (run (step P serial) (gens_of loop ngen) s0))
      end
  | CPmap P sched xs results =>
      is_perm_of_seq sched (length xs) &&
      list_eqb (option_eqb zl_eqb) (pmap sched (evalw P) xs) (map Some results)
  | COrder w delays =>
      is_perm_of_seq (completion_order w delays) (length delays)
  end.
