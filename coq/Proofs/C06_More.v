(* C06 proofs, part 7: first maximum, Fitness.dominates, the DCD pair rule, and totality
   (every draw log that CPython's random can produce is accepted: the model answers Ok). *)
From Coq Require Import List Bool Arith Permutation QArith Lia Lqa.
From DV Require Import Base.PyList Base.C06_Py Model.C06_Select Proofs.C06_Sort Proofs.C06_Basic
  Proofs.C06_Roulette Proofs.C06_SUS.
Import ListNotations.

(* ---------- max(key=) returns the FIRST maximum ---------- *)
Section FirstMax.
  Context {A : Type} (gt : A -> A -> bool).
  Hypothesis gt_trans : forall a b c, gt a b = true -> gt b c = true -> gt a c = true.
  Hypothesis gt_negtrans : forall a b c, gt a b = false -> gt b c = false -> gt a c = false.
  Hypothesis gt_irrefl : forall a, gt a a = false.

  Lemma max_from_first l : forall best,
    exists l1 l2, best :: l = l1 ++ max_from gt best l :: l2 /\
                  Forall (fun x => gt (max_from gt best l) x = true) l1.
  Proof.
    induction l as [|x r IH]; intro best; cbn [max_from].
    - exists [], []. split; [reflexivity|constructor].
    - destruct (gt x best) eqn:E.
      + destruct (IH x) as (l1 & l2 & E1 & F). exists (best :: l1), l2. split; [cbn; rewrite E1; reflexivity|].
        constructor; [|exact F].
        destruct (max_from_spec gt gt_trans gt_negtrans gt_irrefl r x _ eq_refl) as [_ Hmax].
        specialize (Hmax x (or_introl eq_refl)).
        destruct (gt (max_from gt x r) best) eqn:G; [reflexivity|].
        rewrite (gt_negtrans _ _ _ Hmax G) in E. discriminate.
      + destruct (IH best) as (l1 & l2 & E1 & F). destruct l1 as [|b l1].
        * cbn in E1. injection E1 as Eb Er. exists [], (x :: r). split; [cbn; rewrite <- Eb; reflexivity|constructor].
        * cbn in E1. injection E1 as Eb Er. subst b. exists (best :: x :: l1), l2.
          split; [cbn; do 2 f_equal; exact Er|].
          inversion F as [|? ? Fb F']; subst. constructor; [exact Fb|]. constructor; [|exact F'].
          destruct (gt (max_from gt best r) x) eqn:G; [reflexivity|].
          rewrite (gt_negtrans _ _ _ G E) in Fb. discriminate.
  Qed.

  Lemma py_max_first l m : py_max gt l = Some m ->
    exists l1 l2, l = l1 ++ m :: l2 /\ Forall (fun x => gt m x = true) l1.
  Proof.
    destruct l as [|x r]; cbn; [discriminate|]. intro H; inversion H; subst. apply max_from_first.
  Qed.
End FirstMax.

Lemma best_of_first asp ds w rest : best_of asp ds = Ok w rest ->
  exists l1 l2, asp = l1 ++ w :: l2 /\ Forall (fun x => f_lt x w = true) l1.
Proof.
  unfold best_of. destruct (py_max f_gt asp) as [x|] eqn:E; [|discriminate].
  intro H. apply ret_Ok in H as [<- _].
  eapply py_max_first in E.
  - destruct E as (l1 & l2 & E1 & F). exists l1, l2. split; [exact E1|].
    eapply Forall_impl; [|exact F]. intros a Ha. cbv beta in Ha. rewrite f_gt_lt in Ha. exact Ha.
  - intros a b c. rewrite !f_gt_lt. intros H1 H2. eapply f_lt_trans; eauto.
  - intros a b c. rewrite !f_gt_lt. intros H1 H2. eapply f_lt_negtrans; eauto.
  - intro a. rewrite f_gt_lt. apply qtup_lt_irrefl.
Qed.

(* ---------- Fitness.dominates ---------- *)
Lemma dom_loop_spec ps : forall ne,
  dom_loop ps ne = true <->
  Forall (fun p => snd p <= fst p) ps /\ (ne = true \/ Exists (fun p => snd p < fst p) ps).
Proof.
  induction ps as [|[s o] r IH]; intro ne; cbn [dom_loop].
  - split; [intro H; split; [constructor|left; exact H]|].
    intros [_ [H|H]]; [exact H|inversion H].
  - destruct (Qltb o s) eqn:E1; [|destruct (Qltb s o) eqn:E2]; qbool.
    + rewrite IH. split.
      * intros [F _]. split; [constructor; [cbn; lra|exact F]|right; left; exact E1].
      * intros [F _]. inversion F; subst. split; [assumption|left; reflexivity].
    + split; [discriminate|]. intros [F _]. inversion F; subst. cbn in *. lra.
    + rewrite IH. split.
      * intros [F H]. split; [constructor; [cbn; lra|exact F]|].
        destruct H as [H|H]; [left; exact H|right; right; exact H].
      * intros [F H]. inversion F; subst. split; [assumption|].
        destruct H as [H|H]; [left; exact H|]. inversion H; subst; [cbn in *; lra|right; assumption].
Qed.

Lemma dominates_spec a b :
  dominates a b = true <->
  Forall (fun p => snd p <= fst p) (zip (wv a) (wv b)) /\ Exists (fun p => snd p < fst p) (zip (wv a) (wv b)).
Proof.
  unfold dominates. rewrite dom_loop_spec. split; intros [F H]; (split; [exact F|]).
  - destruct H as [H|H]; [discriminate|exact H].
  - right; exact H.
Qed.

(* the binary tournament of selTournamentDCD *)
Lemma tourn_rule x y ds z rest : tourn x y ds = Ok z rest ->
  (dominates x y = true -> z = x /\ rest = ds) /\
  (dominates x y = false -> dominates y x = true -> z = y /\ rest = ds) /\
  (dominates x y = false -> dominates y x = false ->
     (cd_lt (cd x) (cd y) = true -> z = y /\ rest = ds) /\
     (cd_lt (cd x) (cd y) = false -> cd_lt (cd y) (cd x) = true -> z = x /\ rest = ds) /\
     (cd_lt (cd x) (cd y) = false -> cd_lt (cd y) (cd x) = false ->
        exists u, ds = DRandom u :: rest /\ 0 <= u /\ u < 1 /\ (u <= 1 # 2 -> z = x) /\ (1 # 2 < u -> z = y))).
Proof.
  unfold tourn. intro H.
  destruct (dominates x y); [apply ret_Ok in H as [<- <-]; repeat split; try discriminate; auto|].
  destruct (dominates y x); [apply ret_Ok in H as [<- <-]; repeat split; try discriminate; auto|].
  destruct (cd_lt (cd x) (cd y)); [apply ret_Ok in H as [<- <-]; repeat split; try discriminate; auto|].
  destruct (cd_lt (cd y) (cd x)); [apply ret_Ok in H as [<- <-]; repeat split; try discriminate; auto|].
  bind_inv H as u d Hu Hr. apply random01_Ok in Hu as (U0 & U1 & ->). apply ret_Ok in Hr as [<- <-].
  split; [discriminate|]. split; [discriminate|]. intros _ _. split; [discriminate|]. split; [discriminate|].
  intros _ _. exists u. repeat split; auto.
  - intro L. assert (E : Qle_bool u (1 # 2) = true) by (qbool; exact L). rewrite E. reflexivity.
  - intro L. assert (E : Qle_bool u (1 # 2) = false) by (qbool; exact L). rewrite E. reflexivity.
Qed.

(* ---------- totality ---------- *)
Lemma repeatM_total {A} (body : M A) (segs : list (list draw)) :
  (forall seg, In seg segs -> forall rest, exists x, body (seg ++ rest) = Ok x rest) ->
  forall rest, exists out, repeatM (length segs) body (concat segs ++ rest) = Ok out rest.
Proof.
  induction segs as [|seg segs IH]; intros H rest; cbn [length concat repeatM].
  - exists []. reflexivity.
  - destruct (H seg (or_introl eq_refl) (concat segs ++ rest)) as [x Hx].
    destruct (IH (fun s Hs => H s (or_intror Hs)) rest) as [out Hout].
    exists (x :: out). unfold bind. rewrite <- app_assoc, Hx, Hout. reflexivity.
Qed.

Lemma choice_total {A} (l : list A) i x rest :
  nth_error l i = Some x -> choice l (DChoice (length l) i :: rest) = Ok x rest.
Proof.
  intro H. unfold choice. destruct l as [|y l]; [destruct i; discriminate|].
  rewrite Nat.eqb_refl, H. reflexivity.
Qed.

Lemma selRandom_total inds idxs rest :
  Forall (fun i => i < length inds)%nat idxs ->
  selRandom inds (length idxs) (map (DChoice (length inds)) idxs ++ rest) = Ok (pick inds idxs) rest.
Proof.
  unfold selRandom. revert rest. induction idxs as [|i idxs IH]; intros rest F; cbn [length map repeatM app].
  - reflexivity.
  - inversion F; subst. destruct (nth_error inds i) eqn:E; [|apply nth_error_None in E; lia].
    unfold bind. rewrite (choice_total inds i i0 _ E). rewrite IH by assumption.
    unfold pick. cbn. rewrite E. reflexivity.
Qed.

Lemma random01_total u rest : 0 <= u -> u < 1 -> random01 (DRandom u :: rest) = Ok u rest.
Proof.
  intros H0 H1. unfold random01.
  assert (E : Qle_bool 0 u && Qltb u 1 = true) by (apply andb_true_intro; split; qbool; assumption).
  rewrite E. reflexivity.
Qed.

(* every tournament log (k chunks of tournsize in-range choices) is accepted *)
Lemma selTournament_total inds ts (chunks : list (list nat)) rest :
  (1 <= ts)%nat ->
  Forall (fun ch => length ch = ts /\ Forall (fun i => i < length inds)%nat ch) chunks ->
  exists out, selTournament inds (length chunks) ts
                (concat (map (map (DChoice (length inds))) chunks) ++ rest) = Ok out rest.
Proof.
  intros Hts F. unfold selTournament.
  rewrite <- (map_length (map (DChoice (length inds))) chunks).
  apply repeatM_total. intros seg Hseg r.
  apply in_map_iff in Hseg as (ch & <- & Hch). eapply Forall_forall in F; [|exact Hch].
  destruct F as [L Fi]. unfold bind. subst ts. rewrite selRandom_total by exact Fi.
  unfold best_of. destruct (py_max f_gt (pick inds ch)) eqn:E; [eauto|].
  apply py_max_none in E. exfalso.
  destruct ch as [|i ch]; [cbn in Hts; lia|]. inversion Fi; subst.
  destruct (nth_error inds i) eqn:N; [|apply nth_error_None in N; lia].
  unfold pick in E. cbn in E. rewrite N in E. discriminate.
Qed.

Lemma selRoulette_total w inds us rest :
  Forall (fun x => 0 < val0 w x) inds -> Forall (fun u => 0 <= u /\ u < 1) us ->
  exists out, selRoulette w inds (length us) (map DRandom us ++ rest) = Ok out rest.
Proof.
  intros Pos Fu. unfold selRoulette. rewrite (positive_has_val0 _ _ Pos). cbn [negb].
  set (body := (u <- random01 ;; ret (spin w (py_sorted_rev f_lt inds) 0 (u * sum_fits w inds)))).
  assert (G : forall rest, exists ch, repeatM (length us) body (map DRandom us ++ rest) = Ok ch rest).
  { induction Fu as [|u us [U0 U1] Fu IH]; intro r; cbn [length map repeatM app].
    - exists []. reflexivity.
    - destruct (IH r) as [ch Hch]. eexists. unfold bind at 1. unfold body at 1. unfold bind at 1.
      rewrite (random01_total u _ U0 U1). unfold ret at 1. unfold bind. rewrite Hch. reflexivity. }
  destruct (G rest) as [ch Hch]. unfold bind. rewrite Hch. eexists. reflexivity.
Qed.

Lemma mapM_total {A B} (f : A -> M B) l :
  (forall x, In x l -> forall d, exists y, f x d = Ok y d) ->
  forall d, exists ys, mapM f l d = Ok ys d.
Proof.
  induction l as [|x r IH]; intros H d; cbn [mapM].
  - exists []. reflexivity.
  - destruct (H x (or_introl eq_refl) d) as [y Hy].
    destruct (IH (fun z Hz => H z (or_intror Hz)) d) as [ys Hys].
    exists (y :: ys). unfold bind. rewrite Hy, Hys. reflexivity.
Qed.

Lemma selSUS_total w inds k u rest :
  Forall (fun x => 0 < val0 w x) inds -> inds <> [] -> (0 < k)%nat -> 0 <= u -> u < 1 ->
  exists out, selSUS w inds k (DRandom u :: rest) = Ok out rest.
Proof.
  intros Pos Hne Hk U0 U1. unfold selSUS. rewrite (positive_has_val0 _ _ Pos). cbn [negb].
  set (s := py_sorted_rev f_lt inds). set (S := sum_fits w inds).
  assert (Perm : Permutation s inds) by apply py_sorted_rev_perm.
  assert (PosS : Forall (fun x => 0 < val0 w x) s).
  { eapply Permutation_Forall; [symmetry; exact Perm|exact Pos]. }
  assert (ES : S == tot w s).
  { unfold S. rewrite sum_fits_tot. apply tot_perm. symmetry; exact Perm. }
  assert (Hs : s <> []).
  { intro E. rewrite E in Perm. apply Permutation_nil in Perm. contradiction. }
  assert (HS : 0 < S) by (rewrite ES; apply tot_pos; assumption).
  destruct (Nat.eqb_spec k 0) as [->|_]; [lia|].
  unfold bind. rewrite (random01_total u rest U0 U1).
  rewrite (sus_points_pt S u k). apply mapM_total.
  intros p Hp d. apply in_map_iff in Hp as (i & <- & Hi). apply in_seq in Hi.
  assert (Lt : pt S u k i < S) by (apply pt_lt_S; [exact HS|exact Hk|exact U1|lia]).
  apply sus_pick_total; [exact Hs|]. rewrite <- ES. lra.
Qed.
