(* C06 proofs, part 7: first maximum, Fitness.dominates, the DCD pair rule, and totality
   (every draw log that CPython's random can produce is accepted: the model answers Ok). *)
From Coq Require Import List Bool Arith Permutation QArith Lia Lqa.
From DV Require Import Base.PyList Base.C06_Py Model.C06_Select Proofs.C06_Sort Proofs.C06_Basic
  Proofs.C06_Roulette Proofs.C06_SUS.
Import ListNotations.

(* ---------- max(key=) returns the FIRST maximum ---------- *)
Section FirstMax.
  Context {A : Type} (gt : A -> A -> bool).
  Hypothesis gt_trans : forall a b c, gt a b = true -> gt b c = true -> gt a c = true.
  Hypothesis gt_negtrans : forall a b c, gt a b = false -> gt b c = false -> gt a c = false.
  Hypothesis gt_irrefl : forall a, gt a a = false.

  Lemma max_from_first l : forall best,
    exists l1 l2, best :: l = l1 ++ max_from gt best l :: l2 /\
                  Forall (fun x => gt (max_from gt best l) x = true) l1.
  Proof.
    induction l as [|x r IH]; intro best; cbn [max_from].
    - exists [], []. split; [reflexivity|constructor].
    - destruct (gt x best) eqn:E.
      + destruct (IH x) as (l1 & l2 & E1 & F). exists (best :: l1), l2. split; [cbn; rewrite E1; reflexivity|].
        constructor; [|exact F].
        destruct (max_from_spec gt gt_trans gt_negtrans gt_irrefl r x _ eq_refl) as [_ Hmax].
        specialize (Hmax x (or_introl eq_refl)).
        destruct (gt (max_from gt x r) best) eqn:G; [reflexivity|].
        rewrite (gt_negtrans _ _ _ Hmax G) in E. discriminate.
      + destruct (IH best) as (l1 & l2 & E1 & F). destruct l1 as [|b l1].
        * cbn in E1. injection E1 as Eb Er. exists [], (x :: r). split; [cbn; rewrite <- Eb; reflexivity|constructor].
        * cbn in E1. injection E1 as Eb Er. subst b. exists (best :: x :: l1), l2.
          split; [cbn; do 2 f_equal; exact Er|].
          inversion F as [|? ? Fb F']; subst. constructor; [exact Fb|]. constructor; [|exact F'].
          destruct (gt (max_from gt best r) x) eqn:G; [reflexivity|].
          rewrite (gt_negtrans _ _ _ G E) in Fb. discriminate.
  Qed.

  Lemma py_max_first l m : py_max gt l = Some m ->
    exists l1 l2, l = l1 ++ m :: l2 /\ Forall (fun x => gt m x = true) l1.
  Proof.
    destruct l as [|x r]; cbn; [discriminate|]. intro H; inversion H; subst. apply max_from_first.
  Qed.
End FirstMax.

Lemma best_of_first asp ds w rest : best_of asp ds = Ok w rest ->
  exists l1 l2, asp = l1 ++ w :: l2 /\ Forall (fun x => f_lt x w = true) l1.
Proof.
  unfold best_of. destruct (py_max f_gt asp) as [x|] eqn:E; [|discriminate].
  intro H. apply ret_Ok in H as [<- _].
  eapply py_max_first in E.
  - destruct E as (l1 & l2 & E1 & F). exists l1, l2. split; [exact E1|].
    eapply Forall_impl; [|exact F]. intros a Ha. cbv beta in Ha. rewrite f_gt_lt in Ha. exact Ha.
  - intros a b c. rewrite !f_gt_lt. intros H1 H2. eapply f_lt_trans; eauto.
  - intros a b c. rewrite !f_gt_lt. intros H1 H2. eapply f_lt_negtrans; eauto.
  - intro a. rewrite f_gt_lt. apply qtup_lt_irrefl.
Qed.

(* ---------- Fitness.dominates ---------- *)
Lemma dom_loop_spec ps : forall ne,
  dom_loop ps ne = true <->
  Forall (fun p => snd p <= fst p) ps /\ (ne = true \/ Exists (fun p => snd p < fst p) ps).
Proof.
  induction ps as [|[s o] r IH]; intro ne; cbn [dom_loop].
  - split; [intro H; split; [constructor|left; exact H]|].
    intros [_ [H|H]]; [exact H|inversion H].
  - destruct (Qltb o s) eqn:E1; [|destruct (Qltb s o) eqn:E2]; qbool.
    + rewrite IH. split.
      * intros [F _]. split; [constructor; [cbn; lra|exact F]|right; left; exact E1].
      * intros [F _]. inversion F; subst. split; [assumption|left; reflexivity].
    + split; [discriminate|]. intros [F _]. inversion F; subst. cbn in *. lra.
    + rewrite IH. split.
      * intros [F H]. split; [constructor; [cbn; lra|exact F]|].
        destruct H as [H|H]; [left; exact H|right; right; exact H].
      * intros [F H]. inversion F; subst. split; [assumption|].
        destruct H as [H|H]; [left; exact H|]. inversion H; subst; [cbn in *; lra|right; assumption].
Qed.

Lemma dominates_spec a b :
  dominates a b = true <->
  Forall (fun p => snd p <= fst p) (zip (wv a) (wv b)) /\ Exists (fun p => snd p < fst p) (zip (wv a) (wv b)).
Proof.
  unfold dominates. rewrite dom_loop_spec. split; intros [F H]; (split; [exact F|]).
  - destruct H as [H|H]; [discriminate|exact H].
  - right; exact H.
Qed.

(* the binary tournament of selTournamentDCD *)
Lemma tourn_rule x y ds z rest : tourn x y ds = Ok z rest ->
  (dominates x y = true -> z = x /\ rest = ds) /\
  (dominates x y = false -> dominates y x = true -> z = y /\ rest = ds) /\
  (dominates x y = false -> dominates y x = false ->
     (cd_lt (cd x) (cd y) = true -> z = y /\ rest = ds) /\
     (cd_lt (cd x) (cd y) = false -> cd_lt (cd y) (cd x) = true -> z = x /\ rest = ds) /\
     (cd_lt (cd x) (cd y) = false -> cd_lt (cd y) (cd x) = false ->
        exists u, ds = DRandom u :: rest /\ 0 <= u /\ u < 1 /\ (u <= 1 # 2 -> z = x) /\ (1 # 2 < u -> z = y))).
Proof.
  unfold tourn. intro H.
  destruct (dominates x y); [apply ret_Ok in H as [<- <-]; repeat split; try discriminate; auto|].
  destruct (dominates y x); [apply ret_Ok in H as [<- <-]; repeat split; try discriminate; auto|].
  destruct (cd_lt (cd x) (cd y)); [apply ret_Ok in H as [<- <-]; repeat split; try discriminate; auto|].
  destruct (cd_lt (cd y) (cd x)); [apply ret_Ok in H as [<- <-]; repeat split; try discriminate; auto|].
  bind_inv H as u d Hu Hr. apply random01_Ok in Hu as (U0 & U1 & ->). apply ret_Ok in Hr as [<- <-].
  split; [discriminate|]. split; [discriminate|]. intros _ _. split; [discriminate|]. split; [discriminate|].
  intros _ _. exists u. repeat split; auto.
  - intro L. assert (E : Qle_bool u (1 # 2) = true) by (qbool; exact L). rewrite E. reflexivity.
  - intro L. assert (E : Qle_bool u (1 # 2) = false) by (qbool; exact L). rewrite E. reflexivity.
Qed.

(* ---------- totality ---------- *)
Lemma repeatM_total {A} (body : M A) (segs : list (list draw)) :
  (forall seg, In seg segs -> forall rest, exists x, body (seg ++ rest) = Ok x rest) ->
  forall rest, exists out, repeatM (length segs) body (concat segs ++ rest) = Ok out rest.
Proof.
  induction segs as [|seg segs IH]; intros H rest; cbn [length concat repeatM].
  - exists []. reflexivity.
  - destruct (H seg (or_introl eq_refl) (concat segs ++ rest)) as [x Hx].
    destruct (IH (fun s Hs => H s (or_intror Hs)) rest) as [out Hout].
    exists (x :: out). unfold bind. rewrite <- app_assoc, Hx, Hout. reflexivity.
Qed.

Lemma choice_total {A} (l : list A) i x rest :
  nth_error l i = Some x -> choice l (DChoice (length l) i :: rest) = Ok x rest.
Proof.
  intro H. unfold choice. destruct l as [|y l]; [destruct i; discriminate|].
  rewrite Nat.eqb_refl, H. reflexivity.
Qed.

Lemma selRandom_total inds idxs rest :
  Forall (fun i => i < length inds)%nat idxs ->
  selRandom inds (length idxs) (map (DChoice (length inds)) idxs ++ rest) = Ok (pick inds idxs) rest.
Proof.
  unfold selRandom. revert rest. induction idxs as [|i idxs IH]; intros rest F; cbn [length map repeatM app].
  - reflexivity.
  - inversion F; subst. destruct (nth_error inds i) eqn:E; [|apply nth_error_None in E; lia].
    unfold bind. rewrite (choice_total inds i i0 _ E). rewrite IH by assumption.
    unfold pick. cbn. rewrite E. reflexivity.
Qed.

Lemma random01_total u rest : 0 <= u -> u < 1 -> random01 (DRandom u :: rest) = Ok u rest.
Proof.
  intros H0 H1. unfold random01.
  assert (E : Qle_bool 0 u && Qltb u 1 = true) by (apply andb_true_intro; split; qbool; assumption).
  rewrite E. reflexivity.
Qed.

(* every tournament log (k chunks of tournsize in-range choices) is accepted *)
Lemma selTournament_total inds ts (chunks : list (list nat)) rest :
  (1 <= ts)%nat ->
  Forall (fun ch => length ch = ts /\ Forall (fun i => i < length inds)%nat ch) chunks ->
  exists out, selTournament inds (length chunks) ts
                (concat (map (map (DChoice (length inds))) chunks) ++ rest) = Ok out rest.
Proof.
  intros Hts F. unfold selTournament.
  rewrite <- (map_length (map (DChoice (length inds))) chunks).
  apply repeatM_total. intros seg Hseg r.
  apply in_map_iff in Hseg as (ch & <- & Hch). eapply Forall_forall in F; [|exact Hch].
  destruct F as [L Fi]. unfold bind. subst ts. rewrite selRandom_total by exact Fi.
  unfold best_of. destruct (py_max f_gt (pick inds ch)) eqn:E; [eauto|].
  apply py_max_none in E. exfalso.
  destruct ch as [|i ch]; [cbn in Hts; lia|]. inversion Fi; subst.
  destruct (nth_error inds i) eqn:N; [|apply nth_error_None in N; lia].
  unfold pick in E. cbn in E. rewrite N in E. discriminate.
Qed.

Lemma selRoulette_total w inds us rest :
  Forall (fun x => 0 < val0 w x) inds -> Forall (fun u => 0 <= u /\ u < 1) us ->
  exists out, selRoulette w inds (length us) (map DRandom us ++ rest) = Ok out rest.
Proof.
  intros Pos Fu. unfold selRoulette. rewrite (positive_has_val0 _ _ Pos). cbn [negb].
  set (body := (u <- random01 ;; ret (spin w (py_sorted_rev f_lt inds) 0 (u * sum_fits w inds)))).
  assert (G : forall rest, exists ch, repeatM (length us) body (map DRandom us ++ rest) = Ok ch rest).
  { induction Fu as [|u us [U0 U1] Fu IH]; intro r; cbn [length map repeatM app].
    - exists []. reflexivity.
    - destruct (IH r) as [ch Hch]. eexists. unfold bind at 1. unfold body at 1. unfold bind at 1.
      rewrite (random01_total u _ U0 U1). unfold ret at 1. unfold bind. rewrite Hch. reflexivity. }
  destruct (G rest) as [ch Hch]. unfold bind. rewrite Hch. eexists. reflexivity.
Qed.

Lemma mapM_total {A B} (f : A -> M B) l :
  (forall x, In x l -> forall d, exists y, f x d = Ok y d) ->
  forall d, exists ys, mapM f l d = Ok ys d.
Proof.
  induction l as [|x r IH]; intros H d; cbn [mapM].
  - exists []. reflexivity.
  - destruct (H x (or_introl eq_refl) d) as [y Hy].
    destruct (IH (fun z Hz => H z (or_intror Hz)) d) as [ys Hys].
    exists (y :: ys). unfold bind. rewrite Hy, Hys. reflexivity.
Qed.

Lemma selSUS_total w inds k u rest :
  Forall (fun x => 0 < val0 w x) inds -> inds <> [] -> (0 < k)%nat -> 0 <= u -> u < 1 ->
  exists out, selSUS w inds k (DRandom u :: rest) = Ok out rest.
Proof.
  intros Pos Hne Hk U0 U1. unfold selSUS. rewrite (positive_has_val0 _ _ Pos). cbn [negb].
  set (s := py_sorted_rev f_lt inds). set (S := sum_fits w inds).
  assert (Perm : Permutation s inds) by apply py_sorted_rev_perm.
  assert (PosS : Forall (fun x => 0 < val0 w x) s).
  { eapply Permutation_Forall; [symmetry; exact Perm|exact Pos]. }
  assert (ES : S == tot w s).
  { unfold S. rewrite sum_fits_tot. apply tot_perm. symmetry; exact Perm. }
  assert (Hs : s <> []).
  { intro E. rewrite E in Perm. apply Permutation_nil in Perm. contradiction. }
  assert (HS : 0 < S) by (rewrite ES; apply tot_pos; assumption).
  destruct (Nat.eqb_spec k 0) as [->|_]; [lia|].
  unfold bind. rewrite (random01_total u rest U0 U1).
  rewrite (sus_points_pt S u k). apply mapM_total.
  intros p Hp d. apply in_map_iff in Hp as (i & <- & Hi). apply in_seq in Hi.
  assert (Lt : pt S u k i < S) by (apply pt_lt_S; [exact HS|exact Hk|exact U1|lia]).
  apply sus_pick_total; [exact Hs|]. rewrite <- ES. lra.
Qed.

(* ---------- totality: lexicase family and selTournamentDCD ---------- *)
From DV Require Import Proofs.C06_Lexicase Proofs.C06_DCD.

Lemma shuffle_total {A} (l : list A) p rest :
  is_perm p (length l) = true -> shuffle l (DShuffle p :: rest) = Ok (pick l p) rest.
Proof. intro H. unfold shuffle. rewrite H. reflexivity. Qed.

(* a round log: a permutation of the cases, then the index of the winner among the survivors *)
Definition lex_round_ok (step : nat -> list ind -> list ind) (w : list Q) (inds : list ind)
           (pi : list nat * nat) : Prop :=
  match inds with
  | [] => False
  | x0 :: _ =>
      let m := length (values w x0) in
      is_perm (fst pi) m = true /\
      (snd pi < length (lex_filter step (pick (seq 0 m) (fst pi)) inds))%nat
  end.

Definition lex_round_draws (step : nat -> list ind -> list ind) (w : list Q) (inds : list ind)
           (pi : list nat * nat) : list draw :=
  match inds with
  | [] => []
  | x0 :: _ =>
      let m := length (values w x0) in
      [DShuffle (fst pi); DChoice (length (lex_filter step (pick (seq 0 m) (fst pi)) inds)) (snd pi)]
  end.

Lemma lexicase_gen_total step w inds (rounds : list (list nat * nat)) rest :
  Forall (lex_round_ok step w inds) rounds ->
  exists out, lexicase_gen step w inds (length rounds)
                (concat (map (lex_round_draws step w inds) rounds) ++ rest) = Ok out rest.
Proof.
  intro F. unfold lexicase_gen.
  rewrite <- (map_length (lex_round_draws step w inds) rounds).
  apply repeatM_total. intros seg Hseg r.
  apply in_map_iff in Hseg as (pi & <- & Hpi). eapply Forall_forall in F; [|exact Hpi].
  unfold lex_round_ok, lex_round_draws in *. destruct inds as [|x0 tl]; [contradiction|].
  destruct F as [P L]. cbn [app]. unfold bind.
  rewrite shuffle_total by (rewrite seq_length; exact P).
  set (sv := lex_filter step (pick (seq 0 (length (values w x0))) (fst pi)) (x0 :: tl)) in *.
  destruct (nth_error sv (snd pi)) eqn:E; [|apply nth_error_None in E; lia].
  exists i. apply choice_total. exact E.
Qed.

Definition all_random (ds : list draw) : Prop :=
  Forall (fun d => exists u, d = DRandom u /\ 0 <= u /\ u < 1) ds.

Lemma tourn_total x y ds : all_random ds -> (1 <= length ds)%nat ->
  exists z rest, tourn x y ds = Ok z rest /\ all_random rest /\ (length ds <= length rest + 1)%nat.
Proof.
  intros R L. unfold tourn.
  destruct (dominates x y); [exists x, ds; repeat split; [exact R|lia]|].
  destruct (dominates y x); [exists y, ds; repeat split; [exact R|lia]|].
  destruct (cd_lt (cd x) (cd y)); [exists y, ds; repeat split; [exact R|lia]|].
  destruct (cd_lt (cd y) (cd x)); [exists x, ds; repeat split; [exact R|lia]|].
  destruct ds as [|d ds]; [cbn in L; lia|]. inversion R as [|? ? (u & -> & U0 & U1) R']; subst.
  unfold bind. rewrite (random01_total u ds U0 U1). unfold ret.
  eexists _, ds. repeat split; [exact R'|cbn; lia].
Qed.

Lemma tourn_at_total l i j ds : (i < length l)%nat -> (j < length l)%nat ->
  all_random ds -> (1 <= length ds)%nat ->
  exists z rest, tourn_at l i j ds = Ok z rest /\ all_random rest /\ (length ds <= length rest + 1)%nat.
Proof.
  intros Hi Hj R L. unfold tourn_at.
  destruct (nth_error l i) eqn:E1; [|apply nth_error_None in E1; lia].
  destruct (nth_error l j) eqn:E2; [|apply nth_error_None in E2; lia].
  apply tourn_total; assumption.
Qed.

Lemma dcd_loop_total l1 l2 it : forall i ds,
  (i + 4 * it <= length l1)%nat -> (i + 4 * it <= length l2)%nat ->
  all_random ds -> (4 * it <= length ds)%nat ->
  exists out rest, dcd_loop it i l1 l2 ds = Ok out rest /\ all_random rest.
Proof.
  induction it as [|it IH]; intros i ds H1 H2 R L; cbn [dcd_loop].
  - exists [], ds. split; [reflexivity|exact R].
  - destruct (tourn_at_total l1 i (i + 1) ds ltac:(lia) ltac:(lia) R ltac:(lia)) as (a & d1 & Ea & R1 & L1).
    destruct (tourn_at_total l1 (i + 2) (i + 3) d1 ltac:(lia) ltac:(lia) R1 ltac:(lia)) as (b & d2 & Eb & R2 & L2).
    destruct (tourn_at_total l2 i (i + 1) d2 ltac:(lia) ltac:(lia) R2 ltac:(lia)) as (c & d3 & Ec & R3 & L3).
    destruct (tourn_at_total l2 (i + 2) (i + 3) d3 ltac:(lia) ltac:(lia) R3 ltac:(lia)) as (d & d4 & Ed & R4 & L4).
    destruct (IH (i + 4)%nat d4 ltac:(lia) ltac:(lia) R4 ltac:(lia)) as (r & d5 & Er & R5).
    exists (a :: b :: c :: d :: r), d5. split; [|exact R5].
    unfold bind. rewrite Ea, Eb, Ec, Ed, Er. reflexivity.
Qed.

Definition sample_ok (n : nat) (idx : list nat) : Prop :=
  length idx = n /\ nodupb idx = true /\ forallb (fun i => Nat.ltb i n) idx = true.

Lemma sample_total {A} (l : list A) idx rest :
  sample_ok (length l) idx -> sample l (length l) (DSample (length l) idx :: rest) = Ok (pick l idx) rest.
Proof.
  intros (L & N & F). unfold sample. rewrite Nat.eqb_refl, L, Nat.eqb_refl, N, F. reflexivity.
Qed.

Lemma selTournamentDCD_total inds k idx1 idx2 ds :
  (k <= length inds)%nat -> (k mod 4 = 0)%nat ->
  sample_ok (length inds) idx1 -> sample_ok (length inds) idx2 ->
  all_random ds -> (k <= length ds)%nat ->
  exists out rest,
    selTournamentDCD inds k (DSample (length inds) idx1 :: DSample (length inds) idx2 :: ds) = Ok out rest.
Proof.
  intros Hk K4 S1 S2 R L. unfold selTournamentDCD.
  assert (E1 : Nat.ltb (length inds) k = false) by (apply Nat.ltb_ge; exact Hk). rewrite E1.
  rewrite K4. cbn [Nat.eqb negb]. rewrite andb_false_r.
  unfold bind. rewrite (sample_total inds idx1 _ S1), (sample_total inds idx2 _ S2).
  assert (Eit : ((k + 3) / 4 = k / 4)%nat).
  { pose proof (Nat.div_mod k 4 ltac:(lia)) as D. rewrite K4 in D.
    symmetry. apply (Nat.div_unique (k + 3) 4 (k / 4) 3); lia. }
  assert (Ek : (4 * (k / 4) = k)%nat).
  { pose proof (Nat.div_mod k 4 ltac:(lia)) as D. lia. }
  rewrite Eit.
  destruct S1 as (L1 & _ & F1). destruct S2 as (L2 & _ & F2).
  destruct (dcd_loop_total (pick inds idx1) (pick inds idx2) (k / 4) 0 ds) as (out & rest & E & _);
    try (rewrite pick_length by assumption); try lia; try assumption.
  eauto.
Qed.
