(* C20: list lemmas connecting the Python run-time (py_slice, py_range, zip, enumerate, reduce,
   zget) used by the regenerated definitions with the list functions (firstn, skipn, tl, seq,
   combine) used by the hand-written specifications. *)
From Coq Require Import ZArith List Bool Lia.
From DV Require Import Base.PyList Base.C20_Num.
Import ListNotations.
Local Open Scope Z_scope.

(* ---------------- ranges ---------------- *)
Lemma range_count_up a b : range_count a b 1 = Z.max 0 (b - a).
Proof.
  unfold range_count. cbn [Z.ltb Z.compare]. destruct (a <? b) eqn:E.
  - apply Z.ltb_lt in E. rewrite Z.div_1_r. lia.
  - apply Z.ltb_ge in E. lia.
Qed.

Lemma py_range3_up a b : py_range3 a b 1 = map (fun i => a + Z.of_nat i) (seq 0 (Z.to_nat (b - a))).
Proof.
  unfold py_range3. rewrite range_count_up.
  replace (Z.to_nat (Z.max 0 (b - a))) with (Z.to_nat (b - a)) by lia.
  apply map_ext; intro i; lia.
Qed.

Lemma py_range_seq n : py_range (Z.of_nat n) = map Z.of_nat (seq 0 n).
Proof.
  unfold py_range. rewrite py_range3_up. rewrite Z.sub_0_r, Nat2Z.id. apply map_ext; intro; lia.
Qed.

Lemma py_range_to_nat z : py_range z = map Z.of_nat (seq 0 (Z.to_nat z)).
Proof.
  unfold py_range. rewrite py_range3_up, Z.sub_0_r. apply map_ext; intro; lia.
Qed.

Lemma zlen_py_range z : zlen (py_range z) = Z.max 0 z.
Proof. rewrite py_range_to_nat. unfold zlen. rewrite map_length, seq_length. lia. Qed.

Lemma seq_add_map s n : seq s n = map (fun i => (s + i)%nat) (seq 0 n).
Proof.
  revert s; induction n as [|n IH]; intro s; cbn; [reflexivity|].
  f_equal; [lia|]. rewrite (IH (S s)), <- seq_shift, map_map. apply map_ext; intro; lia.
Qed.

Lemma py_range3_from a b : 0 <= a ->
  py_range3 a b 1 = map Z.of_nat (seq (Z.to_nat a) (Z.to_nat (b - a))).
Proof.
  intro Ha. rewrite py_range3_up, (seq_add_map (Z.to_nat a)), map_map. apply map_ext; intro; lia.
Qed.

(* range(n-1, 0, -1) is reversed(range(1, n)) *)
Lemma rev_down_aux k : map (fun i => Z.of_nat k - Z.of_nat i) (seq 0 k) = rev (map Z.of_nat (seq 1 k)).
Proof.
  induction k as [|k IH]; [reflexivity|].
  rewrite (seq_S k 1), map_app, rev_app_distr. cbn [map rev app].
  cbn [seq map]. replace (Z.of_nat (S k) - Z.of_nat 0) with (Z.of_nat (1 + k)) by lia. f_equal.
  rewrite <- IH. rewrite <- seq_shift, map_map. apply map_ext. intro i. lia.
Qed.
Lemma range_count_down0 n : 1 <= n -> range_count (n - 1) 0 (-1) = n - 1.
Proof.
  intro H. unfold range_count. cbn [Z.ltb Z.compare].
  destruct (0 <? n - 1) eqn:E.
  - apply Z.ltb_lt in E. change (- -1) with 1. rewrite Z.div_1_r. lia.
  - apply Z.ltb_ge in E. lia.
Qed.
Lemma py_range3_down_rev n : 1 <= n -> py_range3 (n - 1) 0 (-1) = rev (py_range3 1 n 1).
Proof.
  intro H. rewrite py_range3_from by lia. unfold py_range3. rewrite range_count_down0 by lia.
  change (Z.to_nat 1) with 1%nat. set (k := Z.to_nat (n - 1)).
  rewrite <- rev_down_aux. apply map_ext. intro i. unfold k. lia.
Qed.

Lemma range_count_down k : 0 <= k -> range_count (k - 1) (-1) (-1) = k.
Proof.
  intro Hk. unfold range_count. cbn [Z.ltb Z.compare].
  destruct (-1 <? k - 1) eqn:E.
  - apply Z.ltb_lt in E. change (- -1) with 1. rewrite Z.div_1_r. lia.
  - apply Z.ltb_ge in E. lia.
Qed.

Lemma down_seq n :
  map (fun i => Z.of_nat n - 1 + Z.of_nat i * -1) (seq 0 n) = map Z.of_nat (rev (seq 0 n)).
Proof.
  induction n as [|n IH]; [reflexivity|].
  replace (rev (seq 0 (S n))) with (n :: rev (seq 0 n))
    by (rewrite (seq_S n 0), rev_app_distr; reflexivity).
  change (seq 0 (S n)) with (0%nat :: seq 1 n). cbn [map]. f_equal; try lia.
  rewrite <- IH, <- seq_shift, map_map. apply map_ext; intro i. lia.
Qed.

Lemma py_range3_down k : 0 <= k ->
  py_range3 (k - 1) (-1) (-1) = map Z.of_nat (rev (seq 0 (Z.to_nat k))).
Proof.
  intro Hk. unfold py_range3. rewrite range_count_down by assumption.
  rewrite <- down_seq. apply map_ext; intro i. lia.
Qed.

(* ---------------- slices ---------------- *)
Definition pick {A} (l : list A) (i : Z) : list A :=
  match nth_error l (Z.to_nat i) with Some x => [x] | None => [] end.

Lemma slice_core {A} (l : list A) (n s : nat) : (s + n <= length l)%nat ->
  flat_map (pick l) (map Z.of_nat (seq s n)) = firstn n (skipn s l).
Proof.
  revert s; induction n as [|n IH]; intros s Hs; [reflexivity|].
  cbn [seq map flat_map]. rewrite IH by lia.
  unfold pick at 1. rewrite Nat2Z.id.
  destruct (nth_error l s) as [x|] eqn:E.
  - apply nth_error_split in E. destruct E as (l1 & l2 & -> & <-).
    replace (l1 ++ x :: l2) with ((l1 ++ [x]) ++ l2) at 1 by (rewrite <- app_assoc; reflexivity).
    rewrite (skipn_app (S (length l1))), (skipn_all2 (n := S (length l1))) by (rewrite app_length; cbn; lia).
    rewrite app_length. cbn [length]. replace (S (length l1) - (length l1 + 1))%nat with 0%nat by lia.
    rewrite (skipn_app (length l1)), skipn_all, Nat.sub_diag. reflexivity.
  - apply nth_error_None in E. lia.
Qed.

Lemma py_slice_norm {A} (l : list A) start stop (s e : nat) :
  slice_adjust start stop 1 (zlen l) = (Z.of_nat s, Z.of_nat e) -> (e <= length l)%nat ->
  py_slice l start stop 1 = firstn (e - s) (skipn s l).
Proof.
  intros Hadj He. unfold py_slice, slice_idx. rewrite Hadj.
  rewrite py_range3_from by lia. rewrite Nat2Z.id.
  replace (Z.to_nat (Z.of_nat e - Z.of_nat s)) with (e - s)%nat by lia.
  destruct (Nat.le_gt_cases s e) as [L|G].
  - apply slice_core. lia.
  - replace (e - s)%nat with 0%nat by lia. reflexivity.
Qed.

Ltac slice_tac :=
  unfold slice_adjust, zlen; cbn [Z.ltb Z.compare];
  repeat match goal with |- context [?a <? ?b] => destruct (Z.ltb_spec a b) end;
  f_equal; lia.

Lemma slice_from {A} (l : list A) a : 0 <= a -> py_slice l (Some a) None 1 = skipn (Z.to_nat a) l.
Proof.
  intro Ha. rewrite (py_slice_norm l _ _ (Nat.min (Z.to_nat a) (length l)) (length l)); [|slice_tac|lia].
  destruct (Nat.le_gt_cases (Z.to_nat a) (length l)).
  - rewrite Nat.min_l by lia. rewrite firstn_all2; [reflexivity|]. rewrite skipn_length. lia.
  - rewrite Nat.min_r by lia. rewrite Nat.sub_diag, skipn_all. cbn. rewrite skipn_all2 by lia. reflexivity.
Qed.

Lemma slice_to {A} (l : list A) b : 0 <= b -> py_slice l None (Some b) 1 = firstn (Z.to_nat b) l.
Proof.
  intro Hb. rewrite (py_slice_norm l _ _ 0 (Nat.min (Z.to_nat b) (length l))); [|slice_tac|lia].
  cbn [skipn]. rewrite Nat.sub_0_r.
  destruct (Nat.le_gt_cases (Z.to_nat b) (length l)).
  - rewrite Nat.min_l by lia. reflexivity.
  - rewrite Nat.min_r by lia. rewrite !firstn_all2 by lia. reflexivity.
Qed.

Lemma slice_pos {A} (l : list A) a b : 0 <= a -> 0 <= b ->
  py_slice l (Some a) (Some b) 1 = firstn (Z.to_nat (b - a)) (skipn (Z.to_nat a) l).
Proof.
  intros Ha Hb.
  rewrite (py_slice_norm l _ _ (Nat.min (Z.to_nat a) (length l)) (Nat.min (Z.to_nat b) (length l))); [|slice_tac|lia].
  destruct (Nat.le_gt_cases (Z.to_nat a) (length l)) as [La|Ga].
  - rewrite (Nat.min_l (Z.to_nat a)) by lia.
    destruct (Nat.le_gt_cases (Z.to_nat b) (length l)) as [Lb|Gb].
    + rewrite Nat.min_l by lia. f_equal. lia.
    + rewrite Nat.min_r by lia. rewrite !firstn_all2; [reflexivity| |]; rewrite skipn_length; lia.
  - rewrite (Nat.min_r (Z.to_nat a)) by lia. rewrite (skipn_all2 (n := Z.to_nat a)) by lia.
    rewrite skipn_all. rewrite !firstn_nil. reflexivity.
Qed.

Lemma slice_to_neg {A} (l : list A) k : 0 < k ->
  py_slice l None (Some (- k)) 1 = firstn (length l - Z.to_nat k) l.
Proof.
  intro Hk. rewrite (py_slice_norm l _ _ 0 (length l - Z.to_nat k)); [|slice_tac|lia].
  cbn [skipn]. rewrite Nat.sub_0_r. reflexivity.
Qed.

Lemma slice_from_neg {A} (l : list A) k : 0 < k ->
  py_slice l (Some (- k)) None 1 = skipn (length l - Z.to_nat k) l.
Proof.
  intro Hk. rewrite (py_slice_norm l _ _ (length l - Z.to_nat k) (length l)); [|slice_tac|lia].
  rewrite firstn_all2; [reflexivity|]. rewrite skipn_length. lia.
Qed.

Lemma skipn_1_tl {A} (l : list A) : skipn 1 l = tl l.
Proof. destruct l; reflexivity. Qed.

Lemma firstn_pred_removelast {A} (l : list A) : firstn (length l - 1) l = removelast l.
Proof.
  induction l as [|x [|y r] IH]; [reflexivity|reflexivity|].
  cbn [length] in *. replace (S (S (length r)) - 1)%nat with (S (S (length r) - 1)) by lia.
  cbn [firstn]. rewrite IH. reflexivity.
Qed.

Lemma slice_tl {A} (l : list A) : py_slice l (Some 1) None 1 = tl l.
Proof. rewrite slice_from by lia. apply skipn_1_tl. Qed.

Lemma slice_init {A} (l : list A) : py_slice l None (Some (-1)) 1 = removelast l.
Proof. change (-1) with (- (1)). rewrite (slice_to_neg l 1) by lia. apply firstn_pred_removelast. Qed.

(* ---------------- zip ---------------- *)
Lemma zip_removelast_tl {A} (l : list A) : zip (removelast l) (tl l) = zip l (tl l).
Proof.
  destruct l as [|x r]; [reflexivity|]. cbn [tl].
  revert x; induction r as [|y r IH]; intro x; [reflexivity|].
  cbn [removelast zip]. f_equal. apply IH.
Qed.

Lemma zip_combine {A B} (a : list A) (b : list B) : zip a b = combine a b.
Proof. revert b; induction a; destruct b; cbn; f_equal; auto. Qed.

Lemma zip_map_l {A B C} (f : A -> C) (a : list A) (b : list B) :
  zip (map f a) b = map (fun p => (f (fst p), snd p)) (zip a b).
Proof. revert b; induction a; destruct b; cbn; f_equal; auto. Qed.

Lemma zip_firstn {A B} (a : list A) (b : list B) n : zip (firstn n a) (firstn n b) = firstn n (zip a b).
Proof. revert a b; induction n; intros [|x a] [|y b]; cbn; f_equal; auto. Qed.

Lemma zip_repeat {A B} (x : A) (y : B) n : zip (repeat x n) (repeat y n) = repeat (x, y) n.
Proof. induction n; cbn; f_equal; auto. Qed.

Lemma enumerate_indexed {A} (l : list A) :
  enumerate l = map (fun p => (Z.of_nat (fst p), snd p)) (combine (seq 0 (length l)) l).
Proof.
  unfold enumerate, zlen. rewrite py_range_seq, zip_map_l, zip_combine. reflexivity.
Qed.

(* ---------------- zget ---------------- *)
Lemma zget_nat {A} (d : A) (l : list A) (i : nat) : zget d l (Z.of_nat i) = nth i l d.
Proof.
  unfold zget, py_get, zlen.
  destruct (Z.ltb_spec (Z.of_nat i) 0) as [H|H]; [lia|].
  destruct (Z.ltb_spec (Z.of_nat i) 0) as [H1|H1]; [lia|]. cbn [orb].
  destruct (Z.leb_spec (Z.of_nat (length l)) (Z.of_nat i)) as [H2|H2].
  - rewrite nth_overflow by lia. reflexivity.
  - rewrite Nat2Z.id. destruct (nth_error l i) eqn:E.
    + symmetry. apply nth_error_nth. exact E.
    + apply nth_error_None in E. lia.
Qed.

Lemma zget_0 {A} (d : A) l : zget d l 0 = nth 0 l d.
Proof. apply (zget_nat d l 0). Qed.
Lemma zget_1 {A} (d : A) l : zget d l 1 = nth 1 l d.
Proof. apply (zget_nat d l 1). Qed.
Lemma zget_2 {A} (d : A) l : zget d l 2 = nth 2 l d.
Proof. apply (zget_nat d l 2). Qed.

Lemma zget_neg {A} (d : A) (l : list A) k : 0 < k -> (Z.to_nat k <= length l)%nat ->
  zget d l (- k) = nth (length l - Z.to_nat k) l d.
Proof.
  intros Hk Hl. unfold zget, py_get, zlen.
  destruct (Z.ltb_spec (- k) 0) as [H|H]; [|lia].
  destruct (Z.ltb_spec (- k + Z.of_nat (length l)) 0) as [H1|H1]; [lia|]. cbn [orb].
  destruct (Z.leb_spec (Z.of_nat (length l)) (- k + Z.of_nat (length l))) as [H2|H2]; [lia|].
  replace (Z.to_nat (- k + Z.of_nat (length l))) with (length l - Z.to_nat k)%nat by lia.
  destruct (nth_error l (length l - Z.to_nat k)) eqn:E.
  - symmetry. apply nth_error_nth. exact E.
  - apply nth_error_None in E. lia.
Qed.

(* ---------------- folds ---------------- *)
Lemma fold_left_app_acc {A} (f : A -> list A) (l : list A) (acc : list A) :
  fold_left (fun a x => a ++ f x) l acc = acc ++ flat_map f l.
Proof.
  revert acc; induction l as [|x r IH]; intro acc; cbn; [rewrite app_nil_r; reflexivity|].
  rewrite IH, app_assoc. reflexivity.
Qed.

Lemma fold_left_app_acc2 {A B} (f : B -> list A) (l : list B) (acc : list A) :
  fold_left (fun a x => a ++ f x) l acc = acc ++ flat_map f l.
Proof.
  revert acc; induction l as [|x r IH]; intro acc; cbn; [rewrite app_nil_r; reflexivity|].
  rewrite IH, app_assoc. reflexivity.
Qed.

Lemma flat_map_single {A B} (f : A -> B) (l : list A) : flat_map (fun x => [f x]) l = map f l.
Proof. induction l; cbn; f_equal; auto. Qed.

Lemma map_id_ext {A} (l : list A) : map (fun x => x) l = l.
Proof. apply map_id. Qed.
