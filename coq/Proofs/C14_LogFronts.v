(* C14 — the candidates of StrategyMultiObjective._select as a C04 population, and what C04's
   theorems give for sort_log (cand_pop wvs) (len candidates) False: front by front a permutation
   of the leading peeling fronts, and all candidates are covered.  Plain Coq (no mathcomp). *)
From Coq Require Import List ZArith Bool Lia Permutation.
From DV Require Import Base.PyList Model.C04_NDSort Model.C04_LogSort Model.C14_LogSelect
  Proofs.C04_NDSort Proofs.C04_Spec Proofs.C04_LogFinal.
Import ListNotations.

Lemma combine_seq_fst {A} : forall (l : list A) s, map fst (combine (seq s (length l)) l) = seq s (length l).
Proof. induction l as [|x l IH]; intro s; cbn; [reflexivity|]. now rewrite IH. Qed.

Lemma combine_seq_snd {A} : forall (l : list A) s, map snd (combine (seq s (length l)) l) = l.
Proof. induction l as [|x l IH]; intro s; cbn; [reflexivity|]. now rewrite IH. Qed.

Lemma cand_pop_uids wvs : map uid (cand_pop wvs) = seq 0 (length wvs).
Proof. apply combine_seq_fst. Qed.

Lemma cand_pop_wvs wvs : map iw (cand_pop wvs) = wvs.
Proof. apply combine_seq_snd. Qed.

Lemma cand_pop_length wvs : length (cand_pop wvs) = length wvs.
Proof. unfold cand_pop. etransitivity; [apply (combine_length (seq 0 (length wvs)) wvs)|]. rewrite seq_length. apply Nat.min_id. Qed.

Theorem log_fronts_cover (wvs : list (list Z)) (d : nat) :
  wvs <> [] -> (forall w, In w wvs -> length w = d) -> 2 <= d ->
  let pop := cand_pop wvs in
  let n := length wvs in
  exists fs j, sort_log pop (Z.of_nat n) false = Some (LFronts fs) /\
    j < length (spec_fronts pop) /\
    Forall2 (@Permutation ind) fs (firstn (S j) (spec_fronts pop)) /\
    Permutation (concat (map (map uid) fs)) (seq 0 n).
Proof.
  intros NE Hd H2 pop n.
  assert (NDu : NoDup (map uid pop)) by (unfold pop; rewrite cand_pop_uids; apply seq_NoDup).
  assert (SL : same_len (map iw pop)).
  { unfold pop. rewrite cand_pop_wvs. intros a b Ha Hb. rewrite (Hd a Ha), (Hd b Hb). reflexivity. }
  assert (Ln : length pop = n) by apply cand_pop_length.
  assert (NEp : pop <> []).
  { intro E. rewrite E in Ln. cbn in Ln. destruct wvs; [contradiction|discriminate]. }
  assert (L2 : forall x, In x pop -> 2 <= length (iw x)).
  { intros x Hx. assert (In (iw x) wvs) by (rewrite <- (cand_pop_wvs wvs); now apply in_map).
    rewrite (Hd _ H). exact H2. }
  assert (K : Z.of_nat n <> 0%Z).
  { unfold n. destruct wvs; [contradiction|cbn; lia]. }
  destruct (log_leading_fronts pop (Z.of_nat n) NDu SL NEp L2 K) as [fs [j [E [Hj [P [_ Hge]]]]]].
  exists fs, j. split; [exact E|]. split; [exact Hj|]. split; [exact P|].
  rewrite <- concat_map. apply NoDup_Permutation_bis.
  - apply (log_each_once pop (Z.of_nat n) false (LFronts fs) NDu SL NEp L2 E).
  - rewrite seq_length, map_length. unfold ztotal, zlen in Hge. rewrite Ln in Hge. lia.
  - intros u Hu. apply in_map_iff in Hu. destruct Hu as [x [<- Hx]].
    apply (log_elements_are_inputs pop (Z.of_nat n) false (LFronts fs) NDu SL NEp L2 E) in Hx.
    unfold n. rewrite <- (cand_pop_uids wvs). now apply in_map.
Qed.
