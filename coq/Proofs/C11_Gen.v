(* C11 — draw-monad inversion lemmas and the generator theorems (generate / genFull / genGrow /
   genHalfAndHalf). *)
From Coq Require Import List ZArith NArith Bool Lia.
From DV Require Import Model.C11_GPTree Proofs.C11_Tree.
Import ListNotations.
Local Open Scope Z_scope.

(* ------------------------------------------------------------------ monad inversion *)
Lemma bind_ok {A B} (m : M A) (f : A -> M B) ds b ds' :
  bind m f ds = Ok (b, ds') -> exists a ds1, m ds = Ok (a, ds1) /\ f a ds1 = Ok (b, ds').
Proof. unfold bind. destruct (m ds) as [[a ds1]|e]; [eauto|discriminate]. Qed.

Lemma bind_err {A B} (m : M A) (f : A -> M B) ds e :
  bind m f ds = Err e -> m ds = Err e \/ exists a ds1, m ds = Ok (a, ds1) /\ f a ds1 = Err e.
Proof. unfold bind. destruct (m ds) as [[a ds1]|e']; [eauto|]. intro H; inversion H; auto. Qed.

Lemma ret_ok {A} (a : A) ds b ds' : ret a ds = Ok (b, ds') -> b = a /\ ds' = ds.
Proof. unfold ret. intro H; inversion H; auto. Qed.

Lemma lift_ok {A} (r : res A) ds a ds' : lift r ds = Ok (a, ds') -> r = Ok a /\ ds' = ds.
Proof. unfold lift. destruct r; intro H; inversion H; auto. Qed.

Lemma d_choice_ok {A} (l : list A) ds x ds' :
  d_choice l ds = Ok (x, ds') -> In x l /\ exists d, ds = d :: ds'.
Proof.
  unfold d_choice. destruct l as [|a l]; [discriminate|].
  destruct ds as [|[] ds0]; try discriminate.
  destruct ((n =? zlen (a :: l)) && (0 <=? i)); [|discriminate].
  destruct (nth_error (a :: l) (Z.to_nat i)) eqn:E; [|discriminate].
  intro H; inversion H; subst. split; [eapply nth_error_In; eauto|eauto].
Qed.

Lemma d_randint_ok lo hi ds r ds' :
  d_randint lo hi ds = Ok (r, ds') -> lo <= r <= hi /\ exists d, ds = d :: ds'.
Proof.
  unfold d_randint. destruct (hi <? lo); [discriminate|].
  destruct ds as [|[] ds0]; try discriminate.
  destruct ((lo =? lo0) && (hi =? hi0) && (lo <=? r0) && (r0 <=? hi)) eqn:E; [|discriminate].
  intro H; inversion H; subst. split; [lia|eauto].
Qed.

Lemma d_randrange_ok lo hi ds r ds' :
  d_randrange lo hi ds = Ok (r, ds') -> lo <= r < hi /\ exists d, ds = d :: ds'.
Proof.
  unfold d_randrange. destruct (hi <=? lo); [discriminate|].
  destruct ds as [|[] ds0]; try discriminate.
  destruct ((lo =? lo0) && (hi =? hi0) && (lo <=? r0) && (r0 <? hi)) eqn:E; [|discriminate].
  intro H; inversion H; subst. split; [lia|eauto].
Qed.

Lemma d_random_ok ds u ds' : d_random ds = Ok (u, ds') -> exists d, ds = d :: ds'.
Proof.
  unfold d_random. destruct ds as [|[] ds0]; try discriminate.
  destruct ((0 <=? num) && (num <? Z.pos den)); [|discriminate].
  intro H; inversion H; subst. eauto.
Qed.

Lemma d_eph_ok nm ds v ds' : d_eph nm ds = Ok (v, ds') -> exists d, ds = d :: ds'.
Proof.
  unfold d_eph. destruct ds as [|[] ds0]; try discriminate.
  destruct (N.eqb name nm); [|discriminate]. intro H; inversion H; subst. eauto.
Qed.

Lemma instantiate_ok n ds n' ds' :
  instantiate n ds = Ok (n', ds') ->
  (exists v, n' = set_val n v) /\ (length ds' <= length ds)%nat.
Proof.
  unfold instantiate. destruct (neph n).
  - intro H. apply bind_ok in H. destruct H as (v & ds1 & H1 & H2).
    apply ret_ok in H2. destruct H2; subst. apply d_eph_ok in H1. destruct H1 as (d & ->).
    split; [eauto|cbn; lia].
  - intro H. apply ret_ok in H. destruct H; subst. split; [|lia].
    exists (nval n). destruct n; reflexivity.
Qed.

Lemma set_val_fields n v : nargs (set_val n v) = nargs n /\ nret (set_val n v) = nret n /\
  nname (set_val n v) = nname n /\ neph (set_val n v) = neph n.
Proof. destruct n; cbn; auto. Qed.

(* errors of the draw primitives are only EDraw / EEmpty / EValue *)
Definition draw_err (e : err) : Prop := e = EDraw \/ e = EEmpty.

(* ------------------------------------------------------------------ the primitive set *)
Section Gen.
  Variable sub : ty -> ty -> bool.

  (* what `_add` guarantees about the tables (proved for the model of `_add` in Proofs/C11_PSet.v):
     a node listed at type t returns a subtype of t; primitives have arity >= 1, terminals 0 *)
  Definition pset_ok (ps : pset) : Prop :=
    (forall t p, In p (prims ps t) -> sub (nret p) t = true /\ nargs p <> []) /\
    (forall t x, In x (terms ps t) -> sub (nret x) t = true /\ nargs x = []).

  Variable ps : pset.
  Hypothesis Hps : pset_ok ps.

  Section Loop.
    Variable mode : gmode.
    Variables minh h : Z.
    Hypothesis Hmin : minh <= h.

    Definition leaf_ok (x : Z) : Prop :=
      match mode with GFull => x = h | GGrow => minh <= x <= h end.

    Definition good (e : Z * ty) (k : tree) : Prop :=
      typed sub (snd e) k /\ Forall leaf_ok (leaf_depths (fst e) k).

    Lemma condition_ok depth ds c ds' :
      condition ps mode minh h depth ds = Ok (c, ds') -> depth <= h ->
      (length ds' <= length ds)%nat /\
      (c = true -> leaf_ok depth) /\ (c = false -> depth < h).
    Proof.
      unfold condition, leaf_ok. intros H Hd. destruct mode.
      - apply ret_ok in H. destruct H; subst. split; [lia|]. split; intro E; lia.
      - destruct (depth =? h) eqn:E1.
        + apply ret_ok in H. destruct H; subst. split; [lia|]. split; intro E; [lia|discriminate].
        + destruct (minh <=? depth) eqn:E2.
          * apply bind_ok in H. destruct H as (u & ds1 & H1 & H2). apply ret_ok in H2. destruct H2; subst.
            apply d_random_ok in H1. destruct H1 as (d & ->). split; [cbn; lia|]. split; intro; lia.
          * apply ret_ok in H. destruct H; subst. split; [lia|]. split; intro; [discriminate|lia].
    Qed.

    Lemma gen_loop_spec : forall fuel st acc ds out ds',
      gen_loop fuel ps mode minh h st acc ds = Ok (out, ds') ->
      Forall (fun e => fst e <= h) st ->
      exists ks, out = rev acc ++ ff ks /\ Forall2 good st ks.
    Proof.
      induction fuel as [|f IH]; intros st acc ds out ds' H Hst.
      - destruct st as [|[d t] st]; [|discriminate].
        apply ret_ok in H. destruct H; subst. exists []. cbn. rewrite app_nil_r. auto.
      - destruct st as [|[d t] st].
        + apply ret_ok in H. destruct H; subst. exists []. cbn. rewrite app_nil_r. auto.
        + cbn [gen_loop] in H. inversion Hst as [|? ? Hd Hst']; subst. cbn in Hd.
          apply bind_ok in H. destruct H as (c & ds1 & Hc & H).
          apply condition_ok in Hc; auto. destruct Hc as (_ & Hct & Hcf).
          destruct c.
          * apply bind_ok in H. destruct H as (term & ds2 & Hch & H).
            apply bind_ok in H. destruct H as (term' & ds3 & Hin & H).
            apply d_choice_ok in Hch. destruct Hch as [Hmem _].
            apply instantiate_ok in Hin. destruct Hin as [(v & ->) _].
            destruct (IH _ _ _ _ _ H Hst') as (ks & -> & Hks).
            exists (T (set_val term v) [] :: ks). split.
            -- cbn [rev]. rewrite ff_cons. cbn [flatten flat_map]. rewrite <- app_assoc. reflexivity.
            -- constructor; auto. destruct Hps as [_ Ht]. destruct (Ht _ _ Hmem) as [S1 S2].
               pose proof (set_val_fields term v) as (F1 & F2 & _).
               split; cbn [fst snd].
               ++ apply typed_unfold. rewrite F1, F2, S2. split; auto.
               ++ cbn. constructor; auto.
          * apply bind_ok in H. destruct H as (prim & ds2 & Hch & H).
            apply d_choice_ok in Hch. destruct Hch as [Hmem _].
            assert (Hst2 : Forall (fun e => fst e <= h) (map (fun a => (d + 1, a)) (nargs prim) ++ st)).
            { apply Forall_app. split; auto. apply Forall_forall. intros e He.
              apply in_map_iff in He. destruct He as (a & <- & _). cbn. specialize (Hcf eq_refl). lia. }
            destruct (IH _ _ _ _ _ H Hst2) as (ks & -> & Hks).
            apply Forall2_app_inv_l in Hks. destruct Hks as (kk & ks' & Hkk & Hks' & ->).
            exists (T prim kk :: ks'). split.
            -- cbn [rev]. rewrite ff_app, ff_cons. cbn [flatten]. fold (ff kk).
               rewrite <- !app_assoc. reflexivity.
            -- constructor; auto. destruct Hps as [Hp _]. destruct (Hp _ _ Hmem) as [S1 S2].
               assert (Hty : Forall2 (fun k a => typed sub a k) kk (nargs prim) /\
                             Forall (fun k => Forall leaf_ok (leaf_depths (d + 1) k)) kk).
               { clear - Hkk. revert kk Hkk. induction (nargs prim) as [|a l IHl]; intros kk Hkk.
                 - inversion Hkk; subst. split; constructor.
                 - inversion Hkk as [|? k ? kk' [G1 G2] Hr]; subst. destruct (IHl _ Hr).
                   split; constructor; auto. }
               destruct Hty as [Hty Hlv]. split; cbn [fst snd].
               ++ apply typed_unfold. auto.
               ++ destruct kk as [|k0 kk0].
                  { inversion Hty as [E|]. congruence. }
                  change (leaf_depths d (T prim (k0 :: kk0))) with (flat_map (leaf_depths (d + 1)) (k0 :: kk0)).
                  apply Forall_flat_map. exact Hlv.
    Qed.

    (* fuel: every iteration consumes at least one draw *)
    Lemma gen_loop_fuel : forall fuel st acc ds,
      (length ds < fuel)%nat -> Forall (fun e => fst e <= h) st ->
      gen_loop fuel ps mode minh h st acc ds <> Err EFuel.
    Proof.
      induction fuel as [|f IH]; intros st acc ds Hf Hst; [lia|].
      destruct st as [|[d t] st]; [discriminate|].
      cbn [gen_loop]. inversion Hst as [|? ? Hd Hst']; subst. cbn in Hd.
      intro H. apply bind_err in H. destruct H as [H|(c & ds1 & Hc & H)].
      - unfold condition in H. destruct mode; [discriminate|].
        destruct (d =? h); [discriminate|]. destruct (minh <=? d); [|discriminate].
        apply bind_err in H. destruct H as [H|(u & ds1 & _ & H)]; [|discriminate].
        unfold d_random in H. destruct ds as [|[] ?]; try discriminate.
        destruct ((0 <=? num) && (num <? Z.pos den)); discriminate.
      - pose proof (condition_ok _ _ _ _ Hc Hd) as (Hl & _ & Hcf).
        destruct c.
        + apply bind_err in H. destruct H as [H|(term & ds2 & Hch & H)].
          { unfold d_choice in H. destruct (terms ps t); [discriminate|].
            destruct ds1 as [|[] ?]; try discriminate.
            destruct ((n0 =? zlen (n :: l)) && (0 <=? i)); [|discriminate].
            destruct (nth_error (n :: l) (Z.to_nat i)); discriminate. }
          apply d_choice_ok in Hch. destruct Hch as [_ (d0 & ->)].
          apply bind_err in H. destruct H as [H|(term' & ds3 & Hin & H)].
          { unfold instantiate in H. destruct (neph term); [|discriminate].
            apply bind_err in H. destruct H as [H|(? & ? & _ & H)]; [|discriminate].
            unfold d_eph in H. destruct ds2 as [|[] ?]; try discriminate.
            destruct (N.eqb name (nname term)); discriminate. }
          apply instantiate_ok in Hin. destruct Hin as [_ Hl3].
          revert H. apply IH; auto. cbn in Hl. lia.
        + apply bind_err in H. destruct H as [H|(prim & ds2 & Hch & H)].
          { unfold d_choice in H. destruct (prims ps t); [discriminate|].
            destruct ds1 as [|[] ?]; try discriminate.
            destruct ((n0 =? zlen (n :: l)) && (0 <=? i)); [|discriminate].
            destruct (nth_error (n :: l) (Z.to_nat i)); discriminate. }
          apply d_choice_ok in Hch. destruct Hch as [_ (d0 & ->)].
          revert H. apply IH; [cbn in Hl; lia|].
          apply Forall_app. split; auto. apply Forall_forall. intros e He.
          apply in_map_iff in He. destruct He as (a & <- & _). cbn. specialize (Hcf eq_refl). lia.
    Qed.
  End Loop.

  (* what a generated expression looks like *)
  Definition gen_post (mode : gmode) (minh maxh : Z) (t : ty) (out : list node) : Prop :=
    exists k, out = flatten k /\ wft k /\ typed sub t k /\
      minh <= theight k <= maxh /\
      match mode with
      | GFull => Forall (fun x => x = theight k) (leaf_depths 0 k)
      | GGrow => Forall (fun x => minh <= x) (leaf_depths 0 k)
      end.

  Theorem generate_spec mode minh maxh t ds out ds' :
    0 <= minh ->
    generate ps mode minh maxh t ds = Ok (out, ds') -> gen_post mode minh maxh t out.
  Proof.
    intros H0 H. unfold generate in H. apply bind_ok in H. destruct H as (h & ds1 & Hh & H).
    apply d_randint_ok in Hh. destruct Hh as [Hh _].
    destruct (gen_loop_spec mode minh h (proj1 Hh) _ _ _ _ _ _ H) as (ks & E & Hks).
    { constructor; [cbn; lia|constructor]. }
    inversion Hks as [|? k ? ks' [Hty Hlv] Hr]; subst. inversion Hr; subst. cbn [fst snd] in *.
    exists k. cbn [rev app ff flat_map]. rewrite app_nil_r. split; auto.
    split; [eapply typed_wft; eauto|]. split; auto.
    assert (R : minh <= theight k <= h /\ (mode = GFull -> theight k = h)).
    { destruct mode; unfold leaf_ok in Hlv.
      - assert (theight k = h).
        { rewrite Forall_forall in Hlv. apply (Hlv (0 + theight k)). apply leaf_depths_attained. }
        split; [lia|auto].
      - split; [|discriminate]. apply leaf_depths_range. exact Hlv. }
    destruct R as [R1 R2]. split; [lia|].
    destruct mode; unfold leaf_ok in Hlv.
    - rewrite (R2 eq_refl). exact Hlv.
    - eapply Forall_impl; [|exact Hlv]. cbn. intros; lia.
  Qed.

  Theorem generate_no_fuel_error mode minh maxh t ds :
    0 <= minh -> generate ps mode minh maxh t ds <> Err EFuel.
  Proof.
    intros H0 H. unfold generate in H. apply bind_err in H. destruct H as [H|(h & ds1 & Hh & H)].
    - unfold d_randint in H. destruct (maxh <? minh); [discriminate|].
      destruct ds as [|[] ?]; try discriminate.
      destruct ((minh =? lo) && (maxh =? hi) && (minh <=? r) && (r <=? maxh)); discriminate.
    - apply d_randint_ok in Hh. destruct Hh as [Hh (d & ->)].
      revert H. apply gen_loop_fuel; [lia|cbn; lia|]. constructor; [cbn; lia|constructor].
  Qed.

  (* the three public generators; `half` is one of the other two *)
  Definition gen_expr_post (g : gexpr) (t : ty) (out : list node) : Prop :=
    match g_kind g with
    | KFull => gen_post GFull (g_min g) (g_max g) t out
    | KGrow => gen_post GGrow (g_min g) (g_max g) t out
    | KHalf => gen_post GFull (g_min g) (g_max g) t out \/ gen_post GGrow (g_min g) (g_max g) t out
    end.

  Theorem gen_expr_spec g ot ds out ds' :
    0 <= g_min g ->
    gen_expr ps g ot ds = Ok (out, ds') ->
    gen_expr_post g (match ot with Some x => x | None => p_ret ps end) out.
  Proof.
    intros H0 H. unfold gen_expr in H. unfold gen_expr_post. destruct (g_kind g).
    - eapply generate_spec; eauto.
    - eapply generate_spec; eauto.
    - apply bind_ok in H. destruct H as (m & ds1 & _ & H).
      destruct m; [left|right]; eapply generate_spec; eauto.
  Qed.

  Lemma gen_post_typed mode minh maxh t out :
    gen_post mode minh maxh t out -> exists k, out = flatten k /\ typed sub t k.
  Proof. intros (k & E & _ & H & _). eauto. Qed.

  Lemma gen_expr_typed g ot ds out ds' :
    0 <= g_min g -> gen_expr ps g ot ds = Ok (out, ds') ->
    exists k, out = flatten k /\ typed sub (match ot with Some x => x | None => p_ret ps end) k.
  Proof.
    intros H0 H. apply gen_expr_spec in H; auto. unfold gen_expr_post in H.
    destruct (g_kind g); [| |destruct H]; eapply gen_post_typed; eauto.
  Qed.
End Gen.
