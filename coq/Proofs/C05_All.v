(* k >= n: selNSGA2 returns the whole population (reordered). *)
From Coq Require Import List ZArith Bool Lia Permutation Arith.
From DV Require Import Base.Corr Base.PyList Base.C05_Sort Base.C05_List
     Model.C05_Nsga2 Model.C05_Spec Proofs.C05_Spec Proofs.C05_Nsga2.
Import ListNotations.

Lemma all_when_k_ge_n (o : numops) (pop : list (ind (V o))) k fronts r :
  wf_pop pop -> fronts_correct pop k fronts -> sel_nsga2 o fronts k = Some r ->
  length pop <= k -> Permutation (uids r) (uids pop).
Proof.
  intros W F S K. apply NoDup_Permutation_bis.
  - exact (nodup o pop k fronts r W F S).
  - unfold uids. rewrite !map_length. rewrite (size_min o pop k fronts r F S). lia.
  - intros u I. unfold uids in *. apply in_map_iff in I. destruct I as [x [<- Ix]].
    apply in_map. exact (refs o pop k fronts r F S x Ix).
Qed.

(* The result is ordered by front rank (docstring: "sorting the population according to their
   front rank"): depths never decrease along the returned list. *)
From Coq Require Import Sorting.Sorted.

Lemma F2_nth {X Y} (R : X -> Y -> Prop) l L d1 d2 :
  Forall2 R l L -> forall i, i < length l -> R (nth i l d1) (nth i L d2).
Proof.
  induction 1 as [|x y l L Rxy F IH]; intros i Li; [cbn in Li; lia|].
  destruct i as [|i]; [exact Rxy|]. cbn. apply IH. cbn in Li. lia.
Qed.

Lemma nth_firstn_lt {X} (l : list X) : forall n i d, i < n -> nth i (firstn n l) d = nth i l d.
Proof.
  induction l as [|a l IH]; intros n i d L.
  - rewrite firstn_nil. reflexivity.
  - destruct n as [|n]; [lia|]. destruct i as [|i]; [reflexivity|]. cbn. apply IH. lia.
Qed.

Section Sorted.
  Context {X : Type} (g : X -> nat).
  Notation R := (fun x y => g x <= g y).

  Lemma ss_app (a b : list X) :
    StronglySorted R a -> StronglySorted R b -> (forall x y, In x a -> In y b -> g x <= g y) ->
    StronglySorted R (a ++ b).
  Proof.
    induction 1 as [|x a Sa IH Fa]; intros Sb C; [exact Sb|]. cbn. constructor.
    - apply IH; [exact Sb|]. intros x' y I1 I2. apply C; [right; exact I1|exact I2].
    - apply Forall_app. split; [exact Fa|]. apply Forall_forall. intros y Iy. apply C; [left; reflexivity|exact Iy].
  Qed.

  Lemma ss_const (a : list X) c : (forall x, In x a -> g x = c) -> StronglySorted R a.
  Proof.
    induction a as [|x a IH]; intro H; constructor.
    - apply IH. intros y Iy. apply H. right; exact Iy.
    - apply Forall_forall. intros y Iy. rewrite (H x (or_introl eq_refl)), (H y (or_intror Iy)). lia.
  Qed.

  Lemma ss_concat (fs : list (list X)) : forall off,
    (forall i x, In x (nth i fs []) -> g x = off + i) -> StronglySorted R (concat fs).
  Proof.
    induction fs as [|f fs IH]; intros off H; [constructor|]. cbn [concat]. apply ss_app.
    - apply (ss_const f off). intros x Ix. rewrite (H 0 x Ix). lia.
    - apply (IH (S off)). intros i x Ix. rewrite (H (S i) x Ix). lia.
    - intros x y Ix Iy. rewrite (H 0 x Ix). apply in_concat in Iy. destruct Iy as [l [Il Iy]].
      destruct (In_nth _ _ [] Il) as [j [_ Ej]]. rewrite <- Ej in Iy. rewrite (H (S j) y Iy). lia.
  Qed.
End Sorted.

Lemma rank_ordered (o : numops) (pop : list (ind (V o))) k fronts r :
  wf_pop pop -> fronts_correct pop k fronts -> sel_nsga2 o fronts k = Some r ->
  StronglySorted (fun x y => depth pop x <= depth pop y) r.
Proof.
  intros W F SEL. destruct (k_cases k) as [K|[k0 K]].
  - rewrite (sel_k0 o pop k fronts r F SEL K). constructor.
  - destruct (sel_shape o pop k fronts r F SEL k0 K) as [m' [init [lastf [n' [Ef [Er _]]]]]].
    pose proof F as F'. rewrite K in F'. destruct F' as [_ [m [Lf [F2 _]]]].
    assert (Li : length init = m) by (rewrite Ef, app_length in Lf; cbn in Lf; lia).
    assert (FD : forall i x, i < S m -> In x (nth i fronts []) -> depth pop x = i).
    { intros i x Lt Ix. apply depth_of_layer_uid; [exact W|].
      pose proof (F2_nth _ fronts _ [] [] F2 i) as Rn. rewrite Lf in Rn. specialize (Rn Lt). cbv beta in Rn.
      rewrite nth_firstn_lt in Rn by exact Lt.
      eapply Permutation_in; [exact Rn|]. unfold uids. apply in_map, Ix. }
    rewrite Er. apply ss_app.
    + apply (ss_concat (depth pop) init 0). intros i x Ix. cbn.
      destruct (Nat.lt_ge_cases i (length init)) as [Lt|Ge].
      * apply FD; [lia|]. rewrite Ef, app_nth1 by exact Lt. exact Ix.
      * rewrite nth_overflow in Ix by exact Ge. contradiction.
    + apply (ss_const (depth pop) _ m). intros x Ix. apply (FD m x); [lia|].
      rewrite Ef, app_nth2, Li, Nat.sub_diag by lia. cbn.
      eapply Permutation_in; [apply (cut_sorted_perm o)|]. rewrite <- firstn_map in Ix. eapply in_firstn, Ix.
    + intros x y Ix Iy.
      assert (Dy : depth pop y = m).
      { apply (FD m y); [lia|]. rewrite Ef, app_nth2, Li, Nat.sub_diag by lia. cbn.
        eapply Permutation_in; [apply (cut_sorted_perm o)|]. rewrite <- firstn_map in Iy. eapply in_firstn, Iy. }
      apply in_concat in Ix. destruct Ix as [l [Il Ix]]. destruct (In_nth _ _ [] Il) as [j [Lj Ej]].
      rewrite <- Ej in Ix. assert (Dx : depth pop x = j).
      { apply FD; [lia|]. rewrite Ef, app_nth1 by exact Lj. exact Ix. }
      lia.
Qed.
