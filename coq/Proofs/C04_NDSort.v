(* Proofs about Model/C04_NDSort.v: sortNondominated returns exactly the peeling fronts. *)
From Coq Require Import List ZArith Bool Lia Permutation.
From DV Require Import Base.PyTuple Base.PyList Model.C01_Fitness Proofs.C01_Fitness Model.C04_NDSort.
Import ListNotations.
Local Open Scope Z_scope.

(* ------------------------------------------------------------------------------------- *)
(* keys and maps                                                                         *)
Lemma key_eqb_eq a b : key_eqb a b = true <-> a = b.
Proof. apply tup_eq_spec. Qed.
Lemma key_eqb_refl a : key_eqb a a = true.
Proof. apply key_eqb_eq; reflexivity. Qed.
Lemma key_eqb_neq a b : a <> b -> key_eqb a b = false.
Proof. intro N. destruct (key_eqb a b) eqn:E; [apply key_eqb_eq in E; congruence|reflexivity]. Qed.
Lemma key_dec (a b : wvals) : {a = b} + {a <> b}.
Proof. destruct (key_eqb a b) eqn:E; [left; apply key_eqb_eq; exact E|right; intro H; apply key_eqb_eq in H; congruence]. Qed.

Definition inb (f : wvals) (l : list wvals) : bool := existsb (key_eqb f) l.
Lemma inb_In f l : inb f l = true <-> In f l.
Proof.
  unfold inb. rewrite existsb_exists. split.
  - intros [x [Hx E]]. apply key_eqb_eq in E. subst; assumption.
  - intro H. exists f. split; [assumption|apply key_eqb_refl].
Qed.
Lemma inb_false f l : inb f l = false <-> ~ In f l.
Proof. rewrite <- inb_In. destruct (inb f l); split; congruence. Qed.

Section KMapLemmas.
  Context {V : Type}.
  Lemma kget_kset_same (m : kmap V) k v d : kget (kset m k v) k d = v.
  Proof.
    induction m as [|[k' v'] r IH]; cbn.
    - rewrite key_eqb_refl; reflexivity.
    - destruct (key_eqb k' k) eqn:E; cbn; rewrite E; auto.
  Qed.
  Lemma kget_kset_other (m : kmap V) k k2 v d : k <> k2 -> kget (kset m k v) k2 d = kget m k2 d.
  Proof.
    intro N. induction m as [|[k' v'] r IH]; cbn.
    - rewrite key_eqb_neq by assumption. reflexivity.
    - destruct (key_eqb k' k) eqn:E; cbn.
      + apply key_eqb_eq in E. subst k'. rewrite key_eqb_neq by assumption. reflexivity.
      + destruct (key_eqb k' k2); auto.
  Qed.
  Lemma kkeys_kset (m : kmap V) k v :
    kkeys (kset m k v) = if inb k (kkeys m) then kkeys m else kkeys m ++ [k].
  Proof.
    induction m as [|[k' v'] r IH]; cbn; [reflexivity|].
    destruct (key_eqb k' k) eqn:E; cbn.
    - apply key_eqb_eq in E. subst. rewrite key_eqb_refl. reflexivity.
    - unfold kkeys in *. rewrite IH.
      assert (key_eqb k k' = false) as ->.
      { apply key_eqb_neq. intro H. subst. rewrite key_eqb_refl in E. discriminate. }
      cbn. unfold inb. destruct (existsb (key_eqb k) (map fst r)); reflexivity.
  Qed.
End KMapLemmas.

(* ------------------------------------------------------------------------------------- *)
(* grouping of individuals by fitness                                                    *)
Definition group (pop : list ind) (f : wvals) : list ind := filter (fun x => key_eqb (iw x) f) pop.

Lemma group_fold pop : forall m,
  (forall f, kget (fold_left group_step pop m) f [] = kget m f [] ++ group pop f) /\
  (forall f, In f (kkeys (fold_left group_step pop m)) <-> In f (kkeys m) \/ In f (map iw pop)) /\
  (NoDup (kkeys m) -> NoDup (kkeys (fold_left group_step pop m))).
Proof.
  induction pop as [|x pop IH]; intro m; cbn [fold_left].
  - split; [|split].
    + intro f. cbn. rewrite app_nil_r. reflexivity.
    + intro f. cbn. tauto.
    + auto.
  - destruct (IH (group_step m x)) as [G [K N]]. split; [|split].
    + intro f. rewrite G. unfold group_step. cbn [group filter].
      destruct (key_eqb (iw x) f) eqn:E.
      * apply key_eqb_eq in E. subst f. rewrite kget_kset_same. rewrite <- app_assoc. reflexivity.
      * rewrite kget_kset_other; [reflexivity|]. intro H. subst. rewrite key_eqb_refl in E. discriminate.
    + intro f. rewrite K. unfold group_step. rewrite kkeys_kset. cbn [map In].
      destruct (inb (iw x) (kkeys m)) eqn:E.
      * apply inb_In in E. split; [intros [H|H]; auto|]. intros [H|[H|H]]; auto. subst; auto.
      * rewrite in_app_iff. cbn. tauto.
    + intro ND. apply N. unfold group_step. rewrite kkeys_kset.
      destruct (inb (iw x) (kkeys m)) eqn:E; [assumption|].
      apply inb_false in E.
      apply Permutation_NoDup with (l := iw x :: kkeys m); [|constructor; assumption].
      apply Permutation_cons_append.
Qed.

Lemma group_inds_get pop f : kget (group_inds pop) f [] = group pop f.
Proof. unfold group_inds. destruct (group_fold pop []) as [G _]. rewrite G. reflexivity. Qed.
Lemma group_inds_keys pop f : In f (kkeys (group_inds pop)) <-> In f (map iw pop).
Proof. unfold group_inds. destruct (group_fold pop []) as [_ [K _]]. rewrite K. cbn. tauto. Qed.
Lemma group_inds_nodup pop : NoDup (kkeys (group_inds pop)).
Proof. unfold group_inds. destruct (group_fold pop []) as [_ [_ N]]. apply N. constructor. Qed.

Lemma in_group pop f x : In x (group pop f) <-> In x pop /\ iw x = f.
Proof. unfold group. rewrite filter_In, key_eqb_eq. tauto. Qed.

(* ------------------------------------------------------------------------------------- *)
(* dominance on weighted-value tuples (C01)                                              *)
Lemma nd_dom_is_dom a b : nd_dom a b = dom a b.
Proof. reflexivity. Qed.
Lemma nd_dom_irrefl a : nd_dom a a = false.
Proof. apply dom_irrefl. Qed.

Definition asym_on (fits : list wvals) : Prop :=
  forall a b, In a fits -> In b fits -> nd_dom a b = true -> nd_dom b a = false.
Definition trans_on (fits : list wvals) : Prop :=
  forall a b c, In a fits -> In b fits -> In c fits -> nd_dom a b = true -> nd_dom b c = true -> nd_dom a c = true.
Definition same_len (fits : list wvals) : Prop :=
  forall a b, In a fits -> In b fits -> length a = length b.

Lemma same_len_asym fits : same_len fits -> asym_on fits.
Proof. intros SL a b Ha Hb H. unfold nd_dom in *. apply (dom_asym a b (SL a b Ha Hb) H). Qed.
Lemma same_len_trans fits : same_len fits -> trans_on fits.
Proof. intros SL a b c Ha Hb Hc H1 H2. exact (dom_trans a b c (SL a b Ha Hb) (SL b c Hb Hc) H1 H2). Qed.

Lemma zlen_cons {A} (x : A) l : zlen (x :: l) = 1 + zlen l.
Proof. unfold zlen. cbn [length]. lia. Qed.
Lemma zlen_app {A} (a b : list A) : zlen (a ++ b) = zlen a + zlen b.
Proof. unfold zlen. rewrite app_length. lia. Qed.
Lemma zlen_nil {A} : zlen (@nil A) = 0.
Proof. reflexivity. Qed.
Lemma zlen_nonneg {A} (l : list A) : 0 <= zlen l.
Proof. unfold zlen. lia. Qed.

Lemma NoDup_app_inv {A} (a b : list A) :
  NoDup (a ++ b) -> NoDup a /\ NoDup b /\ (forall x, In x a -> ~ In x b).
Proof.
  induction a as [|x a IH]; cbn; intro H.
  - split; [constructor|split; [assumption|intros ? []]].
  - inversion H as [|? ? H1 H2]; subst. destruct (IH H2) as [Na [Nb D]]. split; [|split].
    + constructor; [|assumption]. intro I. apply H1. apply in_or_app; left; assumption.
    + assumption.
    + intros y [->|Hy]; [intro I; apply H1; apply in_or_app; right; assumption|apply D; assumption].
Qed.
Lemma NoDup_app_intro {A} (a b : list A) :
  NoDup a -> NoDup b -> (forall x, In x a -> ~ In x b) -> NoDup (a ++ b).
Proof.
  induction a as [|x a IH]; cbn; intros Na Nb D; [assumption|].
  inversion Na; subst. constructor.
  - intro I. apply in_app_or in I. destruct I as [I|I]; [contradiction|]. apply (D x); auto.
  - apply IH; auto.
Qed.

(* ------------------------------------------------------------------------------------- *)
(* phase 1: counters and dominated lists                                                 *)
Definition domcount (L : list wvals) (f : wvals) : Z := zlen (filter (fun g => nd_dom g f) L).

Lemma domcount_cons g L f : domcount (g :: L) f = (if nd_dom g f then 1 else 0) + domcount L f.
Proof. unfold domcount. cbn [filter]. destruct (nd_dom g f); [rewrite zlen_cons|]; lia. Qed.
Lemma domcount_app L1 L2 f : domcount (L1 ++ L2) f = domcount L1 f + domcount L2 f.
Proof. unfold domcount. rewrite filter_app, zlen_app. reflexivity. Qed.
Lemma domcount_nil f : domcount [] f = 0.
Proof. reflexivity. Qed.

Lemma pair_step_spec fi fj s :
  fi <> fj -> (nd_dom fi fj = true -> nd_dom fj fi = false) ->
  (forall f, cnt_of (pair_step fi s fj) f =
             cnt_of s f + (if (key_eqb f fj && nd_dom fi fj) || (key_eqb f fi && nd_dom fj fi) then 1 else 0)) /\
  (forall f, dl_of (pair_step fi s fj) f =
             dl_of s f ++ (if key_eqb f fi && nd_dom fi fj then [fj]
                           else if key_eqb f fj && nd_dom fj fi then [fi] else [])).
Proof.
  intros N A. unfold pair_step.
  destruct (nd_dom fi fj) eqn:D1.
  - rewrite (A eq_refl). split; intro f; unfold cnt_of, dl_of; cbn [cnt dl]; rewrite !andb_true_r, !andb_false_r, ?orb_false_r.
    + destruct (key_eqb f fj) eqn:E.
      * apply key_eqb_eq in E. subst. rewrite kget_kset_same. reflexivity.
      * rewrite kget_kset_other; [lia|]. intro H; subst; rewrite key_eqb_refl in E; discriminate.
    + destruct (key_eqb f fi) eqn:E.
      * apply key_eqb_eq in E. subst. rewrite kget_kset_same. reflexivity.
      * rewrite kget_kset_other; [rewrite app_nil_r; reflexivity|]. intro H; subst; rewrite key_eqb_refl in E; discriminate.
  - destruct (nd_dom fj fi) eqn:D2.
    + split; intro f; unfold cnt_of, dl_of; cbn [cnt dl]; rewrite !andb_true_r, !andb_false_r; cbn [orb].
      * destruct (key_eqb f fi) eqn:E.
        -- apply key_eqb_eq in E. subst. rewrite kget_kset_same. reflexivity.
        -- rewrite kget_kset_other; [lia|]. intro H; subst; rewrite key_eqb_refl in E; discriminate.
      * destruct (key_eqb f fj) eqn:E.
        -- apply key_eqb_eq in E. subst. rewrite kget_kset_same. reflexivity.
        -- rewrite kget_kset_other; [rewrite app_nil_r; reflexivity|]. intro H; subst; rewrite key_eqb_refl in E; discriminate.
    + split; intro f; rewrite !andb_false_r; cbn; [lia|rewrite app_nil_r; reflexivity].
Qed.

Lemma inner_spec r : forall s fi,
  NoDup (fi :: r) -> asym_on (fi :: r) ->
  let s' := fold_left (pair_step fi) r s in
  cnt_of s' fi = cnt_of s fi + domcount r fi /\
  dl_of s' fi = dl_of s fi ++ filter (nd_dom fi) r /\
  (forall f, f <> fi -> cnt_of s' f = cnt_of s f + (if inb f r && nd_dom fi f then 1 else 0)) /\
  (forall f, f <> fi -> dl_of s' f = dl_of s f ++ (if inb f r && nd_dom f fi then [fi] else [])).
Proof.
  induction r as [|fj r IH]; intros s fi ND AS; cbn zeta; cbn [fold_left].
  - rewrite domcount_nil. cbn. rewrite app_nil_r. repeat split; intros; try lia; rewrite ?app_nil_r; reflexivity.
  - assert (Nij : fi <> fj). { inversion ND; subst. intro H; subst. apply H1. left; reflexivity. }
    assert (Afj : nd_dom fi fj = true -> nd_dom fj fi = false).
    { apply AS; [left; reflexivity|right; left; reflexivity]. }
    destruct (pair_step_spec fi fj s Nij Afj) as [C1 D1].
    assert (ND' : NoDup (fi :: r)).
    { inversion ND as [|? ? H1 H2]; subst. inversion H2; subst. constructor; [|assumption]. intro H. apply H1. right; assumption. }
    assert (AS' : asym_on (fi :: r)).
    { intros a b Ha Hb. apply AS; destruct Ha as [Ha|Ha]; destruct Hb as [Hb|Hb]; subst; cbn; auto. }
    assert (Nfj : ~ In fj r). { inversion ND as [|? ? H1 H2]; subst. inversion H2; subst. assumption. }
    destruct (IH (pair_step fi s fj) fi ND' AS') as [I1 [I2 [I3 I4]]].
    split; [|split; [|split]].
    + rewrite I1, C1, domcount_cons. rewrite (key_eqb_neq fi fj Nij), key_eqb_refl. cbn [andb orb].
      destruct (nd_dom fj fi); lia.
    + rewrite I2, D1. rewrite key_eqb_refl. cbn [andb filter]. destruct (nd_dom fi fj) eqn:E.
      * rewrite <- app_assoc. reflexivity.
      * rewrite (key_eqb_neq fi fj Nij). cbn [andb]. rewrite app_nil_r. reflexivity.
    + intros f Nf. rewrite (I3 f Nf), C1. rewrite (key_eqb_neq f fi Nf). cbn [andb orb inb existsb].
      rewrite orb_false_r. destruct (key_eqb f fj) eqn:E.
      * apply key_eqb_eq in E. subst f. cbn [orb andb].
        assert (inb fj r = false) as -> by (apply inb_false; assumption). cbn [andb].
        destruct (nd_dom fi fj); lia.
      * cbn [orb andb]. fold (inb f r). lia.
    + intros f Nf. rewrite (I4 f Nf), D1. rewrite (key_eqb_neq f fi Nf). cbn [andb orb inb existsb].
      destruct (key_eqb f fj) eqn:E.
      * apply key_eqb_eq in E. subst f. cbn [orb andb].
        assert (inb fj r = false) as -> by (apply inb_false; assumption). cbn [andb].
        rewrite app_nil_r. reflexivity.
      * cbn [orb andb]. fold (inb f r). rewrite app_nil_r. reflexivity.
Qed.

(* invariant of the outer loop: done = fits already used as fit_i, rest = remaining *)
Definition p1_inv (done rest : list wvals) (s : ndstate) : Prop :=
  (forall f, In f done -> cnt_of s f = domcount (done ++ rest) f /\ dl_of s f = filter (nd_dom f) (done ++ rest)) /\
  (forall f, In f rest -> cnt_of s f = domcount done f /\ dl_of s f = filter (nd_dom f) done).

Lemma phase1_spec rest : forall done s cur s' cur',
  NoDup (done ++ rest) -> asym_on (done ++ rest) -> p1_inv done rest s ->
  phase1 rest s cur = (s', cur') ->
  p1_inv (done ++ rest) [] s' /\
  cur' = cur ++ filter (fun f => domcount (done ++ rest) f =? 0) rest.
Proof.
  induction rest as [|fi r IH]; intros done s cur s' cur' ND AS INV P; cbn [phase1] in P.
  - inversion P; subst. cbn. rewrite !app_nil_r in *. split; [assumption|reflexivity].
  - set (s1 := fold_left (pair_step fi) r s) in *.
    destruct (NoDup_app_inv _ _ ND) as [NDd [NDr DISJ]].
    assert (ASr : asym_on (fi :: r)). { intros a b Ha Hb. apply AS; apply in_or_app; right; assumption. }
    destruct (inner_spec r s fi NDr ASr) as [I1 [I2 [I3 I4]]]. fold s1 in I1, I2, I3, I4.
    destruct INV as [INVd INVr].
    assert (E : (done ++ [fi]) ++ r = done ++ fi :: r) by (rewrite <- app_assoc; reflexivity).
    assert (INV1 : p1_inv (done ++ [fi]) r s1).
    { split.
      - intros f Hf. rewrite E. apply in_app_or in Hf. destruct Hf as [Hf|[Hf|[]]].
        + assert (Nf : f <> fi).
          { intro H; subst f. apply NoDup_remove_2 in ND. apply ND. apply in_or_app. left; assumption. }
          assert (Nr : inb f r = false).
          { apply inb_false. intro H. apply (DISJ f Hf). right; assumption. }
          rewrite (I3 f Nf), (I4 f Nf), Nr. cbn [andb]. rewrite app_nil_r, Z.add_0_r. apply INVd; assumption.
        + subst f. destruct (INVr fi (or_introl eq_refl)) as [C D].
          rewrite I1, I2, C, D. rewrite domcount_app, domcount_cons, nd_dom_irrefl, filter_app. cbn [filter].
          rewrite nd_dom_irrefl. split; [lia|reflexivity].
      - intros f Hf.
        assert (Nf : f <> fi). { intro H; subst f. inversion NDr; subst. contradiction. }
        destruct (INVr f (or_intror Hf)) as [C D].
        rewrite (I3 f Nf), (I4 f Nf), C, D. assert (inb f r = true) as -> by (apply inb_In; assumption). cbn [andb].
        rewrite domcount_app, domcount_cons, domcount_nil, filter_app. cbn [filter].
        split; [destruct (nd_dom fi f); lia|destruct (nd_dom f fi); reflexivity]. }
    rewrite <- E in ND, AS.
    destruct (IH (done ++ [fi]) s1 _ s' cur' ND AS INV1 P) as [R1 R2].
    rewrite E in R1, R2. split; [exact R1|].
    rewrite R2. cbn [filter].
    assert (C : cnt_of s1 fi = domcount (done ++ fi :: r) fi).
    { destruct (INVr fi (or_introl eq_refl)) as [C _]. rewrite I1, C, domcount_app, domcount_cons, nd_dom_irrefl. lia. }
    rewrite C. destruct (domcount (done ++ fi :: r) fi =? 0); [rewrite <- app_assoc|]; reflexivity.
Qed.
