(* Facts about the specification side (Model/C05_Spec.v): dominance is acyclic, the peeling layers
   partition the population, depth is well defined, and the boolean decision of fronts_correct
   used by the correspondence check is sound. *)
From Coq Require Import List ZArith Bool Lia Permutation Arith.
From DV Require Import Base.Corr Base.PyList Base.C05_Sort Base.C05_List Model.C05_Nsga2 Model.C05_Spec.
Import ListNotations.

Fixpoint zsum (l : list Z) : Z := match l with [] => 0%Z | x :: r => (x + zsum r)%Z end.

Lemma dom_aux a : forall b, length a = length b ->
  forallb (fun p => (snd p <=? fst p)%Z) (zip a b) = true ->
  (zsum b <= zsum a)%Z /\
  (existsb (fun p => (snd p <? fst p)%Z) (zip a b) = true -> (zsum b < zsum a)%Z).
Proof.
  induction a as [|x a IH]; intros [|y b] L F; cbn in *; try discriminate.
  - split; [lia|intro; discriminate].
  - apply andb_true_iff in F. destruct F as [F1 F2]. apply Z.leb_le in F1.
    destruct (IH b) as [H1 H2]; [lia|assumption|].
    split; [lia|]. intro E. apply orb_true_iff in E. destruct E as [E|E].
    + apply Z.ltb_lt in E. lia.
    + specialize (H2 E). lia.
Qed.

Lemma dom_sum a b : dom a b = true -> (zsum b < zsum a)%Z.
Proof.
  unfold dom. intro H. apply andb_true_iff in H. destruct H as [H E].
  apply andb_true_iff in H. destruct H as [L F]. apply Nat.eqb_eq in L.
  destruct (dom_aux a b L F) as [_ H]. auto.
Qed.

Lemma dom_irrefl a : dom a a = false.
Proof. destruct (dom a a) eqn:E; [apply dom_sum in E; lia|reflexivity]. Qed.

Lemma dom_asym a b : dom a b = true -> dom b a = false.
Proof. intro H. destruct (dom b a) eqn:E; [apply dom_sum in E; apply dom_sum in H; lia|reflexivity]. Qed.

Lemma dom_spec a b : dom a b = true <->
  length a = length b /\ Forall (fun p => (snd p <= fst p)%Z) (zip a b) /\ Exists (fun p => (snd p < fst p)%Z) (zip a b).
Proof.
  unfold dom. rewrite !andb_true_iff, Nat.eqb_eq, forallb_forall, Forall_forall, existsb_exists, Exists_exists.
  split.
  - intros [[L F] [p [I E]]]. split; [exact L|split].
    + intros q Iq. apply Z.leb_le, F, Iq.
    + exists p. split; [exact I|apply Z.ltb_lt, E].
  - intros [L [F [p [I E]]]]. split; [split|].
    + exact L.
    + intros q Iq. apply Z.leb_le, F, Iq.
    + exists p. split; [exact I|apply Z.ltb_lt, E].
Qed.

Section SpecFacts.
  Context {A : Type}.
  Notation indA := (ind A).

  Lemma max_elem (f : indA -> Z) (l : list indA) :
    l <> [] -> exists x, In x l /\ forall y, In y l -> (f y <= f x)%Z.
  Proof.
    induction l as [|a l IH]; [congruence|]. intros _.
    destruct l as [|b l'].
    - exists a. split; [left; reflexivity|]. intros y [->|[]]. lia.
    - destruct IH as [x [Ix Hx]]; [discriminate|].
      destruct (Z_le_gt_dec (f x) (f a)).
      + exists a. split; [left; reflexivity|]. intros y [->|Iy]; [lia|]. specialize (Hx y Iy). lia.
      + exists x. split; [right; assumption|]. intros y [->|Iy]; [lia|auto].
  Qed.

  Lemma exists_nondominated (rem : list indA) :
    rem <> [] -> exists x, In x rem /\ dominated_in rem x = false.
  Proof.
    intro N. destruct (max_elem (fun x => zsum (wv x)) rem N) as [x [Ix Hx]].
    exists x. split; [assumption|]. destruct (dominated_in rem x) eqn:E; [|reflexivity].
    unfold dominated_in in E. apply existsb_exists in E. destruct E as [y [Iy Dy]].
    apply dom_sum in Dy. specialize (Hx y Iy). cbn in Hx. lia.
  Qed.

  Lemma filter_split_perm (p : indA -> bool) l :
    Permutation (filter (fun x => negb (p x)) l ++ filter p l) l.
  Proof.
    induction l as [|a l IH]; cbn; [constructor|].
    destruct (p a); cbn.
    - eapply perm_trans; [apply Permutation_sym, Permutation_middle|]. apply perm_skip, IH.
    - apply perm_skip, IH.
  Qed.

  Lemma filter_len_le (p : indA -> bool) l : length (filter p l) <= length l.
  Proof. induction l as [|a l IH]; cbn; [lia|]. destruct (p a); cbn; lia. Qed.

  Lemma filter_length_lt (p : indA -> bool) l x :
    In x l -> p x = false -> length (filter p l) < length l.
  Proof.
    induction l as [|a l IH]; cbn; [contradiction|]. intros [->|I] H.
    - rewrite H. pose proof (filter_len_le p l). lia.
    - specialize (IH I H). destruct (p a); cbn; lia.
  Qed.

  Lemma layers_fuel_perm f : forall rem : list indA,
    length rem <= f -> Permutation (concat (layers_fuel f rem)) rem.
  Proof.
    induction f as [|f IH]; intros rem L.
    - destruct rem; [constructor|cbn in L; lia].
    - destruct rem as [|a r]; [constructor|].
      set (rem := a :: r) in *. cbn [layers_fuel]. fold rem. cbn [concat].
      destruct (exists_nondominated rem) as [x [Ix Hx]]; [discriminate|].
      pose proof (filter_length_lt (dominated_in rem) rem x Ix Hx) as LT.
      eapply perm_trans; [apply Permutation_app_head, IH; lia|].
      apply filter_split_perm.
  Qed.

  Lemma layers_perm (pop : list indA) : Permutation (concat (layers pop)) pop.
  Proof. apply layers_fuel_perm. lia. Qed.

  Lemma total_layers (pop : list indA) : total (layers pop) = length pop.
  Proof. unfold total. apply Permutation_length, layers_perm. Qed.

  Lemma uids_concat (ls : list (list indA)) : uids (concat ls) = concat (map uids ls).
  Proof. unfold uids. apply concat_map. Qed.

  Lemma wf_pop_nodup (pop : list indA) : wf_pop pop -> NoDup (uids pop).
  Proof. unfold wf_pop. intros ->. apply seq_NoDup. Qed.

  Lemma layers_nodup (pop : list indA) : wf_pop pop -> NoDup (uids (concat (layers pop))).
  Proof.
    intro W. eapply Permutation_NoDup; [|apply wf_pop_nodup, W].
    apply Permutation_sym. unfold uids. apply Permutation_map, layers_perm.
  Qed.

  Lemma mem_uid_in u (l : list indA) : mem_uid u l = true <-> In u (uids l).
  Proof.
    unfold mem_uid. rewrite existsb_exists. split.
    - intros [v [I E]]. apply Nat.eqb_eq in E. subst. assumption.
    - intro I. exists u. split; [assumption|apply Nat.eqb_refl].
  Qed.

  Lemma depth_in_nth (ls : list (list indA)) : forall i u,
    NoDup (uids (concat ls)) -> In u (uids (nth i ls [])) -> depth_in ls u = i.
  Proof.
    induction ls as [|l r IH]; intros i u ND I.
    - destruct i; cbn in I; contradiction.
    - cbn [concat] in ND. unfold uids in ND. rewrite map_app in ND. fold (uids l) (uids (concat r)) in ND.
      cbn [depth_in]. destruct i as [|i]; cbn [nth] in I.
      + apply mem_uid_in in I. rewrite I. reflexivity.
      + assert (Iu : In u (uids (concat r))).
        { destruct (Nat.lt_ge_cases i (length r)) as [Lt|Ge].
          - unfold uids. apply in_map_iff. apply in_map_iff in I. destruct I as [x [E Ix]].
            exists x. split; [assumption|]. apply in_concat. exists (nth i r []). split; [apply nth_In; assumption|assumption].
          - rewrite nth_overflow in I by assumption. contradiction. }
        destruct (mem_uid u l) eqn:M.
        * apply mem_uid_in in M. exfalso.
          apply nodup_app_inv in ND. destruct ND as [_ [_ ND]]. apply (ND u); assumption.
        * f_equal. apply IH; [|assumption]. apply nodup_app_inv in ND. tauto.
  Qed.

  Lemma in_pop_layer (pop : list indA) x :
    In x pop -> exists i, i < length (layers pop) /\ In x (nth i (layers pop) []).
  Proof.
    intro I. eapply Permutation_in in I; [|apply Permutation_sym, layers_perm].
    apply in_concat in I. destruct I as [l [Il Ix]].
    destruct (In_nth _ _ [] Il) as [i [Li Ei]]. exists i. split; [exact Li|rewrite Ei; exact Ix].
  Qed.

  Lemma depth_of_layer (pop : list indA) x i :
    wf_pop pop -> In x (nth i (layers pop) []) -> depth pop x = i.
  Proof. intros W I. apply depth_in_nth; [apply layers_nodup, W|apply in_map, I]. Qed.

  Lemma depth_of_layer_uid (pop : list indA) x i :
    wf_pop pop -> In (uid x) (uids (nth i (layers pop) [])) -> depth pop x = i.
  Proof. intros W I. apply depth_in_nth; [apply layers_nodup, W|exact I]. Qed.

  Lemma depth_lt (pop : list indA) x : wf_pop pop -> In x pop -> depth pop x < length (layers pop).
  Proof.
    intros W I. destruct (in_pop_layer pop x I) as [i [Li Ii]].
    rewrite (depth_of_layer pop x i W Ii). exact Li.
  Qed.

  (* ---- soundness of the executable decision ---- *)
  Lemma perm_nat_b_sound a b : perm_nat_b a b = true -> Permutation a b.
  Proof.
    unfold perm_nat_b. intro H. apply (list_eqb_eq Nat.eqb Nat.eqb_eq) in H.
    eapply perm_trans; [apply (sort_st_perm Nat.ltb (fun x => x))|].
    unfold sort_nat in H. rewrite H. apply Permutation_sym, sort_st_perm.
  Qed.

  Lemma select_in (pop : list indA) us x : In x (select pop us) -> In x pop.
  Proof.
    unfold select. intro H. apply in_flat_map in H. destruct H as [u [_ H]].
    destruct (nth_error pop u) eqn:E; [|contradiction]. destruct H as [<-|[]].
    eapply nth_error_In; eassumption.
  Qed.

  Lemma wf_pop_nth (pop : list indA) u x : wf_pop pop -> nth_error pop u = Some x -> uid x = u.
  Proof.
    intros W E. assert (H : nth_error (uids pop) u = Some (uid x)) by (unfold uids; apply map_nth_error, E).
    rewrite W in H. assert (L : u < length pop) by (apply nth_error_Some; congruence).
    rewrite (nth_error_nth' _ 0) in H by (rewrite seq_length; exact L).
    rewrite seq_nth in H by exact L. cbn in H. congruence.
  Qed.

  Lemma select_uids (pop : list indA) us :
    wf_pop pop -> forallb (fun u => u <? length pop) us = true -> uids (select pop us) = us.
  Proof.
    intros W. induction us as [|u us IH]; cbn; intro H; [reflexivity|].
    apply andb_true_iff in H. destruct H as [Hu H]. apply Nat.ltb_lt in Hu.
    destruct (nth_error pop u) eqn:E; [|apply nth_error_None in E; lia].
    cbn. f_equal; [eapply wf_pop_nth; eassumption|apply IH, H].
  Qed.

  Lemma forall2b_perm_sound (pop : list indA) (W : wf_pop pop) : forall fu (L : list (list indA)),
    forallb (forallb (fun u => u <? length pop)) fu = true ->
    forall2b (fun f l => perm_nat_b f (uids l)) fu L = true ->
    Forall2 (fun f l => Permutation (uids f) (uids l)) (map (select pop) fu) L.
  Proof.
    induction fu as [|f fu IH]; intros [|l L] R H; cbn in *; try discriminate; [constructor|].
    apply andb_true_iff in R. destruct R as [R1 R2]. apply andb_true_iff in H. destruct H as [H1 H2].
    constructor; [|apply IH; assumption].
    rewrite (select_uids pop f W R1). apply perm_nat_b_sound, H1.
  Qed.

  Theorem fronts_correct_b_sound (pop : list indA) k fu :
    wf_pop pop -> fronts_correct_b pop k fu = true -> fronts_correct pop k (map (select pop) fu).
  Proof.
    intros W H. unfold fronts_correct_b in H. apply andb_true_iff in H. destruct H as [R H].
    split.
    - intros f x If Ix. apply in_map_iff in If. destruct If as [us [<- _]]. eapply select_in, Ix.
    - destruct k as [|k0]; [destruct fu; [reflexivity|discriminate]|].
      destruct (length fu) as [|m] eqn:Lf; [discriminate|].
      apply andb_true_iff in H. destruct H as [H H3]. apply andb_true_iff in H. destruct H as [H1 H2].
      exists m. split; [rewrite map_length; exact Lf|]. split; [apply forall2b_perm_sound; assumption|].
      apply Nat.ltb_lt in H2. apply Nat.leb_le in H3. split; assumption.
  Qed.

  Lemma wf_pop_b_sound (pop : list indA) : wf_pop_b pop = true -> wf_pop pop.
  Proof. unfold wf_pop_b, wf_pop. apply (list_eqb_eq Nat.eqb Nat.eqb_eq). Qed.
End SpecFacts.
