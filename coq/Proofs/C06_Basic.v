(* C06 proofs, part 1: combinators, selRandom, selBest/selWorst, selTournament, selDoubleTournament. *)
From Coq Require Import List Bool Arith Permutation Sorted QArith Lia Lqa.
From DV Require Import Base.PyList Base.C06_Py Model.C06_Select Proofs.C06_Sort.
Import ListNotations.

(* ---------- state-passing combinators ---------- *)
Lemma bind_Ok {A B} (m : M A) (f : A -> M B) ds b rest :
  bind m f ds = Ok b rest -> exists a ds1, m ds = Ok a ds1 /\ f a ds1 = Ok b rest.
Proof. unfold bind. destruct (m ds) as [a ds1| |]; try discriminate. eauto. Qed.

Lemma bind_Raise {A B} (m : M A) (f : A -> M B) ds e :
  bind m f ds = Raise e -> m ds = Raise e \/ exists a ds1, m ds = Ok a ds1 /\ f a ds1 = Raise e.
Proof.
  unfold bind. destruct (m ds) as [a ds1|e'|]; try discriminate.
  - intro H. right. exists a, ds1. split; [reflexivity|exact H].
  - intro H. left. inversion H. reflexivity.
Qed.

Lemma ret_Ok {A} (a b : A) ds rest : ret a ds = Ok b rest -> a = b /\ ds = rest.
Proof. unfold ret. intro H; inversion H; auto. Qed.

Ltac inv_bind H :=
  let a := fresh "a" in let ds1 := fresh "ds" in let H1 := fresh "Hm" in let H2 := fresh "Hf" in
  apply bind_Ok in H as (a & ds1 & H1 & H2).

Tactic Notation "bind_inv" hyp(H) "as" ident(a) ident(d) ident(H1) ident(H2) :=
  apply bind_Ok in H as (a & d & H1 & H2).

(* the successive iterations of `for i in range(k): chosen.append(body())` *)
Inductive steps {A} (body : M A) : list draw -> list A -> list draw -> Prop :=
| steps_nil ds : steps body ds [] ds
| steps_cons ds x ds1 out ds2 :
    body ds = Ok x ds1 -> steps body ds1 out ds2 -> steps body ds (x :: out) ds2.

Lemma repeatM_steps {A} (body : M A) k : forall ds out rest,
  repeatM k body ds = Ok out rest <-> (length out = k /\ steps body ds out rest).
Proof.
  induction k as [|k IH]; intros ds out rest; cbn [repeatM].
  - split.
    + intro H. apply ret_Ok in H as [<- <-]. split; [reflexivity|constructor].
    + intros [L S]. destruct out; [|discriminate]. inversion S; subst. reflexivity.
  - split.
    + intro H. inv_bind H. inv_bind Hf. apply ret_Ok in Hf0 as [<- <-].
      apply IH in Hm0 as [L S]. split; [cbn; congruence|]. econstructor; eauto.
    + intros [L S]. inversion S; subst; [discriminate|]. cbn in L.
      unfold bind. rewrite H.
      assert (R : repeatM k body ds1 = Ok out0 rest) by (apply IH; split; [lia|assumption]).
      rewrite R. reflexivity.
Qed.

Lemma steps_Forall {A} (body : M A) (P : A -> Prop) :
  (forall ds x ds', body ds = Ok x ds' -> P x) ->
  forall ds out rest, steps body ds out rest -> Forall P out.
Proof. intros HP ds out rest S. induction S; constructor; eauto. Qed.

Lemma repeatM_Forall {A} (body : M A) (P : A -> Prop) k :
  (forall ds x ds', body ds = Ok x ds' -> P x) ->
  forall ds out rest, repeatM k body ds = Ok out rest -> length out = k /\ Forall P out.
Proof.
  intros HP ds out rest H. apply repeatM_steps in H as [L S]. split; [exact L|].
  eapply steps_Forall; eauto.
Qed.

Lemma repeatM_no_raise {A} (body : M A) (e : exn) :
  (forall ds, body ds <> Raise e) -> forall k ds, repeatM k body ds <> Raise e.
Proof.
  intros Hb k; induction k as [|k IH]; intros ds H; cbn [repeatM] in H; [discriminate|].
  apply bind_Raise in H as [H|(a & ds1 & _ & H)]; [eapply Hb; eauto|].
  apply bind_Raise in H as [H|(r & ds2 & _ & H)]; [eapply IH; eauto|discriminate].
Qed.

Lemma mapM_spec {A B} (f : A -> M B) l : forall ds out rest,
  mapM f l ds = Ok out rest -> Forall2 (fun x y => exists d d', f x d = Ok y d') l out.
Proof.
  induction l as [|x r IH]; intros ds out rest H; cbn [mapM] in H.
  - apply ret_Ok in H as [<- _]. constructor.
  - inv_bind H. inv_bind Hf. apply ret_Ok in Hf0 as [<- _]. constructor; eauto.
Qed.

(* ---------- draw sites ---------- *)
Lemma choice_Ok {A} (l : list A) ds x rest :
  choice l ds = Ok x rest -> exists i, nth_error l i = Some x /\ ds = DChoice (length l) i :: rest.
Proof.
  unfold choice. destruct l as [|y l]; [discriminate|].
  destruct ds as [|[n i|u|p|n idx] r]; try discriminate.
  destruct (Nat.eqb n (length (y :: l))) eqn:E; [|discriminate].
  apply Nat.eqb_eq in E; subst.
  destruct (nth_error (y :: l) i) eqn:N; [|discriminate]. intro H; inversion H; subst. eauto.
Qed.

Lemma choice_In {A} (l : list A) ds x rest : choice l ds = Ok x rest -> In x l.
Proof. intro H. apply choice_Ok in H as (i & N & _). eapply nth_error_In; eauto. Qed.

Lemma choice_Raise {A} (l : list A) ds e : choice l ds = Raise e -> l = [].
Proof.
  unfold choice. destruct l as [|y l]; [reflexivity|].
  destruct ds as [|[n i|u|p|n idx] r]; try discriminate.
  destruct (Nat.eqb n _); [|discriminate]. destruct (nth_error _ i); discriminate.
Qed.

Lemma random01_Ok ds u rest : random01 ds = Ok u rest -> 0 <= u /\ u < 1 /\ ds = DRandom u :: rest.
Proof.
  unfold random01. destruct ds as [|[n i|v|p|n idx] r]; try discriminate.
  destruct (Qle_bool 0 v && Qltb v 1) eqn:E; [|discriminate].
  apply andb_prop in E as [E1 E2]. qbool. intro H; inversion H; subst. auto.
Qed.

Lemma random01_no_raise ds e : random01 ds <> Raise e.
Proof.
  unfold random01. destruct ds as [|[n i|v|p|n idx] r]; try discriminate.
  destruct (Qle_bool 0 v && Qltb v 1); discriminate.
Qed.

(* ---------- fitness order ---------- *)
Lemma f_gt_lt a b : f_gt a b = f_lt b a.
Proof. unfold f_gt, f_le, f_lt. rewrite qtup_le_lt, negb_involutive. reflexivity. Qed.

Lemma f_le_lt a b : f_le a b = negb (f_lt b a).
Proof. unfold f_le, f_lt. apply qtup_le_lt. Qed.

Lemma f_lt_asym a b : f_lt a b = true -> f_lt b a = false.
Proof. apply qtup_lt_asym. Qed.
Lemma f_lt_negtrans a b c : f_lt a b = false -> f_lt b c = false -> f_lt a c = false.
Proof. apply qtup_lt_negtrans. Qed.
Lemma f_lt_trans a b c : f_lt a b = true -> f_lt b c = true -> f_lt a c = true.
Proof. apply qtup_lt_trans. Qed.

Lemma f_le_refl a : f_le a a = true.
Proof. rewrite f_le_lt. unfold f_lt. rewrite qtup_lt_irrefl. reflexivity. Qed.
Lemma f_le_trans a b c : f_le a b = true -> f_le b c = true -> f_le a c = true.
Proof.
  rewrite !f_le_lt, !negb_true_iff. intros H1 H2. eapply f_lt_negtrans; eauto.
Qed.
Lemma f_le_total a b : f_le a b = true \/ f_le b a = true.
Proof.
  rewrite !f_le_lt. destruct (f_lt b a) eqn:E; [right|left; reflexivity].
  rewrite (f_lt_asym _ _ E). reflexivity.
Qed.

(* ---------- selRandom ---------- *)
Lemma selRandom_spec inds k ds out rest :
  selRandom inds k ds = Ok out rest -> length out = k /\ Forall (fun x => In x inds) out.
Proof.
  unfold selRandom. apply repeatM_Forall. intros d x d' H. eapply choice_In; eauto.
Qed.

Lemma selRandom_no_raise inds k ds e : inds <> [] -> selRandom inds k ds <> Raise e.
Proof.
  intros Hne. unfold selRandom. apply repeatM_no_raise. intros d H. apply choice_Raise in H. contradiction.
Qed.

(* ---------- selBest / selWorst ---------- *)
Lemma firstn_skipn_cross {A} (R : A -> A -> Prop) (s : list A) k :
  StronglySorted R s ->
  StronglySorted R (firstn k s) /\ forall y x, In y (firstn k s) -> In x (skipn k s) -> R y x.
Proof.
  intro S. rewrite <- (firstn_skipn k s) in S. apply SS_app_inv in S as (S1 & _ & C). auto.
Qed.

Lemma selBest_spec inds k :
  let out := selBest inds k in
  length out = Nat.min k (length inds) /\
  StronglySorted (fun a b => f_le b a = true) out /\
  exists rest, Permutation inds (out ++ rest) /\
               forall x y, In x rest -> In y out -> f_le x y = true.
Proof.
  cbv zeta. unfold selBest. set (s := py_sorted_rev f_lt inds).
  assert (S : StronglySorted (fun a b => f_le b a = true) s).
  { eapply SS_impl; [|apply (py_sorted_rev_sorted f_lt f_lt_asym f_lt_negtrans)].
    intros a b H. unfold desc in H. rewrite f_le_lt, H. reflexivity. }
  destruct (firstn_skipn_cross _ s k S) as [S1 C]. repeat split.
  - rewrite firstn_length. unfold s. rewrite py_sorted_rev_length. reflexivity.
  - exact S1.
  - exists (skipn k s). split.
    + rewrite firstn_skipn. symmetry. apply py_sorted_rev_perm.
    + intros x y Hx Hy. apply C; assumption.
Qed.

Lemma selWorst_spec inds k :
  let out := selWorst inds k in
  length out = Nat.min k (length inds) /\
  StronglySorted (fun a b => f_le a b = true) out /\
  exists rest, Permutation inds (out ++ rest) /\
               forall x y, In x rest -> In y out -> f_le y x = true.
Proof.
  cbv zeta. unfold selWorst. set (s := py_sorted f_lt inds).
  assert (S : StronglySorted (fun a b => f_le a b = true) s).
  { eapply SS_impl; [|apply (py_sorted_sorted f_lt f_lt_asym f_lt_negtrans)].
    intros a b H. unfold asc in H. rewrite f_le_lt, H. reflexivity. }
  destruct (firstn_skipn_cross _ s k S) as [S1 C]. repeat split.
  - rewrite firstn_length. unfold s. rewrite py_sorted_length. reflexivity.
  - exact S1.
  - exists (skipn k s). split.
    + rewrite firstn_skipn. symmetry. apply py_sorted_perm.
    + intros x y Hx Hy. apply C; assumption.
Qed.

(* stability: among individuals of equal fitness the input order is kept (this, with the two facts
   above, determines the result completely) *)
Definition f_eqv (a b : ind) : bool := negb (f_lt a b) && negb (f_lt b a).

Lemma selBest_stable inds a :
  filter (f_eqv a) (py_sorted_rev f_lt inds) = filter (f_eqv a) inds.
Proof. apply (py_sorted_rev_stable f_lt f_lt_asym f_lt_negtrans). Qed.

Lemma selWorst_stable inds a :
  filter (f_eqv a) (py_sorted f_lt inds) = filter (f_eqv a) inds.
Proof. apply (py_sorted_stable f_lt f_lt_asym f_lt_negtrans). Qed.

(* ---------- tournaments ---------- *)
Definition is_best (w : ind) (aspirants : list ind) : Prop :=
  In w aspirants /\ forall a, In a aspirants -> f_le a w = true.

Lemma best_of_Ok asp ds w rest : best_of asp ds = Ok w rest -> is_best w asp /\ rest = ds.
Proof.
  unfold best_of. destruct (py_max f_gt asp) as [x|] eqn:E; [|discriminate].
  intro H. apply ret_Ok in H as [<- <-]. split; [|reflexivity].
  eapply py_max_spec in E.
  - destruct E as [Hin Hmax]. split; [exact Hin|]. intros a Ha. specialize (Hmax a Ha).
    unfold f_gt in Hmax. apply negb_false_iff in Hmax. exact Hmax.
  - intros a b c. rewrite !f_gt_lt. intros H1 H2. eapply f_lt_trans; eauto.
  - intros a b c. rewrite !f_gt_lt. intros H1 H2. eapply f_lt_negtrans; eauto.
  - intro a. rewrite f_gt_lt. apply qtup_lt_irrefl.
Qed.

Lemma best_of_Raise asp ds e : best_of asp ds = Raise e -> asp = [].
Proof.
  unfold best_of. destruct (py_max f_gt asp) eqn:E; [discriminate|]. intros _.
  destruct asp; [reflexivity|discriminate].
Qed.

(* one tournament: tournsize aspirants sampled from the population, a best one returned *)
Definition tournament_winner (inds : list ind) (tournsize : nat) (w : ind) : Prop :=
  exists aspirants ds ds1,
    selRandom inds tournsize ds = Ok aspirants ds1 /\
    length aspirants = tournsize /\ Forall (fun a => In a inds) aspirants /\ is_best w aspirants.

Lemma selTournament_spec inds k ts ds out rest :
  selTournament inds k ts ds = Ok out rest ->
  length out = k /\ Forall (fun w => In w inds /\ tournament_winner inds ts w) out.
Proof.
  unfold selTournament. apply repeatM_Forall. intros d x d' H.
  inv_bind H. apply best_of_Ok in Hf as [B _].
  pose proof (selRandom_spec _ _ _ _ _ Hm) as [L F]. split.
  - destruct B as [Hin _]. eapply Forall_forall in F; eauto.
  - exists a, d, ds0. auto.
Qed.

Lemma selTournament_no_raise inds k ts ds e :
  inds <> [] -> (1 <= ts)%nat -> selTournament inds k ts ds <> Raise e.
Proof.
  intros Hne Hts. unfold selTournament. apply repeatM_no_raise. intros d H.
  apply bind_Raise in H as [H|(a & d1 & H1 & H)].
  - eapply selRandom_no_raise; eauto.
  - apply best_of_Raise in H. subst. apply selRandom_spec in H1 as [L _]. cbn in L. lia.
Qed.

(* ---------- selDoubleTournament ---------- *)
(* the documented size rule: of two candidates (in sampling order) the shorter one is kept iff
   u < parsimony_size/2; on equal lengths the first one is kept iff u < 1/2 *)
Definition size_choice (psize : Q) (i1 i2 : ind) (u : Q) (c : ind) : Prop :=
  exists small large p,
    (((size i1 <= size i2)%nat /\ small = i1 /\ large = i2) \/
     ((size i2 < size i1)%nat /\ small = i2 /\ large = i1)) /\
    p == (if Nat.eqb (size i1) (size i2) then 1 # 2 else psize / 2) /\
    (u < p -> c = small) /\ (p <= u -> c = large).

Definition size_winner (psize : Q) (P : ind -> Prop) (c : ind) : Prop :=
  exists i1 i2 u, P i1 /\ P i2 /\ 0 <= u /\ u < 1 /\ size_choice psize i1 i2 u c.

Lemma sizeTournament_spec psize (select : nat -> M (list ind)) (P : ind -> Prop) k :
  (forall n ds l ds', select n ds = Ok l ds' -> length l = n /\ Forall P l) ->
  forall ds out rest, sizeTournament psize select k ds = Ok out rest ->
  length out = k /\ Forall (size_winner psize P) out.
Proof.
  intros Hsel. unfold sizeTournament. apply repeatM_Forall. intros d x d' H.
  inv_bind H. destruct (Hsel _ _ _ _ Hm) as [L F].
  destruct a as [|i1 [|i2 [|? ?]]]; try discriminate.
  inversion F as [|? ? P1 F']; subst. inversion F' as [|? ? P2 _]; subst.
  destruct (Nat.ltb (size i2) (size i1)) eqn:E1; [|destruct (Nat.eqb (size i1) (size i2)) eqn:E2];
    inv_bind Hf; apply random01_Ok in Hm0 as (U0 & U1 & _); apply ret_Ok in Hf0 as [<- _];
    exists i1, i2, a; repeat split; auto.
  - apply Nat.ltb_lt in E1. exists i2, i1, (psize / 2). repeat split.
    + right; auto.
    + destruct (Nat.eqb_spec (size i1) (size i2)); [lia|reflexivity].
    + intro H. apply Qltb_lt in H. rewrite H. reflexivity.
    + intro H. apply Qltb_ge in H. rewrite H. reflexivity.
  - apply Nat.eqb_eq in E2. exists i1, i2, (1 # 2). repeat split.
    + left; repeat split; auto; lia.
    + rewrite (proj2 (Nat.eqb_eq _ _) E2). reflexivity.
    + intro H. apply Qltb_lt in H. rewrite H. reflexivity.
    + intro H. apply Qltb_ge in H. rewrite H. reflexivity.
  - apply Nat.ltb_ge in E1. apply Nat.eqb_neq in E2. exists i1, i2, (psize / 2). repeat split.
    + left; repeat split; auto.
    + destruct (Nat.eqb_spec (size i1) (size i2)); [contradiction|reflexivity].
    + intro H. apply Qltb_lt in H. rewrite H. reflexivity.
    + intro H. apply Qltb_ge in H. rewrite H. reflexivity.
Qed.

Definition fit_winner (fitness_size : nat) (P : ind -> Prop) (w : ind) : Prop :=
  exists aspirants, length aspirants = fitness_size /\ Forall P aspirants /\ is_best w aspirants.

Lemma fitTournament_spec fs (select : nat -> M (list ind)) (P : ind -> Prop) k :
  (forall n ds l ds', select n ds = Ok l ds' -> length l = n /\ Forall P l) ->
  forall ds out rest, fitTournament fs select k ds = Ok out rest ->
  length out = k /\ Forall (fit_winner fs P) out.
Proof.
  intros Hsel. unfold fitTournament. apply repeatM_Forall. intros d x d' H.
  inv_bind H. destruct (Hsel _ _ _ _ Hm) as [L F]. apply best_of_Ok in Hf as [B _].
  exists a. auto.
Qed.

Lemma selDoubleTournament_spec inds k fs ps ff ds out rest :
  selDoubleTournament inds k fs ps ff ds = Ok out rest ->
  1 <= ps /\ ps <= 2 /\ length out = k /\
  (ff = true ->
     Forall (size_winner ps (fit_winner fs (fun x => In x inds))) out) /\
  (ff = false ->
     Forall (fit_winner fs (size_winner ps (fun x => In x inds))) out).
Proof.
  unfold selDoubleTournament.
  destruct (Qle_bool 1 ps && Qle_bool ps 2) eqn:E; cbn [negb]; [|discriminate].
  apply andb_prop in E as [E1 E2]. qbool.
  assert (SR : forall n d l d', selRandom inds n d = Ok l d' -> length l = n /\ Forall (fun x => In x inds) l)
    by (intros; eapply selRandom_spec; eauto).
  destruct ff; intro H.
  - eapply sizeTournament_spec in H.
    + destruct H as [L F]. split; [exact E1|]. split; [exact E2|]. split; [exact L|]. split; [intros _; exact F|discriminate].
    + intros n d l d' Hs. eapply fitTournament_spec in Hs; eauto.
  - eapply fitTournament_spec in H.
    + destruct H as [L F]. split; [exact E1|]. split; [exact E2|]. split; [exact L|]. split; [discriminate|intros _; exact F].
    + intros n d l d' Hs. eapply sizeTournament_spec in Hs; eauto.
Qed.

(* every selected individual of the double tournament is an element of the population *)
Lemma is_best_In w asp : is_best w asp -> In w asp.
Proof. intros [H _]; exact H. Qed.

Lemma size_winner_P ps (P : ind -> Prop) c : size_winner ps P c -> P c.
Proof.
  intros (i1 & i2 & u & P1 & P2 & _ & _ & small & large & p & Hsl & _ & Hlt & Hge).
  destruct (Qlt_le_dec u p) as [L|G].
  - rewrite (Hlt L). destruct Hsl as [(_ & -> & _)|(_ & -> & _)]; assumption.
  - rewrite (Hge G). destruct Hsl as [(_ & _ & ->)|(_ & _ & ->)]; assumption.
Qed.

Lemma fit_winner_P fs (P : ind -> Prop) w : fit_winner fs P w -> P w.
Proof. intros (asp & _ & F & B). eapply Forall_forall in F; [exact F|apply B]. Qed.

Lemma selDoubleTournament_elements inds k fs ps ff ds out rest :
  selDoubleTournament inds k fs ps ff ds = Ok out rest -> Forall (fun x => In x inds) out.
Proof.
  intro H. apply selDoubleTournament_spec in H as (_ & _ & _ & H1 & H2). destruct ff.
  - eapply Forall_impl; [|apply H1; reflexivity]. intros c Hc.
    apply size_winner_P in Hc. apply fit_winner_P in Hc. exact Hc.
  - eapply Forall_impl; [|apply H2; reflexivity]. intros c Hc.
    apply fit_winner_P in Hc. apply size_winner_P in Hc. exact Hc.
Qed.

Lemma selDoubleTournament_no_raise inds k fs ps ff ds e :
  inds <> [] -> (1 <= fs)%nat -> 1 <= ps -> ps <= 2 ->
  selDoubleTournament inds k fs ps ff ds <> Raise e.
Proof.
  intros Hne Hfs H1 H2. unfold selDoubleTournament.
  assert (E : Qle_bool 1 ps && Qle_bool ps 2 = true) by (apply andb_true_intro; split; qbool; assumption).
  rewrite E. cbn [negb].
  assert (NR : forall n d, selRandom inds n d <> Raise e) by (intros; apply selRandom_no_raise; assumption).
  assert (SZ : forall (select : nat -> M (list ind)) k d,
             (forall n d, select n d <> Raise e) ->
             (forall n d l d', select n d = Ok l d' -> length l = n) ->
             sizeTournament ps select k d <> Raise e).
  { intros select k0 d Hs Hl. unfold sizeTournament. apply repeatM_no_raise. intros d0 H.
    apply bind_Raise in H as [H|(a & d1 & Ha & H)]; [eapply Hs; eauto|].
    apply Hl in Ha. destruct a as [|i1 [|i2 [|? ?]]]; try (cbn in Ha; lia).
    destruct (Nat.ltb (size i2) (size i1)); [|destruct (Nat.eqb (size i1) (size i2))];
      (apply bind_Raise in H as [H|(u & d2 & _ & H)]; [eapply random01_no_raise; eauto|discriminate]). }
  assert (FT : forall (select : nat -> M (list ind)) k d,
             (forall n d, select n d <> Raise e) ->
             (forall n d l d', select n d = Ok l d' -> length l = n) ->
             fitTournament fs select k d <> Raise e).
  { intros select k0 d Hs Hl. unfold fitTournament. apply repeatM_no_raise. intros d0 H.
    apply bind_Raise in H as [H|(a & d1 & Ha & H)]; [eapply Hs; eauto|].
    apply best_of_Raise in H. subst. apply Hl in Ha. cbn in Ha. lia. }
  assert (LR : forall n d l d', selRandom inds n d = Ok l d' -> length l = n)
    by (intros n d l d' H; apply selRandom_spec in H; tauto).
  destruct ff.
  - apply SZ.
    + intros; apply FT; auto.
    + intros n d l d' H. eapply fitTournament_spec in H; [tauto|]. intros; split; [eapply LR; eauto|apply Forall_forall; intros; exact I].
  - apply FT.
    + intros; apply SZ; auto.
    + intros n d l d' H. eapply sizeTournament_spec in H; [tauto|]. intros; split; [eapply LR; eauto|apply Forall_forall; intros; exact I].
Qed.
