(* Characterising lemmas of the statement vocabulary Model/C04_GenRt.v, generic in the loop bodies,
   and the tactics the equivalence proofs of the regenerated definitions (Proofs/C04_gen_equiv.v) use.
   Nothing here depends on the regenerated file. *)
From Coq Require Import List ZArith Bool Lia Permutation Sorted.
From DV Require Import Base.PyTuple Base.PyList Model.C04_NDSort Model.C04_LogSort Model.C04_GenRt
  Proofs.C04_LogBase Proofs.C04_LogFuel.
Import ListNotations.
Local Open Scope Z_scope.

(* ---- tactics ---- *)
Ltac zb2p := repeat match goal with
  | H : (_ <? _) = true |- _ => apply Z.ltb_lt in H
  | H : (_ <? _) = false |- _ => apply Z.ltb_ge in H
  | H : (_ <=? _) = true |- _ => apply Z.leb_le in H
  | H : (_ <=? _) = false |- _ => apply Z.leb_gt in H
  | H : (_ >? _) = true |- _ => rewrite Z.gtb_ltb in H; apply Z.ltb_lt in H
  | H : (_ >? _) = false |- _ => rewrite Z.gtb_ltb in H; apply Z.ltb_ge in H
  | H : (_ >=? _) = true |- _ => rewrite Z.geb_leb in H; apply Z.leb_le in H
  | H : (_ >=? _) = false |- _ => rewrite Z.geb_leb in H; apply Z.leb_gt in H
  | H : (_ =? _) = true |- _ => apply Z.eqb_eq in H
  | H : (_ =? _) = false |- _ => apply Z.eqb_neq in H
  | H : (_ && _) = true |- _ => apply andb_true_iff in H; destruct H
  | H : (_ || _) = false |- _ => apply orb_false_iff in H; destruct H
  | H : (_ && _) = false |- _ => apply andb_false_iff in H; destruct H
  | H : (_ || _) = true |- _ => apply orb_true_iff in H; destruct H
  | H : negb _ = true |- _ => apply negb_true_iff in H
  | H : negb _ = false |- _ => apply negb_false_iff in H
  end.
Ltac split_ifs := repeat match goal with |- context[if ?c then _ else _] => destruct c eqn:? end.
Ltac gnorm := unfold wvals in *; cbv beta iota zeta; cbn [andb orb negb fst snd].
(* decide a goal that is an equation between two if-trees over the same integer comparisons *)
Ltac use_imp := repeat match goal with H : ?P -> _, H' : ?P |- _ => specialize (H H') end.
Ltac ifs_solve := split_ifs; zb2p; use_imp; try reflexivity; try discriminate; try lia; try congruence.

(* ---- loops ---- *)
Lemma for_loop_nil {A R S} (body : A -> S -> ctl R S) s : for_loop [] body s = inr s.
Proof. reflexivity. Qed.

Lemma for_loop_cons {A R S} (body : A -> S -> ctl R S) x l s :
  for_loop (x :: l) body s = match body x s with Ret v => inl v | Brk s' => inr s' | Nxt s' => for_loop l body s' end.
Proof. reflexivity. Qed.

Lemma for_brk_nil {A S} (body : A -> S -> ctl Empty_set S) s : for_brk [] body s = s.
Proof. reflexivity. Qed.

Lemma for_brk_cons {A S} (body : A -> S -> ctl Empty_set S) x l s :
  for_brk (x :: l) body s = match body x s with Ret v => match v with end | Brk s' => s' | Nxt s' => for_brk l body s' end.
Proof. unfold for_brk. cbn. destruct (body x s) as [[]| |]; reflexivity. Qed.

(* a search loop: the body leaves the state alone until the first element x satisfying p, where it
   breaks with the state (g i x s), i the position counted from `start` -- in terms of find_index *)
Lemma for_brk_find {A S} (p : A -> bool) (g : Z -> A -> S -> S) (body : Z * A -> S -> ctl Empty_set S) (d : A) :
  (forall i x s, body (i, x) s = if p x then Brk (g i x s) else Nxt s) ->
  forall l start s,
    for_brk (enum_from start l) body s =
    match find_index p l with Some j => g (start + Z.of_nat j) (nth j l d) s | None => s end.
Proof.
  intro Hb. induction l as [|x l IH]; intros start s; [reflexivity|].
  cbn [enum_from find_index]. rewrite for_brk_cons, Hb. destruct (p x).
  - now rewrite Z.add_0_r.
  - rewrite IH. destruct (find_index p l) as [j|]; cbn [option_map]; [|reflexivity].
    cbn [nth]. f_equal. lia.
Qed.

(* two loops running in lock-step keep a relation between their states *)
Lemma fold_left_sim {A S T} (R : S -> T -> Prop) (f : S -> A -> S) (g : T -> A -> T) l :
  (forall s t x, R s t -> R (f s x) (g t x)) -> forall s t, R s t -> R (fold_left f l s) (fold_left g l t).
Proof. intro H. induction l as [|x l IH]; intros s t HR; cbn; auto. Qed.

Lemma fold_left_ext_in {A S} (f g : S -> A -> S) l :
  (forall s x, In x l -> f s x = g s x) -> forall s, fold_left f l s = fold_left g l s.
Proof.
  induction l as [|x l IH]; intros H s; cbn; [reflexivity|].
  rewrite H by (left; reflexivity). apply IH. intros; apply H; right; assumption.
Qed.

(* a loop that only appends to four / three / two lists: what it appends per element is read off the body *)
Section Fold4.
  Context {A B C D E : Type}.
  Notation S4 := (list A * list B * list C * list D)%type.
  Variable step : S4 -> E -> S4.
  Definition d4_1 x := fst (fst (fst (step ([], [], [], []) x))).
  Definition d4_2 x := snd (fst (fst (step ([], [], [], []) x))).
  Definition d4_3 x := snd (fst (step ([], [], [], []) x)).
  Definition d4_4 x := snd (step ([], [], [], []) x).
  Hypothesis Hstep : forall a b c d x, step (a, b, c, d) x = (a ++ d4_1 x, b ++ d4_2 x, c ++ d4_3 x, d ++ d4_4 x).
  Lemma fold4_flat l : forall a b c d,
    fold_left step l (a, b, c, d) = (a ++ flat_map d4_1 l, b ++ flat_map d4_2 l, c ++ flat_map d4_3 l, d ++ flat_map d4_4 l).
  Proof.
    induction l as [|x l IH]; intros a b c d; cbn [fold_left flat_map].
    - now rewrite !app_nil_r.
    - rewrite Hstep, IH, <- !app_assoc. reflexivity.
  Qed.
End Fold4.

Lemma flat_map_filter {A} (d : A -> list A) (P : A -> bool) l :
  (forall x, d x = if P x then [x] else []) -> flat_map d l = filter P l.
Proof.
  intro H. induction l as [|x l IH]; cbn; [reflexivity|].
  rewrite H, IH. destruct (P x); reflexivity.
Qed.

(* ---- sequences ---- *)
Lemma item_nil i : item [] i = 0.
Proof. unfold item, py_get, zlen. cbn. destruct (i <? 0) eqn:E; cbn.
  - destruct (i + 0 <? 0) eqn:E2; cbn; [reflexivity|]. destruct (0 <=? i + 0) eqn:E3; [reflexivity|]. zb2p; lia.
  - destruct (i <? 0) eqn:E2; [discriminate|]. cbn. destruct (0 <=? i) eqn:E3; [reflexivity|]. zb2p; lia.
Qed.

Lemma py_get_map {A B} (f : A -> B) l i : py_get (map f l) i = option_map f (py_get l i).
Proof.
  unfold py_get, zlen. rewrite map_length.
  destruct ((_ <? 0) || _); [reflexivity|]. apply nth_error_map.
Qed.

Lemma key_py_nth (key : wvals -> Z) l i : key [] = 0 -> key (py_nth [] l i) = item (map key l) i.
Proof. intro K0. unfold py_nth, item, wvals in *. rewrite py_get_map. destruct (py_get l i); cbn; [reflexivity|exact K0]. Qed.

Lemma zlen_map {A B} (f : A -> B) l : zlen (map f l) = zlen l.
Proof. unfold zlen. now rewrite map_length. Qed.

Lemma py_nth_0 {A} (d x : A) l : py_nth d (x :: l) 0 = x.
Proof. reflexivity. Qed.

Lemma zlen_cons {A} (x : A) l : zlen (x :: l) = zlen l + 1.
Proof. unfold zlen. cbn [length]. lia. Qed.

Lemma zlen_nonneg {A} (l : list A) : 0 <= zlen l.
Proof. unfold zlen. lia. Qed.

Lemma py_nth_1 {A} (d x y : A) l : py_nth d (x :: y :: l) 1 = y.
Proof.
  unfold py_nth, py_get. rewrite !zlen_cons. pose proof (zlen_nonneg l).
  replace (1 <? 0) with false by reflexivity. cbn [orb].
  destruct (zlen l + 1 + 1 <=? 1) eqn:E; [zb2p; lia|]. reflexivity.
Qed.

Lemma slice_to_firstn {A} (l : list A) e : 0 <= e -> slice_to l e = firstn (Z.to_nat e) l.
Proof.
  intro H. unfold slice_to. destruct (e <? 0) eqn:E; [zb2p; lia|].
  destruct (Z.min_spec e (zlen l)) as [[_ ->]|[H1 ->]]; [reflexivity|].
  unfold zlen in *. rewrite Nat2Z.id, firstn_all. symmetry. apply firstn_all2. lia.
Qed.

Lemma slice_to_upto (f : wvals) e : slice_to f e = upto f e.
Proof. reflexivity. Qed.

Lemma slice_from_skipn {A} (l : list A) s : 0 <= s -> slice_from l s = skipn (Z.to_nat s) l.
Proof.
  intro H. unfold slice_from. destruct (s <? 0) eqn:E; [zb2p; lia|].
  destruct (Z.min_spec s (zlen l)) as [[_ ->]|[H1 ->]]; [reflexivity|].
  unfold zlen in *. rewrite Nat2Z.id, skipn_all. symmetry. apply skipn_all2. lia.
Qed.

Lemma slice_from_1_cons {A} (x : A) l : slice_from (x :: l) 1 = l.
Proof. rewrite slice_from_skipn by lia. reflexivity. Qed.

Lemma py_insert_at {A} (l : list A) i x : 0 <= i -> py_insert l i x = insert_at (Z.to_nat i) x l.
Proof.
  intro H. unfold py_insert. destruct (i <? 0) eqn:E; [zb2p; lia|].
  destruct (Z.min_spec i (zlen l)) as [[_ ->]|[H1 ->]]; [reflexivity|].
  unfold zlen in *. rewrite Nat2Z.id. unfold insert_at.
  rewrite firstn_all, skipn_all, firstn_all2, skipn_all2 by lia. reflexivity.
Qed.

Lemma py_del_at {A} (l : list A) i : 0 <= i -> py_del l i = remove_at (Z.to_nat i) l.
Proof.
  intro H. unfold py_del. destruct (i <? 0) eqn:E; [zb2p; lia|].
  destruct (i <? 0) eqn:E1; [discriminate|]. cbn [orb]. destruct (zlen l <=? i) eqn:E2; [|reflexivity].
  zb2p. unfold remove_at, zlen in *. rewrite firstn_all2, skipn_all2 by lia. now rewrite app_nil_r.
Qed.

Lemma insert_at_nonnil {A} i (x : A) l : insert_at i x l <> [].
Proof. unfold insert_at. destruct (firstn i l); discriminate. Qed.

(* ---- sorted(key=) is the model's sort of the keys ---- *)
Lemma ins_key_map (key : wvals -> Z) x l : map key (ins_key key x l) = ins_asc (key x) (map key l).
Proof. induction l as [|y l IH]; cbn; [reflexivity|]. destruct (key x <? key y); cbn; [reflexivity|]. now rewrite IH. Qed.

Lemma sorted_key_map_acc (key : wvals -> Z) l : forall acc,
  map key (fold_left (fun acc x => ins_key key x acc) l acc) = fold_left (fun acc x => ins_asc x acc) (map key l) (map key acc).
Proof. induction l as [|x l IH]; intros acc; cbn; [reflexivity|]. rewrite IH, ins_key_map. reflexivity. Qed.

Lemma sorted_key_map (key : wvals -> Z) l : map key (sorted_key key l) = sort_asc (map key l).
Proof. apply (sorted_key_map_acc key l []). Qed.

(* ---- the model's sort sorts: the two middle values are in order ---- *)
Lemma ins_asc_sorted x l : StronglySorted Z.le l -> StronglySorted Z.le (ins_asc x l).
Proof.
  induction 1 as [|y l SS IH F]; cbn.
  - constructor; constructor.
  - destruct (x <? y) eqn:E; zb2p.
    + constructor; [constructor; assumption|]. constructor; [lia|]. eapply Forall_impl; [|exact F]. cbn; intros; lia.
    + constructor; [assumption|].
      eapply Permutation_Forall; [symmetry; apply ins_asc_perm|]. constructor; [lia|assumption].
Qed.

Lemma sort_asc_sorted l : StronglySorted Z.le (sort_asc l).
Proof.
  unfold sort_asc. assert (H : StronglySorted Z.le (@nil Z)) by constructor. revert H. generalize (@nil Z).
  induction l as [|x l IH]; intros acc H; cbn; [assumption|]. apply IH, ins_asc_sorted, H.
Qed.

Lemma SS_nth_le l : StronglySorted Z.le l -> forall i j, (i <= j < length l)%nat -> nth i l 0 <= nth j l 0.
Proof.
  induction 1 as [|y l SS IH F]; intros i j H; cbn in H; [lia|].
  destruct i, j; cbn [nth]; try lia.
  - rewrite Forall_forall in F. apply F, nth_In. lia.
  - apply IH. lia.
Qed.

Lemma item_nth_Z f i : 0 <= i < zlen f -> item f i = nth (Z.to_nat i) f 0.
Proof. intro H. rewrite <- (Z2Nat.id i) at 1 by lia. apply item_nth. unfold zlen in H. lia. Qed.

Lemma sort_asc_zlen l : zlen (sort_asc l) = zlen l.
Proof. unfold zlen. now rewrite (Permutation_length (sort_asc_perm l)). Qed.

Lemma median_middle_le keys : let s := sort_asc keys in let n := zlen keys in
  n mod 2 <> 1 -> item s ((n - 1) / 2) <= item s (n / 2).
Proof.
  intros s n H. destruct (Z.eq_dec n 0) as [E|E].
  - assert (s = []) as ->.
    { subst s. apply length_zero_iff_nil. pose proof (sort_asc_zlen keys) as L. unfold zlen in *. fold n in L. lia. }
    rewrite !item_nil. lia.
  - assert (0 <= n) by apply zlen_nonneg.
    assert (n mod 2 = 0) by (pose proof (Z.mod_pos_bound n 2); lia).
    assert (n = 2 * (n / 2)) by (pose proof (Z.div_mod n 2); lia).
    assert ((n - 1) / 2 = n / 2 - 1).
    { symmetry. apply (Z.div_unique (n - 1) 2 (n / 2 - 1) 1); lia. }
    pose proof (sort_asc_zlen keys) as L. fold s n in L.
    rewrite !item_nth_Z by lia. apply SS_nth_le; [apply sort_asc_sorted|]. unfold zlen in L. lia.
Qed.

(* ---- bisect_right stays inside the list, sorted or not ---- *)
Lemma bisect_loop_bounds a x fuel : forall lo hi, lo <= hi -> lo <= bisect_loop fuel a x lo hi <= hi.
Proof.
  induction fuel as [|fu IH]; intros lo hi H; cbn; [lia|].
  destruct (lo <? hi) eqn:E; [|lia]. zb2p.
  assert (lo <= (lo + hi) / 2 < hi).
  { split; [apply Z.div_le_lower_bound; lia|apply Z.div_lt_upper_bound; lia]. }
  destruct (x <? item a ((lo + hi) / 2)).
  - specialize (IH lo ((lo + hi) / 2)). lia.
  - specialize (IH ((lo + hi) / 2 + 1) hi). lia.
Qed.

Lemma bisect_right_bounds a x : 0 <= bisect_right a x <= zlen a.
Proof. apply bisect_loop_bounds, zlen_nonneg. Qed.

(* ---- max(key=) on a non-empty list does not look at the default ---- *)
Lemma py_max_default {A} (key : A -> Z) l d d' : l <> [] -> py_max key l d = py_max key l d'.
Proof. destruct l; [congruence|reflexivity]. Qed.

Lemma obind_some {A} (x : option A) : obind x (fun a => Some a) = x.
Proof. destruct x; reflexivity. Qed.

(* ================= facts used by the top level (sortLogNondominated) ================= *)
From DV Require Import Proofs.C04_NDSort Proofs.C04_LogSweep.

Lemma fold_left_inv {A S} (P : S -> Prop) (f : S -> A -> S) l : (forall s x, P s -> P (f s x)) -> forall s, P s -> P (fold_left f l s).
Proof. intro H. induction l; intros; cbn; auto. Qed.

Lemma fold_left_ext {A S} (f g : S -> A -> S) l : (forall s x, f s x = g s x) -> forall s, fold_left f l s = fold_left g l s.
Proof. intros H. induction l; intros; cbn; [reflexivity|]. now rewrite H. Qed.

(* a loop over enumerate(l) that ignores the index *)
Lemma fold_left_enum {A S} (f : S -> Z * A -> S) (g : S -> A -> S) :
  (forall s i x, f s (i, x) = g s x) -> forall l st s, fold_left f (enum_from st l) s = fold_left g l s.
Proof. intro H. induction l as [|x l IH]; intros; cbn; [reflexivity|]. now rewrite H, IH. Qed.

(* ---- ranks never become negative ---- *)
Definition nonneg (fr : fmap) : Prop := forall f, 0 <= fget fr f.

Lemma nonneg_fbump fr f g : nonneg fr -> nonneg (fbump fr f g).
Proof.
  intros H k. destruct (key_dec f k) as [->|N].
  - rewrite fget_fbump_same. specialize (H k). lia.
  - rewrite fget_fbump_other by assumption. apply H.
Qed.

Lemma nonneg_sweep_rank st fst_ fr fit : nonneg fr -> nonneg (snd (sweep_rank st fst_ fr fit)).
Proof. intro H. unfold sweep_rank. cbv zeta. destruct (_ && _); cbn [snd]; [apply nonneg_fbump|]; assumption. Qed.

Lemma nonneg_sweepA fs fr : nonneg fr -> nonneg (sweepA fs fr).
Proof.
  intro H. unfold sweepA. destruct fs as [|f0 r]; [assumption|].
  apply (fold_left_inv (fun s => nonneg (sw_front s))); [|assumption].
  intros s x Hs. unfold sweepA_step.
  pose proof (nonneg_sweep_rank (sw_stairs s) (sw_fstairs s) (sw_front s) x Hs) as N.
  destruct (sweep_rank _ _ _ _) as [idx fr']. cbn [snd] in N.
  destruct (find_index _ _); cbn [sw_front]; assumption.
Qed.

Lemma nonneg_sweepB best worst fr : nonneg fr -> nonneg (sweepB best worst fr).
Proof.
  intro H. unfold sweepB.
  apply (fold_left_inv (fun acc : list wvals * sweep => nonneg (sw_front (snd acc)))); [|assumption].
  intros [rest s] h Hs. cbn [snd] in Hs. unfold sweepB_step.
  destruct (sweepB_consume _ _ _ _ _) as [[rest' st] fst_].
  pose proof (nonneg_sweep_rank st fst_ (sw_front s) h Hs) as N.
  destruct (sweep_rank _ _ _ _) as [idx fr']. cbn [snd sw_front] in *. assumption.
Qed.

Lemma nonneg_helperB_direct best worst obj fr : nonneg fr -> nonneg (helperB_direct best worst obj fr).
Proof.
  intro H. unfold helperB_direct. apply fold_left_inv; [|assumption].
  intros s hi Hs. apply fold_left_inv; [|assumption].
  intros s' li Hs'. destruct (weakly_dominated_upto _ _ _); [apply nonneg_fbump|]; assumption.
Qed.

Lemma nonneg_helperB fuel : forall best worst obj fr fr', nonneg fr -> helperB fuel best worst obj fr = Some fr' -> nonneg fr'.
Proof.
  induction fuel as [|fu IH]; intros best worst obj fr fr' H E; [discriminate|].
  cbn [helperB] in E. cbv zeta in E.
  destruct (_ || _); [inversion E; subst; assumption|].
  destruct (_ || _); [inversion E; subst; apply nonneg_helperB_direct; assumption|].
  destruct (obj =? 1); [inversion E; subst; apply nonneg_sweepB; assumption|].
  destruct (_ >=? _); [eapply IH; eassumption|].
  destruct (_ >=? _); [|inversion E; subst; assumption].
  destruct (splitB best worst obj) as [[[b1 b2] w1] w2].
  destruct (helperB fu b1 w1 obj fr) as [f1|] eqn:E1; [|discriminate].
  destruct (helperB fu b1 w2 (obj - 1) f1) as [f2|] eqn:E2; [|discriminate].
  eapply IH; [|exact E]. eapply IH; [|exact E2]. eapply IH; [|exact E1]. assumption.
Qed.

Lemma nonneg_helperA fuel : forall fs obj fr fr', nonneg fr -> helperA fuel fs obj fr = Some fr' -> nonneg fr'.
Proof.
  induction fuel as [|fu IH]; intros fs obj fr fr' H E; [discriminate|].
  cbn [helperA] in E.
  destruct (zlen fs <? 2); [inversion E; subst; assumption|].
  destruct (zlen fs =? 2).
  { destruct fs as [|s1 [|s2 [|s3 r]]]; try discriminate.
    destruct (is_dominated _ _); inversion E; subst; [apply nonneg_fbump|]; assumption. }
  destruct (obj =? 1); [inversion E; subst; apply nonneg_sweepA; assumption|].
  destruct (_ =? 1); [eapply IH; eassumption|].
  destruct (splitA fs obj) as [b w].
  destruct (helperA fu b obj fr) as [f1|] eqn:E1; [|discriminate].
  destruct (helperB fu b w (obj - 1) f1) as [f2|] eqn:E2; [|discriminate].
  eapply IH; [|exact E]. eapply nonneg_helperB; [|exact E2]. eapply IH; [|exact E1]. assumption.
Qed.

Lemma nonneg_const l : nonneg (map (fun f : wvals => (f, 0)) l).
Proof.
  intro k. unfold fget. induction l as [|a l IH]; cbn; [lia|]. destruct (key_eqb a k); [lia|assumption].
Qed.

(* ---- dict.fromkeys on distinct keys ---- *)
Lemma kset_fresh {V} (m : kmap V) k v : ~ In k (kkeys m) -> kset m k v = m ++ [(k, v)].
Proof.
  induction m as [|[k' v'] m IH]; intro N; cbn; [reflexivity|].
  cbn in N. destruct (key_eqb k' k) eqn:E.
  - apply key_eqb_eq in E. tauto.
  - rewrite IH by tauto. reflexivity.
Qed.

Lemma fromkeys_nodup l v : NoDup l -> fromkeys l v = map (fun f => (f, v)) l.
Proof.
  unfold fromkeys. intro ND.
  assert (G : forall acc, (forall x, In x l -> ~ In x (kkeys acc)) ->
              fold_left (fun m k => kset m k v) l acc = acc ++ map (fun f => (f, v)) l).
  { induction ND as [|x l Hx ND IH]; intros acc Hacc; cbn; [now rewrite app_nil_r|].
    rewrite kset_fresh by (apply Hacc; left; reflexivity).
    rewrite IH; [now rewrite <- app_assoc|].
    intros y Hy. unfold kkeys. rewrite map_app, in_app_iff. cbn. intros [H|[H|[]]].
    - apply (Hacc y); [right; assumption|exact H].
    - subst. contradiction. }
  apply (G []). intros x _ [].
Qed.

(* ---- l[i].extend(x) for a non-negative index ---- *)
Lemma app_at_out {A} (l : list (list A)) i x : (length l <= i)%nat -> app_at l i x = l.
Proof. revert i. induction l as [|y l IH]; intros [|i] H; cbn in *; try reflexivity; try lia. f_equal. apply IH. lia. Qed.

Lemma py_extend_at_nonneg {A} (l : list (list A)) i x : 0 <= i -> py_extend_at l i x = app_at l (Z.to_nat i) x.
Proof.
  intro H. unfold py_extend_at. destruct (i <? 0) eqn:E; [zb2p; lia|]. destruct (i <? 0) eqn:E1; [discriminate|]. cbn [orb].
  destruct (zlen l <=? i) eqn:E2; [|reflexivity]. zb2p. symmetry. apply app_at_out. unfold zlen in *. lia.
Qed.

Lemma py_nth_0_nth {A} (d : A) l : py_nth d l 0 = nth 0 l d.
Proof. destruct l; reflexivity. Qed.

(* ---- the trimming loop: stop after the first front at which the running count reaches k ---- *)
Lemma zlen_app1 {A} (l : list A) x : zlen (l ++ [x]) = zlen l + 1.
Proof. unfold zlen. rewrite app_length. cbn. lia. Qed.

Lemma for_loop_log_cut {A} k (pf : list (list A)) start off (e : Z -> Z) (body : Z * list A -> Z -> ctl log_result Z)
      (mk : list (list A) -> log_result) :
  start + off = 1 ->
  (forall i F c, body (i, F) c = if c + zlen F >=? k then Ret (mk (slice_to pf (e i))) else Nxt (c + zlen F)) ->
  (forall i, e i = i + off) ->
  forall suf pre c, pf = pre ++ suf ->
    match for_loop (enum_from (start + zlen pre) suf) body c with inl r => Some r | inr _ => Some (mk pf) end
    = Some (mk (pre ++ log_cut k c suf)).
Proof.
  intros Hso Hb He. induction suf as [|F r IH]; intros pre c E.
  - cbn. rewrite app_nil_r in *. now subst.
  - cbn [enum_from]. rewrite for_loop_cons, Hb, He. cbn [log_cut]. destruct (c + zlen F >=? k).
    + f_equal. f_equal. rewrite slice_to_firstn by (pose proof (zlen_nonneg pre); lia).
      replace (Z.to_nat (start + zlen pre + off)) with (length pre + 1)%nat by (unfold zlen; lia).
      subst pf. rewrite firstn_app_2. reflexivity.
    + specialize (IH (pre ++ [F]) (c + zlen F)). rewrite zlen_app1, <- app_assoc in IH. cbn [app] in IH.
      replace (start + zlen pre + 1) with (start + (zlen pre + 1)) by lia. rewrite IH by assumption. now rewrite <- app_assoc.
Qed.

(* ---- min(map(key, l)) / max(map(key, l)) are the keys of min(l, key=key) / max(l, key=key) ---- *)
Lemma min_by_key {A} (key : A -> Z) r : forall x, fold_left Z.min (map key r) (key x) = key (min_by key r x).
Proof.
  induction r as [|y r IH]; intro x; cbn; [reflexivity|].
  destruct (key y <? key x) eqn:E; zb2p.
  - rewrite Z.min_r by lia. apply IH.
  - rewrite Z.min_l by lia. apply IH.
Qed.

Lemma max_by_key {A} (key : A -> Z) r : forall x, fold_left Z.max (map key r) (key x) = key (max_by key r x).
Proof.
  induction r as [|y r IH]; intro x; cbn; [reflexivity|].
  destruct (key y >? key x) eqn:E; zb2p.
  - rewrite Z.max_r by lia. apply IH.
  - rewrite Z.max_l by lia. apply IH.
Qed.

Lemma zmin_list_map_key (l : list wvals) obj :
  zmin_list (map (fun f => item f obj) l) = item (py_min (fun f => item f obj) l []) obj.
Proof. destruct l as [|x r]; cbn [map zmin_list py_min]; [now rewrite item_nil|]. apply (min_by_key (fun f => item f obj)). Qed.

Lemma zmax_list_map_key (l : list wvals) obj :
  zmax_list (map (fun f => item f obj) l) 0 = item (py_max (fun f => item f obj) l []) obj.
Proof. destruct l as [|x r]; cbn [map zmax_list py_max]; [now rewrite item_nil|]. apply (max_by_key (fun f => item f obj)). Qed.

Lemma fold_left_map {A B S} (g : S -> B -> S) (f : A -> B) l : forall s, fold_left g (map f l) s = fold_left (fun s x => g s (f x)) l s.
Proof. induction l; intros; cbn; auto. Qed.

(* ---- loops with a bound on the iterations ---- *)
Lemma fold_opt_sim {A S T} (R : S -> T -> Prop) (f : S -> A -> option S) (g : T -> A -> T) l :
  (forall s t x, R s t -> exists s', f s x = Some s' /\ R s' (g t x)) ->
  forall s t, R s t -> exists s', fold_opt f l s = Some s' /\ R s' (fold_left g l t).
Proof.
  intro H. induction l as [|x l IH]; intros s t HR; cbn [fold_opt fold_left].
  - eauto.
  - destruct (H s t x HR) as (s1 & E1 & R1). rewrite E1. cbn [obind]. apply IH, R1.
Qed.

Lemma remove_at_length_eq {A B} (a : list A) (b : list B) i : length a = length b -> length (remove_at i a) = length (remove_at i b).
Proof. intro H. unfold remove_at. rewrite !app_length, !firstn_length, !skipn_length. lia. Qed.

Lemma insert_at_length_eq {A B} (a : list A) (b : list B) i x y : length a = length b -> length (insert_at i x a) = length (insert_at i y b).
Proof. intro H. unfold insert_at. rewrite !app_length. cbn [length]. rewrite !firstn_length, !skipn_length. lia. Qed.
