(* C07 — proofs about nsga3_full (Model/C07_Full.v): selNSGA3 composed with C04's models of the two
   non-dominated sorts.  The facts about the fronts that Props/C07.v takes as hypotheses are
   derived here from C04's theorems (sort_nd / sort_log return, front by front, a permutation of the
   leading peeling fronts needed to reach k). *)
From Coq Require Import List ZArith QArith Bool Lia Permutation.
From DV Require Import Base.PyTuple Base.PyList Base.C07_Num
  Model.C07_Nsga3 Model.C07_RefPoints Model.C07_Intercepts Model.C07_Full
  Model.C04_NDSort Model.C04_LogSort
  Proofs.C04_NDSort Proofs.C04_Spec Proofs.C04_LogFinal Proofs.C07_Nsga3 Proofs.C07_Intercepts.
Import ListNotations.
Local Open Scope nat_scope.

(* ------------------------------------------------------------------ *)
(* list facts *)
Lemma removelast_map {A B} (f : A -> B) : forall l, removelast (map f l) = map f (removelast l).
Proof.
  induction l as [|x l IH]; [reflexivity|]. destruct l as [|y l]; [reflexivity|].
  change (f x :: removelast (map f (y :: l)) = f x :: map f (removelast (y :: l))). now rewrite IH.
Qed.

Lemma Forall2_removelast {A B} (R : A -> B -> Prop) : forall l1 l2,
  Forall2 R l1 l2 -> Forall2 R (removelast l1) (removelast l2).
Proof.
  induction 1 as [|x y l1 l2 Hxy H IH]; [constructor|].
  destruct H as [|x' y' l1' l2' Hxy' H']; [constructor|].
  change (Forall2 R (x :: removelast (x' :: l1')) (y :: removelast (y' :: l2'))). constructor; assumption.
Qed.

Lemma Forall2_len {A B} (R : A -> B -> Prop) l1 l2 : Forall2 R l1 l2 -> length l1 = length l2.
Proof. induction 1; cbn; congruence. Qed.

Lemma Forall2_nth_error_r {A B} (R : A -> B -> Prop) : forall l1 l2, Forall2 R l1 l2 ->
  forall i b, nth_error l2 i = Some b -> exists a, nth_error l1 i = Some a /\ R a b.
Proof.
  induction 1 as [|x y l1 l2 Hxy H IH]; intros [|i] b E; cbn in E; try discriminate.
  - inversion E; subst. exists x. split; [reflexivity|assumption].
  - destruct (IH i b E) as [a [Ea Ra]]. exists a. split; assumption.
Qed.

Lemma Forall2_nth_error_l {A B} (R : A -> B -> Prop) : forall l1 l2, Forall2 R l1 l2 ->
  forall i a, nth_error l1 i = Some a -> exists b, nth_error l2 i = Some b /\ R a b.
Proof.
  induction 1 as [|x y l1 l2 Hxy H IH]; intros [|i] a E; cbn in E; try discriminate.
  - inversion E; subst. exists y. split; [reflexivity|assumption].
  - destruct (IH i a E) as [b [Eb Rb]]. exists b. split; assumption.
Qed.

Lemma nth_error_firstn_lt {A} : forall n i (l : list A), i < n -> nth_error (firstn n l) i = nth_error l i.
Proof.
  induction n as [|n IH]; intros i l H; [lia|]. destruct l as [|x l]; [now destruct i|].
  destruct i as [|i]; [reflexivity|]. cbn. apply IH. lia.
Qed.

Lemma nth_error_in_concat {A} (L : list (list A)) i X x : nth_error L i = Some X -> In x X -> In x (concat L).
Proof. intros E Hx. apply in_concat. exists X. split; [eapply nth_error_In; eauto|exact Hx]. Qed.

(* the members of a duplicate-free concatenation determine their block *)
Lemma NoDup_concat_index {A} : forall (L : list (list A)), NoDup (concat L) ->
  forall a b X Y z, nth_error L a = Some X -> nth_error L b = Some Y -> In z X -> In z Y -> a = b.
Proof.
  induction L as [|F L IH]; intros ND a b X Y z Ea Eb Hx Hy; [destruct a; discriminate|].
  cbn [concat] in ND. destruct (NoDup_app_inv _ _ ND) as [_ [NDL Dis]].
  destruct a as [|a], b as [|b]; cbn in Ea, Eb.
  - reflexivity.
  - inversion Ea; subst. exfalso. apply (Dis z Hx). eapply nth_error_in_concat; eauto.
  - inversion Eb; subst. exfalso. apply (Dis z Hy). eapply nth_error_in_concat; eauto.
  - f_equal. eapply (IH NDL); eauto.
Qed.

Lemma NoDup_map_inj {A B} (f : A -> B) : forall l, NoDup (map f l) ->
  forall a b, In a l -> In b l -> f a = f b -> a = b.
Proof.
  induction l as [|x l IH]; intros ND a b Ha Hb E; [destruct Ha|]. cbn in ND. inversion ND as [|? ? Hn ND']; subst.
  destruct Ha as [<-|Ha], Hb as [<-|Hb]; auto.
  - exfalso. apply Hn. rewrite E. now apply in_map.
  - exfalso. apply Hn. rewrite <- E. now apply in_map.
Qed.

Lemma length_concat_map {A B} (f : A -> B) (L : list (list A)) : length (concat (map (map f) L)) = length (concat L).
Proof. rewrite <- concat_map. apply map_length. Qed.

(* ------------------------------------------------------------------ *)
(* what selNSGA3 needs from its sorter, for both back-ends *)
Definition pop_ok (log : bool) (pop : list ind) : Prop :=
  NoDup (map uid pop) /\ same_len (map iw pop) /\ pop <> [] /\
  (log = true -> forall x, In x pop -> 2 <= length (iw x)).

Lemma sort_fronts_leading log pop k : pop_ok log pop -> 1 <= k <= length pop ->
  exists fs j, sort_fronts log pop k = Some fs /\
    j < length (spec_fronts pop) /\
    Forall2 (@Permutation ind) fs (firstn (S j) (spec_fronts pop)) /\
    (forall j', 0 < j' <= j -> (ztotal (firstn j' (spec_fronts pop)) < Z.of_nat k)%Z) /\
    (Z.of_nat k <= ztotal fs)%Z /\
    NoDup (map uid (concat fs)) /\ (forall x, In x (concat fs) -> In x pop).
Proof.
  intros [NDu [SL [NE L2]]] Hk.
  assert (K0 : Z.of_nat k <> 0%Z) by lia.
  assert (MIN : Z.min (zlen pop) (Z.of_nat k) = Z.of_nat k) by (unfold zlen; lia).
  unfold sort_fronts. destruct log.
  - specialize (L2 eq_refl).
    destruct (log_leading_fronts pop (Z.of_nat k) NDu SL NE L2 K0) as [fs [j [E [Hj [P [Hlt Hge]]]]]].
    rewrite MIN in Hlt, Hge. exists fs, j. rewrite E. cbn [option_map log_fronts].
    split; [reflexivity|]. repeat (split; [assumption|]). split.
    + apply (log_each_once pop (Z.of_nat k) false (LFronts fs) NDu SL NE L2 E).
    + intros x Hx. apply (log_elements_are_inputs pop (Z.of_nat k) false (LFronts fs) NDu SL NE L2 E x Hx).
  - destruct (nd_leading_fronts pop (Z.of_nat k) NDu SL NE K0) as [fs [j [E [Hj [P [Hlt Hge]]]]]].
    rewrite MIN in Hlt, Hge. exists fs, j. rewrite E.
    split; [reflexivity|]. repeat (split; [assumption|]). split.
    + apply (nd_each_once pop (Z.of_nat k) false fs NDu SL NE E).
    + intros x Hx. apply (nd_elements_are_inputs pop (Z.of_nat k) false fs NDu SL NE E x Hx).
Qed.

(* the structural hypotheses of nsga3_core_spec, derived *)
Lemma leading_fronts_core pop k fs j :
  1 <= k -> j < length (spec_fronts pop) ->
  Forall2 (@Permutation ind) fs (firstn (S j) (spec_fronts pop)) ->
  (forall j', 0 < j' <= j -> (ztotal (firstn j' (spec_fronts pop)) < Z.of_nat k)%Z) ->
  (Z.of_nat k <= ztotal fs)%Z -> NoDup (map uid (concat fs)) ->
  let fronts := map (map uid) fs in
  fronts <> [] /\ NoDup (concat fronts) /\
  length (concat (removelast fronts)) < k <= length (concat fronts) /\
  Forall2 (@Permutation ind) (removelast fs) (firstn j (spec_fronts pop)).
Proof.
  intros Hk Hj P Hlt Hge ND fronts.
  assert (Lfs : length fs = S j).
  { rewrite (Forall2_len _ _ _ P), firstn_length. lia. }
  assert (PR : Forall2 (@Permutation ind) (removelast fs) (firstn j (spec_fronts pop))).
  { rewrite <- (removelast_firstn (spec_fronts pop) Hj). apply Forall2_removelast. exact P. }
  split; [|split; [|split; [|exact PR]]].
  - unfold fronts. destruct fs; [discriminate|]. discriminate.
  - unfold fronts. rewrite <- concat_map. exact ND.
  - unfold fronts. rewrite removelast_map, !length_concat_map. split.
    + rewrite (Permutation_length (forall2_concat_perm _ _ PR)).
      destruct j as [|j]; [cbn; lia|].
      specialize (Hlt (S j) ltac:(lia)). unfold ztotal, zlen in Hlt. lia.
    + unfold ztotal, zlen in Hge. lia.
Qed.

(* ------------------------------------------------------------------ *)
(* nsga3_full, component by component *)
Lemma nsga3_full_unfold log pop k refs mem pext draws o :
  nsga3_full log pop k refs mem pext draws = Some o ->
  exists fs, sort_fronts log pop k = Some fs /\
    let fits := map (fun x => map Z.opp (iw x)) (concat fs) in
    f_fronts o = map (map uid) fs /\
    f_best o = update_best (option_map fst mem) fits /\
    f_worst o = update_worst (option_map snd mem) fits /\
    f_ext o = find_extreme_points fits (f_best o) pext /\
    (f_branch o, f_icpt o) = find_intercepts_b (map qz (f_ext o)) (qz (f_best o)) (qz (f_worst o))
                                                (qz (update_worst None fits)) /\
    f_niches o = associate q_ops np_eps (map qz fits) refs (qz (f_best o)) (f_icpt o) /\
    f_d2 o = assoc_d2 np_eps (map qz fits) refs (qz (f_best o)) (f_icpt o) (f_niches o) /\
    f_core o = nsga3_core q_ltb 0%Q (f_fronts o) k (length refs) (f_niches o) (f_d2 o) draws.
Proof.
  unfold nsga3_full, nsga3_full_gen. destruct (sort_fronts log pop k) as [fs|]; [|discriminate].
  destruct (find_intercepts_b _ _ _ _) as [br icpt] eqn:E. intro H. inversion H; subst o. clear H.
  exists fs. split; [reflexivity|]. cbn [f_fronts f_best f_worst f_ext f_branch f_icpt f_niches f_d2 f_core].
  repeat split. symmetry. exact E.
Qed.

Theorem nsga3_full_spec log pop k refs mem pext draws :
  pop_ok log pop -> refs <> [] -> 1 <= k <= length pop ->
  exists o fs j, nsga3_full log pop k refs mem pext draws = Some o /\
    f_fronts o = map (map uid) fs /\
    j < length (spec_fronts pop) /\
    Forall2 (@Permutation ind) fs (firstn (S j) (spec_fronts pop)) /\
    Forall2 (@Permutation ind) (removelast fs) (firstn j (spec_fronts pop)) /\
    (forall x, In x (concat fs) -> In x pop) /\
    f_fronts o <> [] /\ NoDup (concat (f_fronts o)) /\
    length (f_niches o) = length (concat (f_fronts o)) /\ Forall (fun c => c < length refs) (f_niches o) /\
    length (concat (removelast (f_fronts o))) < k <= length (concat (f_fronts o)).
Proof.
  intros OK Hr Hk.
  destruct (sort_fronts_leading log pop k OK Hk) as [fs [j [E [Hj [P [Hlt [Hge [ND Hin]]]]]]]].
  destruct (leading_fronts_core pop k fs j ltac:(lia) Hj P Hlt Hge ND) as [NE [NDc [Hkk PR]]].
  unfold nsga3_full, nsga3_full_gen. rewrite E.
  destruct (find_intercepts_b _ _ _ _) as [br icpt].
  eexists. exists fs, j. split; [reflexivity|]. cbn [f_fronts f_niches].
  split; [reflexivity|]. split; [exact Hj|]. split; [exact P|]. split; [exact PR|]. split; [exact Hin|].
  split; [exact NE|]. split; [exact NDc|].
  match goal with |- length (associate ?o ?e ?f ?r ?b ?i) = _ /\ _ =>
    destruct (associate_lt e f r b i Hr) as [A B] end.
  split; [|split; [exact A|exact Hkk]].
  rewrite B, !map_length, length_concat_map. reflexivity.
Qed.

(* size, identity, no duplicates — no hypothesis about the fronts *)
Theorem nsga3_full_size_refs log pop k refs mem pext draws :
  pop_ok log pop -> refs <> [] -> 1 <= k <= length pop ->
  exists o, nsga3_full log pop k refs mem pext draws = Some o /\
    o_ok (f_core o) = true /\ length (o_chosen (f_core o)) = k /\ NoDup (o_chosen (f_core o)) /\
    incl (o_chosen (f_core o)) (map uid pop).
Proof.
  intros OK Hr Hk.
  destruct (nsga3_full_spec log pop k refs mem pext draws OK Hr Hk)
    as [o [fs [j [E [Ef [Hj [P [PR [Hin [NE [ND [Ln [Hn Hkk]]]]]]]]]]]]].
  exists o. split; [exact E|].
  destruct (nsga3_full_unfold _ _ _ _ _ _ _ _ E) as [fs' [_ [_ [_ [_ [_ [_ [_ [_ Ec]]]]]]]]].
  rewrite Ec.
  destruct (nsga3_core_spec q_ltb 0%Q (f_fronts o) k (length refs) (f_niches o) (f_d2 o) draws NE ND Ln Hn Hkk)
    as [A [B [C [D _]]]].
  split; [exact A|]. split; [exact B|]. split; [exact C|].
  intros u Hu. apply D in Hu. rewrite Ef, <- concat_map in Hu. apply in_map_iff in Hu.
  destruct Hu as [x [<- Hx]]. apply in_map. apply Hin. exact Hx.
Qed.

(* front priority against the peeling fronts of the population itself *)
Theorem nsga3_full_front_priority log pop k refs mem pext draws :
  pop_ok log pop -> refs <> [] -> 1 <= k <= length pop ->
  exists o, nsga3_full log pop k refs mem pext draws = Some o /\
    forall i j X Y x y,
      nth_error (spec_fronts pop) i = Some X -> nth_error (spec_fronts pop) j = Some Y -> i < j ->
      In x X -> In y Y -> In (uid y) (o_chosen (f_core o)) -> In (uid x) (o_chosen (f_core o)).
Proof.
  intros OK Hr Hk.
  destruct (nsga3_full_spec log pop k refs mem pext draws OK Hr Hk)
    as [o [fs [jl [E [Ef [Hj [P [PR [Hin [NE [ND [Ln [Hn Hkk]]]]]]]]]]]]].
  exists o. split; [exact E|].
  destruct (nsga3_full_unfold _ _ _ _ _ _ _ _ E) as [fs' [_ [_ [_ [_ [_ [_ [_ [_ Ec]]]]]]]]].
  rewrite Ec.
  destruct (nsga3_core_spec q_ltb 0%Q (f_fronts o) k (length refs) (f_niches o) (f_d2 o) draws NE ND Ln Hn Hkk)
    as [_ [_ [_ [D Pri]]]].
  destruct OK as [NDu [SL [NEp _]]].
  assert (PP : Permutation (concat (spec_fronts pop)) pop) by (apply spec_fronts_partition; exact SL).
  assert (NDp : NoDup pop) by (eapply NoDup_map_inv; exact NDu).
  assert (NDs : NoDup (concat (spec_fronts pop))) by (eapply Permutation_NoDup; [symmetry; exact PP|exact NDp]).
  intros i j X Y x y EX EY Hij Hx Hy Hc.
  (* y is a member of the sorted fronts *)
  apply D in Hc. rewrite Ef, <- concat_map in Hc. apply in_map_iff in Hc. destruct Hc as [y' [Eu Hy']].
  assert (Hyp : In y pop) by (apply (Permutation_in _ PP); eapply nth_error_in_concat; eauto).
  assert (y' = y) by (apply (NoDup_map_inj uid pop NDu); auto). subst y'.
  apply in_concat in Hy'. destruct Hy' as [F [HF HyF]].
  apply In_nth_error in HF. destruct HF as [r Er].
  destruct (Forall2_nth_error_l _ _ _ P r F Er) as [G [EG PFG]].
  assert (Hr' : r < S jl).
  { assert (Hlen : r < length (firstn (S jl) (spec_fronts pop))) by (apply nth_error_Some; rewrite EG; discriminate).
    pose proof (firstn_le_length (S jl) (spec_fronts pop)). lia. }
  rewrite nth_error_firstn_lt in EG by exact Hr'.
  assert (r = j) by (eapply (NoDup_concat_index _ NDs r j G Y y); eauto; eapply Permutation_in; eauto).
  subst r.
  (* so x belongs to a front before the last sorted one *)
  assert (EX' : nth_error (firstn jl (spec_fronts pop)) i = Some X) by (rewrite nth_error_firstn_lt; [exact EX|lia]).
  destruct (Forall2_nth_error_r _ _ _ PR i X EX') as [F' [EF' PF']].
  apply Pri. rewrite Ef, removelast_map, <- concat_map. apply in_map.
  eapply nth_error_in_concat; [exact EF'|]. eapply Permutation_in; [symmetry; exact PF'|exact Hx].
Qed.

(* niche balance with the model's own fronts, intercepts and association *)
Theorem nsga3_full_balanced log pop k refs mem pext draws :
  pop_ok log pop -> refs <> [] -> 1 <= k <= length pop ->
  exists o, nsga3_full log pop k refs mem pext draws = Some o /\
    let fronts := f_fronts o in
    let niches := f_niches o in
    let sc := length (concat (removelast fronts)) in
    let lastf := last fronts [] in
    exists sel,
      o_chosen (f_core o) = concat (removelast fronts) ++ map (fun i => nth i lastf 0) sel /\
      NoDup sel /\ (forall i, In i sel -> i < length lastf) /\ length sel = k - sc /\
      (forall c, c < length refs -> nth c (o_counts (f_core o)) 0 =
                          count_occ_nat (firstn sc niches) c + length (filter (fun i => Nat.eqb (nth (sc + i) niches 0) c) sel)) /\
      (forall a b, (exists i, In i sel /\ nth (sc + i) niches 0 = a) ->
                   (exists i, i < length lastf /\ ~ In i sel /\ nth (sc + i) niches 0 = b) ->
                   nth a (o_counts (f_core o)) 0 <= nth b (o_counts (f_core o)) 0 + 1).
Proof.
  intros OK Hr Hk.
  destruct (nsga3_full_spec log pop k refs mem pext draws OK Hr Hk)
    as [o [fs [jl [E [Ef [Hj [P [PR [Hin [NE [ND [Ln [Hn Hkk]]]]]]]]]]]]].
  exists o. split; [exact E|].
  destruct (nsga3_full_unfold _ _ _ _ _ _ _ _ E) as [fs' [_ [_ [_ [_ [_ [_ [_ [_ Ec]]]]]]]]].
  rewrite Ec.
  exact (nsga3_core_balanced q_ltb 0%Q (f_fronts o) k (length refs) (f_niches o) (f_d2 o) draws NE ND Ln Hn Hkk).
Qed.

(* ------------------------------------------------------------------ *)
(* the same theorems with the hypotheses on the population spelled out (Props/C07_full.v) *)
Section Spelled.
Variables (log : bool) (pop : list ind) (k : nat) (refs : list (list Q))
          (mem : option (list Z * list Z)) (pext : option (list (list Z))) (draws : list (list nat)).
Hypothesis NDu : NoDup (map uid pop).
Hypothesis SL : same_len (map iw pop).
Hypothesis NE : pop <> [].
Hypothesis L2 : log = true -> forall x, In x pop -> 2 <= length (iw x).
Hypothesis Hr : refs <> [].
Hypothesis Hk : 1 <= k <= length pop.

Lemma spelled_ok : pop_ok log pop.
Proof. exact (conj NDu (conj SL (conj NE L2))). Qed.

Theorem full_size_refs :
  exists o, nsga3_full log pop k refs mem pext draws = Some o /\
    o_ok (f_core o) = true /\ length (o_chosen (f_core o)) = k /\ NoDup (o_chosen (f_core o)) /\
    incl (o_chosen (f_core o)) (map uid pop).
Proof. exact (nsga3_full_size_refs log pop k refs mem pext draws spelled_ok Hr Hk). Qed.

Theorem full_front_priority :
  exists o, nsga3_full log pop k refs mem pext draws = Some o /\
    forall i j X Y x y,
      nth_error (spec_fronts pop) i = Some X -> nth_error (spec_fronts pop) j = Some Y -> i < j ->
      In x X -> In y Y -> In (uid y) (o_chosen (f_core o)) -> In (uid x) (o_chosen (f_core o)).
Proof. exact (nsga3_full_front_priority log pop k refs mem pext draws spelled_ok Hr Hk). Qed.

Theorem full_balanced :
  exists o, nsga3_full log pop k refs mem pext draws = Some o /\
    let fronts := f_fronts o in
    let niches := f_niches o in
    let sc := length (concat (removelast fronts)) in
    let lastf := last fronts [] in
    exists sel,
      o_chosen (f_core o) = concat (removelast fronts) ++ map (fun i => nth i lastf 0) sel /\
      NoDup sel /\ (forall i, In i sel -> i < length lastf) /\ length sel = k - sc /\
      (forall c, c < length refs -> nth c (o_counts (f_core o)) 0 =
                          count_occ_nat (firstn sc niches) c + length (filter (fun i => Nat.eqb (nth (sc + i) niches 0) c) sel)) /\
      (forall a b, (exists i, In i sel /\ nth (sc + i) niches 0 = a) ->
                   (exists i, i < length lastf /\ ~ In i sel /\ nth (sc + i) niches 0 = b) ->
                   nth a (o_counts (f_core o)) 0 <= nth b (o_counts (f_core o)) 0 + 1).
Proof. exact (nsga3_full_balanced log pop k refs mem pext draws spelled_ok Hr Hk). Qed.

(* the sorted fronts are, front by front, the leading peeling fronts of the population *)
Theorem full_fronts_are_peeling :
  exists o fs j, nsga3_full log pop k refs mem pext draws = Some o /\
    f_fronts o = map (map uid) fs /\ j < length (spec_fronts pop) /\
    Forall2 (@Permutation ind) fs (firstn (S j) (spec_fronts pop)) /\
    length (concat (removelast (f_fronts o))) < k <= length (concat (f_fronts o)).
Proof.
  destruct (nsga3_full_spec log pop k refs mem pext draws spelled_ok Hr Hk)
    as [o [fs [j [E [Ef [Hj [P [_ [_ [_ [_ [_ [_ Hkk]]]]]]]]]]]]].
  exists o, fs, j. repeat split; try assumption; apply Hkk.
Qed.
End Spelled.

(* association inside the whole pipeline: the niche of the i-th sorted individual is the first
   reference direction of minimal perpendicular distance to its fitness vector normalised by the
   model's own best point and intercepts *)
Theorem full_association log pop k refs mem pext draws o :
  nsga3_full log pop k refs mem pext draws = Some o ->
  exists fs, sort_fronts log pop k = Some fs /\
    let fits := map (fun x => qz (map Z.opp (iw x))) (concat fs) in
    f_icpt o = find_intercepts (map qz (f_ext o)) (qz (f_best o)) (qz (f_worst o))
                               (qz (update_worst None (map (fun x => map Z.opp (iw x)) (concat fs)))) /\
    forall i, i < length fits ->
      nth i (f_niches o) 0 = associate_one q_ops refs (normalise q_ops np_eps (nth i fits []) (qz (f_best o)) (f_icpt o)).
Proof.
  intro E. destruct (nsga3_full_unfold _ _ _ _ _ _ _ _ E) as [fs [Es [_ [_ [_ [_ [Ei [En _]]]]]]]].
  exists fs. split; [exact Es|]. cbn zeta. split.
  - unfold find_intercepts. rewrite <- Ei. reflexivity.
  - intros i Hi. rewrite En. rewrite map_map. apply associate_nth. exact Hi.
Qed.
