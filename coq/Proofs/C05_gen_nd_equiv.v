(* Tie (T) of property C05, the sorter: the definition regenerated from `sortNondominated` of
   deap/tools/emo.py (gen_sortNondominated in coq/Gen/C05_gen.v) computes property C04's hand model
   `sort_nd` (Model/C04_NDSort.v, the model C04's theorems and C05's end-to-end theorems are about):
       gen_sortNondominated o pop k first_front_only t = Some (r, t')  ->  sort_nd pop k first_front_only = Some r /\ t' = t
   for every population, every k, every attribute table.  (No C04 file is edited; this file only Requires them.)

   The model recurses on the list of distinct fitnesses and keeps its dictionaries in records; the regenerated
   code iterates `for i, fit_i in enumerate(fits): for fit_j in fits[i+1:]`, carries tuples of locals, appends an
   empty front and extends it in place, and runs its `while` on fuel.  The loops are matched by simulation
   (for_list_sim / while_sim, Proofs/C05_GenRt.v) against the model's folds, each generic in the loop body.
   The fuel the signature table gives the translator (len(fits)) is the model's; running out of it is `None` on
   both sides (C04 proves the model never does). *)
From Coq Require Import List ZArith Bool Arith Lia Permutation.
From DV Require Import Base.PyList Model.C05_Nsga2 Model.C05_GenRt Proofs.C05_GenRt Gen.C05_gen.
From DV Require Import Model.C04_NDSort Proofs.C04_NDSort.
Import ListNotations.

(* ---------------------------------------------------------------------------------------------- *)
(* the model's loops as folds over what the code iterates                                          *)
(* ---------------------------------------------------------------------------------------------- *)
(* one pass of `for i, fit_i in enumerate(fits)` on (current_front, dominating_fits, dominated_fits) *)
Definition p1_step (fits : list wvals) (st : list wvals * kmap Z * kmap (list wvals)) (p : nat * wvals) :=
  let s' := fold_left (pair_step (snd p)) (skipn (fst p + 1) fits) (mkst (snd (fst st)) (snd st)) in
  ((if cnt_of s' (snd p) =? 0 then fst (fst st) ++ [snd p] else fst (fst st))%Z, cnt s', dl s').

Lemma skipn_app_cons {A} (pre : list A) x r : skipn (length pre + 1) (pre ++ x :: r) = r.
Proof. induction pre as [|y pre IH]; cbn; [reflexivity|exact IH]. Qed.

Lemma phase1_fold_gen : forall (l pre cur : list wvals) c d,
  fold_left (p1_step (pre ++ l)) (combine (seq (length pre) (length l)) l) (cur, c, d) =
  let '(s, cur') := phase1 l (mkst c d) cur in (cur', cnt s, dl s).
Proof.
  induction l as [|fi r IH]; intros pre cur c d; [reflexivity|].
  cbn [length seq combine fold_left phase1].
  unfold p1_step at 2. cbn [fst snd]. rewrite skipn_app_cons.
  set (s' := fold_left (pair_step fi) r (mkst c d)).
  specialize (IH (pre ++ [fi]) (if (cnt_of s' fi =? 0)%Z then cur ++ [fi] else cur) (cnt s') (dl s')).
  rewrite <- app_assoc in IH. cbn [app] in IH. rewrite app_length in IH. cbn [length] in IH.
  rewrite Nat.add_1_r in IH. rewrite IH. destruct s'; reflexivity.
Qed.

Lemma phase1_fold (fits : list wvals) :
  fold_left (p1_step fits) (enumerate fits) ([], [], []) =
  let '(s, cur') := phase1 fits (mkst [] []) [] in (cur', cnt s, dl s).
Proof. exact (phase1_fold_gen fits [] [] [] []). Qed.

(* the inner loop `for fit_j in fits[i+1:]` on the pair (dominating_fits, dominated_fits) *)
Definition pair_tup (fi : wvals) (st : kmap Z * kmap (list wvals)) (fj : wvals) :=
  let s := pair_step fi (mkst (fst st) (snd st)) fj in (cnt s, dl s).

Lemma pair_fold_tup fi : forall l c d,
  fold_left (pair_tup fi) l (c, d) = let s := fold_left (pair_step fi) l (mkst c d) in (cnt s, dl s).
Proof.
  induction l as [|fj l IH]; intros c d; [reflexivity|].
  cbn [fold_left]. unfold pair_tup at 2. cbn [fst snd].
  destruct (pair_step fi (mkst c d) fj) as [c' d'] eqn:E. cbn [cnt dl]. rewrite IH. reflexivity.
Qed.

Lemma fold_app_flat_map {A B} (g : A -> list B) : forall l acc,
  fold_left (fun m x => m ++ g x) l acc = acc ++ flat_map g l.
Proof.
  induction l as [|x l IH]; intro acc; cbn; [now rewrite app_nil_r|]. now rewrite IH, app_assoc.
Qed.

(* the `while`: C04's nd_loop is the iteration of one step on the record of its loop variables *)
Record lp := mklp { l_cnt : kmap Z; l_cur : list wvals; l_sorted : Z; l_fronts : list (list ind) }.

Definition lp_cond (N : Z) (m : lp) : bool := (l_sorted m <? N)%Z.
Definition lp_step (mfi : kmap (list ind)) (dlm : kmap (list wvals)) (m : lp) : lp :=
  let e := expand_front mfi dlm (l_cur m) (mkexp (l_cnt m) [] (l_sorted m) []) in
  mklp (e_cnt e) (e_next e) (e_sorted e) (l_fronts m ++ [e_last e]).

Lemma nd_loop_iter mfi dlm N : forall fuel c cur sorted fronts,
  nd_loop fuel mfi dlm N c cur sorted fronts =
  option_map l_fronts (iter_fuel fuel (lp_cond N) (lp_step mfi dlm) (mklp c cur sorted fronts)).
Proof.
  induction fuel as [|f IH]; intros c cur sorted fronts; cbn [nd_loop iter_fuel]; unfold lp_cond at 1; cbn [l_sorted].
  - destruct (sorted <? N)%Z; reflexivity.
  - destruct (sorted <? N)%Z; [|reflexivity]. rewrite IH. reflexivity.
Qed.

(* ---------------------------------------------------------------------------------------------- *)
(* the regenerated sortNondominated                                                                  *)
(* ---------------------------------------------------------------------------------------------- *)
Section NdEquiv.
  Variable o : numops.

  (* inner state of the while body (next_front, dominating_fits, fronts, pareto_sorted) against the model's
     exp_state; F0 = the fronts before this pass (the code appended [] and extends it in place) *)
  Definition rel_exp (F0 : list (list ind)) (s : list wvals * kmap Z * list (list ind) * nat) (e : exp_state) : Prop :=
    fst (fst (fst s)) = e_next e /\ snd (fst (fst s)) = e_cnt e /\ snd (fst s) = F0 ++ [e_last e] /\
    Z.of_nat (snd s) = e_sorted e.

  (* loop-head state of the while (current_front, next_front, dominating_fits, fronts, pareto_sorted) *)
  Definition rel_lp (s : list wvals * list wvals * kmap Z * list (list ind) * nat) (m : lp) : Prop :=
    fst (fst (fst (fst s))) = l_cur m /\ snd (fst (fst (fst s))) = [] /\ snd (fst (fst s)) = l_cnt m /\
    snd (fst s) = l_fronts m /\ Z.of_nat (snd s) = l_sorted m.

  (* a loop body is a closed statement: forget the run it is part of *)
  Ltac clear_runs :=
    repeat match goal with
           | H : _ = Some _ |- _ => clear H
           | H : (_ =? _)%Z = _ |- _ => clear H
           | H : negb _ = _ |- _ => clear H
           end.

  (* map_fit_ind[ind.fitness].append(ind) is group_step *)
  Ltac group_body :=
    let Hb := fresh "Hb" in
    clear_runs; intros ? ? ? ? ? _ Hb; cbv beta zeta in Hb; minv; split; reflexivity.

  (* the if / elif on dominates is pair_step *)
  Ltac pair_body :=
    let Hc := fresh "Hc" in
    clear_runs; intros ? [? ?] ? ? ? _ Hc; cbv beta zeta in Hc; cbn [fst snd] in Hc; minv;
    unfold pair_tup, pair_step, cnt_of, dl_of; cbn [fst snd cnt dl];
    repeat match goal with E : nd_dom _ _ = _ |- _ => rewrite E end;
    split; reflexivity.

  (* one pass of `for i, fit_i in enumerate(fits)` is p1_step *)
  Ltac p1_body :=
    let Hb := fresh "Hb" in
    clear_runs; intros [? ?] [[? ?] ?] ? ? ? _ Hb; cbv beta zeta in Hb; cbn [fst snd] in Hb; minv;
    match goal with
    | Hi : for_list (sl _ _ _) _ _ _ = Some _ |- _ = p1_step _ _ (_, ?w) /\ _ =>
        rewrite sl_from in Hi;
        apply (for_list_inv_pure o (pair_tup w)) in Hi; [destruct Hi as [-> ->] | pair_body]
    end;
    unfold p1_step; cbn [fst snd]; rewrite pair_fold_tup in *; cbv zeta in *; cbn [fst snd] in *;
    unfold cnt_of;
    match goal with E : (_ =? 0)%Z = _ |- _ => rewrite E end;
    split; reflexivity.

  (* fronts[-1].extend(map_fit_ind[fit]) on fronts = [m] *)
  Ltac front0_body :=
    let Hb := fresh "Hb" in
    clear_runs; intros ? ? ? ? ? ? _ -> Hb; cbv beta zeta in Hb; minv;
    match goal with Hn : nth_error [_] _ = Some _ |- _ => cbn in Hn; injection Hn as <- end;
    split; reflexivity.

  (* body of `for fit_d in dominated_fits[fit_p]` simulates expand_step *)
  Ltac expand_body :=
    let Hb := fresh "Hb" in let HR := fresh "HR" in
    clear_runs; intros ? [[[? ?] ?] ?] [? ? ? ?] ? ? ? _ HR Hb;
    destruct HR as (R1 & R2 & R3 & R4); cbn [fst snd e_next e_cnt e_last e_sorted] in *; subst;
    cbv beta zeta in Hb; cbn [fst snd] in Hb; rewrite ?kget_kset_same in Hb; minv;
    unfold expand_step; cbn [e_next e_cnt e_last e_sorted];
    match goal with E : (_ =? 0)%Z = _ |- _ => rewrite E end;
    (split; [|reflexivity]); unfold rel_exp; cbn [fst snd e_next e_cnt e_last e_sorted];
    repeat match goal with
           | H : nth_error (_ ++ [_]) _ = Some _ |- _ => apply nth_error_snoc_last in H; subst
           end;
    rewrite ?set_last_snoc; unfold zlen; repeat split; try reflexivity; lia.

  (* body of `for fit_p in current_front` simulates the inner fold of expand_front *)
  Ltac front_body mfi :=
    let Hb := fresh "Hb" in let HR := fresh "HR" in
    intros ? [[[? ?] ?] ?] ? ? ? ? _ HR Hb; cbv beta zeta in Hb; cbn [fst snd] in Hb; minv;
    match goal with
    | Hi : for_list _ _ _ _ = Some _, HR : rel_exp ?F0 _ ?e |- _ =>
        apply (for_list_sim o (rel_exp F0) (expand_step mfi)) with (m := e) in Hi;
        [ let R1 := fresh in let R2 := fresh in let R3 := fresh in let R4 := fresh in
          destruct Hi as [(R1 & R2 & R3 & R4) ->]; split; [|reflexivity];
          unfold rel_exp; cbn [fst snd] in *; repeat split; assumption
        | expand_body
        | exact HR ]
    end.

  (* the body of the `while` simulates lp_step *)
  Ltac while_body mfi dlm :=
    let Hb := fresh "Hb" in
    intros [[[[? ?] ?] ?] ?] [? ? ? ?] ? ? ? (R1 & R2 & R3 & R4 & R5) _ Hb;
    cbn [fst snd l_cur l_cnt l_sorted l_fronts] in *; subst;
    cbv beta zeta in Hb; cbn [fst snd] in Hb; minv;
    match goal with
    | Hl : for_list _ _ (_, ?c0, ?F0 ++ [[]], _) _ = Some _ |- rel_lp _ (lp_step _ _ {| l_sorted := ?z0 |}) /\ _ =>
        apply (for_list_sim o (rel_exp F0) (fun e fp => fold_left (expand_step mfi) (kget dlm fp []) e))
          with (m := mkexp c0 [] z0 []) in Hl;
        [ let R1 := fresh in let R2 := fresh in let R3 := fresh in let R4 := fresh in
          destruct Hl as [(R1 & R2 & R3 & R4) ->]; cbn [fst snd] in *;
          split; [|reflexivity]; unfold rel_lp, lp_step, expand_front;
          cbn [fst snd l_cur l_cnt l_sorted l_fronts]; repeat split; assumption
        | front_body mfi
        | unfold rel_exp; cbn [fst snd e_next e_cnt e_last e_sorted]; repeat split; assumption ]
    end.

  Ltac nd_main pop :=
    (* map_fit_ind *)
    match goal with
    | Hl : for_list pop _ [] _ = Some _ |- _ =>
        apply (for_list_inv_pure o group_step) in Hl;
        [ destruct Hl as [-> ->]; fold (group_inds pop) in * | group_body ]
    end;
    (* the first front: the double loop over the fitnesses *)
    match goal with
    | Hl : for_list (enumerate ?fits) _ _ _ = Some _ |- _ =>
        apply (for_list_inv_pure o (p1_step fits)) in Hl;
        [ destruct Hl as [-> ->]; rewrite phase1_fold in * | p1_body ]
    end;
    let s := fresh "s" in let cur := fresh "cur" in
    destruct (phase1 (kkeys (group_inds pop)) (mkst [] []) []) as [s cur]; cbn [fst snd] in *;
    (* fronts = [[]]; for fit in current_front: fronts[-1].extend(map_fit_ind[fit]) *)
    match goal with
    | Hl : for_list cur _ [[]] _ = Some _ |- _ =>
        apply (for_list_sim o (fun fr m => fr = [m]) (fun m f => m ++ kget (group_inds pop) f [])) with (m := []) in Hl;
        [ destruct Hl as [-> ->]; rewrite fold_app_flat_map in *; cbn [app] in *
        | front0_body
        | reflexivity ]
    end;
    match goal with Hn : nth_error [_] _ = Some _ |- _ => cbn in Hn; injection Hn as <- end;
    first
      [ (* first_front_only *)
        solve [ match goal with E : negb ?fo = false |- _ => apply negb_false_iff in E; subst fo end;
                cbn [fst snd]; split; reflexivity ]
      | (* the while loop *)
        match goal with E : negb ?fo = true |- _ => apply negb_true_iff in E; subst fo end;
        rewrite nd_loop_iter;
        match goal with
        | Hw : while_fuel _ _ _ _ _ = Some _ |- context [iter_fuel _ (lp_cond ?N) (lp_step ?mfi ?dlm) ?m0] =>
            apply (while_sim o rel_lp _ (lp_cond N) (lp_step mfi dlm)) with (m := m0) in Hw;
            [ let m1 := fresh "m" in let R4 := fresh "R" in
              destruct Hw as (m1 & -> & (_ & _ & _ & R4 & _) & ->); cbn [fst snd option_map] in *;
              rewrite R4; split; reflexivity
            | (* the loop condition *)
              intros [[[[? ?] ?] ?] ?] [? ? ? ?] (_ & _ & _ & _ & R5);
              cbn [fst snd l_cur l_cnt l_sorted l_fronts] in *;
              unfold lp_cond; cbn [l_sorted]; rewrite R5; unfold zlen; reflexivity
            | while_body mfi dlm
            | unfold rel_lp; cbn [fst snd l_cur l_cnt l_sorted l_fronts]; unfold zlen; repeat split; reflexivity ]
        end ].

  Theorem gen_sortnd_refines (pop : list ind) (k : Z) (fo : bool) t r t' :
    gen_sortNondominated o pop k fo t = Some (r, t') -> sort_nd pop k fo = Some r /\ t' = t.
  Proof.
    unfold gen_sortNondominated. intro H.
    first [ (* the translator refused: the definition is the hand model *)
            solve [ apply lift_inv in H; exact H ]
          | cbv beta zeta in H; minv; unfold sort_nd;
            match goal with E : (_ =? 0)%Z = _ |- _ => rewrite E end;
            first [ solve [split; reflexivity] | solve [nd_main pop] ] ].
  Qed.
End NdEquiv.

(* ---------------------------------------------------------------------------------------------- *)
(* the regenerated sorter as the 'standard' back-end of the regenerated selNSGA2                     *)
(* ---------------------------------------------------------------------------------------------- *)
From DV Require Import Model.C05_Spec Model.C05_Full.

Section GenSorter.
  Variable o : numops.
  Notation indV := (C05_Nsga2.ind (V o)).

  Lemma gen_std_sorter_refines (pop : list indV) (k : nat) fronts :
    gen_std_sorter o pop (Z.of_nat k) = Some fronts -> nd_fronts NdStandard pop k = Some fronts.
  Proof.
    unfold gen_std_sorter, nd_fronts. intro H.
    destruct (gen_sortNondominated o (pop4 pop) (Z.of_nat k) false (fun _ => None)) as [[fs t']|] eqn:E; [|discriminate H].
    apply gen_sortnd_refines in E as [-> _]. exact H.
  Qed.
End GenSorter.
