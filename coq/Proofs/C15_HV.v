(* Proofs for C15 — hypervolume.  Model: Model/C15_HV.v.
   Main result: [hv_gmeasure] — the HSO recursion equals the grid sum on EVERY grid that contains the
   coordinates of the points (hence on the induced grid, and the grid sum does not depend on the grid). *)
From Coq Require Import List QArith Bool SetoidList Sorted Permutation Lia Morphisms.
From DV Require Import Model.C15_HV.
Import ListNotations.
Local Open Scope Q_scope.

(* ------------------------------------------------------------------ *)
(* sums                                                                 *)
(* ------------------------------------------------------------------ *)
Lemma Qsum_nil : Qsum [] = 0.
Proof. reflexivity. Qed.
Lemma Qsum_cons x l : Qsum (x :: l) = x + Qsum l.
Proof. reflexivity. Qed.

Lemma Qsum_app l1 l2 : Qsum (l1 ++ l2) == Qsum l1 + Qsum l2.
Proof.
  induction l1 as [|x l IH]; [rewrite app_nil_l, Qsum_nil; ring|].
  rewrite <- app_comm_cons, !Qsum_cons, IH. ring.
Qed.

Lemma Qsum_map_ext {A} (f g : A -> Q) l :
  (forall x, In x l -> f x == g x) -> Qsum (map f l) == Qsum (map g l).
Proof.
  induction l as [|x l IH]; intro H; [reflexivity|].
  rewrite !map_cons, !Qsum_cons. rewrite (H x) by (left; auto).
  rewrite IH by (intros; apply H; right; auto). reflexivity.
Qed.

Lemma Qsum_map_scal {A} (a : Q) (f : A -> Q) l :
  Qsum (map (fun x => a * f x) l) == a * Qsum (map f l).
Proof.
  induction l as [|x l IH]; [cbn [map]; rewrite !Qsum_nil; ring|].
  rewrite !map_cons, !Qsum_cons, IH. ring.
Qed.

Lemma Qsum_flat_map {A B} (f : B -> Q) (g : A -> list B) l :
  Qsum (map f (flat_map g l)) == Qsum (map (fun a => Qsum (map f (g a))) l).
Proof.
  induction l as [|x l IH]; [reflexivity|].
  change (flat_map g (x :: l)) with (g x ++ flat_map g l).
  rewrite map_app, Qsum_app, IH, map_cons, Qsum_cons. reflexivity.
Qed.

Lemma Qsum_map_zero {A} (f : A -> Q) l : (forall x, In x l -> f x == 0) -> Qsum (map f l) == 0.
Proof.
  induction l as [|x l IH]; intro H; [reflexivity|].
  rewrite map_cons, Qsum_cons. rewrite (H x) by (left; auto).
  rewrite IH by (intros; apply H; right; auto). ring.
Qed.

Lemma Qsum_map_nonneg {A} (f : A -> Q) l : (forall x, In x l -> 0 <= f x) -> 0 <= Qsum (map f l).
Proof.
  induction l as [|x l IH]; intro H; [apply Qle_refl|].
  rewrite map_cons, Qsum_cons.
  setoid_replace 0 with (0 + 0) by ring.
  apply Qplus_le_compat; [apply H; left; auto|apply IH; intros; apply H; right; auto].
Qed.

Lemma Qsum_map_le {A} (f g : A -> Q) l :
  (forall x, In x l -> f x <= g x) -> Qsum (map f l) <= Qsum (map g l).
Proof.
  induction l as [|x l IH]; intro H; [apply Qle_refl|].
  rewrite !map_cons, !Qsum_cons.
  apply Qplus_le_compat; [apply H; left; auto|apply IH; intros; apply H; right; auto].
Qed.

(* ------------------------------------------------------------------ *)
(* comparisons                                                          *)
(* ------------------------------------------------------------------ *)
Lemma Qltb_iff x y : Qltb x y = true <-> x < y.
Proof.
  unfold Qltb. rewrite Qlt_alt. destruct (x ?= y); split; congruence.
Qed.

Lemma Qltb_false_iff x y : Qltb x y = false <-> y <= x.
Proof.
  destruct (Qltb x y) eqn:E.
  - apply Qltb_iff in E. split; [discriminate|]. intro H. exfalso.
    apply (Qlt_irrefl x). eapply Qlt_le_trans; eauto.
  - split; auto. intros _. apply Qnot_lt_le. intro H. apply Qltb_iff in H. congruence.
Qed.

Global Instance Qltb_comp : Proper (Qeq ==> Qeq ==> eq) Qltb.
Proof. intros a b E c d E'. unfold Qltb. rewrite E, E'. reflexivity. Qed.

(* ------------------------------------------------------------------ *)
(* slices                                                               *)
(* ------------------------------------------------------------------ *)
Lemma slice_agree z1 z2 pts :
  (forall p, In p pts -> (hd0 p <= z1 <-> hd0 p <= z2)) -> slice z1 pts = slice z2 pts.
Proof.
  intro H. unfold slice. f_equal. apply filter_ext_in. intros p Hp.
  destruct (Qle_bool (hd0 p) z1) eqn:E1, (Qle_bool (hd0 p) z2) eqn:E2; auto.
  - apply Qle_bool_iff in E1. apply H in E1; auto. apply Qle_bool_iff in E1. congruence.
  - apply Qle_bool_iff in E2. apply H in E2; auto. apply Qle_bool_iff in E2. congruence.
Qed.

Lemma slice_Qeq z1 z2 pts : z1 == z2 -> slice z1 pts = slice z2 pts.
Proof. intro E. apply slice_agree. intros. rewrite E. tauto. Qed.

Lemma slice_none z pts : (forall p, In p pts -> z < hd0 p) -> slice z pts = [].
Proof.
  intro H. unfold slice. induction pts as [|p l IH]; cbn; auto.
  destruct (Qle_bool (hd0 p) z) eqn:E.
  - apply Qle_bool_iff in E. exfalso. apply (Qlt_irrefl z). eapply Qlt_le_trans; [apply H; cbn; auto|auto].
  - apply IH. intros; apply H; cbn; auto.
Qed.

Lemma in_slice q z pts : In q (slice z pts) <-> exists p, In p pts /\ hd0 p <= z /\ q = tl p.
Proof.
  unfold slice. rewrite in_map_iff. split.
  - intros (p & E & Hp). apply filter_In in Hp. destruct Hp as [Hp Hl]. apply Qle_bool_iff in Hl. eauto.
  - intros (p & Hp & Hl & ->). exists p. split; auto. apply filter_In. split; auto. apply Qle_bool_iff; auto.
Qed.

Lemma slice_incl z pts q : In q (slice z pts) -> In q (map (@tl Q) pts).
Proof. intro H. apply in_slice in H. destruct H as (p & Hp & _ & ->). apply in_map; auto. Qed.

Lemma slice_app z a b : slice z (a ++ b) = slice z a ++ slice z b.
Proof. unfold slice. rewrite filter_app, map_app. reflexivity. Qed.

(* ------------------------------------------------------------------ *)
(* strictly increasing lists of breakpoints                             *)
(* ------------------------------------------------------------------ *)
Notation QIn := (InA Qeq).

Global Instance Qlt_strorder : StrictOrder Qlt.
Proof. split; [intros x H; exact (Qlt_irrefl x H)|intros x y z; apply Qlt_trans]. Qed.

Lemma QIn_cons x y l : QIn x (y :: l) <-> x == y \/ QIn x l.
Proof. apply InA_cons. Qed.

Lemma QIn_In x l : In x l -> QIn x l.
Proof. intro H. apply InA_alt. exists x. split; [reflexivity|auto]. Qed.

Lemma QIn_app x l1 l2 : QIn x (l1 ++ l2) <-> QIn x l1 \/ QIn x l2.
Proof. apply InA_app_iff. Qed.

Lemma QIn_sing x y : QIn x [y] <-> x == y.
Proof. rewrite QIn_cons, InA_nil. tauto. Qed.

Lemma sorted_lt_all a l x : Sorted Qlt (a :: l) -> QIn x l -> a < x.
Proof.
  intros S H. inversion S as [|? ? S' HR]; subst.
  eapply SortA_InfA_InA with (eqA := Qeq); eauto; typeclasses eauto.
Qed.

Lemma HdRel_all a l : (forall x, QIn x l -> a < x) -> HdRel Qlt a l.
Proof. intro H. destruct l; constructor. apply H. left. reflexivity. Qed.

Lemma insq_QIn x y l : QIn y (insq x l) <-> y == x \/ QIn y l.
Proof.
  induction l as [|z l IH]; cbn [insq].
  - rewrite QIn_sing, InA_nil. tauto.
  - destruct (Qcompare_spec x z) as [E|L|G].
    + rewrite QIn_cons. rewrite E. tauto.
    + rewrite !QIn_cons. tauto.
    + rewrite !QIn_cons, IH. tauto.
Qed.

Lemma insq_sorted x l : Sorted Qlt l -> Sorted Qlt (insq x l).
Proof.
  induction l as [|z l IH]; cbn [insq]; intro S.
  - repeat constructor.
  - destruct (Qcompare_spec x z) as [E|L|G]; auto.
    inversion S as [|? ? S' HR]; subst. constructor; auto.
    { apply HdRel_all. intros y Hy. apply insq_QIn in Hy. destruct Hy as [Hy|Hy].
      * rewrite Hy. auto.
      * eapply sorted_lt_all; eauto. }
Qed.

Lemma fold_insq_sorted l : Sorted Qlt (fold_right insq [] l).
Proof. induction l; cbn; [constructor|apply insq_sorted; auto]. Qed.

Lemma fold_insq_QIn x l : QIn x (fold_right insq [] l) <-> QIn x l.
Proof.
  induction l as [|y l IH]; cbn; [tauto|]. rewrite insq_QIn, QIn_cons, IH. tauto.
Qed.

Lemma breaks_sorted r pts : Sorted Qlt (breaks r pts).
Proof. apply fold_insq_sorted. Qed.

Lemma breaks_QIn x r pts :
  QIn x (breaks r pts) <-> (exists p, In p pts /\ hd0 p == x) /\ x < r.
Proof.
  unfold breaks. rewrite fold_insq_QIn, InA_alt. split.
  - intros (y & E & Hy). apply filter_In in Hy. destruct Hy as [Hy Hl].
    apply in_map_iff in Hy. destruct Hy as (p & <- & Hp). apply Qltb_iff in Hl.
    split; [exists p; split; auto; symmetry; auto|rewrite E; auto].
  - intros [(p & Hp & E) L]. exists (hd0 p). split; [symmetry; auto|].
    apply filter_In. split; [apply in_map; auto|]. apply Qltb_iff. rewrite E. auto.
Qed.

Lemma sorted_app_last l r : Sorted Qlt l -> (forall x, QIn x l -> x < r) -> Sorted Qlt (l ++ [r]).
Proof.
  induction l as [|a l IH]; cbn; intros S H.
  - repeat constructor.
  - inversion S as [|? ? S' HR]; subst. constructor.
    + apply IH; auto; intros; apply H; right; auto.
    + apply HdRel_all. intros x Hx. apply QIn_app in Hx. destruct Hx as [Hx|Hx].
      * eapply sorted_lt_all; eauto.
      * apply QIn_sing in Hx. rewrite Hx. apply H. left. reflexivity.
Qed.

(* the canonical axis of the first coordinate *)
Definition axis0 (r : Q) (pts : list point) : list Q := breaks r pts ++ [r].

Lemma axis0_sorted r pts : Sorted Qlt (axis0 r pts).
Proof.
  apply sorted_app_last; [apply breaks_sorted|]. intros x H. apply breaks_QIn in H. tauto.
Qed.

Lemma axis0_QIn x r pts :
  QIn x (axis0 r pts) <-> ((exists p, In p pts /\ hd0 p == x) /\ x < r) \/ x == r.
Proof. unfold axis0. rewrite QIn_app, QIn_sing, breaks_QIn. tauto. Qed.

(* A grid axis for reference coordinate r that is fine enough for pts: strictly increasing, ends in r
   (r is its maximum) and contains the first coordinate of every point that lies below r. *)
Definition valid_axis (r : Q) (pts : list point) (bs : list Q) : Prop :=
  Sorted Qlt bs /\ QIn r bs /\ (forall x, QIn x bs -> x <= r) /\
  (forall p, In p pts -> hd0 p < r -> QIn (hd0 p) bs).

Inductive valid_grid : list Q -> list point -> list (list Q) -> Prop :=
| vg_nil pts : valid_grid [] pts []
| vg_cons r ref pts ax axes :
    valid_axis r pts ax -> valid_grid ref (map (@tl Q) pts) axes ->
    valid_grid (r :: ref) pts (ax :: axes).

Lemma axis0_valid r pts : valid_axis r pts (axis0 r pts).
Proof.
  split; [apply axis0_sorted|]. split; [apply axis0_QIn; right; reflexivity|]. split.
  - intros x H. apply axis0_QIn in H. destruct H as [[_ H]|H]; [apply Qlt_le_weak; auto|rewrite H; apply Qle_refl].
  - intros p Hp L. apply axis0_QIn. left. split; auto. exists p. split; auto. reflexivity.
Qed.

Lemma valid_axis_mono r pts pts' bs :
  (forall p, In p pts' -> In p pts) -> valid_axis r pts bs -> valid_axis r pts' bs.
Proof. intros H (S & R & U & C). repeat split; auto. Qed.

Lemma valid_grid_mono ref : forall pts pts' axes,
  (forall p, In p pts' -> In p pts) -> valid_grid ref pts axes -> valid_grid ref pts' axes.
Proof.
  induction ref as [|r ref IH]; intros pts pts' axes H V; inversion V; subst; constructor.
  - eapply valid_axis_mono; eauto.
  - eapply IH; [|eauto]. intros q Hq. apply in_map_iff in Hq. destruct Hq as (p & <- & Hp).
    apply in_map. auto.
Qed.

Lemma induced_axes_valid ref : forall pts, valid_grid ref pts (induced_axes ref pts).
Proof.
  induction ref as [|r ref IH]; intro pts; cbn; constructor; [apply axis0_valid|apply IH].
Qed.

(* ------------------------------------------------------------------ *)
(* step sums; invariance of the 1-D integral under refinement           *)
(* ------------------------------------------------------------------ *)
Definition term (F : Q -> Q) (iv : Q * Q) : Q := (snd iv - fst iv) * F (fst iv).
Definition stp (F : Q -> Q) (lo : Q) (bs : list Q) : Q := Qsum (map (term F) (pairs_from lo bs)).

Lemma integrate_cons F b bs : integrate F (b :: bs) = stp F b bs.
Proof. reflexivity. Qed.
Lemma integrate_nil F : integrate F [] = 0.
Proof. reflexivity. Qed.
Lemma stp_nil F lo : stp F lo [] = 0.
Proof. reflexivity. Qed.
Lemma stp_cons F lo b bs : stp F lo (b :: bs) = (b - lo) * F lo + stp F b bs.
Proof. reflexivity. Qed.

Lemma stp_shift F lo l : F lo == 0 -> stp F lo l == integrate F l.
Proof.
  intro H. destruct l as [|b l]; [reflexivity|]. rewrite stp_cons, integrate_cons, H. ring.
Qed.

Lemma stp_drop_mid F lo c b bs : F c == F lo -> stp F lo (c :: b :: bs) == stp F lo (b :: bs).
Proof. intro H. rewrite !stp_cons, H. ring. Qed.

Lemma stp_eqlistA F : Proper (Qeq ==> Qeq) F ->
  forall l1 l2 lo1 lo2, lo1 == lo2 -> eqlistA Qeq l1 l2 -> stp F lo1 l1 == stp F lo2 l2.
Proof.
  intros HF l1 l2 lo1 lo2 E H. revert lo1 lo2 E.
  induction H as [|a b l1 l2 Eab H IH]; intros lo1 lo2 E; [reflexivity|].
  rewrite !stp_cons. rewrite (IH a b Eab), Eab, E. reflexivity.
Qed.

Lemma integrate_eqlistA F : Proper (Qeq ==> Qeq) F ->
  forall l1 l2, eqlistA Qeq l1 l2 -> integrate F l1 == integrate F l2.
Proof.
  intros HF l1 l2 H. destruct H as [|a b l1 l2 E H]; [reflexivity|].
  rewrite !integrate_cons. apply stp_eqlistA; auto.
Qed.

Lemma sorted_filter (f : Q -> bool) l : Sorted Qlt l -> Sorted Qlt (filter f l).
Proof.
  induction l as [|a l IH]; cbn; intro S; [constructor|].
  inversion S as [|? ? S' HR]; subst.
  destruct (f a); auto. constructor; auto.
  apply HdRel_all. intros x Hx. eapply sorted_lt_all; eauto.
  apply InA_alt in Hx. destruct Hx as (y & E & Hy). apply filter_In in Hy.
  apply InA_alt. exists y. tauto.
Qed.

Section Refine.
  Variable F : Q -> Q.
  Variable keep : Q -> bool.
  Variable coord : Q -> Prop.
  Variable r : Q.
  Hypothesis F_step : forall x y, x <= y -> (forall h, coord h -> ~ (x < h /\ h <= y)) -> F x == F y.
  Hypothesis F_low : forall x, (forall h, coord h -> x < h) -> F x == 0.
  Hypothesis keep_coord : forall h b, coord h -> h < r -> h == b -> keep b = true.
  Hypothesis keep_r : forall b, b == r -> keep b = true.

  Lemma stp_filter : forall bs lo,
    Sorted Qlt (lo :: bs) -> QIn r bs -> (forall x, QIn x bs -> x <= r) ->
    (forall h, coord h -> lo < h -> h < r -> QIn h bs) ->
    stp F lo bs == stp F lo (filter keep bs).
  Proof.
    induction bs as [|c bs IH]; intros lo S R U C; [reflexivity|].
    assert (Slo : Sorted Qlt (c :: bs)) by (inversion S; auto).
    assert (Llo : lo < c) by (eapply sorted_lt_all; [exact S|left; reflexivity]).
    assert (Hgt : forall x, QIn x bs -> c < x) by (intros; eapply sorted_lt_all; eauto).
    cbn [filter]. destruct (keep c) eqn:K.
    - rewrite !stp_cons. destruct bs as [|b bs']; [reflexivity|].
      rewrite (IH c); [reflexivity|auto| | |].
      + apply QIn_cons in R. destruct R as [R|R]; auto.
        exfalso. assert (c < b) by (apply Hgt; left; reflexivity).
        assert (b <= r) by (apply U; right; left; reflexivity).
        apply (Qlt_irrefl c). rewrite <- R at 2. eapply Qlt_le_trans; eauto.
      + intros; apply U; right; auto.
      + intros h Hc L1 L2. assert (QIn h (c :: b :: bs')) as Hin
          by (apply C; auto; eapply Qlt_trans; eauto).
        apply QIn_cons in Hin. destruct Hin as [Hin|Hin]; auto.
        exfalso. rewrite Hin in L1. exact (Qlt_irrefl _ L1).
    - assert (Rc : ~ c == r) by (intro E; rewrite (keep_r c E) in K; discriminate).
      assert (Rin : QIn r bs) by (apply QIn_cons in R; destruct R as [R|R]; [exfalso; apply Rc; symmetry; auto|auto]).
      assert (Lcr : c < r).
      { assert (Hc : c <= r) by (apply U; left; reflexivity).
        apply Qle_lt_or_eq in Hc. destruct Hc as [H|H]; tauto. }
      destruct bs as [|b bs']; [inversion Rin|].
      assert (Fc : F c == F lo).
      { symmetry. apply F_step; [apply Qlt_le_weak; auto|].
        intros h Hc [L1 L2].
        assert (QIn h (c :: b :: bs')) as Hin by (apply C; auto; eapply Qle_lt_trans; eauto).
        apply QIn_cons in Hin. destruct Hin as [Hin|Hin].
        - rewrite (keep_coord h c) in K; auto; [discriminate|eapply Qle_lt_trans; eauto].
        - apply Hgt in Hin. apply (Qlt_irrefl c). eapply Qlt_le_trans; eauto. }
      rewrite (stp_drop_mid _ _ _ _ _ Fc). apply IH; [ |exact Rin| | ].
      + constructor; [inversion Slo; auto|]. constructor.
        eapply Qlt_trans; [exact Llo|]. apply Hgt. left. reflexivity.
      + intros; apply U; right; auto.
      + intros h Hc L1 L2. assert (QIn h (c :: b :: bs')) as Hin by (apply C; auto).
        apply QIn_cons in Hin. destruct Hin as [Hin|Hin]; auto.
        rewrite (keep_coord h c) in K; auto. discriminate.
  Qed.

  Lemma integrate_filter bs :
    Sorted Qlt bs -> QIn r bs -> (forall x, QIn x bs -> x <= r) ->
    (forall h, coord h -> h < r -> QIn h bs) ->
    integrate F bs == integrate F (filter keep bs).
  Proof.
    intros S R U C. destruct bs as [|b0 bs]; [inversion R|].
    set (lo := b0 - 1).
    assert (L0 : lo < b0) by (unfold lo; rewrite <- (Qplus_0_r b0) at 2; apply Qplus_lt_r; reflexivity).
    assert (Hge : forall x, QIn x (b0 :: bs) -> b0 <= x).
    { intros x Hx. apply QIn_cons in Hx. destruct Hx as [Hx|Hx]; [rewrite Hx; apply Qle_refl|].
      apply Qlt_le_weak. eapply sorted_lt_all; eauto. }
    assert (Flo : F lo == 0).
    { apply F_low. intros h Hc. destruct (Qlt_le_dec h r) as [L|L].
      - eapply Qlt_le_trans; [exact L0|]. apply Hge. apply C; auto.
      - eapply Qlt_le_trans; [exact L0|]. eapply Qle_trans; [|exact L]. apply Hge; auto. }
    rewrite <- (stp_shift F lo (b0 :: bs) Flo), <- (stp_shift F lo _ Flo).
    apply stp_filter; auto.
  Qed.
End Refine.

(* ------------------------------------------------------------------ *)
(* hv: unfolding, empty set                                             *)
(* ------------------------------------------------------------------ *)
Lemma hv_cons r ref pts :
  hv (r :: ref) pts == integrate (fun z => hv ref (slice z pts)) (axis0 r pts).
Proof. unfold axis0. apply Qred_correct. Qed.

Lemma hv_nil ref : hv ref [] == 0.
Proof. destruct ref as [|r ref]; [reflexivity|]. rewrite hv_cons. reflexivity. Qed.

Lemma hv_dim0 pts : hv [] pts = match pts with [] => 0 | _ :: _ => 1 end.
Proof. reflexivity. Qed.

Lemma integrate_ext F G l : (forall z, F z == G z) -> integrate F l == integrate G l.
Proof.
  intro H. unfold integrate. apply Qsum_map_ext. intros iv _. rewrite H. reflexivity.
Qed.

(* ------------------------------------------------------------------ *)
(* the grid sum, one axis at a time                                     *)
(* ------------------------------------------------------------------ *)
Lemma existsb_filter_map {A B} (f : A -> bool) (t : A -> B) (g : B -> bool) l :
  existsb (fun p => f p && g (t p)) l = existsb g (map t (filter f l)).
Proof.
  induction l as [|p l IH]; [reflexivity|].
  cbn [existsb filter]. destruct (f p); cbn [map existsb andb orb]; rewrite IH; reflexivity.
Qed.

Lemma covered_cons pts iv c : covered pts (iv :: c) = covered (slice (fst iv) pts) c.
Proof.
  unfold covered, slice.
  apply (existsb_filter_map (fun p => Qle_bool (hd0 p) (fst iv)) (@tl Q) (fun q => corner_dominated q c)).
Qed.

Lemma gmeasure_cons ax axes pts :
  gmeasure (ax :: axes) pts == integrate (fun z => gmeasure axes (slice z pts)) ax.
Proof.
  unfold gmeasure at 1. cbn [cells]. rewrite Qsum_flat_map. unfold integrate.
  apply Qsum_map_ext. intros iv _. rewrite map_map. unfold gmeasure.
  rewrite <- Qsum_map_scal. apply Qsum_map_ext. intros c _.
  rewrite covered_cons. destruct (covered (slice (fst iv) pts) c); [reflexivity|ring].
Qed.

(* ------------------------------------------------------------------ *)
(* main theorem: HSO = grid sum on every valid grid                      *)
(* ------------------------------------------------------------------ *)
Definition coord_of (pts : list point) (h : Q) : Prop := exists p, In p pts /\ hd0 p == h.

Lemma hvslice_proper ref pts : Proper (Qeq ==> Qeq) (fun z => hv ref (slice z pts)).
Proof. intros a b E. rewrite (slice_Qeq a b pts E). reflexivity. Qed.

Lemma hvslice_step ref pts x y :
  x <= y -> (forall h, coord_of pts h -> ~ (x < h /\ h <= y)) ->
  hv ref (slice x pts) == hv ref (slice y pts).
Proof.
  intros L H. rewrite (slice_agree x y pts); [reflexivity|].
  intros p Hp. split; intro Hl; [eapply Qle_trans; eauto|].
  destruct (Qlt_le_dec x (hd0 p)) as [G|G]; auto.
  exfalso. apply (H (hd0 p)); [exists p; split; auto; reflexivity|auto].
Qed.

Lemma hvslice_low ref pts x : (forall h, coord_of pts h -> x < h) -> hv ref (slice x pts) == 0.
Proof.
  intro H. rewrite slice_none; [apply hv_nil|]. intros p Hp. apply H. exists p. split; auto. reflexivity.
Qed.

Definition keepb (ks : list Q) (b : Q) : bool := existsb (fun k => Qeq_bool k b) ks.

Lemma keepb_iff ks b : keepb ks b = true <-> QIn b ks.
Proof.
  unfold keepb. rewrite existsb_exists, InA_alt. split.
  - intros (k & Hk & E). apply Qeq_bool_iff in E. exists k. split; auto. symmetry; auto.
  - intros (k & E & Hk). exists k. split; auto. apply Qeq_bool_iff. symmetry; auto.
Qed.

Global Instance keepb_proper ks : Proper (Qeq ==> eq) (keepb ks).
Proof.
  intros a b E. destruct (keepb ks a) eqn:Ka, (keepb ks b) eqn:Kb; auto.
  - apply keepb_iff in Ka. rewrite E in Ka. apply keepb_iff in Ka. congruence.
  - apply keepb_iff in Kb. rewrite <- E in Kb. apply keepb_iff in Kb. congruence.
Qed.

(* 1-D: the integral of z |-> hv ref (slice z pts) does not depend on the (valid) axis *)
Lemma integrate_axis ref r pts bs :
  valid_axis r pts bs ->
  integrate (fun z => hv ref (slice z pts)) bs ==
  integrate (fun z => hv ref (slice z pts)) (axis0 r pts).
Proof.
  intros (S & R & U & C).
  set (F := fun z => hv ref (slice z pts)).
  set (ks := axis0 r pts).
  rewrite (integrate_filter F (keepb ks) (coord_of pts) r).
  - apply integrate_eqlistA; [apply hvslice_proper|].
    apply SortA_equivlistA_eqlistA with (ltA := Qlt); try typeclasses eauto.
    + apply sorted_filter; auto.
    + apply axis0_sorted.
    + intro x. rewrite filter_InA by typeclasses eauto. rewrite keepb_iff. split; [tauto|].
      intro H. split; auto. apply axis0_QIn in H. destruct H as [[(p & Hp & E) L]|E].
      * rewrite <- E. apply C; auto. rewrite E. auto.
      * rewrite E. auto.
  - intros x y L H. apply hvslice_step; auto.
  - intros x H. apply hvslice_low; auto.
  - intros h b Hc L E. apply keepb_iff. apply axis0_QIn. left. split.
    + destruct Hc as (p & Hp & Ep). exists p. split; auto. rewrite Ep. auto.
    + rewrite <- E. auto.
  - intros b E. apply keepb_iff. apply axis0_QIn. right. auto.
  - auto.
  - auto.
  - auto.
  - intros h (p & Hp & E) L. rewrite <- E. apply C; auto. rewrite E. auto.
Qed.

Theorem hv_gmeasure ref : forall pts axes,
  valid_grid ref pts axes -> hv ref pts == gmeasure axes pts.
Proof.
  induction ref as [|r ref IH]; intros pts axes V; inversion V as [|? ? ? ax axes' Va Vg]; subst.
  - destruct pts; vm_compute; reflexivity.
  - rewrite hv_cons, gmeasure_cons.
    rewrite <- (integrate_axis ref r pts ax Va).
    apply integrate_ext. intro z. apply IH.
    eapply valid_grid_mono; [|exact Vg]. intros q Hq. eapply slice_incl; eauto.
Qed.

Corollary hv_is_measure ref pts : hv ref pts == grid_measure ref pts.
Proof. apply hv_gmeasure. apply induced_axes_valid. Qed.

(* the grid sum does not depend on the grid (refinement invariance) *)
Corollary gmeasure_grid_independent ref pts axes1 axes2 :
  valid_grid ref pts axes1 -> valid_grid ref pts axes2 -> gmeasure axes1 pts == gmeasure axes2 pts.
Proof. intros V1 V2. rewrite <- (hv_gmeasure ref pts axes1 V1). apply hv_gmeasure; auto. Qed.

(* ------------------------------------------------------------------ *)
(* consequences: only the covered cells matter                           *)
(* ------------------------------------------------------------------ *)
Lemma gmeasure_cover_ext axes pts1 pts2 :
  (forall c, In c (cells axes) -> covered pts1 c = covered pts2 c) ->
  gmeasure axes pts1 == gmeasure axes pts2.
Proof. intro H. unfold gmeasure. apply Qsum_map_ext. intros c Hc. rewrite (H c Hc). reflexivity. Qed.

Lemma common_grid ref pts1 pts2 :
  valid_grid ref pts1 (induced_axes ref (pts1 ++ pts2)) /\
  valid_grid ref pts2 (induced_axes ref (pts1 ++ pts2)).
Proof.
  split; (eapply valid_grid_mono; [|apply induced_axes_valid]); intros p Hp; apply in_or_app; auto.
Qed.

Lemma hv_cover_ext ref pts1 pts2 :
  (forall c, In c (cells (induced_axes ref (pts1 ++ pts2))) -> covered pts1 c = covered pts2 c) ->
  hv ref pts1 == hv ref pts2.
Proof.
  intro H. destruct (common_grid ref pts1 pts2) as [V1 V2].
  rewrite (hv_gmeasure _ _ _ V1), (hv_gmeasure _ _ _ V2). apply gmeasure_cover_ext; auto.
Qed.

Lemma existsb_same_set {A} (f : A -> bool) l1 l2 :
  (forall x, In x l1 <-> In x l2) -> existsb f l1 = existsb f l2.
Proof.
  intro H. destruct (existsb f l1) eqn:E1, (existsb f l2) eqn:E2; auto.
  - apply existsb_exists in E1. destruct E1 as (x & Hx & Fx).
    assert (existsb f l2 = true) by (apply existsb_exists; exists x; split; auto; apply H; auto). congruence.
  - apply existsb_exists in E2. destruct E2 as (x & Hx & Fx).
    assert (existsb f l1 = true) by (apply existsb_exists; exists x; split; auto; apply H; auto). congruence.
Qed.

(* the value depends only on the SET of points: order and multiplicity are irrelevant *)
Theorem hv_set_ext ref pts1 pts2 :
  (forall p, In p pts1 <-> In p pts2) -> hv ref pts1 == hv ref pts2.
Proof. intro H. apply hv_cover_ext. intros c _. apply existsb_same_set; auto. Qed.

Theorem hv_perm ref pts1 pts2 : Permutation pts1 pts2 -> hv ref pts1 == hv ref pts2.
Proof.
  intro P. apply hv_set_ext. intro p. split; apply Permutation_in; [auto|apply Permutation_sym; auto].
Qed.

Theorem hv_dup ref p pts : In p pts -> hv ref (p :: pts) == hv ref pts.
Proof.
  intro H. apply hv_set_ext. intro q. split; [intros [<-|Hq]; auto|intro Hq; right; auto].
Qed.

(* weak dominance in the first |ref| coordinates, with the conventions of hd0/tl *)
Fixpoint wdom (ref : list Q) (p q : point) : Prop :=
  match ref with
  | [] => True
  | _ :: ref' => hd0 p <= hd0 q /\ wdom ref' (tl p) (tl q)
  end.

Lemma Forall2_wdom ref : forall p q, Forall2 Qle p q -> wdom ref p q.
Proof.
  induction ref as [|r ref IH]; intros p q H; cbn; auto.
  destruct H as [|x y p q L H]; cbn.
  - split; [apply Qle_refl|apply IH; constructor].
  - split; auto.
Qed.

Lemma wdom_refl ref : forall p, wdom ref p p.
Proof. induction ref; intro p; cbn; auto. split; [apply Qle_refl|auto]. Qed.

Lemma wdom_trans ref : forall p q s, wdom ref p q -> wdom ref q s -> wdom ref p s.
Proof.
  induction ref as [|r ref IH]; intros p q s; cbn; auto.
  intros [A B] [C D]. split; [eapply Qle_trans; eauto|eapply IH; eauto].
Qed.

(* shape of the cells of a valid grid *)
Lemma pairs_from_spec : forall l b lo hi,
  Sorted Qlt (b :: l) -> In (lo, hi) (pairs_from b l) ->
  lo < hi /\ In lo (b :: l) /\ In hi (b :: l) /\ (forall x, QIn x (b :: l) -> x <= lo \/ hi <= x).
Proof.
  induction l as [|a l IH]; intros b lo hi S H; [inversion H|].
  assert (Lba : b < a) by (eapply sorted_lt_all; [exact S|left; reflexivity]).
  assert (S' : Sorted Qlt (a :: l)) by (inversion S; auto).
  cbn [pairs_from] in H. destruct H as [H|H].
  - inversion H; subst. split; auto. split; [left; auto|]. split; [right; left; auto|].
    intros x Hx. apply QIn_cons in Hx. destruct Hx as [Hx|Hx].
    + left. rewrite Hx. apply Qle_refl.
    + right. apply QIn_cons in Hx. destruct Hx as [Hx|Hx]; [rewrite Hx; apply Qle_refl|].
      apply Qlt_le_weak. eapply sorted_lt_all; eauto.
  - destruct (IH a lo hi S' H) as (L & I1 & I2 & Cn). split; auto. split; [right; auto|]. split; [right; auto|].
    intros x Hx. apply QIn_cons in Hx. destruct Hx as [Hx|Hx]; auto.
    left. rewrite Hx. apply Qlt_le_weak. destruct I1 as [<-|I1]; auto.
    eapply Qlt_trans; [exact Lba|]. eapply sorted_lt_all; [exact S'|apply QIn_In; auto].
Qed.

Lemma intervals_spec ax lo hi :
  Sorted Qlt ax -> In (lo, hi) (intervals ax) ->
  lo < hi /\ In lo ax /\ In hi ax /\ (forall x, QIn x ax -> x <= lo \/ hi <= x).
Proof. destruct ax as [|b l]; [intros _ []|apply pairs_from_spec]. Qed.

(* every cell of a valid grid is a box [lo, hi) with lo < hi <= ref, both ends on the axis *)
Fixpoint cell_ok (ref : list Q) (axes : list (list Q)) (c : cell) : Prop :=
  match ref, axes, c with
  | [], [], [] => True
  | r :: ref', ax :: axes', iv :: c' =>
      (fst iv < snd iv /\ snd iv <= r /\ (forall x, QIn x ax -> x <= fst iv \/ snd iv <= x)) /\
      cell_ok ref' axes' c'
  | _, _, _ => False
  end.

Lemma cells_ok ref : forall pts axes c,
  valid_grid ref pts axes -> In c (cells axes) -> cell_ok ref axes c.
Proof.
  induction ref as [|r ref IH]; intros pts axes c V H; inversion V as [|? ? ? ax axes' Va Vg]; subst.
  - cbn in H. destruct H as [<-|[]]. exact I.
  - cbn [cells] in H. apply in_flat_map in H. destruct H as (iv & Hiv & Hc).
    apply in_map_iff in Hc. destruct Hc as (c' & <- & Hc'). destruct iv as [lo hi].
    destruct Va as (S & R & U & C).
    destruct (intervals_spec ax lo hi S Hiv) as (L & I1 & I2 & Cn).
    cbn. split; [|eapply IH; eauto]. split; auto. split; auto. apply U. apply QIn_In; auto.
Qed.

Lemma corner_dominated_wdom ref : forall axes c p q,
  cell_ok ref axes c -> wdom ref p q -> corner_dominated q c = true -> corner_dominated p c = true.
Proof.
  induction ref as [|r ref IH]; intros axes c p q Hc W D; destruct axes, c; cbn in Hc; try tauto.
  cbn in *. apply andb_true_iff in D. destruct D as [D1 D2]. destruct W as [W1 W2]. destruct Hc as [_ Hc].
  apply andb_true_iff. split.
  - apply Qle_bool_iff. apply Qle_bool_iff in D1. eapply Qle_trans; eauto.
  - eapply IH; eauto.
Qed.

(* adding a (weakly) dominated point changes nothing *)
Theorem hv_dominated ref p q pts :
  In p pts -> wdom ref p q -> hv ref (q :: pts) == hv ref pts.
Proof.
  intros Hp W. apply hv_cover_ext. intros c Hc.
  unfold covered. cbn [existsb]. destruct (corner_dominated q c) eqn:D; auto. cbn [orb].
  symmetry. apply existsb_exists. exists p. split; auto.
  destruct (common_grid ref (q :: pts) pts) as [V _].
  eapply corner_dominated_wdom; [eapply cells_ok; eauto|exact W|exact D].
Qed.

(* a point with some coordinate on or beyond the reference has an empty box *)
Fixpoint outside (ref : list Q) (q : point) : Prop :=
  match ref with
  | [] => False
  | r :: ref' => r <= hd0 q \/ outside ref' (tl q)
  end.

Lemma corner_dominated_outside ref : forall axes c q,
  cell_ok ref axes c -> outside ref q -> corner_dominated q c = false.
Proof.
  induction ref as [|r ref IH]; intros axes c q Hc O; destruct axes, c; cbn in Hc; try tauto; cbn in O; [tauto|].
  cbn. destruct Hc as [(L & U & _) Hc]. destruct O as [O|O].
  - destruct (Qle_bool (hd0 q) (fst p)) eqn:E; auto. apply Qle_bool_iff in E. exfalso.
    apply (Qlt_irrefl (fst p)). eapply Qlt_le_trans; [exact L|]. eapply Qle_trans; [exact U|].
    eapply Qle_trans; eauto.
  - rewrite (IH _ _ _ Hc O). apply andb_false_r.
Qed.

Theorem hv_boundary ref q pts : outside ref q -> hv ref (q :: pts) == hv ref pts.
Proof.
  intro O. apply hv_cover_ext. intros c Hc. unfold covered. cbn [existsb].
  destruct (common_grid ref (q :: pts) pts) as [V _].
  rewrite (corner_dominated_outside ref (induced_axes ref ((q :: pts) ++ pts)) c q); auto.
  eapply cells_ok; eauto.
Qed.

(* monotone and non-negative *)
Lemma cell_vol_nonneg ref : forall axes c, cell_ok ref axes c -> 0 <= cell_vol c.
Proof.
  induction ref as [|r ref IH]; intros axes c Hc; destruct axes, c; cbn in Hc; try tauto.
  - cbn. discriminate.
  - cbn [cell_vol fold_right]. destruct Hc as [(L & _) Hc]. apply Qmult_le_0_compat.
    + apply Qlt_le_weak. unfold Qminus. rewrite <- Qlt_minus_iff. auto.
    + eapply IH; eauto.
Qed.

Theorem hv_mono ref pts1 pts2 : (forall p, In p pts1 -> In p pts2) -> hv ref pts1 <= hv ref pts2.
Proof.
  intro H.
  assert (V2 : valid_grid ref pts2 (induced_axes ref pts2)) by apply induced_axes_valid.
  assert (V1 : valid_grid ref pts1 (induced_axes ref pts2)) by (eapply valid_grid_mono; eauto).
  rewrite (hv_gmeasure _ _ _ V1), (hv_gmeasure _ _ _ V2). unfold gmeasure.
  apply Qsum_map_le. intros c Hc.
  assert (0 <= cell_vol c) by (eapply cell_vol_nonneg; eapply cells_ok; eauto).
  destruct (covered pts1 c) eqn:C1.
  - assert (covered pts2 c = true) as ->; [|apply Qle_refl].
    apply existsb_exists in C1. destruct C1 as (p & Hp & D). apply existsb_exists. exists p. auto.
  - destruct (covered pts2 c); auto. apply Qle_refl.
Qed.

Theorem hv_nonneg ref pts : 0 <= hv ref pts.
Proof. rewrite <- (hv_nil ref). apply hv_mono. intros p []. Qed.

(* ------------------------------------------------------------------ *)
(* argmax (first maximum) and the least contributor                      *)
(* ------------------------------------------------------------------ *)
Lemma argmax_from_spec : forall l pre best bi,
  (bi < length pre)%nat -> nth bi pre 0 = best ->
  (forall j, (j < length pre)%nat -> nth j pre 0 <= best) ->
  (forall j, (j < bi)%nat -> nth j pre 0 < best) ->
  let L := pre ++ l in
  let k := argmax_from best bi (length pre) l in
  (k < length L)%nat /\
  (forall j, (j < length L)%nat -> nth j L 0 <= nth k L 0) /\
  (forall j, (j < k)%nat -> nth j L 0 < nth k L 0).
Proof.
  induction l as [|x l IH]; intros pre best bi Hbi Hb Hle Hlt; cbn [argmax_from].
  - cbn zeta. rewrite app_nil_r. rewrite Hb. repeat split; auto.
  - assert (E : pre ++ x :: l = (pre ++ [x]) ++ l) by (rewrite <- app_assoc; reflexivity).
    assert (Len : length (pre ++ [x]) = S (length pre)) by (rewrite app_length; cbn; lia).
    cbn zeta. rewrite E. destruct (Qltb best x) eqn:C.
    + apply Qltb_iff in C. rewrite <- Len.
      apply (IH (pre ++ [x]) x (length pre)).
      * lia.
      * rewrite app_nth2 by lia. rewrite Nat.sub_diag. reflexivity.
      * intros j Hj. rewrite Len in Hj. destruct (Nat.eq_dec j (length pre)) as [->|N].
        -- rewrite app_nth2 by lia. rewrite Nat.sub_diag. apply Qle_refl.
        -- rewrite app_nth1 by lia. apply Qlt_le_weak. eapply Qle_lt_trans; [apply Hle; lia|auto].
      * intros j Hj. rewrite app_nth1 by lia. eapply Qle_lt_trans; [apply Hle; lia|auto].
    + apply Qltb_false_iff in C. rewrite <- Len.
      apply (IH (pre ++ [x]) best bi).
      * lia.
      * rewrite app_nth1 by lia. auto.
      * intros j Hj. rewrite Len in Hj. destruct (Nat.eq_dec j (length pre)) as [->|N].
        -- rewrite app_nth2 by lia. rewrite Nat.sub_diag. exact C.
        -- rewrite app_nth1 by lia. apply Hle. lia.
      * intros j Hj. rewrite app_nth1 by lia. apply Hlt; auto.
Qed.

Lemma argmax_spec l : l <> [] ->
  let k := argmax l in
  (k < length l)%nat /\
  (forall j, (j < length l)%nat -> nth j l 0 <= nth k l 0) /\
  (forall j, (j < k)%nat -> nth j l 0 < nth k l 0).
Proof.
  destruct l as [|x l]; [congruence|]. intros _. cbn [argmax].
  apply (argmax_from_spec l [x] x 0%nat); cbn; auto.
  - intros j Hj. assert (j = 0%nat) as -> by lia. apply Qle_refl.
  - intros j Hj. lia.
Qed.

Lemma loo_length ref pts : length (loo ref pts) = length pts.
Proof. unfold loo. rewrite map_length, seq_length. reflexivity. Qed.

Lemma loo_nth ref pts j : (j < length pts)%nat -> nth j (loo ref pts) 0 = hv ref (remove_nth j pts).
Proof.
  intro H. unfold loo.
  rewrite (nth_indep _ 0 (hv ref (remove_nth 0%nat pts))) by (rewrite map_length, seq_length; auto).
  rewrite (map_nth (fun i => hv ref (remove_nth i pts)) (seq 0 (length pts)) 0%nat j).
  rewrite seq_nth by auto. reflexivity.
Qed.

Lemma remove_nth_incl {A} : forall i (l : list A) x, In x (remove_nth i l) -> In x l.
Proof.
  intros i l. revert i. induction l as [|a l IH]; intros i x H; [destruct i; inversion H|].
  destruct i; cbn in H; [right; auto|]. destruct H as [H|H]; [left; auto|right; eapply IH; eauto].
Qed.

(* tools.indicator.hypervolume: the returned index minimises the loss hv(P) - hv(P \ {i});
   it is the first such index; every loss is >= 0 *)
Theorem least_contributor_spec ref pts : pts <> [] ->
  let i := least_contributor ref pts in
  let loss j := hv ref pts - hv ref (remove_nth j pts) in
  (i < length pts)%nat /\
  (forall j, (j < length pts)%nat -> loss i <= loss j) /\
  (forall j, (j < i)%nat -> loss i < loss j) /\
  (forall j, 0 <= loss j).
Proof.
  intro Hne. cbn zeta. unfold least_contributor.
  assert (Hl : loo ref pts <> []).
  { intro E. apply (f_equal (@length Q)) in E. rewrite loo_length in E. destruct pts; [congruence|discriminate]. }
  destruct (argmax_spec (loo ref pts) Hl) as (K & M & Fst). rewrite loo_length in *.
  set (k := argmax (loo ref pts)) in *.
  split; auto. split; [|split].
  - intros j Hj. specialize (M j Hj). rewrite !loo_nth in M by auto.
    unfold Qminus. apply Qplus_le_r. apply Qopp_le_compat. auto.
  - intros j Hj. specialize (Fst j Hj). rewrite !loo_nth in Fst by lia.
    unfold Qminus. apply Qplus_lt_r. apply Qopp_lt_compat. auto.
  - intro j. unfold Qminus. rewrite <- Qle_minus_iff. apply hv_mono. apply remove_nth_incl.
Qed.

(* ------------------------------------------------------------------ *)
(* populations                                                          *)
(* ------------------------------------------------------------------ *)
Lemma wobj_spec w vals :
  wobj w vals = map (fun v => map Qopp (map2 Qmult v w)) vals.
Proof.
  unfold wobj. apply map_ext. intro v. revert w. induction v as [|x v IH]; intros [|wi w]; cbn; auto.
  rewrite IH. reflexivity.
Qed.

Lemma map2_Qmax_length : forall a b, length a = length b -> length (map2 Qmax a b) = length a.
Proof. induction a; intros [|y b] H; cbn in *; auto; try discriminate. Qed.

Lemma Qmax_ub_l a b : a <= Qmax a b.
Proof.
  unfold Qmax. destruct (Qle_bool a b) eqn:E; [apply Qle_bool_iff; auto|apply Qle_refl].
Qed.
Lemma Qmax_ub_r a b : b <= Qmax a b.
Proof.
  unfold Qmax. destruct (Qle_bool a b) eqn:E; [apply Qle_refl|].
  apply Qlt_le_weak. apply Qnot_le_lt. intro H. apply Qle_bool_iff in H. congruence.
Qed.

Lemma map2_Qmax_ub : forall a b, length a = length b ->
  Forall2 Qle a (map2 Qmax a b) /\ Forall2 Qle b (map2 Qmax a b).
Proof.
  induction a as [|x a IH]; intros [|y b] H; cbn in *; try discriminate; [split; constructor|].
  destruct (IH b) as [A B]; [congruence|]. split; constructor; auto using Qmax_ub_l, Qmax_ub_r.
Qed.

Lemma Forall2_Qle_trans : forall a b c, Forall2 Qle a b -> Forall2 Qle b c -> Forall2 Qle a c.
Proof.
  intros a b c H. revert c. induction H; intros c H'; inversion H'; subst; constructor.
  - eapply Qle_trans; eauto.
  - auto.
Qed.

Lemma Forall2_Qle_refl a : Forall2 Qle a a.
Proof. induction a; constructor; auto. apply Qle_refl. Qed.

Lemma fold_Qmax_ub d : forall rest acc,
  length acc = d -> Forall (fun p => length p = d) rest ->
  length (fold_left (map2 Qmax) rest acc) = d /\
  Forall2 Qle acc (fold_left (map2 Qmax) rest acc) /\
  Forall (fun p => Forall2 Qle p (fold_left (map2 Qmax) rest acc)) rest.
Proof.
  induction rest as [|p rest IH]; intros acc Ha Hr; cbn [fold_left].
  - repeat split; auto. apply Forall2_Qle_refl.
  - inversion Hr as [|? ? Hp Hr']; subst.
    assert (Hl : length (map2 Qmax acc p) = length acc) by (apply map2_Qmax_length; congruence).
    destruct (map2_Qmax_ub acc p) as [A B]; [congruence|].
    destruct (IH (map2 Qmax acc p) Hl Hr') as (L & U & R).
    repeat split; auto.
    + eapply Forall2_Qle_trans; eauto.
    + constructor; auto. eapply Forall2_Qle_trans; eauto.
Qed.

(* numpy.max(wobj, axis=0) is an upper bound of every point, so with the default reference
   (worst + 1) every point strictly dominates the reference *)
Lemma colmax_ub d pts :
  pts <> [] -> Forall (fun p => length p = d) pts ->
  length (colmax pts) = d /\ Forall (fun p => Forall2 Qle p (colmax pts)) pts.
Proof.
  destruct pts as [|p rest]; [congruence|]. intros _ H. inversion H; subst. cbn [colmax].
  destruct (fold_Qmax_ub (length p) rest p) as (L & U & R); auto.
Qed.

Lemma default_ref_strict d pts :
  pts <> [] -> Forall (fun p => length p = d) pts ->
  length (default_ref pts) = d /\ Forall (fun p => Forall2 Qlt p (default_ref pts)) pts.
Proof.
  intros Hne H. destruct (colmax_ub d pts Hne H) as [L U]. unfold default_ref. split.
  - rewrite map_length. auto.
  - eapply Forall_impl; [|exact U]. intros p Hp. clear - Hp.
    induction Hp; cbn; constructor; auto.
    eapply Qle_lt_trans; [eauto|]. rewrite <- (Qplus_0_r y) at 1. apply Qplus_lt_r. reflexivity.
Qed.

Theorem pop_hv_is_measure w vals refo :
  let P := map (fun v => map Qopp (map2 Qmult v w)) vals in
  pop_hv w vals refo == grid_measure (the_ref refo P) P.
Proof. cbn zeta. unfold pop_hv. rewrite wobj_spec. apply hv_is_measure. Qed.

Lemma wobj_length w vals : length (wobj w vals) = length vals.
Proof. unfold wobj. apply map_length. Qed.

Theorem indicator_least_loss w vals refo : vals <> [] ->
  let P := wobj w vals in
  let r := the_ref refo P in
  let i := indicator w vals refo in
  let loss j := hv r P - hv r (remove_nth j P) in
  (i < length vals)%nat /\
  (forall j, (j < length vals)%nat -> loss i <= loss j) /\
  (forall j, (j < i)%nat -> loss i < loss j) /\
  (forall j, 0 <= loss j).
Proof.
  intro Hne. cbn zeta. unfold indicator.
  assert (HP : wobj w vals <> []) by (destruct vals; [congruence|discriminate]).
  pose proof (least_contributor_spec (the_ref refo (wobj w vals)) (wobj w vals) HP) as H.
  cbn zeta in H. rewrite wobj_length in H. exact H.
Qed.

(* ------------------------------------------------------------------ *)
(* geometric meaning of the cells                                       *)
(* ------------------------------------------------------------------ *)
(* x lies in the half-open box c *)
Fixpoint in_cell (x : point) (c : cell) : Prop :=
  match c with
  | [] => True
  | iv :: c' => fst iv <= hd0 x /\ hd0 x < snd iv /\ in_cell (tl x) c'
  end.

Theorem cell_homogeneous ref : forall pts axes c x,
  valid_grid ref pts axes -> In c (cells axes) -> in_cell x c ->
  (covered pts c = true <-> exists p, In p pts /\ wdom ref p x).
Proof.
  induction ref as [|r ref IH]; intros pts axes c x V Hc Hx; inversion V as [|? ? ? ax axes' Va Vg]; subst.
  - cbn in Hc. destruct Hc as [<-|[]]. unfold covered. rewrite existsb_exists. cbn.
    split; intros (p & Hp & _); exists p; auto.
  - cbn [cells] in Hc. apply in_flat_map in Hc. destruct Hc as (iv & Hiv & Hc).
    apply in_map_iff in Hc. destruct Hc as (c' & <- & Hc'). destruct iv as [lo hi].
    cbn in Hx. destruct Hx as (X1 & X2 & X3).
    destruct Va as (S & R & U & C).
    destruct (intervals_spec ax lo hi S Hiv) as (L & I1 & I2 & Cn).
    rewrite covered_cons. cbn [fst].
    assert (Vs : valid_grid ref (slice lo pts) axes').
    { eapply valid_grid_mono; [|exact Vg]. intros q Hq. eapply slice_incl; eauto. }
    rewrite (IH (slice lo pts) axes' c' (tl x) Vs Hc' X3). split.
    + intros (q & Hq & W). apply in_slice in Hq. destruct Hq as (p & Hp & Lp & ->).
      exists p. split; auto. cbn. split; auto. eapply Qle_trans; eauto.
    + intros (p & Hp & W). cbn in W. destruct W as [W1 W2]. exists (tl p). split; auto.
      apply in_slice. exists p. split; auto. split; auto.
      assert (Lhi : hd0 p < hi) by (eapply Qle_lt_trans; eauto).
      assert (Lr : hd0 p < r) by (eapply Qlt_le_trans; [exact Lhi|apply U; apply QIn_In; auto]).
      destruct (Cn (hd0 p) (C p Hp Lr)) as [G|G]; auto.
      exfalso. apply (Qlt_irrefl hi). eapply Qle_lt_trans; eauto.
Qed.

(* ------------------------------------------------------------------ *)
(* closed forms                                                         *)
(* ------------------------------------------------------------------ *)
Fixpoint strictly_below (ref : list Q) (p : point) : Prop :=
  match ref with
  | [] => True
  | r :: ref' => hd0 p < r /\ strictly_below ref' (tl p)
  end.

Fixpoint box_vol (ref : list Q) (p : point) : Q :=
  match ref with
  | [] => 1
  | r :: ref' => (r - hd0 p) * box_vol ref' (tl p)
  end.

Lemma slice_self p : slice (hd0 p) [p] = [tl p].
Proof.
  unfold slice. cbn [filter].
  assert (Qle_bool (hd0 p) (hd0 p) = true) as -> by (apply Qle_bool_iff; apply Qle_refl). reflexivity.
Qed.

Lemma axis0_single r p : hd0 p < r -> axis0 r [p] = [hd0 p; r].
Proof.
  intro L. unfold axis0, breaks. cbn [map filter].
  assert (Qltb (hd0 p) r = true) as -> by (apply Qltb_iff; auto). reflexivity.
Qed.

Theorem hv_single ref : forall p, strictly_below ref p -> hv ref [p] == box_vol ref p.
Proof.
  induction ref as [|r ref IH]; intros p H; [reflexivity|].
  destruct H as [L H]. rewrite hv_cons, (axis0_single r p L).
  rewrite integrate_cons, stp_cons, stp_nil, slice_self, (IH (tl p) H). cbn [box_vol]. ring.
Qed.

Lemma hv_dominated_all ref p pts :
  In p pts -> (forall q, In q pts -> wdom ref p q) -> hv ref pts == hv ref [p].
Proof.
  intros Hp W. apply hv_cover_ext. intros c Hc.
  destruct (common_grid ref pts [p]) as [V _].
  unfold covered. cbn [existsb]. rewrite orb_false_r.
  destruct (corner_dominated p c) eqn:D.
  - apply existsb_exists. exists p. auto.
  - destruct (existsb (fun p0 => corner_dominated p0 c) pts) eqn:E; auto.
    apply existsb_exists in E. destruct E as (q & Hq & Dq).
    rewrite (corner_dominated_wdom ref _ c p q (cells_ok _ _ _ _ V Hc) (W q Hq) Dq) in D. discriminate.
Qed.

Theorem hv_1d r p pts :
  In p pts -> hd0 p < r -> (forall q, In q pts -> hd0 p <= hd0 q) -> hv [r] pts == r - hd0 p.
Proof.
  intros Hp L M. rewrite (hv_dominated_all [r] p pts Hp).
  - rewrite hv_single; [cbn; ring|cbn; auto].
  - intros q Hq. cbn. auto.
Qed.

Lemma hv_1d_none r pts : (forall q, In q pts -> r <= hd0 q) -> hv [r] pts == 0.
Proof.
  induction pts as [|q pts IH]; intro H; [apply hv_nil|].
  rewrite hv_boundary; [apply IH; intros; apply H; right; auto|]. cbn. left. apply H. left. auto.
Qed.

(* two dimensions: a staircase (x increasing, y decreasing, below the reference) *)
Fixpoint stair_area (rx ry : Q) (l : list (Q * Q)) : Q :=
  match l with
  | [] => 0
  | xy :: l' => (match l' with [] => rx | xy' :: _ => fst xy' end - fst xy) * (ry - snd xy)
                + stair_area rx ry l'
  end.

Fixpoint staircase (rx ry : Q) (l : list (Q * Q)) : Prop :=
  match l with
  | [] => True
  | xy :: l' => fst xy < rx /\ snd xy < ry /\
                match l' with [] => True | xy' :: _ => fst xy < fst xy' /\ snd xy' < snd xy end /\
                staircase rx ry l'
  end.

Definition pt2 (xy : Q * Q) : point := [fst xy; snd xy].

Lemma stair_sorted rx ry l : staircase rx ry l -> Sorted Qlt (map fst l ++ [rx]).
Proof.
  induction l as [|xy l IH]; intro H; [repeat constructor|].
  destruct H as (Lx & Ly & Hn & H). cbn [map app]. constructor; [apply IH; auto|].
  destruct l as [|xy' l]; cbn; constructor; tauto.
Qed.

Lemma stair_valid_axis rx ry l :
  staircase rx ry l -> valid_axis rx (map pt2 l) (map fst l ++ [rx]).
Proof.
  intro H. split; [eapply stair_sorted; eauto|]. split; [apply QIn_app; right; left; reflexivity|]. split.
  - intros x Hx. apply QIn_app in Hx. destruct Hx as [Hx|Hx].
    + apply InA_alt in Hx. destruct Hx as (y & E & Hy). rewrite E. clear E.
      apply in_map_iff in Hy. destruct Hy as (xy & <- & Hxy).
      induction l as [|a l IH]; [inversion Hxy|]. destruct H as (Lx & _ & _ & H).
      destruct Hxy as [<-|Hxy]; [apply Qlt_le_weak; auto|apply IH; auto].
    + apply QIn_sing in Hx. rewrite Hx. apply Qle_refl.
  - intros p Hp _. apply in_map_iff in Hp. destruct Hp as (xy & <- & Hxy).
    apply QIn_app. left. apply QIn_In. cbn. apply in_map. auto.
Qed.

Lemma pairs_from_fst_in : forall l b iv, In iv (pairs_from b l) -> In (fst iv) (b :: l).
Proof.
  induction l as [|a l IH]; intros b iv H; [inversion H|].
  cbn in H. destruct H as [<-|H]; [left; auto|right; apply IH; auto].
Qed.

Lemma integrate_ext_in F G l : (forall z, In z l -> F z == G z) -> integrate F l == integrate G l.
Proof.
  intro H. unfold integrate. apply Qsum_map_ext. intros iv Hiv. rewrite H; [reflexivity|].
  destruct l as [|b l]; [inversion Hiv|]. apply pairs_from_fst_in; auto.
Qed.

Lemma hv2_explicit rx ry l : staircase rx ry l ->
  hv [rx; ry] (map pt2 l) == integrate (fun z => hv [ry] (slice z (map pt2 l))) (map fst l ++ [rx]).
Proof.
  intro H. rewrite hv_cons. symmetry. apply integrate_axis. eapply stair_valid_axis; eauto.
Qed.

Theorem hv_2d_staircase rx ry l :
  staircase rx ry l -> hv [rx; ry] (map (fun xy => [fst xy; snd xy]) l) == stair_area rx ry l.
Proof.
  change (fun xy : Q * Q => [fst xy; snd xy]) with pt2.
  induction l as [|xy l IH]; intro H; [rewrite hv_cons; reflexivity|].
  pose proof (stair_sorted _ _ _ H) as S.
  rewrite (hv2_explicit rx ry _ H).
  destruct H as (Lx & Ly & Hn & H). specialize (IH H). rewrite (hv2_explicit rx ry l H) in IH.
  cbn [map app] in *. cbn [stair_area].
  assert (Hgt : forall z, QIn z (map fst l ++ [rx]) -> fst xy < z) by (intros; eapply sorted_lt_all; eauto).
  (* value on the first strip *)
  assert (F0 : hv [ry] (slice (fst xy) (pt2 xy :: map pt2 l)) == ry - snd xy).
  { change (pt2 xy :: map pt2 l) with ([pt2 xy] ++ map pt2 l). rewrite slice_app.
    rewrite (slice_none (fst xy) (map pt2 l)).
    - change (fst xy) with (hd0 (pt2 xy)) at 1. rewrite slice_self, app_nil_r. cbn [pt2 tl].
      rewrite hv_single; [cbn; ring|cbn; auto].
    - intros p Hp. apply in_map_iff in Hp. destruct Hp as (xy' & <- & Hxy'). cbn.
      apply Hgt. apply QIn_app. left. apply QIn_In. apply in_map. auto. }
  destruct l as [|xy' l'].
  - cbn [map app]. rewrite integrate_cons, stp_cons, stp_nil. cbn [stair_area].
    rewrite F0. ring.
  - cbn [map app] in *. rewrite integrate_cons, stp_cons, <- integrate_cons.
    rewrite F0, <- IH. apply Qplus_comp; [reflexivity|].
    apply integrate_ext_in. intros z Hz.
    destruct Hn as [Nx Ny].
    assert (Lz : fst xy' <= z).
    { destruct Hz as [<-|Hz]; [apply Qle_refl|]. apply Qlt_le_weak.
      inversion S as [|? ? S' _]; subst. eapply sorted_lt_all; [exact S'|apply QIn_In; auto]. }
    assert (Lxz : fst xy <= z) by (apply Qlt_le_weak; eapply Qlt_le_trans; eauto).
    change (pt2 xy :: pt2 xy' :: map pt2 l') with ([pt2 xy] ++ (pt2 xy' :: map pt2 l')).
    rewrite slice_app.
    assert (slice z [pt2 xy] = [[snd xy]]) as ->.
    { unfold slice. cbn [filter pt2 hd0].
      assert (Qle_bool (fst xy) z = true) as -> by (apply Qle_bool_iff; auto). reflexivity. }
    cbn [app]. apply (hv_dominated [ry] [snd xy'] [snd xy]).
    + apply in_slice. exists (pt2 xy'). split; [left; auto|]. split; auto.
    + cbn. split; auto. apply Qlt_le_weak; auto.
Qed.

Lemma C15_nonvacuous_stair : staircase 4 4 [(0,3);(1,2);(3,0)].
Proof. cbn. repeat split; reflexivity. Qed.

Lemma valid_axis_check r pts bs :
  Sorted Qlt bs ->
  existsb (Qeq_bool r) bs = true ->
  forallb (fun x => Qle_bool x r) bs = true ->
  forallb (fun p => negb (Qltb (hd0 p) r) || existsb (Qeq_bool (hd0 p)) bs) pts = true ->
  valid_axis r pts bs.
Proof.
  intros S R U C. split; auto. split; [|split].
  - apply existsb_exists in R. destruct R as (x & Hx & E). apply Qeq_bool_iff in E.
    apply InA_alt. exists x. auto.
  - intros x Hx. apply InA_alt in Hx. destruct Hx as (y & E & Hy). rewrite E.
    rewrite forallb_forall in U. apply Qle_bool_iff. apply U; auto.
  - intros p Hp L. rewrite forallb_forall in C. specialize (C p Hp).
    apply Qltb_iff in L. rewrite L in C. cbn in C.
    apply existsb_exists in C. destruct C as (x & Hx & E). apply Qeq_bool_iff in E.
    apply InA_alt. exists x. auto.
Qed.

Lemma C15_nonvacuous_grid :
  valid_grid [1;3;3;3] [[0;1;0;1];[0;0;2;1];[0;1;0;0]] [[0;1];[0;1;3];[0;2;3];[0;1;3]].
Proof.
  assert (Q01 : 0 < 1) by reflexivity. assert (Q13 : 1 < 3) by reflexivity.
  assert (Q02 : 0 < 2) by reflexivity. assert (Q23 : 2 < 3) by reflexivity.
  apply vg_cons; [apply valid_axis_check; [repeat constructor; auto|reflexivity..]|cbn [map tl]].
  apply vg_cons; [apply valid_axis_check; [repeat constructor; auto|reflexivity..]|cbn [map tl]].
  apply vg_cons; [apply valid_axis_check; [repeat constructor; auto|reflexivity..]|cbn [map tl]].
  apply vg_cons; [apply valid_axis_check; [repeat constructor; auto|reflexivity..]|cbn [map tl]].
  apply vg_nil.
Qed.
