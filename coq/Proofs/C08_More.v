(* Further results: size of the hall of fame (= min(m, number of distinct individuals shown)),
   histories with clear(), direct insert/remove keep the parallel lists mirrored, and the link
   between fit_dom and the C01 model's Fitness.dominates with the default slice. *)
From Coq Require Import List ZArith Bool Lia Sorted.
From DV Require Import Base.PyTuple Base.PyList Model.C01_Fitness Model.C08_Archive
  Proofs.C08_Lists Proofs.C08_Refine Proofs.C08_Hof Proofs.C08_Pf.
Import ListNotations.
Local Open Scope Z_scope.

(* ---------- link to the C01 model ---------- *)
Lemma flat_nth_seq {A} (l : list A) : forall k,
  flat_map (fun i => match nth_error l (Z.to_nat i) with Some x => [x] | None => [] end)
           (map (fun i => 0 + Z.of_nat i * 1) (seq k (length l - k))) = skipn k l.
Proof.
  intro k. remember (length l - k)%nat as d eqn:Ed. revert k Ed.
  induction d as [|d IH]; intros k Ed; cbn [seq map flat_map].
  - symmetry. apply skipn_all2. lia.
  - replace (Z.to_nat (0 + Z.of_nat k * 1)) with k by lia.
    destruct (nth_error l k) as [x|] eqn:E.
    + rewrite IH by lia. cbn [app].
      clear - E. revert k E. induction l as [|y l IHl]; intros k E; [destruct k; discriminate|].
      destruct k; cbn in *; [now inversion E|]. now apply IHl.
    + apply nth_error_None in E. lia.
Qed.

Lemma py_slice_all {A} (l : list A) : py_slice l None None 1 = l.
Proof.
  unfold py_slice, slice_idx, slice_adjust. cbn [Z.ltb Z.compare].
  change (1 <? 0) with false. cbv iota. unfold py_range3, range_count.
  change (0 <? 1) with true. cbv iota.
  assert (E : Z.to_nat (if 0 <? zlen l then (zlen l - 0 - 1) / 1 + 1 else 0) = (length l - 0)%nat).
  { unfold zlen. destruct (Z.ltb_spec 0 (Z.of_nat (length l))); [rewrite Z.div_1_r|]; lia. }
  rewrite E. apply (flat_nth_seq l 0%nat).
Qed.

(* Fitness.dominates(other) of the C01 model with obj = slice(None) is fit_dom on the wvalues *)
Theorem dominates_default_slice a b :
  C01_Fitness.dominates a b slice_all = fit_dom (C01_Fitness.wv a) (C01_Fitness.wv b).
Proof. unfold C01_Fitness.dominates, apply_slice, slice_all, fit_dom. cbn [sl_start sl_stop sl_step]. now rewrite !py_slice_all. Qed.

Section More.
  Variable ind : Type.
  Variable fitness : ind -> list Z.
  Variable similar : ind -> ind -> bool.

  Notation desc := (desc ind fitness).
  Notation mirror := (mirror ind fitness).
  Notation hstep := (hstep ind fitness similar).
  Notation pstep := (pstep ind fitness similar).
  Notation nosim := (nosim ind similar).

  (* ---------- direct use of insert / remove / clear mixed with updates ---------- *)
  Definition good (h : hof ind) : Prop := keys h = rev (map fitness (items h)) /\ desc (items h).

  Lemma good_mirror h : good h -> h = mirror (items h).
  Proof. intros [K _]. destruct h as [ks its]. cbn in *. now subst. Qed.

  Lemma py_del_some {A} (l : list A) i r : py_del l i = Some r ->
    exists k, (k < length l)%nat /\ (i = Z.of_nat k \/ i = Z.of_nat k - zlen l).
  Proof.
    unfold py_del. cbv zeta. pose proof (zlen_nonneg l) as Hn. unfold zlen in *.
    destruct (Z.ltb_spec i 0) as [Hi|Hi].
    - destruct ((i + Z.of_nat (length l) <? 0) || (Z.of_nat (length l) <=? i + Z.of_nat (length l))) eqn:E; [discriminate|].
      intros _. apply orb_false_iff in E. destruct E as [E1 E2]. apply Z.ltb_ge in E1. apply Z.leb_gt in E2.
      exists (Z.to_nat (i + Z.of_nat (length l))). split; [lia|right; lia].
    - destruct ((i <? 0) || (Z.of_nat (length l) <=? i)) eqn:E; [discriminate|].
      intros _. apply orb_false_iff in E. destruct E as [E1 E2]. apply Z.leb_gt in E2.
      exists (Z.to_nat i). split; [lia|left; lia].
  Qed.

  Lemma remove_good h i h' : good h -> remove ind h i = Some h' -> good h'.
  Proof.
    intros G R. rewrite (good_mirror h G) in R. destruct G as [_ D].
    assert (exists r, py_del (items h) i = Some r) as [r Hr].
    { unfold remove, hlen in R. cbn [keys items C08_Refine.mirror] in R.
      destruct (zlen (items h) =? 0); [discriminate|].
      destruct (py_del (rev (map fitness (items h))) _); [|discriminate].
      destruct (py_del (items h) i); [eauto|discriminate]. }
    destruct (py_del_some _ _ _ Hr) as (k & Hk & Hi).
    rewrite (remove_refine ind fitness (items h) k i Hk Hi) in R. inversion R; subst.
    split; [reflexivity|]. cbn [items C08_Refine.mirror]. now apply desc_del_nth.
  Qed.

  (* an index outside [-len, len) raises (and so does any index on an empty archive) *)
  Lemma remove_out_of_range h i : i < - hlen h \/ hlen h <= i -> remove ind h i = None.
  Proof.
    intro H. unfold remove. destruct (hlen h =? 0); [reflexivity|].
    destruct (py_del (keys h) _); [|reflexivity].
    assert (py_del (items h) i = None) as ->; [|reflexivity].
    unfold py_del, hlen in *. pose proof (zlen_nonneg (items h)).
    destruct (Z.ltb_spec i 0).
    - destruct (Z.ltb_spec (i + zlen (items h)) 0); [reflexivity|lia].
    - destruct (Z.ltb_spec i 0); [lia|]. destruct (Z.leb_spec (zlen (items h)) i); [reflexivity|lia].
  Qed.

  Lemma apply_op_good kind h o h' :
    (match kind with Some m => 1 <= m | None => True end) ->
    good h -> apply_op ind fitness similar kind h o = Some h' -> good h'.
  Proof.
    intros Hk G A. destruct o as [p|x|i|]; cbn [apply_op] in A.
    - rewrite (good_mirror h G) in A. destruct G as [_ D]. destruct kind as [m|].
      + rewrite (hof_update_refine ind fitness similar m (items h) p Hk D) in A. inversion A; subst.
        split; [reflexivity|]. cbn [items C08_Refine.mirror]. now apply fold_hstep_desc.
      + destruct (pf_update_refine ind fitness similar p (items h) D) as [E D']. rewrite E in A.
        inversion A; subst. split; [reflexivity|exact D'].
    - rewrite (good_mirror h G) in A. destruct G as [_ D].
      rewrite (insert_refine ind fitness (items h) x D) in A. inversion A; subst.
      split; [reflexivity|]. cbn [items C08_Refine.mirror]. now apply ins_desc.
    - eapply remove_good; eassumption.
    - inversion A; subst. split; [reflexivity|constructor].
  Qed.

  (* any history of update / insert / remove / clear: every state reached without an exception
     has its keys mirrored and its items sorted *)
  Theorem api_good kind ops :
    (match kind with Some m => 1 <= m | None => True end) ->
    Forall (fun o => match o with Some h => good h | None => True end)
           (trace ind fitness similar kind empty ops).
  Proof.
    intro Hk. assert (G0 : good (@empty ind)) by (split; [reflexivity|constructor]).
    revert G0. generalize (@empty ind) as h. induction ops as [|o r IH]; intros h G; cbn [trace]; [constructor|].
    destruct (apply_op ind fitness similar kind h o) as [h'|] eqn:E.
    - pose proof (apply_op_good kind h o h' Hk G E) as G'. constructor; [exact G'|apply IH, G'].
    - constructor; [exact I|constructor].
  Qed.

  (* ---------- clear(): only what was shown after the last clear matters ---------- *)
  Inductive uop := UBatch (b : list ind) | UClear.
  Definition to_op (u : uop) : op ind := match u with UBatch b => OUpdate b | UClear => OClear end.

  Fixpoint after_last_clear (us : list uop) (acc : list (list ind)) : list (list ind) :=
    match us with
    | [] => acc
    | UBatch b :: r => after_last_clear r (acc ++ [b])
    | UClear :: r => after_last_clear r []
    end.

  Definition final (kind : option Z) (us : list uop) : option (hof ind) :=
    fold_left (fun o u => match o with None => None | Some h => apply_op ind fitness similar kind h (to_op u) end)
              us (Some empty).

  Lemma hof_run_snoc m bs b :
    hof_run ind fitness similar m (bs ++ [b]) =
    match hof_run ind fitness similar m bs with None => None | Some h => hof_update ind fitness similar m h b end.
  Proof. unfold hof_run. now rewrite fold_left_app. Qed.

  Lemma pf_run_snoc bs b :
    pf_run ind fitness similar (bs ++ [b]) =
    match pf_run ind fitness similar bs with None => None | Some h => pf_update ind fitness similar h b end.
  Proof. unfold pf_run. now rewrite fold_left_app. Qed.

  Theorem final_is_run kind us :
    (match kind with Some m => 1 <= m | None => True end) ->
    final kind us = match kind with
                    | Some m => hof_run ind fitness similar m (after_last_clear us [])
                    | None => pf_run ind fitness similar (after_last_clear us [])
                    end.
  Proof.
    intro Hk. unfold final.
    assert (G : forall us acc,
      fold_left (fun o u => match o with None => None | Some h => apply_op ind fitness similar kind h (to_op u) end) us
        (match kind with Some m => hof_run ind fitness similar m acc | None => pf_run ind fitness similar acc end) =
      match kind with Some m => hof_run ind fitness similar m (after_last_clear us acc)
                    | None => pf_run ind fitness similar (after_last_clear us acc) end).
    { clear us. induction us as [|u r IH]; intro acc; cbn [fold_left after_last_clear]; [reflexivity|].
      destruct u as [b|]; rewrite <- IH; f_equal; cbn [to_op apply_op].
      - destruct kind as [m|]; [rewrite hof_run_snoc|rewrite pf_run_snoc]; reflexivity.
      - destruct kind as [m|].
        + destruct (hof_run_refine ind fitness similar m acc Hk) as [E _]. rewrite E. reflexivity.
        + destruct (pf_run_refine ind fitness similar acc) as [E _]. rewrite E. reflexivity. }
    rewrite <- (G us []). destruct kind; reflexivity.
  Qed.

  (* ---------- size of the hall of fame ---------- *)
  Section Size.
    Hypothesis sim_sym : forall x y, similar x y = similar y x.
    Hypothesis sim_refl : forall x, similar x x = true.
    Hypothesis sim_trans : forall x y z, similar x y = true -> similar y z = true -> similar x z = true.

    (* pairwise non-similar individuals that all have a similar member need that many members *)
    Lemma pigeon : forall l its, nosim l ->
      (forall a, In a l -> exists h, In h its /\ similar a h = true) -> (length l <= length its)%nat.
    Proof.
      induction l as [|a l IH]; intros its N C; [cbn; lia|].
      destruct N as [Na Nl]. destruct (C a (or_introl eq_refl)) as (h & Hh & Sh).
      apply in_split in Hh. destruct Hh as (p & q & ->).
      assert (length l <= length (p ++ q))%nat.
      { apply IH; [assumption|]. intros b Hb. destruct (C b (or_intror Hb)) as (hb & Hhb & Shb).
        apply in_app_or in Hhb. destruct Hhb as [Hhb|[<-|Hhb]].
        - exists hb. split; [apply in_or_app; auto|assumption].
        - exfalso. assert (similar a b = true).
          { eapply sim_trans; [exact Sh|]. rewrite sim_sym. exact Shb. }
          rewrite Na in H by assumption. discriminate.
        - exists hb. split; [apply in_or_app; auto|assumption]. }
      rewrite app_length in *. cbn [length]. lia.
    Qed.

    (* the hall of fame is full as soon as m pairwise-distinct individuals were shown, and otherwise
       holds as many members as any pairwise-distinct sample of what was shown *)
    Theorem hof_size_thm m batches : 1 <= m ->
      sim_fit_on ind fitness similar (concat batches) ->
      exists h, hof_run ind fitness similar m batches = Some h /\
        forall l, nosim l -> incl l (concat batches) -> zlen l <= zlen (items h) \/ zlen (items h) = m.
    Proof.
      intros Hm SF. destruct (hof_run_refine ind fitness similar m batches Hm) as [E _].
      pose proof (HInv_run ind fitness similar sim_sym sim_refl m (concat batches) Hm SF) as H.
      eexists. split; [exact E|]. cbn [items C08_Refine.mirror]. intros l Nl Il.
      destruct (Z.eq_dec (zlen (fold_left (hstep m) (concat batches) [])) m) as [Em|Em]; [right; exact Em|left].
      unfold zlen. apply Nat2Z.inj_le. apply pigeon; [assumption|].
      intros a Ha. destruct (hi_best _ _ _ _ _ _ H a (Il a Ha)) as [L|[Lm _]]; [exact L|contradiction].
    Qed.
  End Size.

  (* ---------- continuing from a non-empty archive ---------- *)
  Lemma hof_run_from_refine m : 1 <= m -> forall bs its, desc its ->
    hof_run_from ind fitness similar m (mirror its) bs = Some (mirror (fold_left (hstep m) (concat bs) its)) /\
    desc (fold_left (hstep m) (concat bs) its).
  Proof.
    intro Hm. unfold hof_run_from.
    induction bs as [|b bs IH]; intros its D; cbn [fold_left concat]; [split; [reflexivity|assumption]|].
    rewrite hof_update_refine by assumption. rewrite fold_left_app.
    apply IH. now apply fold_hstep_desc.
  Qed.

  Lemma pf_run_from_refine : forall bs its, desc its ->
    pf_run_from ind fitness similar (mirror its) bs = Some (mirror (fold_left pstep (concat bs) its)) /\
    desc (fold_left pstep (concat bs) its).
  Proof.
    unfold pf_run_from.
    induction bs as [|b bs IH]; intros its D; cbn [fold_left concat]; [split; [reflexivity|assumption]|].
    destruct (pf_update_refine ind fitness similar b its D) as [E D']. rewrite E. rewrite fold_left_app. apply IH, D'.
  Qed.

  Section Continue.
    Hypothesis sim_sym : forall x y, similar x y = similar y x.
    Hypothesis sim_refl : forall x, similar x x = true.

    Lemma HInv_restart m S : desc S -> zlen S <= m -> nosim S -> HInv ind fitness similar m S S.
    Proof.
      intros D L N. constructor; try assumption.
      - intros y Hy. exact Hy.
      - intros s Hs. left. exists s. split; [assumption|apply sim_refl].
      - left. intros s Hs. exists s. split; [assumption|apply sim_refl].
    Qed.

    Lemma HInv_run_from m its seen xs : 1 <= m -> HInv ind fitness similar m its seen ->
      sim_fit_on ind fitness similar (seen ++ xs) ->
      HInv ind fitness similar m (fold_left (hstep m) xs its) (seen ++ xs).
    Proof.
      intros Hm H0. induction xs as [|x xs IH] using rev_ind; intro SF.
      - rewrite app_nil_r. exact H0.
      - rewrite fold_left_app. cbn [fold_left]. rewrite app_assoc.
        apply (HInv_step ind fitness similar sim_sym sim_refl); [assumption| |now rewrite <- app_assoc].
        apply IH. intros a b Ha Hb. apply SF; rewrite app_assoc; apply in_or_app; auto.
    Qed.

    Lemma PInv_restart S : mutual ind fitness S -> notwin ind fitness similar S -> desc S ->
      PInv ind fitness similar S S.
    Proof.
      intros M T D. constructor; try assumption.
      - intros s Hs. exists s. split; [assumption|]. right. split; [reflexivity|apply sim_refl].
      - intros y Hy. exact Hy.
    Qed.

    Lemma PInv_run_from n its seen xs : PInv ind fitness similar its seen ->
      all_len ind fitness n (seen ++ xs) ->
      PInv ind fitness similar (fold_left pstep xs its) (seen ++ xs).
    Proof.
      intros H0. induction xs as [|x xs IH] using rev_ind; intro L.
      - rewrite app_nil_r. exact H0.
      - rewrite fold_left_app. cbn [fold_left]. rewrite app_assoc.
        assert (L' : all_len ind fitness n (seen ++ xs)).
        { intros a Ha. apply L. rewrite app_assoc. apply in_or_app. auto. }
        pose proof (IH L') as H.
        rewrite (pstep_spec ind fitness similar n).
        + apply (PInv_step ind fitness similar sim_refl sim_sym n); [assumption|now rewrite <- app_assoc].
        + apply (pi_mutual _ _ _ _ _ H).
        + intros a Ha. apply L', (pi_incl _ _ _ _ _ H), Ha.
        + apply L. rewrite app_assoc. apply in_or_app. right. now left.
    Qed.

    (* an archive holding sorted, pairwise non-similar members S (at most m) and then shown more
       batches satisfies the whole invariant with  seen = S ++ everything shown afterwards *)
    Theorem hof_continue_thm m S batches : 1 <= m ->
      desc S -> zlen S <= m -> nosim S ->
      sim_fit_on ind fitness similar (S ++ concat batches) ->
      exists h, hof_run_from ind fitness similar m (mirror S) batches = Some h /\
        keys h = rev (map fitness (items h)) /\
        HInv ind fitness similar m (items h) (S ++ concat batches).
    Proof.
      intros Hm D L N SF. destruct (hof_run_from_refine m Hm batches S D) as [E _].
      eexists. split; [exact E|]. split; [reflexivity|]. cbn [items C08_Refine.mirror].
      apply HInv_run_from; [assumption|now apply HInv_restart|assumption].
    Qed.

    Theorem pf_continue_thm n S batches :
      mutual ind fitness S -> notwin ind fitness similar S -> desc S ->
      all_len ind fitness n (S ++ concat batches) ->
      exists h, pf_run_from ind fitness similar (mirror S) batches = Some h /\
        keys h = rev (map fitness (items h)) /\
        PInv ind fitness similar (items h) (S ++ concat batches).
    Proof.
      intros M T D L. destruct (pf_run_from_refine batches S D) as [E _].
      eexists. split; [exact E|]. split; [reflexivity|]. cbn [items C08_Refine.mirror].
      eapply PInv_run_from; [now apply PInv_restart|eassumption].
    Qed.
  End Continue.
End More.
