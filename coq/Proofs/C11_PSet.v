(* C11 — what `_add` establishes: a node listed at type t returns a subtype of t (soundness,
   = pset_ok, the hypothesis of the generator/operator theorems) and every node added so far that
   returns a subtype of a registered type t is listed at t (completeness). *)
From Coq Require Import List ZArith NArith Bool Lia.
From DV Require Import Model.C11_GPTree Model.C11_PSet Proofs.C11_Tree Proofs.C11_Gen Proofs.C11_Ops.
Import ListNotations.
Local Open Scope Z_scope.

Lemma node_eqb_eq a b : node_eqb a b = true -> a = b.
Proof.
  unfold node_eqb. intro H. repeat (apply andb_prop in H; destruct H as [H ?]).
  destruct a, b; cbn in *. apply N.eqb_eq in H. apply tys_eqb_eq in H3. apply N.eqb_eq in H2.
  apply Bool.eqb_prop in H1. apply Z.eqb_eq in H0. subst. reflexivity.
Qed.
Lemma node_eqb_refl a : node_eqb a a = true.
Proof.
  unfold node_eqb. rewrite !N.eqb_refl, Z.eqb_refl, Bool.eqb_reflx.
  assert (E : tys_eqb (nargs a) (nargs a) = true).
  { induction (nargs a); cbn; auto. rewrite N.eqb_refl. auto. }
  rewrite E. reflexivity.
Qed.

(* ---- add_new / the collecting fold ---- *)
Lemma add_new_in acc x p : In p (add_new acc x) <-> In p acc \/ p = x.
Proof.
  unfold add_new. destruct (existsb (node_eqb x) acc) eqn:E.
  - split; auto. intros [H| ->]; auto. apply existsb_exists in E. destruct E as (y & Hy & Ey).
    apply node_eqb_eq in Ey. subst. exact Hy.
  - rewrite in_app_iff. cbn. intuition.
Qed.
Lemma fold_add_new_in l : forall acc p, In p (fold_left add_new l acc) <-> In p acc \/ In p l.
Proof.
  induction l as [|x l IH]; intros acc p; cbn [fold_left].
  - cbn. tauto.
  - rewrite IH, add_new_in. cbn. intuition.
Qed.

Lemma NoDup_snoc {A} (l : list A) x : NoDup l -> ~ In x l -> NoDup (l ++ [x]).
Proof.
  induction 1 as [|y l Hy ND IH]; cbn; intro Hx.
  - constructor; [tauto|constructor].
  - constructor.
    + intro Hin. apply in_app_iff in Hin. cbn in Hin. destruct Hin as [Hin|[Hin|[]]]; [tauto|].
      subst. tauto.
    + apply IH. tauto.
Qed.

Section PSetProofs.
  Variable sub : ty -> ty -> bool.
  Hypothesis sub_refl : forall a, sub a a = true.
  Hypothesis sub_trans : forall a b c, sub a b = true -> sub b c = true -> sub a c = true.

  Definition collect (d : tbl) (t : ty) (acc0 : list node) : list node :=
    fold_left (fun acc p => if sub (fst p) t then fold_left add_new (snd p) acc else acc) d acc0.

  Lemma collect_in t : forall d acc p,
    In p (collect d t acc) <-> In p acc \/ exists k l, In (k, l) d /\ sub k t = true /\ In p l.
  Proof.
    induction d as [|[k l] d IH]; intros acc p; unfold collect in *; cbn [fold_left fst snd].
    - split; auto. intros [H|(k & l & [] & _)]; auto.
    - rewrite IH. destruct (sub k t) eqn:E.
      + rewrite fold_add_new_in. split.
        * intros [[H|H]|(k' & l' & H1 & H2 & H3)]; auto.
          -- right. exists k, l. cbn. auto.
          -- right. exists k', l'. cbn. auto.
        * intros [H|(k' & l' & [H1|H1] & H2 & H3)]; auto.
          -- inversion H1; subst. auto.
          -- right. exists k', l'. auto.
      + split.
        * intros [H|(k' & l' & H1 & H2 & H3)]; auto. right. exists k', l'. cbn. auto.
        * intros [H|(k' & l' & [H1|H1] & H2 & H3)]; auto.
          -- inversion H1; subst. congruence.
          -- right. exists k', l'. auto.
  Qed.

  Lemma has_key_in d t : has_key d t = true <-> exists l, In (t, l) d.
  Proof.
    unfold has_key. rewrite existsb_exists. split.
    - intros ([k l] & H & E). cbn in E. apply N.eqb_eq in E. subst. eauto.
    - intros (l & H). exists (t, l). split; auto. cbn. apply N.eqb_refl.
  Qed.

  Lemma add_type_entries d t k l :
    In (k, l) (add_type sub d t) <->
    In (k, l) d \/ (has_key d t = false /\ k = t /\ l = collect d t []).
  Proof.
    unfold add_type. fold (collect d t []). destruct (has_key d t) eqn:E.
    - split; auto. intros [H|(H & _)]; auto. discriminate.
    - rewrite in_app_iff. cbn. split.
      + intros [H|[H|[]]]; auto. inversion H; subst. auto.
      + intros [H|(_ & -> & ->)]; auto.
  Qed.

  Lemma add_type_has_key d t : has_key (add_type sub d t) t = true.
  Proof.
    destruct (has_key d t) eqn:E.
    - unfold add_type. rewrite E. exact E.
    - apply has_key_in. exists (collect d t []). apply add_type_entries. auto.
  Qed.
  Lemma add_type_keeps_key d t k : has_key d k = true -> has_key (add_type sub d t) k = true.
  Proof. rewrite !has_key_in. intros (l & H). exists l. apply add_type_entries. auto. Qed.

  Lemma append_entries d x k l :
    In (k, l) (append_to sub d x) <->
    exists l0, In (k, l0) d /\ l = if sub (nret x) k then l0 ++ [x] else l0.
  Proof.
    unfold append_to. rewrite in_map_iff. split.
    - intros ([k0 l0] & E & H). cbn [fst snd] in E. destruct (sub (nret x) k0) eqn:S; inversion E; subst.
      + exists l0. rewrite S. auto.
      + exists l. rewrite S. auto.
    - intros (l0 & H & ->). exists (k, l0). split; auto. cbn [fst snd]. destruct (sub (nret x) k); reflexivity.
  Qed.
  Lemma append_has_key d x k : has_key (append_to sub d x) k = has_key d k.
  Proof.
    unfold has_key, append_to. induction d as [|[k0 l0] d IH]; cbn [map existsb]; auto.
    rewrite IH. cbn [fst snd]. destruct (sub (nret x) k0); reflexivity.
  Qed.
  Lemma append_keys d x : map fst (append_to sub d x) = map fst d.
  Proof.
    unfold append_to. rewrite map_map. apply map_ext. intros [k l]. cbn. destruct (sub (nret x) k); reflexivity.
  Qed.

  (* ---------------- soundness ---------------- *)
  Section Sound.
    Variable Q : node -> Prop.
    Definition tbl_sound (d : tbl) : Prop :=
      forall k l, In (k, l) d -> forall p, In p l -> sub (nret p) k = true /\ Q p.

    Lemma add_type_sound d t : tbl_sound d -> tbl_sound (add_type sub d t).
    Proof.
      intros Hd k l H p Hp. apply add_type_entries in H. destruct H as [H|(_ & -> & ->)]; [eapply Hd; eauto|].
      apply collect_in in Hp. destruct Hp as [[]|(k' & l' & H1 & H2 & H3)].
      destruct (Hd _ _ H1 _ H3). split; eauto.
    Qed.
    Lemma add_types_sound ts : forall d, tbl_sound d -> tbl_sound (fold_left (add_type sub) ts d).
    Proof. induction ts; cbn; auto using add_type_sound. Qed.
    Lemma append_sound d x : Q x -> tbl_sound d -> tbl_sound (append_to sub d x).
    Proof.
      intros Hx Hd k l H p Hp. apply append_entries in H. destruct H as (l0 & H & ->).
      destruct (sub (nret x) k) eqn:S; [|eapply Hd; eauto].
      apply in_app_iff in Hp. destruct Hp as [Hp|[<-|[]]]; [eapply Hd; eauto|auto].
    Qed.
  End Sound.

  Definition is_prim_node (x : node) : Prop := nargs x <> [].
  Definition is_term_node (x : node) : Prop := nargs x = [].
  Definition op_ok (op : bool * node) : Prop :=
    if fst op then is_prim_node (snd op) else is_term_node (snd op).

  Definition state_sound (s : pstate) : Prop :=
    tbl_sound is_prim_node (s_prims s) /\ tbl_sound is_term_node (s_terms s).

  Lemma add_counted_sound s op : op_ok op -> state_sound s -> state_sound (add_counted sub s op).
  Proof.
    destruct op as [b x]. unfold op_ok, add_counted, add, state_sound. cbn [fst snd].
    intros Hx [HP HT]. destruct b; cbn [s_prims s_terms]; split;
      auto using add_type_sound, add_types_sound, append_sound.
  Qed.

  Lemma build_sound ops : Forall op_ok ops -> state_sound (build sub ops).
  Proof.
    unfold build. assert (G : state_sound empty_state) by (split; intros k l []).
    revert G. generalize empty_state. induction ops as [|op ops IH]; intros s G H; cbn [fold_left]; auto.
    inversion H; subst. apply IH; auto using add_counted_sound.
  Qed.

  (* reads of missing keys (defaultdict) keep the tables sound *)
  Lemma touch_sound Q d t : tbl_sound Q d -> tbl_sound Q (touch d t).
  Proof.
    unfold touch. destruct (has_key d t); auto. intros Hd k l H p Hp.
    apply in_app_iff in H. destruct H as [H|[H|[]]]; [eapply Hd; eauto|]. inversion H; subst. contradiction.
  Qed.

  Definition pop_ok (o : pop) : Prop :=
    match o with PAdd b x => op_ok (b, x) | _ => True end.

  Lemma run_pops_sound ops : Forall pop_ok ops -> state_sound (run_pops sub ops).
  Proof.
    unfold run_pops. assert (G : state_sound empty_state) by (split; intros k l []).
    revert G. generalize empty_state. induction ops as [|o ops IH]; intros s G H; cbn [fold_left]; auto.
    inversion H as [|? ? Ho Hr]; subst. apply IH; auto.
    destruct o as [b x|t|t]; cbn [step_pop].
    - apply add_counted_sound; auto.
    - destruct G. split; cbn [s_prims s_terms]; auto using touch_sound.
    - destruct G. split; cbn [s_prims s_terms]; auto using touch_sound.
  Qed.

  Lemma lookup_in d t p : In p (lookup d t) -> exists l, In (t, l) d /\ In p l.
  Proof.
    induction d as [|[k l] d IH]; cbn [lookup]; [contradiction|].
    destruct (N.eqb k t) eqn:E.
    - apply N.eqb_eq in E. subst. intro H. exists l. cbn. auto.
    - intro H. destruct (IH H) as (l' & H1 & H2). exists l'. cbn. auto.
  Qed.

  (* the hypothesis of the generator / operator theorems holds for every set built by the API *)
  Theorem build_pset_ok ops r rn rd : Forall op_ok ops ->
    let s := build sub ops in pset_ok sub (mkpset (s_prims s) (s_terms s) r rn rd).
  Proof.
    intros H s. destruct (build_sound ops H) as [HP HT]. fold s in HP, HT.
    split; intros t p Hin; unfold prims, terms in Hin; cbn [p_prims p_terms] in Hin;
      apply lookup_in in Hin; destruct Hin as (l & H1 & H2).
    - destruct (HP _ _ H1 _ H2). auto.
    - destruct (HT _ _ H1 _ H2). auto.
  Qed.

  Theorem run_pops_pset_ok ops r rn rd : Forall pop_ok ops ->
    let s := run_pops sub ops in pset_ok sub (mkpset (s_prims s) (s_terms s) r rn rd).
  Proof.
    intros H s. destruct (run_pops_sound ops H) as [HP HT]. fold s in HP, HT.
    split; intros t p Hin; unfold prims, terms in Hin; cbn [p_prims p_terms] in Hin;
      apply lookup_in in Hin; destruct Hin as (l & H1 & H2).
    - destruct (HP _ _ H1 _ H2). auto.
    - destruct (HT _ _ H1 _ H2). auto.
  Qed.

  (* ---------------- completeness ---------------- *)
  Definition tbl_complete (added : list node) (d : tbl) : Prop :=
    NoDup (map fst d) /\
    (forall p, In p added -> has_key d (nret p) = true) /\
    (forall k l, In (k, l) d -> forall p, In p added -> sub (nret p) k = true -> In p l).

  Lemma add_type_complete added d t : tbl_complete added d -> tbl_complete added (add_type sub d t).
  Proof.
    intros (ND & HK & HC). split; [|split].
    - unfold add_type. destruct (has_key d t) eqn:E; auto. rewrite map_app. cbn.
      apply NoDup_snoc; auto. intro Hin. apply in_map_iff in Hin. destruct Hin as ([k l] & E1 & H).
      cbn in E1. subst. assert (has_key d t = true) by (apply has_key_in; eauto). congruence.
    - intros p Hp. apply add_type_keeps_key. auto.
    - intros k l H p Hp S. apply add_type_entries in H. destruct H as [H|(_ & -> & ->)]; [eapply HC; eauto|].
      apply collect_in. right. specialize (HK _ Hp). apply has_key_in in HK. destruct HK as (l0 & H0).
      exists (nret p), l0. split; auto. split; auto. eapply HC; eauto.
  Qed.
  Lemma add_types_complete added ts : forall d, tbl_complete added d ->
    tbl_complete added (fold_left (add_type sub) ts d).
  Proof. induction ts; cbn; auto using add_type_complete. Qed.

  Lemma append_complete added d x : has_key d (nret x) = true -> tbl_complete added d ->
    tbl_complete (x :: added) (append_to sub d x).
  Proof.
    intros Hx (ND & HK & HC). split; [|split].
    - rewrite append_keys. exact ND.
    - intros p [<-|Hp]; rewrite append_has_key; auto.
    - intros k l H p Hp S. apply append_entries in H. destruct H as (l0 & H & ->).
      destruct Hp as [<-|Hp].
      + rewrite S. apply in_app_iff. cbn. auto.
      + destruct (sub (nret x) k); [apply in_app_iff; left|]; eapply HC; eauto.
  Qed.

  Lemma tbl_complete_ext a b d : (forall p, In p b -> In p a) -> tbl_complete a d -> tbl_complete b d.
  Proof. intros E (ND & HK & HC). split; [|split]; eauto. Qed.

  Lemma add_types_has_key ts : forall d k, has_key d k = true -> has_key (fold_left (add_type sub) ts d) k = true.
  Proof. induction ts as [|a ts IH]; cbn [fold_left]; intros d k H; auto. apply IH. apply add_type_keeps_key. exact H. Qed.

  Definition added_of (kind : bool) (ops : list (bool * node)) : list node :=
    map snd (filter (fun op => Bool.eqb (fst op) kind) ops).

  Definition state_complete (done : list (bool * node)) (s : pstate) : Prop :=
    tbl_complete (added_of true done) (s_prims s) /\ tbl_complete (added_of false done) (s_terms s).

  Lemma added_of_snoc kind done b x p :
    In p (added_of kind (done ++ [(b, x)])) -> In p (added_of kind done) \/ (b = kind /\ p = x).
  Proof.
    unfold added_of. rewrite filter_app, map_app, in_app_iff. cbn [filter fst].
    destruct (Bool.eqb b kind) eqn:E; cbn; [|tauto]. apply Bool.eqb_prop in E. intuition.
  Qed.

  Lemma add_counted_complete done s op :
    state_complete done s -> state_complete (done ++ [op]) (add_counted sub s op).
  Proof.
    destruct op as [b x]. intros [HP HT]. unfold state_complete, add_counted, add. cbn [fst snd].
    destruct b; cbn [s_prims s_terms]; split.
    - eapply tbl_complete_ext; [|apply append_complete].
      + intros p Hp. apply added_of_snoc in Hp. destruct Hp as [Hp|[_ ->]]; [right; exact Hp|left; reflexivity].
      + apply add_types_has_key. apply add_type_has_key.
      + apply add_types_complete. apply add_type_complete. exact HP.
    - eapply tbl_complete_ext; [|apply add_types_complete; apply add_type_complete; exact HT].
      intros p Hp. apply added_of_snoc in Hp. destruct Hp as [Hp|[E _]]; [exact Hp|discriminate].
    - eapply tbl_complete_ext; [|apply add_type_complete; exact HP].
      intros p Hp. apply added_of_snoc in Hp. destruct Hp as [Hp|[E _]]; [exact Hp|discriminate].
    - eapply tbl_complete_ext; [|apply append_complete].
      + intros p Hp. apply added_of_snoc in Hp. destruct Hp as [Hp|[_ ->]]; [right; exact Hp|left; reflexivity].
      + apply add_type_has_key.
      + apply add_type_complete. exact HT.
  Qed.

  Lemma build_complete_state ops : state_complete ops (build sub ops).
  Proof.
    unfold build.
    assert (G : state_complete [] empty_state).
    { split; (split; [constructor|split]; [intros p []|intros k l []]). }
    change ops with ([] ++ ops) at 1. revert G. generalize (@nil (bool * node)) as done. generalize empty_state.
    induction ops as [|op ops IH]; intros s done G; cbn [fold_left].
    - rewrite app_nil_r. exact G.
    - replace (done ++ op :: ops) with ((done ++ [op]) ++ ops) by (rewrite <- app_assoc; reflexivity).
      apply IH. apply add_counted_complete. exact G.
  Qed.

  Lemma lookup_nodup d t l : NoDup (map fst d) -> In (t, l) d -> lookup d t = l.
  Proof.
    induction d as [|[k l0] d IH]; [contradiction|]. cbn [map fst]. intros ND H. inversion ND; subst.
    cbn [lookup]. destruct H as [H|H].
    - inversion H; subst. rewrite N.eqb_refl. reflexivity.
    - destruct (N.eqb k t) eqn:E; [|auto]. apply N.eqb_eq in E. subst.
      exfalso. apply H2. apply in_map_iff. exists (t, l). auto.
  Qed.

  (* pset.primitives[t] / pset.terminals[t] hold every node added so far whose return type is a
     subtype of the registered type t *)
  Theorem build_complete ops : let s := build sub ops in
    (forall t p, In (true, p) ops -> has_key (s_prims s) t = true -> sub (nret p) t = true ->
                 In p (lookup (s_prims s) t)) /\
    (forall t p, In (false, p) ops -> has_key (s_terms s) t = true -> sub (nret p) t = true ->
                 In p (lookup (s_terms s) t)).
  Proof.
    intro s. destruct (build_complete_state ops) as [(ND1 & _ & C1) (ND2 & _ & C2)]. fold s in ND1, C1, ND2, C2.
    split; intros t p Hin Hk S; apply has_key_in in Hk; destruct Hk as (l & Hl).
    - rewrite (lookup_nodup _ _ _ ND1 Hl). eapply C1; eauto.
      unfold added_of. apply in_map_iff. exists (true, p). split; auto. apply filter_In. auto.
    - rewrite (lookup_nodup _ _ _ ND2 Hl). eapply C2; eauto.
      unfold added_of. apply in_map_iff. exists (false, p). split; auto. apply filter_In. auto.
  Qed.

  (* every node is listed at its own return type: the candidate list of mutNodeReplacement contains
     the node being replaced *)
  Corollary build_lists_self ops b p : In (b, p) ops ->
    let s := build sub ops in In p (lookup (if b then s_prims s else s_terms s) (nret p)).
  Proof.
    intros Hin s. destruct (build_complete_state ops) as [(_ & K1 & _) (_ & K2 & _)]. fold s in K1, K2.
    destruct (build_complete ops) as [C1 C2]. fold s in C1, C2.
    destruct b; [apply C1|apply C2]; auto; [apply K1|apply K2];
      unfold added_of; apply in_map_iff; eexists; (split; [|apply filter_In; split; [exact Hin|reflexivity]]); reflexivity.
  Qed.
End PSetProofs.
