(* sortLogNondominated, part 3: the two sweeps (two-objective base cases).
   sweepA fs front  meets the postcondition of sortNDHelperA for objectives 0..1,
   sweepB best worst front  meets the postcondition of sortNDHelperB for objectives 0..1. *)
From Coq Require Import List ZArith Bool Lia Permutation Sorted.
From DV Require Import Base.PyTuple Base.PyList Model.C01_Fitness Proofs.C01_Fitness Model.C04_NDSort
  Model.C04_LogSort Proofs.C04_NDSort Proofs.C04_NDLoop Proofs.C04_LogBase.
Import ListNotations.
Local Open Scope Z_scope.

(* ---- front dictionary ---- *)
Lemma fget_fbump_same front f g : fget (fbump front f g) f = Z.max (fget front f) (fget front g + 1).
Proof. unfold fget, fbump. apply kget_kset_same. Qed.
Lemma fget_fbump_other front f g k : f <> k -> fget (fbump front f g) k = fget front k.
Proof. intro N. unfold fget, fbump. apply kget_kset_other. assumption. Qed.
Lemma kkeys_fbump front f g : In f (kkeys front) -> kkeys (fbump front f g) = kkeys front.
Proof. intro H. unfold fbump. rewrite kkeys_kset. apply inb_In in H. rewrite H. reflexivity. Qed.

(* ---- the stairs ---- *)
Definition nk (f : wvals) : Z := - item f 1.
Definition stairs_ok (stairs : list Z) (fstairs : list wvals) : Prop :=
  stairs = map nk fstairs /\ StronglySorted Z.le stairs.
Definition covers (fr : wvals -> Z) (fs : list wvals) (C : wvals -> Prop) : Prop :=
  forall t, C t -> exists u, In u fs /\ fr u = fr t /\ item t 1 <= item u 1.

Lemma stairs_split stairs fstairs x : stairs_ok stairs fstairs ->
  let n := Z.to_nat (bisect_right stairs (nk x)) in
  bisect_right stairs (nk x) = Z.of_nat n /\ (n <= length fstairs)%nat /\
  Forall (fun u => item x 1 <= item u 1) (firstn n fstairs) /\
  Forall (fun u => item u 1 < item x 1) (skipn n fstairs).
Proof.
  intros [E S]. destruct (bisect_right_spec stairs (nk x) (SS_sorted_asc _ S)) as [B1 [B2 [B3 B4]]].
  cbn zeta in *. set (n := Z.to_nat (bisect_right stairs (nk x))) in *. subst stairs.
  rewrite map_length in B2. rewrite firstn_map in B3. rewrite skipn_map in B4.
  rewrite Forall_map in B3, B4. split; [assumption|split; [assumption|split]].
  - eapply Forall_impl; [|exact B3]. intros u H. unfold nk in H. cbn beta in H. lia.
  - eapply Forall_impl; [|exact B4]. intros u H. unfold nk in H. cbn beta in H. lia.
Qed.

Lemma sweep_rank_spec stairs fstairs front x (C : wvals -> Prop) :
  stairs_ok stairs fstairs -> (forall u, In u fstairs -> C u) -> covers (fget front) fstairs C ->
  forall idx front', sweep_rank stairs fstairs front x = (idx, front') ->
  let n := Z.to_nat idx in
  (n <= length fstairs)%nat /\
  Forall (fun u => item x 1 <= item u 1) (firstn n fstairs) /\
  Forall (fun u => item u 1 < item x 1) (skipn n fstairs) /\
  fget front x <= fget front' x /\
  (forall t, C t -> item x 1 <= item t 1 -> fget front t + 1 <= fget front' x) /\
  (fget front' x = fget front x \/ exists t, C t /\ item x 1 <= item t 1 /\ fget front' x = fget front t + 1) /\
  (forall f, f <> x -> fget front' f = fget front f) /\
  (In x (kkeys front) -> kkeys front' = kkeys front) /\
  (forall u, In u (firstn n fstairs) -> fget front u < fget front' x).
Proof.
  intros OK SUB COV idx front' E. unfold sweep_rank in E. cbv zeta in E. fold (nk x) in E.
  destruct (stairs_split stairs fstairs x OK) as [B1 [B2 [B3 B4]]]. cbn zeta in *.
  set (n := Z.to_nat (bisect_right stairs (nk x))) in *.
  assert (LEN : zlen stairs = Z.of_nat (length fstairs)).
  { destruct OK as [-> _]. unfold zlen. rewrite map_length. reflexivity. }
  rewrite B1, LEN in E.
  assert ((Z.of_nat n <=? Z.of_nat (length fstairs)) = true) as LE by (apply Z.leb_le; lia).
  rewrite LE, andb_true_r in E.
  assert (NOREP : forall t, C t -> item x 1 <= item t 1 -> exists u, In u (firstn n fstairs) /\ fget front u = fget front t).
  { intros t Ct Ht. destruct (COV t Ct) as [u [Hu [Fu Iu]]]. exists u. split; [|assumption].
    rewrite <- (firstn_skipn n fstairs) in Hu. apply in_app_or in Hu. destruct Hu as [Hu|Hu]; [assumption|].
    rewrite Forall_forall in B4. specialize (B4 u Hu). lia. }
  destruct (Z.ltb_spec 0 (Z.of_nat n)) as [P|P]; inversion E; subst idx front'; clear E; rewrite Nat2Z.id.
  - assert (NE : firstn n fstairs <> []). { destruct fstairs; destruct n; cbn in *; try lia; discriminate. }
    destruct (py_max_spec (fget front) (firstn n fstairs) x NE) as [PM1 PM2].
    set (pm := py_max (fget front) (firstn n fstairs) x) in *.
    rewrite fget_fbump_same.
    assert (PMC : C pm) by (apply SUB; rewrite <- (firstn_skipn n fstairs); apply in_or_app; left; assumption).
    assert (PMI : item x 1 <= item pm 1) by (rewrite Forall_forall in B3; apply B3; assumption).
    split; [assumption|split; [assumption|split; [assumption|split; [lia|split; [|split; [|split; [|split]]]]]]].
    + intros t Ct Ht. destruct (NOREP t Ct Ht) as [u [Hu Fu]]. specialize (PM2 u Hu). lia.
    + destruct (Z.max_spec (fget front x) (fget front pm + 1)) as [[_ M]|[_ M]]; rewrite M; [right|left; reflexivity].
      exists pm. auto.
    + intros f N. apply fget_fbump_other. congruence.
    + apply kkeys_fbump.
    + intros u Hu. specialize (PM2 u Hu). lia.
  - assert (n = 0%nat) by lia. split; [assumption|split; [assumption|split; [assumption|split; [lia|split; [|split; [|split; [|split]]]]]]].
    + intros t Ct Ht. destruct (NOREP t Ct Ht) as [u [Hu _]]. rewrite H in Hu. destruct Hu.
    + left; reflexivity.
    + reflexivity.
    + reflexivity.
    + intros u Hu. rewrite H in Hu. destruct Hu.
Qed.

(* adding x to the stairs, possibly in place of a stair it makes redundant *)
Lemma covers_replace (fr : wvals -> Z) fs fs' (C : wvals -> Prop) x :
  covers fr fs C ->
  (forall u, In u fs -> In u fs' \/ (fr u = fr x /\ item u 1 <= item x 1)) -> In x fs' ->
  covers fr fs' (fun t => C t \/ t = x).
Proof.
  intros COV REP IX t [Ct| ->].
  - destruct (COV t Ct) as [u [Hu [Fu Iu]]]. destruct (REP u Hu) as [H|[F I]].
    + exists u. auto.
    + exists x. split; [assumption|]. split; [congruence|lia].
  - exists x. split; [assumption|]. split; [reflexivity|lia].
Qed.

Lemma covers_ext (fr fr' : wvals -> Z) fs (C C' : wvals -> Prop) :
  covers fr fs C -> (forall t, C' t <-> C t) -> (forall t, C t -> fr' t = fr t) -> (forall u, In u fs -> fr' u = fr u) ->
  covers fr' fs C'.
Proof.
  intros COV EQ F1 F2 t Ct. apply EQ in Ct. destruct (COV t Ct) as [u [Hu [Fu Iu]]]. exists u.
  split; [assumption|]. split; [rewrite (F2 u Hu), (F1 t Ct); assumption|assumption].
Qed.

Lemma insert_sorted a b (x : Z) :
  StronglySorted Z.le (a ++ b) -> Forall (fun y => y <= x) a -> Forall (fun y => x < y) b ->
  StronglySorted Z.le (a ++ x :: b).
Proof.
  intros S Fa Fb. apply SS_app in S. destruct S as [Sa [Sb AB]]. apply SS_app. split; [assumption|split].
  - constructor; [assumption|]. eapply Forall_impl; [|exact Fb]. intros; cbn in *; lia.
  - intros u v Hu [<-|Hv]; [rewrite Forall_forall in Fa; apply Fa; assumption|apply AB; assumption].
Qed.

Lemma skipn_S1 {A} (l : list A) i : skipn (S i) l = skipn 1 (skipn i l).
Proof.
  revert l. induction i as [|i IH]; intro l; [reflexivity|]. destruct l as [|a l]; [reflexivity|].
  cbn [skipn] in *. rewrite IH. reflexivity.
Qed.

Lemma remove_at_sorted {A} (R : A -> A -> Prop) l i : StronglySorted R l -> StronglySorted R (remove_at i l).
Proof.
  intro S. unfold remove_at. rewrite <- (firstn_skipn i l) in S. apply SS_app in S. destruct S as [Sa [Sb AB]].
  apply SS_app. split; [assumption|split].
  - replace (skipn (S i) l) with (skipn 1 (skipn i l)) by (symmetry; apply skipn_S1).
    destruct (skipn i l) as [|y r]; [constructor|]. cbn. inversion Sb; assumption.
  - intros u v Hu Hv. apply AB; [assumption|].
    replace (skipn (S i) l) with (skipn 1 (skipn i l)) in Hv by (symmetry; apply skipn_S1).
    destruct (skipn i l) as [|y r]; [destruct Hv|]. cbn in Hv. right; assumption.
Qed.

Lemma in_remove_at {A} (l : list A) i x : In x (remove_at i l) -> In x l.
Proof.
  unfold remove_at. intro H. apply in_app_or in H. rewrite <- (firstn_skipn i l). apply in_or_app.
  destruct H as [H|H]; [left; assumption|right].
  replace (skipn (S i) l) with (skipn 1 (skipn i l)) in H by (symmetry; apply skipn_S1).
  destruct (skipn i l) as [|y r]; [destruct H|]. cbn in H. right; assumption.
Qed.

Lemma in_remove_at_or {A} (l : list A) i x d : (i < length l)%nat -> In x l -> In x (remove_at i l) \/ x = nth i l d.
Proof.
  intros Hi H. rewrite (remove_at_split l i d Hi) in H. apply in_app_or in H. unfold remove_at.
  destruct H as [H|[H|H]]; [left; apply in_or_app; left; assumption|right; symmetry; assumption|left; apply in_or_app; right; assumption].
Qed.

Lemma in_insert_at {A} (l : list A) i x y : In y (insert_at i x l) <-> y = x \/ In y l.
Proof.
  unfold insert_at. rewrite in_app_iff. cbn [In].
  assert (E : In y l <-> In y (firstn i l) \/ In y (skipn i l)).
  { rewrite <- in_app_iff, firstn_skipn. reflexivity. }
  rewrite E. split; [intros [H|[H|H]]|intros [H|[H|H]]]; auto.
Qed.

(* ---- postconditions of the two helpers, generic in the "is a dominator" relation ---- *)
Definition A_postR (R : wvals -> wvals -> Prop) (S : list wvals) (fr fr' : fmap) : Prop :=
  kkeys fr' = kkeys fr /\
  (forall f, ~ In f S -> fget fr' f = fget fr f) /\
  (forall s, In s S ->
     fget fr s <= fget fr' s /\
     (forall t, In t S -> R t s -> fget fr' t + 1 <= fget fr' s) /\
     (fget fr' s = fget fr s \/ exists t, In t S /\ R t s /\ fget fr' s = fget fr' t + 1)).

Definition B_postR (R : wvals -> wvals -> Prop) (L H : list wvals) (fr fr' : fmap) : Prop :=
  kkeys fr' = kkeys fr /\
  (forall f, ~ In f H -> fget fr' f = fget fr f) /\
  (forall h, In h H ->
     fget fr h <= fget fr' h /\
     (forall l, In l L -> R l h -> fget fr l + 1 <= fget fr' h) /\
     (fget fr' h = fget fr h \/ exists l, In l L /\ R l h /\ fget fr' h = fget fr l + 1)).

(* ---- two-objective order facts ---- *)
Definition lt2 (b a : wvals) : Prop :=   (* a comes strictly before b on the first two objectives *)
  item a 0 > item b 0 \/ (item a 0 = item b 0 /\ item a 1 > item b 1).
Definition ordered2 (fs : list wvals) : Prop := StronglySorted (fun a b => lt2 b a) fs.

Lemma item0_nth f : (1 <= length f)%nat -> item f 0 = nth 0 f 0.
Proof. intro H. apply (item_nth f 0). lia. Qed.
Lemma item1_nth f : (2 <= length f)%nat -> item f 1 = nth 1 f 0.
Proof. intro H. apply (item_nth f 1). lia. Qed.

Lemma ge_pref_1_items l h : (2 <= length l)%nat -> (2 <= length h)%nat ->
  (ge_pref 1 l h <-> item l 0 >= item h 0 /\ item l 1 >= item h 1).
Proof. intros Hl Hh. rewrite ge_pref_1 by assumption. rewrite !item0_nth, !item1_nth by lia. reflexivity. Qed.

Lemma pre1_eq_items a b : (2 <= length a)%nat -> (2 <= length b)%nat ->
  (pre 1 a = pre 1 b <-> item a 0 = item b 0 /\ item a 1 = item b 1).
Proof.
  intros Ha Hb. rewrite !item0_nth, !item1_nth by lia.
  destruct a as [|a0 [|a1 a]]; cbn in Ha; try lia. destruct b as [|b0 [|b1 b]]; cbn in Hb; try lia.
  unfold pre. cbn. split; [intro E; inversion E; auto|intros [-> ->]; reflexivity].
Qed.

Lemma dom_pref_1_items a b : (2 <= length a)%nat -> (2 <= length b)%nat ->
  (dom_pref 1 a b <-> item a 0 >= item b 0 /\ item a 1 >= item b 1 /\ (item a 0 <> item b 0 \/ item a 1 <> item b 1)).
Proof.
  intros Ha Hb. rewrite dom_pref_ge by lia. rewrite ge_pref_1_items, pre1_eq_items by assumption. split.
  - intros [[G0 G1] N]. split; [assumption|split; [assumption|]]. destruct (Z.eq_dec (item a 0) (item b 0)); [right|left; assumption].
    intro E. apply N. auto.
  - intros [G0 [G1 N]]. split; [auto|]. intros [E0 E1]. destruct N; contradiction.
Qed.

Lemma lt2_dom a b : (2 <= length a)%nat -> (2 <= length b)%nat -> lt2 b a ->
  (dom_pref 1 a b <-> item b 1 <= item a 1) /\ ~ dom_pref 1 b a.
Proof.
  intros Ha Hb L. rewrite !dom_pref_1_items by assumption. unfold lt2 in L. split; [split|]; lia.
Qed.

(* ---- sweepA ---- *)
Definition SA_inv (T : list wvals) (front0 : fmap) (s : sweep) : Prop :=
  stairs_ok (sw_stairs s) (sw_fstairs s) /\
  (forall u, In u (sw_fstairs s) -> In u T) /\
  covers (fget (sw_front s)) (sw_fstairs s) (fun t => In t T) /\
  A_postR (dom_pref 1) T front0 (sw_front s).

Lemma firstn_length_le {A} (l : list A) n : (n <= length l)%nat -> length (firstn n l) = n.
Proof. intro H. rewrite firstn_length. lia. Qed.

Lemma sweepA_step_inv T front0 s x :
  SA_inv T front0 s ->
  ordered2 (T ++ [x]) -> (forall f, In f (T ++ [x]) -> (2 <= length f)%nat) -> In x (kkeys front0) ->
  SA_inv (T ++ [x]) front0 (sweepA_step s x).
Proof.
  intros [OK [SUB [COV [AK [AF AP]]]]] ORD LEN KX.
  assert (XT : ~ In x T).
  { intro I. apply SS_app in ORD. destruct ORD as [_ [_ O]]. specialize (O x x I (or_introl eq_refl)). unfold lt2 in O. lia. }
  assert (BEF : forall t, In t T -> lt2 x t).
  { intros t Ht. apply SS_app in ORD. destruct ORD as [_ [_ O]]. apply O; [assumption|left; reflexivity]. }
  assert (LX : (2 <= length x)%nat) by (apply LEN; apply in_or_app; right; left; reflexivity).
  assert (LT : forall t, In t T -> (2 <= length t)%nat) by (intros; apply LEN; apply in_or_app; left; assumption).
  unfold sweepA_step. destruct (sweep_rank (sw_stairs s) (sw_fstairs s) (sw_front s) x) as [idx front1] eqn:SR.
  destruct (sweep_rank_spec _ _ _ x (fun t => In t T) OK SUB COV idx front1 SR) as [NL [FA [FB [R1 [R2 [R3 [R4 [R5 R6]]]]]]]].
  cbn zeta in *. set (n := Z.to_nat idx) in *.
  set (fstairs := sw_fstairs s) in *. set (stairs := sw_stairs s) in *.
  set (A := firstn n fstairs) in *. set (B := skipn n fstairs) in *.
  assert (EF : fstairs = A ++ B) by (symmetry; apply firstn_skipn).
  assert (LA : length A = n) by (apply firstn_length_le; assumption).
  destruct OK as [ES SS].
  (* the shape of the new stairs *)
  assert (SHAPE : exists B', (forall u, In u B' -> In u B) /\
            (forall u, In u B -> In u B' \/ (fget front1 u = fget front1 x)) /\
            StronglySorted Z.le (map nk A ++ map nk B') /\
            (let '(st, fst_) := match find_index (fun f => fget front1 f =? fget front1 x) B with
                                | Some j => (remove_at (n + j) stairs, remove_at (n + j) fstairs)
                                | None => (stairs, fstairs) end in
             insert_at n (nk x) st = map nk (A ++ x :: B') /\ insert_at n x fst_ = A ++ x :: B')).
  { destruct (find_index (fun f => fget front1 f =? fget front1 x) B) as [j|] eqn:FI.
    - exists (remove_at j B). destruct (find_index_some _ _ _ x FI) as [Hj Pj]. apply Z.eqb_eq in Pj.
      split; [intros u Hu; apply in_remove_at in Hu; assumption|]. split.
      + intros u Hu. destruct (in_remove_at_or B j u x Hj Hu) as [H| ->]; [left; assumption|right; assumption].
      + split.
        * rewrite <- map_app. rewrite ES, EF in SS. rewrite map_app in SS. rewrite map_app.
          apply SS_app in SS. destruct SS as [S1 [S2 S3]]. apply SS_app. split; [assumption|split].
          -- rewrite map_remove_at. apply remove_at_sorted. assumption.
          -- intros u v Hu Hv. apply S3; [assumption|]. rewrite map_remove_at in Hv. apply in_remove_at in Hv. assumption.
        * rewrite ES, EF. rewrite <- LA. split.
          -- rewrite map_app. rewrite <- (map_length nk A). rewrite remove_at_app_r, insert_at_app.
             rewrite map_app. cbn [map]. rewrite map_remove_at. reflexivity.
          -- rewrite remove_at_app_r, insert_at_app. reflexivity.
    - exists B. split; [auto|]. split; [auto|]. split.
      + rewrite <- map_app, <- EF, <- ES. assumption.
      + rewrite ES, EF. rewrite <- LA. split.
        * rewrite map_app. rewrite <- (map_length nk A). rewrite insert_at_app. rewrite map_app. reflexivity.
        * rewrite insert_at_app. reflexivity. }
  destruct SHAPE as [B' [B1 [B2 [B3 B4]]]].
  destruct (match find_index (fun f => fget front1 f =? fget front1 x) B with
            | Some j => (remove_at (n + j) stairs, remove_at (n + j) fstairs)
            | None => (stairs, fstairs) end) as [st fst_] eqn:EM.
  destruct B4 as [B4 B5].
  unfold SA_inv. cbn [sw_stairs sw_fstairs sw_front]. fold (nk x). rewrite B4, B5.
  assert (F1T : forall t, In t T -> fget front1 t = fget (sw_front s) t).
  { intros t Ht. apply R4. intro E. subst. contradiction. }
  split; [|split; [|split]].
  - split; [reflexivity|]. rewrite map_app. cbn [map]. apply insert_sorted; [assumption| |].
    + rewrite Forall_map. eapply Forall_impl; [|exact FA]. intros u Hu. unfold nk. cbn beta in *. lia.
    + rewrite Forall_map. apply Forall_forall. intros u Hu. apply B1 in Hu. rewrite Forall_forall in FB.
      specialize (FB u Hu). unfold nk. lia.
  - intros u Hu. apply in_app_or in Hu. apply in_or_app. destruct Hu as [Hu|[<-|Hu]].
    + left. apply SUB. rewrite EF. apply in_or_app. left; assumption.
    + right; left; reflexivity.
    + left. apply SUB. rewrite EF. apply in_or_app. right. apply B1. assumption.
  - assert (COV1 : covers (fget front1) fstairs (fun t => In t T)).
    { apply (covers_ext (fget (sw_front s)) (fget front1) fstairs (fun t => In t T) (fun t => In t T) COV).
      - tauto.
      - exact F1T.
      - intros u Hu. apply F1T. apply SUB. assumption. }
    pose proof (covers_replace (fget front1) fstairs (A ++ x :: B') (fun t => In t T) x COV1) as CR.
    intros t Ht. apply CR.
    + intros u Hu. rewrite EF in Hu. apply in_app_or in Hu. destruct Hu as [Hu|Hu].
      * left. apply in_or_app. left; assumption.
      * destruct (B2 u Hu) as [H|H]; [left; apply in_or_app; right; right; assumption|right].
        split; [assumption|]. rewrite Forall_forall in FB. specialize (FB u Hu). lia.
    + apply in_or_app. right; left; reflexivity.
    + apply in_app_or in Ht. destruct Ht as [Ht|[<-|[]]]; [left; assumption|right; reflexivity].
  - split; [rewrite R5; [assumption|rewrite AK; assumption]|]. split.
    + intros f Hf. rewrite R4; [apply AF; intro I; apply Hf; apply in_or_app; left; assumption|].
      intro E. subst. apply Hf. apply in_or_app. right; left; reflexivity.
    + assert (FX0 : fget (sw_front s) x = fget front0 x) by (apply AF; assumption).
      intros z Hz. apply in_app_or in Hz. destruct Hz as [Hz|[<-|[]]].
      * destruct (AP z Hz) as [P1 [P2 P3]]. rewrite (F1T z Hz). split; [assumption|split].
        -- intros t Ht D. apply in_app_or in Ht. destruct Ht as [Ht|[<-|[]]].
           ++ rewrite (F1T t Ht). apply P2; assumption.
           ++ exfalso. destruct (lt2_dom z x (LT z Hz) LX (BEF z Hz)) as [_ ND]. contradiction.
        -- destruct P3 as [P3|[t [Ht [D E]]]]; [left; assumption|right].
           exists t. split; [apply in_or_app; left; assumption|]. split; [assumption|]. rewrite (F1T t Ht). assumption.
      * split; [lia|split].
        -- intros t Ht D. apply in_app_or in Ht. destruct Ht as [Ht|[<-|[]]].
           ++ rewrite (F1T t Ht). apply R2; [assumption|].
              destruct (lt2_dom t x (LT t Ht) LX (BEF t Ht)) as [DI _]. apply DI. assumption.
           ++ exfalso. unfold dom_pref in D. rewrite nd_dom_irrefl in D. discriminate.
        -- destruct R3 as [R3|[t [Ht [I E]]]]; [left; lia|right].
           exists t. split; [apply in_or_app; left; assumption|]. split.
           ++ destruct (lt2_dom t x (LT t Ht) LX (BEF t Ht)) as [DI _]. apply DI. assumption.
           ++ rewrite (F1T t Ht). assumption.
Qed.

Lemma sweepA_fold front0 rest : forall T s,
  SA_inv T front0 s -> ordered2 (T ++ rest) ->
  (forall f, In f (T ++ rest) -> (2 <= length f)%nat) -> (forall f, In f rest -> In f (kkeys front0)) ->
  SA_inv (T ++ rest) front0 (fold_left sweepA_step rest s).
Proof.
  induction rest as [|x rest IH]; intros T s INV ORD LEN KEYS; cbn [fold_left].
  - rewrite app_nil_r. assumption.
  - replace (T ++ x :: rest) with ((T ++ [x]) ++ rest) in * by (rewrite <- app_assoc; reflexivity).
    apply IH; [|assumption|assumption|intros; apply KEYS; right; assumption].
    apply sweepA_step_inv; [assumption| | |apply KEYS; left; reflexivity].
    + apply SS_app in ORD. tauto.
    + intros f Hf. apply LEN. apply in_or_app. left; assumption.
Qed.

Theorem sweepA_correct fs front :
  ordered2 fs -> (forall f, In f fs -> (2 <= length f)%nat) -> (forall f, In f fs -> In f (kkeys front)) ->
  A_postR (dom_pref 1) fs front (sweepA fs front).
Proof.
  intros ORD LEN KEYS. destruct fs as [|f0 r]; cbn [sweepA].
  - split; [reflexivity|split; [reflexivity|intros s []]].
  - apply (sweepA_fold front r [f0] (mksw [nk f0] [f0] front)); try assumption.
    + split; [|split; [|split]]; cbn [sw_stairs sw_fstairs sw_front].
      * split; [reflexivity|]. constructor; constructor.
      * intros u Hu; assumption.
      * intros t [<-|[]]. exists f0. split; [left; reflexivity|]. split; [reflexivity|lia].
      * split; [reflexivity|split; [reflexivity|]]. intros s [<-|[]]. split; [lia|split].
        -- intros t [<-|[]] D. unfold dom_pref in D. rewrite nd_dom_irrefl in D. discriminate.
        -- left; reflexivity.
    + intros f Hf. apply KEYS. right; assumption.
Qed.

(* ---- sweepB ---- *)
Definition lex2ge (a b : wvals) : Prop := item a 0 > item b 0 \/ (item a 0 = item b 0 /\ item a 1 >= item b 1).
Definition sorted2 (l : list wvals) : Prop := StronglySorted lex2ge l.

Lemma tup_le_upto2 h l : (2 <= length h)%nat -> (2 <= length l)%nat ->
  (tup_le (upto h 2) (upto l 2) = true <-> lex2ge l h).
Proof.
  intros Hh Hl. unfold lex2ge. rewrite !item0_nth, !item1_nth by lia. rewrite !upto_firstn by lia.
  destruct h as [|a [|b h]]; cbn in Hh; try lia. destruct l as [|c [|d l]]; cbn in Hl; try lia.
  change (Z.to_nat 2) with 2%nat. cbn [firstn nth]. unfold tup_le. cbn [tup_cmp].
  destruct (Z.eqb_spec a c) as [->|N].
  - destruct (Z.eqb_spec b d) as [->|N2].
    + cbn. split; [intros _; right; lia|reflexivity].
    + unfold z_op. rewrite Z.leb_le. lia.
  - unfold z_op. rewrite Z.leb_le. lia.
Qed.

Lemma stairs_insert st fst_ x :
  stairs_ok st fst_ ->
  let idx := Z.to_nat (bisect_right st (nk x)) in
  stairs_ok (insert_at idx (nk x) st) (insert_at idx x fst_).
Proof.
  intros OK idx. destruct (stairs_split st fst_ x OK) as [_ [NL [FA FB]]]. fold idx in NL, FA, FB.
  destruct OK as [-> SS]. split; [rewrite map_insert_at; reflexivity|].
  unfold insert_at. rewrite <- (firstn_skipn idx (map nk fst_)) in SS. apply insert_sorted; [assumption| |].
  - rewrite firstn_map, Forall_map. eapply Forall_impl; [|exact FA]. intros u H. unfold nk. cbn beta in *. lia.
  - rewrite skipn_map, Forall_map. eapply Forall_impl; [|exact FB]. intros u H. unfold nk. cbn beta in *. lia.
Qed.

Lemma sweepB_insert_inv (front : fmap) st fst_ nb (C : wvals -> Prop) :
  stairs_ok st fst_ -> (forall u, In u fst_ -> C u) -> covers (fget front) fst_ C ->
  forall st' fst', sweepB_insert front st fst_ nb = (st', fst') ->
  stairs_ok st' fst' /\ (forall u, In u fst' -> C u \/ u = nb) /\
  covers (fget front) fst' (fun t => C t \/ t = nb).
Proof.
  intros OK SUB COV st' fst' E. unfold sweepB_insert in E. fold (nk nb) in E.
  destruct (find_index (fun f => fget front f =? fget front nb) fst_) as [i|] eqn:FI.
  - destruct (find_index_some _ _ _ nb FI) as [Hi Pi]. apply Z.eqb_eq in Pi.
    destruct (Z.gtb_spec (item (nth i fst_ nb) 1) (item nb 1)) as [G|G].
    + inversion E; subst st' fst'. split; [assumption|split; [intros u Hu; left; apply SUB; assumption|]].
      intros t [Ct| ->]; [destruct (COV t Ct) as [u [Hu [Fu Iu]]]; exists u; auto|].
      exists (nth i fst_ nb). split; [apply nth_In; assumption|]. split; [assumption|lia].
    + assert (OK' : stairs_ok (remove_at i st) (remove_at i fst_)).
      { destruct OK as [-> SS]. split; [rewrite map_remove_at; reflexivity|apply remove_at_sorted; assumption]. }
      pose proof (stairs_insert _ _ nb OK') as OK''. cbn zeta in OK''.
      inversion E; subst st' fst'. split; [assumption|split].
      * intros u Hu. apply in_insert_at in Hu. destruct Hu as [->|Hu]; [right; reflexivity|left].
        apply SUB. apply in_remove_at in Hu. assumption.
      * apply (covers_replace (fget front) fst_ _ C nb COV).
        -- intros u Hu. destruct (in_remove_at_or fst_ i u nb Hi Hu) as [H| ->].
           ++ left. apply in_insert_at. right; assumption.
           ++ right. split; [assumption|lia].
        -- apply in_insert_at. left; reflexivity.
  - pose proof (stairs_insert _ _ nb OK) as OK''. cbn zeta in OK''.
    inversion E; subst st' fst'. split; [assumption|split].
    + intros u Hu. apply in_insert_at in Hu. destruct Hu as [->|Hu]; [right; reflexivity|left; apply SUB; assumption].
    + apply (covers_replace (fget front) fst_ _ C nb COV).
      * intros u Hu. left. apply in_insert_at. right; assumption.
      * apply in_insert_at. left; reflexivity.
Qed.

(* the `while` loop: consumes the longest prefix of rest whose members satisfy h[:2] <= l[:2] *)
Lemma sweepB_consume_inv (front : fmap) h : forall rest Cons st fst_ rest' st' fst',
  (2 <= length h)%nat -> (forall l, In l rest -> (2 <= length l)%nat) ->
  stairs_ok st fst_ -> (forall u, In u fst_ -> In u Cons) -> covers (fget front) fst_ (fun t => In t Cons) ->
  sweepB_consume front h rest st fst_ = (rest', st', fst') ->
  exists P, rest = P ++ rest' /\ (forall l, In l P -> lex2ge l h) /\
            (match rest' with [] => True | l :: _ => ~ lex2ge l h end) /\
            stairs_ok st' fst' /\ (forall u, In u fst' -> In u (Cons ++ P)) /\
            covers (fget front) fst' (fun t => In t (Cons ++ P)).
Proof.
  induction rest as [|nb r IH]; intros Cons st fst_ rest' st' fst' Hh HL OK SUB COV E; cbn [sweepB_consume] in E.
  - inversion E; subst. exists []. rewrite !app_nil_r. split; [reflexivity|]. split; [intros l []|].
    split; [exact I|]. split; [assumption|split; assumption].
  - assert (Hnb : (2 <= length nb)%nat) by (apply HL; left; reflexivity).
    destruct (tup_le (upto h 2) (upto nb 2)) eqn:TL.
    + apply (tup_le_upto2 h nb Hh Hnb) in TL.
      destruct (sweepB_insert front st fst_ nb) as [st1 fst1] eqn:SI.
      destruct (sweepB_insert_inv front st fst_ nb (fun t => In t Cons) OK SUB COV st1 fst1 SI) as [OK1 [SUB1 COV1]].
      destruct (IH (Cons ++ [nb]) st1 fst1 rest' st' fst' Hh) as [P [E1 [P1 [P2 [P3 [P4 P5]]]]]]; try assumption.
      * intros l Hl. apply HL. right; assumption.
      * intros u Hu. apply in_or_app. destruct (SUB1 u Hu) as [H| ->]; [left; assumption|right; left; reflexivity].
      * intros t Ht. apply COV1. apply in_app_or in Ht. destruct Ht as [Ht|[<-|[]]]; [left; assumption|right; reflexivity].
      * exists (nb :: P). subst r. split; [reflexivity|]. split; [intros l [<-|Hl]; [assumption|apply P1; assumption]|].
        split; [assumption|]. split; [assumption|].
        replace (Cons ++ nb :: P) with ((Cons ++ [nb]) ++ P) by (rewrite <- app_assoc; reflexivity). split; assumption.
    + inversion E; subst. exists []. cbn [app]. rewrite app_nil_r. split; [reflexivity|]. split; [intros l []|]. split; [|auto].
      intro L. apply (tup_le_upto2 h nb Hh Hnb) in L. congruence.
Qed.

Lemma lex2ge_trans a b c : lex2ge a b -> lex2ge b c -> lex2ge a c.
Proof. unfold lex2ge. lia. Qed.
Lemma ge_pref_1_lex2ge l h : (2 <= length l)%nat -> (2 <= length h)%nat -> ge_pref 1 l h -> lex2ge l h.
Proof. intros Hl Hh G. apply ge_pref_1_items in G; [|assumption|assumption]. unfold lex2ge. lia. Qed.

Definition SB_inv (best : list wvals) (front0 : fmap) (Cons rest : list wvals) (s : sweep) (Hdone hs : list wvals) : Prop :=
  best = Cons ++ rest /\
  stairs_ok (sw_stairs s) (sw_fstairs s) /\
  (forall u, In u (sw_fstairs s) -> In u Cons) /\
  covers (fget (sw_front s)) (sw_fstairs s) (fun t => In t Cons) /\
  (forall l h, In l Cons -> In h hs -> lex2ge l h) /\
  B_postR (ge_pref 1) best Hdone front0 (sw_front s).

Lemma sweepB_step_inv best front0 Cons rest s Hdone h hs rest' s' :
  SB_inv best front0 Cons rest s Hdone (h :: hs) ->
  sorted2 best -> (forall h2, In h2 hs -> lex2ge h h2) ->
  (forall l, In l best -> (2 <= length l)%nat) -> (2 <= length h)%nat ->
  ~ In h best -> ~ In h Hdone -> In h (kkeys front0) -> (forall l, In l best -> ~ In l Hdone) ->
  sweepB_step (rest, s) h = (rest', s') ->
  exists Cons', SB_inv best front0 Cons' rest' s' (Hdone ++ [h]) hs.
Proof.
  intros [EB [OK [SUB [COV [CH BP]]]]] SB HS LB LH HB HD HK DISJ E.
  unfold sweepB_step in E.
  destruct (sweepB_consume (sw_front s) h rest (sw_stairs s) (sw_fstairs s)) as [[rest1 st1] fst1] eqn:CE.
  destruct (sweep_rank st1 fst1 (sw_front s) h) as [idx front1] eqn:SR.
  inversion E; subst rest' s'; clear E.
  destruct (sweepB_consume_inv (sw_front s) h rest Cons (sw_stairs s) (sw_fstairs s) rest1 st1 fst1 LH) as [P [ER [P1 [P2 [OK1 [SUB1 COV1]]]]]]; try assumption.
  { intros l Hl. apply LB. rewrite EB. apply in_or_app. right; assumption. }
  exists (Cons ++ P).
  assert (EB' : best = (Cons ++ P) ++ rest1) by (rewrite <- app_assoc, <- ER; assumption).
  assert (INC : forall l, In l (Cons ++ P) -> lex2ge l h).
  { intros l Hl. apply in_app_or in Hl. destruct Hl as [Hl|Hl]; [apply CH; [assumption|left; reflexivity]|apply P1; assumption]. }
  assert (NREST : forall l, In l rest1 -> ~ lex2ge l h).
  { intros l Hl. destruct rest1 as [|l0 tl]; [destruct Hl|]. destruct Hl as [<-|Hl]; [assumption|].
    unfold sorted2 in SB. rewrite EB' in SB. apply SS_app in SB. destruct SB as [_ [SB _]]. inversion SB as [|? ? _ F]; subst.
    rewrite Forall_forall in F. specialize (F l Hl). intro L. apply P2. eapply lex2ge_trans; eassumption. }
  destruct (sweep_rank_spec st1 fst1 (sw_front s) h (fun t => In t (Cons ++ P)) OK1 SUB1 COV1 idx front1 SR)
    as [_ [_ [_ [R1 [R2 [R3 [R4 [R5 _]]]]]]]].
  destruct BP as [BK [BF BC]].
  assert (CB : forall l, In l (Cons ++ P) -> In l best) by (intros l Hl; rewrite EB'; apply in_or_app; left; assumption).
  assert (F0 : forall l, In l best -> fget (sw_front s) l = fget front0 l) by (intros l Hl; apply BF; apply DISJ; assumption).
  assert (F1 : forall l, In l best -> fget front1 l = fget front0 l).
  { intros l Hl. rewrite R4; [apply F0; assumption|]. intro; subst. contradiction. }
  unfold SB_inv. cbn [sw_stairs sw_fstairs sw_front].
  split; [assumption|split; [assumption|split; [assumption|split; [|split]]]].
  - apply (covers_ext (fget (sw_front s)) (fget front1) fst1 _ _ COV1); [tauto| |].
    + intros t Ht. rewrite (F1 t (CB t Ht)), (F0 t (CB t Ht)). reflexivity.
    + intros u Hu. pose proof (CB u (SUB1 u Hu)) as Hb. rewrite (F1 u Hb), (F0 u Hb). reflexivity.
  - intros l h2 Hl Hh2. eapply lex2ge_trans; [apply INC; assumption|apply HS; assumption].
  - split; [rewrite R5; [assumption|rewrite BK; assumption]|split].
    + intros f Hf. rewrite R4; [apply BF; intro I; apply Hf; apply in_or_app; left; assumption|].
      intro; subst. apply Hf. apply in_or_app. right; left; reflexivity.
    + intros z Hz. apply in_app_or in Hz. destruct Hz as [Hz|[<-|[]]].
      * assert (fget front1 z = fget (sw_front s) z) as -> by (apply R4; intro; subst; contradiction).
        apply BC. assumption.
      * assert (FH : fget (sw_front s) h = fget front0 h) by (apply BF; assumption).
        split; [lia|split].
        -- intros l Hl G. rewrite <- (F0 l Hl).
           assert (In l (Cons ++ P)) as HC.
           { rewrite EB' in Hl. apply in_app_or in Hl. destruct Hl as [Hl|Hl]; [assumption|exfalso].
             apply (NREST l Hl). apply ge_pref_1_lex2ge; [apply LB; rewrite EB'; apply in_or_app; right; assumption|assumption|assumption]. }
           apply R2; [assumption|]. apply ge_pref_1_items in G; [lia|apply LB; assumption|assumption].
        -- destruct R3 as [R3|[t [Ht [I Et]]]]; [left; lia|right]. exists t.
           split; [apply CB; assumption|]. split.
           ++ apply ge_pref_1_items; [apply LB, CB; assumption|assumption|]. pose proof (INC t Ht) as L. unfold lex2ge in L. lia.
           ++ rewrite <- (F0 t (CB t Ht)). assumption.
Qed.

Lemma sweepB_fold best front0 : forall hs Cons rest s Hdone,
  SB_inv best front0 Cons rest s Hdone hs ->
  sorted2 best -> sorted2 hs -> NoDup (Hdone ++ hs) ->
  (forall l, In l best -> (2 <= length l)%nat) -> (forall h, In h hs -> (2 <= length h)%nat) ->
  (forall l, In l best -> ~ In l (Hdone ++ hs)) -> (forall h, In h hs -> In h (kkeys front0)) ->
  B_postR (ge_pref 1) best (Hdone ++ hs) front0 (sw_front (snd (fold_left sweepB_step hs (rest, s)))).
Proof.
  induction hs as [|h hs IH]; intros Cons rest s Hdone INV SB SH ND LB LH DISJ KEYS; cbn [fold_left].
  - rewrite app_nil_r. destruct INV as [_ [_ [_ [_ [_ BP]]]]]. exact BP.
  - destruct (sweepB_step (rest, s) h) as [rest' s'] eqn:E.
    inversion SH as [|? ? SH' FH]; subst. rewrite Forall_forall in FH.
    destruct (sweepB_step_inv best front0 Cons rest s Hdone h hs rest' s' INV SB FH LB) as [Cons' INV']; try assumption.
    + apply LH. left; reflexivity.
    + intro I. apply (DISJ h I). apply in_or_app. right; left; reflexivity.
    + apply NoDup_remove_2 in ND. intro I. apply ND. apply in_or_app. left; assumption.
    + apply KEYS. left; reflexivity.
    + intros l Hl I. apply (DISJ l Hl). apply in_or_app. left; assumption.
    + replace (Hdone ++ h :: hs) with ((Hdone ++ [h]) ++ hs) in * by (rewrite <- app_assoc; reflexivity).
      apply (IH Cons' rest' s' (Hdone ++ [h])); try assumption.
      * intros h2 Hh2. apply LH. right; assumption.
      * intros h2 Hh2. apply KEYS. right; assumption.
Qed.

Theorem sweepB_correct best worst front :
  sorted2 best -> sorted2 worst -> NoDup worst ->
  (forall l, In l best -> (2 <= length l)%nat) -> (forall h, In h worst -> (2 <= length h)%nat) ->
  (forall l, In l best -> ~ In l worst) -> (forall h, In h worst -> In h (kkeys front)) ->
  B_postR (ge_pref 1) best worst front (sweepB best worst front).
Proof.
  intros SB SW ND LB LW DISJ KEYS. unfold sweepB.
  apply (sweepB_fold best front worst [] best (mksw [] [] front) []); try assumption.
  split; [reflexivity|]. cbn [sw_stairs sw_fstairs sw_front]. split; [split; [reflexivity|constructor]|].
  split; [intros u []|]. split; [intros t []|]. split; [intros l h []|].
  split; [reflexivity|split; [reflexivity|intros h []]].
Qed.
