(* C07 — proofs about the NSGA-III model: shuffle is a permutation for every code, niching selects
   exactly the requested number of distinct members (for every draw stream) and keeps the niches
   balanced (DESIGN Appendix A5), selNSGA3 size / identity / front priority, association = argmin
   of the distance to the reference line, best/worst memory. *)
From Coq Require Import List ZArith Bool Lia Arith Permutation.
From DV Require Import Base.PyList Base.C07_Num Model.C07_Nsga3.
Import ListNotations.
Local Open Scope nat_scope.

(* ------------------------------------------------------------------ *)
(* list helpers *)
Lemma nth_set_nth_eq {A} (l : list A) k v d : k < length l -> nth k (set_nth l k v) d = v.
Proof. revert k; induction l as [|x r IH]; intros [|k] H; cbn in *; try lia; auto. apply IH. lia. Qed.

Lemma nth_set_nth_neq {A} (l : list A) k j v d : k <> j -> nth j (set_nth l k v) d = nth j l d.
Proof.
  revert k j; induction l as [|x r IH]; intros [|k] [|j] H; cbn; auto; try lia.
Qed.

Lemma insert_at_perm {A} (x : A) : forall i l, Permutation (insert_at i x l) (x :: l).
Proof.
  induction i as [|i IH]; intros [|y l]; cbn; auto.
  rewrite IH. apply perm_swap.
Qed.

Lemma shuffle_ins_perm {A} : forall (l : list A) code acc, Permutation (shuffle_ins l code acc) (l ++ acc).
Proof.
  induction l as [|x l IH]; intros code acc; cbn; auto.
  rewrite IH. rewrite insert_at_perm. symmetry. apply Permutation_middle.
Qed.

(* numpy.random.shuffle returns a permutation whatever the draw is *)
Theorem shuffle_perm {A} (l : list A) code : Permutation (shuffle l code) l.
Proof. unfold shuffle. rewrite shuffle_ins_perm, app_nil_r. reflexivity. Qed.

(* ... and every permutation is the result of some draw *)
Lemma insert_at_app {A} (x : A) (a b : list A) : insert_at (length a) x (a ++ b) = a ++ x :: b.
Proof. induction a as [|y a IH]; cbn; [destruct b; reflexivity|]. now rewrite IH. Qed.

Lemma shuffle_ins_app_code {A} : forall (l1 : list A) c1 l2 c2 acc, length c1 = length l1 ->
  shuffle_ins (l1 ++ l2) (c1 ++ c2) acc = shuffle_ins l2 c2 (shuffle_ins l1 c1 acc).
Proof.
  induction l1 as [|x l1 IH]; intros [|c c1] l2 c2 acc H; cbn in *; try lia; auto.
Qed.

Lemma shuffle_ins_cons {A} (x : A) r code acc :
  shuffle_ins (x :: r) code acc = shuffle_ins r (tl code) (insert_at (hd 0 code mod S (length acc)) x acc).
Proof. reflexivity. Qed.

Lemma shuffle_ins_pad {A} : forall (l : list A) code acc n, length l <= n ->
  shuffle_ins l (firstn (length l) (code ++ repeat 0 n)) acc = shuffle_ins l code acc.
Proof.
  induction l as [|y l IH]; intros code acc n H; [reflexivity|].
  rewrite !shuffle_ins_cons. destruct code as [|c code].
  - destruct n as [|n]; [cbn in H; lia|]. cbn [app repeat length firstn hd tl].
    rewrite <- (IH [] _ n) by (cbn in H; lia). reflexivity.
  - cbn [app length firstn hd tl]. apply IH. cbn in H. lia.
Qed.

Theorem shuffle_surjective {A} (l : list A) : forall l', Permutation l l' -> exists code, shuffle l code = l'.
Proof.
  (* induction on l from the right: the last element is inserted last *)
  induction l as [|x l IH] using rev_ind; intros l' P.
  - apply Permutation_nil in P. subst. exists []. reflexivity.
  - assert (Hin : In x l') by (eapply Permutation_in; [exact P|]; apply in_or_app; right; now left).
    apply in_split in Hin. destruct Hin as [a [b ->]].
    assert (P' : Permutation l (a ++ b)).
    { apply Permutation_app_inv with (a := x) (l1 := l) (l2 := []) (l3 := a) (l4 := b) in P.
      now rewrite app_nil_r in P. }
    destruct (IH _ P') as [code E].
    set (code' := firstn (length l) (code ++ repeat 0 (length l))).
    assert (Lc : length code' = length l).
    { unfold code'. rewrite firstn_length, app_length, repeat_length. lia. }
    assert (E' : shuffle l code' = a ++ b).
    { rewrite <- E. unfold shuffle, code'. apply shuffle_ins_pad. lia. }
    exists (code' ++ [length a]). unfold shuffle in *.
    rewrite shuffle_ins_app_code by exact Lc. rewrite E'.
    rewrite shuffle_ins_cons. cbn [hd tl shuffle_ins].
    assert (La : length a mod S (length (a ++ b)) = length a).
    { apply Nat.mod_small. rewrite app_length. lia. }
    rewrite La. apply insert_at_app.
Qed.

(* ------------------------------------------------------------------ *)
(* argmin / head of a shuffled list is a member of the list *)
Section Niching.
Context {T : Type} (ltb : T -> T -> bool) (dflt : T).

Lemma argmin_from_in dist : forall l best, argmin_from ltb dflt dist best l = best \/ In (argmin_from ltb dflt dist best l) l.
Proof.
  induction l as [|i r IH]; intros best; cbn; auto.
  destruct (ltb (nth i dist dflt) (nth best dist dflt)).
  - destruct (IH i) as [E|E]; right; [left; now rewrite E|now right].
  - destruct (IH best) as [E|E]; [now left|right; now right].
Qed.

Lemma argmin_first_in dist l i : argmin_first ltb dflt dist l = Some i -> In i l.
Proof.
  destruct l as [|a r]; cbn; [discriminate|]. intros E. injection E as <-.
  destruct (argmin_from_in dist r a) as [->|H]; [now left|now right].
Qed.

Lemma argmin_first_some dist l : l <> [] -> exists i, argmin_first ltb dflt dist l = Some i.
Proof. destruct l; [congruence|]. intros _. eexists; reflexivity. Qed.

Variable niches : list nat.
Variable dist : list T.
Variable R : nat.
Let m := length niches.
Hypothesis niches_lt : forall i, i < m -> nth i niches 0 < R.

Definition cnt_sel (sel : list nat) (c : nat) : nat :=
  length (filter (fun i => Nat.eqb (nth i niches 0) c) sel).

Lemma cnt_sel_app sel x c : cnt_sel (sel ++ [x]) c = cnt_sel sel c + (if Nat.eqb (nth x niches 0) c then 1 else 0).
Proof.
  unfold cnt_sel. rewrite filter_app, app_length. cbn. destruct (Nat.eqb (nth x niches 0) c); reflexivity.
Qed.

Record inv (counts0 : list nat) (s : nstate) : Prop := mkinv {
  inv_la : length (ns_avail s) = m;
  inv_lc : length (ns_counts s) = R;
  inv_nd : NoDup (ns_sel s);
  inv_lt : forall i, In i (ns_sel s) -> i < m;
  inv_av : forall i, i < m -> (nth i (ns_avail s) false = true <-> ~ In i (ns_sel s));
  inv_ct : forall c, c < R -> nth c (ns_counts s) 0 = nth c counts0 0 + cnt_sel (ns_sel s) c;
  inv_ok : ns_err s = false
}.

(* "niche c still has a candidate": an unselected member of the last front is associated with c *)
Definition has_candidate (sel : list nat) (c : nat) : Prop :=
  exists i, i < m /\ ~ In i sel /\ nth i niches 0 = c.
(* "niche c received a member" *)
Definition received (sel : list nat) (c : nat) : Prop := exists i, In i sel /\ nth i niches 0 = c.

Lemma avail_niche_spec counts0 s c : inv counts0 s ->
  (avail_niche niches (ns_avail s) c = true <-> has_candidate (ns_sel s) c).
Proof.
  intro I. unfold avail_niche, has_candidate. rewrite existsb_exists. split.
  - intros [i [Hi H]]. apply in_seq in Hi. apply andb_true_iff in H. destruct H as [Ha Hc].
    apply Nat.eqb_eq in Hc. exists i. fold m in Hi. split; [lia|]. split; [|exact Hc].
    apply (inv_av _ _ I); [lia|exact Ha].
  - intros [i [Hi [Hs Hc]]]. exists i. split; [apply in_seq; fold m; lia|].
    apply andb_true_iff. split; [apply (inv_av _ _ I); auto|apply Nat.eqb_eq; exact Hc].
Qed.

(* ---- min_count ---- *)
Definition mc_step (avail : list bool) (counts : list nat) (mo : option nat) (c : nat) : option nat :=
  if avail_niche niches avail c
  then match mo with None => Some (nth c counts 0) | Some v => Some (Nat.min v (nth c counts 0)) end
  else mo.

Lemma mc_fold_spec avail counts : forall l mo,
  match fold_left (mc_step avail counts) l mo with
  | None => mo = None /\ forall c, In c l -> avail_niche niches avail c = false
  | Some v =>
      (mo = Some v \/ exists c, In c l /\ avail_niche niches avail c = true /\ nth c counts 0 = v) /\
      (forall w, mo = Some w -> v <= w) /\
      (forall c, In c l -> avail_niche niches avail c = true -> v <= nth c counts 0)
  end.
Proof.
  induction l as [|c l IH]; intros mo; cbn [fold_left].
  - destruct mo as [v|]; [|split; [reflexivity|intros c []]].
    split; [now left|]. split; [intros w E; injection E as ->; lia|intros c []].
  - specialize (IH (mc_step avail counts mo c)).
    destruct (fold_left (mc_step avail counts) l (mc_step avail counts mo c)) as [v|].
    + destruct IH as [A [B C]]. unfold mc_step in A, B.
      destruct (avail_niche niches avail c) eqn:Ea.
      * split; [|split].
        -- destruct A as [A|[c' [H1 [H2 H3]]]].
           ++ destruct mo as [w|]; injection A as A.
              ** destruct (Nat.min_spec w (nth c counts 0)) as [[_ E]|[_ E]]; rewrite E in A.
                 --- left. now subst.
                 --- right. exists c. split; [now left|]. split; [exact Ea|]. now subst.
              ** right. exists c. split; [now left|]. split; [exact Ea|exact A].
           ++ right. exists c'. split; [now right|]. split; assumption.
        -- intros w E. subst mo. specialize (B _ eq_refl). lia.
        -- intros c' [<-|Hc'] Hav.
           ++ destruct mo as [w|]; specialize (B _ eq_refl); lia.
           ++ apply C; assumption.
      * split; [|split].
        -- destruct A as [A|[c' [H1 [H2 H3]]]]; [now left|]. right. exists c'. split; [now right|]. split; assumption.
        -- exact B.
        -- intros c' [<-|Hc'] Hav; [congruence|]. apply C; assumption.
    + destruct IH as [A B]. unfold mc_step in A.
      destruct (avail_niche niches avail c) eqn:Ea.
      * destruct mo; discriminate.
      * split; [exact A|]. intros c' [<-|Hc']; [exact Ea|]. apply B; assumption.
Qed.

Lemma min_count_spec avail counts :
  match min_count niches avail counts with
  | None => forall c, c < length counts -> avail_niche niches avail c = false
  | Some v =>
      (exists c, c < length counts /\ avail_niche niches avail c = true /\ nth c counts 0 = v) /\
      (forall c, c < length counts -> avail_niche niches avail c = true -> v <= nth c counts 0)
  end.
Proof.
  unfold min_count. assert (H := mc_fold_spec avail counts (seq 0 (length counts)) None).
  change (fun (m0 : option nat) (c : nat) => _) with (mc_step avail counts).
  destruct (fold_left (mc_step avail counts) (seq 0 (length counts)) None) as [v|].
  - destruct H as [A [_ C]]. split.
    + destruct A as [A|[c [H1 H2]]]; [discriminate|]. exists c. apply in_seq in H1. split; [lia|exact H2].
    + intros c Hc. apply C. apply in_seq. lia.
  - destruct H as [_ B]. intros c Hc. apply B. apply in_seq. lia.
Qed.

(* ---- one selection ---- *)
Lemma inv_with_draws counts0 s ds :
  inv counts0 s -> inv counts0 (mkns (ns_sel s) (ns_avail s) (ns_counts s) ds (ns_err s)).
Proof. intros [A B C D E F G]. constructor; assumption. Qed.

Definition picked (s : nstate) (c si : nat) (ds : list (list nat)) : nstate :=
  mkns (ns_sel s ++ [si]) (set_nth (ns_avail s) si false)
       (set_nth (ns_counts s) c (S (nth c (ns_counts s) 0))) ds false.

Lemma pick_step_spec counts0 s c : inv counts0 s -> has_candidate (ns_sel s) c ->
  exists si, si < m /\ ~ In si (ns_sel s) /\ nth si niches 0 = c /\
             pick_step ltb dflt niches dist s c = picked s c si (tl (ns_draws s)).
Proof.
  intros I [i0 [Hi0 [Hs0 Hc0]]]. unfold pick_step, next_draw.
  set (inds := filter _ _). set (sh := shuffle inds (hd [] (ns_draws s))).
  assert (P : Permutation sh inds) by apply shuffle_perm.
  assert (Hin0 : In i0 inds).
  { apply filter_In. split; [apply in_seq; fold m; lia|]. apply andb_true_iff. split.
    - apply Nat.eqb_eq. exact Hc0.
    - apply (inv_av _ _ I); assumption. }
  assert (Hne : sh <> []).
  { intro E. rewrite E in P. apply Permutation_nil in P. rewrite P in Hin0. destruct Hin0. }
  assert (Hpick : exists si, (if Nat.eqb (nth c (ns_counts s) 0) 0 then argmin_first ltb dflt dist sh else hd_error sh) = Some si /\ In si sh).
  { destruct (Nat.eqb (nth c (ns_counts s) 0) 0).
    - destruct (argmin_first_some dist sh Hne) as [si E]. exists si. split; [exact E|]. eapply argmin_first_in; eauto.
    - destruct sh as [|a r]; [congruence|]. exists a. split; [reflexivity|now left]. }
  destruct Hpick as [si [E Hsi]]. rewrite E.
  assert (Hsi' : In si inds) by (eapply Permutation_in; eauto).
  apply filter_In in Hsi'. destruct Hsi' as [H1 H2]. apply in_seq in H1. fold m in H1.
  apply andb_true_iff in H2. destruct H2 as [H2 H3]. apply Nat.eqb_eq in H2.
  exists si. split; [lia|]. split; [apply (inv_av _ _ I); [lia|exact H3]|]. split; [exact H2|].
  unfold picked. rewrite (inv_ok _ _ I). reflexivity.
Qed.

Lemma inv_picked counts0 s c si ds : inv counts0 s -> si < m -> ~ In si (ns_sel s) -> nth si niches 0 = c ->
  inv counts0 (picked s c si ds).
Proof.
  intros I Hsi Hns Hc. assert (HcR : c < R) by (subst c; apply niches_lt; exact Hsi).
  constructor; unfold picked; cbn [ns_sel ns_avail ns_counts ns_err ns_draws].
  - rewrite set_nth_length. apply (inv_la _ _ I).
  - rewrite set_nth_length. apply (inv_lc _ _ I).
  - apply NoDup_app_disj; [apply (inv_nd _ _ I)|constructor; [intros []|constructor]|].
    intros x Hx [<-|[]]. contradiction.
  - intros i Hi. apply in_app_or in Hi. destruct Hi as [Hi|[<-|[]]]; [apply (inv_lt _ _ I); exact Hi|exact Hsi].
  - intros i Hi. rewrite in_app_iff. destruct (Nat.eq_dec si i) as [->|Hne].
    + rewrite nth_set_nth_eq by (rewrite (inv_la _ _ I); exact Hi). split; [discriminate|].
      intro H. exfalso. apply H. right. now left.
    + rewrite nth_set_nth_neq by exact Hne. rewrite (inv_av _ _ I i Hi). split.
      * intros H [H'|[H'|[]]]; [contradiction|congruence].
      * intros H H'. apply H. now left.
  - intros c' Hc'. rewrite cnt_sel_app. destruct (Nat.eq_dec c c') as [<-|Hne].
    + rewrite nth_set_nth_eq by (rewrite (inv_lc _ _ I); exact HcR).
      rewrite (inv_ct _ _ I c HcR). rewrite Hc, Nat.eqb_refl. lia.
    + rewrite nth_set_nth_neq by exact Hne. rewrite (inv_ct _ _ I c' Hc').
      rewrite Hc. destruct (Nat.eqb_spec c c'); [contradiction|]. lia.
  - reflexivity.
Qed.

(* ---- balance (DESIGN Appendix A5) ---- *)
Definition balanced (s : nstate) : Prop :=
  forall a b, received (ns_sel s) a -> has_candidate (ns_sel s) b ->
              nth a (ns_counts s) 0 <= nth b (ns_counts s) 0 + 1.

Definition mid (counts0 : list nat) (k mc : nat) (rest : list nat) (s : nstate) : Prop :=
  inv counts0 s /\ NoDup rest /\
  (forall c, In c rest -> has_candidate (ns_sel s) c /\ nth c (ns_counts s) 0 = mc) /\
  (forall b, has_candidate (ns_sel s) b -> mc <= nth b (ns_counts s) 0) /\
  balanced s /\ length (ns_sel s) + length rest <= k.

Lemma has_candidate_lt sel c : has_candidate sel c -> c < R.
Proof. intros [i [Hi [_ <-]]]. apply niches_lt. exact Hi. Qed.

Lemma fold_pick_spec counts0 k mc : forall rest s, mid counts0 k mc rest s ->
  let s' := fold_left (pick_step ltb dflt niches dist) rest s in
  inv counts0 s' /\ balanced s' /\ length (ns_sel s') = length (ns_sel s) + length rest.
Proof.
  induction rest as [|c rest IH]; intros s [I [ND [Hrest [Hmin [B Hlen]]]]]; cbn [fold_left].
  - cbn. split; [exact I|]. split; [exact B|]. cbn. lia.
  - destruct (Hrest c (or_introl eq_refl)) as [Hcand Hcnt].
    destruct (pick_step_spec counts0 s c I Hcand) as [si [Hsi [Hns [Hc Hstep]]]].
    rewrite Hstep. set (s1 := picked s c si (tl (ns_draws s))).
    assert (I1 : inv counts0 s1) by (apply inv_picked; assumption).
    assert (HcR : c < R) by (eapply has_candidate_lt; eauto).
    apply NoDup_cons_iff in ND. destruct ND as [Hcnotin ND'].
    (* facts relating s1 to s *)
    assert (Hcand_mono : forall b, has_candidate (ns_sel s1) b -> has_candidate (ns_sel s) b).
    { intros b [i [Hi [Hnot Hb]]]. exists i. split; [exact Hi|]. split; [|exact Hb].
      intro H. apply Hnot. cbn. apply in_or_app. now left. }
    assert (Hcnt_ge : forall b, nth b (ns_counts s) 0 <= nth b (ns_counts s1) 0).
    { intro b. cbn. destruct (Nat.eq_dec c b) as [E|E].
      - rewrite <- E. rewrite nth_set_nth_eq by (rewrite (inv_lc _ _ I); exact HcR). lia.
      - rewrite nth_set_nth_neq by exact E. lia. }
    assert (Hcnt_c : nth c (ns_counts s1) 0 = S mc).
    { cbn. rewrite nth_set_nth_eq by (rewrite (inv_lc _ _ I); exact HcR). rewrite Hcnt. reflexivity. }
    assert (Hcnt_other : forall b, b <> c -> nth b (ns_counts s1) 0 = nth b (ns_counts s) 0).
    { intros b Hb. cbn. rewrite nth_set_nth_neq by (intro E; apply Hb; now rewrite E). reflexivity. }
    assert (M1 : mid counts0 k mc rest s1).
    { split; [exact I1|]. split; [exact ND'|]. split; [|split; [|split]].
      - intros c' Hc'. destruct (Hrest c' (or_intror Hc')) as [[i [Hi [Hnot Hb]]] Hcnt'].
        assert (Hne : c' <> c) by (intro E; apply Hcnotin; now rewrite <- E).
        split.
        + exists i. split; [exact Hi|]. split; [|exact Hb]. cbn. intro H. apply in_app_or in H.
          destruct H as [H|[H|[]]]; [contradiction|]. subst i. congruence.
        + rewrite Hcnt_other by exact Hne. exact Hcnt'.
      - intros b Hb. specialize (Hmin b (Hcand_mono b Hb)). specialize (Hcnt_ge b). lia.
      - intros a b [i [Hi Ha]] Hb. cbn in Hi. apply in_app_or in Hi.
        assert (Hb' := Hcand_mono b Hb).
        destruct (Nat.eq_dec a c) as [Ea|Ea].
        + rewrite Ea, Hcnt_c. specialize (Hmin b Hb'). specialize (Hcnt_ge b). lia.
        + destruct Hi as [Hi|[Hi|[]]]; [|subst i; congruence].
          rewrite (Hcnt_other a Ea). specialize (B a b (ex_intro _ i (conj Hi Ha)) Hb').
          specialize (Hcnt_ge b). lia.
      - cbn. rewrite app_length. cbn in *. lia. }
    destruct (IH s1 M1) as [I' [B' L']]. split; [exact I'|]. split; [exact B'|].
    rewrite L'. cbn. rewrite app_length. cbn. lia.
Qed.

(* ---- one round ---- *)
Lemma round_spec counts0 k s : inv counts0 s -> balanced s -> length (ns_sel s) < k -> k <= m ->
  let s' := round ltb dflt niches dist k s in
  inv counts0 s' /\ balanced s' /\ length (ns_sel s) < length (ns_sel s') <= k.
Proof.
  intros I B Hlt Hk. unfold round, round_niches.
  destruct (exists_unselected m (ns_sel s) (inv_nd _ _ I) (inv_lt _ _ I) ltac:(lia)) as [i0 [Hi0 Hn0]].
  assert (Hc0 : has_candidate (ns_sel s) (nth i0 niches 0)) by (exists i0; auto).
  assert (Hc0R := has_candidate_lt _ _ Hc0).
  assert (MS := min_count_spec (ns_avail s) (ns_counts s)). rewrite (inv_lc _ _ I) in MS.
  destruct (min_count niches (ns_avail s) (ns_counts s)) as [mc|].
  2:{ exfalso. specialize (MS _ Hc0R). apply (avail_niche_spec counts0 s _ I) in Hc0. congruence. }
  destruct MS as [[cw [HcwR [Hcwa Hcwc]]] Hmin].
  unfold next_draw. rewrite (inv_lc _ _ I).
  set (sn := filter _ (seq 0 R)). set (sn' := firstn _ _).
  set (s0 := mkns (ns_sel s) (ns_avail s) (ns_counts s) (tl (ns_draws s)) (ns_err s)).
  assert (I0 : inv counts0 s0) by (apply inv_with_draws; exact I).
  assert (Hsn : forall c, In c sn <-> c < R /\ has_candidate (ns_sel s) c /\ nth c (ns_counts s) 0 = mc).
  { intro c. unfold sn. rewrite filter_In, in_seq, andb_true_iff, Nat.eqb_eq, (avail_niche_spec counts0 s c I). split.
    - intros [H1 [H2 H3]]. split; [lia|auto].
    - intros [H1 [H2 H3]]. split; [lia|auto]. }
  assert (NDsn : NoDup sn) by (apply NoDup_filter, seq_NoDup).
  assert (Psh : Permutation (shuffle sn (hd [] (ns_draws s))) sn) by apply shuffle_perm.
  assert (NDsn' : NoDup sn') by (apply firstn_NoDup; eapply Permutation_NoDup; [symmetry; exact Psh|exact NDsn]).
  assert (Hsn' : forall c, In c sn' -> In c sn).
  { intros c Hc. apply firstn_In in Hc. eapply Permutation_in; eauto. }
  assert (Lsn' : 1 <= length sn' <= k - length (ns_sel s)).
  { unfold sn'. rewrite firstn_length.
    assert (1 <= length (shuffle sn (hd [] (ns_draws s)))).
    { rewrite (Permutation_length Psh). assert (In cw sn) by (apply Hsn; split; [exact HcwR|split; [apply (avail_niche_spec counts0 s cw I); exact Hcwa|exact Hcwc]]).
      destruct sn; [contradiction|cbn; lia]. }
    lia. }
  assert (M : mid counts0 k mc sn' s0).
  { split; [exact I0|]. split; [exact NDsn'|]. split; [|split; [|split]].
    - intros c Hc. apply Hsn', Hsn in Hc. tauto.
    - intros b Hb. apply Hmin; [eapply has_candidate_lt; eauto|apply (avail_niche_spec counts0 s b I); exact Hb].
    - exact B.
    - cbn. lia. }
  destruct (fold_pick_spec counts0 k mc sn' s0 M) as [I' [B' L']].
  split; [exact I'|]. split; [exact B'|]. rewrite L'. cbn. lia.
Qed.

(* ---- the while loop ---- *)
Lemma niching_loop_spec counts0 k : forall fuel s,
  inv counts0 s -> balanced s -> length (ns_sel s) <= k -> k <= m -> k - length (ns_sel s) <= fuel ->
  let s' := niching_loop ltb dflt fuel niches dist k s in
  inv counts0 s' /\ balanced s' /\ length (ns_sel s') = k.
Proof.
  induction fuel as [|fuel IH]; intros s I B Hle Hk Hf; cbn [niching_loop].
  - split; [exact I|]. split; [exact B|]. lia.
  - rewrite (inv_ok _ _ I). destruct (Nat.ltb_spec (length (ns_sel s)) k) as [Hlt|Hge].
    + destruct (round_spec counts0 k s I B Hlt Hk) as [I' [B' L']]. apply IH; auto; lia.
    + split; [exact I|]. split; [exact B|]. lia.
Qed.

Lemma nth_repeat_lt {A} (x d : A) : forall n i, i < n -> nth i (repeat x n) d = x.
Proof. induction n as [|n IH]; intros [|i] H; cbn; try lia; auto. apply IH. lia. Qed.

Lemma init_inv counts0 ds : length counts0 = R ->
  inv counts0 (mkns [] (repeat true m) counts0 ds false) /\ balanced (mkns [] (repeat true m) counts0 ds false).
Proof.
  intro L. split.
  - constructor; cbn [ns_sel ns_avail ns_counts ns_err]; auto.
    + apply repeat_length.
    + constructor.
    + intros i [].
    + intros i Hi. split; [intros _ []|intros _]. apply nth_repeat_lt. exact Hi.
  - intros a b [i [[] _]].
Qed.

(* niching: for every draw stream, exactly k distinct members, counts updated, niches balanced *)
Theorem niching_spec k counts0 draws : length counts0 = R -> k <= m ->
  let s := niching ltb dflt k niches dist counts0 draws in
  niching_ok k s = true /\
  length (ns_sel s) = k /\ NoDup (ns_sel s) /\ (forall i, In i (ns_sel s) -> i < m) /\
  (forall c, c < R -> nth c (ns_counts s) 0 = nth c counts0 0 + cnt_sel (ns_sel s) c) /\
  (forall a b, received (ns_sel s) a -> has_candidate (ns_sel s) b ->
               nth a (ns_counts s) 0 <= nth b (ns_counts s) 0 + 1).
Proof.
  intros L Hk. unfold niching. fold m.
  destruct (init_inv counts0 draws L) as [I0 B0].
  destruct (niching_loop_spec counts0 k k _ I0 B0) as [I [B Len]]; cbn; try lia.
  split; [|split; [exact Len|split; [apply (inv_nd _ _ I)|split; [apply (inv_lt _ _ I)|split; [apply (inv_ct _ _ I)|exact B]]]]].
  unfold niching_ok. rewrite (inv_ok _ _ I), Len, Nat.eqb_refl. reflexivity.
Qed.

End Niching.

(* ------------------------------------------------------------------ *)
(* selNSGA3 after association *)
Section Nsga3Core.
Context {T : Type} (ltb : T -> T -> bool) (dflt : T).

Lemma concat_removelast_last {A} (fronts : list (list A)) : fronts <> [] ->
  concat fronts = concat (removelast fronts) ++ last fronts [].
Proof.
  intro H. rewrite (app_removelast_last [] H) at 1. rewrite concat_app. cbn. now rewrite app_nil_r.
Qed.

Lemma nth_skipn {A} (l : list A) c i d : nth i (skipn c l) d = nth (c + i) l d.
Proof. revert l; induction c as [|c IH]; intros [|x l]; cbn; auto. destruct i; reflexivity. Qed.

Lemma NoDup_map_nth (l : list nat) (sel : list nat) : NoDup l -> NoDup sel ->
  (forall i, In i sel -> i < length l) -> NoDup (map (fun i => nth i l 0) sel).
Proof.
  intros NL. induction sel as [|a sel IH]; intros NS Hlt; cbn; [constructor|].
  inversion NS; subst. constructor.
  - intro Hin. apply in_map_iff in Hin. destruct Hin as [b [E Hb]].
    assert (b = a). { eapply (NoDup_nth l 0); eauto; apply Hlt; [now right|now left]. }
    subst b. contradiction.
  - apply IH; auto. intros i Hi. apply Hlt. now right.
Qed.

Theorem nsga3_core_spec (fronts : list (list nat)) (k R : nat) (niches : list nat) (dist : list T) draws :
  fronts <> [] -> NoDup (concat fronts) ->
  length niches = length (concat fronts) -> Forall (fun c => c < R) niches ->
  length (concat (removelast fronts)) < k <= length (concat fronts) ->
  let o := nsga3_core ltb dflt fronts k R niches dist draws in
  o_ok o = true /\
  length (o_chosen o) = k /\ NoDup (o_chosen o) /\
  incl (o_chosen o) (concat fronts) /\
  incl (concat (removelast fronts)) (o_chosen o).
Proof.
  intros Hne ND Ln Hn Hk. unfold nsga3_core.
  set (chosen := concat (removelast fronts)). set (lastf := last fronts []).
  assert (E : concat fronts = chosen ++ lastf) by (apply concat_removelast_last; exact Hne).
  rewrite E in ND, Ln, Hk. rewrite app_length in Ln, Hk.
  set (sc := length chosen) in *. set (n := k - sc).
  set (counts0 := tab R (count_occ_nat (firstn sc niches))).
  assert (Lsk : length (skipn sc niches) = length lastf) by (rewrite skipn_length; lia).
  assert (Hlt : forall i, i < length (skipn sc niches) -> nth i (skipn sc niches) 0 < R).
  { intros i Hi. rewrite nth_skipn. rewrite Forall_forall in Hn. apply Hn. apply nth_In.
    rewrite skipn_length in Hi. lia. }
  destruct (niching_spec ltb dflt (skipn sc niches) (skipn sc dist) R Hlt n counts0 draws
              (tab_length _ _) ltac:(unfold n; lia)) as [Ok [Len [NDs [Hs _]]]].
  cbn [o_ok o_chosen]. split; [exact Ok|].
  set (s := niching ltb dflt n (skipn sc niches) (skipn sc dist) counts0 draws) in *.
  destruct (NoDup_app_inv _ _ ND) as [NDc [NDl Dis]].
  assert (Hs' : forall i, In i (ns_sel s) -> i < length lastf) by (intros i Hi; rewrite <- Lsk; auto).
  split; [|split; [|split]].
  - rewrite app_length, map_length, Len. unfold n. fold sc. change (length (concat (removelast fronts))) with sc in Hk. lia.
  - apply NoDup_app_disj; [exact NDc|apply NoDup_map_nth; assumption|].
    intros x Hx Hx'. apply in_map_iff in Hx'. destruct Hx' as [i [<- Hi]].
    apply (Dis _ Hx). apply nth_In; auto.
  - rewrite E. intros x Hx. apply in_app_or in Hx. apply in_or_app. destruct Hx as [Hx|Hx]; [now left|right].
    apply in_map_iff in Hx. destruct Hx as [i [<- Hi]]. apply nth_In. auto.
  - intros x Hx. apply in_or_app. now left.
Qed.

(* niche balance at the level of selNSGA3: counts = members of the earlier fronts + selected members
   of the last front, per niche; positions i refer to the last front, whose association is niches[sc+i] *)
Theorem nsga3_core_balanced (fronts : list (list nat)) (k R : nat) (niches : list nat) (dist : list T) draws :
  fronts <> [] -> NoDup (concat fronts) ->
  length niches = length (concat fronts) -> Forall (fun c => c < R) niches ->
  length (concat (removelast fronts)) < k <= length (concat fronts) ->
  let o := nsga3_core ltb dflt fronts k R niches dist draws in
  let sc := length (concat (removelast fronts)) in
  let lastf := last fronts [] in
  exists sel,
    o_chosen o = concat (removelast fronts) ++ map (fun i => nth i lastf 0) sel /\
    NoDup sel /\ (forall i, In i sel -> i < length lastf) /\ length sel = k - sc /\
    (forall c, c < R -> nth c (o_counts o) 0 =
                        count_occ_nat (firstn sc niches) c + length (filter (fun i => Nat.eqb (nth (sc + i) niches 0) c) sel)) /\
    (forall a b, (exists i, In i sel /\ nth (sc + i) niches 0 = a) ->
                 (exists i, i < length lastf /\ ~ In i sel /\ nth (sc + i) niches 0 = b) ->
                 nth a (o_counts o) 0 <= nth b (o_counts o) 0 + 1).
Proof.
  intros Hne ND Ln Hn Hk. unfold nsga3_core. cbn zeta.
  set (chosen := concat (removelast fronts)). set (lastf := last fronts []).
  assert (E : concat fronts = chosen ++ lastf) by (apply concat_removelast_last; exact Hne).
  rewrite E in ND, Ln, Hk. rewrite app_length in Ln, Hk.
  set (sc := length chosen) in *. set (n := k - sc).
  set (counts0 := tab R (count_occ_nat (firstn sc niches))).
  assert (Lsk : length (skipn sc niches) = length lastf) by (rewrite skipn_length; lia).
  assert (Hlt : forall i, i < length (skipn sc niches) -> nth i (skipn sc niches) 0 < R).
  { intros i Hi. rewrite nth_skipn. rewrite Forall_forall in Hn. apply Hn. apply nth_In.
    rewrite skipn_length in Hi. lia. }
  destruct (niching_spec ltb dflt (skipn sc niches) (skipn sc dist) R Hlt n counts0 draws
              (tab_length _ _) ltac:(unfold n; lia)) as [Ok [Len [NDs [Hs [Hc Hb]]]]].
  set (s := niching ltb dflt n (skipn sc niches) (skipn sc dist) counts0 draws) in *.
  exists (ns_sel s). cbn [o_chosen o_counts].
  split; [reflexivity|]. split; [exact NDs|]. split; [intros i Hi; rewrite <- Lsk; auto|]. split; [exact Len|]. split.
  - intros c HcR. rewrite (Hc c HcR). unfold counts0. rewrite (nth_tab R _ c 0 HcR). f_equal.
    unfold cnt_sel. f_equal. apply filter_ext. intro i. now rewrite nth_skipn.
  - intros a b [i [Hi Ha]] [j [Hj [Hnj Hbj]]]. apply Hb.
    + exists i. split; [exact Hi|]. now rewrite nth_skipn.
    + exists j. split; [rewrite Lsk; exact Hj|]. split; [exact Hnj|]. now rewrite nth_skipn.
Qed.

(* front priority against any ranking for which `fronts` are the leading fronts *)
Theorem nsga3_front_priority (pop : list nat) (rank : nat -> nat)
        (fronts : list (list nat)) (k R : nat) (niches : list nat) (dist : list T) draws :
  fronts <> [] -> NoDup (concat fronts) ->
  (forall r x, r < length fronts -> (In x (nth r fronts []) <-> In x pop /\ rank x = r)) ->
  length niches = length (concat fronts) -> Forall (fun c => c < R) niches ->
  length (concat (removelast fronts)) < k <= length (concat fronts) ->
  let o := nsga3_core ltb dflt fronts k R niches dist draws in
  forall x y, In x pop -> In y (o_chosen o) -> rank x < rank y -> In x (o_chosen o).
Proof.
  intros Hne ND Hr Ln Hn Hk o x y Hx Hy Hlt.
  destruct (nsga3_core_spec fronts k R niches dist draws Hne ND Ln Hn Hk) as [_ [_ [_ [Hin Hpri]]]].
  fold o in Hin, Hpri. apply Hin in Hy. apply in_concat in Hy. destruct Hy as [fr [Hfr Hy]].
  apply (In_nth _ _ []) in Hfr. destruct Hfr as [b [Hb <-]].
  apply (Hr b y Hb) in Hy. destruct Hy as [_ Hy]. subst b.
  apply Hpri. apply in_concat. exists (nth (rank x) fronts []). split.
  - assert (Hrx : rank x < length (removelast fronts)).
    { rewrite (app_removelast_last [] Hne) in Hb. rewrite app_length in Hb. cbn in Hb. lia. }
    assert (E : nth (rank x) fronts [] = nth (rank x) (removelast fronts) []).
    { rewrite (app_removelast_last [] Hne) at 1. now rewrite app_nth1. }
    rewrite E. apply nth_In. exact Hrx.
  - apply Hr; [lia|]. split; [exact Hx|reflexivity].
Qed.

End Nsga3Core.

(* ------------------------------------------------------------------ *)
(* association: first argmin of the distance to the reference line, over Q *)
From Coq Require Import QArith.
From DV Require Import Model.C07_RefPoints.
Local Open Scope Q_scope.

Lemma q_ltb_false_iff x y : q_ltb x y = false <-> y <= x.
Proof.
  split.
  - intro H. apply Qnot_lt_le. intro L. apply q_ltb_lt in L. congruence.
  - intro H. destruct (q_ltb x y) eqn:E; [|reflexivity]. apply q_ltb_lt in E. exfalso. apply (Qlt_not_le _ _ E H).
Qed.

(* numpy.argmin: the first index whose value is minimal *)
Lemma argmin_vals_spec : forall (vals pre : list Q) besti,
  (besti < length pre)%nat ->
  (forall j, (j < length pre)%nat -> nth besti pre 0 <= nth j pre 0 /\ ((j < besti)%nat -> nth besti pre 0 < nth j pre 0)) ->
  let r := argmin_vals q_ops vals (length pre) besti (nth besti pre 0) in
  let all := pre ++ vals in
  (r < length all)%nat /\
  forall j, (j < length all)%nat -> nth r all 0 <= nth j all 0 /\ ((j < r)%nat -> nth r all 0 < nth j all 0).
Proof.
  induction vals as [|v vals IH]; intros pre besti Hb Hpre; cbn [argmin_vals].
  - cbn zeta. rewrite app_nil_r. split; [exact Hb|exact Hpre].
  - cbn [n_ltb q_ops]. destruct (q_ltb v (nth besti pre 0)) eqn:E.
    + apply q_ltb_lt in E.
      specialize (IH (pre ++ [v]) (length pre)). rewrite app_length in IH. cbn [length] in IH.
      replace (length pre + 1)%nat with (S (length pre)) in IH by lia.
      rewrite app_nth2, Nat.sub_diag in IH by lia. cbn [nth] in IH.
      rewrite <- app_assoc in IH. cbn [app] in IH. apply IH; [lia|].
      intros j Hj. destruct (Nat.eq_dec j (length pre)) as [->|Hne].
      * rewrite app_nth2, Nat.sub_diag by lia. cbn. split; [apply Qle_refl|lia].
      * rewrite app_nth1 by lia. destruct (Hpre j ltac:(lia)) as [H1 _]. split.
        -- apply Qlt_le_weak. eapply Qlt_le_trans; eauto.
        -- intros _. eapply Qlt_le_trans; eauto.
    + apply q_ltb_false_iff in E.
      specialize (IH (pre ++ [v]) besti). rewrite app_length in IH. cbn [length] in IH.
      replace (length pre + 1)%nat with (S (length pre)) in IH by lia.
      rewrite app_nth1 in IH by lia. rewrite <- app_assoc in IH. cbn [app] in IH. apply IH; [lia|].
      intros j Hj. destruct (Nat.eq_dec j (length pre)) as [->|Hne].
      * rewrite app_nth2, Nat.sub_diag by lia. cbn [nth]. split; [exact E|lia].
      * rewrite app_nth1 by lia. apply Hpre. lia.
Qed.

Lemma argmin_list_spec (vals : list Q) : vals <> [] ->
  let r := argmin_list q_ops vals in
  (r < length vals)%nat /\
  forall j, (j < length vals)%nat -> nth r vals 0 <= nth j vals 0 /\ ((j < r)%nat -> nth r vals 0 < nth j vals 0).
Proof.
  destruct vals as [|v vals]; [congruence|]. intros _. unfold argmin_list.
  apply (argmin_vals_spec vals [v] 0%nat); cbn; [lia|].
  intros j Hj. assert (j = 0)%nat by lia. subst. split; [apply Qle_refl|lia].
Qed.

Theorem associate_one_argmin (refs : list (list Q)) (fn : list Q) : refs <> [] ->
  let j := associate_one q_ops refs fn in
  (j < length refs)%nat /\
  forall j', (j' < length refs)%nat ->
    perp_d2 q_ops fn (nth j refs []) <= perp_d2 q_ops fn (nth j' refs []) /\
    ((j' < j)%nat -> perp_d2 q_ops fn (nth j refs []) < perp_d2 q_ops fn (nth j' refs [])).
Proof.
  intros Hne. unfold associate_one.
  assert (Hne' : map (perp_d2 q_ops fn) refs <> []) by (destruct refs; [congruence|discriminate]).
  destruct (argmin_list_spec _ Hne') as [H1 H2]. cbn zeta in *. rewrite map_length in H1, H2.
  split; [exact H1|]. intros j' Hj'. specialize (H2 j' Hj').
  assert (E : forall i, (i < length refs)%nat -> nth i (map (perp_d2 q_ops fn) refs) 0 = perp_d2 q_ops fn (nth i refs [])).
  { intros i Hi. rewrite (nth_indep _ 0 (perp_d2 q_ops fn [])) by (rewrite map_length; exact Hi). apply map_nth. }
  rewrite !E in H2 by assumption. exact H2.
Qed.

(* perp_d2 is the squared distance from fn to the closest point of the line t |-> t*r *)
Fixpoint sdot (a b : list Q) : Q :=
  match a, b with
  | x :: a', y :: b' => x * y + sdot a' b'
  | _, _ => 0
  end.
Definition line_d2 (t : Q) (fn r : list Q) : Q :=
  let diff := map2 (fun x y => t * y - x) fn r in sdot diff diff.

Lemma dot_fold (l : list (Q * Q)) : forall acc acc', acc == acc' ->
  fold_left (fun a p => n_add q_ops a (n_mul q_ops (fst p) (snd p))) l acc ==
  acc' + fold_right (fun p a => fst p * snd p + a) 0 l.
Proof.
  induction l as [|p l IH]; intros acc acc' E; cbn [fold_left fold_right].
  - rewrite E. ring.
  - rewrite (IH _ (acc' + fst p * snd p)).
    + ring.
    + cbn [n_add n_mul q_ops]. rewrite !Qred_correct, E. reflexivity.
Qed.

Lemma fold_right_sdot : forall a b, fold_right (fun p acc => fst p * snd p + acc) 0 (zip a b) = sdot a b.
Proof. induction a as [|x a IH]; intros [|y b]; cbn; auto. now rewrite IH. Qed.

Lemma dot_sdot a b : dot q_ops a b == sdot a b.
Proof. unfold dot. rewrite (dot_fold _ _ 0); [|reflexivity]. rewrite fold_right_sdot. ring. Qed.

Lemma sdot_proper : forall a a' b b', Forall2 Qeq a a' -> Forall2 Qeq b b' -> sdot a b == sdot a' b'.
Proof.
  induction a as [|x a IH]; intros a' b b' Ha Hb; inversion Ha as [|? x' ? ta Ex Hta]; subst; [reflexivity|].
  inversion Hb as [|y y' tb tb' Ey Htb]; subst; [reflexivity|]. cbn [sdot].
  rewrite Ex, Ey, (IH ta tb tb' Hta Htb). reflexivity.
Qed.

Lemma line_d2_expand t : forall fn r, length fn = length r ->
  line_d2 t fn r == t * t * sdot r r - 2 * t * sdot fn r + sdot fn fn.
Proof.
  unfold line_d2. induction fn as [|x fn IH]; intros [|y r] H; cbn in H; try lia.
  - cbn. ring.
  - cbn [map2 sdot]. rewrite IH by lia. ring.
Qed.

Lemma sdot_self_nonneg : forall r, 0 <= sdot r r.
Proof.
  induction r as [|y r IH]; cbn [sdot]; [apply Qle_refl|].
  rewrite <- (Qplus_0_l 0). apply Qplus_le_compat; [|exact IH].
  destruct (Qlt_le_dec y 0) as [Hn|Hp].
  - setoid_replace (y * y) with ((- y) * (- y)) by ring.
    apply Qmult_le_0_compat; apply Qlt_le_weak; rewrite <- (Qopp_involutive 0); apply Qopp_lt_compat; exact Hn.
  - apply Qmult_le_0_compat; exact Hp.
Qed.

Lemma map2_line_proper t0 t1 : t0 == t1 -> forall fn r,
  Forall2 Qeq (map2 (fun x y => Qred (Qred (t0 * y) - x)) fn r) (map2 (fun x y => t1 * y - x) fn r).
Proof.
  intros Et. induction fn as [|x fn IH]; intros [|y r]; cbn [map2]; constructor.
  - rewrite !Qred_correct, Et. reflexivity.
  - apply IH.
Qed.

Lemma perp_d2_line fn r :
  perp_d2 q_ops fn r == line_d2 (sdot fn r / sdot r r) fn r.
Proof.
  unfold perp_d2, line_d2. rewrite dot_sdot. cbn [n_div n_sub n_mul q_ops].
  assert (Et : Qred (dot q_ops fn r / dot q_ops r r) == sdot fn r / sdot r r) by (rewrite Qred_correct, !dot_sdot; reflexivity).
  apply sdot_proper; apply map2_line_proper; exact Et.
Qed.

(* no point of the line through the origin with direction r is closer to fn *)
Theorem perp_d2_minimal fn r t : length fn = length r -> ~ sdot r r == 0 ->
  perp_d2 q_ops fn r <= line_d2 t fn r.
Proof.
  intros L Hrr. rewrite perp_d2_line. set (ts := sdot fn r / sdot r r).
  assert (E : line_d2 t fn r - line_d2 ts fn r == sdot r r * ((t - ts) * (t - ts))).
  { rewrite !line_d2_expand by exact L. unfold ts. field. exact Hrr. }
  apply Qle_minus_iff. setoid_replace (line_d2 t fn r + - line_d2 ts fn r) with (line_d2 t fn r - line_d2 ts fn r) by ring.
  rewrite E. apply Qmult_le_0_compat; [apply sdot_self_nonneg|].
  destruct (Qlt_le_dec (t - ts) 0) as [Hn|Hp].
  - setoid_replace ((t - ts) * (t - ts)) with ((- (t - ts)) * (- (t - ts))) by ring.
    apply Qmult_le_0_compat; apply Qlt_le_weak; rewrite <- (Qopp_involutive 0); apply Qopp_lt_compat; exact Hn.
  - apply Qmult_le_0_compat; exact Hp.
Qed.

(* ------------------------------------------------------------------ *)
(* best / worst point memory *)
Local Close Scope Q_scope.

(* best / worst points: coordinatewise extremes of everything seen *)
Lemma col_fold_min_spec : forall (rest : list (list Z)) (r : list Z) c,
  (forall row, In row rest -> length row = length r) -> (c < length r)%nat ->
  let b := nth c (fold_left (fun acc row => map2 Z.min acc row) rest r) 0%Z in
  (b <= nth c r 0)%Z /\ (forall row, In row rest -> (b <= nth c row 0)%Z) /\
  (b = nth c r 0%Z \/ exists row, In row rest /\ b = nth c row 0%Z).
Proof.
  induction rest as [|x rest IH]; intros r c Hl Hc; cbn [fold_left].
  - cbn zeta. split; [lia|]. split; [intros row []|now left].
  - assert (Lx : length x = length r) by (apply Hl; now left).
    assert (Lm : length (map2 Z.min r x) = length r) by (rewrite map2_length; lia).
    assert (Nm : nth c (map2 Z.min r x) 0%Z = Z.min (nth c r 0%Z) (nth c x 0%Z)).
    { clear - Lx Hc. revert x c Lx Hc. induction r as [|a r IHr]; intros [|b x] c Lx Hc; cbn in *; try lia.
      destruct c; [reflexivity|]. apply IHr; lia. }
    destruct (IH (map2 Z.min r x) c) as [H1 [H2 H3]].
    { intros row Hrow. rewrite Lm. apply Hl. now right. }
    { rewrite Lm. exact Hc. }
    cbn zeta in *. rewrite Nm in H1, H3. split; [lia|]. split.
    + intros row [<-|Hrow]; [lia|auto].
    + destruct H3 as [H3|[row [Hr H3]]].
      * destruct (Z.min_spec (nth c r 0%Z) (nth c x 0%Z)) as [[_ E]|[_ E]]; rewrite E in H3.
        -- now left.
        -- right. exists x. split; [now left|exact H3].
      * right. exists row. split; [now right|exact H3].
Qed.

(* numpy.min(concatenate((fitnesses, best_point)), axis=0): every coordinate is a lower bound of
   that coordinate over all rows (and the remembered point), and is attained *)
Theorem update_best_spec (prev : option (list Z)) (fits : list (list Z)) (M c : nat) :
  fits <> [] -> (forall row, In row fits -> length row = M) ->
  (match prev with Some b => length b = M | None => True end) -> (c < M)%nat ->
  let rows := fits ++ match prev with Some b => [b] | None => [] end in
  let v := nth c (update_best prev fits) 0%Z in
  (forall row, In row rows -> (v <= nth c row 0)%Z) /\ (exists row, In row rows /\ v = nth c row 0%Z).
Proof.
  intros Hne Hl Hp Hc rows v. unfold v, update_best, col_fold. fold rows.
  assert (Hrows : forall row, In row rows -> length row = M).
  { intros row Hr. unfold rows in Hr. apply in_app_or in Hr. destruct Hr as [Hr|Hr]; [auto|].
    destruct prev as [b|]; [destruct Hr as [<-|[]]; exact Hp|destruct Hr]. }
  destruct rows as [|r rest] eqn:E; [destruct fits; [congruence|discriminate]|].
  assert (Lr : length r = M) by (apply Hrows; now left).
  destruct (col_fold_min_spec rest r c) as [H1 [H2 H3]].
  { intros row Hr. rewrite Lr. apply Hrows. now right. }
  { rewrite Lr. exact Hc. }
  cbn zeta in *. split.
  - intros row [<-|Hr]; [exact H1|auto].
  - destruct H3 as [H3|[row [Hr H3]]]; [exists r; split; [now left|exact H3]|exists row; split; [now right|exact H3]].
Qed.

(* find_extreme_points: the i-th extreme point is a row of the input that minimises the i-th ASF *)
Lemma argmin_z_from_spec : forall (vals pre : list Z) besti,
  (besti < length pre)%nat ->
  (forall j, (j < length pre)%nat -> (nth besti pre 0 <= nth j pre 0)%Z) ->
  let r := argmin_z_from vals (length pre) besti (nth besti pre 0%Z) in
  (r < length (pre ++ vals))%nat /\
  forall j, (j < length (pre ++ vals))%nat -> (nth r (pre ++ vals) 0 <= nth j (pre ++ vals) 0)%Z.
Proof.
  induction vals as [|v vals IH]; intros pre besti Hb Hpre; cbn [argmin_z_from].
  - cbn zeta. rewrite app_nil_r. split; [exact Hb|exact Hpre].
  - destruct (Z.ltb_spec v (nth besti pre 0%Z)) as [L|L].
    + specialize (IH (pre ++ [v]) (length pre)). rewrite app_length in IH. cbn [length] in IH.
      replace (length pre + 1)%nat with (S (length pre)) in IH by lia.
      rewrite app_nth2, Nat.sub_diag in IH by lia. cbn [nth] in IH.
      rewrite <- app_assoc in IH. cbn [app] in IH. apply IH; [lia|].
      intros j Hj. destruct (Nat.eq_dec j (length pre)) as [->|Hne].
      * rewrite app_nth2, Nat.sub_diag by lia. cbn. lia.
      * rewrite app_nth1 by lia. specialize (Hpre j ltac:(lia)). lia.
    + specialize (IH (pre ++ [v]) besti). rewrite app_length in IH. cbn [length] in IH.
      replace (length pre + 1)%nat with (S (length pre)) in IH by lia.
      rewrite app_nth1 in IH by lia. rewrite <- app_assoc in IH. cbn [app] in IH. apply IH; [lia|].
      intros j Hj. destruct (Nat.eq_dec j (length pre)) as [->|Hne].
      * rewrite app_nth2, Nat.sub_diag by lia. cbn [nth]. lia.
      * rewrite app_nth1 by lia. apply Hpre. lia.
Qed.

Lemma argmin_z_spec (vals : list Z) : vals <> [] ->
  (argmin_z vals < length vals)%nat /\ forall j, (j < length vals)%nat -> (nth (argmin_z vals) vals 0 <= nth j vals 0)%Z.
Proof.
  destruct vals as [|v vals]; [congruence|]. intros _. unfold argmin_z.
  apply (argmin_z_from_spec vals [v] 0%nat); cbn; [lia|]. intros j Hj. assert (j = 0)%nat by lia. subst. lia.
Qed.

Theorem find_extreme_points_spec fits best prev i :
  let rows := fits ++ match prev with Some e => e | None => [] end in
  rows <> [] -> (i < length best)%nat ->
  let e := nth i (find_extreme_points fits best prev) [] in
  In e rows /\ forall row, In row rows -> (asf_val best i e <= asf_val best i row)%Z.
Proof.
  intros rows Hne Hi e. unfold e, find_extreme_points. fold rows.
  rewrite (nth_indep _ [] ((fun i => nth (argmin_z (map (asf_val best i) rows)) rows []) 0%nat)) by (rewrite map_length, seq_length; exact Hi).
  rewrite (map_nth (fun i => nth (argmin_z (map (asf_val best i) rows)) rows [])), seq_nth by exact Hi. cbn [plus].
  assert (Hne' : map (asf_val best i) rows <> []) by (destruct rows; [congruence|discriminate]).
  destruct (argmin_z_spec _ Hne') as [H1 H2]. rewrite map_length in H1, H2.
  split; [apply nth_In; exact H1|].
  intros row Hrow. apply (In_nth _ _ []) in Hrow. destruct Hrow as [j [Hj <-]].
  specialize (H2 j Hj).
  rewrite !(nth_indep _ 0%Z (asf_val best i [])) in H2 by (rewrite map_length; assumption).
  rewrite !(map_nth (asf_val best i)) in H2. exact H2.
Qed.

(* the association always lands on an existing reference point *)
Lemma associate_lt (eps : Q) fits refs best icpt : refs <> [] ->
  Forall (fun c => (c < length refs)%nat) (associate q_ops eps fits refs best icpt) /\
  length (associate q_ops eps fits refs best icpt) = length fits.
Proof.
  intro H. unfold associate. split; [|apply map_length].
  apply Forall_forall. intros c Hc. apply in_map_iff in Hc. destruct Hc as [f [<- _]].
  apply (associate_one_argmin refs _ H).
Qed.

(* selNSGA3 with the model's own association *)
Theorem nsga3_spec (eps : Q) fits fronts k refs best icpt dist draws :
  refs <> [] -> fronts <> [] -> NoDup (concat fronts) -> length fits = length (concat fronts) ->
  (length (concat (removelast fronts)) < k <= length (concat fronts))%nat ->
  let o := snd (nsga3 q_ops eps fits fronts k refs best icpt dist draws) in
  o_ok o = true /\ length (o_chosen o) = k /\ NoDup (o_chosen o) /\
  incl (o_chosen o) (concat fronts) /\ incl (concat (removelast fronts)) (o_chosen o).
Proof.
  intros Hr Hf ND L Hk. unfold nsga3. cbn [snd].
  destruct (associate_lt eps fits refs best icpt Hr) as [A B].
  apply nsga3_core_spec; auto. now rewrite B.
Qed.

Lemma associate_nth (eps : Q) fits refs best icpt i : (i < length fits)%nat ->
  nth i (associate q_ops eps fits refs best icpt) 0%nat =
  associate_one q_ops refs (normalise q_ops eps (nth i fits []) best icpt).
Proof.
  intro Hi. unfold associate.
  rewrite (nth_indep _ 0%nat ((fun f => associate_one q_ops refs (normalise q_ops eps f best icpt)) [])) by (rewrite map_length; exact Hi).
  apply (map_nth (fun f => associate_one q_ops refs (normalise q_ops eps f best icpt))).
Qed.
