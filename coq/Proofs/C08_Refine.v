(* Refinement: as long as only update / clear / insert / valid remove are used, the two parallel
   lists of the archive never drift:  keys = rev (map fitness items)  and items stay sorted.
   The raw model (Python index arithmetic, bisect, exceptions) is shown equal to a clean model
   on the item list alone; the property proofs (C08_Hof.v, C08_Pf.v) work on the clean model. *)
From Coq Require Import List ZArith Bool Lia Sorted.
From DV Require Import Base.PyTuple Base.PyList Model.C01_Fitness Model.C08_Archive Proofs.C08_Lists.
Import ListNotations.
Local Open Scope Z_scope.

Section Refine.
  Variable ind : Type.
  Variable fitness : ind -> list Z.

  Notation hof := (hof ind).
  Notation insert := (insert ind fitness).
  Notation remove := (remove ind).

  (* the archive determined by its item list *)
  Definition mirror (its : list ind) : hof := mkhof (rev (map fitness its)) its.

  (* best first: every member is at least as good as every later member *)
  Definition ge_ind (a b : ind) : Prop := fit_lt (fitness a) (fitness b) = false.
  Definition desc (its : list ind) : Prop := StronglySorted ge_ind its.

  (* ---- clean insert: before the first member that is not strictly better ---- *)
  Fixpoint ins (x : ind) (its : list ind) : list ind :=
    match its with
    | [] => [x]
    | h :: r => if fit_lt (fitness x) (fitness h) then h :: ins x r else x :: its
    end.

  Lemma ins_split x its : desc its ->
    exists p q, its = p ++ q /\ ins x its = p ++ x :: q /\
      (forall h, In h p -> fit_lt (fitness x) (fitness h) = true) /\
      (forall h, In h q -> fit_lt (fitness x) (fitness h) = false).
  Proof.
    induction its as [|h r IH]; intro D.
    - exists [], []. cbn. repeat split; intros ? [].
    - inversion D as [|? ? D' F]; subst. cbn [ins].
      destruct (fit_lt (fitness x) (fitness h)) eqn:E.
      + destruct (IH D') as (p & q & -> & E2 & Hp & Hq).
        exists (h :: p), q. cbn. rewrite E2. repeat split; [|assumption].
        intros h' [<-|H']; auto.
      + exists [], (h :: r). cbn. repeat split; [intros ? []|].
        intros h' [<-|H']; [assumption|].
        rewrite Forall_forall in F. specialize (F h' H'). unfold ge_ind in F.
        (* x >= h and h >= h'  ->  x >= h'  i.e.  not (x < h') *)
        destruct (fit_lt (fitness x) (fitness h')) eqn:E'; [|reflexivity].
        assert (fit_lt (fitness x) (fitness h) = true) by (eapply fit_lt_ge_trans; eassumption).
        congruence.
  Qed.

  Lemma ins_In x its y : In y (ins x its) <-> y = x \/ In y its.
  Proof.
    induction its as [|h r IH]; cbn; [intuition|].
    destruct (fit_lt (fitness x) (fitness h)); cbn; rewrite ?IH; intuition.
  Qed.

  Lemma ins_length x its : length (ins x its) = S (length its).
  Proof. induction its as [|h r IH]; cbn; [reflexivity|]. destruct (fit_lt _ _); cbn; auto. Qed.

  Lemma ins_desc x its : desc its -> desc (ins x its).
  Proof.
    induction its as [|h r IH]; intro D; cbn.
    - constructor; constructor.
    - inversion D as [|? ? D' F]; subst.
      destruct (fit_lt (fitness x) (fitness h)) eqn:E.
      + constructor; [exact (IH D')|]. rewrite Forall_forall in *. intros y Hy.
        apply ins_In in Hy. destruct Hy as [->|Hy]; [|auto].
        unfold ge_ind. now apply fit_lt_asym.
      + constructor; [assumption|]. constructor; [exact E|].
        rewrite Forall_forall in *. intros y Hy. unfold ge_ind in *.
        eapply fit_ge_trans; [exact E|auto].
  Qed.

  Lemma desc_app p q : desc (p ++ q) -> desc p /\ desc q /\
    forall a b, In a p -> In b q -> ge_ind a b.
  Proof.
    induction p as [|x p IH]; cbn; intro D.
    - repeat split; [constructor|assumption|intros ? ? []].
    - inversion D as [|? ? D' F]; subst. destruct (IH D') as (Dp & Dq & C).
      rewrite Forall_forall in F. repeat split; [|assumption|].
      + constructor; [assumption|]. rewrite Forall_forall. intros y Hy. apply F, in_or_app. auto.
      + intros a b [<-|Ha] Hb; [apply F, in_or_app; auto|auto].
  Qed.

  Lemma desc_app_intro p q : desc p -> desc q ->
    (forall a b, In a p -> In b q -> ge_ind a b) -> desc (p ++ q).
  Proof.
    induction p as [|x p IH]; cbn; intros Dp Dq C; [assumption|].
    inversion Dp as [|? ? Dp' F]; subst. constructor.
    - apply IH; auto.
    - rewrite Forall_forall in *. intros y Hy. apply in_app_or in Hy. destruct Hy; auto.
  Qed.

  Lemma desc_del_nth its k : desc its -> desc (del_nth its k).
  Proof.
    revert k; induction its as [|x r IH]; intros k D; cbn; [constructor|].
    inversion D as [|? ? D' F]; subst. destruct k; [assumption|].
    constructor; [apply IH, D'|]. rewrite Forall_forall in *. intros y Hy. apply F. eapply del_nth_In; eassumption.
  Qed.

  Lemma desc_filter f its : desc its -> desc (filter f its).
  Proof.
    induction its as [|x r IH]; intro D; cbn; [constructor|].
    inversion D as [|? ? D' F]; subst. destruct (f x); [|apply IH, D'].
    constructor; [apply IH, D'|]. rewrite Forall_forall in *. intros y Hy. apply filter_In in Hy. apply F, Hy.
  Qed.

  (* ---- insert keeps the mirror ---- *)
  Lemma insert_refine its x : desc its -> insert (mirror its) x = mirror (ins x its).
  Proof.
    intro D. destruct (ins_split x its D) as (p & q & -> & E & Hp & Hq).
    unfold insert, mirror. cbn [keys items]. rewrite E.
    rewrite !map_app, !rev_app_distr. cbn [map rev].
    rewrite <- !app_assoc. cbn [app].
    rewrite (bisect_right_split (fitness x) (rev (map fitness q)) (rev (map fitness p))).
    - unfold hlen. cbn [items]. rewrite zlen_app.
      replace (zlen p + zlen q - Z.of_nat (length (rev (map fitness q)))) with (zlen p)
        by (rewrite rev_length, map_length; unfold zlen; lia).
      rewrite py_insert_app.
      replace (Z.of_nat (length (rev (map fitness q)))) with (zlen (rev (map fitness q))) by reflexivity.
      rewrite py_insert_app. reflexivity.
    - intros y Hy. apply in_rev, in_map_iff in Hy. destruct Hy as (h & <- & Hh). auto.
    - intros y Hy. apply in_rev, in_map_iff in Hy. destruct Hy as (h & <- & Hh). auto.
  Qed.

  Lemma mod_neg_index k n : 0 <= k < n -> (k - n) mod n = k.
  Proof.
    intro H. replace (k - n) with (k + (-1) * n) by lia.
    rewrite Z_mod_plus_full. apply Z.mod_small; lia.
  Qed.

  (* ---- remove keeps the mirror: index k, given as k or as k - len ---- *)
  Lemma remove_refine its (k : nat) (i : Z) : (k < length its)%nat ->
    i = Z.of_nat k \/ i = Z.of_nat k - zlen its ->
    remove (mirror its) i = Some (mirror (del_nth its k)).
  Proof.
    intros H Hi. unfold remove, mirror, hlen. cbn [keys items].
    set (n := zlen its). assert (Hn : n = Z.of_nat (length its)) by reflexivity.
    destruct (Z.eqb_spec n 0) as [E0|_]; [lia|].
    assert (Em : i mod n = Z.of_nat k).
    { destruct Hi as [->| ->].
      - apply Z.mod_small. lia.
      - apply mod_neg_index. lia. }
    rewrite Em.
    replace (n - (Z.of_nat k + 1)) with (Z.of_nat (length its - 1 - k)) by lia.
    rewrite py_del_nonneg by (rewrite rev_length, map_length; lia).
    assert (Ei : py_del its i = Some (del_nth its k)).
    { destruct Hi as [->| ->]; [apply py_del_nonneg|apply py_del_neg]; assumption. }
    rewrite Ei. f_equal. f_equal.
    rewrite <- (map_length fitness its). rewrite del_nth_rev by (rewrite map_length; assumption).
    f_equal. clear. revert k; induction its as [|x r IH]; intro k; cbn; [reflexivity|].
    destruct k; cbn; [reflexivity|]. now rewrite IH.
  Qed.

  Lemma remove_last_refine its : its <> [] ->
    remove (mirror its) (-1) = Some (mirror (removelast its)).
  Proof.
    intro H. rewrite <- del_nth_last by assumption.
    assert (0 < length its)%nat by (destruct its; [congruence|cbn; lia]).
    apply remove_refine; [lia|]. right. unfold zlen. lia.
  Qed.

  (* ================= HallOfFame.update ================= *)
  Variable similar : ind -> ind -> bool.

  Definition hstep (m : Z) (its : list ind) (x : ind) : list ind :=
    match its with
    | [] => [x]
    | _ =>
        if fit_lt (fitness (last its x)) (fitness x) || (zlen its <? m) then
          if existsb (similar x) its then its
          else ins x (if zlen its >=? m then removelast its else its)
        else its
    end.

  Lemma desc_removelast its : desc its -> desc (removelast its).
  Proof.
    intro D. destruct its as [|a r]; [assumption|].
    rewrite <- del_nth_last by discriminate. now apply desc_del_nth.
  Qed.

  Lemma hstep_desc m its x : desc its -> desc (hstep m its x).
  Proof.
    intro D. unfold hstep. destruct its as [|a r]; [constructor; constructor|].
    destruct (_ || _); [|assumption]. destruct (existsb _ _); [assumption|].
    apply ins_desc. destruct (_ >=? _); [now apply desc_removelast|assumption].
  Qed.

  Lemma hstep_nonempty m its x : hstep m its x <> [].
  Proof.
    unfold hstep. destruct its as [|a r]; [discriminate|].
    destruct (_ || _); [|discriminate]. destruct (existsb _ _); [discriminate|].
    intro E. apply (f_equal (@length _)) in E. rewrite ins_length in E. discriminate.
  Qed.

  Lemma hof_step_refine m p0 its x : 1 <= m -> desc its -> (its = [] -> p0 = Some x) ->
    hof_step ind fitness similar m p0 (Some (mirror its)) x = Some (mirror (hstep m its x)).
  Proof.
    intros Hm D H0. unfold hof_step, hstep.
    destruct its as [|a r].
    - rewrite (H0 eq_refl). unfold hlen. cbn [mirror items zlen length].
      destruct (Z.eqb_spec m 0); [lia|]. cbn. reflexivity.
    - set (its := a :: r) in *. assert (Hne : its <> []) by discriminate.
      unfold hlen. cbn [mirror items].
      assert (Hl : 1 <= zlen its) by (unfold its; rewrite zlen_cons; pose proof (zlen_nonneg r); lia).
      destruct (Z.eqb_spec (zlen its) 0); [lia|]. cbn [andb].
      rewrite (py_get_last its x Hne). rewrite fit_gt_lt.
      destruct (fit_lt (fitness (last its x)) (fitness x) || (zlen its <? m)); [|reflexivity].
      destruct (existsb (similar x) its); [reflexivity|].
      destruct (zlen its >=? m).
      + change (mkhof (rev (map fitness its)) its) with (mirror its).
        rewrite (remove_last_refine its Hne). f_equal. apply insert_refine. now apply desc_removelast.
      + f_equal. apply insert_refine. assumption.
  Qed.

  Lemma hof_update_refine_gen m : 1 <= m -> forall pop its p0, desc its ->
    (its = [] -> pop = [] \/ p0 = hd_error pop) ->
    fold_left (hof_step ind fitness similar m p0) pop (Some (mirror its)) =
    Some (mirror (fold_left (hstep m) pop its)).
  Proof.
    intros Hm. induction pop as [|x r IH]; intros its p0 D H0; [reflexivity|].
    cbn [fold_left]. rewrite hof_step_refine; try assumption.
    - apply IH; [now apply hstep_desc|]. intro E. exfalso. eapply hstep_nonempty; eassumption.
    - intro E. destruct (H0 E) as [C|C]; [discriminate|exact C].
  Qed.

  Lemma hof_update_refine m its pop : 1 <= m -> desc its ->
    hof_update ind fitness similar m (mirror its) pop = Some (mirror (fold_left (hstep m) pop its)).
  Proof. intros Hm D. unfold hof_update. apply hof_update_refine_gen; auto. Qed.

  Lemma fold_hstep_desc m pop its : desc its -> desc (fold_left (hstep m) pop its).
  Proof. revert its; induction pop as [|x r IH]; intros its D; cbn; [assumption|]. apply IH, hstep_desc, D. Qed.

  (* whole histories: the batch structure disappears *)
  Theorem hof_run_refine m batches : 1 <= m ->
    hof_run ind fitness similar m batches = Some (mirror (fold_left (hstep m) (concat batches) [])) /\
    desc (fold_left (hstep m) (concat batches) []).
  Proof.
    intro Hm. unfold hof_run.
    assert (G : forall bs its, desc its ->
      fold_left (fun o b => match o with None => None | Some h => hof_update ind fitness similar m h b end)
                bs (Some (mirror its)) = Some (mirror (fold_left (hstep m) (concat bs) its)) /\
      desc (fold_left (hstep m) (concat bs) its)).
    { induction bs as [|b bs IH]; intros its D; cbn [fold_left concat]; [split; [reflexivity|assumption]|].
      rewrite hof_update_refine by assumption. rewrite fold_left_app.
      apply IH. now apply fold_hstep_desc. }
    apply (G batches []). constructor.
  Qed.

  (* ================= ParetoFront.update ================= *)
  Definition del_all (its : list ind) (idx : list Z) : list ind :=
    fold_left (fun l i => del_nth l (Z.to_nat i)) idx its.

  Definition pstep (its : list ind) (x : ind) : list ind :=
    let '(is_dominated, has_twin, to_remove) := pf_scan ind fitness similar x its 0 false [] in
    let its1 := del_all its (rev to_remove) in
    if negb is_dominated && negb has_twin then ins x its1 else its1.

  (* strictly decreasing, non-negative indices below a bound *)
  Fixpoint dec_below (b : Z) (idx : list Z) : Prop :=
    match idx with
    | [] => True
    | i :: r => 0 <= i < b /\ dec_below i r
    end.

  Lemma remove_all_refine idx : forall its, dec_below (zlen its) idx -> desc its ->
    remove_all ind (mirror its) idx = Some (mirror (del_all its idx)) /\ desc (del_all its idx).
  Proof.
    induction idx as [|i r IH]; intros its B D; [split; [reflexivity|assumption]|].
    destruct B as [Bi Br]. unfold remove_all, del_all. cbn [fold_left].
    assert (Hk : (Z.to_nat i < length its)%nat) by (unfold zlen in Bi; lia).
    rewrite (remove_refine its (Z.to_nat i) i Hk) by (left; lia).
    apply IH; [|now apply desc_del_nth].
    clear IH. assert (L : zlen (del_nth its (Z.to_nat i)) = zlen its - 1).
    { unfold zlen. rewrite del_nth_length by assumption. lia. }
    destruct r as [|j r']; [exact I|]. destruct Br as [Bj Br']. split; [lia|assumption].
  Qed.

  (* the scan appends increasing indices starting at i *)
  Fixpoint inc_from (lo : Z) (idx : list Z) (hi : Z) : Prop :=
    match idx with
    | [] => True
    | i :: r => lo <= i < hi /\ inc_from (i + 1) r hi
    end.

  Lemma inc_from_app lo a b hi : inc_from lo (a ++ [b]) hi <-> inc_from lo a b /\ (lo <= b < hi).
  Proof.
    revert lo; induction a as [|x a IH]; intro lo; cbn.
    - intuition.
    - rewrite IH. cbn. intuition lia.
  Qed.

  Lemma inc_from_weaken lo idx hi hi' : hi <= hi' -> inc_from lo idx hi -> inc_from lo idx hi'.
  Proof. revert lo; induction idx as [|x a IH]; intros lo H; cbn; [auto|]. intros [B R]. split; [lia|eauto]. Qed.

  Lemma pf_scan_inc x : forall hs i d1 tr isd tw tr',
    0 <= i -> inc_from 0 tr i ->
    pf_scan ind fitness similar x hs i d1 tr = (isd, tw, tr') ->
    inc_from 0 tr' (i + zlen hs).
  Proof.
    induction hs as [|h r IH]; intros i d1 tr isd tw tr' Hi Inc E; cbn [pf_scan] in E.
    - inversion E; subst. eapply inc_from_weaken; [|eassumption]. pose proof (@zlen_nonneg ind []). lia.
    - rewrite zlen_cons. pose proof (zlen_nonneg r).
      destruct (negb d1 && fit_dom (fitness h) (fitness x)).
      { inversion E; subst. eapply inc_from_weaken; [|eassumption]. lia. }
      destruct (fit_dom (fitness x) (fitness h)).
      { replace (i + (1 + zlen r)) with (i + 1 + zlen r) by lia. eapply IH; [| |exact E]; [lia|].
        apply inc_from_app. split; [assumption|lia]. }
      destruct (fit_eq (fitness x) (fitness h) && similar x h).
      { inversion E; subst. eapply inc_from_weaken; [|eassumption]. lia. }
      replace (i + (1 + zlen r)) with (i + 1 + zlen r) by lia. eapply IH; [| |exact E]; [lia|].
      eapply inc_from_weaken; [|eassumption]. lia.
  Qed.

  Lemma inc_rev_dec idx : forall lo hi, 0 <= lo -> inc_from lo idx hi -> dec_below hi (rev idx).
  Proof.
    induction idx as [|a idx IH] using rev_ind; intros lo hi Hlo Inc; [exact I|].
    rewrite rev_app_distr. cbn [rev app]. apply inc_from_app in Inc. destruct Inc as [Inc B].
    split; [lia|]. eapply IH; eassumption.
  Qed.

  Lemma pf_step_refine its x : desc its ->
    pf_step ind fitness similar (Some (mirror its)) x = Some (mirror (pstep its x)) /\ desc (pstep its x).
  Proof.
    intro D. unfold pf_step, pstep. cbn [mirror items].
    destruct (pf_scan ind fitness similar x its 0 false []) as [[isd tw] tr] eqn:E.
    assert (Inc : inc_from 0 tr (0 + zlen its)).
    { eapply pf_scan_inc; [| |exact E]; [lia|exact I]. }
    change (mkhof (rev (map fitness its)) its) with (mirror its).
    destruct (remove_all_refine (rev tr) its) as [R D1]; [eapply inc_rev_dec; [|exact Inc]; lia|assumption|].
    rewrite R. destruct (negb isd && negb tw).
    - split; [f_equal; now apply insert_refine|now apply ins_desc].
    - split; [reflexivity|assumption].
  Qed.

  Lemma pf_update_refine pop : forall its, desc its ->
    pf_update ind fitness similar (mirror its) pop = Some (mirror (fold_left pstep pop its)) /\
    desc (fold_left pstep pop its).
  Proof.
    unfold pf_update. induction pop as [|x r IH]; intros its D; cbn [fold_left]; [split; [reflexivity|assumption]|].
    destruct (pf_step_refine its x D) as [E D']. rewrite E. apply IH, D'.
  Qed.

  Theorem pf_run_refine batches :
    pf_run ind fitness similar batches = Some (mirror (fold_left pstep (concat batches) [])) /\
    desc (fold_left pstep (concat batches) []).
  Proof.
    unfold pf_run.
    assert (G : forall bs its, desc its ->
      fold_left (fun o b => match o with None => None | Some h => pf_update ind fitness similar h b end)
                bs (Some (mirror its)) = Some (mirror (fold_left pstep (concat bs) its)) /\
      desc (fold_left pstep (concat bs) its)).
    { induction bs as [|b bs IH]; intros its D; cbn [fold_left concat]; [split; [reflexivity|assumption]|].
      destruct (pf_update_refine b its D) as [E D']. rewrite E. rewrite fold_left_app. apply IH, D'. }
    apply (G batches []). constructor.
  Qed.
End Refine.
