(* Tie (T) of property C08: the C08 theorems transported to the regenerated definitions (Gen/C08_gen.v packaged
   by Model/C08_GenApi.v) through the equivalence lemmas of Proofs/C08_gen_equiv.v.  Compiled on every run. *)
From Coq Require Import List ZArith Bool.
From DV Require Import Base.PyTuple Base.PyList Model.C01_Fitness Model.C08_Archive Model.C08_Heap
  Proofs.C08_Lists Proofs.C08_Refine Proofs.C08_Hof Proofs.C08_Pf Proofs.C08_More Proofs.C08_HeapSim
  Model.C08_GenRt Gen.C08_gen Model.C08_GenApi Proofs.C08_gen_equiv.
Import ListNotations.
Local Open Scope Z_scope.

(* update / clear histories on the regenerated methods (cf. final in Proofs/C08_More.v) *)
Definition gen_final (ind : Type) (fitness : ind -> list Z) (similar : ind -> ind -> bool)
  (kind : option Z) (us : list (uop ind)) : option (hof ind) :=
  fold_left (fun o u => match o with
                        | None => None
                        | Some h => gen_apply_op ind fitness similar kind h (to_op ind u)
                        end) us (Some empty).

Lemma gen_final_eq ind fitness similar kind us :
  gen_final ind fitness similar kind us = final ind fitness similar kind us.
Proof.
  unfold gen_final, final. apply fold_ext. intros [h|] u; [apply gen_apply_op_eq|reflexivity].
Qed.

Lemma gen_remove_out_of_range :
  forall (ind : Type) (fitness : ind -> list Z) (similar : ind -> ind -> bool) (h : hof ind) (i : Z),
  i < - hlen h \/ hlen h <= i -> run_u (@gen_remove (VW ind fitness similar) i) h = None.
Proof.
  intros ind fitness similar h i H. unfold run_u. rewrite gen_remove_v.
  now rewrite (remove_out_of_range ind h i H).
Qed.

Lemma gen_hof_shape_thm :
  forall (ind : Type) (fitness : ind -> list Z) (similar : ind -> ind -> bool)
         (m : Z) (batches : list (list ind)),
  1 <= m ->
  exists h, gen_hof_run ind fitness similar m batches = Some h /\
    keys h = rev (map fitness (items h)) /\
    (forall i j a b, (i < j)%nat -> nth_error (items h) i = Some a -> nth_error (items h) j = Some b ->
                     fit_lt (fitness a) (fitness b) = false) /\
    zlen (items h) <= m /\
    (forall a, In a (items h) -> In a (concat batches)).
Proof. intros. rewrite ?gen_hof_run_eq. eapply hof_shape_thm; eauto. Qed.

Lemma gen_hof_distinct_thm :
  forall (ind : Type) (fitness : ind -> list Z) (similar : ind -> ind -> bool),
  (forall x y, similar x y = similar y x) ->
  forall (m : Z) (batches : list (list ind)),
  1 <= m ->
  exists h, gen_hof_run ind fitness similar m batches = Some h /\
    forall i j a b, i <> j -> nth_error (items h) i = Some a -> nth_error (items h) j = Some b ->
                    similar a b = false.
Proof. intros. rewrite ?gen_hof_run_eq. eapply hof_distinct_thm; eauto. Qed.

Lemma gen_hof_inv_thm :
  forall (ind : Type) (fitness : ind -> list Z) (similar : ind -> ind -> bool),
  (forall x y, similar x y = similar y x) ->
  (forall x, similar x x = true) ->
  forall (m : Z) (batches : list (list ind)),
  1 <= m ->
  (forall a b, In a (concat batches) -> In b (concat batches) -> similar a b = true -> fitness a = fitness b) ->
  exists h, gen_hof_run ind fitness similar m batches = Some h /\
    keys h = rev (map fitness (items h)) /\
    (forall i j a b, (i < j)%nat -> nth_error (items h) i = Some a -> nth_error (items h) j = Some b ->
                     fit_lt (fitness a) (fitness b) = false) /\
    zlen (items h) <= m /\
    (forall i j a b, i <> j -> nth_error (items h) i = Some a -> nth_error (items h) j = Some b ->
                     similar a b = false) /\
    (forall a, In a (items h) -> In a (concat batches)).
Proof. intros. rewrite ?gen_hof_run_eq. eapply hof_inv_thm; eauto. Qed.

Lemma gen_hof_best_of_seen_thm :
  forall (ind : Type) (fitness : ind -> list Z) (similar : ind -> ind -> bool),
  (forall x y, similar x y = similar y x) ->
  (forall x, similar x x = true) ->
  forall (m : Z) (batches : list (list ind)),
  1 <= m ->
  (forall a b, In a (concat batches) -> In b (concat batches) -> similar a b = true -> fitness a = fitness b) ->
  exists h, gen_hof_run ind fitness similar m batches = Some h /\
    forall s, In s (concat batches) ->
      (exists a, In a (items h) /\ similar s a = true) \/
      (zlen (items h) = m /\
       forall worst, py_get (items h) (-1) = Some worst -> fit_gt (fitness s) (fitness worst) = false).
Proof. intros. rewrite ?gen_hof_run_eq. eapply hof_best_of_seen_thm; eauto. Qed.

Lemma gen_hof_all_when_room_thm :
  forall (ind : Type) (fitness : ind -> list Z) (similar : ind -> ind -> bool),
  (forall x y, similar x y = similar y x) ->
  (forall x, similar x x = true) ->
  forall (m : Z) (batches : list (list ind)),
  1 <= m ->
  (forall a b, In a (concat batches) -> In b (concat batches) -> similar a b = true -> fitness a = fitness b) ->
  (forall l, nosim ind similar l -> incl l (concat batches) -> zlen l <= m) ->
  exists h, gen_hof_run ind fitness similar m batches = Some h /\
    forall s, In s (concat batches) -> exists a, In a (items h) /\ similar s a = true.
Proof. intros. rewrite ?gen_hof_run_eq. eapply hof_all_when_room_thm; eauto. Qed.

Lemma gen_hof_size_thm :
  forall (ind : Type) (fitness : ind -> list Z) (similar : ind -> ind -> bool),
  (forall x y, similar x y = similar y x) ->
  (forall x, similar x x = true) ->
  (forall x y z, similar x y = true -> similar y z = true -> similar x z = true) ->
  forall (m : Z) (batches : list (list ind)),
  1 <= m ->
  (forall a b, In a (concat batches) -> In b (concat batches) -> similar a b = true -> fitness a = fitness b) ->
  exists h, gen_hof_run ind fitness similar m batches = Some h /\
    forall l, nosim ind similar l -> incl l (concat batches) -> zlen l <= zlen (items h) \/ zlen (items h) = m.
Proof. intros. rewrite ?gen_hof_run_eq. eapply hof_size_thm; eauto. Qed.

Lemma gen_pf_inv_thm :
  forall (ind : Type) (fitness : ind -> list Z) (similar : ind -> ind -> bool)
         (batches : list (list ind)) (nobj : nat),
  (forall s, In s (concat batches) -> length (fitness s) = nobj) ->
  exists h, gen_pf_run ind fitness similar batches = Some h /\
    keys h = rev (map fitness (items h)) /\
    (forall i j a b, (i < j)%nat -> nth_error (items h) i = Some a -> nth_error (items h) j = Some b ->
                     fit_lt (fitness a) (fitness b) = false) /\
    (forall a b, In a (items h) -> In b (items h) -> fit_dom (fitness a) (fitness b) = false).
Proof. intros. rewrite ?gen_pf_run_eq. eapply pf_inv_thm; eauto. Qed.

Lemma gen_pf_exact_thm :
  forall (ind : Type) (fitness : ind -> list Z) (similar : ind -> ind -> bool),
  (forall x, similar x x = true) ->
  (forall x y, similar x y = similar y x) ->
  forall (batches : list (list ind)) (nobj : nat),
  (forall s, In s (concat batches) -> length (fitness s) = nobj) ->
  exists h, gen_pf_run ind fitness similar batches = Some h /\
    (forall a, In a (items h) ->
       In a (concat batches) /\ forall t, In t (concat batches) -> fit_dom (fitness t) (fitness a) = false) /\
    (forall s, In s (concat batches) ->
       (forall t, In t (concat batches) -> fit_dom (fitness t) (fitness s) = false) ->
       exists a, In a (items h) /\ fitness s = fitness a /\ similar s a = true) /\
    (forall i j a b, i <> j -> nth_error (items h) i = Some a -> nth_error (items h) j = Some b ->
       fitness a = fitness b -> similar a b = false).
Proof. intros. rewrite ?gen_pf_run_eq. eapply pf_exact_thm; eauto. Qed.

Lemma gen_hof_continue_thm :
  forall (ind : Type) (fitness : ind -> list Z) (similar : ind -> ind -> bool),
  (forall x y, similar x y = similar y x) ->
  (forall x, similar x x = true) ->
  forall (m : Z) (S : list ind) (batches : list (list ind)),
  1 <= m -> desc ind fitness S -> zlen S <= m -> nosim ind similar S ->
  (forall a b, In a (S ++ concat batches) -> In b (S ++ concat batches) -> similar a b = true -> fitness a = fitness b) ->
  exists h, gen_hof_run_from ind fitness similar m (mirror ind fitness S) batches = Some h /\
    keys h = rev (map fitness (items h)) /\
    HInv ind fitness similar m (items h) (S ++ concat batches).
Proof. intros. rewrite ?gen_hof_run_from_eq. eapply hof_continue_thm; eauto. Qed.

Lemma gen_pf_continue_thm :
  forall (ind : Type) (fitness : ind -> list Z) (similar : ind -> ind -> bool),
  (forall x y, similar x y = similar y x) ->
  (forall x, similar x x = true) ->
  forall (n : nat) (S : list ind) (batches : list (list ind)),
  mutual ind fitness S -> notwin ind fitness similar S -> desc ind fitness S ->
  all_len ind fitness n (S ++ concat batches) ->
  exists h, gen_pf_run_from ind fitness similar (mirror ind fitness S) batches = Some h /\
    keys h = rev (map fitness (items h)) /\
    PInv ind fitness similar (items h) (S ++ concat batches).
Proof. intros. rewrite ?gen_pf_run_from_eq. eapply pf_continue_thm; eauto. Qed.

Lemma gen_heap_simulation_init :
  forall (sim : obj -> obj -> bool) (nu : nat) (kind : option Z) (u : heap) (hops : list hop),
  length u = nu -> Forall (hop_ok nu) hops ->
  map (option_map view) (gen_h_trace sim kind (u, mkharch [] []) hops) = vtrace sim kind u empty hops.
Proof. intros. rewrite ?gen_h_trace_eq. eapply heap_simulation_init; eauto. Qed.

Lemma gen_api_good :
  forall (ind : Type) (fitness : ind -> list Z) (similar : ind -> ind -> bool)
         (kind : option Z) (ops : list (op ind)),
  (match kind with Some m => 1 <= m | None => True end) ->
  Forall (fun o => match o with
                   | Some h => keys h = rev (map fitness (items h)) /\ desc ind fitness (items h)
                   | None => True end)
         (gen_trace ind fitness similar kind empty ops).
Proof. intros. rewrite ?gen_trace_eq. eapply api_good; eauto. Qed.

Lemma gen_final_is_run :
  forall (ind : Type) (fitness : ind -> list Z) (similar : ind -> ind -> bool)
         (kind : option Z) (us : list (uop ind)),
  (match kind with Some m => 1 <= m | None => True end) ->
  gen_final ind fitness similar kind us =
  match kind with
  | Some m => gen_hof_run ind fitness similar m (after_last_clear ind us [])
  | None => gen_pf_run ind fitness similar (after_last_clear ind us [])
  end.
Proof.
  intros ind fitness similar kind us H. rewrite gen_final_eq, (final_is_run ind fitness similar kind us H).
  destruct kind; [now rewrite gen_hof_run_eq | now rewrite gen_pf_run_eq].
Qed.
