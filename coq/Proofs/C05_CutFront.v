(* The front that selNSGA2 cuts (the last one handed over by the sorter) is exactly one depth
   class of the population; hence the crowding-cut theorem can be read with depths only. *)
From Coq Require Import List ZArith Bool Lia Permutation Arith.
From DV Require Import Base.Corr Base.PyList Base.C05_Sort Base.C05_List
     Model.C05_Nsga2 Model.C05_Spec Proofs.C05_Spec Proofs.C05_Nsga2.
Import ListNotations.

Section CutFront.
  Variable o : numops.
  Notation indV := (ind (V o)).
  Variables (pop : list indV) (k : nat) (fronts : list (list indV)) (r : list indV).
  Hypothesis W : wf_pop pop.
  Hypothesis FC : fronts_correct pop k fronts.
  Hypothesis SEL : sel_nsga2 o fronts k = Some r.

  Lemma cut_front_depth : 0 < k ->
    exists m, forall y, In y pop -> (In (uid y) (uids (last fronts [])) <-> depth pop y = m).
  Proof.
    intro Kp. destruct (k_cases k) as [K|[k0 K]]; [lia|].
    destruct (sel_shape o pop k fronts r FC SEL k0 K) as [m [init [lastf [n' [Ef [_ [_ [_ [P1 [P2 _]]]]]]]]]].
    exists m. intros y Iy. rewrite Ef, last_last.
    pose proof (pop_uid_in_layers o pop y Iy) as Il.
    assert (N : NoDup (uids (concat init ++ lastf))).
    { eapply Permutation_NoDup; [apply Permutation_sym, P2|apply (prefix_nodup o pop W)]. }
    unfold uids in N. rewrite map_app in N. apply nodup_app_inv in N. destruct N as [_ [_ Dj]].
    unfold depth. split.
    - intro I.
      assert (H1 : depth_in (layers pop) (uid y) < S m).
      { apply depth_prefix; [exact Il|]. eapply Permutation_in; [exact P2|].
        unfold uids. rewrite map_app. apply in_or_app. right; exact I. }
      assert (H2 : ~ depth_in (layers pop) (uid y) < m).
      { intro H. apply (depth_prefix (layers pop) m (uid y) Il) in H.
        apply (Dj (uid y)); [|exact I]. eapply Permutation_in; [apply Permutation_sym, P1|exact H]. }
      lia.
    - intro E.
      assert (H : In (uid y) (uids (concat (firstn (S m) (layers pop))))) by (apply depth_prefix; [exact Il|lia]).
      eapply Permutation_in in H; [|apply Permutation_sym, P2].
      unfold uids in H. rewrite map_app in H. apply in_app_or in H. destruct H as [H|H]; [|exact H].
      exfalso. eapply Permutation_in in H; [|exact P1].
      apply (depth_prefix (layers pop) m (uid y) Il) in H. lia.
  Qed.
End CutFront.
