(* C06 proofs, part 5: selTournamentDCD (deap/tools/emo.py). *)
From Coq Require Import List Bool Arith Permutation QArith Lia Lqa.
From DV Require Import Base.PyList Base.C06_Py Model.C06_Select Proofs.C06_Sort Proofs.C06_Basic
  Proofs.C06_SUS.
Import ListNotations.

(* ---------- counting by uid ---------- *)
Lemma count_uid_cons u x l :
  count_uid u (x :: l) = ((if Nat.eqb (uid x) u then 1 else 0) + count_uid u l)%nat.
Proof. unfold count_uid. cbn. destruct (Nat.eqb (uid x) u); reflexivity. Qed.

Lemma count_uid_app u l1 l2 : count_uid u (l1 ++ l2) = (count_uid u l1 + count_uid u l2)%nat.
Proof. unfold count_uid. rewrite filter_app, app_length. reflexivity. Qed.

Lemma count_uid_notin u l : ~ In u (map uid l) -> count_uid u l = 0%nat.
Proof.
  induction l as [|x r IH]; intro H; [reflexivity|]. rewrite count_uid_cons. cbn in H.
  destruct (Nat.eqb_spec (uid x) u); [exfalso; apply H; left; assumption|].
  rewrite IH; [reflexivity|]. intro; apply H; right; assumption.
Qed.

Lemma count_uid_nodup u l : NoDup (map uid l) -> (count_uid u l <= 1)%nat.
Proof.
  induction l as [|x r IH]; intro ND; [cbn; lia|]. rewrite count_uid_cons. cbn in ND. inversion ND; subst.
  destruct (Nat.eqb_spec (uid x) u).
  - subst. rewrite count_uid_notin by assumption. lia.
  - specialize (IH H2). lia.
Qed.

Definition seg {A} (l : list A) (i len : nat) : list A := firstn len (skipn i l).

Lemma count_uid_seg u l i len : (count_uid u (seg l i len) <= count_uid u l)%nat.
Proof.
  unfold seg. rewrite <- (firstn_skipn i l) at 2. rewrite count_uid_app.
  rewrite <- (firstn_skipn len (skipn i l)) at 2. rewrite count_uid_app. lia.
Qed.

Lemma skipn_nth {A} (l : list A) i x : nth_error l i = Some x -> skipn i l = x :: skipn (S i) l.
Proof.
  revert i; induction l as [|y r IH]; intros [|i] H; cbn in *; try discriminate.
  - inversion H; reflexivity.
  - apply IH; exact H.
Qed.

Lemma seg_four {A} (l : list A) i m a b c d :
  nth_error l i = Some a -> nth_error l (i + 1) = Some b ->
  nth_error l (i + 2) = Some c -> nth_error l (i + 3) = Some d ->
  seg l i (4 + m) = a :: b :: c :: d :: seg l (i + 4) m.
Proof.
  intros Ha Hb Hc Hd. unfold seg.
  rewrite (skipn_nth _ _ _ Ha). replace (S i) with (i + 1)%nat by lia.
  rewrite (skipn_nth _ _ _ Hb). replace (S (i + 1)) with (i + 2)%nat by lia.
  rewrite (skipn_nth _ _ _ Hc). replace (S (i + 2)) with (i + 3)%nat by lia.
  rewrite (skipn_nth _ _ _ Hd). replace (S (i + 3)) with (i + 4)%nat by lia.
  reflexivity.
Qed.

(* ---------- random.sample ---------- *)
Lemma nodupb_NoDup l : nodupb l = true -> NoDup l.
Proof.
  induction l as [|x r IH]; cbn; intro H; [constructor|].
  apply andb_prop in H as [H1 H2]. constructor; [|apply IH; exact H2].
  intro Hin. apply negb_true_iff in H1.
  assert (existsb (Nat.eqb x) r = true) by (apply existsb_exists; exists x; split; [exact Hin|apply Nat.eqb_refl]).
  congruence.
Qed.

Lemma pick_In_idx {A} (l : list A) idx y :
  In y (pick l idx) -> exists j, In j idx /\ nth_error l j = Some y.
Proof.
  unfold pick. intro H. apply in_flat_map in H as (j & Hj & H).
  destruct (nth_error l j) eqn:E; cbn in H; [|contradiction]. destruct H as [<-|[]]. eauto.
Qed.

Lemma pick_cons {A} (l : list A) i idx x : nth_error l i = Some x -> pick l (i :: idx) = x :: pick l idx.
Proof. intro H. unfold pick. cbn. rewrite H. reflexivity. Qed.

Lemma pick_length {A} (l : list A) idx :
  forallb (fun i => Nat.ltb i (length l)) idx = true -> length (pick l idx) = length idx.
Proof.
  induction idx as [|i idx IH]; cbn [forallb]; intro H; [reflexivity|].
  apply andb_prop in H as [H1 H2]. apply Nat.ltb_lt in H1.
  destruct (nth_error l i) eqn:E; [|apply nth_error_None in E; lia].
  rewrite (pick_cons _ _ _ _ E). cbn. rewrite IH by exact H2. reflexivity.
Qed.

Lemma pick_nodup_uid (l : list ind) idx :
  NoDup (map uid l) -> NoDup idx -> forallb (fun i => Nat.ltb i (length l)) idx = true ->
  NoDup (map uid (pick l idx)).
Proof.
  intros ND. induction idx as [|i idx IH]; intros NI H; [constructor|].
  cbn [forallb] in H. apply andb_prop in H as [H1 H2]. apply Nat.ltb_lt in H1.
  inversion NI; subst.
  destruct (nth_error l i) eqn:E; [|apply nth_error_None in E; lia].
  rewrite (pick_cons _ _ _ _ E). cbn. constructor; [|apply IH; assumption].
  intro Hin. apply in_map_iff in Hin as (y & Eu & Hy).
  apply pick_In_idx in Hy as (j & Hj & Ny).
  assert (j = i) by (eapply nth_error_uid_inj; eauto). subst. contradiction.
Qed.

Lemma sample_Ok (l : list ind) k ds l' rest :
  sample l k ds = Ok l' rest ->
  length l' = k /\ (forall x, In x l' -> In x l) /\ (NoDup (map uid l) -> NoDup (map uid l')).
Proof.
  unfold sample. destruct ds as [|[n i|u|p|n idx] r]; try discriminate.
  destruct (Nat.eqb n (length l) && Nat.eqb (length idx) k && nodupb idx && forallb (fun i => Nat.ltb i n) idx) eqn:E;
    [|discriminate].
  apply andb_prop in E as [E E4]. apply andb_prop in E as [E E3]. apply andb_prop in E as [E1 E2].
  apply Nat.eqb_eq in E1, E2. subst n. intro H; inversion H; subst. repeat split.
  - apply pick_length. exact E4.
  - intros x Hx. apply pick_In_idx in Hx as (j & _ & Hj). eapply nth_error_In; eauto.
  - intro ND. apply pick_nodup_uid; [exact ND|apply nodupb_NoDup; exact E3|exact E4].
Qed.

Lemma sample_no_raise {A} (l : list A) k ds e : sample l k ds <> Raise e.
Proof.
  unfold sample. destruct ds as [|[n i|u|p|n idx] r]; try discriminate.
  destruct (_ && _); discriminate.
Qed.

(* ---------- one binary tournament ---------- *)
Lemma tourn_Ok x y ds z rest : tourn x y ds = Ok z rest -> z = x \/ z = y.
Proof.
  unfold tourn.
  destruct (dominates x y); [intro H; apply ret_Ok in H as [<- _]; auto|].
  destruct (dominates y x); [intro H; apply ret_Ok in H as [<- _]; auto|].
  destruct (cd_lt (cd x) (cd y)); [intro H; apply ret_Ok in H as [<- _]; auto|].
  destruct (cd_lt (cd y) (cd x)); [intro H; apply ret_Ok in H as [<- _]; auto|].
  intro H. bind_inv H as u d Hu Hr. apply ret_Ok in Hr as [<- _]. destruct (Qle_bool u (1 # 2)); auto.
Qed.

Lemma tourn_no_raise x y ds e : tourn x y ds <> Raise e.
Proof.
  unfold tourn.
  destruct (dominates x y); [discriminate|]. destruct (dominates y x); [discriminate|].
  destruct (cd_lt (cd x) (cd y)); [discriminate|]. destruct (cd_lt (cd y) (cd x)); [discriminate|].
  intro H. apply bind_Raise in H as [H|(u & d & _ & H)]; [eapply random01_no_raise; eauto|discriminate].
Qed.

Lemma tourn_at_Ok l i j ds z rest : tourn_at l i j ds = Ok z rest ->
  exists x y, nth_error l i = Some x /\ nth_error l j = Some y /\ (z = x \/ z = y).
Proof.
  unfold tourn_at. destruct (nth_error l i) as [x|]; [|discriminate].
  destruct (nth_error l j) as [y|]; [|discriminate]. intro H. apply tourn_Ok in H. eauto.
Qed.

Lemma tourn_at_no_raise l i j ds e : (i < length l)%nat -> (j < length l)%nat -> tourn_at l i j ds <> Raise e.
Proof.
  intros Hi Hj. unfold tourn_at.
  destruct (nth_error l i) eqn:E1; [|apply nth_error_None in E1; lia].
  destruct (nth_error l j) eqn:E2; [|apply nth_error_None in E2; lia].
  apply tourn_no_raise.
Qed.

(* ---------- the loop ---------- *)
Lemma count_pair u z x y : z = x \/ z = y ->
  ((if Nat.eqb (uid z) u then 1 else 0) <= (if Nat.eqb (uid x) u then 1 else 0) + (if Nat.eqb (uid y) u then 1 else 0))%nat.
Proof. intros [->| ->]; destruct (Nat.eqb (uid x) u), (Nat.eqb (uid y) u); lia. Qed.

Lemma dcd_loop_spec l1 l2 u it : forall i ds out rest,
  dcd_loop it i l1 l2 ds = Ok out rest ->
  length out = (4 * it)%nat /\
  Forall (fun x => In x l1 \/ In x l2) out /\
  (count_uid u out <= count_uid u (seg l1 i (4 * it)) + count_uid u (seg l2 i (4 * it)))%nat.
Proof.
  induction it as [|it IH]; intros i ds out rest H; cbn [dcd_loop] in H.
  - apply ret_Ok in H as [<- _]. repeat split; [constructor|cbn; lia].
  - bind_inv H as a d1 Ha H. bind_inv H as b d2 Hb H. bind_inv H as c d3 Hc H. bind_inv H as d d4 Hd H.
    bind_inv H as r d5 Hr H. apply ret_Ok in H as [<- _].
    apply tourn_at_Ok in Ha as (xa & ya & A1 & A2 & Ea).
    apply tourn_at_Ok in Hb as (xb & yb & B1 & B2 & Eb).
    apply tourn_at_Ok in Hc as (xc & yc & C1 & C2 & Ec).
    apply tourn_at_Ok in Hd as (xd & yd & D1 & D2 & Ed).
    apply IH in Hr as (L & F & Cn).
    replace (4 * S it)%nat with (4 + 4 * it)%nat by lia.
    rewrite (seg_four l1 i (4 * it) xa ya xb yb A1 A2 B1 B2).
    rewrite (seg_four l2 i (4 * it) xc yc xd yd C1 C2 D1 D2).
    repeat split.
    + cbn [length]. lia.
    + assert (In1 : forall z x y n m, nth_error l1 n = Some x -> nth_error l1 m = Some y -> z = x \/ z = y -> In z l1)
        by (intros z x y n m Hx Hy [->| ->]; eapply nth_error_In; eauto).
      assert (In2 : forall z x y n m, nth_error l2 n = Some x -> nth_error l2 m = Some y -> z = x \/ z = y -> In z l2)
        by (intros z x y n m Hx Hy [->| ->]; eapply nth_error_In; eauto).
      apply Forall_cons; [left; exact (In1 _ _ _ _ _ A1 A2 Ea)|].
      apply Forall_cons; [left; exact (In1 _ _ _ _ _ B1 B2 Eb)|].
      apply Forall_cons; [right; exact (In2 _ _ _ _ _ C1 C2 Ec)|].
      apply Forall_cons; [right; exact (In2 _ _ _ _ _ D1 D2 Ed)|]. exact F.
    + rewrite !count_uid_cons.
      pose proof (count_pair u a xa ya Ea). pose proof (count_pair u b xb yb Eb).
      pose proof (count_pair u c xc yc Ec). pose proof (count_pair u d xd yd Ed). lia.
Qed.

Lemma dcd_loop_no_raise l1 l2 e it : forall i ds,
  (i + 4 * it <= length l1)%nat -> (i + 4 * it <= length l2)%nat ->
  dcd_loop it i l1 l2 ds <> Raise e.
Proof.
  induction it as [|it IH]; intros i ds H1 H2 H; cbn [dcd_loop] in H; [discriminate|].
  apply bind_Raise in H as [H|(a & d1 & _ & H)]; [eapply tourn_at_no_raise; [| |exact H]; lia|].
  apply bind_Raise in H as [H|(b & d2 & _ & H)]; [eapply tourn_at_no_raise; [| |exact H]; lia|].
  apply bind_Raise in H as [H|(c & d3 & _ & H)]; [eapply tourn_at_no_raise; [| |exact H]; lia|].
  apply bind_Raise in H as [H|(d & d4 & _ & H)]; [eapply tourn_at_no_raise; [| |exact H]; lia|].
  apply bind_Raise in H as [H|(r & d5 & _ & H)]; [|discriminate].
  eapply IH; [| |exact H]; lia.
Qed.

(* ---------- the operator ---------- *)
Lemma selTournamentDCD_spec inds k ds out rest :
  NoDup (map uid inds) -> (k mod 4 = 0)%nat ->
  selTournamentDCD inds k ds = Ok out rest ->
  (k <= length inds)%nat /\ length out = k /\ Forall (fun x => In x inds) out /\
  forall u, (count_uid u out <= 2)%nat.
Proof.
  intros ND K4. unfold selTournamentDCD.
  destruct (Nat.ltb (length inds) k) eqn:E1; [discriminate|]. apply Nat.ltb_ge in E1.
  destruct (Nat.eqb k (length inds) && negb (Nat.eqb (k mod 4) 0)); [discriminate|].
  intro H. bind_inv H as l1 d1 S1 H. bind_inv H as l2 d2 S2 H.
  apply sample_Ok in S1 as (L1 & I1 & N1). apply sample_Ok in S2 as (L2 & I2 & N2).
  assert (Eit : ((k + 3) / 4 = k / 4)%nat).
  { pose proof (Nat.div_mod k 4 ltac:(lia)) as D. rewrite K4 in D.
    symmetry. apply (Nat.div_unique (k + 3) 4 (k / 4) 3); lia. }
  assert (Ek : (4 * (k / 4) = k)%nat).
  { pose proof (Nat.div_mod k 4 ltac:(lia)) as D. lia. }
  rewrite Eit in H. split; [exact E1|].
  assert (G : forall u, length out = k /\ Forall (fun x => In x inds) out /\ (count_uid u out <= 2)%nat).
  { intro u. apply (dcd_loop_spec l1 l2 u) in H as (L & F & C). rewrite Ek in *.
    split; [exact L|]. split.
    - eapply Forall_impl; [|exact F]. intros x [Hx|Hx]; auto.
    - pose proof (count_uid_seg u l1 0 k). pose proof (count_uid_seg u l2 0 k).
      pose proof (count_uid_nodup u l1 (N1 ND)). pose proof (count_uid_nodup u l2 (N2 ND)). lia. }
  destruct (G 0%nat) as (L & F & _). repeat split; [exact L|exact F|].
  intro u. apply G.
Qed.

Lemma selTournamentDCD_no_raise inds k ds e :
  (k <= length inds)%nat -> (k mod 4 = 0)%nat -> selTournamentDCD inds k ds <> Raise e.
Proof.
  intros Hk K4. unfold selTournamentDCD.
  assert (E1 : Nat.ltb (length inds) k = false) by (apply Nat.ltb_ge; exact Hk). rewrite E1.
  rewrite K4. cbn [Nat.eqb negb]. rewrite andb_false_r.
  intro H. apply bind_Raise in H as [H|(l1 & d1 & S1 & H)]; [eapply sample_no_raise; eauto|].
  apply bind_Raise in H as [H|(l2 & d2 & S2 & H)]; [eapply sample_no_raise; eauto|].
  apply sample_Ok in S1 as (L1 & _). apply sample_Ok in S2 as (L2 & _).
  assert (Eit : ((k + 3) / 4 = k / 4)%nat).
  { pose proof (Nat.div_mod k 4 ltac:(lia)) as D. rewrite K4 in D.
    symmetry. apply (Nat.div_unique (k + 3) 4 (k / 4) 3); lia. }
  assert (Ek : (4 * (k / 4) = k)%nat).
  { pose proof (Nat.div_mod k 4 ltac:(lia)) as D. lia. }
  rewrite Eit in H. eapply dcd_loop_no_raise; [| |exact H]; lia.
Qed.
