(* C17 — lemmas about Model/C17_Repro.v *)
From Coq Require Import List ZArith Bool Lia Permutation.
From DV Require Import Base.PyTuple Base.C17_Codec Model.C17_Repro.
Import ListNotations.
Local Open Scope Z_scope.

(* ------------------------------------------------------------------------------------------ *)
(* generic runs                                                                               *)
(* ------------------------------------------------------------------------------------------ *)
Section Generic.
  Context {state gen : Type}.
  Variable step : gen -> state -> state.

  Lemma run_app (g1 g2 : list gen) (s : state) : run step (g1 ++ g2) s = run step g2 (run step g1 s).
  Proof. unfold run. apply fold_left_app. Qed.

  Lemma trace_app (g1 g2 : list gen) (s : state) :
    trace step (g1 ++ g2) s = trace step g1 s ++ trace step g2 (run step g1 s).
  Proof.
    revert s; induction g1 as [|g g1 IH]; intro s; cbn; [reflexivity|].
    rewrite IH. reflexivity.
  Qed.

  Lemma trace_length (gs : list gen) (s : state) : length (trace step gs s) = length gs.
  Proof. revert s; induction gs as [|g gs IH]; intro s; cbn; [reflexivity|]. rewrite IH; reflexivity. Qed.

  Lemma last_cons {X} (a : X) (l : list X) (d : X) : last (a :: l) d = last l a.
  Proof.
    revert a d; induction l as [|b l IH]; intros a d; [reflexivity|].
    change (last (a :: b :: l) d) with (last (b :: l) d). rewrite (IH b d), (IH b a). reflexivity.
  Qed.

  Lemma trace_last (gs : list gen) (s : state) : last (trace step gs s) s = run step gs s.
  Proof.
    revert s; induction gs as [|g gs IH]; intro s; [reflexivity|].
    cbn [trace]. rewrite last_cons, IH. reflexivity.
  Qed.

  (* a run depends on the step function only through its values *)
  Lemma run_ext (step' : gen -> state -> state) :
    (forall g s, step g s = step' g s) -> forall gs s, run step gs s = run step' gs s.
  Proof.
    intros H gs; induction gs as [|g gs IH]; intro s; [reflexivity|].
    unfold run in *; cbn. rewrite H. apply IH.
  Qed.
End Generic.

(* ------------------------------------------------------------------------------------------ *)
(* pmap                                                                                       *)
(* ------------------------------------------------------------------------------------------ *)
Section Pmap.
  Context {A B : Type}.
  Variable f : A -> B.

  (* every task that completes (at least once) lands in its own slot with its own value *)
  Lemma lookup_complete (xs : list A) (sched : list nat) (i : nat) (x : A) :
    In i sched -> nth_error xs i = Some x -> lookup i (complete f xs sched) = Some (f x).
  Proof.
    intros Hin Hx. induction sched as [|j sched IH]; [contradiction|].
    unfold complete in *; cbn [flat_map].
    destruct (Nat.eq_dec i j) as [->|Hne].
    - rewrite Hx. cbn. rewrite Nat.eqb_refl. reflexivity.
    - destruct Hin as [->|Hin]; [congruence|].
      destruct (nth_error xs j) as [y|]; cbn.
      + apply Nat.eqb_neq in Hne. rewrite Hne. apply IH, Hin.
      + apply IH, Hin.
  Qed.

  Lemma map_seq_nth_error {C} (g : nat -> C) (h : A -> C) (xs : list A) :
    (forall i x, nth_error xs i = Some x -> g i = h x) ->
    map g (seq 0 (length xs)) = map h xs.
  Proof.
    intro H.
    assert (G : forall (k : nat) (l : list A), (forall i x, nth_error l i = Some x -> g (k + i)%nat = h x) ->
              map g (seq k (length l)) = map h l).
    { intros k l; revert k; induction l as [|a l IH]; intros k Hk; cbn; [reflexivity|].
      f_equal.
      - specialize (Hk O a eq_refl). rewrite Nat.add_0_r in Hk. exact Hk.
      - apply IH. intros i x Hi. specialize (Hk (S i) x Hi). rewrite Nat.add_succ_r in Hk. exact Hk. }
    apply (G O xs). intros i x Hi. cbn. apply H, Hi.
  Qed.

  Theorem pmap_covering (sched : list nat) (xs : list A) :
    (forall i, (i < length xs)%nat -> In i sched) ->
    pmap sched f xs = map (fun x => Some (f x)) xs.
  Proof.
    intro Hc. unfold pmap. apply map_seq_nth_error. intros i x Hi.
    apply lookup_complete; [|exact Hi].
    apply Hc. apply nth_error_Some. congruence.
  Qed.

  Theorem pmap_schedule_independent (sched : list nat) (xs : list A) :
    Permutation sched (seq 0 (length xs)) ->
    pmap sched f xs = map (fun x => Some (f x)) xs.
  Proof.
    intro Hp. apply pmap_covering. intros i Hi.
    apply (Permutation_in _ (Permutation_sym Hp)). apply in_seq. lia.
  Qed.

  Corollary pmap_two_schedules (s1 s2 : list nat) (xs : list A) :
    Permutation s1 (seq 0 (length xs)) -> Permutation s2 (seq 0 (length xs)) ->
    pmap s1 f xs = pmap s2 f xs.
  Proof. intros H1 H2. rewrite !pmap_schedule_independent by assumption. reflexivity. Qed.

  Lemma pmap_serial (xs : list A) : pmap (seq 0 (length xs)) f xs = map (fun x => Some (f x)) xs.
  Proof. apply pmap_schedule_independent, Permutation_refl. Qed.
End Pmap.

(* ------------------------------------------------------------------------------------------ *)
(* completion orders of a worker pool are permutations of the task indices                    *)
(* ------------------------------------------------------------------------------------------ *)
Lemma insert_ev_perm e l : Permutation (insert_ev e l) (e :: l).
Proof.
  induction l as [|x l IH]; cbn; [apply Permutation_refl|].
  destruct (fst e <? fst x); [apply Permutation_refl|].
  eapply Permutation_trans; [apply perm_skip, IH|apply perm_swap].
Qed.

Lemma sort_ev_perm l : Permutation (sort_ev l) l.
Proof.
  induction l as [|x l IH]; cbn; [apply Permutation_refl|].
  eapply Permutation_trans; [apply insert_ev_perm|apply perm_skip, IH].
Qed.

Lemma finish_times_indices free delays i :
  map snd (finish_times free delays i) = seq i (length delays).
Proof.
  revert free i; induction delays as [|d r IH]; intros free i; cbn; [reflexivity|].
  rewrite IH. reflexivity.
Qed.

Theorem completion_order_perm w delays :
  Permutation (completion_order w delays) (seq 0 (length delays)).
Proof.
  unfold completion_order. rewrite <- (finish_times_indices (repeat 0 w) delays O).
  apply Permutation_map, sort_ev_perm.
Qed.

(* the boolean test applied to observed completion orders implies the hypothesis of the theorems *)
Lemma is_perm_of_seq_sound l n : is_perm_of_seq l n = true -> Permutation l (seq 0 n).
Proof.
  unfold is_perm_of_seq. rewrite andb_true_iff, Nat.eqb_eq, forallb_forall. intros [L H].
  apply Permutation_sym, NoDup_Permutation_bis.
  - apply seq_NoDup.
  - rewrite seq_length. lia.
  - intros i Hi. specialize (H i Hi). apply existsb_exists in H as [j [Hj E]].
    apply Nat.eqb_eq in E. subst. exact Hj.
Qed.

(* ------------------------------------------------------------------------------------------ *)
(* save / restore                                                                             *)
(* ------------------------------------------------------------------------------------------ *)
Lemma codec_zl : codec_ok enc_zl dec_zl.
Proof. apply codec_list, codec_Z. Qed.

Lemma codec_indiv : codec_ok enc_indiv dec_indiv.
Proof.
  apply codec_iso; [intros []; reflexivity|].
  apply codec_pair; [apply codec_list, codec_bool|apply codec_opt, codec_zl].
Qed.

Lemma codec_hof : codec_ok enc_hof dec_hof.
Proof.
  apply codec_iso; [intros []; reflexivity|].
  repeat apply codec_pair; try apply codec_Z; apply codec_list; [apply codec_indiv|apply codec_zl].
Qed.

Lemma codec_sub : codec_ok enc_sub dec_sub.
Proof.
  apply codec_iso; [intros []; reflexivity|].
  apply codec_pair; [apply codec_list, codec_zl|apply codec_Z].
Qed.

Lemma codec_log : codec_ok enc_log dec_log.
Proof.
  apply codec_iso; [intros []; reflexivity|].
  apply codec_pair; [apply codec_list, codec_zl|].
  apply codec_pair; [apply codec_Z|].
  apply codec_list, codec_pair; [apply codec_Z|apply codec_sub].
Qed.

Lemma codec_state : codec_ok enc_state dec_state.
Proof.
  apply codec_iso; [intros []; reflexivity|].
  apply codec_pair; [apply codec_list, codec_indiv|].
  apply codec_pair; [apply codec_Z|].
  apply codec_pair; [apply codec_hof|].
  apply codec_pair; [apply codec_log|].
  apply codec_pair; [apply codec_zl|].
  apply codec_pair; [apply codec_zl|].
  apply codec_pair; apply codec_Z.
Qed.

Theorem restore_save (s : state) : restore (save s) = Some s.
Proof. apply (parse_all_ok enc_state dec_state codec_state). Qed.

Theorem save_injective (s1 s2 : state) : save s1 = save s2 -> s1 = s2.
Proof. apply (codec_injective enc_state dec_state codec_state). Qed.

(* restore accepts nothing but what save writes *)
Lemma dec_n_sound {A} (ea : A -> list Z) (da : dec A) :
  (forall t x r, da t = Some (x, r) -> t = ea x ++ r) ->
  forall n t l r, dec_n da n t = Some (l, r) -> t = flat_map ea l ++ r /\ length l = n.
Proof.
  intros H n; induction n as [|n IH]; intros t l r E; cbn in E.
  - inversion E; subst. split; reflexivity.
  - destruct (da t) as [[x t1]|] eqn:E1; [|discriminate].
    destruct (dec_n da n t1) as [[xs t2]|] eqn:E2; [|discriminate].
    inversion E; subst. apply H in E1. apply IH in E2 as [E2 L]. subst.
    cbn. rewrite <- app_assoc. split; [reflexivity|lia].
Qed.

Definition dec_sound {A} (e : A -> list Z) (d : dec A) : Prop :=
  forall t x r, d t = Some (x, r) -> t = e x ++ r.

Lemma sound_Z : dec_sound enc_Z dec_Z.
Proof. intros [|z t] x r E; cbn in E; [discriminate|]. inversion E; reflexivity. Qed.

Lemma sound_bool : dec_sound enc_bool dec_bool.
Proof.
  intros [|z t] x r E; cbn in E; [discriminate|].
  destruct (z =? 0) eqn:E0; [apply Z.eqb_eq in E0; inversion E; subst; reflexivity|].
  destruct (z =? 1) eqn:E1; [apply Z.eqb_eq in E1; inversion E; subst; reflexivity|discriminate].
Qed.

Lemma sound_pair {A B} (ea : A -> list Z) da (eb : B -> list Z) db :
  dec_sound ea da -> dec_sound eb db -> dec_sound (enc_pair ea eb) (dec_pair da db).
Proof.
  intros Ha Hb t [a b] r E. unfold dec_pair in E.
  destruct (da t) as [[a' t1]|] eqn:E1; [|discriminate].
  destruct (db t1) as [[b' t2]|] eqn:E2; [|discriminate].
  inversion E; subst. apply Ha in E1. apply Hb in E2. subst.
  unfold enc_pair; cbn. rewrite app_assoc. reflexivity.
Qed.

Lemma sound_iso {A B} (to : B -> A) (from : A -> B) ea da :
  (forall a, to (from a) = a) -> dec_sound ea da -> dec_sound (enc_iso to ea) (dec_iso from da).
Proof.
  intros Htf Ha t b r E. unfold dec_iso in E.
  destruct (da t) as [[a t1]|] eqn:E1; [|discriminate].
  inversion E; subst. apply Ha in E1. unfold enc_iso. rewrite Htf. exact E1.
Qed.

Lemma sound_opt {A} (ea : A -> list Z) da : dec_sound ea da -> dec_sound (enc_opt ea) (dec_opt da).
Proof.
  intros Ha [|z t] x r E; cbn in E; [discriminate|].
  destruct (z =? 0) eqn:E0; [apply Z.eqb_eq in E0; inversion E; subst; reflexivity|].
  destruct (z =? 1) eqn:E1; [|discriminate]. apply Z.eqb_eq in E1; subst.
  destruct (da t) as [[a t1]|] eqn:E2; [|discriminate].
  inversion E; subst. apply Ha in E2; subst. reflexivity.
Qed.

Lemma sound_list {A} (ea : A -> list Z) da : dec_sound ea da -> dec_sound (enc_list ea) (dec_list da).
Proof.
  intros Ha [|n t] l r E; cbn in E; [discriminate|].
  destruct (n <? 0) eqn:En; [discriminate|]. apply Z.ltb_ge in En.
  apply (dec_n_sound ea da Ha) in E as [E L]. subst t.
  unfold enc_list. rewrite L, Z2Nat.id by lia. reflexivity.
Qed.

Lemma sound_zl : dec_sound enc_zl dec_zl.
Proof. apply sound_list, sound_Z. Qed.

Lemma sound_indiv : dec_sound enc_indiv dec_indiv.
Proof.
  apply sound_iso; [intros []; reflexivity|].
  apply sound_pair; [apply sound_list, sound_bool|apply sound_opt, sound_zl].
Qed.

Lemma sound_hof : dec_sound enc_hof dec_hof.
Proof.
  apply sound_iso; [intros [? []]; reflexivity|].
  repeat apply sound_pair; try apply sound_Z; apply sound_list; [apply sound_indiv|apply sound_zl].
Qed.

Lemma sound_sub : dec_sound enc_sub dec_sub.
Proof.
  apply sound_iso; [intros []; reflexivity|].
  apply sound_pair; [apply sound_list, sound_zl|apply sound_Z].
Qed.

Lemma sound_log : dec_sound enc_log dec_log.
Proof.
  apply sound_iso; [intros [? []]; reflexivity|].
  apply sound_pair; [apply sound_list, sound_zl|].
  apply sound_pair; [apply sound_Z|].
  apply sound_list, sound_pair; [apply sound_Z|apply sound_sub].
Qed.

Lemma sound_state : dec_sound enc_state dec_state.
Proof.
  apply sound_iso; [intros [? [? [? [? [? [? []]]]]]]; reflexivity|].
  apply sound_pair; [apply sound_list, sound_indiv|].
  apply sound_pair; [apply sound_Z|].
  apply sound_pair; [apply sound_hof|].
  apply sound_pair; [apply sound_log|].
  apply sound_pair; [apply sound_zl|].
  apply sound_pair; [apply sound_zl|].
  apply sound_pair; apply sound_Z.
Qed.

Theorem restore_only_saved (t : list Z) (s : state) : restore t = Some s -> t = save s.
Proof.
  unfold restore, parse_all. intro E.
  destruct (dec_state t) as [[x [|z r]]|] eqn:E1; try discriminate.
  inversion E; subst. apply sound_state in E1. rewrite app_nil_r in E1. exact E1.
Qed.

(* ------------------------------------------------------------------------------------------ *)
(* kill / resume                                                                              *)
(* ------------------------------------------------------------------------------------------ *)
Theorem resume_any_k (P : params) (sch : schedule) (g1 g2 : list genop) (s : state) :
  resume_run P sch g1 g2 s = Some (run (step P sch) (g1 ++ g2) s).
Proof. unfold resume_run. rewrite restore_save, run_app. reflexivity. Qed.

Theorem resume_trace (P : params) (sch : schedule) (g1 g2 : list genop) (s : state) :
  option_map (trace (step P sch) g2) (restore (save (run (step P sch) g1 s))) =
  Some (skipn (length g1) (trace (step P sch) (g1 ++ g2) s)).
Proof.
  rewrite restore_save, trace_app. cbn [option_map]. f_equal.
  rewrite skipn_app, trace_length, Nat.sub_diag, skipn_all2 by (rewrite trace_length; lia).
  reflexivity.
Qed.

(* ------------------------------------------------------------------------------------------ *)
(* schedule independence of whole runs                                                        *)
(* ------------------------------------------------------------------------------------------ *)
Definition fair (sch : schedule) : Prop := forall g n, Permutation (sch g n) (seq 0 n).

Lemma serial_fair : fair serial.
Proof. intros g n. apply Permutation_refl. Qed.

Lemma evaluate_fair P sch g off : fair sch -> evaluate P sch g off = evaluate P serial g off.
Proof.
  intro F. unfold evaluate.
  assert (E : forall sc, Permutation sc (seq 0 (length (invalid_of off))) ->
              pmap sc (evalw P) (map genome (invalid_of off)) =
              map (fun x => Some (evalw P x)) (map genome (invalid_of off))).
  { intros sc Hp. apply pmap_schedule_independent. rewrite map_length. exact Hp. }
  rewrite (E _ (F g _)), (E _ (serial_fair g _)). reflexivity.
Qed.

Lemma step_fair P sch op s : fair sch -> step P sch op s = step P serial op s.
Proof.
  intro F. destruct op as [|g|g|g]; cbn [step].
  - rewrite (evaluate_fair P sch 0 _ F). reflexivity.
  - destruct (sel_tournament P (st_pop s) (length (st_pop s)) (st_cur s)) as [sel c1].
    destruct (mate_loop P sel c1) as [m c2]. destruct (mut_loop P m c2) as [u c3].
    rewrite (evaluate_fair P sch g _ F). reflexivity.
  - destruct (var_or P (st_pop s) (p_lambda P) (st_cur s)) as [off c1].
    rewrite (evaluate_fair P sch g _ F). reflexivity.
  - destruct (var_or P (st_pop s) (p_lambda P) (st_cur s)) as [off c1].
    rewrite (evaluate_fair P sch g _ F). reflexivity.
Qed.

Theorem run_schedule_independent P sch1 sch2 gs s :
  fair sch1 -> fair sch2 -> run (step P sch1) gs s = run (step P sch2) gs s.
Proof.
  intros F1 F2.
  rewrite (run_ext (step P sch1) (step P serial)) by (intros; apply step_fair, F1).
  rewrite (run_ext (step P sch2) (step P serial)) by (intros; apply step_fair, F2).
  reflexivity.
Qed.

Lemma trace_ext {state gen} (st1 st2 : gen -> state -> state) :
  (forall g s, st1 g s = st2 g s) -> forall gs s, trace st1 gs s = trace st2 gs s.
Proof.
  intros H gs; induction gs as [|g gs IH]; intro s; cbn; [reflexivity|].
  rewrite H, IH. reflexivity.
Qed.

Theorem trace_schedule_independent P sch1 sch2 gs s :
  fair sch1 -> fair sch2 -> trace (step P sch1) gs s = trace (step P sch2) gs s.
Proof.
  intros F1 F2.
  rewrite (trace_ext (step P sch1) (step P serial)) by (intros; apply step_fair, F1).
  rewrite (trace_ext (step P sch2) (step P serial)) by (intros; apply step_fair, F2).
  reflexivity.
Qed.

(* pools: any number of workers, any task durations, per generation *)
Definition pool_schedule (w : Z -> nat) (delays : Z -> nat -> list Z) : schedule :=
  fun g n => completion_order (w g) (firstn n (delays g n ++ repeat 0 n)).

Lemma pool_schedule_fair w delays : fair (pool_schedule w delays).
Proof.
  intros g n. unfold pool_schedule.
  set (d := firstn n (delays g n ++ repeat 0 n)).
  assert (L : length d = n).
  { unfold d. rewrite firstn_length, app_length, repeat_length. lia. }
  replace (seq 0 n) with (seq 0 (length d)) by (rewrite L; reflexivity). apply completion_order_perm.
Qed.

(* ------------------------------------------------------------------------------------------ *)
(* determinism: the saved tokens are all a run depends on                                     *)
(* ------------------------------------------------------------------------------------------ *)
Theorem run_deterministic P sch gs s1 s2 :
  save s1 = save s2 -> save (run (step P sch) gs s1) = save (run (step P sch) gs s2).
Proof. intro E. apply save_injective in E. subst. reflexivity. Qed.

(* ------------------------------------------------------------------------------------------ *)
(* generator accounting of the GA step                                                        *)
(* ------------------------------------------------------------------------------------------ *)
(* destruct the operation and every intermediate pair of a step *)
Ltac step_cases op :=
  destruct op as [|?g|?g|?g]; cbn [step];
  repeat match goal with
         | |- context [let (_, _) := ?e in _] => destruct e as [? ?] eqn:?
         end.

Lemma step_np P sch op s : st_npcur (step P sch op s) = st_npcur s.
Proof. step_cases op; reflexivity. Qed.

Lemma step_payload P sch op s :
  st_strat (step P sch op s) = st_strat s /\ st_selmem (step P sch op s) = st_selmem s.
Proof. step_cases op; split; reflexivity. Qed.

Lemma draw_choices_cur P pop n c : snd (draw_choices P pop n c) = c + Z.of_nat n.
Proof.
  revert c; induction n as [|n IH]; intro c; cbn [draw_choices]; [cbn; lia|].
  specialize (IH (c + 1)). destruct (draw_choices P pop n (c + 1)) as [r c']. cbn [snd] in *.
  rewrite Nat2Z.inj_succ. lia.
Qed.

Lemma sel_tournament_cur P pop k c :
  snd (sel_tournament P pop k c) = c + Z.of_nat k * Z.of_nat (p_tourn P).
Proof.
  revert c; induction k as [|k IH]; intro c; cbn [sel_tournament]; [cbn; lia|].
  pose proof (draw_choices_cur P pop (p_tourn P) c) as D.
  destruct (draw_choices P pop (p_tourn P) c) as [asp c1]. cbn [snd] in D. subst c1.
  specialize (IH (c + Z.of_nat (p_tourn P))).
  destruct (sel_tournament P pop k (c + Z.of_nat (p_tourn P))) as [rest c2]. cbn [snd] in *.
  rewrite Nat2Z.inj_succ. lia.
Qed.

Lemma mate_loop_cur P l c : c <= snd (mate_loop P l c) <= c + zlen l.
Proof.
  unfold zlen.
  assert (G : forall n l c, (length l <= n)%nat -> c <= snd (mate_loop P l c) <= c + Z.of_nat (length l)).
  { induction n as [|n IH]; intros l0 c0 L.
    - destruct l0; [cbn; lia|cbn in L; lia].
    - destruct l0 as [|a [|b r]]; [cbn; lia|cbn; lia|].
      cbn [mate_loop]. cbn [length] in L.
      destruct (rnd_lt P c0 (p_cxpb P)).
      + specialize (IH r (c0 + 2) ltac:(lia)).
        destruct (mate_loop P r (c0 + 2)) as [r' c']. cbn [snd length] in *. lia.
      + specialize (IH r (c0 + 1) ltac:(lia)).
        destruct (mate_loop P r (c0 + 1)) as [r' c']. cbn [snd length] in *. lia. }
  apply (G (length l)). lia.
Qed.

Lemma flip_loop_cur P g c : snd (flip_loop P g c) = c + zlen g.
Proof.
  unfold zlen. revert c; induction g as [|x g IH]; intro c; cbn [flip_loop]; [cbn; lia|].
  specialize (IH (c + 1)). destruct (flip_loop P g (c + 1)) as [r c']. cbn [snd length] in *. lia.
Qed.

Lemma mut_loop_cur P l c : c + zlen l <= snd (mut_loop P l c).
Proof.
  unfold zlen. revert c; induction l as [|a l IH]; intro c; cbn [mut_loop]; [cbn; lia|].
  destruct (rnd_lt P c (p_mutpb P)).
  - pose proof (flip_loop_cur P (genome a) (c + 1)) as F.
    destruct (flip_loop P (genome a) (c + 1)) as [g' c1]. cbn [snd] in F.
    specialize (IH c1). destruct (mut_loop P l c1) as [r' c2]. cbn [snd length] in *.
    unfold zlen in F. lia.
  - specialize (IH (c + 1)). destruct (mut_loop P l (c + 1)) as [r' c2]. cbn [snd length] in *. lia.
Qed.

Lemma var_or_cur P pop k c : c <= snd (var_or P pop k c).
Proof.
  revert c; induction k as [|k IH]; intro c; cbn [var_or]; [cbn; lia|].
  destruct (rnd_lt P c (p_cxpb P)).
  - destruct (sample2 P pop (c + 1)) as [a b].
    specialize (IH (c + 4)). destruct (var_or P pop k (c + 4)) as [r c']. cbn [snd] in *. lia.
  - destruct (rnd_lt_sum P c (p_cxpb P) (p_mutpb P)).
    + pose proof (flip_loop_cur P (genome (nth (Z.to_nat (draw P (c + 1) mod zlen pop)) pop dflt_ind)) (c + 2)) as Fl.
      destruct (flip_loop P _ (c + 2)) as [g' c1]. cbn [snd] in Fl.
      specialize (IH c1). destruct (var_or P pop k c1) as [r c']. cbn [snd] in *. unfold zlen in Fl. lia.
    + specialize (IH (c + 2)). destruct (var_or P pop k (c + 2)) as [r c']. cbn [snd] in *. lia.
Qed.

(* the generator cursor never moves backwards *)
Theorem step_cursor_monotone P sch op s : st_cur s <= st_cur (step P sch op s).
Proof.
  destruct op as [|g|g|g]; cbn [step].
  - destruct (evaluate P sch 0 (st_pop s)) as [off' n]. cbn. lia.
  - pose proof (sel_tournament_cur P (st_pop s) (length (st_pop s)) (st_cur s)) as S1.
    destruct (sel_tournament _ _ _ _) as [sel c1]. cbn [snd] in S1.
    pose proof (mate_loop_cur P sel c1) as S2.
    destruct (mate_loop _ _ _) as [m c2]. cbn [snd] in S2.
    pose proof (mut_loop_cur P m c2) as S3.
    destruct (mut_loop _ _ _) as [u c3]. cbn [snd] in S3.
    destruct (evaluate P sch g u) as [off' n]. cbn [commit st_cur]. unfold zlen in *. nia.
  - pose proof (var_or_cur P (st_pop s) (p_lambda P) (st_cur s)) as S1.
    destruct (var_or _ _ _ _) as [off c1]. cbn [snd] in S1.
    destruct (evaluate P sch g off) as [off' n].
    pose proof (sel_tournament_cur P (st_pop s ++ off') (p_mu P) c1) as S2.
    destruct (sel_tournament _ _ _ _) as [pop' c2]. cbn [snd] in S2. cbn [commit st_cur]. nia.
  - pose proof (var_or_cur P (st_pop s) (p_lambda P) (st_cur s)) as S1.
    destruct (var_or _ _ _ _) as [off c1]. cbn [snd] in S1.
    destruct (evaluate P sch g off) as [off' n].
    pose proof (sel_tournament_cur P off' (p_mu P) c1) as S2.
    destruct (sel_tournament _ _ _ _) as [pop' c2]. cbn [snd] in S2. cbn [commit st_cur]. nia.
Qed.

(* ------------------------------------------------------------------------------------------ *)
(* the hall of fame's key list stays the reversed fitness list of its items (both are         *)
(* pickled; losing either breaks bisect_right in the resumed process)                         *)
(* ------------------------------------------------------------------------------------------ *)
Definition hof_consistent (h : hof) : Prop := hof_keys h = rev (map fitw (hof_items h)).

Lemma bisect_loop_bounds fuel keys x lo hi : lo <= hi -> lo <= bisect_loop fuel keys x lo hi <= hi.
Proof.
  revert lo hi; induction fuel as [|f IH]; intros lo hi H; cbn [bisect_loop]; [lia|].
  destruct (lo <? hi) eqn:E; [|lia]. apply Z.ltb_lt in E.
  assert (M : lo <= (lo + hi) / 2 < hi).
  { split; [apply Z.div_le_lower_bound; lia|apply Z.div_lt_upper_bound; lia]. }
  destruct (tup_cmp OpLt x (nth (Z.to_nat ((lo + hi) / 2)) keys [])).
  - specialize (IH lo ((lo + hi) / 2) ltac:(lia)). lia.
  - specialize (IH ((lo + hi) / 2 + 1) hi ltac:(lia)). lia.
Qed.

Lemma bisect_right_bounds keys x : 0 <= bisect_right keys x <= zlen keys.
Proof. unfold bisect_right. apply bisect_loop_bounds. unfold zlen. lia. Qed.

Lemma rev_insert_at {A} (l : list A) (n i : nat) (v : A) :
  length l = n -> (i <= n)%nat ->
  rev (firstn (n - i) l ++ v :: skipn (n - i) l) = firstn i (rev l) ++ v :: skipn i (rev l).
Proof.
  intros L Hi. rewrite rev_app_distr. cbn [rev]. rewrite <- app_assoc. cbn [app].
  rewrite firstn_rev, skipn_rev, L.
  replace (n - (n - i))%nat with i by lia. reflexivity.
Qed.

Lemma hof_insert_consistent h item : hof_consistent h -> hof_consistent (hof_insert h item).
Proof.
  unfold hof_consistent, hof_insert. intro C. cbn [hof_keys hof_items].
  pose proof (bisect_right_bounds (hof_keys h) (fitw item)) as B.
  set (i := bisect_right (hof_keys h) (fitw item)) in *.
  assert (Lk : zlen (hof_keys h) = zlen (hof_items h)).
  { unfold zlen. rewrite C, rev_length, map_length. reflexivity. }
  unfold insert_at. rewrite map_app. cbn [map]. rewrite <- firstn_map, <- skipn_map.
  set (l := map fitw (hof_items h)) in *.
  assert (Ll : length l = length (hof_items h)) by (unfold l; apply map_length).
  replace (Z.to_nat (zlen (hof_items h) - i)) with (length l - Z.to_nat i)%nat
    by (unfold zlen in *; lia).
  rewrite (rev_insert_at l (length l) (Z.to_nat i) (fitw item) eq_refl) by (unfold zlen in *; lia).
  rewrite C. reflexivity.
Qed.

Lemma rev_removelast {A} (l : list A) : rev (removelast l) = tl (rev l).
Proof.
  induction l as [|a l IH] using rev_ind; [reflexivity|].
  rewrite removelast_last, rev_app_distr. reflexivity.
Qed.

Lemma map_removelast {A B} (f : A -> B) (l : list A) : map f (removelast l) = removelast (map f l).
Proof.
  induction l as [|a l IH]; [reflexivity|].
  destruct l as [|b l]; [reflexivity|]. cbn [removelast map] in *. rewrite IH. reflexivity.
Qed.

Lemma hof_remove_last_consistent h : hof_consistent h -> hof_consistent (hof_remove_last h).
Proof.
  unfold hof_consistent, hof_remove_last. intro C. cbn [hof_keys hof_items].
  rewrite map_removelast, rev_removelast, C. reflexivity.
Qed.

Lemma hof_step_consistent first h ind : hof_consistent h -> hof_consistent (hof_step first h ind).
Proof.
  intro C. unfold hof_step.
  destruct ((zlen (hof_items h) =? 0) && negb (hof_max h =? 0)); [apply hof_insert_consistent, C|].
  destruct (tup_cmp OpGt (fitw ind) (fitw (last (hof_items h) dflt_ind)) || (zlen (hof_items h) <? hof_max h)); [|exact C].
  destruct (existsb _ (hof_items h)); [exact C|].
  apply hof_insert_consistent.
  destruct (zlen (hof_items h) >=? hof_max h); [apply hof_remove_last_consistent, C|exact C].
Qed.

Lemma hof_update_consistent h pop : hof_consistent h -> hof_consistent (hof_update h pop).
Proof.
  unfold hof_update. destruct pop as [|first pop']; [tauto|].
  generalize (first :: pop') as l. intros l; revert h.
  induction l as [|x l IH]; intros h C; cbn [fold_left]; [exact C|].
  apply IH, hof_step_consistent, C.
Qed.

Lemma step_hof_consistent P sch op s : hof_consistent (st_hof s) -> hof_consistent (st_hof (step P sch op s)).
Proof. intro C. step_cases op; cbn [commit st_hof]; apply hof_update_consistent, C. Qed.

Theorem run_hof_consistent P sch gs s :
  hof_consistent (st_hof s) -> hof_consistent (st_hof (run (step P sch) gs s)).
Proof.
  revert s; induction gs as [|g gs IH]; intros s C; [exact C|].
  unfold run in *; cbn [fold_left]. apply IH, step_hof_consistent, C.
Qed.

Lemma init_hof_consistent pop0 hofmax : hof_consistent (st_hof (init_state pop0 hofmax)).
Proof. reflexivity. Qed.

(* ------------------------------------------------------------------------------------------ *)
(* the logbook's chapters stay aligned with the main record list, and everything recorded has *)
(* been streamed (buffindex = number of records) at every generation boundary                 *)
(* ------------------------------------------------------------------------------------------ *)
Definition log_aligned (lg : logbook) : Prop :=
  lb_buff lg = zlen (lb_recs lg) /\
  ((lb_chapters lg = [] /\ lb_recs lg = []) \/
   (exists a b, lb_chapters lg = [(0, a); (1, b)] /\
                length (sl_recs a) = length (lb_recs lg) /\ length (sl_recs b) = length (lb_recs lg) /\
                sl_buff a = 0 /\ sl_buff b = 0)).

Lemma log_record_aligned lg g nevals pop : log_aligned lg -> log_aligned (log_record lg g nevals pop).
Proof.
  intros [_ [[Hc Hr]|[a [b [Hc [La [Lb [Ba Bb]]]]]]]]; unfold log_record; rewrite Hc.
  - rewrite Hr. split; [reflexivity|]. right. cbn. eexists; eexists. split; [reflexivity|].
    cbn. repeat split; reflexivity.
  - split; [reflexivity|]. right. cbn. eexists; eexists. split; [reflexivity|].
    cbn [sub_record sl_recs sl_buff lb_recs]. rewrite !app_length, La, Lb. cbn. repeat split; assumption || reflexivity.
Qed.

Lemma step_log_aligned P sch op s : log_aligned (st_log s) -> log_aligned (st_log (step P sch op s)).
Proof. intro C. step_cases op; cbn [commit st_log]; apply log_record_aligned, C. Qed.

Theorem run_log_aligned P sch gs s : log_aligned (st_log s) -> log_aligned (st_log (run (step P sch) gs s)).
Proof.
  revert s; induction gs as [|g gs IH]; intros s C; [exact C|].
  unfold run in *; cbn [fold_left]. apply IH, step_log_aligned, C.
Qed.

Lemma init_log_aligned pop0 hofmax : log_aligned (st_log (init_state pop0 hofmax)).
Proof. split; [reflexivity|]. left. split; reflexivity. Qed.

(* one record per executed generation operation *)
Lemma log_record_count lg g nevals pop : length (lb_recs (log_record lg g nevals pop)) = S (length (lb_recs lg)).
Proof. unfold log_record; cbn [lb_recs]. rewrite app_length. cbn. lia. Qed.

Lemma step_log_count P sch op s : length (lb_recs (st_log (step P sch op s))) = S (length (lb_recs (st_log s))).
Proof. step_cases op; cbn [commit st_log]; apply log_record_count. Qed.

Theorem run_log_count P sch gs s :
  length (lb_recs (st_log (run (step P sch) gs s))) = (length gs + length (lb_recs (st_log s)))%nat.
Proof.
  revert s; induction gs as [|g gs IH]; intro s; [reflexivity|].
  unfold run in *; cbn [fold_left length]. rewrite IH, step_log_count. lia.
Qed.

(* ------------------------------------------------------------------------------------------ *)
(* statements of Props/C17.v that needed more than one lemma                                  *)
(* ------------------------------------------------------------------------------------------ *)
Lemma p_resume_generic_partial :
  forall (state gen : Type) (stp : gen -> state -> state) (sv : state -> list Z) (rs : list Z -> option state),
  (forall s, rs (sv s) = Some s) ->
  forall g1 g2 s, option_map (run stp g2) (rs (sv (run stp g1 s))) = Some (run stp (g1 ++ g2) s).
Proof. intros state gen stp sv rs H g1 g2 s. rewrite H, run_app. reflexivity. Qed.

Lemma p_pmap_observed_order_partial :
  forall (A B : Type) (f : A -> B) (sched : list nat) (xs : list A),
  is_perm_of_seq sched (length xs) = true -> pmap sched f xs = map (fun x => Some (f x)) xs.
Proof. intros A B f sched xs H. apply pmap_schedule_independent, is_perm_of_seq_sound, H. Qed.

Lemma p_pmap_pool_partial :
  forall (A B : Type) (f : A -> B) (w : nat) (delays : list Z) (xs : list A),
  length delays = length xs ->
  pmap (completion_order w delays) f xs = map (fun x => Some (f x)) xs.
Proof.
  intros A B f w delays xs L. apply pmap_schedule_independent. rewrite <- L. apply completion_order_perm.
Qed.

Lemma p_run_schedule_independent_partial : forall P sch1 sch2 gs s,
  fair sch1 -> fair sch2 ->
  run (step P sch1) gs s = run (step P sch2) gs s /\ trace (step P sch1) gs s = trace (step P sch2) gs s.
Proof. intros; split; [apply run_schedule_independent|apply trace_schedule_independent]; assumption. Qed.

Lemma p_run_pool_partial : forall P (w : Z -> nat) (delays : Z -> nat -> list Z) gs s,
  run (step P (pool_schedule w delays)) gs s = run (step P serial) gs s.
Proof. intros. apply run_schedule_independent; [apply pool_schedule_fair|apply serial_fair]. Qed.

Lemma p_step_generators_partial : forall P sch op s,
  st_cur s <= st_cur (step P sch op s) /\ st_npcur (step P sch op s) = st_npcur s.
Proof. intros; split; [apply step_cursor_monotone|apply step_np]. Qed.

Lemma p_hof_keys_consistent_partial : forall P sch gs pop0 hofmax,
  let s := run (step P sch) gs (init_state pop0 hofmax) in
  hof_keys (st_hof s) = rev (map fitw (hof_items (st_hof s))).
Proof. intros. apply run_hof_consistent, init_hof_consistent. Qed.

Lemma p_logbook_aligned_partial : forall P sch gs pop0 hofmax,
  let lg := st_log (run (step P sch) gs (init_state pop0 hofmax)) in
  length (lb_recs lg) = length gs /\
  lb_buff lg = Z.of_nat (length gs) /\
  Forall (fun c => length (sl_recs (snd c)) = length gs /\ sl_buff (snd c) = 0) (lb_chapters lg).
Proof.
  intros P sch gs pop0 hofmax lg.
  pose proof (run_log_count P sch gs (init_state pop0 hofmax)) as N. cbn [init_state st_log lb_recs length] in N.
  rewrite Nat.add_0_r in N. fold lg in N.
  destruct (run_log_aligned P sch gs _ (init_log_aligned pop0 hofmax)) as [B [[Hc _]|[a [b [Hc [La [Lb [Ba Bb]]]]]]]];
    fold lg in B, Hc.
  - split; [exact N|]. split; [rewrite B; unfold zlen; rewrite N; reflexivity|]. rewrite Hc. constructor.
  - fold lg in La, Lb. split; [exact N|]. split; [rewrite B; unfold zlen; rewrite N; reflexivity|].
    rewrite Hc. repeat constructor; cbn [snd]; congruence.
Qed.

Lemma p_completion_order_gather_refuted :
  exists (s1 s2 : list nat) (xs : list Z),
    Permutation s1 (seq 0 (length xs)) /\ Permutation s2 (seq 0 (length xs)) /\
    pmap_completion_order s1 (fun x => x) xs <> pmap_completion_order s2 (fun x => x) xs.
Proof.
  exists [0; 1]%nat, [1; 0]%nat, [10; 20]. split; [apply Permutation_refl|]. split; [apply perm_swap|].
  vm_compute. discriminate.
Qed.
