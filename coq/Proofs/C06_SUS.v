(* C06 proofs, part 3: selStochasticUniversalSampling (DESIGN Appendix A7). *)
From Coq Require Import List Bool Arith ZArith Permutation Sorted QArith Qround Lia Lqa.
From DV Require Import Base.PyList Base.C06_Py Model.C06_Select Proofs.C06_Sort Proofs.C06_Basic
  Proofs.C06_Roulette.
Import ListNotations.

(* ---------- the walk along the cumulative sums ---------- *)
Lemma sus_walk_stop w r acc p cur : p <= acc -> sus_walk w r acc p cur = Some cur.
Proof.
  intro H. assert (E : Qltb acc p = false) by (qbool; exact H).
  destruct r; cbn [sus_walk]; rewrite E; reflexivity.
Qed.

Lemma sus_walk_inv w r : forall acc p cur x, sus_walk w r acc p cur = Some x ->
  (x = cur /\ p <= acc) \/
  exists j, nth_error r j = Some x /\ acc + cum w r j < p /\ p <= acc + cum w r (S j).
Proof.
  induction r as [|y r IH]; intros acc p cur x H; cbn [sus_walk] in H;
    destruct (Qltb acc p) eqn:E; qbool; try discriminate;
    try (inversion H; subst; left; split; [reflexivity|exact E]).
  right. destruct (IH _ _ _ _ H) as [[-> Hp]|(j & Hn & H1 & H2)].
  - exists 0%nat. change (cum w (y :: r) 0) with 0. change (cum w (y :: r) 1) with (val0 w y + 0).
    repeat split; lra.
  - exists (S j).
    change (cum w (y :: r) (S j)) with (val0 w y + cum w r j).
    change (cum w (y :: r) (S (S j))) with (val0 w y + cum w r (S j)).
    repeat split; [exact Hn|lra|lra].
Qed.

Lemma sus_walk_total w r : forall acc p cur, p <= acc + tot w r -> exists x, sus_walk w r acc p cur = Some x.
Proof.
  induction r as [|y r IH]; intros acc p cur H; cbn [sus_walk tot] in *;
    destruct (Qltb acc p) eqn:E; qbool; eauto.
  - lra.
  - apply IH. lra.
Qed.

(* pointer p falls to position j: c_j < p <= c_{j+1} (the first position also takes p <= c_0 = 0) *)
Definition pointer_at (w : list Q) (s : list ind) (p : Q) (j : nat) : Prop :=
  (j = 0%nat \/ cum w s j < p) /\ p <= cum w s (S j).

Lemma sus_pick_inv w s p ds x rest : sus_pick w s p ds = Ok x rest ->
  rest = ds /\ exists j, nth_error s j = Some x /\ pointer_at w s p j.
Proof.
  unfold sus_pick. destruct s as [|x0 r]; [discriminate|].
  destruct (sus_walk w r (val0 w x0) p x0) as [y|] eqn:E; [|discriminate].
  intro H. apply ret_Ok in H as [<- <-]. split; [reflexivity|].
  apply sus_walk_inv in E as [[-> Hp]|(j & Hn & H1 & H2)].
  - exists 0%nat. split; [reflexivity|]. split; [left; reflexivity|].
    change (cum w (x0 :: r) 1) with (val0 w x0 + 0). lra.
  - exists (S j). split; [exact Hn|]. unfold pointer_at.
    change (cum w (x0 :: r) (S j)) with (val0 w x0 + cum w r j).
    change (cum w (x0 :: r) (S (S j))) with (val0 w x0 + cum w r (S j)).
    split; [right|]; lra.
Qed.

Lemma sus_pick_total w s p ds : s <> [] -> p <= tot w s -> exists x, sus_pick w s p ds = Ok x ds.
Proof.
  intros Hne Hp. unfold sus_pick. destruct s as [|x0 r]; [contradiction|].
  cbn [tot] in Hp. destruct (sus_walk_total w r (val0 w x0) p x0 Hp) as [x Hx].
  rewrite Hx. eauto.
Qed.

Lemma pointer_unique w s p i j : Forall (fun x => 0 < val0 w x) s -> 0 < p ->
  (i < length s)%nat -> (j < length s)%nat ->
  pointer_at w s p i -> pointer_at w s p j -> i = j.
Proof.
  intros F Hp Hi Hj [A1 A2] [B1 B2].
  assert (A1' : cum w s i < p) by (destruct A1 as [->|A1]; [exact Hp|exact A1]).
  assert (B1' : cum w s j < p) by (destruct B1 as [->|B1]; [exact Hp|exact B1]).
  destruct (Nat.lt_trichotomy i j) as [L|[E|L]]; [|exact E|].
  - pose proof (cum_mono w s F (S i) j ltac:(lia)). lra.
  - pose proof (cum_mono w s F (S j) i ltac:(lia)). lra.
Qed.

(* ---------- counting integers ---------- *)
Definition cnt (P : nat -> bool) (k : nat) : nat := length (filter P (seq 0 k)).

Lemma cnt_S P k : cnt P (S k) = (cnt P k + (if P k then 1 else 0))%nat.
Proof.
  unfold cnt. rewrite seq_S, filter_app, app_length. cbn. destruct (P k); reflexivity.
Qed.

Lemma cnt_ext P P' k : (forall i, (i < k)%nat -> P i = P' i) -> cnt P k = cnt P' k.
Proof.
  induction k as [|k IH]; intro H; [reflexivity|]. rewrite !cnt_S, IH, H by auto. reflexivity.
Qed.

Lemma cnt_le_int (m : Z) k : (-1 <= m)%Z -> (m < Z.of_nat k)%Z ->
  Z.of_nat (cnt (fun i => (Z.of_nat i <=? m)%Z) k) = (m + 1)%Z.
Proof.
  intros Hm. induction k as [|k IH]; intro Hk.
  - cbn. lia.
  - rewrite cnt_S. destruct (Z.leb_spec (Z.of_nat k) m).
    + (* k <= m < k+1: all of 0..k counted *)
      assert (E : cnt (fun i => (Z.of_nat i <=? m)%Z) k = k).
      { clear IH. assert (G : forall n, (n <= k)%nat -> cnt (fun i => (Z.of_nat i <=? m)%Z) n = n).
        { induction n as [|n IHn]; intro Hn; [reflexivity|]. rewrite cnt_S, IHn by lia.
          destruct (Z.leb_spec (Z.of_nat n) m); lia. }
        apply G. lia. }
      rewrite E. lia.
    + rewrite Nat.add_0_r. apply IH. lia.
Qed.

Lemma cnt_diff P Q R k :
  (forall i, (i < k)%nat -> P i = Q i && negb (R i)) ->
  (forall i, (i < k)%nat -> R i = true -> Q i = true) ->
  (cnt P k + cnt R k = cnt Q k)%nat.
Proof.
  induction k as [|k IH]; intros H1 H2; [reflexivity|].
  rewrite !cnt_S. specialize (IH ltac:(auto) ltac:(auto)).
  specialize (H1 k ltac:(lia)). specialize (H2 k ltac:(lia)).
  destruct (P k), (Q k), (R k); cbn in *; try discriminate; try lia.
Qed.

Lemma filter_Forall2_length {A B} (R : A -> B -> Prop) (f : A -> bool) (g : B -> bool) l l' :
  Forall2 R l l' -> (forall a b, R a b -> f a = g b) -> length (filter f l) = length (filter g l').
Proof.
  intros F H. induction F as [|a b l l' Hab F IH]; [reflexivity|].
  cbn. rewrite (H a b Hab). destruct (g b); cbn; rewrite IH; reflexivity.
Qed.

Lemma Forall2_map_l {A B C} (R : B -> C -> Prop) (f : A -> B) l l' :
  Forall2 R (map f l) l' <-> Forall2 (fun a c => R (f a) c) l l'.
Proof.
  split.
  - revert l'; induction l as [|a l IH]; intros l' H; inversion H; subst; constructor; auto.
  - induction 1; cbn; constructor; auto.
Qed.

Lemma Forall2_weaken {A B} (R R' : A -> B -> Prop) l l' :
  (forall a b, R a b -> R' a b) -> Forall2 R l l' -> Forall2 R' l l'.
Proof. intros H F. induction F; constructor; auto. Qed.

Lemma Forall2_len {A B} (R : A -> B -> Prop) l l' : Forall2 R l l' -> length l = length l'.
Proof. induction 1; cbn; congruence. Qed.

Lemma Forall2_seq_lt {C} (R : nat -> C -> Prop) a k l :
  Forall2 R (seq a k) l -> Forall2 (fun i c => (a <= i < a + k)%nat /\ R i c) (seq a k) l.
Proof.
  revert a l; induction k as [|k IH]; intros a l H; cbn in *; inversion H; subst; constructor.
  - split; [lia|assumption].
  - eapply Forall2_weaken; [|apply IH; eassumption]. cbn. intros i c [Hi Hr]. split; [lia|exact Hr].
Qed.

(* ---------- floors ---------- *)
Lemma Qfloor_le_iff (z : Z) (x : Q) : inject_Z z <= x <-> (z <= Qfloor x)%Z.
Proof.
  split; intro H.
  - apply Qfloor_resp_le in H. rewrite Qfloor_Z in H. exact H.
  - eapply Qle_trans; [|apply Qfloor_le]. rewrite <- Zle_Qle. exact H.
Qed.

Lemma Qfloor_add_bounds (a y : Q) :
  (Qfloor a + Qfloor y <= Qfloor (a + y))%Z /\ (Qfloor (a + y) <= Qfloor a + Qceiling y)%Z.
Proof.
  pose proof (Qfloor_le a). pose proof (Qfloor_le y). pose proof (Qlt_floor a).
  pose proof (Qle_ceiling y). pose proof (Qfloor_le (a + y)). split.
  - apply Qfloor_le_iff. rewrite inject_Z_plus. lra.
  - assert (L : inject_Z (Qfloor (a + y)) < inject_Z (Qfloor a + 1 + Qceiling y)).
    { rewrite !inject_Z_plus in *. lra. }
    rewrite <- Zlt_Qlt in L. lia.
Qed.

(* ---------- the pointers ---------- *)
Section Pointers.
  Variables (S u : Q) (k : nat).
  Hypothesis HS : 0 < S.
  Hypothesis Hk : (0 < k)%nat.
  Hypothesis Hu0 : 0 < u.
  Hypothesis Hu1 : u < 1.

  Let K : Q := inject_Z (Z.of_nat k).
  Let d : Q := S / K.
  Let start : Q := 0 + (d - 0) * u.
  Definition pt (i : nat) : Q := start + inject_Z (Z.of_nat i) * d.

  Lemma K_pos : 0 < K.
  Proof. unfold K. change 0 with (inject_Z 0). rewrite <- Zlt_Qlt. lia. Qed.

  Lemma d_pos : 0 < d.
  Proof. unfold d. apply Qlt_shift_div_l; [apply K_pos|]. lra. Qed.

  Lemma Kd : K * d == S.
  Proof. unfold d. field. pose proof K_pos. lra. Qed.

  Lemma sus_points_pt : sus_points S k u = map pt (seq 0 k).
  Proof. reflexivity. Qed.

  Lemma pt_pos i : 0 < pt i.
  Proof.
    unfold pt, start. pose proof d_pos.
    assert (0 <= inject_Z (Z.of_nat i)) by (change 0 with (inject_Z 0); rewrite <- Zle_Qle; lia).
    nra.
  Qed.

  Lemma pt_lt_S i : (i < k)%nat -> pt i < S.
  Proof.
    intro Hi. unfold pt, start. pose proof d_pos. rewrite <- Kd.
    assert (inject_Z (Z.of_nat i) + 1 <= K).
    { unfold K. change 1 with (inject_Z 1). rewrite <- inject_Z_plus, <- Zle_Qle. lia. }
    nra.
  Qed.

  (* pt i <= t  <->  i <= floor((t - start)/d) *)
  Lemma pt_le_iff i t : pt i <= t <-> (Z.of_nat i <= Qfloor ((t - start) / d))%Z.
  Proof.
    rewrite <- Qfloor_le_iff. unfold pt. pose proof d_pos. split; intro H0.
    - apply Qle_shift_div_l; [assumption|]. lra.
    - assert (E : t - start == ((t - start) / d) * d) by (field; lra).
      assert (inject_Z (Z.of_nat i) * d <= t - start) by (rewrite E; nra). lra.
  Qed.

  (* number of pointers <= t, for 0 <= t <= S *)
  Lemma count_le t : 0 <= t -> t <= S ->
    Z.of_nat (cnt (fun i => Qle_bool (pt i) t) k) = (Qfloor ((t - start) / d) + 1)%Z.
  Proof.
    intros H0 H1. pose proof d_pos as Hd.
    rewrite (cnt_ext _ (fun i => (Z.of_nat i <=? Qfloor ((t - start) / d))%Z)).
    - apply cnt_le_int.
      + (* (t - start)/d > -1 *)
        assert (L : inject_Z (-1) <= (t - start) / d).
        { apply Qle_shift_div_l; [assumption|]. unfold start. change (inject_Z (-1)) with (-1 # 1). nra. }
        apply Qfloor_le_iff in L. exact L.
      + (* (t - start)/d < k *)
        assert (L : (t - start) / d < K).
        { apply Qlt_shift_div_r; [assumption|]. rewrite Kd. unfold start. nra. }
        pose proof (Qfloor_le ((t - start) / d)) as Fl.
        assert (L2 : inject_Z (Qfloor ((t - start) / d)) < inject_Z (Z.of_nat k)) by (fold K; lra).
        rewrite <- Zlt_Qlt in L2. exact L2.
    - intros i _. destruct (Qle_bool (pt i) t) eqn:E.
      + apply Qle_bool_iff in E. apply pt_le_iff in E. symmetry. apply Z.leb_le. exact E.
      + apply Qle_bool_false in E. symmetry. apply Z.leb_gt.
        destruct (Z.le_gt_cases (Z.of_nat i) (Qfloor ((t - start) / d))) as [L|G]; [|lia].
        apply pt_le_iff in L. lra.
  Qed.

  (* number of pointers in (a, b], 0 <= a <= b <= S *)
  Lemma count_interval a b : 0 <= a -> a <= b -> b <= S ->
    let c := Z.of_nat (cnt (fun i => Qltb a (pt i) && Qle_bool (pt i) b) k) in
    (Qfloor ((b - a) / d) <= c)%Z /\ (c <= Qceiling ((b - a) / d))%Z.
  Proof.
    intros Ha Hab Hb. cbv zeta. pose proof d_pos as Hd.
    assert (E : (cnt (fun i => Qltb a (pt i) && Qle_bool (pt i) b) k + cnt (fun i => Qle_bool (pt i) a) k
                 = cnt (fun i => Qle_bool (pt i) b) k)%nat).
    { apply cnt_diff.
      - intros i _. unfold Qltb. rewrite andb_comm. reflexivity.
      - intros i _ H. qbool. lra. }
    pose proof (count_le a ltac:(lra) ltac:(lra)) as Ca.
    pose proof (count_le b ltac:(lra) ltac:(lra)) as Cb.
    assert (Eq : (b - start) / d == (a - start) / d + (b - a) / d) by (field; lra).
    rewrite (Qfloor_comp _ _ Eq) in Cb.
    pose proof (Qfloor_add_bounds ((a - start) / d) ((b - a) / d)) as [B1 B2].
    lia.
  Qed.
End Pointers.

(* ---------- the operator ---------- *)
Definition count_uid (i : nat) (l : list ind) : nat := length (filter (fun x => Nat.eqb (uid x) i) l).

Lemma nth_error_uid_inj (s : list ind) i j x y :
  NoDup (map uid s) -> nth_error s i = Some x -> nth_error s j = Some y -> uid x = uid y -> i = j.
Proof.
  intros ND Hi Hj E.
  assert (Hi' : nth_error (map uid s) i = Some (uid x)) by (rewrite nth_error_map, Hi; reflexivity).
  assert (Hj' : nth_error (map uid s) j = Some (uid y)) by (rewrite nth_error_map, Hj; reflexivity).
  rewrite <- E in Hj'.
  apply (proj1 (NoDup_nth_error (map uid s)) ND).
  - apply nth_error_Some. rewrite Hi'. discriminate.
  - rewrite Hi', Hj'. reflexivity.
Qed.

Lemma selSUS_k0 w inds ds : forallb (has_val0 w) inds = true -> selSUS w inds 0 ds = Ok [] ds.
Proof. intro H. unfold selSUS. rewrite H. reflexivity. Qed.

Lemma selSUS_spec w inds k u ds out rest :
  Forall (fun x => 0 < val0 w x) inds -> inds <> [] -> NoDup (map uid inds) -> (0 < k)%nat ->
  selSUS w inds k (DRandom u :: ds) = Ok out rest -> 0 < u ->
  let S := sum_fits w inds in
  rest = ds /\ u < 1 /\ 0 < S /\ length out = k /\ Forall (fun x => In x inds) out /\
  forall x, In x inds ->
    let share := inject_Z (Z.of_nat k) * val0 w x / S in
    (Qfloor share <= Z.of_nat (count_uid (uid x) out))%Z /\
    (Z.of_nat (count_uid (uid x) out) <= Qceiling share)%Z.
Proof.
  intros Pos Hne ND Hk H Hu0. cbv zeta.
  set (s := py_sorted_rev f_lt inds) in *. set (S := sum_fits w inds) in *.
  assert (Perm : Permutation s inds) by apply py_sorted_rev_perm.
  assert (PosS : Forall (fun x => 0 < val0 w x) s).
  { eapply Permutation_Forall; [symmetry; exact Perm|exact Pos]. }
  assert (ES : S == tot w s).
  { unfold S. rewrite sum_fits_tot. apply tot_perm. symmetry; exact Perm. }
  assert (Hs : s <> []).
  { intro E. rewrite E in Perm. apply Permutation_nil in Perm. contradiction. }
  assert (HS : 0 < S) by (rewrite ES; apply tot_pos; assumption).
  assert (NDs : NoDup (map uid s)).
  { eapply Permutation_NoDup; [|exact ND]. apply Permutation_map. symmetry. exact Perm. }
  unfold selSUS in H. fold s in H. fold S in H.
  rewrite (positive_has_val0 _ _ Pos) in H. cbn [negb] in H.
  destruct (Nat.eqb_spec k 0) as [->|_]; [lia|].
  inv_bind H. apply random01_Ok in Hm as (_ & Hu1 & E). inversion E; subst a ds0. clear E.
  rewrite (sus_points_pt S u k) in Hf.
  (* every pointer is picked at its position *)
  assert (G : forall l d o r, mapM (sus_pick w s) l d = Ok o r ->
              r = d /\ Forall2 (fun p x => exists j, nth_error s j = Some x /\ pointer_at w s p j) l o).
  { induction l as [|p l IH]; intros d o r Hm; cbn [mapM] in Hm.
    - apply ret_Ok in Hm as [<- <-]. split; [reflexivity|constructor].
    - bind_inv Hm as x1 d1 P1 Hm'. bind_inv Hm' as o1 d2 P2 Hr. apply ret_Ok in Hr as [<- <-].
      apply sus_pick_inv in P1 as [-> Hx]. apply IH in P2 as [-> F]. split; [reflexivity|].
      constructor; assumption. }
  apply G in Hf as [-> F]. clear G.
  apply Forall2_map_l in F. apply Forall2_seq_lt in F. cbn [Nat.add] in F.
  split; [reflexivity|]. split; [exact Hu1|]. split; [exact HS|].
  split; [apply Forall2_len in F; rewrite seq_length in F; symmetry; exact F|].
  split.
  { clear -F Perm. induction F as [|i x l o (_ & j & Hn & _) F IH]; constructor; [|exact IH].
    eapply Permutation_in; [exact Perm|]. eapply nth_error_In; eauto. }
  intros x Hx.
  assert (Hxs : In x s) by (eapply Permutation_in; [symmetry; exact Perm|exact Hx]).
  apply In_nth_error in Hxs as [j Hj].
  assert (Hjl : (j < length s)%nat) by (apply nth_error_Some; rewrite Hj; discriminate).
  (* the count of x is the number of pointers in (c_j, c_{j+1}] *)
  assert (C : count_uid (uid x) out =
              cnt (fun i => Qltb (cum w s j) (pt S u k i) && Qle_bool (pt S u k i) (cum w s (Datatypes.S j))) k).
  { unfold count_uid, cnt. symmetry.
    eapply filter_Forall2_length; [exact F|]. cbv beta.
    intros i y ((_ & Hi) & j' & Hj' & PA).
    pose proof (pt_pos S u k HS Hk Hu0 i) as Pp.
    assert (Hj'l : (j' < length s)%nat) by (apply nth_error_Some; rewrite Hj'; discriminate).
    destruct (Nat.eqb_spec (uid y) (uid x)) as [Eu|Nu].
    - assert (j' = j) by (eapply nth_error_uid_inj; eauto). subst j'.
      destruct PA as [A1 A2].
      assert (A1' : cum w s j < pt S u k i) by (destruct A1 as [->|A1]; [exact Pp|exact A1]).
      apply andb_true_intro. split; qbool; assumption.
    - apply andb_false_iff.
      destruct (Qltb (cum w s j) (pt S u k i)) eqn:E1; [|left; reflexivity].
      destruct (Qle_bool (pt S u k i) (cum w s (Datatypes.S j))) eqn:E2; [|right; reflexivity].
      exfalso. qbool. apply Nu.
      assert (j' = j).
      { eapply (pointer_unique w s (pt S u k i)); eauto. split; [right; exact E1|exact E2]. }
      subst j'. congruence. }
  rewrite C.
  assert (B0 : 0 <= cum w s j).
  { pose proof (cum_mono w s PosS 0 j ltac:(lia)) as M. exact M. }
  assert (B1 : cum w s j <= cum w s (Datatypes.S j)) by (apply cum_mono; [exact PosS|lia]).
  assert (B2 : cum w s (Datatypes.S j) <= S).
  { rewrite ES. rewrite <- (cum_all w s (length s)) by lia. apply cum_mono; [exact PosS|lia]. }
  pose proof (count_interval S u k HS Hk Hu0 Hu1 _ _ B0 B1 B2) as CI. cbv zeta in CI.
  assert (Esh : inject_Z (Z.of_nat k) * val0 w x / S ==
                (cum w s (Datatypes.S j) - cum w s j) / (S / inject_Z (Z.of_nat k))).
  { rewrite (cum_S w s j x Hj). pose proof (K_pos k Hk). field. split; lra. }
  rewrite (Qfloor_comp _ _ Esh). unfold Qceiling. rewrite (Qfloor_comp _ _ (Qopp_comp _ _ Esh)).
  exact CI.
Qed.
