(* Tie (T) of property C10: the C10 theorems, transferred to the definitions regenerated from the source
   (coq/Gen/C10_gen.v) through the equivalences of Proofs/C10_gen_equiv.v.  Compiled on every run. *)
From Coq Require Import List Reals Lra Lia.
From DV Require Import Model.C10_RealOps Model.C10_PyRt Proofs.C10_RealOps Gen.C10_gen Proofs.C10_gen_equiv.
Import ListNotations.
Local Open Scope R_scope.

Lemma spec_ext {A} k (m m' : M R A) (Q : A -> Prop) : (forall s, m s = m' s) -> spec k m' Q -> spec k m Q.
Proof.
  intros E H us Hus Hlen. destruct (H us Hus Hlen) as (a & pre & us' & E1 & Hp & Hm & Ha).
  exists a, pre, us'. rewrite E. repeat split; auto.
Qed.

Lemma div_lawful_ROps eps : div_lawful (ROps eps).
Proof. intros a b. cbn. unfold Rdiv'. destruct (Req_EM_T b 0); [reflexivity|exact I]. Qed.

(* every regenerated definition is the model, at every number record (for mutESLogNormal: at every record whose
   division can only fail with ZeroDivisionError -- the float and the real instance are such) *)
Lemma source_is_model : forall (T : Type) (O : ops T),
  (forall ind1 ind2 alpha s, cxBlend O ind1 ind2 alpha s = cx_blend O alpha ind1 ind2 s) /\
  (forall ind1 ind2 eta s, cxSimulatedBinary O ind1 ind2 eta s = cx_sbx O eta ind1 ind2 s) /\
  (forall ind1 ind2 eta low up s,
     cxSimulatedBinaryBounded O ind1 ind2 eta low up s = cx_sbx_bounded O eta low up ind1 ind2 s) /\
  (forall individual mu sigma indpb s,
     mutGaussian O individual mu sigma indpb s = mut_gaussian O mu sigma indpb individual s) /\
  (forall individual eta low up indpb s,
     mutPolynomialBounded O individual eta low up indpb s = mut_poly O eta low up indpb individual s) /\
  (forall ind1 st1 ind2 st2 alpha s,
     cxESBlend O ind1 st1 ind2 st2 alpha s = cx_es_blend O alpha ind1 st1 ind2 st2 s) /\
  (div_lawful O -> forall individual st c indpb s,
     mutESLogNormal O individual st c indpb s = mut_es_lognormal O c indpb individual st s).
Proof.
  intros T O. repeat split; intros.
  - apply gen_cxBlend.
  - apply gen_cxSimulatedBinary.
  - apply gen_cxSimulatedBinaryBounded.
  - apply gen_mutGaussian.
  - apply gen_mutPolynomialBounded.
  - apply gen_cxESBlend.
  - now apply gen_mutESLogNormal.
Qed.

Lemma number_records_lawful : div_lawful FOps /\ forall eps, div_lawful (ROps eps).
Proof. split; [exact div_lawful_FOps|exact div_lawful_ROps]. Qed.

Lemma gen_sbx_bounded_defined_in_bounds : forall eps, 0 <= eps -> forall eta low up ind1 ind2,
  0 <= eta ->
  let size := Nat.min (length ind1) (length ind2) in
  let lows := firstn size (bvals low size) in
  let ups := firstn size (bvals up size) in
  bnd_long low size -> bnd_long up size ->
  inbl lows ups ind1 -> inbl lows ups ind2 ->
  forall us, Forall in01 us -> (3 * size <= length us)%nat ->
  exists c1 c2 us',
    cxSimulatedBinaryBounded (ROps eps) ind1 ind2 eta low up (rs us) = Ok ((c1, c2), rs us') /\
    length c1 = length ind1 /\ length c2 = length ind2 /\
    inbl lows ups c1 /\ inbl lows ups c2 /\
    (forall i, (i < size)%nat -> nth i lows 0 <= nth i c1 0 <= nth i ups 0 /\
                                 nth i lows 0 <= nth i c2 0 <= nth i ups 0) /\
    (forall i, (size <= i)%nat -> nth i c1 0 = nth i ind1 0 /\ nth i c2 0 = nth i ind2 0).
Proof.
  intros. rewrite gen_cxSimulatedBinaryBounded. apply cx_sbx_bounded_defined_in_bounds; assumption.
Qed.

Lemma gen_poly_defined_in_bounds : forall eps eta low up indpb ind,
  0 <= eta ->
  let size := length ind in
  let lows := bvals low size in
  let ups := bvals up size in
  bnd_long low size -> bnd_long up size ->
  ltl3 lows ups ind -> inbl lows ups ind ->
  forall us, Forall in01 us -> (2 * size <= length us)%nat ->
  exists c us',
    mutPolynomialBounded (ROps eps) ind eta low up indpb (rs us) = Ok (c, rs us') /\
    length c = length ind /\
    forall i, (i < length ind)%nat -> nth i lows 0 <= nth i c 0 <= nth i ups 0.
Proof.
  intros. rewrite gen_mutPolynomialBounded. apply mut_poly_defined_in_bounds; assumption.
Qed.

Lemma gen_blend_sum : forall eps alpha ind1 ind2 s c1 c2 s',
  cxBlend (ROps eps) ind1 ind2 alpha s = Ok ((c1, c2), s') ->
  length c1 = length ind1 /\ length c2 = length ind2 /\
  forall i, nth i c1 0 + nth i c2 0 = nth i ind1 0 + nth i ind2 0.
Proof. intros *. rewrite gen_cxBlend. apply cx_blend_sum. Qed.

Lemma gen_blend_interval : forall eps alpha ind1 ind2, 0 <= alpha ->
  spec (Nat.min (length ind1) (length ind2)) (cxBlend (ROps eps) ind1 ind2 alpha)
       (fun c => blend_ok alpha ind1 ind2 (fst c) (snd c)).
Proof. intros. eapply spec_ext; [apply gen_cxBlend|]. now apply cx_blend_spec. Qed.

Lemma gen_sbx_defined_sum : forall eps eta ind1 ind2, 0 <= eta ->
  spec (Nat.min (length ind1) (length ind2)) (cxSimulatedBinary (ROps eps) ind1 ind2 eta)
       (fun c => sum_kept ind1 ind2 (fst c) (snd c)).
Proof. intros. eapply spec_ext; [apply gen_cxSimulatedBinary|]. now apply cx_sbx_spec. Qed.

Lemma gen_es_blend_interval : forall eps alpha g1 s1 g2 s2, 0 <= alpha ->
  spec (2 * length g1) (cxESBlend (ROps eps) g1 s1 g2 s2 alpha)
    (fun r => let '(a, b, c, d) := r in
       sum_kept g1 g2 a c /\ sum_kept s1 s2 b d /\
       (forall i, (i < min4 g1 s1 g2 s2)%nat ->
          within alpha (nth i g1 0) (nth i g2 0) (nth i a 0) /\ within alpha (nth i g1 0) (nth i g2 0) (nth i c 0) /\
          within alpha (nth i s1 0) (nth i s2 0) (nth i b 0) /\ within alpha (nth i s1 0) (nth i s2 0) (nth i d 0)) /\
       (forall i, (min4 g1 s1 g2 s2 <= i)%nat ->
          nth i a 0 = nth i g1 0 /\ nth i b 0 = nth i s1 0 /\ nth i c 0 = nth i g2 0 /\ nth i d 0 = nth i s2 0)).
Proof. intros. eapply spec_ext; [apply gen_cxESBlend|]. now apply cx_es_blend_spec_idx. Qed.

Lemma gen_gauss_indpb0_identity : forall eps mu sigma ind s c s', draws_ok s ->
  mutGaussian (ROps eps) ind mu sigma 0 s = Ok (c, s') -> c = ind.
Proof. intros *. rewrite gen_mutGaussian. apply mut_gaussian_indpb0. Qed.

Lemma gen_gauss_indpb0_defined : forall eps mu sigma ind,
  bnd_long mu (length ind) -> bnd_long sigma (length ind) ->
  spec (length ind) (mutGaussian (ROps eps) ind mu sigma 0) (fun c => c = ind).
Proof. intros. eapply spec_ext; [apply gen_mutGaussian|]. now apply mut_gaussian_indpb0_spec. Qed.

Lemma gen_eslognormal_len_scaled : forall eps c indpb g st s g' st' s',
  mutESLogNormal (ROps eps) g st c indpb s = Ok ((g', st'), s') ->
  length g' = length g /\ length st' = length st /\ Forall2 scaled st st'.
Proof. intros *. rewrite gen_mutESLogNormal by apply div_lawful_ROps. apply mut_es_lognormal_inv. Qed.

Lemma gen_eslognormal_strategy_pos : forall eps c indpb g st s g' st' s',
  mutESLogNormal (ROps eps) g st c indpb s = Ok ((g', st'), s') ->
  forall i, 0 < nth i st 0 -> 0 < nth i st' 0.
Proof. intros *. rewrite gen_mutESLogNormal by apply div_lawful_ROps. apply mut_es_lognormal_strategy_pos. Qed.

Lemma gen_eslognormal_indpb0_identity : forall eps c g st s g' st' s', draws_ok s ->
  mutESLogNormal (ROps eps) g st c 0 s = Ok ((g', st'), s') -> g' = g /\ st' = st.
Proof. intros *. rewrite gen_mutESLogNormal by apply div_lawful_ROps. apply mut_es_lognormal_indpb0. Qed.

Lemma gen_eslognormal_indpb0_defined : forall eps c g st z us,
  g <> [] -> Forall in01 us -> (length g <= length us)%nat ->
  exists us', mutESLogNormal (ROps eps) g st c 0 (EGauss 0 1 z :: rs us) = Ok ((g, st), rs us').
Proof.
  intros. destruct (mut_es_lognormal_indpb0_defined eps c g st z us) as [us' E]; auto.
  exists us'. rewrite gen_mutESLogNormal by apply div_lawful_ROps. exact E.
Qed.
