(* C11 — crossovers (cxOnePoint, cxOnePointLeafBiased) and the staticLimit decorator. *)
From Coq Require Import List ZArith NArith Bool Lia.
From DV Require Import Model.C11_GPTree Proofs.C11_Tree Proofs.C11_Gen Proofs.C11_Ops.
Import ListNotations.
Local Open Scope Z_scope.

Lemma swap_plug c1 u1 c2 u2 ds : wft (plug c1 u1) -> wft (plug c2 u2) ->
  swap_subtrees (flatten (plug c1 u1)) (flatten (plug c2 u2)) (length (cpre c1)) (length (cpre c2)) ds =
  Ok ((flatten (plug c1 u2), flatten (plug c2 u1)), ds).
Proof.
  intros H1 H2. unfold swap_subtrees, bind, lift, ret.
  rewrite !search_plug by auto. cbn [fst snd]. rewrite !get_slice_plug.
  rewrite !set_slice_plug by (eapply wft_plug; eauto). reflexivity.
Qed.

Lemma idx_of_type_spec keep l t i : In i (idx_of_type keep l t) ->
  (1 <= i)%nat /\ exists n, nth_error l i = Some n /\ nret n = t /\ keep n = true.
Proof.
  unfold idx_of_type. intro H. apply in_map_iff in H. destruct H as ([j n] & <- & H).
  apply filter_In in H. destruct H as [H E]. cbn [fst snd] in *.
  apply andb_prop in E. destruct E as [E1 E2]. apply N.eqb_eq in E2.
  apply in_tl_enumerate in H. destruct H. split; eauto.
Qed.

(* loosely typed trees: every argument type is `object` *)
Definition untyped_nodes (l : list node) : Prop :=
  Forall (fun n => Forall (fun a => a = tobj) (nargs n)) l.

Section Cx.
  Variable sub : ty -> ty -> bool.
  Hypothesis sub_top : forall a, sub a tobj = true.     (* issubclass(x, object) *)

  Lemma untyped_typed : forall t top, wft t -> untyped_nodes (flatten t) ->
    sub (nret (root t)) top = true -> typed sub top t.
  Proof.
    unfold untyped_nodes. induction t as [n ks IH] using tree_ind'. intros top Hw Hu Hs.
    apply wft_unfold in Hw. destruct Hw as [HL HF]. cbn [flatten] in Hu. fold (ff ks) in Hu.
    inversion Hu as [|? ? Hn Hks]; subst. apply typed_unfold. split; auto.
    unfold arity in HL. clear Hu Hs. revert HL Hn. generalize (nargs n) as tys.
    induction ks as [|k ks IHks]; intros tys HL Hn; destruct tys as [|a tys]; try discriminate; constructor.
    - inversion IH as [|? ? Hk _]; subst. inversion HF; subst. inversion Hn; subst.
      rewrite ff_cons in Hks. apply Forall_app in Hks. apply Hk; try tauto. apply sub_top.
    - inversion IH; subst. inversion HF; subst. inversion Hn; subst.
      rewrite ff_cons in Hks. apply Forall_app in Hks. apply IHks; auto; tauto.
  Qed.

  (* exchange of the subtrees rooted at i1 / i2 whose roots return the same type *)
  Lemma cx_core top1 top2 t1 t2 i1 i2 n1 n2 ds o1 o2 ds' :
    typed sub top1 t1 -> typed sub top2 t2 ->
    nth_error (flatten t1) i1 = Some n1 -> nth_error (flatten t2) i2 = Some n2 ->
    nret n1 = nret n2 ->
    swap_subtrees (flatten t1) (flatten t2) i1 i2 ds = Ok ((o1, o2), ds') ->
    exists t1' t2', o1 = flatten t1' /\ o2 = flatten t2' /\ typed sub top1 t1' /\ typed sub top2 t2' /\
      (size t1' + size t2' = size t1 + size t2)%nat.
  Proof.
    intros Ht1 Ht2 Hn1 Hn2 Eret H.
    assert (Hi1 : (i1 < length (flatten t1))%nat) by (apply nth_error_Some; congruence).
    assert (Hi2 : (i2 < length (flatten t2))%nat) by (apply nth_error_Some; congruence).
    destruct (index_decompose sub top1 t1 i1 Ht1 Hi1) as (c1 & u1 & e1 & -> & Hc1 & Hw1 & Hu1 & Hs1).
    destruct (index_decompose sub top2 t2 i2 Ht2 Hi2) as (c2 & u2 & e2 & -> & Hc2 & Hw2 & Hu2 & Hs2).
    rewrite <- Hc1 in Hn1, H. rewrite <- Hc2 in Hn2, H. rewrite nth_plug in Hn1, Hn2.
    inversion Hn1; subst n1. inversion Hn2; subst n2.
    rewrite swap_plug in H by auto. inversion H; subst.
    exists (plug c1 u2), (plug c2 u1). repeat split; auto.
    - apply Hs1. eapply typed_weaken; eauto. rewrite <- Eret. eapply typed_root; eauto.
    - apply Hs2. eapply typed_weaken; eauto. rewrite Eret. eapply typed_root; eauto.
    - pose proof (size_plug c1 u1 u2). pose proof (size_plug c2 u2 u1). lia.
  Qed.

  (* the "Not STGP" shortcut: any two non-root subtrees of loosely typed trees *)
  Lemma cx_core_untyped top1 top2 t1 t2 i1 i2 ds o1 o2 ds' :
    typed sub top1 t1 -> typed sub top2 t2 ->
    untyped_nodes (flatten t1) -> untyped_nodes (flatten t2) ->
    (1 <= i1 < length (flatten t1))%nat -> (1 <= i2 < length (flatten t2))%nat ->
    swap_subtrees (flatten t1) (flatten t2) i1 i2 ds = Ok ((o1, o2), ds') ->
    exists t1' t2', o1 = flatten t1' /\ o2 = flatten t2' /\ typed sub top1 t1' /\ typed sub top2 t2' /\
      (size t1' + size t2' = size t1 + size t2)%nat.
  Proof.
    intros Ht1 Ht2 Un1 Un2 Hi1 Hi2 H.
    destruct (index_decompose sub top1 t1 i1 Ht1 (proj2 Hi1)) as (c1 & u1 & e1 & -> & Hc1 & Hw1 & Hu1 & Hs1).
    destruct (index_decompose sub top2 t2 i2 Ht2 (proj2 Hi2)) as (c2 & u2 & e2 & -> & Hc2 & Hw2 & Hu2 & Hs2).
    rewrite <- Hc1, <- Hc2 in H. rewrite swap_plug in H by auto. inversion H; subst.
    assert (N1 : c1 <> Hole) by (apply cpre_hole; lia).
    assert (N2 : c2 <> Hole) by (apply cpre_hole; lia).
    rewrite flatten_plug in Un1, Un2. unfold untyped_nodes in Un1, Un2.
    apply Forall_app in Un1. destruct Un1 as [A1 B1]. apply Forall_app in B1. destruct B1 as [B1 C1].
    apply Forall_app in Un2. destruct Un2 as [A2 B2]. apply Forall_app in B2. destruct B2 as [B2 C2].
    exists (plug c1 u2), (plug c2 u1). repeat split; auto.
    - apply untyped_typed.
      + eapply wft_plug; eauto. eapply wft_plug; eauto.
      + rewrite flatten_plug. unfold untyped_nodes. rewrite !Forall_app. auto.
      + rewrite (root_plug c1 u1 u2 N1). eapply typed_root; eauto.
    - apply untyped_typed.
      + eapply wft_plug; eauto. eapply wft_plug; eauto.
      + rewrite flatten_plug. unfold untyped_nodes. rewrite !Forall_app. auto.
      + rewrite (root_plug c2 u2 u1 N2). eapply typed_root; eauto.
    - pose proof (size_plug c1 u1 u2). pose proof (size_plug c2 u2 u1). lia.
  Qed.

  Definition cx_post top1 top2 t1 t2 (o1 o2 : list node) : Prop :=
    exists t1' t2', o1 = flatten t1' /\ o2 = flatten t2' /\ typed sub top1 t1' /\ typed sub top2 t2' /\
      (size t1' + size t2' = size t1 + size t2)%nat.

  Lemma in_seq1 i n : In i (seq 1 (n - 1)) -> (1 <= i < n)%nat.
  Proof. intro H. apply in_seq in H. lia. Qed.

  (* cxOnePoint.  Hypothesis Hobj: if the root of the first tree returns `object` the code treats both
     trees as loosely typed, so they have to be (DESIGN Appendix B 7) *)
  Theorem cx_one_point_closed top1 top2 t1 t2 ds o1 o2 ds' :
    typed sub top1 t1 -> typed sub top2 t2 ->
    (nret (root t1) = tobj -> untyped_nodes (flatten t1) /\ untyped_nodes (flatten t2)) ->
    cx_one_point (flatten t1) (flatten t2) ds = Ok ((o1, o2), ds') ->
    cx_post top1 top2 t1 t2 o1 o2.
  Proof.
    intros Ht1 Ht2 Hobj H. unfold cx_one_point, cx_one_point_with in H.
    assert (Same : cx_post top1 top2 t1 t2 (flatten t1) (flatten t2)).
    { exists t1, t2. repeat split; auto. }
    destruct ((length (flatten t1) <? 2)%nat || (length (flatten t2) <? 2)%nat).
    { apply ret_ok in H. destruct H as [H _]. inversion H; subst. exact Same. }
    destruct (flatten t1) as [|r1 rest1] eqn:E1.
    { apply ret_ok in H. destruct H as [H _]. inversion H; subst. exact Same. }
    assert (Hr : r1 = root t1) by (destruct t1; cbn in E1; inversion E1; reflexivity).
    rewrite <- E1 in *. clear E1.
    destruct (N.eqb (nret r1) tobj) eqn:Eobj.
    - apply N.eqb_eq in Eobj. rewrite Hr in Eobj. destruct (Hobj Eobj) as [Un1 Un2].
      apply bind_ok in H. destruct H as (ty0 & ds1 & _ & H).
      apply bind_ok in H. destruct H as (i1 & ds2 & Hc1 & H).
      apply bind_ok in H. destruct H as (i2 & ds3 & Hc2 & H).
      apply d_choice_ok in Hc1. destruct Hc1 as [Hc1 _]. apply in_seq1 in Hc1.
      apply d_choice_ok in Hc2. destruct Hc2 as [Hc2 _]. apply in_seq1 in Hc2.
      eapply cx_core_untyped; eauto.
    - destruct (common_types all_nodes all_nodes (flatten t1) (flatten t2)) as [|ct0 ctr] eqn:Ect.
      { apply ret_ok in H. destruct H as [H _]. inversion H; subst. exact Same. }
      rewrite <- Ect in H.
      apply bind_ok in H. destruct H as (ty0 & ds1 & _ & H).
      apply bind_ok in H. destruct H as (i1 & ds2 & Hc1 & H).
      apply bind_ok in H. destruct H as (i2 & ds3 & Hc2 & H).
      apply d_choice_ok in Hc1. destruct Hc1 as [Hc1 _]. apply idx_of_type_spec in Hc1.
      apply d_choice_ok in Hc2. destruct Hc2 as [Hc2 _]. apply idx_of_type_spec in Hc2.
      destruct Hc1 as (_ & n1 & Hn1 & R1 & _). destruct Hc2 as (_ & n2 & Hn2 & R2 & _).
      eapply cx_core; eauto. congruence.
  Qed.

  Theorem cx_leaf_biased_closed pn pd top1 top2 t1 t2 ds o1 o2 ds' :
    typed sub top1 t1 -> typed sub top2 t2 ->
    cx_leaf_biased pn pd (flatten t1) (flatten t2) ds = Ok ((o1, o2), ds') ->
    cx_post top1 top2 t1 t2 o1 o2.
  Proof.
    intros Ht1 Ht2 H. unfold cx_leaf_biased, cx_leaf_biased_with in H.
    assert (Same : cx_post top1 top2 t1 t2 (flatten t1) (flatten t2)).
    { exists t1, t2. repeat split; auto. }
    destruct ((length (flatten t1) <? 2)%nat || (length (flatten t2) <? 2)%nat).
    { apply ret_ok in H. destruct H as [H _]. inversion H; subst. exact Same. }
    apply bind_ok in H. destruct H as (u1 & ds1 & _ & H).
    apply bind_ok in H. destruct H as (u2 & ds2 & _ & H).
    remember (if lt_frac u1 pn pd then is_term else is_prim) as op1.
    remember (if lt_frac u2 pn pd then is_term else is_prim) as op2.
    destruct (common_types op1 op2 (flatten t1) (flatten t2)) as [|ct0 ctr] eqn:Ect.
    { apply ret_ok in H. destruct H as [H _]. inversion H; subst. exact Same. }
    rewrite <- Ect in H.
    apply bind_ok in H. destruct H as (ty0 & ds3 & _ & H).
    apply bind_ok in H. destruct H as (i1 & ds4 & Hc1 & H).
    apply bind_ok in H. destruct H as (i2 & ds5 & Hc2 & H).
    apply d_choice_ok in Hc1. destruct Hc1 as [Hc1 _]. apply idx_of_type_spec in Hc1.
    apply d_choice_ok in Hc2. destruct Hc2 as [Hc2 _]. apply idx_of_type_spec in Hc2.
    destruct Hc1 as (_ & n1 & Hn1 & R1 & _). destruct Hc2 as (_ & n2 & Hn2 & R2 & _).
    eapply cx_core; eauto. congruence.
  Qed.
End Cx.

(* ------------------------------------------------------------------ staticLimit *)
Definition within (k : lkey) (maxv : Z) (l : list node) : Prop :=
  exists m, measure k l = Ok m /\ m <= maxv.

Lemma limit_fold_spec k maxv keep : forall outs ds res ds',
  limit_fold k maxv keep outs ds = Ok (res, ds') ->
  Forall2 (fun o r => (r = o /\ within k maxv o) \/ In r keep) outs res.
Proof.
  induction outs as [|o outs IH]; intros ds res ds' H.
  - apply ret_ok in H. destruct H; subst. constructor.
  - cbn [limit_fold] in H.
    apply bind_ok in H. destruct H as (m & ds1 & Hm & H). apply lift_ok in Hm. destruct Hm as [Hm ->].
    apply bind_ok in H. destruct H as (o' & ds2 & Ho & H).
    apply bind_ok in H. destruct H as (r' & ds3 & Hr & H). apply ret_ok in H. destruct H; subst.
    constructor; [|eapply IH; eauto].
    destruct (maxv <? m) eqn:E.
    + right. apply d_choice_ok in Ho. tauto.
    + left. apply ret_ok in Ho. destruct Ho; subst. split; auto. exists m. split; auto. lia.
Qed.

(* every tree returned by a wrapped operator is within the limit when the inputs were, and is either
   an output of the operator or (a copy of) one of the inputs *)
Theorem static_limit_spec k maxv op inputs ds res ds' :
  static_limit k maxv op inputs ds = Ok (res, ds') ->
  exists outs ds1, op inputs ds = Ok (outs, ds1) /\
    Forall2 (fun o r => (r = o /\ within k maxv o) \/ In r inputs) outs res.
Proof.
  unfold static_limit. intro H. apply bind_ok in H. destruct H as (outs & ds1 & Hop & H).
  exists outs, ds1. split; auto. eapply limit_fold_spec; eauto.
Qed.

Theorem static_limit_respected k maxv op inputs ds res ds' :
  Forall (within k maxv) inputs ->
  static_limit k maxv op inputs ds = Ok (res, ds') ->
  Forall (within k maxv) res.
Proof.
  intros Hin H. apply static_limit_spec in H. destruct H as (outs & ds1 & _ & HF).
  rewrite Forall_forall in Hin.
  induction HF as [|o r outs res Hor _ IH]; constructor; auto.
  destruct Hor as [[-> Hw]|Hk]; auto.
Qed.
