(* C14 — tie (T): the definitions regenerated from the current source text of deap/cma.py (coq/Gen/C14_gen.v, written
   by harness/c14_py2coq.py on every run) are the hand model the C14 theorems are stated about, at the
   real-closed-field instance [ROps] of those theorems, for all arguments.

   The proof scripts do not depend on the exact text of the regenerated definitions: scalar equalities are proved by
   [req], which closes a goal by conversion, or by [field] (constants written differently, commuted / re-associated
   sums and products, hoisted or inlined subexpressions — [let]s are unfolded first), or descends through the
   operators (so that [field] is only asked about fragments whose denominators are numerals); a success count written
   as an explicit loop is brought to [count_if] by [fold_countE]; an [IndexError] raised before or after the scalar
   statements is the same [None].  Every lemma also holds when the translator refused the function (its definition is
   then the hand model's term). *)
From Coq Require Import ZArith List.
From mathcomp Require Import all_ssreflect all_algebra.
From mathcomp Require Import ring.
From DV Require Import Model.C14_exec Model.C14_GenRt Proofs.C14_Elitist Proofs.C14_Active Gen.C14_gen.
Import Order.TTheory GRing.Theory Num.Theory.
Set Implicit Arguments. Unset Strict Implicit. Unset Printing Implicit Defensive.
Local Open Scope ring_scope.

(* the loop  n = 0; for x in l: if f x: n += 1  is  count_if f l *)
Lemma fold_countE (A : Type) (f : A -> bool) (l : list A) (n : nat) :
  fold_left (fun acc x => if f x then Nat.add acc 1 else acc) l n = Nat.add n (count_if f l).
Proof.
elim: l n => [|x l IH] n /=; first by rewrite Nat.add_0_r.
rewrite IH; case: (f x) => /=; last by [].
by rewrite -Nat.add_assoc.
Qed.

Lemma fold_countE' (A : Type) (f : A -> bool) (l : list A) (n : nat) :
  fold_left (fun acc x => if f x then Nat.add 1 acc else acc) l n = Nat.add n (count_if f l).
Proof.
rewrite -fold_countE; elim: l n => //= x l IH n; rewrite IH.
by case: (f x) => //; rewrite Nat.add_comm.
Qed.

(* two lists filled by one loop  for x in l: (a if f x else b).append(x)  are the two filters *)
Lemma fold_partitionE (A : Type) (f : A -> bool) (step : list A * list A -> A -> list A * list A) (l a0 b0 : list A) :
  (forall a b x, step (a, b) x = if f x then (a ++ [:: x], b)%list else (a, b ++ [:: x])%list) ->
  fold_left step l (a0, b0) =
  ((a0 ++ List.filter f l)%list, (b0 ++ List.filter (fun x => negb (f x)) l)%list).
Proof.
move=> H; elim: l a0 b0 => [|x l IH] a0 b0 /=; first by rewrite !List.app_nil_r.
by rewrite H; case: (f x) => /=; rewrite IH -?List.app_assoc.
Qed.

Lemma size_sort_desc' (A : Type) (lt : A -> A -> bool) (l : list A) : size (sort_desc lt l) = size l.
Proof.
have ins x s : size (insert_desc lt x s) = (size s).+1.
  by elim: s => //= y s IH; case: ifP => //= _; rewrite IH.
by elim: l => //= x l IH; rewrite ins -/(sort_desc lt l) IH.
Qed.

Section Equiv.
Variable R : rcfType.
Variables exp_ round_ : R -> R.
Notation RO := (ROps exp_ round_).

Lemma kzposE p : kz RO (Zpos p) = (Pos.to_nat p)%:R.
Proof. exact: kzE. Qed.
Lemma kz0E : kz RO Z0 = 0. Proof. by []. Qed.

(* numerals and coercions of the instance, as mathcomp terms; integer arithmetic is pushed through %:R *)
Local Arguments Nat.add : simpl never.
Local Arguments Nat.mul : simpl never.
Local Arguments Nat.pow : simpl never.
Local Arguments Nat.min : simpl never.
Local Arguments Nat.max : simpl never.
Ltac num1 :=
  match goal with
  | |- context [Pos.to_nat ?p] => let n := eval compute in (Pos.to_nat p) in change (Pos.to_nat p) with n
  end.
Ltac rnorm :=
  rewrite /c0 /c1 /c2 ?Nat.pow_2_r ?fold_countE ?fold_countE' ?Nat.add_0_l ?kz0E ?kzposE ?ofnatE;
  repeat num1; rewrite /= ?multE ?plusE ?(natrD, natrM).

(* x / 0 = 0 in the model's field: identities between quotients that hold whatever the denominators are are
   polynomial identities in the inverses *)
Ltac absinv := repeat (let i := fresh "i" in set i := (_^-1); clearbody i).

Ltac req :=
  first
    [ reflexivity
    | by ring
    | by field
    | by rewrite ?(natrD, natrM); field
    | by rewrite ?(natrD, natrM) ?(invfM, invrK); absinv; ring
    | congr (_ + _); req
    | congr (_ - _); req
    | congr (_ / _); req
    | congr (_ * _); req
    | congr (Num.sqrt _); req
    | congr (exp_ _); req
    | congr (_ < _); req
    | congr (_ <= _); req
    | congr (_%:R); rewrite ?plusE ?multE; first [ reflexivity | ring ] ].

Lemma gen_plain_computeParams_eq dim lam :
  gen_plain_computeParams RO dim lam = plain_defaults RO dim lam.
Proof.
rewrite /gen_plain_computeParams /plain_defaults; cbv zeta.
first [ reflexivity | congr (mkPP _ _ _ _ _ _ _); rnorm; req ].
Qed.

Lemma gen_active_computeParams_eq dim lam ccovn S_int :
  gen_active_computeParams RO dim lam ccovn S_int =
  (active_defaults RO dim lam ccovn S_int, ap_ptarg (active_defaults RO dim lam ccovn S_int)).
Proof.
rewrite /gen_active_computeParams /active_defaults; cbv zeta.
first [ reflexivity | congr (mkAP _ _ _ _ _ _ _ _ _ _ _, _); rnorm; req ].
Qed.

Lemma gen_mo_computeParams_eq dim mu lam :
  gen_mo_computeParams RO dim mu lam = (mo_defaults RO dim mu lam, mp_ptarg (mo_defaults RO dim mu lam)).
Proof.
rewrite /gen_mo_computeParams /mo_defaults; cbv zeta.
first [ reflexivity | congr (mkMP _ _ _ _ _ _ _ _, _); rnorm; req ].
Qed.

(* ---- the scalar slice of StrategyOnePlusLambda.update ---- *)
Lemma gen_plain_update_scalar_eq (P : pparams (T:=R)) pfit psucc sigma pop :
  gen_plain_update_scalar RO P pfit psucc sigma pop = plain_update_scalar RO P pfit psucc sigma pop.
Proof.
rewrite /gen_plain_update_scalar /plain_update_scalar; cbv zeta.
first [ reflexivity
      | case: (sort_desc _ pop) => [|best rest]; rewrite ?[nth_error _ _]/=; first by [];
        rewrite /psucc_step /sigma_step; congr (Some (_, _, _, _)); rnorm; req ].
Qed.

(* the hand-written slice is the projection of the model's update: success rate, step size, and the tests that
   select the branch of the parent / path / covariance code *)
Lemma plain_update_scalar_spec (P : pparams (T:=R)) st pop st' sorted :
  plain_update RO P st pop = Some (st', sorted) ->
  exists best rest,
  [/\ sorted = best :: rest, sorted = sort_desc (fun a b => lex_lt RO a.2 b.2) pop,
      plain_update_scalar RO P (ps_pfit st) (ps_psucc st) (ps_sigma st) pop =
        Some (ps_psucc st', ps_sigma st', lex_le RO (ps_pfit st) best.2, ps_psucc st' < pp_pthresh P) &
      (ps_parent st', ps_pfit st') = (if lex_le RO (ps_pfit st) best.2 then best else (ps_parent st, ps_pfit st))].
Proof.
rewrite /plain_update /plain_update_scalar; cbv zeta.
case: (sort_desc _ pop) => [|best rest] //.
set cnt := count_if _ _; rewrite /psucc_step /sigma_step /=.
case: ifP => Hle; last by case=> <- <-; exists best, rest; split=> //=; rewrite Hle.
by case: ifP => Hth [<- <-]; exists best, rest; split=> //=; rewrite ?Hle ?Hth //; case: (best).
Qed.

(* ---- the scalar slice of StrategyActiveOnePlusLambda._rank1update ---- *)
Lemma gen_active_rank1_scalar_eq (P : aparams (T:=R)) psucc sigma p_succ :
  gen_active_rank1_scalar RO P psucc sigma p_succ = active_rank1_scalar RO P psucc sigma p_succ.
Proof.
rewrite /gen_active_rank1_scalar /active_rank1_scalar; cbv zeta.
first [ reflexivity | rewrite /psucc_step; congr (_, _); rnorm; req ].
Qed.

(* the hand-written slice is the projection of the model's _rank1update *)
Lemma active_rank1_scalar_spec (P : aparams (T:=R)) st ind p_succ :
  (as_psucc (rank1update RO P st ind p_succ), as_sigma (rank1update RO P st ind p_succ)) =
  active_rank1_scalar RO P (as_psucc st) (as_sigma st) p_succ.
Proof.
rewrite /rank1update /active_rank1_scalar; cbv zeta.
by do ![case: ifP => _ //=].
Qed.

Lemma gen_active_rank1_scalar_spec (P : aparams (T:=R)) st ind p_succ :
  (as_psucc (rank1update RO P st ind p_succ), as_sigma (rank1update RO P st ind p_succ)) =
  gen_active_rank1_scalar RO P (as_psucc st) (as_sigma st) p_succ.
Proof. by rewrite gen_active_rank1_scalar_eq; exact: active_rank1_scalar_spec. Qed.

Lemma gen_active_rank1_scalar_range (P : aparams (T:=R)) psucc sigma p_succ :
  (forall x, 0 < exp_ x) -> 0 <= ap_cp P <= 1 -> 0 <= p_succ <= 1 -> 0 <= psucc <= 1 -> 0 < sigma ->
  0 <= (gen_active_rank1_scalar RO P psucc sigma p_succ).1 <= 1 /\
  0 < (gen_active_rank1_scalar RO P psucc sigma p_succ).2.
Proof.
move=> exp_pos cp q ps s0; rewrite gen_active_rank1_scalar_eq /active_rank1_scalar /psucc_step c1E /=.
by split; [exact: convex01 | rewrite mulr_gt0].
Qed.

(* ---- the success frequency of StrategyActiveOnePlusLambda.update ---- *)
Lemma gen_active_p_succ_eq (pfit : option (fitness (T:=R))) pop :
  gen_active_p_succ RO pfit pop = active_p_succ RO pfit pop.
Proof.
rewrite /gen_active_p_succ /active_p_succ; cbv zeta.
first [ reflexivity
      | try (rewrite (@fold_partitionE _ (fun i : aind (T:=R) => f_valid (ai_fit i)));
             last by move=> a b x; case: (f_valid _));
        rewrite ?[List.app nil _]/=;
        set v := List.filter _ pop;
        have := size_sort_desc' (fun a b : aind (T:=R) => c_lt RO (ai_fit a) (ai_fit b)) v;
        case: v => [|x l]; first by [];
        rewrite [Nat.ltb _ _]/= ?[Nat.leb _ _]/=;
        case: (sort_desc _ (x :: l)) => [|b r] // _;
        case: pfit => [pf|]; rewrite ?[negb _]/=; congr (Some _); rnorm; req ].
Qed.

(* the hand-written slice is what the model's update passes to rank1update *)
Lemma active_p_succ_spec (P : aparams (T:=R)) st pop :
  active_update_rank1 RO P st pop =
  match active_p_succ RO (as_pfit st) pop,
        sort_desc (fun a b => c_lt RO (ai_fit a) (ai_fit b)) (List.filter (fun i => f_valid (ai_fit i)) pop) with
  | Some p, best :: _ => rank1update RO P st best p
  | _, _ => st
  end.
Proof.
rewrite /active_update_rank1 /active_p_succ /has_fitness /parent_le; cbv zeta.
case: (sort_desc _ _) => [|best rest] //.
by case: (as_pfit st).
Qed.

Lemma gen_active_p_succ_spec (P : aparams (T:=R)) st pop :
  active_update_rank1 RO P st pop =
  match gen_active_p_succ RO (as_pfit st) pop,
        sort_desc (fun a b => c_lt RO (ai_fit a) (ai_fit b)) (List.filter (fun i => f_valid (ai_fit i)) pop) with
  | Some p, best :: _ => rank1update RO P st best p
  | _, _ => st
  end.
Proof. by rewrite gen_active_p_succ_eq; exact: active_p_succ_spec. Qed.

(* the regenerated success frequency is a frequency *)
Lemma gen_active_p_succ_range (pfit : option (fitness (T:=R))) pop p :
  gen_active_p_succ RO pfit pop = Some p -> 0 <= p <= 1.
Proof.
rewrite gen_active_p_succ_eq /active_p_succ; cbv zeta.
case: (sort_desc _ _) => [|best rest] //; rewrite !ofnatE => -[<-].
apply: frac01 => //.
by case: pfit => [pf|] //; rewrite count_ifE; exact: (count_size _ (best :: rest)).
Qed.

(* ---- C14 theorems restated on the regenerated definitions ---- *)
Lemma gen_plain_defaults_ok dim lam : (0 < lam)%nat ->
  let P := gen_plain_computeParams RO dim lam in
  [/\ 0 < pp_cp P < 1, 0 < pp_ptarg P < 1, 0 < pp_d P, 0 < pp_ccov P < 1 & 0 < pp_cc P <= 1].
Proof. rewrite gen_plain_computeParams_eq; exact: plain_defaults_ok. Qed.

Lemma gen_active_defaults_ok dim lam (ccovn : R) S_int : (0 < lam)%nat -> 0 <= ccovn ->
  let P := (gen_active_computeParams RO dim lam ccovn S_int).1 in
  [/\ 0 < ap_cp P < 1, 0 < ap_ptarg P < 1, 0 < ap_ccovp P < 1,
      ap_ccovp P * (1 + ap_cc P * (2%:R - ap_cc P)) < 1 & 0 < ap_beta P < 1] /\
  (gen_active_computeParams RO dim lam ccovn S_int).2 = ap_ptarg P.
Proof.
by rewrite gen_active_computeParams_eq => l0 c0; split=> //; exact: active_defaults_ok.
Qed.

Lemma gen_mo_params_are_model dim mu lam :
  gen_mo_computeParams RO dim mu lam = (mo_defaults RO dim mu lam, mp_ptarg (mo_defaults RO dim mu lam)).
Proof. exact: gen_mo_computeParams_eq. Qed.

(* what the model's update does to the scalar state and which branch its parent / path / covariance code takes is
   what the regenerated slice of the current source says *)
Lemma gen_plain_update_scalar_spec (P : pparams (T:=R)) st pop st' sorted :
  plain_update RO P st pop = Some (st', sorted) ->
  exists best rest,
  [/\ sorted = best :: rest, sorted = sort_desc (fun a b => lex_lt RO a.2 b.2) pop,
      gen_plain_update_scalar RO P (ps_pfit st) (ps_psucc st) (ps_sigma st) pop =
        Some (ps_psucc st', ps_sigma st', lex_le RO (ps_pfit st) best.2, ps_psucc st' < pp_pthresh P) &
      (ps_parent st', ps_pfit st') = (if lex_le RO (ps_pfit st) best.2 then best else (ps_parent st, ps_pfit st))].
Proof. by rewrite gen_plain_update_scalar_eq; exact: plain_update_scalar_spec. Qed.

(* success rate in [0,1] and step size positive after one update, on the regenerated slice alone *)
Lemma gen_plain_update_scalar_range (P : pparams (T:=R)) pfit psucc sigma pop ps' sg' rep low :
  (forall x, 0 < exp_ x) ->
  gen_plain_update_scalar RO P pfit psucc sigma pop = Some (ps', sg', rep, low) ->
  0 <= pp_cp P <= 1 -> size pop = pp_lambda P -> 0 <= psucc <= 1 -> 0 < sigma ->
  [/\ 0 <= ps' <= 1, 0 < sg' & low = (ps' < pp_pthresh P)].
Proof.
move=> exp_pos; rewrite gen_plain_update_scalar_eq /plain_update_scalar; cbv zeta.
have := size_sort_desc' (fun a b : pind (T:=R) => lex_lt RO a.2 b.2) pop.
case: (sort_desc _ pop) => [|best rest] // sz.
set cnt := count_if _ _.
have cl : (cnt <= size (best :: rest))%N by rewrite /cnt count_ifE count_size.
rewrite /psucc_step /sigma_step !ofnatE c1E; move: cnt cl => cnt cl [<- <- _ <-] cp szp ps s0.
split=> //; last by rewrite mulr_gt0.
by apply: convex01 => //; apply: frac01; rewrite -szp -sz.
Qed.

End Equiv.
