(* C03 — the correspondence runner validates the hypotheses of the theorems.
   If Corr.C03.check accepts a recorded run, then for that run the hypotheses of the C03 theorems
   hold (truthful pre-set fitnesses, selection answers in range and of the requested length, the
   variation contract incl. distinct invalid offspring, generate returning new distinct objects),
   the model state compared with the implementation is the model's run on those answers, and the
   concrete fitness order used by the runner is a total preorder.  Hence all C03 theorems apply
   to every run that passed the correspondence. *)
From Coq Require Import List ZArith Bool Arith Lia QArith.
From DV Require Import Base.Corr Base.PyTuple Base.PyList Model.C03_Loops Proofs.C03_Loops Corr.C03.
Import ListNotations.
Local Close Scope Q_scope.
Local Open Scope nat_scope.

(* ---- the concrete order is a total preorder ---- *)
Lemma wfle_total w a b : wfle w a b = true \/ wfle w b a = true.
Proof.
  unfold wfle. rewrite !tup_le_spec.
  destruct (lex_trichotomy (map2 Z.mul a w) (map2 Z.mul b w)) as [H|[H|H]]; auto.
Qed.

Lemma wfle_trans w a b c : wfle w a b = true -> wfle w b c = true -> wfle w a c = true.
Proof.
  unfold wfle. rewrite !tup_le_spec. intros [H1|H1] [H2|H2].
  - left. eapply lex_lt_trans; eassumption.
  - left. rewrite <- H2. exact H1.
  - left. rewrite H1. exact H2.
  - right. congruence.
Qed.

(* ---- boolean equalities ---- *)
Lemma zl_eqb_eq a b : zl_eqb a b = true -> a = b.
Proof. apply list_eqb_eq. intros; apply Z.eqb_eq. Qed.

Lemma ul_eqb_eq a b : ul_eqb a b = true -> a = b.
Proof. apply list_eqb_eq. intros; apply Nat.eqb_eq. Qed.

Lemma ind_eqb_eq (a b : cind) : ind_eqb a b = true -> a = b.
Proof.
  destruct a as [ga fa], b as [gb fb]. unfold ind_eqb. cbn. intro H.
  apply andb_true_iff in H. destruct H as [H1 H2]. apply zl_eqb_eq in H1. subst gb.
  destruct fa as [x|], fb as [y|]; cbn in H2; try discriminate; [|reflexivity].
  apply zl_eqb_eq in H2. subst. reflexivity.
Qed.

Lemma nodup_b_NoDup l : nodup_b l = true -> NoDup l.
Proof.
  induction l as [|x r IH]; cbn; intro H; [constructor|].
  apply andb_true_iff in H. destruct H as [H1 H2]. constructor; [|apply IH; exact H2].
  intro I. apply negb_true_iff in H1. assert (existsb (Nat.eqb x) r = true); [|congruence].
  apply existsb_exists. exists x. split; [exact I|apply Nat.eqb_refl].
Qed.

Lemma sel_ok_b_sound arg k idxs : sel_ok_b arg k idxs = true -> sel_ok arg k idxs.
Proof.
  unfold sel_ok_b. intro H. apply andb_true_iff in H. destruct H as [H1 H2].
  split; [apply Nat.eqb_eq; exact H1|]. apply Forall_forall. intros i Hi.
  rewrite forallb_forall in H2. apply Nat.ltb_lt. auto.
Qed.

Lemma var_ok_b_sound st inp off :
  var_ok_b st inp off = true -> off_ok st inp off /\ off_invalid_distinct off.
Proof.
  unfold var_ok_b. intro H.
  apply andb_true_iff in H. destruct H as [H H4].
  apply andb_true_iff in H. destruct H as [H H3].
  apply andb_true_iff in H. destruct H as [H1 H2].
  rewrite forallb_forall in H1, H2, H3. split; [constructor|].
  - intros u i I. specialize (H1 _ I). cbn in H1. destruct (st u) as [j|]; [right|left; reflexivity].
    apply ind_eqb_eq in H1. congruence.
  - intros u i i' I I'. specialize (H2 _ I). rewrite forallb_forall in H2. specialize (H2 _ I'). cbn in H2.
    rewrite Nat.eqb_refl in H2. cbn in H2. apply ind_eqb_eq. exact H2.
  - intros u i f I Hf. specialize (H3 _ I). cbn in H3. rewrite Hf in H3.
    apply existsb_exists in H3. destruct H3 as [p [Hp Hs]]. destruct (st p) as [ip|] eqn:E; [|discriminate].
    apply ind_eqb_eq in Hs. subst ip. exists p, i. auto.
  - unfold off_invalid_distinct. apply nodup_b_NoDup. exact H4.
Qed.

Lemma init_ok_b_sound p st pop : init_ok_b p st pop = true -> init_ok (ev_fun p) st pop.
Proof.
  unfold init_ok_b, init_ok. intro H. rewrite forallb_forall in H. apply Forall_forall. intros u Hu.
  specialize (H u Hu). destruct (st u) as [i|] eqn:E; [|discriminate]. exists i. split; [exact E|].
  destruct (fit i) as [f|]; [right|left; reflexivity]. apply zl_eqb_eq in H. congruence.
Qed.

(* ---- check_gens: hypotheses hold and the state is the model's run ---- *)
Definition ans_ok_kind (k : kind) (mu lam : nat) (s : cstate) (a : cans) : Prop :=
  match k with
  | KSimple => ans_ok_simple s a
  | KPlus => ans_ok_plus mu lam s a
  | KComma => ans_ok_comma mu lam s a
  | KGU => ans_ok_gu s a
  end.

Lemma check_gens_sound p w k mu lam : forall gens gen s s',
  check_gens p w k mu lam gen s gens = Some s' ->
  run_ok (step_kind p w k) (ans_ok_kind k mu lam) gen s (map to_ans gens) /\
  s' = run_from (step_kind p w k) gen s (map to_ans gens) /\
  Forall (fun o => k <> KGU -> off_invalid_distinct (og_off o)) gens.
Proof.
  induction gens as [|o r IH]; intros gen s s' H; cbn in H.
  - inversion H; subst. cbn. repeat split. constructor.
  - match type of H with (if ?b then _ else _) = _ => destruct b eqn:Hb end; [|discriminate].
    apply IH in H. destruct H as [R1 [R2 R3]].
    assert (X : ans_ok_kind k mu lam s (to_ans o) /\ (k <> KGU -> off_invalid_distinct (og_off o))).
    { clear R1 R2 R3 IH. destruct k; cbn.
      - (* simple *)
        apply andb_true_iff in Hb; destruct Hb as [Hb Bg].
        apply andb_true_iff in Hb; destruct Hb as [Hb Bf].
        apply andb_true_iff in Hb; destruct Hb as [Hb Be].
        apply andb_true_iff in Hb; destruct Hb as [Hb Bd].
        apply andb_true_iff in Hb; destruct Hb as [Hb Bc].
        apply andb_true_iff in Hb; destruct Hb as [Ba Bb].
        apply ul_eqb_eq in Ba. apply ul_eqb_eq in Bd. apply Nat.eqb_eq in Bb, Be.
        apply sel_ok_b_sound in Bc. apply var_ok_b_sound in Bf. destruct Bf as [O D].
        split; [|intros _; exact D]. unfold ans_ok_simple, to_ans; cbn [a_sel a_off].
        rewrite <- Bb. split; [exact Bc|]. split; [rewrite <- Bd; exact O|].
        rewrite map_length in Be. etransitivity; [exact Be|]. rewrite Bd. apply select_by_length.
      - (* plus *)
        apply andb_true_iff in Hb; destruct Hb as [Hb Bg].
        apply andb_true_iff in Hb; destruct Hb as [Hb Bf].
        apply andb_true_iff in Hb; destruct Hb as [Hb Be].
        apply andb_true_iff in Hb; destruct Hb as [Hb Bd].
        apply andb_true_iff in Hb; destruct Hb as [Hb Bc].
        apply andb_true_iff in Hb; destruct Hb as [Ba Bb].
        apply Nat.eqb_eq in Bb, Be. subst mu.
        apply sel_ok_b_sound in Bf. apply var_ok_b_sound in Bc. destruct Bc as [O D].
        split; [|intros _; exact D]. unfold ans_ok_plus, to_ans; cbn [a_sel a_off].
        rewrite map_length in Bb. split; [exact O|]. split; [exact Bb|exact Bf].
      - (* comma *)
        apply andb_true_iff in Hb; destruct Hb as [Hb Bg].
        apply andb_true_iff in Hb; destruct Hb as [Hb Bf].
        apply andb_true_iff in Hb; destruct Hb as [Hb Be].
        apply andb_true_iff in Hb; destruct Hb as [Hb Bd].
        apply andb_true_iff in Hb; destruct Hb as [Hb Bc].
        apply andb_true_iff in Hb; destruct Hb as [Ba Bb].
        apply Nat.eqb_eq in Bb, Be. subst mu.
        apply sel_ok_b_sound in Bf. apply var_ok_b_sound in Bc. destruct Bc as [O D].
        split; [|intros _; exact D]. unfold ans_ok_comma, to_ans; cbn [a_sel a_off].
        rewrite map_length in Bb. split; [exact O|]. split; [exact Bb|exact Bf].
      - (* generate-update *)
        apply andb_true_iff in Hb; destruct Hb as [Hb Bc].
        apply andb_true_iff in Hb; destruct Hb as [Ba Bb].
        split; [|intro N; contradiction]. unfold ans_ok_gu, to_ans; cbn [a_sel a_off].
        split; [|apply nodup_b_NoDup; exact Bb].
        intros u i I. rewrite forallb_forall in Bc. specialize (Bc u (in_map fst _ _ I)).
        unfold is_fresh in Bc. destruct (s_st s u); [discriminate|reflexivity]. }
    destruct X as [X1 X2]. cbn. split; [split; [exact X1|exact R1]|]. split; [exact R2|].
    constructor; assumption.
Qed.

(* A run of one of the three population loops that passed the correspondence satisfies the
   hypotheses of the C03 theorems, and what was compared with the implementation is the model's
   run on the recorded answers. *)
Theorem check_loop_validates k ngen p w mu lam objs pop gens oc ol os ofin oi :
  k <> KGU ->
  check (CLoop k ngen p w mu lam objs pop gens oc ol os ofin oi) = true ->
  let st0 := add_objs empty_store objs in
  let s0 := gen0 (ev_fun p) (wfle w) (init st0 pop) in
  init_ok (ev_fun p) st0 pop /\
  run_ok (step_kind p w k) (ans_ok_kind k mu lam) 1 s0 (map to_ans gens) /\
  Forall (fun o => off_invalid_distinct (og_off o)) gens /\
  length gens = ngen /\
  state_matches (run_from (step_kind p w k) 1 s0 (map to_ans gens)) oc ol os ofin = true /\
  oi = true.
Proof.
  intros Nk H. cbv zeta. cbn in H.
  apply andb_true_iff in H. destruct H as [H0 H]. apply init_ok_b_sound in H0.
  destruct k; try contradiction;
  (match type of H with match ?c with _ => _ end = _ => destruct c as [s'|] eqn:C end; [|discriminate];
   apply check_gens_sound in C; destruct C as [R1 [R2 R3]];
   apply andb_true_iff in H; destruct H as [H Hi];
   apply andb_true_iff in H; destruct H as [Hn Hm]; apply Nat.eqb_eq in Hn; subst s';
   repeat (split; [assumption|]); split;
   [eapply Forall_impl; [|exact R3]; intros o Ho; apply Ho; discriminate|];
   repeat (split; [assumption|]); exact Hi).
Qed.

Theorem check_gu_validates ngen p w mu lam objs pop gens oc ol os ofin oi :
  check (CLoop KGU ngen p w mu lam objs pop gens oc ol os ofin oi) = true ->
  let s0 := init (add_objs empty_store objs) pop in
  run_ok (step_kind p w KGU) ans_ok_gu 0 s0 (map to_ans gens) /\
  length gens = ngen /\
  state_matches (run_from (step_kind p w KGU) 0 s0 (map to_ans gens)) oc ol os ofin = true /\
  oi = true.
Proof.
  intros H. cbv zeta. cbn in H.
  apply andb_true_iff in H. destruct H as [_ H].
  match type of H with match ?c with _ => _ end = _ => destruct c as [s'|] eqn:C end; [|discriminate].
  apply check_gens_sound in C. destruct C as [R1 [R2 _]].
  apply andb_true_iff in H. destruct H as [H Hi].
  apply andb_true_iff in H. destruct H as [Hn Hm]. apply Nat.eqb_eq in Hn. subst s'.
  repeat (split; [assumption|]). exact Hi.
Qed.

(* harm: the runner's acceptance means the model returned Ok (all guards hold) on truthful input *)
Theorem check_harm_validates ngen p w cxpb mutpb nbr objs pop gens oc ol os ofin oi :
  check (CHarm ngen p w cxpb mutpb nbr objs pop gens oc ol os ofin oi) = true ->
  let st0 := add_objs empty_store objs in
  init_ok (ev_fun p) st0 pop /\
  exists s, ea_harm (ev_fun p) (wfle w) cxpb mutpb nbr st0 pop gens = Ok s /\
            length gens = ngen /\ state_matches s oc ol os ofin = true /\ oi = true.
Proof.
  intros H. cbv zeta. cbn in H.
  apply andb_true_iff in H. destruct H as [H0 H]. apply init_ok_b_sound in H0. split; [exact H0|].
  destruct (ea_harm (ev_fun p) (wfle w) cxpb mutpb nbr (add_objs empty_store objs) pop gens) as [s| |]; try discriminate.
  exists s. apply andb_true_iff in H. destruct H as [H Hi].
  apply andb_true_iff in H. destruct H as [Hn Hm]. apply Nat.eqb_eq in Hn. auto.
Qed.

(* ---- end to end: the conclusions of the theorems hold for the model state of an accepted run ---- *)
Theorem accepted_simple_run ngen p w mu lam objs pop gens oc ol os ofin oi :
  check (CLoop KSimple ngen p w mu lam objs pop gens oc ol os ofin oi) = true ->
  let s := ea_simple (ev_fun p) (wfle w) (add_objs empty_store objs) pop (map to_ans gens) in
  InvC (ev_fun p) s /\ InvH (ev_fun p) (wfle w) s /\
  length (s_log s) = S ngen /\ length (s_pop s) = length pop /\
  state_matches s oc ol os ofin = true.
Proof.
  intro H. apply check_loop_validates in H; [|discriminate]. cbv zeta in H.
  destruct H as [H0 [R [_ [L [M _]]]]]. cbv zeta.
  destruct (simple_inv (ev_fun p) (wfle w) _ _ _ H0 R) as [I [Ll P]].
  split; [exact I|]. split; [|split; [rewrite Ll; f_equal; rewrite map_length; exact L|split; [exact P|exact M]]].
  apply (simple_hof (ev_fun p) (wfle w) (wfle_total w) (wfle_trans w) _ _ _ H0 R).
Qed.

Theorem accepted_plus_run ngen p w mu lam objs pop gens oc ol os ofin oi :
  check (CLoop KPlus ngen p w mu lam objs pop gens oc ol os ofin oi) = true ->
  let s := ea_plus (ev_fun p) (wfle w) (add_objs empty_store objs) pop (map to_ans gens) in
  InvC (ev_fun p) s /\ InvH (ev_fun p) (wfle w) s /\
  length (s_log s) = S ngen /\ length (s_pop s) = match ngen with 0 => length pop | _ => mu end /\
  state_matches s oc ol os ofin = true.
Proof.
  intro H. apply check_loop_validates in H; [|discriminate]. cbv zeta in H.
  destruct H as [H0 [R [_ [L [M _]]]]]. cbv zeta.
  destruct (plus_inv (ev_fun p) (wfle w) mu lam _ _ _ H0 R) as [I [Ll P]].
  split; [exact I|]. split; [|split; [rewrite Ll; f_equal; rewrite map_length; exact L|split; [|exact M]]].
  - apply (plus_hof (ev_fun p) (wfle w) (wfle_total w) (wfle_trans w) mu lam _ _ _ H0 R).
  - rewrite P. subst ngen. destruct gens; reflexivity.
Qed.

Theorem accepted_comma_run ngen p w mu lam objs pop gens oc ol os ofin oi :
  check (CLoop KComma ngen p w mu lam objs pop gens oc ol os ofin oi) = true ->
  let s := ea_comma (ev_fun p) (wfle w) (add_objs empty_store objs) pop (map to_ans gens) in
  InvC (ev_fun p) s /\ InvH (ev_fun p) (wfle w) s /\
  length (s_log s) = S ngen /\ length (s_pop s) = match ngen with 0 => length pop | _ => mu end /\
  state_matches s oc ol os ofin = true.
Proof.
  intro H. apply check_loop_validates in H; [|discriminate]. cbv zeta in H.
  destruct H as [H0 [R [_ [L [M _]]]]]. cbv zeta.
  destruct (comma_inv (ev_fun p) (wfle w) mu lam _ _ _ H0 R) as [I [Ll P]].
  split; [exact I|]. split; [|split; [rewrite Ll; f_equal; rewrite map_length; exact L|split; [|exact M]]].
  - apply (comma_hof (ev_fun p) (wfle w) (wfle_total w) (wfle_trans w) mu lam _ _ _ H0 R).
  - rewrite P. subst ngen. destruct gens; reflexivity.
Qed.

Theorem accepted_harm_run ngen p w cxpb mutpb nbr objs pop gens oc ol os ofin oi :
  check (CHarm ngen p w cxpb mutpb nbr objs pop gens oc ol os ofin oi) = true ->
  exists s, ea_harm (ev_fun p) (wfle w) cxpb mutpb nbr (add_objs empty_store objs) pop gens = Ok s /\
    InvC (ev_fun p) s /\ InvH (ev_fun p) (wfle w) s /\
    length (s_log s) = S ngen /\ length (s_pop s) = length pop /\
    state_matches s oc ol os ofin = true.
Proof.
  intro H. apply check_harm_validates in H. cbv zeta in H.
  destruct H as [H0 [s [E [L [M _]]]]]. exists s. split; [exact E|].
  destruct (harm_inv (ev_fun p) (wfle w) _ _ _ _ _ _ s H0 E) as [I [Ll P]].
  split; [exact I|]. split; [|split; [rewrite Ll; f_equal; exact L|split; [exact P|exact M]]].
  apply (harm_hof (ev_fun p) (wfle w) (wfle_total w) (wfle_trans w) _ _ _ _ _ _ s H0 E).
Qed.
