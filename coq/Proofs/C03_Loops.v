(* C03 — lemmas and proofs about Model/C03_Loops.v *)
From Coq Require Import List ZArith Bool Arith Lia QArith.
From DV Require Import Model.C03_Loops.
Import ListNotations.
Local Close Scope Q_scope.
Local Open Scope nat_scope.

Section Proofs.
Context {G F : Type}.
Variable evaluate : G -> F.
Variable fle : F -> F -> bool.

Notation ind := (@ind G F).
Notation store := (@store G F).
Notation state := (@state G F).
Notation rec := (@rec G F).
Notation ans := (@ans G F).
Implicit Types st : store.
Implicit Types s : state.

(* ------------------------------------------------------------------ *)
(* stores *)

(* the object u carries a valid fitness equal to evaluate(genotype) *)
Definition truthful (st : store) (u : uid) : Prop :=
  exists i, st u = Some i /\ fit i = Some (evaluate (geno i)).

(* the object u exists and its fitness is invalid or truthful *)
Definition honest (st : store) (u : uid) : Prop :=
  exists i, st u = Some i /\ (fit i = None \/ fit i = Some (evaluate (geno i))).

(* every existing object is untouched *)
Definition extends (st st' : store) : Prop := forall u i, st u = Some i -> st' u = Some i.

Lemma extends_refl st : extends st st.
Proof. intros u i H; exact H. Qed.

Lemma extends_trans (a b c : store) : extends a b -> extends b c -> extends a c.
Proof. intros H1 H2 u i H; auto. Qed.

Lemma upd_same (st : store) u i : upd st u i u = Some i.
Proof. unfold upd. rewrite Nat.eqb_refl. reflexivity. Qed.

Lemma upd_other (st : store) u i v : v <> u -> upd st u i v = st v.
Proof. intro N. unfold upd. destruct (Nat.eqb_spec v u); [contradiction|reflexivity]. Qed.

Lemma extends_upd_fresh st0 st u i : extends st0 st -> st0 u = None -> extends st0 (upd st u i).
Proof.
  intros E N v j H. destruct (Nat.eq_dec v u) as [->|D]; [congruence|].
  rewrite upd_other by assumption. auto.
Qed.

Lemma extends_none st0 st u : extends st0 st -> st u = None -> st0 u = None.
Proof. intros E N. destruct (st0 u) eqn:H; [|reflexivity]. apply E in H. congruence. Qed.

Lemma truthful_extends st st' u : extends st st' -> truthful st u -> truthful st' u.
Proof. intros E [i [H1 H2]]. exists i; split; auto. Qed.

Lemma truthful_honest st u : truthful st u -> honest st u.
Proof. intros [i [H1 H2]]. exists i; split; auto. Qed.

Lemma is_invalid_true st u :
  is_invalid st u = true <-> exists i, st u = Some i /\ fit i = None.
Proof.
  unfold is_invalid. destruct (st u) as [i|].
  - destruct (fit i) eqn:E; split.
    + discriminate.
    + intros [j [H1 H2]]. inversion H1; subst. congruence.
    + intros _. exists i; auto.
    + reflexivity.
  - split; [discriminate|]. intros [j [H1 _]]. discriminate.
Qed.

Lemma truthful_not_invalid st u : truthful st u -> is_invalid st u = false.
Proof.
  intros [i [H1 H2]]. unfold is_invalid. rewrite H1, H2. reflexivity.
Qed.

(* ------------------------------------------------------------------ *)
(* eval_list *)

(* the (individual, genotype) pairs evaluate is called with *)
Definition geno_pairs (st : store) (l : list uid) : list (uid * G) :=
  flat_map (fun u => match st u with Some i => [(u, geno i)] | None => [] end) l.

Definition same_geno (st st' : store) : Prop :=
  forall u, option_map geno (st u) = option_map geno (st' u).

Lemma same_geno_refl st : same_geno st st.
Proof. intro; reflexivity. Qed.

Lemma same_geno_trans (a b c : store) : same_geno a b -> same_geno b c -> same_geno a c.
Proof. intros H1 H2 u. rewrite H1. apply H2. Qed.

Lemma geno_pairs_same st st' l : same_geno st st' -> geno_pairs st l = geno_pairs st' l.
Proof.
  intro H. unfold geno_pairs. induction l as [|u r IH]; cbn; [reflexivity|].
  rewrite IH. f_equal. specialize (H u). destruct (st u), (st' u); cbn in H; congruence.
Qed.

Lemma same_geno_eval1 (st : store) u i :
  st u = Some i -> same_geno st (upd st u (mkind (geno i) (Some (evaluate (geno i))))).
Proof.
  intros H v. destruct (Nat.eq_dec v u) as [->|D].
  - rewrite upd_same, H. reflexivity.
  - rewrite upd_other by assumption. reflexivity.
Qed.

Lemma eval_list_same_geno l : forall st, same_geno st (fst (eval_list evaluate st l)).
Proof.
  induction l as [|u r IH]; intro st; cbn; [apply same_geno_refl|].
  destruct (st u) as [i|] eqn:E; [|apply IH].
  specialize (IH (upd st u (mkind (geno i) (Some (evaluate (geno i)))))).
  destruct (eval_list evaluate _ r) as [s'' log] eqn:R. cbn in *.
  eapply same_geno_trans; [apply same_geno_eval1; eassumption|exact IH].
Qed.

Lemma eval_list_log l : forall st, snd (eval_list evaluate st l) = geno_pairs st l.
Proof.
  induction l as [|u r IH]; intro st; cbn; [reflexivity|].
  destruct (st u) as [i|] eqn:E; [|apply IH].
  specialize (IH (upd st u (mkind (geno i) (Some (evaluate (geno i)))))).
  destruct (eval_list evaluate _ r) as [s'' log] eqn:R. cbn in *.
  rewrite IH. f_equal. symmetry. apply geno_pairs_same. apply same_geno_eval1; assumption.
Qed.

Lemma eval_list_other l : forall st u, ~ In u l -> fst (eval_list evaluate st l) u = st u.
Proof.
  induction l as [|v r IH]; intros st u N; cbn; [reflexivity|].
  cbn in N. destruct (st v) as [i|] eqn:E.
  - specialize (IH (upd st v (mkind (geno i) (Some (evaluate (geno i))))) u).
    destruct (eval_list evaluate _ r) as [s'' log] eqn:R. cbn in *.
    rewrite IH by tauto. apply upd_other. intro; subst; tauto.
  - apply IH; tauto.
Qed.

Lemma eval_list_keeps_truthful l : forall st u,
  truthful st u -> truthful (fst (eval_list evaluate st l)) u.
Proof.
  induction l as [|v r IH]; intros st u T; cbn; [exact T|].
  destruct (st v) as [i|] eqn:E; [|apply IH; exact T].
  specialize (IH (upd st v (mkind (geno i) (Some (evaluate (geno i))))) u).
  destruct (eval_list evaluate _ r) as [s'' log] eqn:R. cbn in *.
  apply IH. destruct (Nat.eq_dec u v) as [->|D].
  - eexists; split; [apply upd_same|reflexivity].
  - destruct T as [j [T1 T2]]. exists j; split; [rewrite upd_other by assumption; exact T1|exact T2].
Qed.

Lemma eval_list_truthful l : forall st u,
  In u l -> st u <> None -> truthful (fst (eval_list evaluate st l)) u.
Proof.
  induction l as [|v r IH]; intros st u I K; cbn; [destruct I|].
  destruct (Nat.eq_dec u v) as [->|D].
  - destruct (st v) as [i|] eqn:E; [|congruence].
    pose proof (eval_list_keeps_truthful r (upd st v (mkind (geno i) (Some (evaluate (geno i))))) v) as KT.
    destruct (eval_list evaluate _ r) as [s'' log] eqn:R. cbn in *.
    apply KT. eexists; split; [apply upd_same|reflexivity].
  - destruct I as [->|I]; [congruence|].
    destruct (st v) as [i|] eqn:E; [|apply IH; assumption].
    specialize (IH (upd st v (mkind (geno i) (Some (evaluate (geno i))))) u I).
    destruct (eval_list evaluate _ r) as [s'' log] eqn:R. cbn in *.
    apply IH. rewrite upd_other by assumption. exact K.
Qed.

Lemma geno_pairs_known st l :
  Forall (fun u => st u <> None) l ->
  map fst (geno_pairs st l) = l /\ length (geno_pairs st l) = length l /\
  Forall (fun c => exists i, st (fst c) = Some i /\ geno i = snd c) (geno_pairs st l).
Proof.
  induction 1 as [|u r K _ IH]; [cbn; repeat split; constructor|].
  destruct IH as [I1 [I2 I3]].
  destruct (st u) as [i|] eqn:E; [|congruence].
  assert (X : geno_pairs st (u :: r) = (u, geno i) :: geno_pairs st r).
  { unfold geno_pairs. cbn. rewrite E. reflexivity. }
  rewrite X. cbn. rewrite I1, I2. repeat split.
  constructor; [exists i; cbn; auto|exact I3].
Qed.

Lemma invalid_of_known st l : Forall (fun u => st u <> None) (invalid_of st l).
Proof.
  unfold invalid_of. apply Forall_forall. intros u H. apply filter_In in H. destruct H as [_ H].
  apply is_invalid_true in H. destruct H as [i [H _]]. congruence.
Qed.

Lemma invalid_of_incl st l : incl (invalid_of st l) l.
Proof. intros u H. apply filter_In in H. tauto. Qed.

(* evaluating the invalid members of l: afterwards every honest member of l is truthful,
   truthful objects stay truthful, objects with a valid fitness are untouched *)
Lemma eval_invalid_members st l u :
  In u l -> honest st u -> truthful (fst (eval_list evaluate st (invalid_of st l))) u.
Proof.
  intros I [i [H1 [H2|H2]]].
  - apply eval_list_truthful; [|congruence].
    apply filter_In. split; [exact I|]. apply is_invalid_true. exists i; auto.
  - apply eval_list_keeps_truthful. exists i; auto.
Qed.

Lemma eval_invalid_valid_untouched st l u :
  is_invalid st u = false -> fst (eval_list evaluate st (invalid_of st l)) u = st u.
Proof.
  intro H. apply eval_list_other. intro I. apply filter_In in I. destruct I as [_ I]. congruence.
Qed.

(* ------------------------------------------------------------------ *)
(* the invariant of the generation loops (no order on fitnesses needed) *)

Definition shown_in (shown : list (list uid)) (u : uid) : Prop := exists b, In b shown /\ In u b.

Definition entry_truthful (p : uid * option ind) : Prop :=
  exists i, snd p = Some i /\ fit i = Some (evaluate (geno i)).
Definition snap_truthful (r : rec) : Prop := Forall entry_truthful (r_snap r).

Record InvC (s : state) : Prop := mkInvC {
  (* every individual of the population carries a valid fitness equal to evaluate(genotype) *)
  ic_pop : Forall (truthful (s_st s)) (s_pop s);
  (* the logbook's gen column is 0, 1, 2, ... *)
  ic_gens : map r_gen (s_log s) = seq 0 (length (s_log s));
  (* one call log per record, and nevals is the number of calls of that generation *)
  ic_nevals : Forall2 (fun c r => r_nevals r = length c) (s_calls s) (s_log s);
  (* at every boundary so far the statistics saw only valid, truthful fitnesses *)
  ic_snap : Forall snap_truthful (s_log s);
  (* the last record is the snapshot of the current population *)
  ic_last : s_log s = [] \/ exists l r, s_log s = l ++ [r] /\ r_snap r = snap (s_st s) (s_pop s);
  (* every evaluated individual, and every member of the population, was passed to halloffame.update *)
  ic_shown_calls : Forall (Forall (fun c => shown_in (s_shown s) (fst c))) (s_calls s);
  ic_shown_pop : Forall (shown_in (s_shown s)) (s_pop s) }.

(* the part of the invariant that only speaks about the history *)
Record Hist (s : state) : Prop := mkHist {
  h_gens : map r_gen (s_log s) = seq 0 (length (s_log s));
  h_nevals : Forall2 (fun c r => r_nevals r = length c) (s_calls s) (s_log s);
  h_snap : Forall snap_truthful (s_log s);
  h_shown_calls : Forall (Forall (fun c => shown_in (s_shown s) (fst c))) (s_calls s) }.

Lemma InvC_Hist s : InvC s -> Hist s.
Proof. intros [A B C D E H J]. constructor; assumption. Qed.

Lemma shown_in_app shown b u : shown_in shown u -> shown_in (shown ++ [b]) u.
Proof. intros [x [H1 H2]]. exists x; split; [apply in_or_app; auto|exact H2]. Qed.

Lemma shown_in_last shown b u : In u b -> shown_in (shown ++ [b]) u.
Proof. intro H. exists b; split; [apply in_or_app; right; left; reflexivity|exact H]. Qed.

Lemma finish_gen_eq gen s st1 off newpop :
  finish_gen evaluate fle gen s st1 off newpop =
  let inv := invalid_of st1 off in
  let st2 := fst (eval_list evaluate st1 inv) in
  let best := hof_update fle (s_best s) st2 off in
  mkstate st2 newpop (s_calls s ++ [geno_pairs st1 inv])
          (s_log s ++ [mkrec gen (length inv) (snap st2 newpop) best])
          (s_shown s ++ [off]) best.
Proof.
  unfold finish_gen. rewrite <- eval_list_log.
  destruct (eval_list evaluate st1 (invalid_of st1 off)) as [st2 log]. reflexivity.
Qed.

Lemma snap_truthful_of st l : Forall (truthful st) l -> Forall entry_truthful (snap st l).
Proof.
  intro H. unfold snap. apply Forall_forall. intros p I. apply in_map_iff in I.
  destruct I as [u [<- I]]. rewrite Forall_forall in H. destruct (H u I) as [i [H1 H2]].
  exists i; cbn; auto.
Qed.

Lemma seq_snoc n : seq 0 (n + 1) = seq 0 n ++ [n].
Proof. rewrite Nat.add_1_r. rewrite seq_S. reflexivity. Qed.

(* what one generation's tail (evaluate invalid, hall of fame, replace, record) preserves *)
Lemma finish_gen_InvC_gen gen s st1 off newpop :
  Hist s -> gen = length (s_log s) ->
  extends (s_st s) st1 -> Forall (honest st1) off ->
  (forall u, In u newpop -> In u off \/ (truthful (s_st s) u /\ shown_in (s_shown s) u)) ->
  InvC (finish_gen evaluate fle gen s st1 off newpop).
Proof.
  intros I Hg E Hoff Hin. rewrite finish_gen_eq. cbv zeta.
  set (inv := invalid_of st1 off). set (st2 := fst (eval_list evaluate st1 inv)).
  assert (Tnew : Forall (truthful st2) newpop).
  { apply Forall_forall. intros u Hu. apply Hin in Hu. destruct Hu as [Hu|[Hu _]].
    - apply eval_invalid_members; [exact Hu|]. rewrite Forall_forall in Hoff. auto.
    - apply eval_list_keeps_truthful. eapply truthful_extends; [exact E|exact Hu]. }
  pose proof (geno_pairs_known st1 inv (invalid_of_known st1 off)) as [K1 [K2 K3]].
  constructor; cbn.
  - exact Tnew.
  - rewrite map_app, app_length. cbn. rewrite (h_gens s I), seq_snoc, Hg. reflexivity.
  - apply Forall2_app; [exact (h_nevals s I)|]. constructor; [cbn; symmetry; exact K2|constructor].
  - apply Forall_app. split; [exact (h_snap s I)|]. constructor; [|constructor].
    unfold snap_truthful; cbn. apply snap_truthful_of. exact Tnew.
  - right. eexists; eexists; split; [reflexivity|reflexivity].
  - apply Forall_app. split.
    + eapply Forall_impl; [|exact (h_shown_calls s I)]. intros c Hc.
      eapply Forall_impl; [|exact Hc]. intros x Hx. apply shown_in_app. exact Hx.
    + constructor; [|constructor]. apply Forall_forall. intros c Hc.
      apply shown_in_last. apply (invalid_of_incl st1 off). fold inv. rewrite <- K1.
      apply in_map. exact Hc.
  - apply Forall_forall. intros u Hu. apply Hin in Hu. destruct Hu as [Hu|[_ Hu]].
    + apply shown_in_last. exact Hu.
    + apply shown_in_app. exact Hu.
Qed.

Lemma finish_gen_InvC gen s st1 off newpop :
  InvC s -> gen = length (s_log s) ->
  extends (s_st s) st1 -> Forall (honest st1) off ->
  incl newpop (s_pop s ++ off) ->
  InvC (finish_gen evaluate fle gen s st1 off newpop).
Proof.
  intros I Hg E Hoff Hin. apply finish_gen_InvC_gen; auto using InvC_Hist.
  intros u Hu. apply Hin in Hu. apply in_app_or in Hu. destruct Hu as [Hu|Hu]; [right|left; exact Hu].
  pose proof (ic_pop s I) as P. pose proof (ic_shown_pop s I) as Q. rewrite Forall_forall in P, Q. auto.
Qed.

(* the evaluation call log of a generation: exactly the individuals of `off` that are invalid after
   variation, in order; nevals is their number; each once if those are distinct objects *)
Lemma finish_gen_calls gen s st1 off newpop :
  let s' := finish_gen evaluate fle gen s st1 off newpop in
  exists log r,
    s_calls s' = s_calls s ++ [log] /\ s_log s' = s_log s ++ [r] /\
    map fst log = invalid_of st1 off /\
    Forall (fun c => exists i, st1 (fst c) = Some i /\ geno i = snd c) log /\
    r_gen r = gen /\ r_nevals r = length log /\
    (NoDup (invalid_of st1 off) -> NoDup (map fst log)).
Proof.
  cbv zeta. rewrite finish_gen_eq. cbv zeta. cbn.
  pose proof (geno_pairs_known st1 _ (invalid_of_known st1 off)) as [K1 [K2 K3]].
  eexists; eexists. split; [reflexivity|]. split; [reflexivity|].
  split; [exact K1|]. split; [exact K3|]. split; [reflexivity|]. split; [cbn; symmetry; exact K2|].
  rewrite K1. auto.
Qed.

Lemma finish_gen_pop gen s st1 off newpop :
  s_pop (finish_gen evaluate fle gen s st1 off newpop) = newpop.
Proof. rewrite finish_gen_eq. reflexivity. Qed.

Lemma finish_gen_log_length gen s st1 off newpop :
  length (s_log (finish_gen evaluate fle gen s st1 off newpop)) = S (length (s_log s)).
Proof. rewrite finish_gen_eq. cbn. rewrite app_length. cbn. lia. Qed.

(* ------------------------------------------------------------------ *)
(* generation 0 *)

Definition init_ok (st : store) (pop : list uid) : Prop := Forall (honest st) pop.

Lemma gen0_InvC st pop : init_ok st pop -> InvC (gen0 evaluate fle (init st pop)).
Proof.
  intro H. unfold gen0. apply finish_gen_InvC_gen; cbn.
  - constructor; cbn; constructor.
  - reflexivity.
  - apply extends_refl.
  - exact H.
  - auto.
Qed.

Lemma gen0_pop st pop : s_pop (gen0 evaluate fle (init st pop)) = pop.
Proof. unfold gen0. apply finish_gen_pop. Qed.

Lemma gen0_log_length st pop : length (s_log (gen0 evaluate fle (init st pop))) = 1.
Proof. unfold gen0. rewrite finish_gen_log_length. reflexivity. Qed.

(* ------------------------------------------------------------------ *)
(* oracle answers *)

Definition sel_ok (arg : list uid) (k : nat) (idxs : list nat) : Prop :=
  length idxs = k /\ Forall (fun i => i < length arg) idxs.

Lemma select_by_incl arg idxs : Forall (fun i => i < length arg) idxs -> incl (select_by arg idxs) arg.
Proof.
  intros H u I. unfold select_by in I. apply in_map_iff in I. destruct I as [i [<- I]].
  rewrite Forall_forall in H. apply nth_In. auto.
Qed.

Lemma select_by_length arg idxs : length (select_by arg idxs) = length idxs.
Proof. unfold select_by. apply map_length. Qed.

(* every list made of elements of arg is a selection answer *)
Lemma incl_select_by (arg l : list uid) :
  incl l arg -> exists idxs, l = select_by arg idxs /\ Forall (fun i => i < length arg) idxs.
Proof.
  induction l as [|x r IH]; intro H.
  - exists []; split; [reflexivity|constructor].
  - destruct IH as [idxs [E Fi]]; [intros y Hy; apply H; right; exact Hy|].
    destruct (In_nth arg x 0 (H x (or_introl eq_refl))) as [i [Li Ni]].
    exists (i :: idxs). split; [unfold select_by in *; cbn; rewrite Ni; f_equal; exact E|constructor; assumption].
Qed.

(* The contract of variation (conclusions of property C02, hypotheses here).
   inp : the list given to varAnd / varOr.  off : the returned objects with their contents. *)
Record off_ok (st : store) (inp : list uid) (off : list (uid * ind)) : Prop := mk_off_ok {
  (* a returned object is new, or an existing object that was left untouched *)
  oo_frame : forall u i, In (u, i) off -> st u = None \/ st u = Some i;
  (* an object has one content *)
  oo_fun : forall u i i', In (u, i) off -> In (u, i') off -> i = i';
  (* a returned object with a valid fitness carries the genotype and fitness of an input individual *)
  oo_valid : forall u i f, In (u, i) off -> fit i = Some f ->
             exists p ip, In p inp /\ st p = Some ip /\ geno ip = geno i /\ fit ip = Some f }.

(* the returned objects with an invalid fitness are pairwise distinct objects *)
Definition off_invalid_distinct (off : list (uid * ind)) : Prop :=
  NoDup (map fst (filter (fun p => match fit (snd p) with None => true | Some _ => false end) off)).

Lemma add_objs_notin off : forall st u, ~ In u (map fst off) -> add_objs st off u = st u.
Proof.
  induction off as [|[u0 i0] r IH]; intros st u N; cbn; [reflexivity|].
  cbn in N. unfold add_objs in IH. rewrite IH by tauto. apply upd_other. intro; subst; tauto.
Qed.

Lemma add_objs_in off : forall st u i,
  (forall i', In (u, i') off -> i' = i) -> In (u, i) off -> add_objs st off u = Some i.
Proof.
  induction off as [|[u0 i0] r IH]; intros st u i Hf Hin; [destruct Hin|].
  cbn. destruct (in_dec Nat.eq_dec u (map fst r)) as [I|N].
  - apply in_map_iff in I. destruct I as [[u' i'] [E I]]. cbn in E; subst u'.
    assert (i' = i) by (apply Hf; right; exact I). subst i'.
    unfold add_objs in IH. apply IH; [intros i' H'; apply Hf; right; exact H'|exact I].
  - pose proof (add_objs_notin r (upd st u0 i0) u N) as X. unfold add_objs in X. rewrite X.
    destruct Hin as [E|Hin].
    + inversion E; subst. apply upd_same.
    + exfalso. apply N. apply in_map_iff. exists (u, i); auto.
Qed.

Lemma off_ok_lookup st inp off u i :
  off_ok st inp off -> In (u, i) off -> add_objs st off u = Some i.
Proof.
  intros O I. apply add_objs_in; [|exact I]. intros i' I'. symmetry. eapply oo_fun; eassumption.
Qed.

Lemma off_ok_extends st inp off : off_ok st inp off -> extends st (add_objs st off).
Proof.
  intros O u j H. destruct (in_dec Nat.eq_dec u (map fst off)) as [I|N].
  - apply in_map_iff in I. destruct I as [[u' i] [E I]]. cbn in E; subst u'.
    rewrite (off_ok_lookup _ _ _ _ _ O I).
    destruct (oo_frame _ _ _ O u i I) as [X|X]; congruence.
  - rewrite add_objs_notin by assumption. exact H.
Qed.

Lemma off_ok_honest st inp off :
  off_ok st inp off -> Forall (truthful st) inp ->
  Forall (honest (add_objs st off)) (map fst off).
Proof.
  intros O T. apply Forall_forall. intros u I. apply in_map_iff in I.
  destruct I as [[u' i] [E I]]. cbn in E; subst u'.
  exists i. split; [eapply off_ok_lookup; eassumption|].
  destruct (fit i) as [f|] eqn:Ef; [right|left; reflexivity].
  destruct (oo_valid _ _ _ O u i f I Ef) as [p [ip [Hp [Sp [Gp Fp]]]]].
  rewrite Forall_forall in T. destruct (T p Hp) as [j [J1 J2]].
  rewrite Sp in J1. inversion J1; subst j. rewrite <- Gp. congruence.
Qed.

(* which of the returned objects are invalid can be read off the answer *)
Lemma invalid_of_add_objs st inp off :
  off_ok st inp off ->
  invalid_of (add_objs st off) (map fst off) =
  map fst (filter (fun p => match fit (snd p) with None => true | Some _ => false end) off).
Proof.
  intro O. unfold invalid_of.
  assert (X : forall l, incl l off ->
    filter (is_invalid (add_objs st off)) (map fst l) =
    map fst (filter (fun p => match fit (snd p) with None => true | Some _ => false end) l)).
  { induction l as [|[u i] r IH]; intro H; [reflexivity|]. cbn.
    assert (L : add_objs st off u = Some i) by (eapply off_ok_lookup; [exact O|apply H; left; reflexivity]).
    unfold is_invalid at 1. rewrite L.
    rewrite IH by (intros y Hy; apply H; right; exact Hy).
    destruct (fit i); reflexivity. }
  apply X. apply incl_refl.
Qed.

(* ------------------------------------------------------------------ *)
(* one generation of each population loop preserves the invariant *)

Definition ans_ok_simple (s : state) (a : ans) : Prop :=
  sel_ok (s_pop s) (length (s_pop s)) (a_sel a) /\
  off_ok (s_st s) (select_by (s_pop s) (a_sel a)) (a_off a) /\
  length (a_off a) = length (a_sel a).

Definition ans_ok_plus (mu lam : nat) (s : state) (a : ans) : Prop :=
  off_ok (s_st s) (s_pop s) (a_off a) /\ length (a_off a) = lam /\
  sel_ok (s_pop s ++ map fst (a_off a)) mu (a_sel a).

Definition ans_ok_comma (mu lam : nat) (s : state) (a : ans) : Prop :=
  off_ok (s_st s) (s_pop s) (a_off a) /\ length (a_off a) = lam /\
  sel_ok (map fst (a_off a)) mu (a_sel a).

(* toolbox.generate returns new, pairwise distinct objects *)
Definition ans_ok_gu (s : state) (a : ans) : Prop :=
  (forall u i, In (u, i) (a_off a) -> s_st s u = None) /\ NoDup (map fst (a_off a)).

Lemma pop_truthful_incl s l : InvC s -> incl l (s_pop s) -> Forall (truthful (s_st s)) l.
Proof.
  intros I H. apply Forall_forall. intros u Hu. pose proof (ic_pop s I) as P.
  rewrite Forall_forall in P. auto.
Qed.

Lemma step_simple_InvC gen s a :
  InvC s -> gen = length (s_log s) -> ans_ok_simple s a -> InvC (step_simple evaluate fle gen s a).
Proof.
  intros I Hg [[S1 S2] [O L]]. unfold step_simple. apply finish_gen_InvC; auto.
  - eapply off_ok_extends; exact O.
  - eapply off_ok_honest; [exact O|]. apply pop_truthful_incl; [exact I|apply select_by_incl; exact S2].
  - apply incl_appr, incl_refl.
Qed.

Lemma step_plus_InvC mu lam gen s a :
  InvC s -> gen = length (s_log s) -> ans_ok_plus mu lam s a -> InvC (step_plus evaluate fle gen s a).
Proof.
  intros I Hg [O [L [S1 S2]]]. unfold step_plus. apply finish_gen_InvC; auto.
  - eapply off_ok_extends; exact O.
  - eapply off_ok_honest; [exact O|]. apply pop_truthful_incl; [exact I|apply incl_refl].
  - apply select_by_incl; exact S2.
Qed.

Lemma step_comma_InvC mu lam gen s a :
  InvC s -> gen = length (s_log s) -> ans_ok_comma mu lam s a -> InvC (step_comma evaluate fle gen s a).
Proof.
  intros I Hg [O [L [S1 S2]]]. unfold step_comma. apply finish_gen_InvC; auto.
  - eapply off_ok_extends; exact O.
  - eapply off_ok_honest; [exact O|]. apply pop_truthful_incl; [exact I|apply incl_refl].
  - eapply incl_tran; [apply select_by_incl; exact S2|apply incl_appr, incl_refl].
Qed.

(* generate-update: every generated individual is evaluated, whatever its fitness *)
Lemma step_gu_eq gen s a :
  step_gu evaluate fle gen s a =
  let population := map fst (a_off a) in
  let st1 := add_objs (s_st s) (a_off a) in
  let st2 := fst (eval_list evaluate st1 population) in
  let best := hof_update fle (s_best s) st2 population in
  mkstate st2 population (s_calls s ++ [geno_pairs st1 population])
          (s_log s ++ [mkrec gen (length population) (snap st2 population) best])
          (s_shown s ++ [population]) best.
Proof.
  unfold step_gu. rewrite <- eval_list_log.
  destruct (eval_list evaluate (add_objs (s_st s) (a_off a)) (map fst (a_off a))) as [st2 log]. reflexivity.
Qed.

Lemma nodup_fst_fun {B} (l : list (uid * B)) u i i' :
  NoDup (map fst l) -> In (u, i) l -> In (u, i') l -> i = i'.
Proof.
  induction l as [|[v j] r IH]; intros N I1 I2; [destruct I1|].
  cbn in N. inversion N as [|? ? N1 N2]; subst.
  destruct I1 as [E1|I1], I2 as [E2|I2].
  - congruence.
  - inversion E1; subst. exfalso. apply N1. apply in_map_iff. exists (u, i'); auto.
  - inversion E2; subst. exfalso. apply N1. apply in_map_iff. exists (u, i); auto.
  - auto.
Qed.

Lemma step_gu_InvC gen s a :
  InvC s -> gen = length (s_log s) -> ans_ok_gu s a -> InvC (step_gu evaluate fle gen s a).
Proof.
  intros I Hg [Fr Nd]. rewrite step_gu_eq. cbv zeta.
  set (pop := map fst (a_off a)). set (st1 := add_objs (s_st s) (a_off a)).
  set (st2 := fst (eval_list evaluate st1 pop)).
  assert (Kn : Forall (fun u => st1 u <> None) pop).
  { apply Forall_forall. intros u Hu. apply in_map_iff in Hu. destruct Hu as [[u' i] [E Hu]]. cbn in E; subst u'.
    unfold st1. rewrite (add_objs_in (a_off a) (s_st s) u i); [congruence| |exact Hu].
    intros i' Hi'. eapply nodup_fst_fun; eassumption. }
  assert (Tnew : Forall (truthful st2) pop).
  { apply Forall_forall. intros u Hu. apply eval_list_truthful; [exact Hu|].
    rewrite Forall_forall in Kn. auto. }
  pose proof (geno_pairs_known st1 pop Kn) as [K1 [K2 K3]].
  pose proof (InvC_Hist s I) as H.
  constructor; cbn.
  - exact Tnew.
  - rewrite map_app, app_length. cbn. rewrite (h_gens s H), seq_snoc, Hg. reflexivity.
  - apply Forall2_app; [exact (h_nevals s H)|]. constructor; [cbn; symmetry; exact K2|constructor].
  - apply Forall_app. split; [exact (h_snap s H)|]. constructor; [|constructor].
    unfold snap_truthful; cbn. apply snap_truthful_of. exact Tnew.
  - right. eexists; eexists; split; reflexivity.
  - apply Forall_app. split.
    + eapply Forall_impl; [|exact (h_shown_calls s H)]. intros c Hc.
      eapply Forall_impl; [|exact Hc]. intros x Hx. apply shown_in_app. exact Hx.
    + constructor; [|constructor]. apply Forall_forall. intros c Hc.
      apply shown_in_last. rewrite <- K1. apply in_map. exact Hc.
  - apply Forall_forall. intros u Hu. apply shown_in_last. exact Hu.
Qed.

Lemma step_gu_calls gen s a :
  ans_ok_gu s a ->
  let s' := step_gu evaluate fle gen s a in
  exists log r,
    s_calls s' = s_calls s ++ [log] /\ s_log s' = s_log s ++ [r] /\
    map fst log = map fst (a_off a) /\ NoDup (map fst log) /\
    Forall (fun c => exists i, In (fst c, i) (a_off a) /\ geno i = snd c) log /\
    r_gen r = gen /\ r_nevals r = length log /\ s_pop s' = map fst (a_off a).
Proof.
  intros [Fr Nd]. cbv zeta. rewrite step_gu_eq. cbv zeta. cbn.
  set (pop := map fst (a_off a)). set (st1 := add_objs (s_st s) (a_off a)).
  assert (Lk : forall u i, In (u, i) (a_off a) -> st1 u = Some i).
  { intros u i Hu. unfold st1. apply add_objs_in; [|exact Hu].
    intros i' Hi'. eapply nodup_fst_fun; eassumption. }
  assert (Kn : Forall (fun u => st1 u <> None) pop).
  { apply Forall_forall. intros u Hu. apply in_map_iff in Hu. destruct Hu as [[u' i] [E Hu]]. cbn in E; subst u'.
    rewrite (Lk u i Hu). congruence. }
  pose proof (geno_pairs_known st1 pop Kn) as [K1 [K2 K3]].
  eexists; eexists. split; [reflexivity|]. split; [reflexivity|].
  split; [exact K1|]. split; [rewrite K1; exact Nd|]. split.
  - apply Forall_forall. intros c Hc. rewrite Forall_forall in K3. destruct (K3 c Hc) as [i [S1 S2]].
    exists i. split; [|exact S2].
    assert (Hin : In (fst c) pop) by (rewrite <- K1; apply in_map; exact Hc).
    apply in_map_iff in Hin. destruct Hin as [[u' i'] [E Hu]]. cbn in E. subst u'.
    rewrite (Lk _ _ Hu) in S1. inversion S1; subst. exact Hu.
  - split; [reflexivity|]. split; [cbn; symmetry; exact K2|reflexivity].
Qed.

(* ------------------------------------------------------------------ *)
(* runs *)

Section Run.
Context {A : Type}.
Variable step : nat -> state -> A -> state.
Variable ok : state -> A -> Prop.

(* every oracle answer of the run satisfies its contract w.r.t. the state it is given in *)
Fixpoint run_ok (gen : nat) (s : state) (l : list A) : Prop :=
  match l with
  | [] => True
  | a :: r => ok s a /\ run_ok (S gen) (step gen s a) r
  end.

Lemma run_from_app l1 : forall l2 gen s,
  run_from step gen s (l1 ++ l2) = run_from step (gen + length l1) (run_from step gen s l1) l2.
Proof.
  induction l1 as [|a r IH]; intros l2 gen s; cbn.
  - rewrite Nat.add_0_r. reflexivity.
  - rewrite IH. f_equal. lia.
Qed.

Lemma run_ok_app l1 : forall l2 gen s,
  run_ok gen s (l1 ++ l2) ->
  run_ok gen s l1 /\ run_ok (gen + length l1) (run_from step gen s l1) l2.
Proof.
  induction l1 as [|a r IH]; intros l2 gen s H; cbn in *.
  - rewrite Nat.add_0_r. auto.
  - destruct H as [H1 H2]. destruct (IH _ _ _ H2) as [H3 H4]. repeat split; auto.
    replace (gen + S (length r)) with (S gen + length r) by lia. exact H4.
Qed.

Lemma run_inv (P : nat -> state -> Prop) :
  (forall gen s a, P gen s -> ok s a -> P (S gen) (step gen s a)) ->
  forall l gen s, P gen s -> run_ok gen s l -> P (gen + length l) (run_from step gen s l).
Proof.
  intros Hstep. induction l as [|a r IH]; intros gen s HP Hok; cbn.
  - rewrite Nat.add_0_r. exact HP.
  - destruct Hok as [H1 H2]. replace (gen + S (length r)) with (S gen + length r) by lia.
    apply IH; [apply Hstep; assumption|exact H2].
Qed.

(* the logbook only grows: the records of an earlier boundary are a prefix of the final logbook *)
Lemma run_log_prefix :
  (forall gen s a, exists r c, s_log (step gen s a) = s_log s ++ [r] /\ s_calls (step gen s a) = s_calls s ++ [c]) ->
  forall l gen s, exists rs cs, s_log (run_from step gen s l) = s_log s ++ rs /\
                                s_calls (run_from step gen s l) = s_calls s ++ cs /\
                                length rs = length l /\ length cs = length l.
Proof.
  intros Hstep. induction l as [|a r IH]; intros gen s; cbn.
  - exists [], []. rewrite !app_nil_r. auto.
  - destruct (IH (S gen) (step gen s a)) as [rs [cs [E1 [E2 [L1 L2]]]]].
    destruct (Hstep gen s a) as [r0 [c0 [F1 F2]]].
    exists (r0 :: rs), (c0 :: cs). rewrite E1, E2, F1, F2, <- !app_assoc. cbn. auto.
Qed.

End Run.

(* ------------------------------------------------------------------ *)
(* the evaluation call log of one generation after varAnd / varOr *)

Definition inv_content (p : uid * ind) : bool := match fit (snd p) with None => true | Some _ => false end.

Lemma var_calls gen s inp off newpop :
  off_ok (s_st s) inp off ->
  let s' := finish_gen evaluate fle gen s (add_objs (s_st s) off) (map fst off) newpop in
  exists log r,
    s_calls s' = s_calls s ++ [log] /\ s_log s' = s_log s ++ [r] /\
    (* exactly the returned objects whose fitness is invalid, in order *)
    map fst log = map fst (filter inv_content off) /\
    (* called with their genotype *)
    Forall (fun c => exists i, In (fst c, i) off /\ fit i = None /\ geno i = snd c) log /\
    r_gen r = gen /\ r_nevals r = length log /\
    (* each once *)
    (off_invalid_distinct off -> NoDup (map fst log)).
Proof.
  intro O. cbv zeta. unfold inv_content.
  destruct (finish_gen_calls gen s (add_objs (s_st s) off) (map fst off) newpop)
    as [log [r [E1 [E2 [E3 [E4 [E5 [E6 E7]]]]]]]].
  exists log, r. rewrite (invalid_of_add_objs _ _ _ O) in E3, E7.
  repeat (split; [assumption|]). split; [|split; [assumption|split; [assumption|exact E7]]].
  apply Forall_forall. intros c Hc. rewrite Forall_forall in E4. destruct (E4 c Hc) as [i [S1 S2]].
  assert (Hin : In (fst c) (map fst log)) by (apply in_map; exact Hc).
  rewrite E3 in Hin.
  apply in_map_iff in Hin. destruct Hin as [[u i'] [Eu Hf]]. cbn in Eu. subst u.
  apply filter_In in Hf. destruct Hf as [Hf1 Hf2].
  rewrite (off_ok_lookup _ _ _ _ _ O Hf1) in S1. inversion S1; subst i'.
  exists i. repeat split; [exact Hf1| |exact S2].
  cbn in Hf2. destruct (fit i); [discriminate|reflexivity].
Qed.

Lemma gen0_calls st pop :
  let s' := gen0 evaluate fle (init st pop) in
  exists log r,
    s_calls s' = [log] /\ s_log s' = [r] /\
    map fst log = invalid_of st pop /\
    Forall (fun c => exists i, st (fst c) = Some i /\ geno i = snd c) log /\
    r_gen r = 0 /\ r_nevals r = length log /\
    (NoDup (invalid_of st pop) -> NoDup (map fst log)).
Proof.
  cbv zeta. unfold gen0.
  destruct (finish_gen_calls 0 (init st pop) st pop pop) as [log [r H]]. cbn in H.
  exists log, r. exact H.
Qed.

(* ------------------------------------------------------------------ *)
(* whole runs of the four loops of deap.algorithms *)

Lemma step_appends_simple gen s a :
  exists r c, s_log (step_simple evaluate fle gen s a) = s_log s ++ [r] /\
              s_calls (step_simple evaluate fle gen s a) = s_calls s ++ [c].
Proof. unfold step_simple. rewrite finish_gen_eq. cbn. eauto. Qed.
Lemma step_appends_plus gen s a :
  exists r c, s_log (step_plus evaluate fle gen s a) = s_log s ++ [r] /\
              s_calls (step_plus evaluate fle gen s a) = s_calls s ++ [c].
Proof. unfold step_plus. rewrite finish_gen_eq. cbn. eauto. Qed.
Lemma step_appends_comma gen s a :
  exists r c, s_log (step_comma evaluate fle gen s a) = s_log s ++ [r] /\
              s_calls (step_comma evaluate fle gen s a) = s_calls s ++ [c].
Proof. unfold step_comma. rewrite finish_gen_eq. cbn. eauto. Qed.
Lemma step_appends_gu gen s a :
  exists r c, s_log (step_gu evaluate fle gen s a) = s_log s ++ [r] /\
              s_calls (step_gu evaluate fle gen s a) = s_calls s ++ [c].
Proof. rewrite step_gu_eq. cbn. eauto. Qed.

Theorem simple_inv st pop answers :
  init_ok st pop ->
  run_ok (step_simple evaluate fle) ans_ok_simple 1 (gen0 evaluate fle (init st pop)) answers ->
  let s := ea_simple evaluate fle st pop answers in
  InvC s /\ length (s_log s) = S (length answers) /\ length (s_pop s) = length pop.
Proof.
  intros H0 Hok. cbv zeta. unfold ea_simple.
  apply (run_inv (step_simple evaluate fle) ans_ok_simple
           (fun gen s => InvC s /\ length (s_log s) = gen /\ length (s_pop s) = length pop)); [| |exact Hok].
  - intros gen s a [I [L P]] Ha. split; [apply step_simple_InvC; auto|].
    unfold step_simple. rewrite finish_gen_log_length, finish_gen_pop, map_length.
    destruct Ha as [[S1 S2] [O La]]. split; [lia|]. rewrite La, S1. exact P.
  - split; [apply gen0_InvC; exact H0|]. rewrite gen0_log_length, gen0_pop. auto.
Qed.

Theorem plus_inv mu lam st pop answers :
  init_ok st pop ->
  run_ok (step_plus evaluate fle) (ans_ok_plus mu lam) 1 (gen0 evaluate fle (init st pop)) answers ->
  let s := ea_plus evaluate fle st pop answers in
  InvC s /\ length (s_log s) = S (length answers) /\
  length (s_pop s) = match answers with [] => length pop | _ => mu end.
Proof.
  intros H0 Hok. cbv zeta. unfold ea_plus.
  pose proof (run_inv (step_plus evaluate fle) (ans_ok_plus mu lam)
           (fun gen s => InvC s /\ length (s_log s) = gen /\ 1 <= gen /\
                         length (s_pop s) = if gen =? 1 then length pop else mu)) as R.
  destruct (R) with (l := answers) (gen := 1) (s := gen0 evaluate fle (init st pop)) as [I [L [_ P]]]; [| |exact Hok|].
  - intros gen s a [I [L [Gg P]]] Ha. split; [eapply step_plus_InvC; eauto|].
    unfold step_plus. rewrite finish_gen_log_length, finish_gen_pop, select_by_length.
    destruct Ha as [O [La [S1 S2]]]. split; [lia|]. split; [lia|].
    destruct (Nat.eqb_spec (S gen) 1); [lia|exact S1].
  - split; [apply gen0_InvC; exact H0|]. rewrite gen0_log_length, gen0_pop. auto.
  - split; [exact I|]. split; [exact L|]. rewrite P. destruct answers; cbn; [reflexivity|].
    destruct (Nat.eqb_spec (S (S (length answers))) 1); [lia|reflexivity].
Qed.

Theorem comma_inv mu lam st pop answers :
  init_ok st pop ->
  run_ok (step_comma evaluate fle) (ans_ok_comma mu lam) 1 (gen0 evaluate fle (init st pop)) answers ->
  let s := ea_comma evaluate fle st pop answers in
  InvC s /\ length (s_log s) = S (length answers) /\
  length (s_pop s) = match answers with [] => length pop | _ => mu end.
Proof.
  intros H0 Hok. cbv zeta. unfold ea_comma.
  pose proof (run_inv (step_comma evaluate fle) (ans_ok_comma mu lam)
           (fun gen s => InvC s /\ length (s_log s) = gen /\ 1 <= gen /\
                         length (s_pop s) = if gen =? 1 then length pop else mu)) as R.
  destruct (R) with (l := answers) (gen := 1) (s := gen0 evaluate fle (init st pop)) as [I [L [_ P]]]; [| |exact Hok|].
  - intros gen s a [I [L [Gg P]]] Ha. split; [eapply step_comma_InvC; eauto|].
    unfold step_comma. rewrite finish_gen_log_length, finish_gen_pop, select_by_length.
    destruct Ha as [O [La [S1 S2]]]. split; [lia|]. split; [lia|].
    destruct (Nat.eqb_spec (S gen) 1); [lia|exact S1].
  - split; [apply gen0_InvC; exact H0|]. rewrite gen0_log_length, gen0_pop. auto.
  - split; [exact I|]. split; [exact L|]. rewrite P. destruct answers; cbn; [reflexivity|].
    destruct (Nat.eqb_spec (S (S (length answers))) 1); [lia|reflexivity].
Qed.

Lemma init_empty_InvC : InvC (init (empty_store : store) []).
Proof. constructor; cbn; try constructor; reflexivity. Qed.

(* generate-update records generations 0 .. ngen-1 (there is no generation-0 evaluation) *)
Theorem gu_inv answers :
  run_ok (step_gu evaluate fle) ans_ok_gu 0 (init empty_store []) answers ->
  let s := ea_gu evaluate fle answers in
  InvC s /\ length (s_log s) = length answers.
Proof.
  intros Hok. cbv zeta. unfold ea_gu.
  apply (run_inv (step_gu evaluate fle) ans_ok_gu
           (fun gen s => InvC s /\ length (s_log s) = gen)); [| |exact Hok].
  - intros gen s a [I L] Ha. split; [apply step_gu_InvC; auto|].
    rewrite step_gu_eq. cbn. rewrite app_length. cbn. lia.
  - split; [apply init_empty_InvC|reflexivity].
Qed.

(* ------------------------------------------------------------------ *)
(* gp.harm: the generator _genpop *)

Lemma bind_ok {A B} (r : res A) (f : A -> res B) x :
  bind r f = Ok x -> exists a, r = Ok a /\ f a = Ok x.
Proof. destruct r; cbn; intro H; try discriminate. eauto. Qed.

Lemma guard_ok b c : guard b c = Ok tt -> b = true.
Proof. destruct b; cbn; [reflexivity|discriminate]. Qed.

Lemma bind_guard {B} b c (f : unit -> res B) x :
  bind (guard b c) f = Ok x -> b = true /\ f tt = Ok x.
Proof. destruct b; cbn; [auto|discriminate]. Qed.

Lemma uid_list_eqb_eq a : forall b, uid_list_eqb a b = true -> a = b.
Proof.
  unfold uid_list_eqb. induction a as [|x a IH]; destruct b as [|y b]; cbn; intro H; try discriminate; [reflexivity|].
  apply andb_true_iff in H. destruct H as [H1 H2]. apply andb_true_iff in H2. destruct H2 as [H2 H3].
  apply Nat.eqb_eq in H2. subst y. f_equal. apply IH. rewrite H3. cbn in H1. rewrite H1. reflexivity.
Qed.

Lemma clone_ok st src dst st1 :
  clone st src dst = Ok st1 -> exists i, st src = Some i /\ st dst = None /\ st1 = upd st dst i.
Proof.
  unfold clone, is_fresh. destruct (st src) as [i|]; [|discriminate].
  destruct (st dst) eqn:E; [discriminate|]. intro H. inversion H. eauto.
Qed.

Lemma extends_upd_none st u i : st u = None -> extends st (upd st u i).
Proof. intro N. apply extends_upd_fresh; [apply extends_refl|exact N]. Qed.

Notation ev := (@ev G).

Lemma accept_spec use x (evs : list ev) d evs' :
  accept use x evs = Ok (d, evs') ->
  length evs' <= length evs /\ (use = true -> length evs' < length evs).
Proof.
  unfold accept. destruct use.
  - destruct evs as [|e r]; [discriminate|]. destruct e; try discriminate.
    destruct (Nat.eqb x x0); [|discriminate]. intro H; inversion H; subst. cbn. split; [lia|intros; lia].
  - intro H; inversion H; subst. split; [lia|discriminate].
Qed.

Lemma accept_push_spec use prod x (evs : list ev) prod' evs' :
  accept_push use prod x evs = Ok (prod', evs') ->
  (prod' = prod \/ prod' = prod ++ [x]) /\
  length evs' <= length evs /\ (use = true -> length evs' < length evs).
Proof.
  unfold accept_push. intro H. apply bind_ok in H. destruct H as [[d e] [H1 H2]].
  inversion H2; subst. apply accept_spec in H1. split; [|exact H1].
  destruct d; cbn; auto.
Qed.

(* a sub-sequence of the (one or two) aspirants is appended *)
Lemma accept_cands_spec use n prod cands (evs : list ev) prod' evs' :
  accept_cands use n prod cands evs = Ok (prod', evs') ->
  length cands <= 2 ->
  exists sub, prod' = prod ++ sub /\ incl sub cands /\ (NoDup cands -> NoDup sub) /\
              length evs' <= length evs /\
              (length prod < n -> length prod' <= n).
Proof.
  unfold accept_cands. destruct cands as [|x [|y rest]]; intros H L.
  - inversion H; subst. exists []. rewrite app_nil_r. repeat split; auto using incl_nil_l; try lia.
  - apply bind_ok in H. destruct H as [[p1 e1] [H1 H2]]. inversion H2; subst.
    apply accept_push_spec in H1. destruct H1 as [[->| ->] [L1 _]].
    + exists []. rewrite app_nil_r. repeat split; auto using incl_nil_l; try lia. intros; constructor.
    + exists [x]. repeat split; auto using incl_refl; try lia. rewrite app_length; cbn; lia.
  - destruct rest; [|cbn in L; lia].
    apply bind_ok in H. destruct H as [[p1 e1] [H1 H2]].
    apply accept_push_spec in H1. destruct H1 as [E1 [L1 _]].
    destruct (length p1 <? n) eqn:Lt.
    + apply accept_push_spec in H2. destruct H2 as [E2 [L2 _]]. apply Nat.ltb_lt in Lt.
      destruct E1 as [->| ->], E2 as [->| ->].
      * exists []. rewrite app_nil_r. repeat split; auto using incl_nil_l; try lia. intros; constructor.
      * exists [y]. repeat split; try lia.
        -- intros z [<-|[]]; right; left; reflexivity.
        -- intros; constructor; [intros []|constructor].
        -- rewrite app_length; cbn; lia.
      * exists [x]. repeat split; try lia.
        -- intros z [<-|[]]; left; reflexivity.
        -- intros; constructor; [intros []|constructor].
      * exists [x; y]. rewrite <- app_assoc. repeat split; auto using incl_refl; try lia.
        rewrite !app_length in *; cbn in *; lia.
    + inversion H2; subst. apply Nat.ltb_ge in Lt.
      destruct E1 as [->| ->].
      * exists []. rewrite app_nil_r. repeat split; auto using incl_nil_l; try lia. intros; constructor.
      * exists [x]. repeat split; try lia.
        -- intros z [<-|[]]; left; reflexivity.
        -- intros; constructor; [intros []|constructor].
        -- rewrite app_length; cbn; lia.
Qed.

(* an individual produced by the generator: a new object whose fitness is invalid, or which
   carries genotype and fitness of a member of the population *)
Definition copy_of (st0 : store) (pop : list uid) (i : ind) : Prop :=
  fit i = None \/ exists p ip, In p pop /\ st0 p = Some ip /\ geno ip = geno i /\ fit ip = fit i.

Lemma forallb_lt_Forall (l : list nat) n :
  forallb (fun i => i <? n) l = true -> Forall (fun i => i < n) l.
Proof.
  intro H. apply Forall_forall. intros i Hi. rewrite forallb_forall in H. apply Nat.ltb_lt. auto.
Qed.

Lemma candidates_spec st0 pop cxpb mutpb st evs st' cands evs' :
  (forall p, In p pop -> st0 p <> None) -> extends st0 st ->
  candidates pop cxpb mutpb st evs = Ok (st', cands, evs') ->
  extends st st' /\ NoDup cands /\
  Forall (fun x => st x = None /\ exists i, st' x = Some i /\ copy_of st0 pop i) cands /\
  length evs' < length evs /\ length cands <= 2.
Proof.
  intros Kp E H. unfold candidates in H.
  destruct evs as [|e evs1]; [discriminate|]. destruct e as [u| | | | |]; try discriminate.
  destruct (Qltb u cxpb).
  - (* crossover *)
    destruct evs1 as [|e evs1]; [discriminate|]. destruct e as [|arg k idxs| | | |]; try discriminate.
    destruct evs1 as [|e evs1]; [discriminate|]. destruct e as [| |s1 c1| | |]; try discriminate.
    destruct evs1 as [|e evs1]; [discriminate|]. destruct e as [| |s2 c2| | |]; try discriminate.
    destruct evs1 as [|e evs2]; [discriminate|]. destruct e as [| | |i1 i2 o1 o2| |]; try discriminate.
    apply bind_guard in H. destruct H as [Hb H].
    apply bind_ok in H. destruct H as [st1 [C1 H]].
    apply bind_ok in H. destruct H as [st2 [C2 H]].
    apply bind_guard in H. destruct H as [Hc H]. inversion H; subst st' cands evs'. clear H.
    apply clone_ok in C1. destruct C1 as [j1 [S1 [N1 ->]]].
    apply clone_ok in C2. destruct C2 as [j2 [S2 [N2 E2]]].
    apply andb_true_iff in Hc. destruct Hc as [Hc Hne].
    apply andb_true_iff in Hc. destruct Hc as [Ho1 Ho2].
    apply negb_true_iff in Hne. apply Nat.eqb_neq in Hne.
    assert (Nc2 : st c2 = None).
    { destruct (Nat.eq_dec c2 c1) as [->|D]; [rewrite upd_same in N2; discriminate|].
      rewrite upd_other in N2 by assumption. exact N2. }
    assert (X2 : extends st st2).
    { subst st2. eapply extends_trans; [apply extends_upd_none; exact N1|apply extends_upd_none; exact N2]. }
    assert (Fr : forall o : uid * G,
               Nat.eqb (fst o) c1 || Nat.eqb (fst o) c2 || is_fresh st2 (fst o) = true -> st (fst o) = None).
    { intros o Ho. apply orb_true_iff in Ho. destruct Ho as [Ho|Ho].
      - apply orb_true_iff in Ho. destruct Ho as [Ho|Ho]; apply Nat.eqb_eq in Ho; rewrite Ho; assumption.
      - unfold is_fresh in Ho. destruct (st2 (fst o)) eqn:Eo; [discriminate|].
        eapply extends_none; [exact X2|exact Eo]. }
    pose proof (Fr o1 Ho1) as F1. pose proof (Fr o2 Ho2) as F2.
    split; [|split; [|split; [|split]]].
    + unfold set_varied. apply extends_upd_fresh; [apply extends_upd_fresh; [exact X2|exact F1]|exact F2].
    + constructor; [intros [X|[]]; congruence|constructor; [intros []|constructor]].
    + constructor; [|constructor; [|constructor]].
      * split; [exact F1|]. unfold set_varied. rewrite upd_other by exact Hne. rewrite upd_same.
        eexists; split; [reflexivity|left; reflexivity].
      * split; [exact F2|]. unfold set_varied. rewrite upd_same.
        eexists; split; [reflexivity|left; reflexivity].
    + cbn. lia.
    + cbn. lia.
  - (* mutation or reproduction *)
    destruct evs1 as [|e evs1]; [discriminate|]. destruct e as [|arg k idxs| | | |]; try discriminate.
    destruct evs1 as [|e evs2]; [discriminate|]. destruct e as [| |s1 c1| | |]; try discriminate.
    apply bind_guard in H. destruct H as [Hb H].
    apply bind_ok in H. destruct H as [st1 [C1 H]].
    apply clone_ok in C1. destruct C1 as [j1 [S1 [N1 ->]]].
    apply andb_true_iff in Hb. destruct Hb as [Hb Hs].
    apply andb_true_iff in Hb. destruct Hb as [Hb Hr].
    apply uid_list_eqb_eq in Hs. apply forallb_lt_Forall in Hr.
    assert (Ps : In s1 pop).
    { apply (select_by_incl pop idxs Hr). rewrite Hs. left; reflexivity. }
    destruct (Qltb (u - cxpb) mutpb).
    + destruct evs2 as [|e evs3]; [discriminate|]. destruct e as [| | | |i o|]; try discriminate.
      apply bind_guard in H. destruct H as [Hc H]. inversion H; subst st' cands evs'. clear H.
      apply andb_true_iff in Hc. destruct Hc as [_ Hc].
      assert (F1 : st (fst o) = None).
      { apply orb_true_iff in Hc. destruct Hc as [Hc|Hc].
        - apply Nat.eqb_eq in Hc. rewrite Hc. exact N1.
        - unfold is_fresh in Hc. destruct (upd st c1 j1 (fst o)) eqn:Eo; [discriminate|].
          eapply extends_none; [apply extends_upd_none; exact N1|exact Eo]. }
      split; [|split; [|split; [|split]]].
      * unfold set_varied. apply extends_upd_fresh; [apply extends_upd_none; exact N1|exact F1].
      * constructor; [intros []|constructor].
      * constructor; [|constructor]. split; [exact F1|]. unfold set_varied. rewrite upd_same.
        eexists; split; [reflexivity|left; reflexivity].
      * cbn. lia.
      * cbn. lia.
    + inversion H; subst st' cands evs'. clear H.
      split; [|split; [|split; [|split]]].
      * apply extends_upd_none; exact N1.
      * constructor; [intros []|constructor].
      * constructor; [|constructor]. split; [exact N1|]. rewrite upd_same.
        exists j1; split; [reflexivity|]. right.
        destruct (st0 s1) as [ip|] eqn:E0; [|exfalso; apply (Kp s1 Ps); exact E0].
        pose proof (E _ _ E0) as X. rewrite S1 in X. inversion X; subst ip.
        exists s1, j1. auto.
      * cbn. lia.
      * cbn. lia.
Qed.

Definition good (st0 : store) (pop : list uid) (st : store) (x : uid) : Prop :=
  st0 x = None /\ exists i, st x = Some i /\ copy_of st0 pop i.

Record GInv (st0 : store) (pop : list uid) (st : store) (l : list uid) : Prop := mkGInv {
  gi_ext : extends st0 st;
  gi_nodup : NoDup l;
  gi_good : Forall (good st0 pop st) l }.

Lemma good_mono st0 pop st st' x : extends st st' -> good st0 pop st x -> good st0 pop st' x.
Proof. intros E [N [i [H1 H2]]]. split; [exact N|]. exists i; split; auto. Qed.

Lemma NoDup_app_intro {A} (l1 l2 : list A) :
  NoDup l1 -> NoDup l2 -> (forall x, In x l1 -> In x l2 -> False) -> NoDup (l1 ++ l2).
Proof.
  induction l1 as [|a r IH]; intros N1 N2 D; cbn; [exact N2|].
  inversion N1; subst. constructor.
  - intro H. apply in_app_or in H. destruct H as [H|H]; [contradiction|]. apply (D a); [left; reflexivity|exact H].
  - apply IH; auto. intros x Hx1 Hx2. apply (D x); [right; exact Hx1|exact Hx2].
Qed.

Lemma NoDup_app_left {A} (l1 l2 : list A) : NoDup (l1 ++ l2) -> NoDup l1.
Proof.
  induction l1 as [|a r IH]; cbn; intro H; [constructor|]. inversion H; subst.
  constructor; [intro X; apply H2; apply in_or_app; left; exact X|apply IH; assumption].
Qed.

Lemma genpop_unfold fuel pop cxpb mutpb n use st prod pick (evs : list ev) :
  genpop fuel pop cxpb mutpb n use st prod pick evs =
  if (n <=? length prod)%nat then Ok (st, prod, pick, evs) else
  match fuel with
  | O => OutOfFuel
  | S fuel' =>
    match pick with
    | aspirant :: pick' =>
        bind (accept_push use prod aspirant evs) (fun '(prod1, evs1) =>
        genpop fuel' pop cxpb mutpb n use st prod1 pick' evs1)
    | [] =>
        bind (candidates pop cxpb mutpb st evs) (fun '(st1, cands, evs1) =>
        bind (accept_cands use n prod cands evs1) (fun '(prod1, evs2) =>
        genpop fuel' pop cxpb mutpb n use st1 prod1 [] evs2))
    end
  end.
Proof. destruct fuel; reflexivity. Qed.

Lemma genpop_spec st0 pop cxpb mutpb n use :
  (forall p, In p pop -> st0 p <> None) ->
  forall fuel st prod pick evs st' prod' pick' evs',
  GInv st0 pop st (prod ++ pick) -> length prod <= n ->
  genpop fuel pop cxpb mutpb n use st prod pick evs = Ok (st', prod', pick', evs') ->
  GInv st0 pop st' (prod' ++ pick') /\ length prod' = n /\ length evs' <= length evs.
Proof.
  intros Kp. induction fuel as [|fuel IH]; intros st prod pick evs st' prod' pick' evs' GI Ln H;
    rewrite genpop_unfold in H; destruct (n <=? length prod) eqn:Le.
  - inversion H; subst. apply Nat.leb_le in Le. split; [exact GI|]. split; lia.
  - discriminate.
  - inversion H; subst. apply Nat.leb_le in Le. split; [exact GI|]. split; lia.
  - apply Nat.leb_gt in Le. destruct pick as [|asp pick0].
    + apply bind_ok in H. destruct H as [[[st1 cands] evs1] [C H]].
      apply bind_ok in H. destruct H as [[prod1 evs2] [A H]].
      destruct GI as [E Nd Gd]. rewrite app_nil_r in Nd, Gd.
      destruct (candidates_spec st0 pop cxpb mutpb st evs st1 cands evs1 Kp E C) as [X [Nc [Fc [Lc L2]]]].
      destruct (accept_cands_spec use n prod cands evs1 prod1 evs2 A L2) as [sub [-> [Is [Ns [Le2 Lp]]]]].
      apply IH in H.
      * destruct H as [H1 [H2 H3]]. split; [exact H1|]. split; [exact H2|]. lia.
      * rewrite app_nil_r. constructor.
        -- eapply extends_trans; eassumption.
        -- apply NoDup_app_intro; [exact Nd|apply Ns; exact Nc|].
           intros x Hx Hs. rewrite Forall_forall in Gd, Fc.
           destruct (Gd x Hx) as [_ [i [Si _]]]. destruct (Fc x (Is x Hs)) as [Sn _]. congruence.
        -- apply Forall_app. split.
           ++ eapply Forall_impl; [|exact Gd]. intros x Hx. eapply good_mono; eassumption.
           ++ apply Forall_forall. intros x Hx. rewrite Forall_forall in Fc.
              destruct (Fc x (Is x Hx)) as [Sn [i [Si Ci]]]. split; [|exists i; auto].
              eapply extends_none; eassumption.
      * apply Lp. exact Le.
    + apply bind_ok in H. destruct H as [[prod1 evs1] [A H]].
      apply accept_push_spec in A. destruct A as [Ep [Le1 _]].
      apply IH in H.
      * destruct H as [H1 [H2 H3]]. split; [exact H1|]. split; [exact H2|]. lia.
      * destruct GI as [E Nd Gd]. destruct Ep as [->| ->].
        -- constructor; [exact E|eapply NoDup_remove_1; exact Nd|].
           apply Forall_app in Gd. destruct Gd as [G1 G2]. inversion G2; subst.
           apply Forall_app; split; assumption.
        -- rewrite <- app_assoc. cbn. constructor; assumption.
      * destruct Ep as [->| ->]; [lia|rewrite app_length; cbn; lia].
Qed.

(* ---- fuel: every iteration of the while consumes at least one recorded event ---- *)
Lemma bind_oof {A B} (r : res A) (f : A -> res B) :
  bind r f = OutOfFuel -> r = OutOfFuel \/ exists a, r = Ok a /\ f a = OutOfFuel.
Proof. destruct r; cbn; intro H; [right; eauto|discriminate|left; reflexivity]. Qed.

Lemma accept_not_oof use x (evs : list ev) : accept use x evs <> OutOfFuel.
Proof.
  unfold accept. destruct use; [|discriminate].
  destruct evs as [|e r]; [discriminate|]. destruct e; try discriminate.
  destruct (Nat.eqb x x0); discriminate.
Qed.

Lemma accept_push_not_oof use prod x (evs : list ev) : accept_push use prod x evs <> OutOfFuel.
Proof.
  unfold accept_push. intro H. apply bind_oof in H. destruct H as [H|[[d e] [_ H]]]; [|discriminate].
  exact (accept_not_oof _ _ _ H).
Qed.

Lemma accept_cands_not_oof use n prod cands (evs : list ev) : accept_cands use n prod cands evs <> OutOfFuel.
Proof.
  unfold accept_cands. destruct cands as [|x rest]; [discriminate|]. intro H.
  apply bind_oof in H. destruct H as [H|[[p1 e1] [_ H]]]; [exact (accept_push_not_oof _ _ _ _ H)|].
  destruct rest; [discriminate|]. destruct (length p1 <? n); [exact (accept_push_not_oof _ _ _ _ H)|discriminate].
Qed.

Lemma guard_not_oof b c : guard b c <> OutOfFuel.
Proof. destruct b; discriminate. Qed.

Lemma clone_not_oof st a b : clone st a b <> OutOfFuel.
Proof. unfold clone. destruct (st a); [destruct (is_fresh st b)|]; discriminate. Qed.

Lemma candidates_not_oof pop cxpb mutpb st (evs : list ev) : candidates pop cxpb mutpb st evs <> OutOfFuel.
Proof.
  unfold candidates.
  destruct evs as [|e evs1]; [discriminate|]. destruct e as [u| | | | |]; try discriminate.
  destruct (Qltb u cxpb).
  - destruct evs1 as [|e evs1]; [discriminate|]. destruct e as [|arg k idxs| | | |]; try discriminate.
    destruct evs1 as [|e evs1]; [discriminate|]. destruct e as [| |s1 c1| | |]; try discriminate.
    destruct evs1 as [|e evs1]; [discriminate|]. destruct e as [| |s2 c2| | |]; try discriminate.
    destruct evs1 as [|e evs2]; [discriminate|]. destruct e as [| | |i1 i2 o1 o2| |]; try discriminate.
    intro H. apply bind_oof in H. destruct H as [H|[[] [_ H]]]; [exact (guard_not_oof _ _ H)|].
    apply bind_oof in H. destruct H as [H|[st1 [_ H]]]; [exact (clone_not_oof _ _ _ H)|].
    apply bind_oof in H. destruct H as [H|[st2 [_ H]]]; [exact (clone_not_oof _ _ _ H)|].
    apply bind_oof in H. destruct H as [H|[[] [_ H]]]; [exact (guard_not_oof _ _ H)|discriminate].
  - destruct evs1 as [|e evs1]; [discriminate|]. destruct e as [|arg k idxs| | | |]; try discriminate.
    destruct evs1 as [|e evs2]; [discriminate|]. destruct e as [| |s1 c1| | |]; try discriminate.
    intro H. apply bind_oof in H. destruct H as [H|[[] [_ H]]]; [exact (guard_not_oof _ _ H)|].
    apply bind_oof in H. destruct H as [H|[st1 [_ H]]]; [exact (clone_not_oof _ _ _ H)|].
    destruct (Qltb (u - cxpb) mutpb); [|discriminate].
    destruct evs2 as [|e evs3]; [discriminate|]. destruct e as [| | | |i o|]; try discriminate.
    apply bind_oof in H. destruct H as [H|[[] [_ H]]]; [exact (guard_not_oof _ _ H)|discriminate].
Qed.

Lemma candidates_consumes pop cxpb mutpb st (evs : list ev) st1 cands evs1 :
  candidates pop cxpb mutpb st evs = Ok (st1, cands, evs1) -> length evs1 < length evs.
Proof.
  unfold candidates.
  destruct evs as [|e evs0]; [discriminate|]. destruct e as [u| | | | |]; try discriminate.
  destruct (Qltb u cxpb).
  - destruct evs0 as [|e evs0]; [discriminate|]. destruct e as [|arg k idxs| | | |]; try discriminate.
    destruct evs0 as [|e evs0]; [discriminate|]. destruct e as [| |s1 c1| | |]; try discriminate.
    destruct evs0 as [|e evs0]; [discriminate|]. destruct e as [| |s2 c2| | |]; try discriminate.
    destruct evs0 as [|e evs2]; [discriminate|]. destruct e as [| | |i1 i2 o1 o2| |]; try discriminate.
    intro H. apply bind_guard in H. destruct H as [_ H].
    apply bind_ok in H. destruct H as [sa [_ H]]. apply bind_ok in H. destruct H as [sb [_ H]].
    apply bind_guard in H. destruct H as [_ H]. inversion H; subst. cbn. lia.
  - destruct evs0 as [|e evs0]; [discriminate|]. destruct e as [|arg k idxs| | | |]; try discriminate.
    destruct evs0 as [|e evs2]; [discriminate|]. destruct e as [| |s1 c1| | |]; try discriminate.
    intro H. apply bind_guard in H. destruct H as [_ H]. apply bind_ok in H. destruct H as [sa [_ H]].
    destruct (Qltb (u - cxpb) mutpb).
    + destruct evs2 as [|e evs3]; [discriminate|]. destruct e as [| | | |i o|]; try discriminate.
      apply bind_guard in H. destruct H as [_ H]. inversion H; subst. cbn. lia.
    + inversion H; subst. cbn. lia.
Qed.

(* fuel greater than the number of recorded events is never exhausted *)
Lemma genpop_fuel pop cxpb mutpb n use :
  forall fuel st prod pick (evs : list ev),
  (use = true \/ pick = []) -> length evs < fuel ->
  genpop fuel pop cxpb mutpb n use st prod pick evs <> OutOfFuel.
Proof.
  induction fuel as [|fuel IH]; intros st prod pick evs U L; [lia|].
  rewrite genpop_unfold. destruct (n <=? length prod); [discriminate|].
  destruct pick as [|asp pick0].
  - intro H. apply bind_oof in H. destruct H as [H|[[[st1 cands] evs1] [C H]]]; [exact (candidates_not_oof _ _ _ _ _ H)|].
    apply bind_oof in H. destruct H as [H|[[prod1 evs2] [A H]]]; [exact (accept_cands_not_oof _ _ _ _ _ H)|].
    apply candidates_consumes in C.
    destruct (le_lt_dec (length cands) 2) as [L2|L2].
    + apply accept_cands_spec in A; [|exact L2]. destruct A as [sub [_ [_ [_ [Le _]]]]].
      revert H. apply IH; [right; reflexivity|lia].
    + (* more than two aspirants never happens; the length bound is still preserved *)
      unfold accept_cands in A. destruct cands as [|x [|y rest]]; cbn in L2; try lia.
      apply bind_ok in A. destruct A as [[p1 e1] [A1 A2]]. apply accept_push_spec in A1. destruct A1 as [_ [Le1 _]].
      destruct (length p1 <? n).
      * apply accept_push_spec in A2. destruct A2 as [_ [Le2 _]]. revert H. apply IH; [right; reflexivity|lia].
      * inversion A2; subst. revert H. apply IH; [right; reflexivity|lia].
  - destruct U as [U|U]; [|discriminate]. intro H.
    apply bind_oof in H. destruct H as [H|[[prod1 evs1] [A H]]]; [exact (accept_push_not_oof _ _ _ _ H)|].
    apply accept_push_spec in A. destruct A as [_ [_ Lt]]. specialize (Lt U).
    revert H. apply IH; [left; exact U|lia].
Qed.

(* ---- one generation of harm ---- *)
Lemma harm_offspring_spec cxpb mutpb nbr s evs st2 off :
  InvC s -> harm_offspring cxpb mutpb nbr s evs = Ok (st2, off) ->
  extends (s_st s) st2 /\ Forall (honest st2) off /\ NoDup off /\
  length off = length (s_pop s) /\ Forall (fun x => s_st s x = None) off.
Proof.
  intros I H. unfold harm_offspring in H.
  assert (Kp : forall p, In p (s_pop s) -> s_st s p <> None).
  { intros p Hp. pose proof (ic_pop s I) as P. rewrite Forall_forall in P.
    destruct (P p Hp) as [i [Hi _]]. congruence. }
  destruct (genpop (S (length evs)) (s_pop s) cxpb mutpb nbr false (s_st s) [] [] evs)
    as [[[[st1 natural] pk] evs1]| |] eqn:G1; try discriminate.
  destruct (genpop (S (length evs)) (s_pop s) cxpb mutpb (length (s_pop s)) true st1 [] (rev natural) evs1)
    as [[[[st2' off'] pk'] evs2]| |] eqn:G2; try discriminate.
  destruct evs2; [|discriminate]. inversion H; subst st2' off'. clear H.
  apply (genpop_spec (s_st s) (s_pop s) cxpb mutpb nbr false Kp) in G1; [|constructor; cbn; [apply extends_refl|constructor|constructor]|cbn; lia].
  destruct G1 as [[E1 N1 Gd1] [_ _]].
  apply (genpop_spec (s_st s) (s_pop s) cxpb mutpb (length (s_pop s)) true Kp) in G2; [| |cbn; lia].
  - destruct G2 as [[E2 N2 Gd2] [L2 _]].
    apply NoDup_app_left in N2. apply Forall_app in Gd2. destruct Gd2 as [Gd2 _].
    split; [exact E2|]. split; [|split; [exact N2|split; [exact L2|]]].
    + eapply Forall_impl; [|exact Gd2]. intros x [Nx [i [Si [Ci|[p [ip [Pp [Sp [Gp Fp]]]]]]]]];
        exists i; split; auto.
      right. pose proof (ic_pop s I) as P. rewrite Forall_forall in P.
      destruct (P p Pp) as [j [J1 J2]]. rewrite Sp in J1. inversion J1; subst j.
      rewrite <- Fp, <- Gp. exact J2.
    + eapply Forall_impl; [|exact Gd2]. intros x [Nx _]. exact Nx.
  - cbn. constructor; [exact E1| |].
    + apply NoDup_rev. apply NoDup_app_left in N1. exact N1.
    + apply Forall_app in Gd1. destruct Gd1 as [Gd1 _].
      apply Forall_forall. intros x Hx. apply in_rev in Hx. rewrite Forall_forall in Gd1. auto.
Qed.

Lemma step_harm_fuel cxpb mutpb nbr gen s evs : step_harm evaluate fle cxpb mutpb nbr gen s evs <> OutOfFuel.
Proof.
  unfold step_harm, harm_offspring.
  destruct (genpop (S (length evs)) (s_pop s) cxpb mutpb nbr false (s_st s) [] [] evs)
    as [[[[st1 natural] pk] evs1]| |] eqn:G1; try discriminate.
  - assert (L1 : length evs1 <= length evs).
    { destruct (le_lt_dec (length evs1) (length evs)) as [L|L]; [exact L|exfalso].
      (* genpop never returns more events than it was given *)
      assert (X : forall fuel st prod pick (e : list ev) st' prod' pick' e',
                genpop fuel (s_pop s) cxpb mutpb nbr false st prod pick e = Ok (st', prod', pick', e') ->
                pick = [] -> length e' <= length e).
      { induction fuel as [|fuel IH]; intros st prod pick e st' prod' pick' e' H Hp;
          rewrite genpop_unfold in H; destruct (nbr <=? length prod); try (inversion H; subst; lia); try discriminate.
        subst pick. apply bind_ok in H. destruct H as [[[sa cands] ea] [C H]].
        apply bind_ok in H. destruct H as [[pa eb] [A H]].
        apply candidates_consumes in C. apply IH in H; [|reflexivity].
        assert (length eb <= length ea).
        { unfold accept_cands in A. destruct cands as [|x rest]; [inversion A; subst; lia|].
          apply bind_ok in A. destruct A as [[p1 e1] [A1 A2]]. apply accept_push_spec in A1. destruct A1 as [_ [Le1 _]].
          destruct rest; [inversion A2; subst; lia|]. destruct (length p1 <? nbr).
          - apply accept_push_spec in A2. destruct A2 as [_ [Le2 _]]. lia.
          - inversion A2; subst. lia. }
        lia. }
      apply X in G1; [lia|reflexivity]. }
    destruct (genpop (S (length evs)) (s_pop s) cxpb mutpb (length (s_pop s)) true st1 [] (rev natural) evs1)
      as [[[[st2' off'] pk'] evs2]| |] eqn:G2; try discriminate.
    + destruct evs2; discriminate.
    + exfalso. revert G2. apply genpop_fuel; [left; reflexivity|lia].
  - exfalso. revert G1. apply genpop_fuel; [right; reflexivity|lia].
Qed.

Lemma step_harm_spec cxpb mutpb nbr gen s evs s' :
  InvC s -> gen = length (s_log s) ->
  step_harm evaluate fle cxpb mutpb nbr gen s evs = Ok s' ->
  InvC s' /\ length (s_log s') = S (length (s_log s)) /\ length (s_pop s') = length (s_pop s) /\
  exists st2 off,
    harm_offspring cxpb mutpb nbr s evs = Ok (st2, off) /\
    s' = finish_gen evaluate fle gen s st2 off off /\
    NoDup off /\ Forall (fun x => s_st s x = None) off.
Proof.
  intros I Hg H. unfold step_harm in H.
  destruct (harm_offspring cxpb mutpb nbr s evs) as [[st2 off]| |] eqn:HO; try discriminate.
  inversion H; subst s'. clear H.
  destruct (harm_offspring_spec _ _ _ _ _ _ _ I HO) as [E [Ho [Nd [Lo Fr]]]].
  split; [apply finish_gen_InvC; auto; apply incl_appr, incl_refl|].
  rewrite finish_gen_log_length, finish_gen_pop. split; [reflexivity|]. split; [exact Lo|].
  exists st2, off. auto.
Qed.

Lemma run_harm_spec cxpb mutpb nbr : forall l gen s s',
  InvC s -> gen = length (s_log s) ->
  run_harm evaluate fle cxpb mutpb nbr gen s l = Ok s' ->
  InvC s' /\ length (s_log s') = length (s_log s) + length l /\ length (s_pop s') = length (s_pop s) /\
  exists rs cs, s_log s' = s_log s ++ rs /\ s_calls s' = s_calls s ++ cs.
Proof.
  induction l as [|evs r IH]; intros gen s s' I Hg H; cbn in H.
  - inversion H; subst. split; [exact I|]. split; [cbn; lia|]. split; [reflexivity|].
    exists [], []. rewrite !app_nil_r. auto.
  - destruct (step_harm evaluate fle cxpb mutpb nbr gen s evs) as [s1| |] eqn:S1; try discriminate.
    destruct (step_harm_spec _ _ _ _ _ _ _ I Hg S1) as [I1 [L1 [P1 [st2 [off [_ [E1 _]]]]]]].
    apply IH in H; [|exact I1|lia]. destruct H as [I2 [L2 [P2 [rs [cs [R1 R2]]]]]].
    split; [exact I2|]. split; [cbn; lia|]. split; [congruence|].
    rewrite E1, finish_gen_eq in R1, R2. cbn in R1, R2. rewrite <- app_assoc in R1, R2.
    eexists; eexists; split; [exact R1|exact R2].
Qed.

Lemma run_harm_app cxpb mutpb nbr : forall l1 l2 gen s e,
  run_harm evaluate fle cxpb mutpb nbr gen s (l1 ++ l2) = Ok e ->
  exists b, run_harm evaluate fle cxpb mutpb nbr gen s l1 = Ok b /\
            run_harm evaluate fle cxpb mutpb nbr (gen + length l1) b l2 = Ok e.
Proof.
  induction l1 as [|evs r IH]; intros l2 gen s e H; cbn in *.
  - exists s. rewrite Nat.add_0_r. auto.
  - destruct (step_harm evaluate fle cxpb mutpb nbr gen s evs) as [s1| |]; try discriminate.
    apply IH in H. destruct H as [b [H1 H2]]. exists b. split; [exact H1|].
    replace (gen + S (length r)) with (S gen + length r) by lia. exact H2.
Qed.

Lemma run_harm_fuel cxpb mutpb nbr : forall l gen s, run_harm evaluate fle cxpb mutpb nbr gen s l <> OutOfFuel.
Proof.
  induction l as [|evs r IH]; intros gen s; cbn; [discriminate|].
  destruct (step_harm evaluate fle cxpb mutpb nbr gen s evs) as [s1| |] eqn:S1; [apply IH|discriminate|].
  exfalso. exact (step_harm_fuel _ _ _ _ _ _ S1).
Qed.

Theorem harm_inv cxpb mutpb nbrindsmodel st pop l s :
  init_ok st pop ->
  ea_harm evaluate fle cxpb mutpb nbrindsmodel st pop l = Ok s ->
  InvC s /\ length (s_log s) = S (length l) /\ length (s_pop s) = length pop.
Proof.
  intros H0 H. unfold ea_harm in H. apply run_harm_spec in H.
  - destruct H as [I [L [P _]]]. rewrite gen0_log_length in L. rewrite gen0_pop in P. auto.
  - apply gen0_InvC. exact H0.
  - rewrite gen0_log_length. reflexivity.
Qed.

(* ------------------------------------------------------------------ *)
(* at EVERY generation boundary: a boundary is the end of a shorter run, whose logbook and call
   log are prefixes of the final ones *)

Definition extends_history (b e : state) : Prop :=
  exists rs cs, s_log e = s_log b ++ rs /\ s_calls e = s_calls b ++ cs.

Theorem simple_every_boundary st pop l1 l2 :
  init_ok st pop ->
  run_ok (step_simple evaluate fle) ans_ok_simple 1 (gen0 evaluate fle (init st pop)) (l1 ++ l2) ->
  let b := ea_simple evaluate fle st pop l1 in
  InvC b /\ length (s_log b) = S (length l1) /\ length (s_pop b) = length pop /\
  extends_history b (ea_simple evaluate fle st pop (l1 ++ l2)).
Proof.
  intros H0 Hok. cbv zeta. apply run_ok_app in Hok. destruct Hok as [Hok _].
  destruct (simple_inv st pop l1 H0 Hok) as [I [L P]]. split; [exact I|]. split; [exact L|]. split; [exact P|].
  unfold ea_simple. rewrite run_from_app.
  destruct (run_log_prefix (step_simple evaluate fle) step_appends_simple l2 (1 + length l1)
              (run_from (step_simple evaluate fle) 1 (gen0 evaluate fle (init st pop)) l1)) as [rs [cs [E1 [E2 _]]]].
  exists rs, cs. auto.
Qed.

Theorem plus_every_boundary mu lam st pop l1 l2 :
  init_ok st pop ->
  run_ok (step_plus evaluate fle) (ans_ok_plus mu lam) 1 (gen0 evaluate fle (init st pop)) (l1 ++ l2) ->
  let b := ea_plus evaluate fle st pop l1 in
  InvC b /\ length (s_log b) = S (length l1) /\
  length (s_pop b) = match l1 with [] => length pop | _ => mu end /\
  extends_history b (ea_plus evaluate fle st pop (l1 ++ l2)).
Proof.
  intros H0 Hok. cbv zeta. apply run_ok_app in Hok. destruct Hok as [Hok _].
  destruct (plus_inv mu lam st pop l1 H0 Hok) as [I [L P]]. split; [exact I|]. split; [exact L|]. split; [exact P|].
  unfold ea_plus. rewrite run_from_app.
  destruct (run_log_prefix (step_plus evaluate fle) step_appends_plus l2 (1 + length l1)
              (run_from (step_plus evaluate fle) 1 (gen0 evaluate fle (init st pop)) l1)) as [rs [cs [E1 [E2 _]]]].
  exists rs, cs. auto.
Qed.

Theorem comma_every_boundary mu lam st pop l1 l2 :
  init_ok st pop ->
  run_ok (step_comma evaluate fle) (ans_ok_comma mu lam) 1 (gen0 evaluate fle (init st pop)) (l1 ++ l2) ->
  let b := ea_comma evaluate fle st pop l1 in
  InvC b /\ length (s_log b) = S (length l1) /\
  length (s_pop b) = match l1 with [] => length pop | _ => mu end /\
  extends_history b (ea_comma evaluate fle st pop (l1 ++ l2)).
Proof.
  intros H0 Hok. cbv zeta. apply run_ok_app in Hok. destruct Hok as [Hok _].
  destruct (comma_inv mu lam st pop l1 H0 Hok) as [I [L P]]. split; [exact I|]. split; [exact L|]. split; [exact P|].
  unfold ea_comma. rewrite run_from_app.
  destruct (run_log_prefix (step_comma evaluate fle) step_appends_comma l2 (1 + length l1)
              (run_from (step_comma evaluate fle) 1 (gen0 evaluate fle (init st pop)) l1)) as [rs [cs [E1 [E2 _]]]].
  exists rs, cs. auto.
Qed.

Theorem gu_every_boundary l1 l2 :
  run_ok (step_gu evaluate fle) ans_ok_gu 0 (init empty_store []) (l1 ++ l2) ->
  let b := ea_gu evaluate fle l1 in
  InvC b /\ length (s_log b) = length l1 /\
  extends_history b (ea_gu evaluate fle (l1 ++ l2)).
Proof.
  intros Hok. cbv zeta. apply run_ok_app in Hok. destruct Hok as [Hok _].
  destruct (gu_inv l1 Hok) as [I L]. split; [exact I|]. split; [exact L|].
  unfold ea_gu. rewrite run_from_app.
  destruct (run_log_prefix (step_gu evaluate fle) step_appends_gu l2 (0 + length l1)
              (run_from (step_gu evaluate fle) 0 (init empty_store []) l1)) as [rs [cs [E1 [E2 _]]]].
  exists rs, cs. auto.
Qed.

Theorem harm_every_boundary cxpb mutpb nbrindsmodel st pop l1 l2 e :
  init_ok st pop ->
  ea_harm evaluate fle cxpb mutpb nbrindsmodel st pop (l1 ++ l2) = Ok e ->
  exists b, ea_harm evaluate fle cxpb mutpb nbrindsmodel st pop l1 = Ok b /\
    InvC b /\ length (s_log b) = S (length l1) /\ length (s_pop b) = length pop /\
    extends_history b e.
Proof.
  intros H0 H. unfold ea_harm in *. apply run_harm_app in H. destruct H as [b [H1 H2]].
  exists b. split; [exact H1|].
  destruct (harm_inv cxpb mutpb nbrindsmodel st pop l1 b H0 H1) as [I [L P]].
  split; [exact I|]. split; [exact L|]. split; [exact P|].
  apply run_harm_spec in H2; [|exact I|rewrite L; reflexivity].
  destruct H2 as [_ [_ [_ [rs [cs [E1 E2]]]]]]. exists rs, cs. auto.
Qed.

(* ---- per generation: who is evaluated ---- *)
Definition calls_exact (s s' : state) (gen : nat) (off : list (uid * ind)) : Prop :=
  exists log r,
    s_calls s' = s_calls s ++ [log] /\ s_log s' = s_log s ++ [r] /\
    map fst log = map fst (filter inv_content off) /\
    Forall (fun c => exists i, In (fst c, i) off /\ fit i = None /\ geno i = snd c) log /\
    r_gen r = gen /\ r_nevals r = length log /\
    (off_invalid_distinct off -> NoDup (map fst log)).

Theorem simple_calls gen s a :
  ans_ok_simple s a -> calls_exact s (step_simple evaluate fle gen s a) gen (a_off a).
Proof. intros [_ [O _]]. unfold step_simple. eapply var_calls. exact O. Qed.

Theorem plus_calls mu lam gen s a :
  ans_ok_plus mu lam s a -> calls_exact s (step_plus evaluate fle gen s a) gen (a_off a).
Proof. intros [O _]. unfold step_plus. eapply var_calls. exact O. Qed.

Theorem comma_calls mu lam gen s a :
  ans_ok_comma mu lam s a -> calls_exact s (step_comma evaluate fle gen s a) gen (a_off a).
Proof. intros [O _]. unfold step_comma. eapply var_calls. exact O. Qed.

(* harm: the offspring are new, pairwise distinct objects; exactly those with an invalid fitness
   (the ones that went through mate or mutate) are evaluated, once each, in order *)
Theorem harm_calls cxpb mutpb nbr gen s evs s' :
  InvC s -> gen = length (s_log s) ->
  step_harm evaluate fle cxpb mutpb nbr gen s evs = Ok s' ->
  exists st2 off log r,
    harm_offspring cxpb mutpb nbr s evs = Ok (st2, off) /\
    NoDup off /\ Forall (fun x => s_st s x = None) off /\ s_pop s' = off /\
    s_calls s' = s_calls s ++ [log] /\ s_log s' = s_log s ++ [r] /\
    map fst log = invalid_of st2 off /\ NoDup (map fst log) /\
    Forall (fun c => exists i, st2 (fst c) = Some i /\ geno i = snd c) log /\
    r_gen r = gen /\ r_nevals r = length log.
Proof.
  intros I Hg H. destruct (step_harm_spec _ _ _ _ _ _ _ I Hg H) as [_ [_ [_ [st2 [off [HO [-> [Nd Fr]]]]]]]].
  destruct (finish_gen_calls gen s st2 off off) as [log [r [E1 [E2 [E3 [E4 [E5 [E6 E7]]]]]]]].
  exists st2, off, log, r. rewrite finish_gen_pop. repeat split; try assumption.
  apply E7. apply NoDup_filter. exact Nd.
Qed.

(* ------------------------------------------------------------------ *)
(* hall of fame and elitism: these need the fitness order to be a total preorder *)
Section Order.
Hypothesis fle_total : forall a b, fle a b = true \/ fle b a = true.
Hypothesis fle_trans : forall a b c, fle a b = true -> fle b c = true -> fle a c = true.

Lemma fle_refl a : fle a a = true.
Proof. destruct (fle_total a a); assumption. Qed.

(* the hall of fame's best is at least as good as f *)
Definition best_ge (best : option F) (f : F) : Prop := exists b, best = Some b /\ fle f b = true.

Lemma hof_upd1_ge best f : best_ge (hof_upd1 fle best f) f.
Proof.
  unfold hof_upd1. destruct best as [b|]; [|exists f; split; [reflexivity|apply fle_refl]].
  destruct (fle f b) eqn:E; [exists b; auto|exists f; split; [reflexivity|apply fle_refl]].
Qed.

Lemma hof_upd1_mono best f x : best_ge best x -> best_ge (hof_upd1 fle best f) x.
Proof.
  intros [b [-> H]]. unfold hof_upd1. destruct (fle f b) eqn:E; [exists b; auto|].
  exists f; split; [reflexivity|]. destruct (fle_total f b) as [X|X]; [congruence|].
  eapply fle_trans; eassumption.
Qed.

Lemma hof_fold_mono l : forall best x, best_ge best x -> best_ge (fold_left (hof_upd1 fle) l best) x.
Proof. induction l as [|f r IH]; intros best x H; cbn; [exact H|]. apply IH. apply hof_upd1_mono. exact H. Qed.

Lemma hof_fold_ge l : forall best f, In f l -> best_ge (fold_left (hof_upd1 fle) l best) f.
Proof.
  induction l as [|g r IH]; intros best f H; [destruct H|]. cbn. destruct H as [->|H].
  - apply hof_fold_mono. apply hof_upd1_ge.
  - apply IH. exact H.
Qed.

Lemma hof_update_mono best st l x : best_ge best x -> best_ge (hof_update fle best st l) x.
Proof. apply hof_fold_mono. Qed.

Lemma hof_update_ge best st l u i f :
  In u l -> st u = Some i -> fit i = Some f -> best_ge (hof_update fle best st l) f.
Proof.
  intros Hu Hs Hf. apply hof_fold_ge. unfold fits_of. apply in_flat_map. exists u. split; [exact Hu|].
  rewrite Hs, Hf. left; reflexivity.
Qed.

Definition entry_le (best : option F) (p : uid * option ind) : Prop :=
  forall i f, snd p = Some i -> fit i = Some f -> best_ge best f.

Record InvH (s : state) : Prop := mkInvH {
  (* the best of the hall of fame is at least as good as every fitness ever evaluated ... *)
  ih_calls : Forall (Forall (fun c => best_ge (s_best s) (evaluate (snd c)))) (s_calls s);
  (* ... as every fitness the statistics ever logged ... *)
  ih_snap : Forall (fun r => Forall (entry_le (s_best s)) (r_snap r)) (s_log s);
  (* ... and each record's own best (hall of fame at that boundary) dominates what was logged then *)
  ih_rbest : Forall (fun r => Forall (entry_le (r_best r)) (r_snap r)) (s_log s);
  ih_pop : Forall (fun u => entry_le (s_best s) (u, s_st s u)) (s_pop s) }.

Lemma mk_InvH s st2 newpop log gen nev batch :
  Forall (Forall (fun c => best_ge (s_best s) (evaluate (snd c)))) (s_calls s) ->
  Forall (fun r => Forall (entry_le (s_best s)) (r_snap r)) (s_log s) ->
  Forall (fun r => Forall (entry_le (r_best r)) (r_snap r)) (s_log s) ->
  Forall (fun c => In (fst c) batch /\ exists i, st2 (fst c) = Some i /\ fit i = Some (evaluate (snd c))) log ->
  (forall u, In u newpop -> In u batch \/ (st2 u = s_st s u /\ entry_le (s_best s) (u, s_st s u))) ->
  let best := hof_update fle (s_best s) st2 batch in
  InvH (mkstate st2 newpop (s_calls s ++ [log])
                (s_log s ++ [mkrec gen nev (snap st2 newpop) best]) (s_shown s ++ [batch]) best).
Proof.
  intros Hc0 Hs0 Hr0 Hlog Hnew best.
  assert (Pnew : Forall (fun u => entry_le best (u, st2 u)) newpop).
  { apply Forall_forall. intros u Hu i f Hi Hf. cbn in Hi. destruct (Hnew u Hu) as [Hb|[Hs Hp]].
    - eapply hof_update_ge; eassumption.
    - apply hof_update_mono. apply (Hp i f); [cbn; congruence|exact Hf]. }
  assert (Snew : Forall (entry_le best) (snap st2 newpop)).
  { unfold snap. apply Forall_forall. intros p Hp. apply in_map_iff in Hp. destruct Hp as [u [<- Hu]].
    rewrite Forall_forall in Pnew. auto. }
  constructor; cbn.
  - apply Forall_app. split.
    + eapply Forall_impl; [|exact Hc0]. intros c Hc. eapply Forall_impl; [|exact Hc].
      intros x Hx. apply hof_update_mono. exact Hx.
    + constructor; [|constructor]. eapply Forall_impl; [|exact Hlog].
      intros c [Hb [i [Hi Hf]]]. eapply hof_update_ge; eassumption.
  - apply Forall_app. split.
    + eapply Forall_impl; [|exact Hs0]. intros r Hr. eapply Forall_impl; [|exact Hr].
      intros p Hp i f Hi Hf. apply hof_update_mono. eapply Hp; eassumption.
    + constructor; [exact Snew|constructor].
  - apply Forall_app. split; [exact Hr0|]. constructor; [exact Snew|constructor].
  - exact Pnew.
Qed.

Lemma finish_gen_InvH gen s st1 off newpop :
  InvC s -> InvH s -> extends (s_st s) st1 -> Forall (honest st1) off ->
  incl newpop (s_pop s ++ off) ->
  InvH (finish_gen evaluate fle gen s st1 off newpop).
Proof.
  intros I H E Hoff Hin. rewrite finish_gen_eq. cbv zeta.
  apply mk_InvH; [exact (ih_calls s H)|exact (ih_snap s H)|exact (ih_rbest s H)| |].
  - pose proof (geno_pairs_known st1 _ (invalid_of_known st1 off)) as [K1 [K2 K3]].
    apply Forall_forall. intros c Hc. rewrite Forall_forall in K3. destruct (K3 c Hc) as [i [Si Gi]].
    assert (Hu : In (fst c) (invalid_of st1 off)) by (rewrite <- K1; apply in_map; exact Hc).
    split; [apply (invalid_of_incl st1 off); exact Hu|].
    destruct (eval_list_truthful (invalid_of st1 off) st1 (fst c) Hu) as [j [J1 J2]]; [congruence|].
    exists j. split; [exact J1|]. rewrite J2. do 2 f_equal.
    pose proof (eval_list_same_geno (invalid_of st1 off) st1 (fst c)) as SG.
    rewrite Si, J1 in SG. cbn in SG. congruence.
  - intros u Hu. apply Hin in Hu. apply in_app_or in Hu. destruct Hu as [Hu|Hu]; [right|left; exact Hu].
    split; [|pose proof (ih_pop s H) as Q; rewrite Forall_forall in Q; auto].
    pose proof (ic_pop s I) as P. rewrite Forall_forall in P.
    destruct (P u Hu) as [i [Si Fi]]. rewrite Si. rewrite eval_invalid_valid_untouched.
    + apply E. exact Si.
    + apply truthful_not_invalid. exists i. split; [apply E; exact Si|exact Fi].
Qed.

Lemma init_InvH st pop : InvH (init st pop) -> True.
Proof. trivial. Qed.

Lemma gen0_InvH st pop : init_ok st pop -> InvH (gen0 evaluate fle (init st pop)).
Proof.
  intro H0. unfold gen0. rewrite finish_gen_eq. cbv zeta.
  change (s_calls (init st pop)) with (@nil (list (uid * G))).
  apply (mk_InvH (init st pop)); [constructor|constructor|constructor| |].
  - pose proof (geno_pairs_known st _ (invalid_of_known st pop)) as [K1 [K2 K3]].
    apply Forall_forall. intros c Hc. rewrite Forall_forall in K3. destruct (K3 c Hc) as [i [Si Gi]].
    assert (Hu : In (fst c) (invalid_of st pop)) by (rewrite <- K1; apply in_map; exact Hc).
    split; [apply (invalid_of_incl st pop); exact Hu|].
    destruct (eval_list_truthful (invalid_of st pop) st (fst c) Hu) as [j [J1 J2]]; [cbn; congruence|].
    exists j. split; [exact J1|]. rewrite J2. do 2 f_equal.
    pose proof (eval_list_same_geno (invalid_of st pop) st (fst c)) as SG.
    cbn in Si. rewrite Si, J1 in SG. cbn in SG. congruence.
  - intros u Hu. left. exact Hu.
Qed.

Lemma step_simple_InvH gen s a :
  InvC s -> InvH s -> ans_ok_simple s a -> InvH (step_simple evaluate fle gen s a).
Proof.
  intros I H [[S1 S2] [O L]]. unfold step_simple. apply finish_gen_InvH; auto.
  - eapply off_ok_extends; exact O.
  - eapply off_ok_honest; [exact O|]. apply pop_truthful_incl; [exact I|apply select_by_incl; exact S2].
  - apply incl_appr, incl_refl.
Qed.

Lemma step_plus_InvH mu lam gen s a :
  InvC s -> InvH s -> ans_ok_plus mu lam s a -> InvH (step_plus evaluate fle gen s a).
Proof.
  intros I H [O [L [S1 S2]]]. unfold step_plus. apply finish_gen_InvH; auto.
  - eapply off_ok_extends; exact O.
  - eapply off_ok_honest; [exact O|]. apply pop_truthful_incl; [exact I|apply incl_refl].
  - apply select_by_incl; exact S2.
Qed.

Lemma step_comma_InvH mu lam gen s a :
  InvC s -> InvH s -> ans_ok_comma mu lam s a -> InvH (step_comma evaluate fle gen s a).
Proof.
  intros I H [O [L [S1 S2]]]. unfold step_comma. apply finish_gen_InvH; auto.
  - eapply off_ok_extends; exact O.
  - eapply off_ok_honest; [exact O|]. apply pop_truthful_incl; [exact I|apply incl_refl].
  - eapply incl_tran; [apply select_by_incl; exact S2|apply incl_appr, incl_refl].
Qed.

Lemma step_gu_InvH gen s a :
  InvH s -> ans_ok_gu s a -> InvH (step_gu evaluate fle gen s a).
Proof.
  intros H [Fr Nd]. rewrite step_gu_eq. cbv zeta.
  apply mk_InvH; [exact (ih_calls s H)|exact (ih_snap s H)|exact (ih_rbest s H)| |].
  - set (pop := map fst (a_off a)). set (st1 := add_objs (s_st s) (a_off a)).
    assert (Kn : Forall (fun u => st1 u <> None) pop).
    { apply Forall_forall. intros u Hu. apply in_map_iff in Hu. destruct Hu as [[u' i] [E Hu]]. cbn in E; subst u'.
      unfold st1. rewrite (add_objs_in (a_off a) (s_st s) u i); [congruence| |exact Hu].
      intros i' Hi'. eapply nodup_fst_fun; eassumption. }
    pose proof (geno_pairs_known st1 pop Kn) as [K1 [K2 K3]].
    apply Forall_forall. intros c Hc. rewrite Forall_forall in K3. destruct (K3 c Hc) as [i [Si Gi]].
    assert (Hu : In (fst c) pop) by (rewrite <- K1; apply in_map; exact Hc).
    split; [exact Hu|].
    destruct (eval_list_truthful pop st1 (fst c) Hu) as [j [J1 J2]]; [congruence|].
    exists j. split; [exact J1|]. rewrite J2. do 2 f_equal.
    pose proof (eval_list_same_geno pop st1 (fst c)) as SG.
    rewrite Si, J1 in SG. cbn in SG. congruence.
  - intros u Hu. left. exact Hu.
Qed.

Theorem simple_hof st pop answers :
  init_ok st pop ->
  run_ok (step_simple evaluate fle) ans_ok_simple 1 (gen0 evaluate fle (init st pop)) answers ->
  InvH (ea_simple evaluate fle st pop answers).
Proof.
  intros H0 Hok. unfold ea_simple.
  apply (run_inv (step_simple evaluate fle) ans_ok_simple
           (fun gen s => (InvC s /\ length (s_log s) = gen) /\ InvH s)); [| |exact Hok].
  - intros gen s a [[I L] H] Ha. split; [split; [apply step_simple_InvC; auto|]|apply step_simple_InvH; auto].
    unfold step_simple. rewrite finish_gen_log_length. lia.
  - split; [split; [apply gen0_InvC; exact H0|apply gen0_log_length]|apply gen0_InvH; exact H0].
Qed.

Theorem plus_hof mu lam st pop answers :
  init_ok st pop ->
  run_ok (step_plus evaluate fle) (ans_ok_plus mu lam) 1 (gen0 evaluate fle (init st pop)) answers ->
  InvH (ea_plus evaluate fle st pop answers).
Proof.
  intros H0 Hok. unfold ea_plus.
  apply (run_inv (step_plus evaluate fle) (ans_ok_plus mu lam)
           (fun gen s => (InvC s /\ length (s_log s) = gen) /\ InvH s)); [| |exact Hok].
  - intros gen s a [[I L] H] Ha. split; [split; [eapply step_plus_InvC; eauto|]|eapply step_plus_InvH; eauto].
    unfold step_plus. rewrite finish_gen_log_length. lia.
  - split; [split; [apply gen0_InvC; exact H0|apply gen0_log_length]|apply gen0_InvH; exact H0].
Qed.

Theorem comma_hof mu lam st pop answers :
  init_ok st pop ->
  run_ok (step_comma evaluate fle) (ans_ok_comma mu lam) 1 (gen0 evaluate fle (init st pop)) answers ->
  InvH (ea_comma evaluate fle st pop answers).
Proof.
  intros H0 Hok. unfold ea_comma.
  apply (run_inv (step_comma evaluate fle) (ans_ok_comma mu lam)
           (fun gen s => (InvC s /\ length (s_log s) = gen) /\ InvH s)); [| |exact Hok].
  - intros gen s a [[I L] H] Ha. split; [split; [eapply step_comma_InvC; eauto|]|eapply step_comma_InvH; eauto].
    unfold step_comma. rewrite finish_gen_log_length. lia.
  - split; [split; [apply gen0_InvC; exact H0|apply gen0_log_length]|apply gen0_InvH; exact H0].
Qed.

Theorem gu_hof answers :
  run_ok (step_gu evaluate fle) ans_ok_gu 0 (init empty_store []) answers ->
  InvH (ea_gu evaluate fle answers).
Proof.
  intros Hok. unfold ea_gu.
  apply (run_inv (step_gu evaluate fle) ans_ok_gu (fun gen s => InvH s)); [| |exact Hok].
  - intros gen s a H Ha. apply step_gu_InvH; auto.
  - constructor; cbn; constructor.
Qed.

Lemma run_harm_hof cxpb mutpb nbr : forall l gen s s',
  InvC s -> gen = length (s_log s) -> InvH s ->
  run_harm evaluate fle cxpb mutpb nbr gen s l = Ok s' -> InvH s'.
Proof.
  induction l as [|evs r IH]; intros gen s s' I Hg H R; cbn in R.
  - inversion R; subst. exact H.
  - destruct (step_harm evaluate fle cxpb mutpb nbr gen s evs) as [s1| |] eqn:S1; try discriminate.
    destruct (step_harm_spec _ _ _ _ _ _ _ I Hg S1) as [I1 [L1 [P1 [st2 [off [HO [E1 _]]]]]]].
    destruct (harm_offspring_spec _ _ _ _ _ _ _ I HO) as [E [Ho _]].
    eapply (IH (S gen)); [exact I1|lia| |exact R]. rewrite E1.
    apply finish_gen_InvH; auto. apply incl_appr, incl_refl.
Qed.

Theorem harm_hof cxpb mutpb nbrindsmodel st pop l s :
  init_ok st pop ->
  ea_harm evaluate fle cxpb mutpb nbrindsmodel st pop l = Ok s -> InvH s.
Proof.
  intros H0 H. unfold ea_harm in H. eapply run_harm_hof; [| | |exact H].
  - apply gen0_InvC. exact H0.
  - rewrite gen0_log_length. reflexivity.
  - apply gen0_InvH. exact H0.
Qed.

(* ---- tools.selBest and elitism of mu+lambda ---- *)
Definition valid_in (st : store) (u : uid) : Prop := exists i f, st u = Some i /\ fit i = Some f.

Lemma fit_lt_false st x y ix iy fx fy :
  st x = Some ix -> fit ix = Some fx -> st y = Some iy -> fit iy = Some fy ->
  (fit_lt fle st x y = false <-> fle fy fx = true).
Proof.
  intros A B C D. unfold fit_lt. rewrite A, C, B, D. destruct (fle fy fx); cbn; split; congruence.
Qed.

Lemma fit_lt_refl st x : valid_in st x -> fit_lt fle st x x = false.
Proof. intros [i [f [A B]]]. apply (fit_lt_false st x x i i f f A B A B). apply fle_refl. Qed.

Lemma fit_lt_asym st x y : valid_in st x -> valid_in st y -> fit_lt fle st x y = true -> fit_lt fle st y x = false.
Proof.
  intros [ix [fx [A B]]] [iy [fy [C D]]] H.
  apply (fit_lt_false st y x iy ix fy fx C D A B).
  unfold fit_lt in H. rewrite A, C, B, D in H. apply negb_true_iff in H.
  destruct (fle_total fx fy) as [X|X]; [exact X|congruence].
Qed.

Lemma fit_lt_false_trans st x y z :
  valid_in st x -> valid_in st y -> valid_in st z ->
  fit_lt fle st x y = false -> fit_lt fle st y z = false -> fit_lt fle st x z = false.
Proof.
  intros [ix [fx [A B]]] [iy [fy [C D]]] [iz [fz [E0 F0]]] H1 H2.
  apply (fit_lt_false st x y ix iy fx fy A B C D) in H1.
  apply (fit_lt_false st y z iy iz fy fz C D E0 F0) in H2.
  apply (fit_lt_false st x z ix iz fx fz A B E0 F0). eapply fle_trans; eassumption.
Qed.

Lemma insert_desc_In st x l z : In z (insert_desc fle st x l) <-> z = x \/ In z l.
Proof.
  induction l as [|y r IH]; cbn; [intuition|].
  destruct (fit_lt fle st x y); cbn; [rewrite IH|]; intuition.
Qed.

Lemma insert_desc_length st x l : length (insert_desc fle st x l) = S (length l).
Proof. induction l as [|y r IH]; cbn; [reflexivity|]. destruct (fit_lt fle st x y); cbn; [rewrite IH|]; reflexivity. Qed.

Lemma sort_desc_In st l z : In z (sort_desc fle st l) <-> In z l.
Proof.
  induction l as [|x r IH]; cbn; [tauto|]. unfold sort_desc in *. cbn.
  rewrite insert_desc_In, IH. intuition.
Qed.

Lemma sort_desc_length st l : length (sort_desc fle st l) = length l.
Proof. induction l as [|x r IH]; cbn; [reflexivity|]. unfold sort_desc in *. cbn. rewrite insert_desc_length, IH. reflexivity. Qed.

(* the first element of the sorted list is not worse than any element *)
Definition head_max (st : store) (l : list uid) : Prop :=
  match l with [] => True | h :: _ => forall x, In x l -> fit_lt fle st h x = false end.

Lemma insert_desc_head_max st x l :
  valid_in st x -> Forall (valid_in st) l -> head_max st l -> head_max st (insert_desc fle st x l).
Proof.
  intros Vx Vl H. destruct l as [|h t]; cbn.
  - intros z [<-|[]]. apply fit_lt_refl; exact Vx.
  - inversion Vl as [|? ? Vh Vt]; subst. destruct (fit_lt fle st x h) eqn:E; cbn.
    + intros z [<-|Hz]; [apply fit_lt_refl; exact Vh|].
      apply insert_desc_In in Hz. destruct Hz as [->|Hz].
      * apply fit_lt_asym; assumption.
      * apply H. right; exact Hz.
    + intros z [<-|[<-|Hz]]; [apply fit_lt_refl; exact Vx|exact E|].
      rewrite Forall_forall in Vt. eapply fit_lt_false_trans; [exact Vx|exact Vh|auto|exact E|].
      apply H. right; exact Hz.
Qed.

Lemma sort_desc_head_max st l : Forall (valid_in st) l -> head_max st (sort_desc fle st l).
Proof.
  induction 1 as [|x r Vx Vr IH]; [exact I|]. unfold sort_desc in *. cbn.
  apply insert_desc_head_max; [exact Vx| |exact IH].
  apply Forall_forall. intros z Hz. apply (sort_desc_In st r z) in Hz. rewrite Forall_forall in Vr. auto.
Qed.

Lemma In_firstn {A} k : forall (l : list A) z, In z (firstn k l) -> In z l.
Proof.
  induction k as [|k IH]; intros l z H; [destruct H|]. destruct l as [|a r]; [destruct H|].
  cbn in H. destruct H as [->|H]; [left; reflexivity|right; apply IH; exact H].
Qed.

Lemma sel_best_incl st l k : incl (sel_best fle st l k) l.
Proof.
  intros z Hz. unfold sel_best in Hz. apply (sort_desc_In st l z).
  eapply In_firstn; exact Hz.
Qed.

Lemma sel_best_length st l k : length (sel_best fle st l k) = Nat.min k (length l).
Proof. unfold sel_best. rewrite firstn_length, sort_desc_length. reflexivity. Qed.

(* truncation selection keeps an individual that is not worse than any given one *)
Lemma sel_best_keeps_best st l k x :
  Forall (valid_in st) l -> 1 <= k -> In x l ->
  exists y, In y (sel_best fle st l k) /\ fit_lt fle st y x = false.
Proof.
  intros V K Hx. pose proof (sort_desc_head_max st l V) as H.
  unfold sel_best. destruct (sort_desc fle st l) as [|h t] eqn:E.
  - exfalso. apply (sort_desc_In st l x) in Hx. rewrite E in Hx. exact Hx.
  - destruct k as [|k]; [lia|]. exists h. split; [left; reflexivity|].
    unfold head_max in H. apply H. rewrite <- E. apply (sort_desc_In st l x). exact Hx.
Qed.

(* mu+lambda with tools.selBest is an instance of mu+lambda (selBest answers with elements of its argument) *)
Lemma step_plus_best_is_plus mu gen s (a : ans) :
  exists idxs,
    step_plus_best evaluate fle mu gen s a = step_plus evaluate fle gen s (mkans idxs (a_off a)) /\
    sel_ok (s_pop s ++ map fst (a_off a)) (Nat.min mu (length (s_pop s ++ map fst (a_off a)))) idxs.
Proof.
  set (st1 := add_objs (s_st s) (a_off a)). set (off := map fst (a_off a)).
  set (st2 := fst (eval_list evaluate st1 (invalid_of st1 off))).
  destruct (incl_select_by (s_pop s ++ off) (sel_best fle st2 (s_pop s ++ off) mu) (sel_best_incl _ _ _))
    as [idxs [E Fi]].
  exists idxs. split.
  - unfold step_plus_best, step_plus. cbn [a_sel a_off]. fold st1 off st2. rewrite E. reflexivity.
  - split; [|exact Fi]. rewrite <- (select_by_length (s_pop s ++ off) idxs), <- E. apply sel_best_length.
Qed.

(* With a mu+lambda generation and truncation selection the best fitness never gets worse:
   every fitness present in the population before is matched or beaten by a member afterwards. *)
Theorem plus_best_elitist mu gen s (a : ans) :
  InvC s -> off_ok (s_st s) (s_pop s) (a_off a) -> 1 <= mu ->
  let s' := step_plus_best evaluate fle mu gen s a in
  forall x i f, In x (s_pop s) -> s_st s x = Some i -> fit i = Some f ->
  exists y iy fy, In y (s_pop s') /\ s_st s' y = Some iy /\ fit iy = Some fy /\ fle f fy = true.
Proof.
  intros I O Mu. cbv zeta. intros x i f Hx Sx Fx.
  unfold step_plus_best. rewrite finish_gen_eq. cbv zeta. cbn.
  set (st1 := add_objs (s_st s) (a_off a)). set (off := map fst (a_off a)).
  set (st2 := fst (eval_list evaluate st1 (invalid_of st1 off))).
  assert (E : extends (s_st s) st1) by (eapply off_ok_extends; exact O).
  assert (Hoff : Forall (honest st1) off).
  { eapply off_ok_honest; [exact O|]. apply pop_truthful_incl; [exact I|apply incl_refl]. }
  assert (T : Forall (truthful st2) (s_pop s ++ off)).
  { apply Forall_app. split; apply Forall_forall; intros u Hu.
    - apply eval_list_keeps_truthful. eapply truthful_extends; [exact E|].
      pose proof (ic_pop s I) as P. rewrite Forall_forall in P. auto.
    - apply eval_invalid_members; [exact Hu|]. rewrite Forall_forall in Hoff. auto. }
  assert (V : Forall (valid_in st2) (s_pop s ++ off)).
  { eapply Forall_impl; [|exact T]. intros u [j [J1 J2]]. exists j; eexists; eauto. }
  destruct (sel_best_keeps_best st2 (s_pop s ++ off) mu x V Mu) as [y [Hy Ly]]; [apply in_or_app; left; exact Hx|].
  assert (Vy : valid_in st2 y).
  { rewrite Forall_forall in V. apply V. eapply sel_best_incl; exact Hy. }
  destruct Vy as [iy [fy [Sy Fy]]].
  assert (Sx2 : st2 x = Some i).
  { unfold st2. rewrite eval_invalid_valid_untouched; [apply E; exact Sx|].
    unfold is_invalid. rewrite (E _ _ Sx), Fx. reflexivity. }
  exists y, iy, fy. split; [exact Hy|]. split; [exact Sy|]. split; [exact Fy|].
  apply (fit_lt_false st2 y x iy i fy f Sy Fy Sx2 Fx). exact Ly.
Qed.

(* the same at every boundary *)
Theorem simple_hof_boundary st pop l1 l2 :
  init_ok st pop ->
  run_ok (step_simple evaluate fle) ans_ok_simple 1 (gen0 evaluate fle (init st pop)) (l1 ++ l2) ->
  InvH (ea_simple evaluate fle st pop l1).
Proof. intros H0 Hok. apply run_ok_app in Hok. apply simple_hof; tauto. Qed.

Theorem plus_hof_boundary mu lam st pop l1 l2 :
  init_ok st pop ->
  run_ok (step_plus evaluate fle) (ans_ok_plus mu lam) 1 (gen0 evaluate fle (init st pop)) (l1 ++ l2) ->
  InvH (ea_plus evaluate fle st pop l1).
Proof. intros H0 Hok. apply run_ok_app in Hok. eapply plus_hof; [exact H0|apply Hok]. Qed.

Theorem comma_hof_boundary mu lam st pop l1 l2 :
  init_ok st pop ->
  run_ok (step_comma evaluate fle) (ans_ok_comma mu lam) 1 (gen0 evaluate fle (init st pop)) (l1 ++ l2) ->
  InvH (ea_comma evaluate fle st pop l1).
Proof. intros H0 Hok. apply run_ok_app in Hok. eapply comma_hof; [exact H0|apply Hok]. Qed.

Theorem gu_hof_boundary l1 l2 :
  run_ok (step_gu evaluate fle) ans_ok_gu 0 (init empty_store []) (l1 ++ l2) ->
  InvH (ea_gu evaluate fle l1).
Proof. intros Hok. apply run_ok_app in Hok. apply gu_hof; tauto. Qed.

Theorem harm_hof_boundary cxpb mutpb nbrindsmodel st pop l1 l2 e :
  init_ok st pop ->
  ea_harm evaluate fle cxpb mutpb nbrindsmodel st pop (l1 ++ l2) = Ok e ->
  exists b, ea_harm evaluate fle cxpb mutpb nbrindsmodel st pop l1 = Ok b /\ InvH b.
Proof.
  intros H0 H. destruct (harm_every_boundary _ _ _ _ _ _ _ _ H0 H) as [b [Hb _]].
  exists b. split; [exact Hb|]. eapply harm_hof; eassumption.
Qed.

(* in one mu+lambda generation with selBest, if mu does not exceed the pool, the contract of
   step_plus holds, so all invariants carry over *)
Lemma ans_ok_plus_best mu lam gen s (a : ans) :
  off_ok (s_st s) (s_pop s) (a_off a) -> length (a_off a) = lam -> mu <= length (s_pop s) + lam ->
  exists idxs, step_plus_best evaluate fle mu gen s a = step_plus evaluate fle gen s (mkans idxs (a_off a)) /\
               ans_ok_plus mu lam s (mkans idxs (a_off a)).
Proof.
  intros O L M. destruct (step_plus_best_is_plus mu gen s a) as [idxs [E [S1 S2]]].
  exists idxs. split; [exact E|]. split; [exact O|]. split; [exact L|]. split; [|exact S2].
  cbn [a_sel a_off]. rewrite S1. rewrite app_length, map_length, L. lia.
Qed.

End Order.

End Proofs.
