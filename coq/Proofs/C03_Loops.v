(* C03 — lemmas and proofs about Model/C03_Loops.v *)
From Coq Require Import List ZArith Bool Arith Lia QArith.
From DV Require Import Model.C03_Loops.
Import ListNotations.
Local Close Scope Q_scope.
Local Open Scope nat_scope.

Section Proofs.
Context {G F : Type}.
Variable evaluate : G -> F.
Variable fle : F -> F -> bool.

Lemma gu_ngen0 : ea_gu evaluate fle [] = init empty_store [].
Proof. reflexivity. Qed.

End Proofs.
