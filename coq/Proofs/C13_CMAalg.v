(* C13 — proofs about the algebraic model (Model/C13_CMAalg.v) and the published equations
   (Model/C13_CMAspec.v).  Everything is over an arbitrary real closed field R, any dimension n,
   any number of parents mu; the oracles exp, ln, eigh, argsort are section variables and every
   theorem lists exactly the hypotheses on them that it uses. *)
From mathcomp Require Import all_ssreflect fingroup perm all_algebra.
From mathcomp Require Import ring.
From DV Require Import Model.C13_CMAalg Model.C13_CMAspec.
Set Implicit Arguments.
Unset Strict Implicit.
Unset Printing Implicit Defensive.
Import GRing.Theory Num.Theory Order.TTheory.
Local Open Scope ring_scope.

Section Proofs.
Variable R : rcfType.
Variables n mu : nat.
Variables exp ln : R -> R.
Variable eigh : 'M[R]_n -> ('rV[R]_n * 'M[R]_n)%type.
Variable argsort : 'rV[R]_n -> 'S_n.
Local Notation params := (params R mu).
Local Notation state := (state R n).

Implicit Types (P : params) (st : state) (X : 'M[R]_(mu, n)).

(* c_diff = sigma * <y>_w  when the weights sum to one *)
Lemma y_w_cdiff P st X :
  s_sigma st != 0 -> \sum_(i < mu) p_weights P 0 i = 1 ->
  p_weights P *m X - s_centroid st = s_sigma st *: y_w P st X.
Proof.
move=> sn0 sw1; rewrite /y_w /y.
have -> : \sum_(i < mu) p_weights P 0 i *: ((s_sigma st)^-1 *: (row i X - s_centroid st))
        = (s_sigma st)^-1 *: (p_weights P *m X - s_centroid st).
  rewrite mulmx_sum_row scalerBr scaler_sumr.
  have -> : \sum_(i < mu) p_weights P 0 i *: ((s_sigma st)^-1 *: (row i X - s_centroid st))
     = \sum_(i < mu) (s_sigma st)^-1 *: (p_weights P 0 i *: row i X)
       - \sum_(i < mu) (s_sigma st)^-1 *: (p_weights P 0 i *: s_centroid st).
    rewrite -sumrB; apply: eq_bigr => i _.
    by rewrite scalerA mulrC -scalerA scalerBr scalerBr.
  congr (_ - _).
  by rewrite -scaler_sumr -scaler_suml sw1 scale1r.
by rewrite scalerA divff // scale1r.
Qed.

Lemma Cinvsqrt_sym st : (Cinvsqrt st)^T = Cinvsqrt st.
Proof. by rewrite /Cinvsqrt !trmx_mul trmxK tr_diag_mx mulmxA. Qed.

(* numpy.dot(B, (1/diagD) * numpy.dot(B.T, v)) = C^{-1/2} v *)
Lemma whitening st (v : 'rV[R]_n) :
  dotMv (s_B st) (emul (einv (s_diagD st)) (dotMv (s_B st)^T v)) = v *m (Cinvsqrt st)^T.
Proof.
rewrite Cinvsqrt_sym /Cinvsqrt /dotMv trmxK !mulmxA; congr (_ *m _).
rewrite mul_mx_diag; apply/rowP => j; rewrite !mxE.
by rewrite mulrC div1r.
Qed.

Lemma rank_mu_sum (w : 'rV[R]_mu) (A : 'M[R]_(mu, n)) :
  rowbcast w A^T *m A = \sum_(k < mu) w 0 k *: ((row k A)^T *m row k A).
Proof.
apply/matrixP => i j; rewrite mxE summxE; apply: eq_bigr => k _.
by rewrite !mxE big_ord1 !mxE mulrA.
Qed.

Lemma subrow_row X (m : 'rV[R]_n) k : row k (subrow X m) = row k X - m.
Proof. by apply/rowP => j; rewrite !mxE. Qed.


Theorem update_is_published P st X :
  s_sigma st != 0 -> \sum_(i < mu) p_weights P 0 i = 1 ->
  let st' := update_sorted exp eigh argsort P st X in
  (s_centroid st', s_ps st', s_pc st', s_C st', s_sigma st') = cma_update exp P st X.
Proof.
move=> sn0 sw1 /=.
have cd := y_w_cdiff X sn0 sw1.
rewrite /update_sorted /cma_update /=.
set c_diff := p_weights P *m X - s_centroid st in cd *.
set yw := y_w P st X in cd *.
(* ps *)
have Eps : (1 - p_cs P) *: s_ps st
     + (Num.sqrt (p_cs P * (2%:R - p_cs P) * p_mueff P) / s_sigma st)
       *: dotMv (s_B st) (emul (einv (s_diagD st)) (dotMv (s_B st)^T c_diff))
   = (1 - p_cs P) *: s_ps st
     + Num.sqrt (p_cs P * (2%:R - p_cs P) * p_mueff P) *: (yw *m (Cinvsqrt st)^T).
  congr (_ + _); rewrite whitening cd -scalemxAl scalerA.
  by rewrite -mulrA mulVf // mulr1.
rewrite Eps.
set ps' := (1 - p_cs P) *: s_ps st + _.
have -> : hsig_of P (s_count st) ps' =
   (if norm ps' / Num.sqrt (1 - (1 - p_cs P) ^+ (2 * (s_count st + 1))) / p_chiN P
       < 14%:R / 10%:R + 2%:R / (n%:R + 1) then 1 else 0) by [].
set hs : R := if _ then 1 else 0.
have Epc : (1 - p_cc P) *: s_pc st
      + (hs * Num.sqrt (p_cc P * (2%:R - p_cc P) * p_mueff P) / s_sigma st) *: c_diff
    = (1 - p_cc P) *: s_pc st
      + (hs * Num.sqrt (p_cc P * (2%:R - p_cc P) * p_mueff P)) *: yw.
  by congr (_ + _); rewrite cd scalerA -mulrA mulVf // mulr1.
rewrite Epc.
set pc' := (1 - p_cc P) *: s_pc st + _.
congr (_, _, _, _, _).
- by rewrite -cd /c_diff addrC subrK.
- rewrite /outer rank_mu_sum.
  have -> : s_sigma st ^- 2 *: (p_ccovmu P *: (\sum_(k < mu) p_weights P 0 k *:
               ((row k (subrow X (s_centroid st)))^T *m row k (subrow X (s_centroid st)))))
          = p_ccovmu P *: (\sum_(i < mu) p_weights P 0 i *: ((y st X i)^T *m y st X i)).
    rewrite scalerA mulrC -scalerA; congr (_ *: _).
    rewrite scaler_sumr; apply: eq_bigr => k _.
    rewrite /y subrow_row scalerA mulrC -scalerA; congr (_ *: _).
    by rewrite linearZ /= linearZ /= -scalemxAl scalerA -invfM -expr2.
  congr (_ + _).
  rewrite scalerDr scalerA [in RHS]addrCA -scalerDl addrC; congr (_ + _ *: _).
  by ring.
- by congr (_ * exp _); rewrite [RHS]mulrC mulrA.
Qed.


(* ---- consistency clauses ------------------------------------------------------------------ *)
Theorem centroid_is_weighted_mean P st X :
  s_centroid (update_sorted exp eigh argsort P st X) = \sum_(i < mu) p_weights P 0 i *: row i X.
Proof. by rewrite /update_sorted /= mulmx_sum_row. Qed.

Lemma sym_outer (u : 'rV[R]_n) : (u^T *m u)^T = u^T *m u.
Proof. by rewrite trmx_mul trmxK. Qed.

Lemma sym_combination (C : 'M[R]_n) (a b c d : R) (u : 'rV[R]_n) (w : 'rV[R]_mu) (A : 'M[R]_(mu, n)) :
  C^T = C ->
  (a *: C + b *: outer u u + c *: (d *: (rowbcast w A^T *m A)))^T
  = a *: C + b *: outer u u + c *: (d *: (rowbcast w A^T *m A)).
Proof.
move=> symC; rewrite rank_mu_sum /outer.
have symS : (\sum_(k < mu) w 0 k *: ((row k A)^T *m row k A))^T
            = \sum_(k < mu) w 0 k *: ((row k A)^T *m row k A).
  rewrite raddf_sum /=; apply: eq_bigr => k _.
  by rewrite linearZ /= sym_outer.
by rewrite !scalerA !linearD /= !linearZ /= symC sym_outer symS.
Qed.

Theorem C_symmetric_preserved P st X :
  (s_C st)^T = s_C st ->
  (s_C (update_sorted exp eigh argsort P st X))^T = s_C (update_sorted exp eigh argsort P st X).
Proof. by move=> symC; rewrite /update_sorted /=; exact: sym_combination. Qed.

Theorem sigma_pos P st X :
  (forall x, 0 < exp x) -> 0 < s_sigma st ->
  0 < s_sigma (update_sorted exp eigh argsort P st X).
Proof. by move=> ex sp; rewrite /update_sorted /= mulr_gt0. Qed.

(* ---- the eigendecomposition ---------------------------------------------------------------- *)
Definition eigh_contract (C : 'M[R]_n) (e : 'rV[R]_n * 'M[R]_n) : Prop :=
  e.2 *m diag_mx e.1 *m e.2^T = C /\ e.2^T *m e.2 = 1%:M.

Definition psd (C : 'M[R]_n) : Prop := forall v : 'rV[R]_n, 0 <= (v *m C *m v^T) 0 0.
Definition pd (C : 'M[R]_n) : Prop := forall v : 'rV[R]_n, v != 0 -> 0 < (v *m C *m v^T) 0 0.

Lemma mx11_mul (a b : 'M[R]_1) : (a *m b) 0 0 = a 0 0 * b 0 0.
Proof. by rewrite mxE big_ord1. Qed.

Lemma quad_outer (v u : 'rV[R]_n) : (v *m (u^T *m u) *m v^T) 0 0 = ((v *m u^T) 0 0) ^+ 2.
Proof.
rewrite mulmxA -mulmxA mx11_mul expr2; congr (_ * _).
by rewrite -[u *m v^T]trmxK trmx_mul trmxK mxE.
Qed.

(* eigenvalue j is the quadratic form of C on the j-th eigenvector *)
Lemma eigenvalue_quad C e j :
  eigh_contract C e -> e.1 0 j = (row j e.2^T *m C *m (row j e.2^T)^T) 0 0.
Proof.
case=> [<- orth].
have rj : row j e.2^T *m e.2 = delta_mx 0 j by rewrite -row_mul orth; apply/rowP => k; rewrite !mxE eqxx eq_sym.
rewrite !mulmxA rj -(mulmxA _ e.2^T) -trmx_mul rj.
by rewrite -rowE trmx_delta -colE !mxE eqxx mulr1n.
Qed.


Lemma eigenvalues_nonneg C e : eigh_contract C e -> psd C -> forall j, 0 <= e.1 0 j.
Proof. by move=> ec ps j; rewrite (eigenvalue_quad j ec). Qed.

Lemma eigenvalues_pos C e : eigh_contract C e -> pd C -> forall j, 0 < e.1 0 j.
Proof.
move=> ec ps j; rewrite (eigenvalue_quad j ec); apply: ps.
case: ec => _ orth; apply/eqP => r0.
have : row j e.2^T *m e.2 = 0 by rewrite r0 mul0mx.
rewrite -row_mul orth => /rowP /(_ j); rewrite !mxE eqxx => /eqP.
by rewrite oner_eq0.
Qed.

Section Decompose.
Variables (C : 'M[R]_n) (e : 'rV[R]_n * 'M[R]_n).
Hypothesis ec : eigh_contract C e.
Hypothesis wge0 : forall j, 0 <= e.1 0 j.
Let diagD := (decompose argsort e).1.1.
Let B := (decompose argsort e).1.2.
Let BD := (decompose argsort e).2.

Lemma decompose_orth : B^T *m B = 1%:M.
Proof.
case: ec => _ orth; apply/matrixP => i k; rewrite !mxE.
have := congr1 (fun M : 'M[R]_n => M (argsort e.1 i) (argsort e.1 k)) orth.
rewrite !mxE (inj_eq perm_inj) => <-.
by apply: eq_bigr => j _; rewrite !mxE.
Qed.

Lemma decompose_reproduces : B *m diag_mx (\row_j (diagD 0 j) ^+ 2) *m B^T = C.
Proof.
case: ec => <- _; rewrite !mul_mx_diag; apply/matrixP => i k; rewrite !mxE.
rewrite [RHS](reindex_inj (@perm_inj _ (argsort e.1))) /=.
by apply: eq_bigr => j _; rewrite !mxE sqr_sqrtr.
Qed.

Lemma decompose_BD : BD = B *m diag_mx diagD.
Proof. by rewrite mul_mx_diag. Qed.

Lemma decompose_sample_factor : BD *m BD^T = C.
Proof.
rewrite decompose_BD trmx_mul tr_diag_mx mulmxA -(mulmxA B) mulmx_diag -decompose_reproduces.
by congr (_ *m diag_mx _ *m _); apply/rowP => j; rewrite !mxE expr2.
Qed.

Lemma decompose_diagD_ge0 j : 0 <= diagD 0 j.
Proof. by rewrite !mxE sqrtr_ge0. Qed.

Lemma decompose_diagD_gt0 j : (forall j, 0 < e.1 0 j) -> 0 < diagD 0 j.
Proof. by move=> wpos; rewrite !mxE sqrtr_gt0. Qed.
End Decompose.


(* ---- positive (semi)definiteness is preserved ------------------------------------------------ *)
Definition quad (v : 'rV[R]_n) (M : 'M[R]_n) : R := (v *m M *m v^T) 0 0.

Lemma quadD v M N : quad v (M + N) = quad v M + quad v N.
Proof. by rewrite /quad mulmxDr mulmxDl mxE. Qed.
Lemma quadZ v a M : quad v (a *: M) = a * quad v M.
Proof. by rewrite /quad -scalemxAr -scalemxAl mxE. Qed.
Lemma quad_sum v (F : 'I_mu -> 'M[R]_n) : quad v (\sum_k F k) = \sum_k quad v (F k).
Proof. by rewrite /quad mulmx_sumr mulmx_suml summxE. Qed.

Lemma quad_combination (C : 'M[R]_n) (a b c d : R) (u : 'rV[R]_n) (w : 'rV[R]_mu)
                       (A : 'M[R]_(mu, n)) v :
  quad v (a *: C + b *: outer u u + c *: (d *: (rowbcast w A^T *m A)))
  = a * quad v C + b * ((v *m u^T) 0 0) ^+ 2
    + c * (d * \sum_(k < mu) w 0 k * ((v *m (row k A)^T) 0 0) ^+ 2).
Proof.
rewrite rank_mu_sum !quadD !quadZ quad_sum /outer {2}/quad quad_outer.
congr (_ + _ + _ * (_ * _)); apply: eq_bigr => k _.
by rewrite quadZ /quad quad_outer.
Qed.

Lemma hsig_01 P c (ps : 'rV[R]_n) : hsig_of P c ps = 0 \/ hsig_of P c ps = 1.
Proof. by rewrite /hsig_of; case: ifP; [right|left]. Qed.

(* coefficient of the old C in the update is non-negative for admissible learning rates *)
Lemma decay_ge0 P (h : R) :
  (h = 0 \/ h = 1) -> 0 <= p_ccov1 P -> 0 <= p_cc P <= 2%:R -> p_ccov1 P + p_ccovmu P <= 1 ->
  0 <= 1 - p_ccov1 P - p_ccovmu P + (1 - h) * p_ccov1 P * p_cc P * (2%:R - p_cc P).
Proof.
move=> h01 c1 /andP [cc0 cc2] le1.
apply: addr_ge0; first by rewrite -addrA -opprD subr_ge0.
apply: mulr_ge0; last by rewrite subr_ge0.
apply: mulr_ge0 => //; apply: mulr_ge0 => //.
by case: h01 => ->; rewrite ?subr0 ?subrr ?ler01.
Qed.

Lemma decay_gt0 P (h : R) :
  (h = 0 \/ h = 1) -> 0 <= p_ccov1 P -> 0 <= p_cc P <= 2%:R -> p_ccov1 P + p_ccovmu P < 1 ->
  0 < 1 - p_ccov1 P - p_ccovmu P + (1 - h) * p_ccov1 P * p_cc P * (2%:R - p_cc P).
Proof.
move=> h01 c1 /andP [cc0 cc2] lt1.
apply: ltr_paddr; last by rewrite -addrA -opprD subr_gt0.
apply: mulr_ge0; last by rewrite subr_ge0.
apply: mulr_ge0 => //; apply: mulr_ge0 => //.
by case: h01 => ->; rewrite ?subr0 ?subrr ?ler01.
Qed.

Definition rates_ok P : Prop :=
  [/\ 0 <= p_ccov1 P, 0 <= p_ccovmu P, 0 <= p_cc P <= 2%:R & forall i, 0 <= p_weights P 0 i].

Lemma tail_ge0 P st (b c d : R) (u v : 'rV[R]_n) (A : 'M[R]_(mu, n)) :
  0 <= b -> 0 <= c -> 0 <= d -> (forall i, 0 <= p_weights P 0 i) ->
  0 <= b * ((v *m u^T) 0 0) ^+ 2
       + c * (d * \sum_(k < mu) p_weights P 0 k * ((v *m (row k A)^T) 0 0) ^+ 2).
Proof.
move=> b0 c0 d0 w0; apply: addr_ge0; first by rewrite mulr_ge0 // sqr_ge0.
rewrite !mulr_ge0 //; apply: sumr_ge0 => k _.
by rewrite mulr_ge0 // sqr_ge0.
Qed.

Theorem C_psd_preserved P st X :
  rates_ok P -> p_ccov1 P + p_ccovmu P <= 1 -> psd (s_C st) ->
  psd (s_C (update_sorted exp eigh argsort P st X)).
Proof.
case=> c1 cmu cc w0 le1 psC v; rewrite /update_sorted /= -/(quad v _) quad_combination.
rewrite -addrA; apply: addr_ge0.
  by apply: mulr_ge0 (psC v); apply: decay_ge0 => //; exact: hsig_01.
by apply: (tail_ge0 st) => //; rewrite invr_ge0 sqr_ge0.
Qed.

Theorem C_pd_preserved P st X :
  rates_ok P -> p_ccov1 P + p_ccovmu P < 1 -> pd (s_C st) ->
  pd (s_C (update_sorted exp eigh argsort P st X)).
Proof.
case=> c1 cmu cc w0 lt1 pdC v vn0; rewrite /update_sorted /= -/(quad v _) quad_combination.
rewrite -addrA; apply: ltr_paddr.
  by apply: (tail_ge0 st) => //; rewrite invr_ge0 sqr_ge0.
by apply: mulr_gt0 (pdC v vn0); apply: decay_gt0 => //; exact: hsig_01.
Qed.


(* ---- the state invariant: what "stays consistent" means ------------------------------------- *)
Definition consistent (st : state) : Prop :=
  [/\ (s_C st)^T = s_C st,
      s_B st *m diag_mx (\row_j (s_diagD st 0 j) ^+ 2) *m (s_B st)^T = s_C st,
      (s_B st)^T *m s_B st = 1%:M,
      s_BD st *m (s_BD st)^T = s_C st &
      0 < s_sigma st].

(* hypothesis on the oracle: numpy.linalg.eigh satisfies its contract on the matrix it is given *)
Definition eigh_ok (C : 'M[R]_n) : Prop := eigh_contract C (eigh C).

Theorem update_consistent P st X :
  (forall x, 0 < exp x) -> rates_ok P -> p_ccov1 P + p_ccovmu P <= 1 ->
  psd (s_C st) -> consistent st ->
  eigh_ok (s_C (update_sorted exp eigh argsort P st X)) ->
  consistent (update_sorted exp eigh argsort P st X) /\ psd (s_C (update_sorted exp eigh argsort P st X)).
Proof.
move=> ex rk le1 psC [symC _ _ _ sp] ec.
have psC' := C_psd_preserved X rk le1 psC.
have w0 := eigenvalues_nonneg ec psC'.
split=> //; split.
- exact: C_symmetric_preserved.
- exact: (decompose_reproduces ec w0).
- exact: (decompose_orth ec).
- exact: (decompose_sample_factor ec w0).
- exact: sigma_pos.
Qed.

(* strict version: diagD stays positive, so 1/diagD in the next update is defined *)
Theorem update_diagD_pos P st X :
  rates_ok P -> p_ccov1 P + p_ccovmu P < 1 -> pd (s_C st) ->
  eigh_ok (s_C (update_sorted exp eigh argsort P st X)) ->
  forall j, 0 < s_diagD (update_sorted exp eigh argsort P st X) 0 j.
Proof.
move=> rk lt1 pdC ec j.
have pdC' := C_pd_preserved X rk lt1 pdC.
by rewrite /update_sorted /= !mxE sqrtr_gt0 (eigenvalues_pos ec pdC').
Qed.

(* B D^-1 B^T is the inverse square root of C *)
Theorem Cinvsqrt_correct st :
  consistent st -> (forall j, s_diagD st 0 j != 0) ->
  Cinvsqrt st *m s_C st *m Cinvsqrt st = 1%:M.
Proof.
case=> _ rep orth _ _ dn0; rewrite /Cinvsqrt -rep.
have orth' : s_B st *m (s_B st)^T = 1%:M by apply: mulmx1C.
rewrite !mulmxA -(mulmxA _ (s_B st)^T (s_B st)) orth mulmx1.
rewrite -(mulmxA _ (s_B st)^T (s_B st)) orth mulmx1.
rewrite -(mulmxA (s_B st)) mulmx_diag -(mulmxA (s_B st)) mulmx_diag.
have -> : \row_j ((\row_j0 ((\row_j1 (s_diagD st 0 j1)^-1) 0 j0 * (\row_j1 s_diagD st 0 j1 ^+ 2) 0 j0)) 0 j
                   * (\row_j0 (s_diagD st 0 j0)^-1) 0 j) = const_mx 1 :> 'rV[R]_n.
  apply/rowP => j; rewrite !mxE expr2 mulrA mulVf // mul1r mulfV //.
by rewrite diag_const_mx mulmx1.
Qed.


(* ---- construction and whole runs -------------------------------------------------------------- *)
Theorem init_consistent centroid sigma cmatrix k :
  0 < sigma ->
  let C0 := if cmatrix is Some C0 then C0 else 1%:M in
  C0^T = C0 -> psd C0 -> eigh_ok C0 ->
  consistent (@init R n mu ln eigh argsort centroid sigma cmatrix k).2.
Proof.
move=> sp C0 symC psC ec; rewrite /init /= -/C0.
have w0 := eigenvalues_nonneg ec psC.
split=> //=.
- exact: (decompose_reproduces ec w0).
- exact: (decompose_orth ec).
- exact: (decompose_sample_factor ec w0).
Qed.

Lemma psd1 : psd 1%:M.
Proof. by move=> v; rewrite mulmx1 mxE; apply: sumr_ge0 => j _; rewrite !mxE -expr2 sqr_ge0. Qed.

(* a run: the strategy is fed the (already sorted, truncated) populations one after the other *)
Definition run P st (Xs : seq 'M[R]_(mu, n)) : state := foldl (update_sorted exp eigh argsort P) st Xs.

Theorem run_consistent P st Xs :
  (forall x, 0 < exp x) -> rates_ok P -> p_ccov1 P + p_ccovmu P <= 1 ->
  (forall C, C^T = C -> psd C -> eigh_ok C) ->
  psd (s_C st) -> consistent st ->
  consistent (run P st Xs) /\ psd (s_C (run P st Xs)).
Proof.
move=> ex rk le1 eo; elim: Xs st => [|X Xs IH] st psC cst //=.
have symC' := C_symmetric_preserved P X (let: And5 h _ _ _ _ := cst in h).
have psC' := C_psd_preserved X rk le1 psC.
have [cst' _] := update_consistent ex rk le1 psC cst (eo _ symC' psC').
exact: IH.
Qed.

(* ---- sampling ----------------------------------------------------------------------------------- *)
(* every sample is centroid + z A^T for the factor A = sigma BD, and A A^T = sigma^2 C *)
Theorem sample_cov lambda_ st (arz : 'M[R]_(lambda_, n)) :
  consistent st ->
  let A := s_sigma st *: s_BD st in
  (forall i, row i (generate st arz) = s_centroid st + row i arz *m A^T) /\
  A *m A^T = (s_sigma st) ^+ 2 *: s_C st.
Proof.
case=> _ _ _ bd _ A; split.
  move=> i; apply/rowP => j; rewrite !mxE; congr (_ + _).
  rewrite mulr_sumr; apply: eq_bigr => l _.
  by rewrite /A !mxE mulrCA.
by rewrite /A linearZ /= -scalemxAr -scalemxAl scalerA -expr2 bd.
Qed.


(* ---- sorting: order independence, "the mu best" ---------------------------------------------- *)
Lemma uniq_map_inj (T1 T2 : eqType) (f : T1 -> T2) (s : seq T1) :
  uniq (map f s) -> {in s &, injective f}.
Proof.
elim: s => [|a s IH] //= /andP [na un] x y; rewrite !inE.
case/orP=> [/eqP->|xs]; case/orP=> [/eqP->|ys] //.
- by move=> e; case/negP: na; rewrite e; exact: map_f.
- by move=> e; case/negP: na; rewrite -e; exact: map_f.
- exact: IH.
Qed.

Section Sorting.
Variables (disp : unit) (K : orderType disp).
Implicit Types pop : seq (K * 'rV[R]_n).

Lemma better_total : total (@better R n disp K).
Proof. by move=> a b; rewrite /better le_total. Qed.
Lemma better_trans : transitive (@better R n disp K).
Proof. by move=> b a c; rewrite /better => h1 h2; exact: le_trans h2 h1. Qed.

Theorem sort_order_independent pop1 pop2 :
  perm_eq pop1 pop2 -> uniq [seq p.1 | p <- pop1] -> sort_pop pop1 = sort_pop pop2.
Proof.
move=> pe un; apply/perm_sort_inP => //.
- by move=> a b _ _; exact: better_total.
- by move=> b a c _ _ _; exact: better_trans.
- move=> a b ain bin; rewrite /better => /andP [h1 h2].
  by apply: (uniq_map_inj un) => //; apply/eqP; rewrite eq_le h1 h2.
Qed.

Theorem update_order_independent P st pop1 pop2 :
  perm_eq pop1 pop2 -> uniq [seq p.1 | p <- pop1] ->
  update exp eigh argsort P st pop1 = update exp eigh argsort P st pop2.
Proof. by move=> pe un; rewrite /update /best_mu (sort_order_independent pe un). Qed.

(* the complete update (sort, truncate, recombine, adapt) produces the published quantities for
   the mu best individuals *)
Corollary update_pop_is_published P st pop :
  s_sigma st != 0 -> \sum_(i < mu) p_weights P 0 i = 1 ->
  let st' := update exp eigh argsort P st pop in
  (s_centroid st', s_ps st', s_pc st', s_C st', s_sigma st') = cma_update exp P st (best_mu mu pop).
Proof. by move=> sn0 sw1; rewrite /update; exact: update_is_published. Qed.

(* the rows used by the update are the mu best individuals: the sorted list is a permutation of the
   population, and every earlier element is at least as good as every later one *)
Theorem best_mu_are_best pop (d : K * 'rV[R]_n) :
  perm_eq (sort_pop pop) pop /\
  (forall i : 'I_mu, (i < size pop)%N -> row i (best_mu mu pop) = (nth d (sort_pop pop) i).2) /\
  (forall i j, (i <= j < size pop)%N -> ((nth d (sort_pop pop) j).1 <= (nth d (sort_pop pop) i).1)%O).
Proof.
split; first by rewrite /sort_pop perm_sort.
split.
  move=> i isz; apply/rowP => j; rewrite !mxE.
  by rewrite (nth_map d) ?size_sort.
move=> i j /andP [ij jsz].
have srt : sorted (@better R n disp K) (sort_pop pop) by apply: sort_sorted; exact: better_total.
have := sorted_leq_nth better_trans _ d srt i j.
rewrite !inE size_sort; apply=> //.
- by move=> x; rewrite /better lexx.
- exact: leq_ltn_trans ij jsz.
Qed.
End Sorting.


(* ---- recombination weights and documented defaults -------------------------------------------- *)
Section Weights.
Hypothesis ln_mono : forall x y : R, 0 < x -> x < y -> ln x < ln y.
Hypothesis mu_pos : (0 < mu)%N.

Lemma half_gt0 : 0 < half R. Proof. by rewrite /half divr_gt0 ?ltr01 ?ltr0n. Qed.

Lemma raw_weight_pos s i : (i < mu)%N -> 0 < raw_weight mu ln s i.
Proof.
move=> imu; case: s => /=; last exact: ltr01.
- rewrite subr_gt0; apply: ln_mono; first by rewrite ltr0n.
  by apply: le_lt_trans (_ : _ <= mu%:R) _; rewrite ?ler_nat // ltr_addl half_gt0.
- rewrite subr_gt0; apply: le_lt_trans (_ : _ <= mu%:R) _; first by rewrite ler_nat.
  by rewrite ltr_addl half_gt0.
Qed.

Lemma raw_weight_noninc s i j : (i <= j)%N -> raw_weight mu ln s j <= raw_weight mu ln s i.
Proof.
rewrite leq_eqVlt => /orP [/eqP-> //|ij]; case: s => //=.
- by rewrite ler_sub // ltW // ln_mono ?ltr0n // ltr_nat.
- by rewrite ler_sub // ler_nat ltnW.
Qed.

Lemma raw_sum_pos s : 0 < \sum_(i < mu) raw_weight mu ln s i.
Proof.
case: mu mu_pos raw_weight_pos => // m _ rp.
rewrite big_ord_recl; apply: ltr_paddr; last exact: rp.
by apply: sumr_ge0 => i _; apply: ltW; apply: rp.
Qed.

Theorem weights_pos_noninc_sum1 chiN k :
  let w := p_weights (@compute_params R n mu ln chiN k) in
  [/\ forall i, 0 < w 0 i,
      forall i j : 'I_mu, (i <= j)%N -> w 0 j <= w 0 i &
      \sum_(i < mu) w 0 i = 1].
Proof.
rewrite /compute_params /=; set s := k_weights k.
have sp := raw_sum_pos s.
have E : \sum_(i < mu) (\row_(i0 < mu) raw_weight mu ln s i0) 0 i = \sum_(i < mu) raw_weight mu ln s i.
  by apply: eq_bigr => i _; rewrite mxE.
split.
- by move=> i; rewrite !mxE E divr_gt0 // raw_weight_pos.
- by move=> i j ij; rewrite !mxE E ler_pmul2r ?invr_gt0 // raw_weight_noninc.
- rewrite -[RHS](@divff _ (\sum_(i < mu) raw_weight mu ln s i)); last by rewrite gt_eqF.
  by rewrite mulr_suml; apply: eq_bigr => i _; rewrite !mxE E.
Qed.

(* with nothing supplied by the user, computeParams yields the documented defaults *)
Theorem computeParams_is_documented s :
  @compute_params R n mu ln (chiN_of R n) (mkKargs s None None None None None)
  = default_params n mu ln s.
Proof.
have [_ _ sw1] := weights_pos_noninc_sum1 (chiN_of R n) (mkKargs s None None None None None).
rewrite /compute_params /default_params /= in sw1 *.
set w := \row_(i < mu) _ in sw1 *.
have -> : weights mu ln s = w.
  by apply/rowP => i; rewrite !mxE; congr (_ / _); apply: eq_bigr => j _; rewrite mxE.
have -> : mueff w = 1 / \sum_(i < mu) w 0 i ^+ 2 by rewrite /mueff sw1 expr1n.
by [].
Qed.
Section Defaults.
Hypothesis n_pos : (0 < n)%N.

Lemma sum_gt0 (F : 'I_mu -> R) : (forall i, 0 < F i) -> 0 < \sum_i F i.
Proof.
case: mu mu_pos F => // m _ F Fp.
by rewrite big_ord_recl; apply: ltr_paddr (Fp _); apply: sumr_ge0 => i _; exact: ltW.
Qed.

Lemma two_le_sq : 2%:R <= (n%:R + 13%:R / 10%:R) ^+ 2 :> R.
Proof.
have h : (23%:R / 10%:R : R) <= n%:R + 13%:R / 10%:R.
  have -> : (23%:R / 10%:R : R) = 1 + 13%:R / 10%:R by field.
  by rewrite ler_add2r ler1n.
apply: le_trans (_ : (23%:R / 10%:R) ^+ 2 <= _).
  by rewrite expr_div_n ler_pdivl_mulr ?exprn_gt0 ?ltr0n // -!natrX -natrM ler_nat.
rewrite ler_expn2r // nnegrE ?divr_ge0 ?ler0n //.
by apply: le_trans h; rewrite divr_ge0 ?ler0n.
Qed.

Lemma weights_spec_pos s (i : 'I_mu) : 0 < weights mu ln s 0 i /\ \sum_(j < mu) weights mu ln s 0 j = 1.
Proof.
have [wpos _ sw1] := weights_pos_noninc_sum1 (chiN_of R n) (mkKargs s None None None None None).
have Ew : p_weights (compute_params n mu ln (chiN_of R n) (mkKargs s None None None None None)) = weights mu ln s.
  rewrite /compute_params /weights /=; apply/rowP => j; rewrite !mxE; congr (_ / _).
  by apply: eq_bigr => l _; rewrite mxE.
by rewrite -Ew; split.
Qed.

Lemma mueff_gt0 s : 0 < mueff (weights mu ln s).
Proof.
rewrite /mueff divr_gt0 //.
  by rewrite exprn_gt0 // sum_gt0 // => i; case: (weights_spec_pos s i).
by apply: sum_gt0 => i; rewrite exprn_gt0 //; case: (weights_spec_pos s i).
Qed.

(* the documented defaults are admissible rates: the hypotheses of C_psd_preserved / run_consistent
   hold for them *)
Theorem default_rates_admissible s :
  let P := default_params n mu ln s in
  rates_ok P /\ p_ccov1 P + p_ccovmu P <= 1.
Proof.
rewrite /default_params /=.
set me := mueff (weights mu ln s).
have me0 : 0 < me by exact: mueff_gt0.
have den1 : 0 < (n%:R + 13%:R / 10%:R) ^+ 2 + me by rewrite ltr_paddl ?sqr_ge0.
have c1_ge0 : 0 <= ccov1_default n me by rewrite /ccov1_default divr_ge0 ?ler0n // ltW.
have c1_le1 : ccov1_default n me <= 1.
  rewrite /ccov1_default ler_pdivr_mulr // mul1r.
  by apply: le_trans two_le_sq _; rewrite ler_addl ltW.
have cmu0_ge0 : 0 <= ccovmu_default n me.
  rewrite /ccovmu_default divr_ge0 //; last by rewrite addr_ge0 ?sqr_ge0 // ltW.
  rewrite mulr_ge0 ?ler0n //.
  have -> : me - 2%:R + 1 / me = (me - 1) ^+ 2 / me by field; rewrite gt_eqF.
  by rewrite divr_ge0 ?sqr_ge0 // ltW.
split; last by rewrite addrC -ler_subr_addr le_minl lexx.
split=> //.
- by rewrite le_minr subr_ge0 c1_le1 cmu0_ge0.
- rewrite /cc_default divr_ge0 ?ler0n ?addr_ge0 ?ler0n ?ler01 //=.
  rewrite ler_pdivr_mulr; last by rewrite ltr_paddl ?ler0n ?ltr0n.
  by rewrite -natrD -natrM ler_nat mulnDr (leq_trans _ (leq_addl _ _)).
- by move=> i; apply: ltW; case: (weights_spec_pos s i).
Qed.

(* a strategy built with the documented defaults stays consistent over every run *)
Theorem default_run_consistent s centroid sigma cmatrix (Xs : seq 'M[R]_(mu, n)) :
  (forall x, 0 < exp x) -> 0 < sigma ->
  let C0 := if cmatrix is Some C0 then C0 else 1%:M in
  C0^T = C0 -> psd C0 ->
  (forall C, C^T = C -> psd C -> eigh_ok C) ->
  let Pst := @init R n mu ln eigh argsort centroid sigma cmatrix (mkKargs s None None None None None) in
  consistent (run Pst.1 Pst.2 Xs).
Proof.
move=> ex sp C0 symC psC eo /=.
rewrite computeParams_is_documented.
have [rk le1] := default_rates_admissible s.
have cst := @init_consistent centroid sigma cmatrix (mkKargs s None None None None None) sp symC psC (eo _ symC psC).
set st0 := (init _ _ _ _ _ _ _ _).2 in cst *.
by have [] := @run_consistent _ st0 Xs ex rk le1 eo psC cst.
Qed.
End Defaults.
End Weights.

End Proofs.

(* ---- non-vacuity: in dimension 1 every hypothesis used above is satisfiable ------------------- *)
Section NonVacuous.
Variable R : rcfType.
Definition eigh1 (C : 'M[R]_1) : 'rV[R]_1 * 'M[R]_1 := (C, 1%:M).
Definition argsort1 (w : 'rV[R]_1) : 'S_1 := 1%g.
Definition P1 : params R 1 := mkParams (const_mx 1) 1 (1 / 2%:R) (1 / 2%:R) (1 / 4%:R) (1 / 4%:R) 1 1.
Definition st1 : state R 1 := mkState 0 1 0 0 1%:M 1%:M (const_mx 1) 1%:M 0.

Lemma eigh1_ok (C : 'M[R]_1) : eigh_contract C (eigh1 C).
Proof.
split; last by rewrite /= trmx1 mulmx1.
rewrite /= trmx1 mulmx1 mul1mx; apply/matrixP => i j.
by rewrite !ord1 !mxE eqxx mulr1n.
Qed.

Lemma st1_consistent : consistent st1.
Proof.
split; rewrite /= ?trmx1 ?mulmx1 ?mul1mx ?ltr01 //.
by apply/matrixP => i j; rewrite !ord1 !mxE eqxx expr1n mulr1n.
Qed.

Lemma P1_rates : rates_ok P1 /\ p_ccov1 P1 + p_ccovmu P1 < 1 /\ \sum_(i < 1) p_weights P1 0 i = 1.
Proof.
split; last split.
- split=> /=; rewrite ?divr_ge0 ?ler01 ?ler0n //.
    by rewrite ler_pdivr_mulr ?ltr0n // -natrM ler1n.
  by move=> i; rewrite mxE ler01.
- rewrite /= -mulrDl ltr_pdivr_mulr ?ltr0n // mul1r -[1 + 1]/(2%:R) ltr_nat //.
- by rewrite big_ord1 mxE.
Qed.
End NonVacuous.
