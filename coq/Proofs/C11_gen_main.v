(* Tie (T) of property C11, second half: the C11 theorems transferred to the definitions regenerated from
   deap/gp.py (Gen/C11_gen.v) through the equalities of Proofs/C11_gen_equiv.v.
   What is regenerated from the source is reported by harness/c11.py (a function the translator refused is a
   placeholder for the hand model; its transferred theorems then say nothing beyond Props/C11.v). *)
From Coq Require Import List ZArith NArith Bool Lia.
From DV Require Import Base.PyList Model.C11_GPTree Model.C11_GenRt Proofs.C11_Tree Proofs.C11_Gen Proofs.C11_Ops
  Proofs.C11_Cx Proofs.C11_Safe Proofs.C11_Main Proofs.C11_GenRt Gen.C11_gen Proofs.C11_gen_equiv.
Import ListNotations.
Local Open Scope Z_scope.

(* ---- every regenerated definition is the model ---- *)
Theorem source_is_model :
  (forall l ds, gen_root l ds = m_root l ds) /\
  (forall l b ds, gen_searchSubtree l b ds = m_searchSubtree l b ds) /\
  (forall l ds, gen_height l ds = m_height l ds) /\
  (forall l key val ds, 0 <= fst key -> 0 <= snd key -> gen_setitem_slice l key val ds = m_setitem_slice l key val ds) /\
  (forall l key val ds, gen_setitem_item l key val ds = m_setitem_item l key val ds) /\
  (forall ps mn mx cond t ds, (forall h, cond_mono (cond h)) ->
     gen_generate ps mn mx cond t ds = m_generate ps mn mx cond t ds) /\
  (forall ps mn mx t ds, gen_genFull ps mn mx t ds = m_genFull ps mn mx t ds) /\
  (forall ps mn mx t ds, gen_genGrow ps mn mx t ds = m_genGrow ps mn mx t ds) /\
  (forall ps mn mx t ds, gen_genHalfAndHalf ps mn mx t ds = m_genHalfAndHalf ps mn mx t ds) /\
  (forall l ds, gen_mutShrink l ds = m_mutShrink l ds) /\
  (forall l ps ds, gen_mutInsert l ps ds = m_mutInsert l ps ds) /\
  (forall l ps ds, gen_mutNodeReplacement l ps ds = m_mutNodeReplacement l ps ds) /\
  (forall l mode ds, gen_mutEphemeral l mode ds = m_mutEphemeral l mode ds) /\
  (forall l expr ps ds, gen_mutUniform l expr ps ds = m_mutUniform l expr ps ds) /\
  (forall l1 l2 ds, gen_cxOnePoint l1 l2 ds = m_cxOnePoint l1 l2 ds) /\
  (forall l1 l2 termpb ds, gen_cxOnePointLeafBiased l1 l2 termpb ds = m_cxOnePointLeafBiased l1 l2 termpb ds) /\
  (forall key maxv func args ds, gen_staticLimit key maxv func args ds = m_staticLimit key maxv func args ds).
Proof.
  (* [apply conj], not [split]: a conjunct about a refused function is an equation that holds by computation, which
     [split] would close by itself and shift the bullets *)
  repeat apply conj; intros.
  - apply gen_root_eq.
  - apply gen_searchSubtree_eq.
  - apply gen_height_eq.
  - now apply gen_setitem_slice_eq.
  - apply gen_setitem_item_eq.
  - now apply gen_generate_eq.
  - apply gen_genFull_eq.
  - apply gen_genGrow_eq.
  - apply gen_genHalfAndHalf_eq.
  - apply gen_mutShrink_eq.
  - apply gen_mutInsert_eq.
  - apply gen_mutNodeReplacement_eq.
  - apply gen_mutEphemeral_eq.
  - apply gen_mutUniform_eq.
  - apply gen_cxOnePoint_eq.
  - apply gen_cxOnePointLeafBiased_eq.
  - apply gen_staticLimit_eq.
Qed.

(* ---- searchSubtree, height ---- *)
Lemma gen_search_subtree_span c u ds : wft (plug c u) ->
  let l := flatten (plug c u) in let b := length (cpre c) in
  gen_searchSubtree l (Z.of_nat b) ds = Ok ((Z.of_nat b, Z.of_nat (b + size u)), ds) /\
  gen_searchSubtree l (Z.of_nat b - zlen l) ds = Ok ((Z.of_nat b, Z.of_nat (b + size u)), ds) /\
  (forall i, i < - zlen l -> gen_searchSubtree l i ds = Err EIndex).
Proof.
  intro H. cbv zeta. destruct (search_subtree_py_span c u H) as (A & B & C).
  repeat split; intros; rewrite gen_searchSubtree_eq; unfold m_searchSubtree;
    [rewrite A|rewrite B|rewrite C by assumption]; reflexivity.
Qed.

Lemma gen_height_is_depth t ds : wft t ->
  gen_height (flatten t) ds = Ok (theight t, ds) /\
  Forall (fun d => 0 <= d <= theight t) (node_depths 0 t) /\ In (theight t) (node_depths 0 t).
Proof.
  intro H. destruct (height_is_depth t H) as (A & B & C). split; [|split; assumption].
  rewrite gen_height_eq. unfold m_height. now rewrite A.
Qed.

(* ---- generators ---- *)
Lemma gen_gen_expr_eq ps g t ds : gen_gen_expr ps g t ds = gen_expr ps g t ds.
Proof.
  unfold gen_gen_expr, gen_expr. destruct g as [k mn mx]. cbn [g_kind g_min g_max].
  destruct k; [rewrite gen_genFull_eq|rewrite gen_genGrow_eq|rewrite gen_genHalfAndHalf_eq]; reflexivity.
Qed.

Lemma gen_gen_expr_spec sub ps : pset_ok sub ps ->
  forall g ot ds out ds', 0 <= g_min g ->
  gen_gen_expr ps g ot ds = Ok (out, ds') ->
  gen_expr_post sub g (match ot with Some x => x | None => p_ret ps end) out.
Proof. intros Hp g ot ds out ds' H0 H. rewrite gen_gen_expr_eq in H. eapply gen_expr_spec; eauto. Qed.

Lemma gen_gen_expr_err ps g ot ds e : 0 <= g_min g <= g_max g -> gen_gen_expr ps g ot ds = Err e -> benign e.
Proof. intros H0 H. rewrite gen_gen_expr_eq in H. eapply gen_expr_err; eauto. Qed.

(* ---- the operators, as the harness replays them ---- *)
Lemma m_mutUniform_model l (expr : pset -> ty -> M (list node)) g ps ds :
  (forall ps' t ds', expr ps' t ds' = gen_expr ps' g (Some t) ds') ->
  m_mutUniform l expr ps ds = mut_uniform ps g l ds.
Proof.
  intro H. unfold m_mutUniform, mut_uniform, bind.
  destruct (d_randrange 0 (zlen l) ds) as [[zi ds1]|]; [|reflexivity].
  destruct (lift (search_subtree l (Z.to_nat zi)) ds1) as [[s ds2]|]; [|reflexivity].
  destruct (nth_error l (Z.to_nat zi)) as [nd|]; [|reflexivity]. now rewrite H.
Qed.

Lemma gen_run_op_eq ps oc inputs ds : gen_run_op ps oc inputs ds = run_op ps oc inputs ds.
Proof.
  (* no bullets: a case about a refused function (a placeholder for the model) is closed by computation earlier *)
  unfold gen_run_op, run_op. destruct oc; try reflexivity;
    destruct inputs as [|a [|b [|c r]]]; try reflexivity; unfold bind;
    rewrite ?gen_cxOnePoint_eq, ?gen_cxOnePointLeafBiased_eq, ?gen_mutNodeReplacement_eq, ?gen_mutEphemeral_eq,
            ?gen_mutInsert_eq, ?gen_mutShrink_eq, ?gen_mutUniform_eq;
    try reflexivity.
  all: rewrite (m_mutUniform_model a _ g); [reflexivity|]; intros; apply gen_gen_expr_eq.
Qed.

Lemma limit_fold_k_model k maxv (key : list node -> M Z) keep :
  (forall l ds, key l ds = lift (measure k l) ds) ->
  forall outs ds, limit_fold_k key maxv keep outs ds = limit_fold k maxv keep outs ds.
Proof.
  intro H. induction outs as [|o r IH]; intro ds; [reflexivity|]. cbn [limit_fold_k limit_fold].
  unfold bind. rewrite H. destruct (lift (measure k o) ds) as [[m ds1]|]; [|reflexivity].
  destruct ((if maxv <? m then d_choice keep else ret o) ds1) as [[o' ds2]|]; [|reflexivity].
  now rewrite IH.
Qed.

Lemma gen_key_eq k l ds : gen_key k l ds = lift (measure k l) ds.
Proof. destruct k; cbn [gen_key measure]; [apply gen_height_eq|reflexivity]. Qed.

Lemma gen_static_limit_eq k maxv op inputs ds :
  gen_staticLimit (gen_key k) maxv op inputs ds = static_limit k maxv op inputs ds.
Proof.
  rewrite gen_staticLimit_eq. unfold m_staticLimit, static_limit, bind.
  destruct (op inputs ds) as [[outs ds1]|]; [|reflexivity].
  apply limit_fold_k_model. apply gen_key_eq.
Qed.

(* ---- closure, on the regenerated operators ---- *)
Section Closure.
  Variable sub : ty -> ty -> bool.

  Lemma gen_cx_one_point_closed : (forall a, sub a tobj = true) ->
    forall top1 top2 t1 t2 ds o1 o2 ds',
    typed sub top1 t1 -> typed sub top2 t2 ->
    (nret (root t1) = tobj -> untyped_nodes (flatten t1) /\ untyped_nodes (flatten t2)) ->
    gen_cxOnePoint (flatten t1) (flatten t2) ds = Ok ((o1, o2), ds') ->
    exists t1' t2', o1 = flatten t1' /\ o2 = flatten t2' /\ typed sub top1 t1' /\ typed sub top2 t2' /\
      (size t1' + size t2' = size t1 + size t2)%nat.
  Proof. intros Ho top1 top2 t1 t2 ds o1 o2 ds' H1 H2 H3 H. rewrite gen_cxOnePoint_eq in H. eapply cx_one_point_closed; eauto. Qed.

  Lemma gen_cx_leaf_biased_closed : forall termpb top1 top2 t1 t2 ds o1 o2 ds',
    typed sub top1 t1 -> typed sub top2 t2 ->
    gen_cxOnePointLeafBiased (flatten t1) (flatten t2) termpb ds = Ok ((o1, o2), ds') ->
    exists t1' t2', o1 = flatten t1' /\ o2 = flatten t2' /\ typed sub top1 t1' /\ typed sub top2 t2' /\
      (size t1' + size t2' = size t1 + size t2)%nat.
  Proof. intros termpb top1 top2 t1 t2 ds o1 o2 ds' H1 H2 H. rewrite gen_cxOnePointLeafBiased_eq in H. eapply cx_leaf_biased_closed; eauto. Qed.

  Hypothesis sub_trans : forall a b c, sub a b = true -> sub b c = true -> sub a c = true.

  Lemma gen_mut_uniform_closed : forall ps, pset_ok sub ps ->
    forall top t g ds out ds', 0 <= g_min g -> typed sub top t ->
    gen_mutUniform (flatten t) (fun ps' ty' => gen_gen_expr ps' g (Some ty')) ps ds = Ok (out, ds') ->
    exists t', out = flatten t' /\ typed sub top t'.
  Proof.
    intros ps Hp top t g ds out ds' H0 Ht H. rewrite gen_mutUniform_eq in H.
    rewrite (m_mutUniform_model _ _ g) in H by (intros; apply gen_gen_expr_eq).
    eapply mut_uniform_closed; eauto.
  Qed.

  Lemma gen_mut_node_replacement_closed : forall ps, pset_ok sub ps ->
    forall top t ds out ds', typed sub top t ->
    gen_mutNodeReplacement (flatten t) ps ds = Ok (out, ds') ->
    exists t', out = flatten t' /\ typed sub top t' /\ size t' = size t.
  Proof. intros ps Hp top t ds out ds' Ht H. rewrite gen_mutNodeReplacement_eq in H. eapply mut_node_replacement_closed; eauto. Qed.

  Lemma gen_mut_ephemeral_closed : forall top t mode ds out ds', typed sub top t ->
    gen_mutEphemeral (flatten t) mode ds = Ok (out, ds') ->
    exists t', out = flatten t' /\ typed sub top t' /\ size t' = size t.
  Proof. intros top t mode ds out ds' Ht H. rewrite gen_mutEphemeral_eq in H. eapply mut_ephemeral_closed; eauto. Qed.

  Lemma gen_mut_insert_closed : (forall a, sub a a = true) ->
    forall ps, pset_ok sub ps ->
    forall top t ds out ds', typed sub top t ->
    gen_mutInsert (flatten t) ps ds = Ok (out, ds') ->
    exists t', out = flatten t' /\ typed sub top t' /\ (size t <= size t')%nat.
  Proof. intros Hr ps Hp top t ds out ds' Ht H. rewrite gen_mutInsert_eq in H. eapply mut_insert_closed; eauto. Qed.

  Lemma gen_mut_shrink_closed : forall top t ds out ds', typed sub top t ->
    gen_mutShrink (flatten t) ds = Ok (out, ds') ->
    exists t', out = flatten t' /\ typed sub top t' /\ (size t' <= size t)%nat.
  Proof. intros top t ds out ds' Ht H. rewrite gen_mutShrink_eq in H. eapply mut_shrink_closed; eauto. Qed.
End Closure.

(* ---- staticLimit ---- *)
Lemma gen_static_limit_respected : forall k maxv op inputs ds res ds',
  Forall (within k maxv) inputs ->
  gen_staticLimit (gen_key k) maxv op inputs ds = Ok (res, ds') ->
  Forall (within k maxv) res.
Proof. intros k maxv op inputs ds res ds' Hin H. rewrite gen_static_limit_eq in H. eapply static_limit_respected; eauto. Qed.

Lemma gen_static_limit_closed : forall (P : list node -> Prop) k maxv op inputs ds res ds',
  Forall P inputs ->
  (forall outs ds1, op inputs ds = Ok (outs, ds1) -> Forall P outs) ->
  gen_staticLimit (gen_key k) maxv op inputs ds = Ok (res, ds') -> Forall P res.
Proof. intros P k maxv op inputs ds res ds' Hin Hop H. rewrite gen_static_limit_eq in H. eapply static_limit_closed; eauto. Qed.

(* ---- the guards of __setitem__ / searchSubtree / height never fire inside the regenerated operators ---- *)
Lemma gen_run_op_safe ps oc inputs ds e :
  (forall e', run_op ps oc inputs ds = Err e' -> benign e') ->
  gen_run_op ps oc inputs ds = Err e -> benign e.
Proof. intros H E. rewrite gen_run_op_eq in E. auto. Qed.
