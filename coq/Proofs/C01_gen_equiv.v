(* Every definition regenerated from deap/base.py equals the hand-written model the C01 theorems
   are stated about.  Compiled on every run, after coq/Gen/C01_gen.v has been regenerated. *)
From Coq Require Import List ZArith Bool Lia.
From DV Require Import Base.PyTuple Base.PyList Model.C01_Fitness Model.C01_PyRt Gen.C01_gen.
Import ListNotations.
Local Open Scope Z_scope.

Lemma zlen_eqb {A B} (a : list A) (b : list B) : Z.eqb (zlen a) (zlen b) = Nat.eqb (length a) (length b).
Proof.
  unfold zlen. destruct (Nat.eqb_spec (length a) (length b)) as [E|N].
  - rewrite E. apply Z.eqb_refl.
  - apply Z.eqb_neq. lia.
Qed.

Lemma gen_valid f : Fitness_valid f = valid f.
Proof. unfold Fitness_valid, valid. change 0 with (@zlen Z []). rewrite zlen_eqb. reflexivity. Qed.

Lemma gen_getValues w f : Fitness_getValues w f = get_values w f.
Proof. reflexivity. Qed.

Lemma gen_setValues w f v : Fitness_setValues w f v = set_values w f v.
Proof. unfold Fitness_setValues, set_values. rewrite zlen_eqb. reflexivity. Qed.

Lemma gen_delValues f : Fitness_delValues f = del_values f.
Proof. reflexivity. Qed.

Lemma gen_lt a b : Fitness_lt a b = f_lt a b. Proof. reflexivity. Qed.
Lemma gen_le a b : Fitness_le a b = f_le a b. Proof. reflexivity. Qed.
Lemma gen_eq a b : Fitness_eq a b = f_eq a b. Proof. reflexivity. Qed.
Lemma gen_gt a b : Fitness_gt a b = f_gt a b. Proof. reflexivity. Qed.
Lemma gen_ge a b : Fitness_ge a b = f_ge a b. Proof. reflexivity. Qed.
Lemma gen_ne a b : Fitness_ne a b = f_ne a b. Proof. reflexivity. Qed.

Lemma gen_dom_loop ps ne :
  for_ret ps ne
    (fun p not_equal => let '(s, o) := p in
       if Z.gtb s o then LContinue true else if Z.ltb s o then LReturn false else LContinue not_equal)
    (fun not_equal => not_equal) = dom_loop ps ne.
Proof.
  revert ne; induction ps as [|[s o] r IH]; intro ne; cbn; [reflexivity|].
  destruct (s >? o); [apply IH|]. destruct (s <? o); [reflexivity|apply IH].
Qed.

Lemma gen_dominates a b obj : Fitness_dominates a b obj = dominates a b obj.
Proof. unfold Fitness_dominates, dominates. apply gen_dom_loop. Qed.

Lemma gen_deepcopy f : Fitness_deepcopy f = deepcopy f.
Proof. reflexivity. Qed.

Lemma count_pos_existsb l : Z.gtb (Z.of_nat (length (filter (fun b : bool => b) l))) 0 = existsb (fun b => b) l.
Proof.
  induction l as [|x l IH]; [reflexivity|]. destruct x; cbn [filter existsb length orb].
  - rewrite Z.gtb_ltb. apply Z.ltb_lt. lia.
  - exact IH.
Qed.

Lemma gen_violates f : violates_constraint f = violates f.
Proof.
  (* robust to the shape of the source (a chained `not ... and ... and ...`, early returns, nested ifs): decide by case
     analysis on validity and on the presence of a violation list *)
  unfold violates_constraint, violates. rewrite ?gen_valid.
  destruct (valid f) eqn:Hv; destruct (cv f) as [l|]; cbn [is_none sum_optbl negb andb];
    rewrite ?count_pos_existsb; rewrite ?Hv; cbn [negb andb]; try reflexivity;
    destruct (existsb (fun b : bool => b) l); reflexivity.
Qed.

Lemma gen_c_delValues f : ConstrainedFitness_delValues f = c_del_values f.
Proof. reflexivity. Qed.

Ltac cons := intros; unfold ConstrainedFitness_le, ConstrainedFitness_lt, ConstrainedFitness_eq,
  ConstrainedFitness_gt, ConstrainedFitness_ge, ConstrainedFitness_ne, ConstrainedFitness_dominates,
  c_le, c_lt, c_eq, c_gt, c_ge, c_ne, c_dominates; cbv zeta; rewrite ?gen_violates, ?gen_dominates;
  try reflexivity;
  (* not syntactically the model's branch structure (e.g. merged or reordered tests on the two violation flags):
     decide by case analysis on the flags *)
  repeat match goal with |- context [violates ?x] => destruct (violates x) eqn:? end;
  cbn [andb orb negb]; try reflexivity.

Lemma gen_c_le a b : ConstrainedFitness_le a b = c_le a b. Proof. cons. Qed.
Lemma gen_c_lt a b : ConstrainedFitness_lt a b = c_lt a b. Proof. cons. Qed.
Lemma gen_c_eq a b : ConstrainedFitness_eq a b = c_eq a b. Proof. cons. Qed.
Lemma gen_c_gt a b : ConstrainedFitness_gt a b = c_gt a b.
Proof. unfold ConstrainedFitness_gt, c_gt. rewrite gen_c_le. reflexivity. Qed.
Lemma gen_c_ge a b : ConstrainedFitness_ge a b = c_ge a b.
Proof. unfold ConstrainedFitness_ge, c_ge. rewrite gen_c_lt. reflexivity. Qed.
Lemma gen_c_ne a b : ConstrainedFitness_ne a b = c_ne a b.
Proof. unfold ConstrainedFitness_ne, c_ne. rewrite gen_c_eq. reflexivity. Qed.
Lemma gen_c_dominates a b : ConstrainedFitness_dominates a b = c_dominates a b. Proof. cons. Qed.
Lemma gen_c_deepcopy f : ConstrainedFitness_deepcopy f = c_deepcopy f.
Proof. destruct f; reflexivity. Qed.

Theorem source_is_model :
  (forall f, Fitness_valid f = valid f) /\
  (forall w f, Fitness_getValues w f = get_values w f) /\
  (forall w f v, Fitness_setValues w f v = set_values w f v) /\
  (forall f, Fitness_delValues f = del_values f) /\
  (forall a b, Fitness_lt a b = f_lt a b /\ Fitness_le a b = f_le a b /\ Fitness_eq a b = f_eq a b /\
               Fitness_ne a b = f_ne a b /\ Fitness_gt a b = f_gt a b /\ Fitness_ge a b = f_ge a b) /\
  (forall a b obj, Fitness_dominates a b obj = dominates a b obj) /\
  (forall f, Fitness_deepcopy f = deepcopy f) /\
  (forall f, violates_constraint f = violates f) /\
  (forall f, ConstrainedFitness_delValues f = c_del_values f) /\
  (forall a b, ConstrainedFitness_lt a b = c_lt a b /\ ConstrainedFitness_le a b = c_le a b /\
               ConstrainedFitness_eq a b = c_eq a b /\ ConstrainedFitness_ne a b = c_ne a b /\
               ConstrainedFitness_gt a b = c_gt a b /\ ConstrainedFitness_ge a b = c_ge a b /\
               ConstrainedFitness_dominates a b = c_dominates a b) /\
  (forall f, ConstrainedFitness_deepcopy f = c_deepcopy f).
Proof.
  repeat split; intros;
    first [apply gen_valid|apply gen_getValues|apply gen_setValues|apply gen_delValues|apply gen_lt|apply gen_le
          |apply gen_eq|apply gen_ne|apply gen_gt|apply gen_ge|apply gen_dominates|apply gen_deepcopy
          |apply gen_violates|apply gen_c_delValues|apply gen_c_lt|apply gen_c_le|apply gen_c_eq|apply gen_c_ne
          |apply gen_c_gt|apply gen_c_ge|apply gen_c_dominates|apply gen_c_deepcopy].
Qed.
